(* Extraction of the executable model to OCaml.  ExtrOcamlBasic only: N, positive and nat
   stay Coq datatypes; no Extract Constant of our own. *)
From Coq Require Import Extraction ExtrOcamlBasic.
From Portus Require Import Codec CodecSpec Cursor Reg Control Handle Loop Image ImageSpec Machine SrcSem Typing.
Extraction Language OCaml.
Extraction "model.ml" from_buf serialize_msg decode_all utf8_valid c04_ok msg_in_range
  run_script spec_run
  run_model collect_programs pick
  compile_and_serialize compile sc_get utf8_decode image_wf enc_le N.add N.mul N.ltb N.eqb N.modulo
  dp_init read_msg conn_start invoke measure_bytes serialize_install serialize_bin
  invoke_src env_get wt_prog clobbers_prog legacy_inf_prog new_with_scope prims0.
