(* C16 — no message history or transport failure can crash the runtime.
   Statements only; proofs live in Portus.Runtime.{LoopFacts,TraceFacts}. *)
From Portus Require Import Loop LoopFacts TraceFacts.

(* the whole run, for every script of datagrams of arbitrary bytes, receive errors and stop
   requests, every user behaviour and every pattern of send failures: the result is success or
   an error value — never a panic, and the model never runs out of fuel *)
Theorem C16_run_never_panics : forall cfg user send_ok bufsize stopped0 evs,
  let res := snd (run_model cfg user send_ok bufsize stopped0 evs) in res = ROk \/ res = RErr.
Proof. exact run_model_total. Qed.
Print Assumptions C16_run_never_panics.

Theorem C16_step_never_panics : forall cfg user send_ok st a m, step cfg user send_ok st a m <> SPanic.
Proof. exact step_not_panic. Qed.
Print Assumptions C16_step_never_panics.

(* ignored messages (unknown type / undecodable header, measurement for an unknown datapath or
   flow) return the state unchanged and emit nothing: later messages are dispatched exactly as
   if the ignored one had never arrived *)
Theorem C16_ignored_inert : forall cfg user send_ok st a m,
  ignored st a m -> step cfg user send_ok st a m = SOk st [].
Proof. exact ignored_inert. Qed.
Print Assumptions C16_ignored_inert.

(* ... over whole histories: an ignored message may be inserted anywhere in a history (after any prefix
   h1, in the state that prefix leads to) or removed from it: the same state is reached and the same
   effects are emitted, before it and after it; only the record of its arrival differs *)
From Portus Require Import RunTrace IgnoreFacts.
Theorem C16_ignored_message_is_transparent : forall cfg user send_ok h1 h2 st st1 t1 a m,
  trace cfg user send_ok st h1 = Some (st1, t1) -> ignored st1 a m ->
  match trace cfg user send_ok st (h1 ++ h2), trace cfg user send_ok st (h1 ++ (a, m) :: h2) with
  | Some (s, t), Some (s', t') => s' = s /\ outs t' = outs t /\
                                  exists t2, t = t1 ++ t2 /\ t' = t1 ++ TIn a m :: t2
  | None, None => True
  | _, _ => False
  end.
Proof. exact ignored_message_is_transparent. Qed.
Print Assumptions C16_ignored_message_is_transparent.

(* translator obligations (lib/gen_statespace.py reads the structs, statics and mutable bindings of the
   modelled code on every run): the code has the state the model represents and no other *)
From Portus Require Import StateTie.
From PortusGen Require Import StateSpace.
From Coq Require Import String.
Open Scope string_scope.
Theorem C16_source_cursor_state : impl_fields_Backend = model_fields_Backend.
Proof. exact fields_Backend_tie. Qed.
Print Assumptions C16_source_cursor_state.
Theorem C16_source_shared_state_ipc : nth 2 impl_shared_state_tokens "" = "src/ipc/mod.rs: AtomicBool".
Proof. exact shared_state_ipc_mod. Qed.
Print Assumptions C16_source_shared_state_ipc.
Theorem C16_source_shared_state_serialize : nth 10 impl_shared_state_tokens "" = "src/serialize/mod.rs: unsafe".
Proof. exact shared_state_serialize_mod. Qed.
Print Assumptions C16_source_shared_state_serialize.
