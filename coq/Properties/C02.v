(* C02 — every flow event reaches exactly the right flow handler, exactly once.
   Statements only; proofs live in Portus.Runtime.LoopFacts.
   [look st a s] is the handler bound to (datapath address a, flow id s): the flat-map view of
   the runtime's two-level map.  User callbacks and transport faults are arbitrary oracles. *)
From Portus Require Import Loop LoopFacts.

(* create: the pair is rebound to a FRESH handler (identity = the counter), which receives the
   message's connection details; the handler it replaces is dropped without a close callback,
   before the new one is created; every other binding is untouched *)
Theorem C02_create : forall cfg user send_ok st a c st' es,
  step cfg user send_ok st a (MCr c) = SOk st' es ->
  exists fl' ces,
    look st' a (c_sid c) = Some fl' /\
    f_hid fl' = st_next st /\ f_addr fl' = a /\ f_sid fl' = c_sid c /\
    st_next st' = S (st_next st) /\
    (forall s, s <> c_sid c -> look st' a s = look st a s) /\
    (forall b s, b <> a -> look st' b s = look st b s) /\
    known st' a = true /\ (forall b, b <> a -> known st' b = known st b) /\
    Forall (cmd_effect_ok cfg fl') ces /\
    es = (if known st a then [] else map (fun p => EInstall a (p_uid p)) (cfg_progs cfg)) ++
         (match look st a (c_sid c) with Some old => [EDrop (f_hid old)] | None => [] end) ++
         [ENew (st_next st)
               (pick (cfg_algs cfg) (cfg_default cfg) (match c_alg c with Some s => s | None => [] end))
               a c] ++ ces.
Proof. exact step_create. Qed.
Print Assumptions C02_create.

(* measurement: delivered to the handler bound to (a, sid) and to no other, with uid and values
   intact; an empty one closes that handler exactly once and unbinds it; unknown datapath,
   unknown flow, or a flow already closed: nothing happens and the state is unchanged *)
Theorem C02_measure : forall cfg user send_ok st a x st' es,
  step cfg user send_ok st a (MMs x) = SOk st' es ->
  st_next st' = st_next st /\
  (forall b, known st' b = known st b) /\
  (forall b s, (b <> a \/ s <> m_sid x) -> look st' b s = look st b s) /\
  match look st a (m_sid x) with
  | None => st' = st /\ es = []
  | Some fl =>
    if m_nf x =? 0 then
      look st' a (m_sid x) = None /\ es = [EClose (f_hid fl); EDrop (f_hid fl)]
    else
      exists fl' ces, look st' a (m_sid x) = Some fl' /\ same_handle fl fl' /\
        Forall (cmd_effect_ok cfg fl) ces /\
        es = EReport (f_hid fl) (m_sid x) (m_uid x) (m_fields x) :: ces
  end.
Proof. exact step_measure. Qed.
Print Assumptions C02_measure.

(* handler identities bound at any time are pairwise distinct and below the counter, in every
   reachable state: a handler unbound by close/replace/restart is never bound, fed or closed again *)
Theorem C02_handlers_distinct : forall cfg user send_ok h st' es,
  steps cfg user send_ok init_state h = Some (st', es) -> handles_ok st' /\ hids_ok st'.
Proof.
  intros cfg user send_ok h st' es H.
  exact (reachable_invariants cfg user send_ok h init_state st' es H handles_ok_init hids_ok_init).
Qed.
Print Assumptions C02_handlers_distinct.

Theorem C02_unknown_messages_do_nothing : forall cfg user send_ok st a o,
  step cfg user send_ok st a (MOther o) = SOk st [].
Proof. exact step_other. Qed.
Print Assumptions C02_unknown_messages_do_nothing.

(* ... and of every run of the executable model that the checks compare with the implementation: its
   effects are those of the trace of some history from the initial state (then the final drops), and
   the state it ends in has one live handler per (address, flow id) and never reused a handler id *)
From Portus Require Import TraceFacts RunTrace.
Theorem C02_every_run_ends_in_a_good_state : forall cfg user send_ok bufsize stopped0 evs es res,
  run_model cfg user send_ok bufsize stopped0 evs = (es, res) -> cfg_compile_ok cfg = true ->
  exists h st' t, trace cfg user send_ok init_state h = Some (st', t) /\ ends_as cfg user send_ok st' t es /\
                  handles_ok st' /\ hids_ok st'.
Proof. exact run_model_ends_in_a_good_state. Qed.
Print Assumptions C02_every_run_ends_in_a_good_state.

(* which history: for every script of datagrams, receive errors and stop requests, the messages a run
   dispatches are, in order, what the receive path yields for the script -- each datagram, cut to the
   buffer, decoded on its own (spec_run, C08's specification) -- all of them, unless a failed send
   during an installation ended the run at one of them.  Install-before-use holds of the trace. *)
From Portus Require Import Cursor CursorFacts.
Theorem C02_the_history_is_what_the_datagrams_decode_to : forall cfg user send_ok bufsize evs es res,
  run_model cfg user send_ok bufsize false evs = (es, res) -> cfg_compile_ok cfg = true ->
  exists h st' t, trace cfg user send_ok init_state h = Some (st', t) /\ scan cfg [] t /\
                  ends_on cfg user send_ok st' t es h (hist (spec_run bufsize evs)).
Proof. exact run_model_history. Qed.
Print Assumptions C02_the_history_is_what_the_datagrams_decode_to.

(* translator obligations (lib/gen_statespace.py reads the structs, statics and mutable bindings of the
   modelled code on every run): the code has the state the model represents and no other *)
From Portus Require Import StateTie.
From PortusGen Require Import StateSpace.
From Coq Require Import String.
Open Scope string_scope.
Theorem C02_source_run_inner_state : impl_mut_run_inner = model_mut_run_inner.
Proof. exact mut_run_inner_tie. Qed.
Print Assumptions C02_source_run_inner_state.
Theorem C02_source_shared_state_run : nth 1 impl_shared_state_tokens "" = "src/run.rs: AtomicBool HashMap unsafe".
Proof. exact shared_state_run. Qed.
Print Assumptions C02_source_shared_state_run.

(* translator obligation shared with C09: run_inner keeps its flows in a map keyed by the datapath
   address whose values are maps keyed by the flow id, and every access goes through the receive
   address itself (no digest, no side table, no bulk removal) *)
From PortusGen Require Import FlowKey.
Theorem C02_source_keys_flows_by_address_then_flow_id : flow_map_shape = KeyAddrThenSid.
Proof. reflexivity. Qed.
Print Assumptions C02_source_keys_flows_by_address_then_flow_id.
