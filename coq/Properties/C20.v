(* C20 — the documented language is accepted, and layout does not change meaning.  PROVED.

   The documented grammar is the relation lay_prog (Portus.Lang.Layout): an abstract program
   (declarations before/inside/after an optional Report block, with volatile markers; one or
   more events, each a condition and one or more statements built from literals, names, the
   sixteen operators and the two commands) and a text that lays it out with ANY runs of
   space/tab/CR/LF between tokens (empty wherever two tokens cannot fuse), EITHER spelling of
   each operator, an optional newline-terminated comment before each event and any number of
   comments among the statements of each event.
     C20_grammar_accepted      every layout of every abstract program that is well typed and
                               within the register limits (record `accepts`: declared names
                               distinct and not built in, literal initial values that fit the
                               immediate, at most 16 report and 16 control variables, at most 6
                               locals, every condition and statement typed by the documented
                               discipline with at most 8 operator results) compiles AND
                               serializes: compile_and_serialize returns Ok;
     C20_grammar_parses        every layout of every abstract program is parsed, with the fuel
                               new_with_scope uses, to exactly that program (comments as empty
                               statements);
     C20_layouts_compile_alike any two layouts of one abstract program give the same compile
                               result and the same serialized image and scope, whatever that
                               result is (Ok, or the same error);
     C20_compile_is_a_function_of_the_program  the result is compile_aprog ap, which does not
                               mention the text.
   Compiling the same text twice is the same term in a pure model; the c20 stream checks it
   (and 8/40 random layouts per generated program) on the real compiler.
   Proofs: Portus.Lang.Layout, Portus.Lang.Accept, Portus.Lang.LayoutFacts; non-vacuity:
   Portus.Lang.LayoutExample, Portus.Lang.AcceptExample. *)
From Portus Require Import Image LayoutFacts Layout LayoutExample EndToEnd TablesTie Accept AcceptExample.
From PortusGen Require Import LangTables.

Definition C20_layout_statement : Prop :=
  forall ap t1 t2 src1 src2 ups,
    lay_prog ap t1 -> lay_prog ap t2 -> utf8_decode src1 = Some t1 -> utf8_decode src2 = Some t2 ->
    (compile src1 ups = compile src2 ups) /\ (compile_and_serialize src1 ups = compile_and_serialize src2 ups).

Theorem C20_layouts_compile_alike : C20_layout_statement.
Proof. exact layouts_compile_alike. Qed.
Print Assumptions C20_layouts_compile_alike.

Definition C20_acceptance_statement : Prop :=
  forall ap T t src, lay_prog ap t -> utf8_decode src = Some t -> accepts ap T ->
    exists bytes sc, compile_and_serialize src [] = inl (Ok (bytes, sc)).

Theorem C20_grammar_accepted : C20_acceptance_statement.
Proof. exact grammar_accepted. Qed.
Print Assumptions C20_grammar_accepted.

(* the expression-level core: a typed expression lowers, the link between typing environment and
   scope is kept, and every register it mentions is within the files *)
Theorem C20_typed_expression_lowers : forall T cap, cap <= 254 -> forall e g t g' sc,
  ty_expr g e = Some (t, g') -> enames nd e ->
  (forall x, In x (targets e) -> In x T \/ tget g x <> None) ->
  J g sc -> C T cap sc ->
  exists is r sc', compile_expr e sc = Ok (is, r, sc') /\ J g' sc' /\ C T cap sc' /\ cle sc sc' /\
    sc_ntmp sc' = sc_ntmp sc + N.of_nat (valops e) /\
    vty_of (reg_type r) = Some t /\ enc_ok sc' r /\ Forall (ienc sc') is /\
    sext (sc_named sc) (sc_named sc').
Proof. exact accept_expr. Qed.
Print Assumptions C20_typed_expression_lowers.

(* non-vacuity: the example program is well typed and within the limits *)
Example C20_example_accepts : accepts ex_prog [].
Proof. exact ex_accepts. Qed.

Theorem C20_grammar_parses : forall ap t, lay_prog ap t ->
  exists evs rest, p_defs (parse_fuel t) t = POk (decls_of (ap_d1 ap) (ap_rep ap) (ap_d2 ap)) rest /\
                   p_events (parse_fuel t) rest = POk evs [] /\ map strip_event evs = ap_events ap.
Proof. exact grammar_parses. Qed.
Print Assumptions C20_grammar_parses.

Theorem C20_compile_is_a_function_of_the_program : forall ap t src ups,
  lay_prog ap t -> utf8_decode src = Some t -> compile src ups = compile_aprog ap ups.
Proof. exact compile_layout. Qed.
Print Assumptions C20_compile_is_a_function_of_the_program.

(* every expression layout is parsed to its expression, given enough fuel and a following
   character that cannot extend a name or numeral *)
Theorem C20_expression_layouts_parse : forall e t, lay_expr e t -> forall f rest, (length t < f)%nat -> follow_ok e rest ->
  p_expr f (t ++ rest) = POk e (skip_ws rest).
Proof. exact p_expr_lay. Qed.
Print Assumptions C20_expression_layouts_parse.

(* non-vacuity: the compact and the spread-out text below are layouts of one abstract program *)
Example C20_example_layouts : lay_prog ex_prog text_a /\ lay_prog ex_prog text_b /\ text_a <> text_b.
Proof. split; [exact lay_a|split; [exact lay_b|discriminate]]. Qed.

Theorem C20_whitespace_before_expression : forall f w i, all_ws w -> p_expr f (w ++ i) = p_expr f i.
Proof. exact expr_leading_ws. Qed.
Print Assumptions C20_whitespace_before_expression.

Theorem C20_whitespace_after_expression : forall f i e rest, p_expr f i = POk e rest -> skip_ws rest = rest.
Proof. exact expr_trailing_ws. Qed.
Print Assumptions C20_whitespace_after_expression.

Theorem C20_whitespace_before_forms : forall f w i, all_ws w ->
  p_decl (w ++ i) = p_decl i /\ p_event f (w ++ i) = p_event f i /\
  p_event_item f (w ++ i) = p_event_item f i /\ p_defs f (w ++ i) = p_defs f i.
Proof.
  intros f w i H. repeat split.
  - apply decl_leading_ws; exact H.
  - apply event_leading_ws; exact H.
  - apply event_item_leading_ws; exact H.
  - apply defs_leading_ws; exact H.
Qed.
Print Assumptions C20_whitespace_before_forms.

Theorem C20_whitespace_after_parenthesis : forall rec w i, all_ws w ->
  p_sexp_with rec (lit "(" ++ w ++ i) = p_sexp_with rec (lit "(" ++ i).
Proof. exact sexp_inner_ws. Qed.
Print Assumptions C20_whitespace_after_parenthesis.

Theorem C20_operator_spellings : forall rest,
  map (fun to => p_op (fst to ++ rest)) op_table = map (fun to => POk (snd to) rest) op_table.
Proof. exact op_spellings. Qed.
Print Assumptions C20_operator_spellings.

Theorem C20_comment_before_event : forall f t i, no_newline t -> p_comment (skip_ws i) = PErr ->
  p_event_item f (lit "#" ++ t ++ 10 :: i) = p_event_item f i.
Proof. exact comment_before_event. Qed.
Print Assumptions C20_comment_before_event.

Theorem C20_comment_among_statements : forall f t i, no_newline t ->
  p_expr (S f) (lit "#" ++ t ++ 10 :: i) = POk ENone (skip_ws i).
Proof. exact comment_statement. Qed.
Print Assumptions C20_comment_among_statements.

Theorem C20_comment_statement_is_skipped : forall es1 es2 sc,
  compile_body (es1 ++ ENone :: es2) sc = compile_body (es1 ++ es2) sc.
Proof. exact comment_statement_is_skipped. Qed.
Print Assumptions C20_comment_statement_is_skipped.

(* non-vacuity: two layouts of one program, with comments and both operator spellings, compile
   to the same image and the same scope *)
Example C20_example_two_layouts :
  compile_and_serialize (lit "(def (Report (volatile x 0)) (c 5)) (when (> c 3) (:= Report.x (+ Report.x c)) (report))") [] =
  compile_and_serialize (lit "  ( def
	(Report  ( volatile   x 0 ) )(c 5)  )
# a comment (with parens) := x
 (  when(gt c 3)   # another
    (  bind Report.x(add Report.x c) )  # trailing
  ( report )
 )
 ") [].
Proof. vm_compute. reflexivity. Qed.

(* translator obligations (lib/gen_langtables.py reads `op` and `command` from src/lang/ast.rs on
   every run): the ordered operator spellings and the two commands are the model's *)
Theorem C20_source_operator_table_is_the_models : impl_op_table = op_table.
Proof. exact op_table_tie. Qed.
Print Assumptions C20_source_operator_table_is_the_models.

Theorem C20_source_command_table_is_the_models : impl_cmd_table = model_cmd_table.
Proof. exact cmd_table_tie. Qed.
Print Assumptions C20_source_command_table_is_the_models.
