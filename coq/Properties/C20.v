(* C20 — the documented language is accepted, and layout does not change meaning.
   PARTIAL at this stage.  The full statement quantifies over all layouts of all well-typed
   programs; proved so far are its building blocks on the character-level parser model: runs
   of space/tab/CR/LF before any form and after any expression are irrelevant, every spelling
   of every operator is recognised whatever follows it, a newline-terminated comment before an
   event or among the statements of an event changes neither the instructions nor the scope.
   The layout-variant stream compares images and scopes of 8 (quick) / 40 (thorough) random
   layouts per generated program.  Proofs: Portus.Lang.LayoutFacts. *)
From Portus Require Import Image LayoutFacts.

Theorem C20_whitespace_before_expression : forall f w i, all_ws w -> p_expr f (w ++ i) = p_expr f i.
Proof. exact expr_leading_ws. Qed.
Print Assumptions C20_whitespace_before_expression.

Theorem C20_whitespace_after_expression : forall f i e rest, p_expr f i = POk e rest -> skip_ws rest = rest.
Proof. exact expr_trailing_ws. Qed.
Print Assumptions C20_whitespace_after_expression.

Theorem C20_whitespace_before_forms : forall f w i, all_ws w ->
  p_decl (w ++ i) = p_decl i /\ p_event f (w ++ i) = p_event f i /\
  p_event_item f (w ++ i) = p_event_item f i /\ p_defs f (w ++ i) = p_defs f i.
Proof.
  intros f w i H. repeat split.
  - apply decl_leading_ws; exact H.
  - apply event_leading_ws; exact H.
  - apply event_item_leading_ws; exact H.
  - apply defs_leading_ws; exact H.
Qed.
Print Assumptions C20_whitespace_before_forms.

Theorem C20_whitespace_after_parenthesis : forall rec w i, all_ws w ->
  p_sexp_with rec (lit "(" ++ w ++ i) = p_sexp_with rec (lit "(" ++ i).
Proof. exact sexp_inner_ws. Qed.
Print Assumptions C20_whitespace_after_parenthesis.

Theorem C20_operator_spellings : forall rest,
  map (fun to => p_op (fst to ++ rest)) op_table = map (fun to => POk (snd to) rest) op_table.
Proof. exact op_spellings. Qed.
Print Assumptions C20_operator_spellings.

Theorem C20_comment_before_event : forall f t i, no_newline t -> p_comment (skip_ws i) = PErr ->
  p_event_item f (lit "#" ++ t ++ 10 :: i) = p_event_item f i.
Proof. exact comment_before_event. Qed.
Print Assumptions C20_comment_before_event.

Theorem C20_comment_among_statements : forall f t i, no_newline t ->
  p_expr (S f) (lit "#" ++ t ++ 10 :: i) = POk ENone (skip_ws i).
Proof. exact comment_statement. Qed.
Print Assumptions C20_comment_among_statements.

Theorem C20_comment_statement_is_skipped : forall es1 es2 sc,
  compile_body (es1 ++ ENone :: es2) sc = compile_body (es1 ++ es2) sc.
Proof. exact comment_statement_is_skipped. Qed.
Print Assumptions C20_comment_statement_is_skipped.

(* non-vacuity: two layouts of one program, with comments and both operator spellings, compile
   to the same image and the same scope *)
Example C20_example_two_layouts :
  compile_and_serialize (lit "(def (Report (volatile x 0)) (c 5)) (when (> c 3) (:= Report.x (+ Report.x c)) (report))") [] =
  compile_and_serialize (lit "  ( def
	(Report  ( volatile   x 0 ) )(c 5)  )
# a comment (with parens) := x
 (  when(gt c 3)   # another
    (  bind Report.x(add Report.x c) )  # trailing
  ( report )
 )
 ") [].
Proof. vm_compute. reflexivity. Qed.
