(* C01 — compiled bytecode computes what the datapath program source says.
   PROVED end to end on the model: [C01_compile_correct].  For every source text in the property's
   quantifier (accepted by the compiler and by the datapath, well typed under the documented
   discipline, no operand overwritten before use, no legacy-infinity initial value) and every
   finite sequence of measurement vectors of 64-bit values: the image portus' compiler model
   emits, wrapped in the install message, read by the libccp model, selected by a change-program
   message and run, yields invocation by invocation the same fault code, window and rate settings,
   report contents and variable values as the source semantics.
   The layers are stated separately as well:
     C01_expression_simulation, C01_events_simulation   (all register states, all inputs)
     C01_operators_agree                                (instruction vs operator semantics)
     C01_clobbers_refuted, C01_unbounded_inputs_refuted (each hypothesis is needed: witnesses)
   plus kernel-evaluated non-vacuity witnesses.
   What remains outside the theorem is the tie of the two models to the code, checked on every
   run: (a) portus' compiler against the compiler model (byte-identical images), (b) the libccp
   model against the compiled libccp C code, (c) the source semantics against what the real
   libccp does with the bytes portus produced.
   Definitions: Portus.Lang.{SrcSem,Typing,EndToEnd,Sim*,C01Final}, Portus.Dp.Machine. *)
From Portus Require Import EndToEnd SimProg C01Final.

(* The property, at full strength. [in_c01_scope]: the text compiles, serializes, is accepted by
   the datapath model, and the program is well typed, outside the clobber class and without a
   legacy-infinity initial value.  [inputs_bounded]: every measurement is a 64-bit value.
   [agrees]: machine_run (install + change-program + one ccp_invoke per input, observed through
   the callbacks, the report message bytes and the scope's registers) equals src_run. *)
Definition C01_full_statement : Prop :=
  forall src ins, in_c01_scope src = true -> inputs_bounded ins -> agrees src ins = Some true.

Theorem C01_compile_correct : C01_full_statement.
Proof. exact compile_correct_end_to_end. Qed.
Print Assumptions C01_compile_correct.

(* the bound on the inputs is needed: the report message carries 64-bit fields *)
Theorem C01_unbounded_inputs_refuted :
  exists src ins, in_c01_scope src = true /\ agrees src ins = Some false.
Proof.
  exists (lit "(def (Report (x 0))) (when true (:= Report.x Ack.bytes_acked) (report))").
  exists [(mkPrims 18446744073709551621 0 0 0 0 0 0 0 0 0 0 0 0 0 0 0, 2000)].
  split; vm_compute; reflexivity.
Qed.
Print Assumptions C01_unbounded_inputs_refuted.

(* ---------- the simulation theorems ----------
   scf is the scope when lowering has finished; [R scf cx s c]: every variable's register holds
   the variable's value, the time bases and the measurements agree.  [scf_ok]: names map to
   distinct registers of the variable classes, primitives to their fixed indices, Micros to
   implicit 3.  [link]/[tname_ok] tie the typing environment to the scope. *)
Theorem C01_expression_simulation :
  forall (scf : list (name * reg)) (cx : ctx), scf_ok scf ->
  forall (e : expr) (g : tenv) (t : vty) (g' : tenv) (sc : scope) (is : list instr) (r : reg) (sc' : scope),
    ty_expr g e = Some (t, g') -> clobbers e = false ->
    compile_expr e sc = Ok (is, r, sc') ->
    link g (sc_named sc) -> tname_ok (sc_named sc) -> sext (sc_named sc') scf -> sc_ntmp sc <= 8 ->
    Forall instr_within is ->
    res_ok scf sc sc' e r /\ sc_ntmp sc' <= 8 /\ (forall (s : sstate) (c : conn), R scf cx s c ->
       match eval cx s e with
       | Val s' v =>
         exists c' : conn, run_is (cx_clock cx) (cx_dp_zero cx) c is = inr c' /\ R scf cx s' c' /\ tmp_frame (sc_ntmp sc) c c' /\ read_reg (cx_clock cx) (cx_dp_zero cx) c' (dreg_of r) = v
       | Fault zc s' =>
         exists c' : conn, run_is (cx_clock cx) (cx_dp_zero cx) c is = inl (zc, c') /\ R scf cx s' c'
       end).
Proof. exact sim_expr. Qed.
Print Assumptions C01_expression_simulation.

Theorem C01_events_simulation :
  forall (scf : list (name * reg)) (cx : ctx), scf_ok scf -> scf_impl scf ->
  forall (evs : list event) (g : tenv) (sc : scope) (idx : N) (devs : list Lower.devent)
         (is : list instr) (sc' : scope) (pre post : list dinstr) (dp : dprog),
    ty_events g (map sev evs) = true ->
    forallb (fun ev : event => negb (clobbers (ev_flag ev)) && forallb (fun e : expr => negb (clobbers e)) (ev_body ev)) evs = true ->
    compile_events evs sc idx = Ok (devs, is, sc') ->
    link g (sc_named sc) -> tname_ok (sc_named sc) -> sext (sc_named sc') scf ->
    Forall instr_within is ->
    dp_instrs dp = pre ++ map dinstr_of is ++ post -> idx = N.of_nat (length pre) ->
    forall (s : sstate) (c : conn), R scf cx s c ->
      match run_events cx s (map sev evs) with
      | inl (zc, s') =>
        exists c' : conn, run_exprs (cx_clock cx) (cx_dp_zero cx) dp c (map dexpr_of devs) = inl (zc, c') /\ R scf cx s' c'
      | inr s' =>
        exists c' : conn, run_exprs (cx_clock cx) (cx_dp_zero cx) dp c (map dexpr_of devs) = inr c' /\ R scf cx s' c'
      end.
Proof. exact sim_events. Qed.
Print Assumptions C01_events_simulation.

(* the value operators mean the same thing on both sides: the machine's instruction semantics
   and the source semantics' op_sem agree on every pair of 64-bit operands (the machine opcode
   for && is mul and for || is max) *)
Definition opcode_of (o : op) : N :=
  match o with
  | OAdd => 0 | ODiv => 3 | OEquiv => 4 | OGt => 6 | OLt => 8 | OMax | OOr => 9 | OMaxWrap => 10
  | OMin => 11 | OMul | OAnd => 12 | OSub => 14 | _ => 15
  end.

Theorem C01_operators_agree : forall o a b c (ret : dreg),
  opcode_of o < 15 ->
  let i := mkDInstr (opcode_of o) ret (mkDReg T_IMM 0 a) (mkDReg T_IMM 0 b) in
  match exec_instr 0 0 c i, op_sem o a b with
  | inl z, inl z' => z = z'
  | inr c', inr v => c' = write_reg 0 c v ret
  | _, _ => False
  end.
Proof.
  intros o a b c ret Ho i. subst i. unfold exec_instr, read_reg. cbn [di_left di_right dr_type dr_value di_op di_ret].
  change (T_IMM =? T_IMM) with true. cbv iota.
  destruct o; cbn [opcode_of] in *; try (exfalso; lia);
    cbn [N.eqb Pos.eqb op_sem];
    repeat match goal with |- context [if ?x then _ else _] => destruct x eqn:? end; auto; try discriminate.
Qed.
Print Assumptions C01_operators_agree.

(* without the clobber hypothesis the statement is false: a sibling bind overwrites an operand
   between its evaluation and the instruction that uses it.  (+ c (:= c 10)) with c = 2 yields 20
   on the datapath; the source says 12. *)
Theorem C01_clobbers_refuted :
  exists src ins, clock_monotone 1000 ins = true /\ agrees src ins = Some false.
Proof.
  exists (lit "(def (Report (x 1)) (c 2)) (when true (:= Report.x (+ c (:= c 10))) (report))").
  exists [(prims0, 2000)].
  split; vm_compute; reflexivity.
Qed.
Print Assumptions C01_clobbers_refuted.

(* non-vacuity: programs inside the quantifier on which both sides are run by the kernel and agree:
   several events with fallthrough and report, a volatile and a non-volatile report variable,
   ewma with history, a conditional, a local used across events, boundary inputs, a fault *)
Definition ex_prims (acked rtt : N) : prims :=
  mkPrims acked 1 0 0 0 0 0 0 rtt 1000 2000 3000 4 100 200 0.

Example C01_example_accumulate_report :
  let src := lit "(def (Report (volatile acked 0) (rtt 0)) (thresh 3000) (seen 0))
      (when true (:= Report.acked (+ Report.acked Ack.bytes_acked)) (:= Report.rtt (ewma 2 Flow.rtt_sample_us)) (:= seen (+ seen 1)) (:= twice (* seen 2)) (fallthrough))
      (when (> Micros thresh) (report) (:= Micros 0))
      (when (&& (> twice 4) (< Report.acked 100)) (:= Cwnd (* Cwnd 2)))" in
  in_c01_scope src = true /\
  agrees src [(ex_prims 10 50, 1500); (ex_prims 20 70, 2500); (ex_prims 4294967295 0, 9000);
              (ex_prims 1 18446744073709551615, 9001); (ex_prims 0 2147483648, 20000)] = Some true.
Proof. vm_compute. split; reflexivity. Qed.

Example C01_example_fault_aborts :
  let src := lit "(def (Report (x 5)) (c 1)) (when true (:= c (- c 1)) (:= Report.x (/ Report.x c)) (report))" in
  in_c01_scope src = true /\
  agrees src [(ex_prims 1 1, 1500); (ex_prims 1 1, 1600)] = Some true /\
  (* the first invocation faults with a division by zero after c was decremented *)
  match load src 77 with
  | Some (d, p, _, sc) => map o_rc (machine_run sc 1 d [(ex_prims 1 1, 1500)]) = [(-92)%Z]
  | None => False
  end.
Proof. vm_compute. repeat split; reflexivity. Qed.

Example C01_example_conditional_and_or :
  let src := lit "(def (Report (volatile m +infinity) (hit false)) (k 7))
      (when (|| (< Flow.rtt_sample_us Report.m) Flow.was_timeout) (:= Report.m (min Report.m Flow.rtt_sample_us)) (:= Report.hit (!if Report.hit (> k 3))) (fallthrough))
      (when (== k 7) (:= k (wrapped_max k Ack.bytes_acked)) (report))" in
  in_c01_scope src = true /\
  agrees src [(ex_prims 10 50, 1500); (ex_prims 0 40, 2500); (ex_prims 9 60, 2600)] = Some true.
Proof. vm_compute. split; reflexivity. Qed.

(* a bind whose target is itself a bind (the compiler accepts it; the typing discipline gives it the
   left-to-right meaning: the inner bind, then the value, then the store): inside the theorem *)
Example C01_example_bind_into_a_bind :
  let src := lit "(def (Report (volatile a 0) (b 1)) (c 100))
      (when true (bind (bind Report.a 7) (+ Report.a 1)) (:= Report.b (:= (:= c 5) (+ c Report.a))) (report))" in
  in_c01_scope src = true /\
  agrees src [(ex_prims 1 1, 1500); (ex_prims 2 2, 2500)] = Some true /\
  (* the first report carries Report.a = 8 (7, then 7 + 1) and Report.b = 13 (c := 5, then 5 + 8) *)
  match load src 77 with
  | Some (d, p, _, sc) => map o_report (src_run sc p true (mkS [] 1000) [(ex_prims 1 1, 1500)]) = [[[8; 13]]]
  | None => False
  end.
Proof. vm_compute. repeat split; reflexivity. Qed.
