(* C12 — report fields are looked up by name correctly or refused with the right error.
   Statements only; proofs live in Portus.Runtime.HandleFacts.  get_field is a total function
   into values and the four refusals, so it cannot panic. *)
From Portus Require Import Loop HandleFacts.

Theorem C12_stale : forall rep_uid fields sc_uid sc n,
  sc_uid <> rep_uid -> get_field rep_uid fields sc_uid sc n = GfErr Stale.
Proof. exact get_field_stale. Qed.
Print Assumptions C12_stale.

Theorem C12_same_program : forall uid fields sc n,
  get_field uid fields uid sc n =
  match sc_get sc n with
  | None => GfErr NotFound
  | Some (Report idx _ _) =>
    match nth_error fields (N.to_nat idx) with
    | Some v => GfOk v
    | None => GfErr InvalidReport
    end
  | Some _ => GfErr RegType
  end.
Proof. exact get_field_same_program. Qed.
Print Assumptions C12_same_program.

Theorem C12_value_from_own_slot_only : forall rep_uid fields sc_uid sc n v,
  get_field rep_uid fields sc_uid sc n = GfOk v ->
  sc_uid = rep_uid /\
  exists idx t vol, sc_get sc n = Some (Report idx t vol) /\ nth_error fields (N.to_nat idx) = Some v.
Proof. exact get_field_value. Qed.
Print Assumptions C12_value_from_own_slot_only.

Theorem C12_too_short : forall uid fields sc n idx t vol,
  sc_get sc n = Some (Report idx t vol) -> (length fields <= N.to_nat idx)%nat ->
  get_field uid fields uid sc n = GfErr InvalidReport.
Proof. exact get_field_too_short. Qed.
Print Assumptions C12_too_short.

(* tied to the compiler (Runtime/SlotReads.v): in a scope that satisfies the compiler's scope
   invariant, two different names that both read successfully read two different positions of the
   report — a lookup never returns the value of another variable's slot — and a report with as
   many values as the program has report variables always has the slot.  The invariant holds for
   the scope of every compiled program of the typed fragment (C01's quantifier). *)
From Portus Require Import ScopeInv C01Final SlotReads.

Theorem C12_distinct_names_read_distinct_positions : forall sc uid fields x y vx vy,
  sinv sc -> x <> y ->
  get_field uid fields uid (sc_named sc) x = GfOk vx ->
  get_field uid fields uid (sc_named sc) y = GfOk vy ->
  exists ix iy, ix <> iy /\ nth_error fields (N.to_nat ix) = Some vx /\ nth_error fields (N.to_nat iy) = Some vy.
Proof. exact distinct_names_read_distinct_positions. Qed.
Print Assumptions C12_distinct_names_read_distinct_positions.

Theorem C12_full_report_has_every_slot : forall sc uid fields x,
  sinv sc -> N.of_nat (length fields) = sc_nperm sc ->
  forall i t v, sc_get (sc_named sc) x = Some (Report i t v) ->
  exists w, get_field uid fields uid (sc_named sc) x = GfOk w /\ nth_error fields (N.to_nat i) = Some w.
Proof. exact full_report_has_every_slot. Qed.
Print Assumptions C12_full_report_has_every_slot.

Theorem C12_compiled_scopes_satisfy_the_invariant :
  forall (reports controls : list (bool * name * ty)) (sc1 sc0 scF : scope) (evs : list event)
         (devs : list Lower.devent) (eis : list instr),
  declare new_report reports scope_new = Ok sc1 ->
  declare new_control controls sc1 = Ok sc0 ->
  compile_events evs sc0 (N.of_nat (length (def_instrs (sc_named sc0)))) = Ok (devs, eis, scF) ->
  wt_prog {| sp_decls := map fst (decls_of_scope sc0); sp_events := map sev evs |}
          (map snd (decls_of_scope sc0)) = true ->
  clobbers_prog {| sp_decls := map fst (decls_of_scope sc0); sp_events := map sev evs |} = false ->
  legacy_inf_prog {| sp_decls := map fst (decls_of_scope sc0); sp_events := map sev evs |} = false ->
  sinv scF.
Proof. exact sinv_scF. Qed.
Print Assumptions C12_compiled_scopes_satisfy_the_invariant.

Example C12_initial_scope_satisfies_the_invariant : sinv scope_new.
Proof. exact sinv_new. Qed.

(* translator obligations (lib/gen_statespace.py reads the structs, statics and mutable bindings of the
   modelled code on every run): the code has the state the model represents and no other *)
From Portus Require Import StateTie.
From PortusGen Require Import StateSpace.
From Coq Require Import String.
Open Scope string_scope.
Theorem C12_source_report_state : impl_fields_Report = model_fields_Report.
Proof. exact fields_Report_tie. Qed.
Print Assumptions C12_source_report_state.
Theorem C12_source_handle_state : impl_fields_Datapath = model_fields_Datapath.
Proof. exact fields_Datapath_tie. Qed.
Print Assumptions C12_source_handle_state.
Theorem C12_source_shared_state_lib : nth 0 impl_shared_state_tokens "" = "src/lib.rs: HashMap".
Proof. exact shared_state_lib. Qed.
Print Assumptions C12_source_shared_state_lib.
Theorem C12_source_shared_state_lang_mod : nth 5 impl_shared_state_tokens "" = "src/lang/mod.rs: -".
Proof. exact shared_state_lang_mod. Qed.
Print Assumptions C12_source_shared_state_lang_mod.

(* the library has one process-wide static, the uid counter: nothing a handle or a lookup could
   consult instead of the scope it is given *)
Theorem C12_source_statics : impl_statics = model_statics.
Proof. exact statics_tie. Qed.
Print Assumptions C12_source_statics.
