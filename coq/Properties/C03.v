(* C03 — the emitted program image satisfies the datapath's structural contract.
   PROVED.  The full statement is C03_full_statement: the executable predicate image_wf (an
   independent decoder of the bytes: 16-byte records, DEF preamble initialising report/control
   registers from immediates and no DEF elsewhere, contiguous tiling in source order, non-empty
   condition blocks ending in a write of implicit register 0, defined opcodes, writable result
   class, register indices inside the files, temporaries read only after being written in the
   same block) holds of every image the compiler produces from any source text and any list of
   compile-time overrides.  The one hypothesis is that the image has fewer than 2^32
   instructions: the event table stores indices and counts in 32 bits (the real code casts to
   u32 the same way), so a larger image is outside what the wire format can describe.
   image_wf is also evaluated on every image portus produces in the correspondence streams.
   Proofs: Portus.Lang.ImageWf (final theorem emitted_image_wf), Portus.Lang.ImageFacts. *)
From Portus Require Import Image ImageSpec ImageFacts ParserFacts TotalFacts ImageWf TablesTie.
From PortusGen Require Import LangTables.

Definition C03_full_statement : Prop :=
  forall src ups bytes sc b sc',
    compile_and_serialize src ups = inl (Ok (bytes, sc)) -> compile src ups = inl (Ok (b, sc')) ->
    N.of_nat (length (b_instrs b)) < 4294967296 ->
    image_wf (length (b_events b)) bytes = true.

Theorem C03_emitted_image_well_formed : C03_full_statement.
Proof. exact emitted_image_wf. Qed.
Print Assumptions C03_emitted_image_well_formed.

Theorem C03_image_length : forall b bytes, serialize_bin b = Ok bytes ->
  length bytes = (16 * length (b_events b) + 16 * length (b_instrs b))%nat.
Proof. exact image_length. Qed.
Print Assumptions C03_image_length.

(* preamble from the scope, then the events tile the remaining instructions contiguously in
   source order with exact indices and counts, each with a non-empty condition block *)
Theorem C03_preamble_then_tiling : forall p sc b sc', compile_prog p sc = Ok (b, sc') ->
  exists is, b_instrs b = def_instrs (sc_named sc) ++ is /\
    exists flags bodies, tiles_abs (N.of_nat (length (def_instrs (sc_named sc)))) (b_events b) flags bodies /\
      length is = (fold_right plus 0 flags + fold_right plus 0 bodies)%nat /\
      length (b_events b) = length p.
Proof. exact preamble_then_events. Qed.
Print Assumptions C03_preamble_then_tiling.

Theorem C03_condition_block_writes_flag : forall e sc is sc', compile_flag e sc = Ok (is, sc') ->
  (1 <= length is)%nat /\
  exists before last, is = before ++ [last] /\
    sc_get (sc_named sc') (lit "__eventFlag") = Some (i_res last).
Proof. exact compile_flag_nonempty. Qed.
Print Assumptions C03_condition_block_writes_flag.

(* every register of a serialized instruction lies inside the datapath's register files
   (8 temporaries, 6 locals, 16 report, 16 control, 6 implicit) and every immediate is encodable *)
Theorem C03_registers_within_files : forall is bytes, ser_instrs is = Ok bytes ->
  Forall (fun i => reg_within (i_res i) /\ reg_within (i_left i) /\ reg_within (i_right i)) is.
Proof. exact serialized_instrs_within. Qed.
Print Assumptions C03_registers_within_files.

(* lowering never emits the pseudo-operators && and || (they become mul and max): every opcode is defined *)
Theorem C03_opcodes_defined : forall e, no_def e -> forall sc, scope_ok sc ->
  match compile_expr e sc with
  | Ok (is, _, _) => ops_ok is
  | _ => True
  end.
Proof.
  intros e He sc Hsc. pose proof (compile_expr_total e He sc Hsc) as H.
  destruct (compile_expr e sc) as [[[is r] sc']| |]; auto. tauto.
Qed.
Print Assumptions C03_opcodes_defined.

(* non-vacuity: the structural predicate holds of concrete compiled images, by kernel evaluation *)
Example C03_example_image_wf :
  match compile_and_serialize (lit "(def (Report (volatile acked 0) (rtt 0)) (thresh 3000))
      (when true (:= Report.acked (+ Report.acked Ack.bytes_acked)) (:= Report.rtt (ewma 2 Flow.rtt_sample_us)) (fallthrough))
      (when (&& (> Micros thresh) (< Report.acked 100)) (report) (:= Micros 0))") [] with
  | inl (Ok (bytes, _)) => image_wf 2 bytes = true /\ length bytes = 240%nat
  | _ => False
  end.
Proof. vm_compute. split; reflexivity. Qed.

Example C03_example_nine_operators_rejected :
  compile_and_serialize (lit "(def (Report (x 0))) (when true (:= Report.x (+ 1 (+ 1 (+ 1 (+ 1 (+ 1 (+ 1 (+ 1 (+ 1 (+ 1 1)))))))))))") [] = inl Err.
Proof. vm_compute. reflexivity. Qed.

(* the first clause read against the source: the instruction list of every compiled program (no
   compile-time overrides) holds exactly one DEF per declaration of the (def ...) form that has a numeric
   or boolean literal as its initial value -- whatever the declared names are (a name that is also a
   datapath register's, a repeated name): none is dropped, none is added *)
From Portus Require Import DefCount.
Theorem C03_one_initialisation_per_literal_declaration : forall src cps decls rest b sc,
  utf8_decode src = Some cps -> p_defs (parse_fuel cps) cps = POk decls rest ->
  compile src [] = inl (Ok (b, sc)) ->
  length (filter is_def_op (b_instrs b)) = nlit decls.
Proof. exact def_count. Qed.
Print Assumptions C03_one_initialisation_per_literal_declaration.

Example C03_example_declared_register_name :
  match compile (lit "(def (Cwnd 10) (foo 5) (bar other) (Report (volatile q true)))  (when true (:= Report.q false) (report))") [] with
  | inl (Ok (b, _)) => length (filter is_def_op (b_instrs b)) = 3%nat
  | _ => False
  end.
Proof. vm_compute. reflexivity. Qed.

(* translator obligations (lib/gen_langtables.py reads serialize_op and the register encoder from
   src/lang/serialize.rs on every run): opcodes, class codes and index limits are the model's *)
Theorem C03_source_opcodes_are_the_models :
  length impl_opcodes = length all_ops /\
  forallb (fun o => existsb (fun p => op_eqb (fst p) o && optn_eqb (snd p) (ser_op_opt o)) impl_opcodes) all_ops = true.
Proof. exact opcodes_tie. Qed.
Print Assumptions C03_source_opcodes_are_the_models.

Theorem C03_source_register_limits_are_the_models :
  (impl_lim_control, impl_lim_implicit, impl_lim_local, impl_lim_primitive, impl_lim_report, impl_lim_tmp) =
  (LIM_CONTROL, LIM_IMPLICIT, LIM_LOCAL, LIM_PRIMITIVE, LIM_REPORT, LIM_TMP).
Proof. exact reg_limits_tie. Qed.
Print Assumptions C03_source_register_limits_are_the_models.

Theorem C03_source_register_class_codes_are_the_models :
  reg_code (Control 0 TNone true) = Ok (impl_code_control_vol, 0) /\ reg_code (Control 0 TNone false) = Ok (impl_code_control, 0) /\
  reg_code (Report 0 TNone true) = Ok (impl_code_report_vol, 0) /\ reg_code (Report 0 TNone false) = Ok (impl_code_report, 0) /\
  reg_code (ImmBool true) = Ok (impl_code_immbool, 1) /\ reg_code (ImmNum 0) = Ok (impl_code_immnum, 0) /\
  reg_code (Implicit 0 TNone) = Ok (impl_code_implicit, 0) /\ reg_code (Local 0 TNone) = Ok (impl_code_local, 0) /\
  reg_code (Primitive 0 TNone) = Ok (impl_code_primitive, 0) /\ reg_code (Tmp 0 TNone) = Ok (impl_code_tmp, 0).
Proof. exact reg_codes_tie. Qed.
Print Assumptions C03_source_register_class_codes_are_the_models.

(* translator obligations (lib/gen_statespace.py reads the structs, statics and mutable bindings of the
   modelled code on every run): the code has the state the model represents and no other *)
From Portus Require Import StateTie.
From PortusGen Require Import StateSpace.
From Coq Require Import String.
Open Scope string_scope.
Theorem C03_source_bin_state : impl_fields_Bin = model_fields_Bin.
Proof. exact fields_Bin_tie. Qed.
Print Assumptions C03_source_bin_state.
