(* C19 — bundled transports deliver datagrams intact, once, and in order (partial: proved over
   an abstract reliable FIFO standing for crossbeam's unbounded channel and the kernel's Unix
   datagram queue; the real queues, threads and sockets are exercised by the stress stream).
   Statements only; proofs live in Portus.Conc.Transport. *)
From Portus Require Import Transport.

(* for every interleaving of sends (of datagrams that fit the buffer) and receives: what has been
   received followed by what is still queued is exactly what was sent, in sending order *)
Theorem C19_fifo_exactly_once : forall bufsize ops,
  Forall (fun o => match o with TSend _ d => length d <= bufsize | TRecv => True end) ops ->
  let st := t_run bufsize ops in t_got st ++ t_queue st = t_sent st.
Proof. exact fifo_exactly_once. Qed.
Print Assumptions C19_fifo_exactly_once.

Theorem C19_per_sender_prefix : forall bufsize ops s,
  Forall (fun o => match o with TSend _ d => length d <= bufsize | TRecv => True end) ops ->
  let st := t_run bufsize ops in
  exists pending, from s (t_sent st) = from s (t_got st) ++ pending.
Proof. exact per_sender_prefix. Qed.
Print Assumptions C19_per_sender_prefix.

Theorem C19_nonblocking_empty_is_error : forall bufsize, fst (t_recv bufsize []) = RErr.
Proof. exact nonblocking_empty_is_error. Qed.
Print Assumptions C19_nonblocking_empty_is_error.

Theorem C19_oversized_is_error : forall bufsize s d r,
  bufsize < length d -> t_recv bufsize ((s, d) :: r) = (RErr, r).
Proof. exact oversized_is_error_and_skipped. Qed.
Print Assumptions C19_oversized_is_error.

Theorem C19_dead_handle_is_error : forall send_ok, send_msg false send_ok = false.
Proof. exact dead_handle_is_error. Qed.
Print Assumptions C19_dead_handle_is_error.

(* composed with the receive path (Recv/Cursor.v, the model of Backend::next that C08 is about): for
   every interleaving of sends and receive calls, never a panic, and what the receive path yields is
   exactly what the datagrams received so far decode to, each on its own and tagged with its sender,
   in sending order: a message boundary set by a sender's send is the boundary the decoder sees *)
From Portus Require Import Cursor CursorFacts TransportCursor.
Theorem C19_boundaries_survive_to_the_decoder : forall (bufsize : nat) (ops : list top),
  Forall (fun o => match o with TSend _ d => (length d <= bufsize)%nat | TRecv => True end) ops ->
  let st := t_run bufsize ops in
  run_script bufsize (recv_trace bufsize (mkT [] [] []) ops) = Ok (spec_run bufsize (map dg (t_got st))) /\
  exists pending, t_sent st = t_got st ++ pending.
Proof. exact receive_path_sees_sent_prefix. Qed.
Print Assumptions C19_boundaries_survive_to_the_decoder.

Theorem C19_example_two_senders :
  run_script 1024 (recv_trace 1024 (mkT [] [] []) ex_ops) =
    Ok [(MRdy (mkReady 7), 1%N); (MRdy (mkReady 7), 2%N); (MRdy (mkReady 7), 1%N)] /\
  t_queue (t_run 1024 ex_ops) = [].
Proof. exact ex_receive_path. Qed.
Print Assumptions C19_example_two_senders.

(* translator obligations (lib/gen_statespace.py reads the structs, statics and mutable bindings of the
   modelled code on every run): the code has the state the model represents and no other *)
From Portus Require Import StateTie.
From PortusGen Require Import StateSpace.
From Coq Require Import String.
Open Scope string_scope.
Theorem C19_source_chan_state : impl_fields_ChanSocket = model_fields_ChanSocket.
Proof. exact fields_ChanSocket_tie. Qed.
Print Assumptions C19_source_chan_state.
Theorem C19_source_unix_state : impl_fields_UnixSocket = model_fields_UnixSocket.
Proof. exact fields_UnixSocket_tie. Qed.
Print Assumptions C19_source_unix_state.
Theorem C19_source_shared_state_chan : nth 3 impl_shared_state_tokens "" = "src/ipc/chan.rs: -".
Proof. exact shared_state_ipc_chan. Qed.
Print Assumptions C19_source_shared_state_chan.
Theorem C19_source_shared_state_unix : nth 4 impl_shared_state_tokens "" = "src/ipc/unix.rs: -".
Proof. exact shared_state_ipc_unix. Qed.
Print Assumptions C19_source_shared_state_unix.
