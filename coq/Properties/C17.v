(* C17 — program uids are unique across all compilations, even concurrent ones (partial: the
   atomicity of AtomicU32::fetch_add itself is trusted; the schedule-level argument is proved).
   Statements only; proofs live in Portus.Conc.Uid.  [uid_ops] is generated on every run from the
   body of get_next_uid! in src/lang/datapath.rs. *)
From Portus Require Import Uid Loop HandleFacts.
From PortusGen Require Import UidOps.

(* for every number of threads, every number of compilations per thread and every interleaving of
   their atomic operations, the uids handed out are pairwise distinct (up to 2^32 - 2 of them).
   The proof term contains [eq_refl : is_atomic uid_ops = true], which type-checks only while
   the generated operation list is a single atomic fetch-and-add. *)
Theorem C17_unique : forall nthreads m schedule, N.of_nat (length schedule) < WRAP - 1 ->
  NoDup (s_out (run uid_ops (init_sys nthreads m) schedule)).
Proof. exact (atomic_unique uid_ops eq_refl). Qed.
Print Assumptions C17_unique.

(* why the side condition matters: a load followed by a store hands two threads the same uid *)
Theorem C17_load_store_would_duplicate :
  s_out (run [Load; Store] (init_sys 2 1) [0; 1; 0; 1]%nat) = [1; 1].
Proof. exact load_store_duplicates. Qed.
Print Assumptions C17_load_store_would_duplicate.

(* the uid travels unchanged: the change-program message a handle builds for a program names the
   uid stored with that program's scope — the same value the install message for it carries
   (C05_ready_installs_all: EInstall a (p_uid p)) *)
Theorem C17_uid_flows : forall progs sid pname fields p bytes,
  set_program_msg progs sid pname fields = Ok (p, bytes) ->
  find_prog progs pname = Some p /\
  exists rest, bytes = ser_header T_CHANGEPROG (16 + 13 * N.of_nat (length fields)) sid ++
                       (enc_le 4 (p_uid p) ++ enc_le 4 (N.of_nat (length fields))) ++ rest.
Proof.
  intros progs sid pname fields p bytes H.
  destruct (set_program_succeeds _ _ _ _ _ _ H) as (Hf & _ & l & ups & _ & _ & _ & ->).
  split; [exact Hf|]. eauto.
Qed.
Print Assumptions C17_uid_flows.

(* translator obligations (lib/gen_statespace.py reads the structs, statics and mutable bindings of the
   modelled code on every run): the code has the state the model represents and no other *)
From Portus Require Import StateTie.
From PortusGen Require Import StateSpace.
From Coq Require Import String.
Open Scope string_scope.
Theorem C17_source_statics : impl_statics = model_statics.
Proof. exact statics_tie. Qed.
Print Assumptions C17_source_statics.
Theorem C17_source_shared_state_datapath : nth 6 impl_shared_state_tokens "" = "src/lang/datapath.rs: AtomicU32".
Proof. exact shared_state_lang_datapath. Qed.
Print Assumptions C17_source_shared_state_datapath.
Theorem C17_source_shared_state_lang_mod : nth 5 impl_shared_state_tokens "" = "src/lang/mod.rs: -".
Proof. exact shared_state_lang_mod. Qed.
Print Assumptions C17_source_shared_state_lang_mod.
