(* C09 — datapaths are isolated from each other and replies go to their origin.
   Statements only; proofs live in Portus.Runtime.LoopFacts. *)
From Portus Require Import Loop LoopFacts.
From PortusGen Require Import FlowKey.

(* frame: whatever message arrives from address a, the binding of every (b, s) with b <> a is
   unchanged — it is not created, fed, replaced or closed — even when flow ids coincide *)
Theorem C09_frame : forall cfg user send_ok st a m st' es b s,
  step cfg user send_ok st a m = SOk st' es -> b <> a -> look st' b s = look st b s.
Proof.
  intros cfg user send_ok st a m st' es b s H Hb. destruct m as [c|x|r|o].
  - destruct (step_create cfg user send_ok _ _ _ _ _ H) as (? & ? & _ & _ & _ & _ & _ & _ & Hoth & _). apply Hoth; exact Hb.
  - destruct (step_measure cfg user send_ok _ _ _ _ _ H) as (_ & _ & Hoth & _). apply Hoth. left; exact Hb.
  - destruct (step_ready cfg user send_ok _ _ _ _ _ H) as (_ & Hoth & _). apply Hoth; exact Hb.
  - cbn in H. inversion H. reflexivity.
Qed.
Print Assumptions C09_frame.

(* a restart (ready) of one datapath discards exactly that datapath's flows *)
Theorem C09_restart_discards_own_flows_only : forall cfg user send_ok st a r st' es,
  step cfg user send_ok st a (MRdy r) = SOk st' es ->
  (forall s, look st' a s = None) /\ (forall b s, b <> a -> look st' b s = look st b s).
Proof.
  intros cfg user send_ok st a r st' es H.
  destruct (step_ready cfg user send_ok _ _ _ _ _ H) as (H1 & H2 & _). auto.
Qed.
Print Assumptions C09_restart_discards_own_flows_only.

(* in every reachable state the handle stored with a flow points back to the address and flow id
   it is bound under ... *)
Theorem C09_handle_origin : forall cfg user send_ok h st' es a s fl,
  steps cfg user send_ok init_state h = Some (st', es) -> look st' a s = Some fl ->
  f_addr fl = a /\ f_sid fl = s.
Proof.
  intros cfg user send_ok h st' es a s fl H Hl.
  destruct (reachable_invariants cfg user send_ok h init_state st' es H handles_ok_init hids_ok_init) as [Hh _].
  exact (Hh a s fl Hl).
Qed.
Print Assumptions C09_handle_origin.

(* ... and every command issued through a handle, at creation or in any later report callback,
   is sent to the handle's address and is a change-program / update-fields message serialized
   with the handle's flow id *)
Theorem C09_commands_go_to_origin : forall cfg send_ok cs fl rep k fl' es n,
  exec_cmds cfg send_ok fl rep k cs = Some (fl', es, n) -> Forall (cmd_effect_ok cfg fl) es.
Proof. intros cfg send_ok cs. exact (exec_cmds_effects cfg (fun _ _ => []) send_ok cs). Qed.
Print Assumptions C09_commands_go_to_origin.

(* over whole histories: while the runtime handles a message from address a, everything it transmits
   (installs, change-program and update-fields messages, sends that fail) is addressed to a; [origin_ok]
   walks the interleaved trace remembering whose message is being handled *)
From Portus Require Import TraceFacts OriginFacts.
Theorem C09_every_reply_goes_to_the_sender : forall cfg user send_ok h st' t,
  trace cfg user send_ok init_state h = Some (st', t) -> origin_ok None t.
Proof. exact every_reply_goes_to_the_sender. Qed.
Print Assumptions C09_every_reply_goes_to_the_sender.

Theorem C09_step_replies_to_sender : forall cfg user send_ok st a m st' es,
  step cfg user send_ok st a m = SOk st' es -> handles_ok st -> Forall (to_addr a) es.
Proof. exact step_replies_to_sender. Qed.
Print Assumptions C09_step_replies_to_sender.

(* The model keys flows by datapath address, then flow id.  That the code does so too is not
   something running it can establish (two addresses that collide under a lossy key are not found
   by testing), so this obligation is regenerated from the text of run_inner on every run by
   lib/gen_flowkey.py: the table is declared HashMap<I::Addr, HashMap<u32, _>>, every access to it
   uses the receive address itself, every access to a per-address table uses the message's flow
   id, and run_inner keeps no other table. *)
Theorem C09_source_keys_flows_by_address_then_flow_id : flow_map_shape = KeyAddrThenSid.
Proof. reflexivity. Qed.
Print Assumptions C09_source_keys_flows_by_address_then_flow_id.

(* translator obligations (lib/gen_statespace.py reads the structs, statics and mutable bindings of the
   modelled code on every run): the code has the state the model represents and no other *)
From Portus Require Import StateTie.
From PortusGen Require Import StateSpace.
From Coq Require Import String.
Open Scope string_scope.
Theorem C09_source_run_inner_state : impl_mut_run_inner = model_mut_run_inner.
Proof. exact mut_run_inner_tie. Qed.
Print Assumptions C09_source_run_inner_state.
Theorem C09_source_shared_state_run : nth 1 impl_shared_state_tokens "" = "src/run.rs: AtomicBool HashMap unsafe".
Proof. exact shared_state_run. Qed.
Print Assumptions C09_source_shared_state_run.
