(* C08 — the receive path frames datagrams correctly and never mixes in stale bytes.
   Statements only; proofs live in Portus.Recv.CursorFacts. *)
From Portus Require Import Codec CodecSpec CodecRoundtrip Cursor CursorFacts.

(* Every yield is a function of its own datagram: for every script of datagrams, receive errors
   and stop requests, iterating next() from a fresh cursor over a buffer of any size and ANY
   contents yields exactly spec_run, which is defined on the datagrams alone (each truncated to
   the buffer size) and never mentions the buffer. *)
Theorem C08_stale_free : forall evs c fuel, fresh c ->
  (S (ev_weight (length (c_buf c)) evs) <= fuel)%nat ->
  run_cursor fuel c evs = Ok (spec_run (length (c_buf c)) evs).
Proof. exact run_spec. Qed.
Print Assumptions C08_stale_free.

Theorem C08_stale_bytes_irrelevant : forall evs c1 c2 f1 f2, fresh c1 -> fresh c2 ->
  length (c_buf c1) = length (c_buf c2) ->
  (S (ev_weight (length (c_buf c1)) evs) <= f1)%nat -> (S (ev_weight (length (c_buf c2)) evs) <= f2)%nat ->
  run_cursor f1 c1 evs = run_cursor f2 c2 evs.
Proof. exact stale_bytes_irrelevant. Qed.
Print Assumptions C08_stale_bytes_irrelevant.

(* Datagrams that are concatenations of in-range messages and fit the buffer are yielded
   exactly, in order, each message attributed to the sender of its datagram. *)
Theorem C08_wellformed : forall bufsize ds evs, wf_script bufsize ds = Some evs ->
  run_script bufsize evs = Ok (concat (map (fun '(a, ms) => tag a ms) ds)).
Proof. exact wellformed_exact. Qed.
Print Assumptions C08_wellformed.

(* Reception always advances: a call of next() that yields either consumed at least one
   scripted receive event or moved read_until forward by at least one byte within the datagram. *)
Theorem C08_progress : forall c evs m a c' r,
  next c evs = Yield m a c' r -> (c_ru c <= c_tot c <= length (c_buf c))%nat ->
  ((r = evs /\ c_tot c' = c_tot c /\ (c_ru c < c_ru c' <= c_tot c')%nat) \/
   (c_tot c' + S (ev_weight (length (c_buf c)) r) <= ev_weight (length (c_buf c)) evs /\
    (1 <= c_ru c' <= c_tot c')%nat /\ (c_tot c' <= length (c_buf c'))%nat /\
    length (c_buf c') = length (c_buf c)))%nat.
Proof. exact next_progress. Qed.
Print Assumptions C08_progress.

(* non-vacuity: a long datagram followed by one that ends in a truncated header; the tail is
   surfaced as an unknown message built from the second datagram's own three bytes *)
Example C08_example_truncated_tail :
  let d1 := ser_header 1 32 7 ++ enc_le_list 4 [3; 2] ++ enc_le_list 8 [5; 6] in
  let d2 := ser_header 5 12 0 ++ enc_le 4 9 ++ [0; 0; 96] in
  run_script 64 [Dgram 1 d1; Dgram 2 d2] =
  Ok [(MMs (mkMeasure 7 3 2 [5; 6]), 1); (MRdy (mkReady 9), 2); (MOther (mkRaw 255 0 0 [0; 0; 96]), 2)].
Proof. vm_compute. reflexivity. Qed.

(* translator obligations (lib/gen_statespace.py reads the structs, statics and mutable bindings of the
   modelled code on every run): the code has the state the model represents and no other *)
From Portus Require Import StateTie.
From PortusGen Require Import StateSpace.
From Coq Require Import String.
Open Scope string_scope.
Theorem C08_source_cursor_state : impl_fields_Backend = model_fields_Backend.
Proof. exact fields_Backend_tie. Qed.
Print Assumptions C08_source_cursor_state.
Theorem C08_source_cursor_locals : impl_mut_backend_next = model_mut_backend_next.
Proof. exact mut_backend_next_tie. Qed.
Print Assumptions C08_source_cursor_locals.
Theorem C08_source_shared_state_ipc : nth 2 impl_shared_state_tokens "" = "src/ipc/mod.rs: AtomicBool".
Proof. exact shared_state_ipc_mod. Qed.
Print Assumptions C08_source_shared_state_ipc.
