(* C15 — the algorithm named in a create message handles the flow; default otherwise.
   Statements only; proofs live in Portus.Runtime.HandleFacts.  The registration list is
   most-recent-first, as the type-level list in RunBuilder is built. *)
From Portus Require Import Loop HandleFacts LoopFacts.

Theorem C15_default_when_no_match : forall algs dflt n,
  forallb (fun a => negb (matches n a)) algs = true -> pick algs dflt n = dflt.
Proof. exact pick_default. Qed.
Print Assumptions C15_default_when_no_match.

Theorem C15_most_recent_match_wins : forall l1 a l2 dflt n i,
  forallb (fun a => negb (matches n a)) l1 = true ->
  a_name a = n -> a_inst a = Some i ->
  pick (l1 ++ a :: l2) dflt n = i.
Proof. exact pick_most_recent. Qed.
Print Assumptions C15_most_recent_match_wins.

(* the instance handed the flow is pick(...) of the name in the message ("" when absent) *)
Theorem C15_create_uses_pick : forall cfg user send_ok st a c st' es,
  step cfg user send_ok st a (MCr c) = SOk st' es ->
  In (ENew (st_next st)
           (pick (cfg_algs cfg) (cfg_default cfg) (match c_alg c with Some s => s | None => [] end)) a c) es.
Proof.
  intros cfg user send_ok st a c st' es H.
  destruct (step_create cfg user send_ok _ _ _ _ _ H) as (fl' & ces & _ & _ & _ & _ & _ & _ & _ & _ & _ & _ & ->).
  apply in_or_app. right. apply in_or_app. right. left. reflexivity.
Qed.
Print Assumptions C15_create_uses_pick.

(* a program name is in the compiled set iff the default or some registered instance offers it *)
Theorem C15_every_offered_program_is_compiled : forall regs dflt n,
  has_name n (collect_programs regs dflt) =
  has_name n dflt || existsb (fun o => match o with Some ps => has_name n ps | None => false end) regs.
Proof. exact collect_has_every_offered_name. Qed.
Print Assumptions C15_every_offered_program_is_compiled.

Theorem C15_compiled_program_was_offered : forall regs dflt n k,
  In (n, k) (collect_programs regs dflt) ->
  In (n, k) dflt \/ exists ps, In (Some ps) regs /\ In (n, k) ps.
Proof. exact collect_in_offered. Qed.
Print Assumptions C15_compiled_program_was_offered.

Example C15_example :
  let reno := [114; 101; 110; 111] in
  let algs := [mkAlg reno None; mkAlg reno (Some 2); mkAlg reno (Some 1)] in
  pick algs 0 reno = 2 /\ pick algs 0 [114; 101; 110] = 0 /\ pick algs 0 (reno ++ [88]) = 0 /\ pick algs 0 [] = 0.
Proof. vm_compute. repeat split; reflexivity. Qed.

(* translator obligations (lib/gen_statespace.py reads the structs, statics and mutable bindings of the
   modelled code on every run): the code has the state the model represents and no other *)
From Portus Require Import StateTie.
From PortusGen Require Import StateSpace.
From Coq Require Import String.
Open Scope string_scope.
Theorem C15_source_run_inner_state : impl_mut_run_inner = model_mut_run_inner.
Proof. exact mut_run_inner_tie. Qed.
Print Assumptions C15_source_run_inner_state.
Theorem C15_source_shared_state_run : nth 1 impl_shared_state_tokens "" = "src/run.rs: AtomicBool HashMap unsafe".
Proof. exact shared_state_run. Qed.
Print Assumptions C15_source_shared_state_run.

(* translator obligation shared with C09: run_inner keeps its flows in a map keyed by the datapath
   address whose values are maps keyed by the flow id, and every access goes through the receive
   address itself (no digest, no side table, no bulk removal) *)
From PortusGen Require Import FlowKey.
Theorem C15_source_keys_flows_by_address_then_flow_id : flow_map_shape = KeyAddrThenSid.
Proof. reflexivity. Qed.
Print Assumptions C15_source_keys_flows_by_address_then_flow_id.
Theorem C15_source_algorithm_list_nodes : impl_fields_AlgList = model_fields_AlgList /\ impl_fields_AlgListNil = model_fields_AlgListNil.
Proof. split; [exact fields_AlgList_tie|exact fields_AlgListNil_tie]. Qed.
Print Assumptions C15_source_algorithm_list_nodes.
