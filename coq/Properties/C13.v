(* C13 — names map to distinct datapath registers with a stable built-in ABI.
   Statements only; proofs live in Portus.Lang.ScopeFacts. *)
From Portus Require Import Image ScopeFacts TablesTie OverrideFacts SimProg.
From PortusGen Require Import LangTables.

(* [reports] / [controls] are the declarations in the order Prog::new_with_scope registers them
   (Report-block variables, then legacy Report.x declarations; then the others).  With names
   distinct from each other and from the built-in names: report variable k gets report slot k
   (so the n report variables occupy exactly 0..n-1), control variable k control slot k, each
   with its declared volatility and initial value; built-in names keep their registers. *)
Theorem C13_declared_slots : forall reports controls sc1 sc2,
  declare new_report reports scope_new = Ok sc1 ->
  declare new_control controls sc1 = Ok sc2 ->
  NoDup (names_of reports ++ names_of controls) ->
  (forall n, In n (names_of reports ++ names_of controls) -> is_builtin n = false) ->
  (forall k v n t, nth_error reports k = Some (v, n, t) ->
                   sc_get (sc_named sc2) n = Some (Report (N.of_nat k) t v)) /\
  (forall k v n t, nth_error controls k = Some (v, n, t) ->
                   sc_get (sc_named sc2) n = Some (Control (N.of_nat k) t v)) /\
  (forall m, is_builtin m = true -> sc_get (sc_named sc2) m = sc_get (sc_named scope_new) m) /\
  sc_nperm sc2 = N.of_nat (length reports) /\ sc_nctl sc2 = N.of_nat (length controls) /\ sc_nloc sc2 = 0.
Proof. exact declarations_scope. Qed.
Print Assumptions C13_declared_slots.

(* the fixed ABI: the 15 measurement primitives are primitive registers 0..14 and the six
   implicit registers 0..5, in libccp's order, in every fresh scope *)
Theorem C13_builtin_primitives :
  map (fun nt => sc_get (sc_named scope_new) (fst nt)) primitive_names =
  map (fun k => Some (Primitive (N.of_nat k) (snd (nth k primitive_names ([], TNone))))) (seq 0 15).
Proof. exact builtin_primitives. Qed.
Print Assumptions C13_builtin_primitives.

Theorem C13_builtin_implicits :
  map (fun nt => sc_get (sc_named scope_new) (fst nt)) implicit_names =
  map (fun k => Some (Implicit (N.of_nat k) (snd (nth k implicit_names ([], TNone))))) (seq 0 6).
Proof. exact builtin_implicits. Qed.
Print Assumptions C13_builtin_implicits.

(* inserting a fresh name binds exactly that name *)
Theorem C13_insert_fresh : forall l n r, sc_get l n = None -> sc_get (rf_insert l n r) n = Some r.
Proof. exact get_insert_same. Qed.
Print Assumptions C13_insert_fresh.

Theorem C13_insert_frame : forall l n r m, n <> m -> sc_get (rf_insert l n r) m = sc_get l m.
Proof. exact get_insert_other. Qed.
Print Assumptions C13_insert_frame.

Example C13_example :
  match compile_and_serialize (lit "(def (c 7) (Report (volatile a 1) (b 2)) (Report.z 3)) (when true (:= l 1) (report))") [] with
  | inl (Ok (_, sc)) =>
    sc_get (sc_named sc) (lit "Report.a") = Some (Report 0 (TNum (Some 1)) true) /\
    sc_get (sc_named sc) (lit "Report.b") = Some (Report 1 (TNum (Some 2)) false) /\
    sc_get (sc_named sc) (lit "Report.z") = Some (Report 2 (TNum (Some 3)) false) /\
    sc_get (sc_named sc) (lit "c") = Some (Control 0 (TNum (Some 7)) false) /\
    sc_get (sc_named sc) (lit "l") = Some (Local 0 (TNum (Some 1))) /\
    sc_get (sc_named sc) (lit "Cwnd") = Some (Implicit 4 (TNum None))
  | _ => False
  end.
Proof. vm_compute. repeat split; reflexivity. Qed.

(* compile-time overrides (lang::compile's update loop): a report, control or local variable
   carries the LAST value supplied for it as its initial value, in the register (class, slot,
   volatility) it had; an override of any other name is ignored; no other name changes *)
Theorem C13_overrides : forall ups sc x,
  sc_get (sc_named (apply_updates ups sc)) x =
  match sc_get (sc_named sc) x with
  | Some r => match last_update ups x with
              | Some v => if updatable r then Some (retype r (TNum (Some v))) else Some r
              | None => Some r
              end
  | None => None
  end.
Proof. exact apply_updates_get. Qed.
Print Assumptions C13_overrides.

Theorem C13_overrides_allocate_nothing : forall ups sc,
  sc_nperm (apply_updates ups sc) = sc_nperm sc /\ sc_nctl (apply_updates ups sc) = sc_nctl sc /\
  sc_nloc (apply_updates ups sc) = sc_nloc sc /\ sc_ntmp (apply_updates ups sc) = sc_ntmp sc.
Proof. exact apply_updates_counters. Qed.
Print Assumptions C13_overrides_allocate_nothing.

(* the scope's mapping is the one the emitted instructions use: through the lowering of all the
   events a name keeps the datapath register (class and index) it was given; only the recorded
   type of a fresh local is filled in *)
Theorem C13_names_keep_their_registers : forall evs sc idx devs is sc',
  compile_events evs sc idx = Ok (devs, is, sc') ->
  forall x r, sc_get (sc_named sc) x = Some r -> exists r', sc_get (sc_named sc') x = Some r' /\ dreg_of r' = dreg_of r.
Proof. exact compile_events_mono. Qed.
Print Assumptions C13_names_keep_their_registers.

Example C13_example_override :
  match compile_and_serialize (lit "(def (c 7) (Report (volatile a 1)))  (when true (report))") [(lit "c", 9); (lit "Report.a", 3); (lit "c", 11); (lit "Cwnd", 5)] with
  | inl (Ok (_, sc)) =>
    sc_get (sc_named sc) (lit "c") = Some (Control 0 (TNum (Some 11)) false) /\
    sc_get (sc_named sc) (lit "Report.a") = Some (Report 0 (TNum (Some 3)) true) /\
    sc_get (sc_named sc) (lit "Cwnd") = Some (Implicit 4 (TNum None))
  | _ => False
  end.
Proof. vm_compute. repeat split; reflexivity. Qed.

(* "each carries the type and initial value that was declared": in every scope lang::compile returns,
   for every source text and every list of overrides, a register whose type is still a name waiting
   to be resolved is a local, and the name it waits for is a local's.  So a report, control,
   implicit or primitive register never carries a name in place of its declared type, whatever the
   statements bind (untyped locals bound to one another in chains and rings included). *)
From Portus Require Import DeclTypes NameFacts.
Theorem C13_only_locals_wait_for_a_type : forall src ups b sc,
  compile src ups = inl (Ok (b, sc)) ->
  forall x r s, sc_get (sc_named sc) x = Some r -> reg_type r = TName s ->
    (exists i, r = Local i (TName s)) /\ exists j t, sc_get (sc_named sc) s = Some (Local j t).
Proof. exact returned_scope_names_only_on_locals. Qed.
Print Assumptions C13_only_locals_wait_for_a_type.

Theorem C13_declared_variables_keep_declared_types : forall src ups b sc,
  compile src ups = inl (Ok (b, sc)) ->
  forall x r, sc_get (sc_named sc) x = Some r ->
    match r with Local _ _ => True | _ => tname_free (reg_type r) end.
Proof. exact declared_variables_keep_declared_types. Qed.
Print Assumptions C13_declared_variables_keep_declared_types.

(* non-vacuity: two untyped locals bound to one another in a ring keep waiting; the declared ones do not *)
Example C13_example_ring :
  match compile (lit "(def (c 7) (Report (a 1))) (when true (:= p q) (:= q p) (:= Report.a c))") [] with
  | inl (Ok (_, sc)) =>
    sc_get (sc_named sc) (lit "p") = Some (Local 0 (TName (lit "q"))) /\
    sc_get (sc_named sc) (lit "q") = Some (Local 1 (TName (lit "q"))) /\
    sc_get (sc_named sc) (lit "c") = Some (Control 0 (TNum (Some 7)) false) /\
    sc_get (sc_named sc) (lit "Report.a") = Some (Report 0 (TNum (Some 1)) false)
  | _ => False
  end.
Proof. vm_compute. repeat split; reflexivity. Qed.

(* translator obligation (lib/gen_langtables.py reads Scope::new from src/lang/datapath.rs on every
   run): inserting the source's built-in rows in the source's order gives the model's initial
   scope, whose indices the theorems above fix *)
Theorem C13_source_builtin_table_is_the_models :
  fold_left (fun l kv => rf_insert l (fst kv) (snd kv)) impl_builtins [] = sc_named scope_new.
Proof. exact builtins_tie. Qed.
Print Assumptions C13_source_builtin_table_is_the_models.

(* translator obligations (lib/gen_statespace.py reads the structs, statics and mutable bindings of the
   modelled code on every run): the code has the state the model represents and no other *)
From Portus Require Import StateTie.
From PortusGen Require Import StateSpace.
From Coq Require Import String.
Open Scope string_scope.
Theorem C13_source_scope_state : impl_fields_Scope = model_fields_Scope.
Proof. exact fields_Scope_tie. Qed.
Print Assumptions C13_source_scope_state.
Theorem C13_source_regfile_state : impl_fields_RegFile = model_fields_RegFile.
Proof. exact fields_RegFile_tie. Qed.
Print Assumptions C13_source_regfile_state.
Theorem C13_source_shared_state_datapath : nth 6 impl_shared_state_tokens "" = "src/lang/datapath.rs: AtomicU32".
Proof. exact shared_state_lang_datapath. Qed.
Print Assumptions C13_source_shared_state_datapath.
