(* C18 — a stop request terminates the runtime promptly and cleanly (partial: the logic of the
   flag is modelled and proved; wall-clock latency and the Arc reference count are observed by
   the correspondence run, not proved).
   Statements only; proofs live in Portus.Runtime.TraceFacts. *)
From Portus Require Import Loop LoopFacts TraceFacts.

(* flag already cleared and the current datagram used up: the next iteration issues no receive,
   runs no callback, drops the remaining handlers, closes the transport and returns success *)
Theorem C18_stopped_ends : forall cfg user send_ok fuel st c evs,
  c_stop c = true -> (c_tot c <= c_ru c)%nat ->
  run_loop cfg user send_ok (S fuel) st c evs = (final_drops st, ROk).
Proof. exact stopped_ends. Qed.
Print Assumptions C18_stopped_ends.

(* flag cleared while blocked in receive: same *)
Theorem C18_stop_request_ends : forall cfg user send_ok fuel st c r,
  c_stop c = false -> (c_tot c <= c_ru c)%nat ->
  run_loop cfg user send_ok (S fuel) st c (StopReq :: r) = (final_drops st, ROk).
Proof. exact stop_request_ends. Qed.
Print Assumptions C18_stop_request_ends.

(* the message iterator ending while no stop was requested is an error, not success *)
Theorem C18_dead_channel_is_error : forall cfg user send_ok fuel st c evs c' r,
  next c evs = Done c' r -> c_stop c' = false ->
  run_loop cfg user send_ok (S fuel) st c evs = (final_drops st, RErr).
Proof. exact dead_channel_is_error. Qed.
Print Assumptions C18_dead_channel_is_error.

(* however the run ends, its last effect is the transport close: no callback runs after it *)
Theorem C18_close_is_last : forall cfg user send_ok fuel st c evs es res,
  run_loop cfg user send_ok fuel st c evs = (es, res) -> res = ROk \/ res = RErr ->
  exists l, es = l ++ [ECloseTransport].
Proof. exact run_ends_with_close. Qed.
Print Assumptions C18_close_is_last.

(* translator obligations (lib/gen_statespace.py reads the structs, statics and mutable bindings of the
   modelled code on every run): the code has the state the model represents and no other *)
From Portus Require Import StateTie.
From PortusGen Require Import StateSpace.
From Coq Require Import String.
Open Scope string_scope.
Theorem C18_source_builder_state : impl_fields_RunBuilder = model_fields_RunBuilder.
Proof. exact fields_RunBuilder_tie. Qed.
Print Assumptions C18_source_builder_state.
Theorem C18_source_handle_state : impl_fields_CCPHandle = model_fields_CCPHandle.
Proof. exact fields_CCPHandle_tie. Qed.
Print Assumptions C18_source_handle_state.
