(* C11 — only controllable registers can be updated: all-or-nothing, values as asked.
   Statements only; proofs live in Portus.Runtime.HandleFacts.
   controllable sc n  <=>  n does not start with "__" and sc binds it to a control register or
   to implicit register 4 (Cwnd) or 5 (Rate). *)
From Portus Require Import Loop HandleFacts LoopFacts.

Theorem C11_set_program_refuses : forall progs sid pname fields,
  (find_prog progs pname = None \/
   exists p, find_prog progs pname = Some p /\ forallb (controllable (p_scope p)) (map fst fields) = false) ->
  set_program_msg progs sid pname fields = Err.
Proof. exact set_program_refuses. Qed.
Print Assumptions C11_set_program_refuses.

Theorem C11_update_field_refuses : forall sc sid fields,
  forallb (controllable sc) (map fst fields) = false -> update_field_msg sc sid fields = Err.
Proof. exact update_field_refuses. Qed.
Print Assumptions C11_update_field_refuses.

(* success: the returned program is the one named; the single message carries the flow id, that
   program's uid and the requested (register, value) pairs, values and order as given *)
Theorem C11_set_program_succeeds : forall progs sid pname fields p bytes,
  set_program_msg progs sid pname fields = Ok (p, bytes) ->
  find_prog progs pname = Some p /\
  forallb (controllable (p_scope p)) (map fst fields) = true /\
  exists l ups,
    map snd l = map snd fields /\
    Forall2 (fun f rv => sc_get (p_scope p) (fst f) = Some (fst rv)) fields l /\
    ser_updates l = Ok ups /\
    bytes = ser_header T_CHANGEPROG (16 + 13 * N.of_nat (length fields)) sid ++
            (enc_le 4 (p_uid p) ++ enc_le 4 (N.of_nat (length fields))) ++ ups.
Proof. exact set_program_succeeds. Qed.
Print Assumptions C11_set_program_succeeds.

Theorem C11_set_program_accepts : forall progs sid pname fields p,
  find_prog progs pname = Some p -> control_encodable (p_scope p) ->
  forallb (controllable (p_scope p)) (map fst fields) = true ->
  16 + 13 * N.of_nat (length fields) <= 65535 ->
  exists bytes, set_program_msg progs sid pname fields = Ok (p, bytes).
Proof. exact set_program_accepts. Qed.
Print Assumptions C11_set_program_accepts.

(* the same for an update of the running program's fields: success is exactly "every name is
   controllable and there are at most 255 of them" (the message counts them in 8 bits) *)
Theorem C11_update_field_succeeds : forall sc sid fields bytes,
  update_field_msg sc sid fields = Ok bytes ->
  forallb (controllable sc) (map fst fields) = true /\
  N.of_nat (length fields) <= 255 /\
  exists l ups,
    map snd l = map snd fields /\
    Forall2 (fun f rv => sc_get sc (fst f) = Some (fst rv)) fields l /\
    ser_updates l = Ok ups /\
    bytes = ser_header T_UPDATE (12 + 13 * N.of_nat (length fields)) sid ++
            enc_le 4 (N.of_nat (length fields)) ++ ups.
Proof. exact update_field_succeeds. Qed.
Print Assumptions C11_update_field_succeeds.

Theorem C11_update_field_accepts : forall sc sid fields,
  control_encodable sc ->
  forallb (controllable sc) (map fst fields) = true ->
  N.of_nat (length fields) <= 255 ->
  exists bytes, update_field_msg sc sid fields = Ok bytes.
Proof. exact update_field_accepts. Qed.
Print Assumptions C11_update_field_accepts.

Theorem C11_update_field_too_many : forall sc sid fields,
  255 < N.of_nat (length fields) -> update_field_msg sc sid fields = Err.
Proof. exact update_field_too_many. Qed.
Print Assumptions C11_update_field_too_many.

(* a refused command transmits nothing; an accepted one transmits exactly one message *)
Theorem C11_refused_sends_nothing : forall cfg send_ok fl rep k p fields,
  set_program_msg (cfg_progs cfg) (f_sid fl) p fields = Err ->
  exec_cmd cfg send_ok fl rep k (SetProgram p fields) = Some (fl, [ECmd false], 0%nat).
Proof. intros cfg send_ok fl rep k p fields H. unfold exec_cmd. rewrite H. reflexivity. Qed.
Print Assumptions C11_refused_sends_nothing.

Theorem C11_accepted_sends_one : forall cfg send_ok fl rep k p fields pr bytes,
  set_program_msg (cfg_progs cfg) (f_sid fl) p fields = Ok (pr, bytes) -> send_ok k = true ->
  exec_cmd cfg send_ok fl rep k (SetProgram p fields) =
  Some (mkFlow (f_hid fl) (f_addr fl) (f_sid fl) (p :: f_got fl), [ESend (f_addr fl) bytes; ECmd true], 1%nat).
Proof.
  intros cfg send_ok fl rep k p fields pr bytes H Hs. unfold exec_cmd, do_send. rewrite H, Hs. reflexivity.
Qed.
Print Assumptions C11_accepted_sends_one.

Theorem C11_refused_update_sends_nothing : forall cfg send_ok fl rep k p pr fields,
  find_prog (cfg_own cfg) p = Some pr ->
  update_field_msg (p_scope pr) (f_sid fl) fields = Err ->
  exec_cmd cfg send_ok fl rep k (UpdateField p fields) = Some (fl, [ECmd false], 0%nat).
Proof. intros cfg send_ok fl rep k p pr fields Hp H. unfold exec_cmd. rewrite Hp, H. reflexivity. Qed.
Print Assumptions C11_refused_update_sends_nothing.

Theorem C11_accepted_update_sends_one : forall cfg send_ok fl rep k p pr fields bytes,
  find_prog (cfg_own cfg) p = Some pr ->
  update_field_msg (p_scope pr) (f_sid fl) fields = Ok bytes -> send_ok k = true ->
  exec_cmd cfg send_ok fl rep k (UpdateField p fields) =
  Some (fl, [ESend (f_addr fl) bytes; ECmd true], 1%nat).
Proof.
  intros cfg send_ok fl rep k p pr fields bytes Hp H Hs. unfold exec_cmd, do_send. rewrite Hp, H, Hs. reflexivity.
Qed.
Print Assumptions C11_accepted_update_sends_one.

Example C11_example :
  let sc := [([99], Control 0 TNone false); ([114], Report 0 TNone true); ([67; 119; 110; 100], Implicit 4 TNone)] in
  controllable sc [99] = true /\ controllable sc [114] = false /\ controllable sc [67; 119; 110; 100] = true /\
  controllable sc [95; 95; 120] = false /\ controllable sc [122] = false.
Proof. vm_compute. repeat split; reflexivity. Qed.

Example C11_update_example :
  let sc := [([99], Control 0 TNone false); ([114], Report 0 TNone true); ([67; 119; 110; 100], Implicit 4 TNone)] in
  (exists bytes, update_field_msg sc 7 [([99], 5); ([67; 119; 110; 100], 9)] = Ok bytes /\ length bytes = 38%nat) /\
  update_field_msg sc 7 [([99], 5); ([114], 9)] = Err /\
  update_field_msg sc 7 (repeat ([99], 5) 256) = Err /\
  (exists bytes, update_field_msg sc 7 (repeat ([99], 5) 255) = Ok bytes).
Proof. vm_compute. repeat split; try reflexivity; eexists; try split; reflexivity. Qed.

(* translator obligations (lib/gen_statespace.py reads the structs, statics and mutable bindings of the
   modelled code on every run): the code has the state the model represents and no other *)
From Portus Require Import StateTie.
From PortusGen Require Import StateSpace.
From Coq Require Import String.
Open Scope string_scope.
Theorem C11_source_handle_state : impl_fields_Datapath = model_fields_Datapath.
Proof. exact fields_Datapath_tie. Qed.
Print Assumptions C11_source_handle_state.
Theorem C11_source_shared_state_lib : nth 0 impl_shared_state_tokens "" = "src/lib.rs: HashMap".
Proof. exact shared_state_lib. Qed.
Print Assumptions C11_source_shared_state_lib.

(* the library has one process-wide static, the uid counter: nothing a handle or a lookup could
   consult instead of the scope it is given *)
Theorem C11_source_statics : impl_statics = model_statics.
Proof. exact statics_tie. Qed.
Print Assumptions C11_source_statics.
