(* C05 — a datapath is always sent a program before being told to use it.
   Statements only; proofs live in Portus.Runtime.{LoopFacts,TraceFacts}. *)
From Portus Require Import Loop LoopFacts TraceFacts.

(* Over the interleaved trace (each incoming message followed by its effects) of EVERY history
   from the initial state, for every user behaviour and every pattern of send failures:
   [scan] walks the trace keeping the set of (address, uid) pairs installed since that address
   last said ready, and requires of every transmitted handle command that it is an update-fields
   message or a change-program naming a uid in that set for its own destination. *)
Theorem C05_use_after_install : forall cfg user send_ok h st' t,
  trace cfg user send_ok init_state h = Some (st', t) -> scan cfg [] t.
Proof. exact use_after_install. Qed.
Print Assumptions C05_use_after_install.

(* ready: the complete compiled set is sent to that address exactly once, after its old handlers
   are dropped *)
Theorem C05_ready_installs_all : forall cfg user send_ok st a r st' es,
  step cfg user send_ok st a (MRdy r) = SOk st' es ->
  (forall s, look st' a s = None) /\
  (forall b s, b <> a -> look st' b s = look st b s) /\
  known st' a = true /\ (forall b, b <> a -> known st' b = known st b) /\
  st_next st' = st_next st /\
  es = (match amap_get (st_flows st) a with Some fm => drops_of fm | None => [] end) ++
       map (fun p => EInstall a (p_uid p)) (cfg_progs cfg).
Proof. exact step_ready. Qed.
Print Assumptions C05_ready_installs_all.

(* create from a never-seen address: the same installation, before the handler is created
   (the effect list of C02_create starts with it); from a known address: no installation.
   Measurements and unknown messages never install (their effect lists contain no EInstall:
   C02_measure, C02_unknown_messages_do_nothing). *)
Theorem C05_create_installs_first : forall cfg user send_ok st a c st' es,
  step cfg user send_ok st a (MCr c) = SOk st' es ->
  exists rest, es = (if known st a then [] else map (fun p => EInstall a (p_uid p)) (cfg_progs cfg)) ++ rest /\
               Forall (fun e => match e with EInstall _ _ => False | _ => True end) rest.
Proof.
  intros cfg user send_ok st a c st' es H.
  destruct (step_create cfg user send_ok _ _ _ _ _ H) as (fl' & ces & _ & _ & _ & _ & _ & _ & _ & _ & _ & Hces & ->).
  eexists. split; [reflexivity|].
  apply Forall_app. split; [destruct (look st a (c_sid c)); repeat constructor|].
  constructor; [exact I|].
  eapply Forall_impl; [|exact Hces]. intros e He. destruct e; try exact I. contradiction.
Qed.
Print Assumptions C05_create_installs_first.

(* "... and no other message causes any installation": an install among the effects of a step comes from
   a ready, or from a create whose address was not known, and goes to the sender's address *)
From Portus Require Import OriginFacts.
Theorem C05_nothing_else_installs : forall cfg user send_ok st a m st' es b u,
  step cfg user send_ok st a m = SOk st' es -> In (EInstall b u) es ->
  b = a /\ ((exists r, m = MRdy r) \/ (exists c, m = MCr c /\ known st a = false)).
Proof. exact only_ready_and_first_create_install. Qed.
Print Assumptions C05_nothing_else_installs.

(* the compiled set is installed whole or not at all: when one offered program does not compile, or its
   install message cannot be encoded, the run ends with an error before the receive loop; the only
   effect is the close of the transport, so no datapath is sent a partial set and no handle exists
   that could select a program that was never installed *)
From Portus Require Import StartFacts.
Theorem C05_partial_program_set_never_runs : forall cfg user send_ok bufsize stopped0 evs,
  cfg_compile_ok cfg = false ->
  run_model cfg user send_ok bufsize stopped0 evs = ([ECloseTransport], RErr) /\
  forall e, In e (fst (run_model cfg user send_ok bufsize stopped0 evs)) -> e = ECloseTransport.
Proof. exact partial_program_set_never_runs. Qed.
Print Assumptions C05_partial_program_set_never_runs.

(* the executable model that every check compares with the implementation: what run_model emits, for
   every script of datagrams, receive errors and stop requests, is the effects of the interleaved trace
   of some history from the initial state (followed by the final drops and the close of the transport,
   or first by the effects of the step that ended the run), and install-before-use holds of that trace;
   or the runtime refused to start.  So the history theorem above is a theorem about every run. *)
From Portus Require Import RunTrace.
Theorem C05_every_run_is_a_trace_with_install_before_use : forall cfg user send_ok bufsize stopped0 evs es res,
  run_model cfg user send_ok bufsize stopped0 evs = (es, res) ->
  (cfg_compile_ok cfg = false /\ es = [ECloseTransport] /\ res = RErr) \/
  (cfg_compile_ok cfg = true /\
   exists h st' t, trace cfg user send_ok init_state h = Some (st', t) /\ scan cfg [] t /\
                   ends_as cfg user send_ok st' t es).
Proof. exact run_model_is_trace. Qed.
Print Assumptions C05_every_run_is_a_trace_with_install_before_use.

(* translator obligations (lib/gen_statespace.py reads the structs, statics and mutable bindings of the
   modelled code on every run): the code has the state the model represents and no other *)
From Portus Require Import StateTie.
From PortusGen Require Import StateSpace.
From Coq Require Import String.
Open Scope string_scope.
Theorem C05_source_run_inner_state : impl_mut_run_inner = model_mut_run_inner.
Proof. exact mut_run_inner_tie. Qed.
Print Assumptions C05_source_run_inner_state.
Theorem C05_source_shared_state_run : nth 1 impl_shared_state_tokens "" = "src/run.rs: AtomicBool HashMap unsafe".
Proof. exact shared_state_run. Qed.
Print Assumptions C05_source_shared_state_run.

(* translator obligation shared with C09: run_inner keeps its flows in a map keyed by the datapath
   address whose values are maps keyed by the flow id, and every access goes through the receive
   address itself (no digest, no side table, no bulk removal) *)
From PortusGen Require Import FlowKey.
Theorem C05_source_keys_flows_by_address_then_flow_id : flow_map_shape = KeyAddrThenSid.
Proof. reflexivity. Qed.
Print Assumptions C05_source_keys_flows_by_address_then_flow_id.
