(* C10 — the compiler is total: any source text yields Ok or Err, never a panic.
   Statements only; proofs live in Portus.Lang.{ParserFacts,TotalFacts}. *)
From Portus Require Import Image ParserFacts TotalFacts Loop.

(* For every byte string given as program source and every list of compile-time overrides,
   compiling and serializing returns a program image (with its scope) or an error value.
   The model's other outcomes — Panic (any unreachable!/unwrap/assert/overflow site of the
   modelled code) and running out of parser fuel (non-termination) — never occur. *)
Theorem C10_compiler_total : forall (src : list N) (ups : list (name * N)),
  (exists bytes sc, compile_and_serialize src ups = inl (Ok (bytes, sc))) \/
  compile_and_serialize src ups = inl Err.
Proof. exact compile_and_serialize_total. Qed.
Print Assumptions C10_compiler_total.

(* the fuel the parser is given (length of the text + 2) always suffices: parsing terminates *)
Theorem C10_parser_terminates : forall src : list N, new_with_scope src <> inr PEFuel.
Proof. exact parse_fuel_sufficient. Qed.
Print Assumptions C10_parser_terminates.

(* lowering never panics on any expression the parser can produce, from any scope that holds
   no placeholder register *)
Theorem C10_lowering_never_panics : forall e, no_def e -> forall sc, scope_ok sc ->
  match compile_expr e sc with
  | Ok (is, r, sc') => scope_ok sc' /\ ops_ok is /\ result_ok is r /\
                       (forall m, has (sc_named sc) m -> has (sc_named sc') m)
  | Err => True
  | Panic => False
  end.
Proof. exact compile_expr_total. Qed.
Print Assumptions C10_lowering_never_panics.

(* consequently the runtime reports an uncompilable program as an error: when some program of
   the registered set does not compile, run returns Err after closing the transport, whatever
   the script *)
Theorem C10_runtime_reports : forall cfg user send_ok bufsize stopped0 evs,
  cfg_compile_ok cfg = false ->
  run_model cfg user send_ok bufsize stopped0 evs = ([ECloseTransport], RErr).
Proof. intros cfg user send_ok bufsize stopped0 evs H. unfold run_model. rewrite H. reflexivity. Qed.
Print Assumptions C10_runtime_reports.

(* non-vacuity: formerly panicking inputs are errors; a valid program compiles *)
Example C10_example_comment_in_condition :
  compile_and_serialize (lit "(def (Report (x 0))) (when # c
 true (report))") [] = inl Err.
Proof. vm_compute. reflexivity. Qed.

Example C10_example_conditional_statement :
  compile_and_serialize (lit "(def) (when true (if true 1))") [] = inl Err.
Proof. vm_compute. reflexivity. Qed.

Example C10_example_valid :
  exists bytes sc, compile_and_serialize (lit "(def (Report (x 0))) (when true # c
 (:= Report.x (+ Report.x 1)) (report))") [] = inl (Ok (bytes, sc)) /\ length bytes = 96%nat.
Proof. eexists. eexists. split; [vm_compute; reflexivity|reflexivity]. Qed.
