(* C07 — datapath-to-CCP messages survive an encode/decode round trip.
   Statements only; proofs live in Portus.Wire.CodecRoundtrip. *)
From Portus Require Import Codec CodecSpec CodecRoundtrip WireTie.
From PortusGen Require Import WireTables.

(* in-range: u32 fields, name absent or 1-63 bytes of NUL-free valid UTF-8, 0-255 u64 values
   with a matching count (msg_in_range, CodecSpec.v) *)
Theorem C07_roundtrip : forall m, msg_in_range m = true ->
  exists bs, serialize_msg m = Ok bs /\ from_buf bs = Ok (m, length bs).
Proof. exact c07_roundtrip. Qed.
Print Assumptions C07_roundtrip.

(* the same with arbitrary bytes following the message: decoding looks at exactly the
   encoded length *)
Theorem C07_roundtrip_framed : forall m extra, msg_in_range m = true ->
  exists bs, serialize_msg m = Ok bs /\ from_buf (bs ++ extra) = Ok (m, length bs).
Proof. exact roundtrip_framed. Qed.
Print Assumptions C07_roundtrip_framed.

Theorem C07_concat : forall ms, forallb msg_in_range ms = true ->
  exists buf, serialize_all ms = Ok buf /\ (length ms <= length buf)%nat /\
    forall fuel, (length ms <= fuel)%nat -> decode_all fuel buf = Ok ms.
Proof. exact c07_concat. Qed.
Print Assumptions C07_concat.

(* non-vacuity: an in-range named create and a 3-value measurement *)
Example C07_example_in_range :
  msg_in_range (MCr (mkCreate 7 10 1448 1 2 3 4 (Some [114; 101; 110; 111]))) = true /\
  msg_in_range (MMs (mkMeasure 1 2 3 [5; 18446744073709551615; 0])) = true.
Proof. vm_compute. split; reflexivity. Qed.

(* translator obligation: the type codes the encoders write are the source's *)
Theorem C07_source_type_codes_are_the_models :
  (impl_code_create, impl_code_measure, impl_code_install, impl_code_update, impl_code_changeprog, impl_code_ready) =
  (T_CREATE, T_MEASURE, T_INSTALL, T_UPDATE, T_CHANGEPROG, T_READY).
Proof. exact type_codes_tie. Qed.
Print Assumptions C07_source_type_codes_are_the_models.

(* translator obligations (lib/gen_statespace.py reads the structs, statics and mutable bindings of the
   modelled code on every run): the code has the state the model represents and no other *)
From Portus Require Import StateTie.
From PortusGen Require Import StateSpace.
From Coq Require Import String.
Open Scope string_scope.
Theorem C07_source_shared_state_create : nth 11 impl_shared_state_tokens "" = "src/serialize/create.rs: unsafe".
Proof. exact shared_state_serialize_create. Qed.
Print Assumptions C07_source_shared_state_create.
Theorem C07_source_shared_state_measure : nth 12 impl_shared_state_tokens "" = "src/serialize/measure.rs: unsafe".
Proof. exact shared_state_serialize_measure. Qed.
Print Assumptions C07_source_shared_state_measure.
