(* C04 — decoding is total, stays inside the buffer, and always makes progress.
   Statements only; proofs live in Portus.Wire.CodecFacts. *)
From Portus Require Import Codec CodecSpec CodecFacts WireTie.
From PortusGen Require Import WireTables.

(* For every byte string the decoder's result satisfies the executable statement of the
   property: no panic; an Ok result consumed between 1 and the buffer length (0 only for the
   empty buffer); a typed create/measurement/ready only when the 16-bit type code equals that
   type and the declared length covers the fixed fields, with every field equal to the
   little-endian value at its documented offset inside the declared length. *)
Theorem C04_decode_total_sound : forall buf : list N, c04_ok buf (from_buf buf) = true.
Proof. exact c04_holds. Qed.
Print Assumptions C04_decode_total_sound.

Theorem C04_total_progress : forall buf : list N,
  match from_buf buf with
  | Panic => False
  | Err => True
  | Ok (_, n) => (buf = [] /\ n = 0%nat) \/ (1 <= n <= length buf)%nat
  end.
Proof. exact from_buf_total_progress. Qed.
Print Assumptions C04_total_progress.

(* Install (2) and update-fields (3) messages, and anything with a type code above 255,
   never come back as a typed message. *)
Theorem C04_no_typed_from_wide_code : forall buf m n,
  from_buf buf = Ok (m, n) -> 255 < le16 buf 0 -> exists r, m = MOther r.
Proof. exact wide_code_is_other. Qed.
Print Assumptions C04_no_typed_from_wide_code.

(* non-vacuity: a concrete create message with a name decodes as a typed create *)
Example C04_example_create :
  let buf := ser_header 0 96 7 ++ enc_le_list 4 [10; 1448; 1; 2; 3; 4] ++ [114; 101; 110; 111] ++ repeat 0 60 in
  from_buf buf = Ok (MCr (mkCreate 7 10 1448 1 2 3 4 (Some [114; 101; 110; 111])), 96%nat).
Proof. vm_compute. reflexivity. Qed.

(* a declared length shorter than the fixed fields is an error, not a panic *)
Example C04_example_short_create : from_buf (ser_header 0 20 7 ++ repeat 1 12) = Err.
Proof. vm_compute. reflexivity. Qed.

(* translator obligations (lib/gen_wiretables.py reads src/serialize/*.rs on every run): the type
   codes, the header layout and the fixed payload prefixes of the source are the model's *)
Theorem C04_source_type_codes_are_the_models :
  (impl_code_create, impl_code_measure, impl_code_install, impl_code_update, impl_code_changeprog, impl_code_ready) =
  (T_CREATE, T_MEASURE, T_INSTALL, T_UPDATE, T_CHANGEPROG, T_READY).
Proof. exact type_codes_tie. Qed.
Print Assumptions C04_source_type_codes_are_the_models.

Theorem C04_source_header_layout_is_the_models :
  impl_hdr_length = N.of_nat HDR_LENGTH /\ impl_hdr_typ = (0, 2) /\ impl_hdr_len = (2, 4) /\ impl_hdr_sid = (4, 8).
Proof. exact header_layout_tie. Qed.
Print Assumptions C04_source_header_layout_is_the_models.

Theorem C04_source_payload_prefixes_are_the_models :
  (impl_prefix_create, impl_prefix_measure, impl_prefix_update, impl_prefix_ready) =
  (N.of_nat (u32s_width T_CREATE), N.of_nat (u32s_width T_MEASURE), N.of_nat (u32s_width T_UPDATE), N.of_nat (u32s_width T_READY)).
Proof. exact prefix_widths_tie. Qed.
Print Assumptions C04_source_payload_prefixes_are_the_models.

(* translator obligations (lib/gen_statespace.py reads the structs, statics and mutable bindings of the
   modelled code on every run): the code has the state the model represents and no other *)
From Portus Require Import StateTie.
From PortusGen Require Import StateSpace.
From Coq Require Import String.
Open Scope string_scope.
Theorem C04_source_shared_state_serialize : nth 10 impl_shared_state_tokens "" = "src/serialize/mod.rs: unsafe".
Proof. exact shared_state_serialize_mod. Qed.
Print Assumptions C04_source_shared_state_serialize.
