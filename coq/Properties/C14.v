(* C14 — numeric literals reach the datapath unchanged or are rejected.
   Statements only; proofs live in Portus.Lang.LitFacts. *)
From Portus Require Import Image LitFacts TablesTie.
From PortusGen Require Import LangTables.

(* lexical: a numeral (a maximal run of decimal digits) is the number it denotes when that fits
   64 bits and a hard parse failure otherwise — it is never re-read as a name *)
Theorem C14_numeral : forall ds rest, ds <> [] -> all_digits ds ->
  (match rest with c :: _ => is_digit c = false | [] => True end) ->
  p_atom (ds ++ rest) =
  if dec_value ds <? U64_LIMIT then POk (Atom (PNum (dec_value ds))) rest else PFail.
Proof. exact p_atom_numeral. Qed.
Print Assumptions C14_numeral.

(* encoding: every literal below 2^31 is accepted and encoded as itself; +infinity (2^64-1) as
   the all-ones immediate; anything else is rejected *)
Theorem C14_small_accepted : forall n, n < IMM_LIMIT -> reg_code (ImmNum n) = Ok (1, n).
Proof. exact imm_small. Qed.
Print Assumptions C14_small_accepted.

Theorem C14_infinity : reg_code (ImmNum U64_MAX) = Ok (1, INFINITY32).
Proof. exact imm_infinity. Qed.
Print Assumptions C14_infinity.

Theorem C14_unencodable_rejected : forall n, IMM_LIMIT <= n -> n <> U64_MAX -> reg_code (ImmNum n) = Err.
Proof. exact imm_unencodable. Qed.
Print Assumptions C14_unencodable_rejected.

(* whenever an immediate is serialized, the 32-bit field the datapath reads back (zero-extended)
   is exactly the literal's denotation *)
Theorem C14_read_back_exact : forall n bs, ser_reg (ImmNum n) = Ok bs ->
  bs = 1 :: enc_le 4 (denote n) /\ le32 bs 1 = denote n.
Proof. exact ser_reg_imm_bytes. Qed.
Print Assumptions C14_read_back_exact.

(* no silent truncation: a program whose instructions serialize contains only encodable immediates *)
Theorem C14_no_silent : forall is bytes, ser_instrs is = Ok bytes ->
  Forall (fun i => imm_encodable (i_res i) /\ imm_encodable (i_left i) /\ imm_encodable (i_right i)) is.
Proof. exact serialized_immediates_encodable. Qed.
Print Assumptions C14_no_silent.

(* initial values and compile-time overrides travel as TNum (Some v) in the scope and reach the
   image only through DEF instructions whose immediate is that very v: the same encoder applies *)
Theorem C14_initial_values : forall l, Forall (fun i => i_op i = ODef /\
   match i_right i with
   | ImmNum n => exists r k v, i_res i = r /\ (r = Report k (TNum (Some n)) v \/ r = Control k (TNum (Some n)) v)
   | ImmBool _ => True
   | _ => False
   end) (def_instrs l).
Proof. exact def_instrs_imm. Qed.
Print Assumptions C14_initial_values.

Example C14_example_boundaries :
  reg_code (ImmNum 2147483647) = Ok (1, 2147483647) /\ reg_code (ImmNum 2147483648) = Err /\
  reg_code (ImmNum 18446744073709551614) = Err /\
  p_atom (lit "18446744073709551616 ") = PFail /\
  p_atom (lit "18446744073709551615)") = POk (Atom (PNum 18446744073709551615)) (lit ")").
Proof. vm_compute. repeat split; reflexivity. Qed.

(* translator obligation: the bound the encoder compares an immediate with, read from
   src/lang/serialize.rs on every run, is the model's *)
Theorem C14_source_immediate_bound_is_the_models : 2 ^ impl_imm_bits = IMM_LIMIT.
Proof. exact imm_limit_tie. Qed.
Print Assumptions C14_source_immediate_bound_is_the_models.
