(* C06 — control-plane messages are byte-exact for libccp and honest about length.
   Statements only; proofs live in Portus.Wire.ControlFacts.  That the real libccp accepts the
   messages and behaves accordingly is observed on every run by feeding the bytes portus
   produces to the compiled C code (cref) and to the Coq model of it (Portus.Dp.Machine). *)
From Portus Require Import Control ControlFacts.

(* the header's length field equals the true byte length; the count fields equal the number of
   records present; the uid is where libccp's struct ChangeProgMsg expects it *)
Theorem C06_changeprog_honest : forall sid uid fs bs, uid < 4294967296 ->
  serialize_changeprog sid uid (N.of_nat (length fs)) fs = Ok bs ->
  le16 bs 2 = N.of_nat (length bs) /\ le16 bs 0 = 4 /\
  le32 bs 8 = uid /\ le32 bs 12 = N.of_nat (length fs) /\
  length bs = (16 + 13 * length fs)%nat.
Proof. exact changeprog_honest. Qed.
Print Assumptions C06_changeprog_honest.

Theorem C06_update_honest : forall sid fs bs,
  serialize_update sid (N.of_nat (length fs)) fs = Ok bs ->
  le16 bs 2 = N.of_nat (length bs) /\ le16 bs 0 = 3 /\
  le32 bs 8 = N.of_nat (length fs) /\ length bs = (12 + 13 * length fs)%nat.
Proof. exact update_honest. Qed.
Print Assumptions C06_update_honest.

Theorem C06_install_honest : forall sid uid ne ni image bs,
  uid < 4294967296 -> ne < 4294967296 -> ni < 4294967296 ->
  length image = (16 * N.to_nat ne + 16 * N.to_nat ni)%nat ->
  serialize_install sid uid ne ni (Ok image) = Ok bs ->
  le16 bs 2 = N.of_nat (length bs) /\ le16 bs 0 = 2 /\
  le32 bs 8 = uid /\ le32 bs 12 = ne /\ le32 bs 16 = ni /\
  sub bs 20 (length bs) = image.
Proof. exact install_honest. Qed.
Print Assumptions C06_install_honest.

(* the (register class, index, 64-bit value) records parse back, under libccp's packed 13-byte
   struct UpdateField, to exactly the updates the message was built from, in order *)
Theorem C06_updates_parse_back : forall fs ups tail, ser_updates fs = Ok ups ->
  Forall (fun rv => snd rv < 18446744073709551616) fs ->
  exists wire, parse_updates (length fs) (ups ++ tail) = wire /\
    Forall2 (fun rv w => reg_wire (fst rv) = Some (fst (fst w), snd (fst w)) /\ snd w = snd rv) fs wire.
Proof. exact updates_parse_back. Qed.
Print Assumptions C06_updates_parse_back.

(* a message the 16-bit length field cannot describe is refused, never emitted truncated *)
Theorem C06_unrepresentable_length_fails : forall typ len sid u32s bytes,
  65535 < len -> serialize_gen typ len sid u32s bytes = Err.
Proof. exact unrepresentable_length_fails. Qed.
Print Assumptions C06_unrepresentable_length_fails.

Theorem C06_changeprog_too_long_fails : forall sid uid fs,
  65535 < 16 + 13 * N.of_nat (length fs) -> serialize_changeprog sid uid (N.of_nat (length fs)) fs = Err.
Proof. exact changeprog_too_long_fails. Qed.
Print Assumptions C06_changeprog_too_long_fails.

Example C06_example :
  serialize_changeprog 1 7 1 [(Implicit 4 TNone, 42)] =
  Ok [4; 0; 29; 0; 1; 0; 0; 0; 7; 0; 0; 0; 1; 0; 0; 0; 2; 4; 0; 0; 0; 42; 0; 0; 0; 0; 0; 0; 0].
Proof. vm_compute. reflexivity. Qed.

(* translator obligations (lib/gen_statespace.py reads the structs, statics and mutable bindings of the
   modelled code on every run): the code has the state the model represents and no other *)
From Portus Require Import StateTie.
From PortusGen Require Import StateSpace.
From Coq Require Import String.
Open Scope string_scope.
Theorem C06_source_handle_state : impl_fields_Datapath = model_fields_Datapath.
Proof. exact fields_Datapath_tie. Qed.
Print Assumptions C06_source_handle_state.
Theorem C06_source_shared_state_lib : nth 0 impl_shared_state_tokens "" = "src/lib.rs: HashMap".
Proof. exact shared_state_lib. Qed.
Print Assumptions C06_source_shared_state_lib.

(* the library has one process-wide static, the uid counter: nothing a handle or a lookup could
   consult instead of the scope it is given *)
Theorem C06_source_statics : impl_statics = model_statics.
Proof. exact statics_tie. Qed.
Print Assumptions C06_source_statics.
