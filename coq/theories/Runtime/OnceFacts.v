(* C02, "exactly once": a handler that has been dropped (replaced, closed, or discarded by a
   restart) is never created, fed, closed or dropped again, over every history. *)
From Portus Require Import Loop LoopFacts.
From Coq Require Import ZArith ZifyN ZifyNat ZifyBool.

Definition mentions (e : effect) (h : nat) : Prop :=
  match e with
  | ENew h' _ _ _ | EReport h' _ _ _ | EClose h' | EDrop h' => h' = h
  | _ => False
  end.

(* h has been handed out and is no longer bound anywhere *)
Definition dead (st : state) (h : nat) : Prop :=
  (h < st_next st)%nat /\ forall a s fl, look st a s = Some fl -> f_hid fl <> h.

(* ---------- the raw association lists have unique keys ---------- *)

Definition wf_map {V} (m : list (N * V)) : Prop := NoDup (map fst m).

Lemma amap_remove_in {V} (m : list (N * V)) k k' v : In (k', v) (amap_remove m k) -> In (k', v) m /\ k' <> k.
Proof.
  induction m as [|[k0 v0] r IH]; cbn [amap_remove]; [contradiction|].
  destruct (k0 =? k) eqn:E.
  - intros H. destruct (IH H) as [H1 H2]. split; [right; exact H1|exact H2].
  - intros [H|H].
    + inversion H; subst. split; [left; reflexivity|]. apply N.eqb_neq in E. exact E.
    + destruct (IH H) as [H1 H2]. split; [right; exact H1|exact H2].
Qed.

Lemma amap_remove_wf {V} (m : list (N * V)) k : wf_map m -> wf_map (amap_remove m k).
Proof.
  unfold wf_map. induction m as [|[k0 v0] r IH]; cbn [amap_remove map]; intros H; [constructor|].
  inversion H as [|? ? Hn Hr]; subst.
  destruct (k0 =? k); [apply IH; exact Hr|].
  cbn [map fst]. constructor; [|apply IH; exact Hr].
  intros Hi. apply in_map_iff in Hi. destruct Hi as ([k1 v1] & Hk & Hin). cbn in Hk. subst k1.
  apply amap_remove_in in Hin. destruct Hin as [Hin _].
  apply Hn. apply in_map_iff. exists (k0, v1). auto.
Qed.

Lemma amap_set_wf {V} (m : list (N * V)) k v : wf_map m -> wf_map (amap_set m k v).
Proof.
  intros H. unfold amap_set, wf_map. cbn [map fst]. constructor; [|apply amap_remove_wf; exact H].
  intros Hi. apply in_map_iff in Hi. destruct Hi as ([k1 v1] & Hk & Hin). cbn in Hk. subst k1.
  apply amap_remove_in in Hin. destruct Hin as [_ Hne]. congruence.
Qed.

Lemma in_get {V} (m : list (N * V)) k v : wf_map m -> In (k, v) m -> amap_get m k = Some v.
Proof.
  unfold wf_map. induction m as [|[k0 v0] r IH]; intros Hw Hin; [contradiction|].
  cbn [map fst] in Hw. inversion Hw as [|? ? Hn Hr]; subst. cbn [amap_get].
  destruct Hin as [Hin|Hin].
  - inversion Hin; subst. rewrite N.eqb_refl. reflexivity.
  - destruct (k0 =? k) eqn:E; [|apply IH; assumption].
    apply N.eqb_eq in E. subst k0. exfalso. apply Hn. apply in_map_iff. exists (k, v). auto.
Qed.

Definition wf_state (st : state) : Prop :=
  forall a fm, amap_get (st_flows st) a = Some fm -> wf_map fm.

Section Once.
  Variable cfg : config.
  Variable user : nat -> bool -> list cmd.
  Variable send_ok : nat -> bool.
  Notation step := (step cfg user send_ok).

  Lemma wf_init : wf_state init_state.
  Proof. intros a fm H. cbn in H. discriminate. Qed.

  Lemma step_wf st a m st' es : step st a m = SOk st' es -> wf_state st -> wf_state st'.
  Proof.
    intros H Hw. unfold Loop.step in H. destruct m as [c|x|r|o].
    - destruct (amap_get (st_flows st) a) as [fm|] eqn:Eg.
      + cbn [negb] in H. cbv iota in H.
        destruct (exec_cmds cfg send_ok _ None _ _) as [[[fl' ces] n2]|]; [|discriminate].
        inversion H; subst; clear H. intros b fm' Hb. cbn [st_flows] in Hb.
        destruct (N.eq_dec b a) as [->|Hne].
        * rewrite amap_get_set_same in Hb. inversion Hb; subst.
          apply amap_set_wf. apply amap_remove_wf. eapply Hw; exact Eg.
        * rewrite amap_get_set_other in Hb by exact Hne. eapply Hw; exact Hb.
      + destruct (install_all send_ok (cfg_progs cfg) a (st_sends st)) as [[ies n] ok].
        destruct ok; cbn [negb] in H; [|discriminate]. cbv iota in H.
        destruct (exec_cmds cfg send_ok _ None _ _) as [[[fl' ces] n2]|]; [|discriminate].
        inversion H; subst; clear H. intros b fm' Hb. cbn [st_flows] in Hb.
        destruct (N.eq_dec b a) as [->|Hne].
        * rewrite amap_get_set_same in Hb. inversion Hb; subst.
          apply amap_set_wf. cbn. constructor.
        * rewrite amap_get_set_other in Hb by exact Hne. eapply Hw; exact Hb.
    - destruct (amap_get (st_flows st) a) as [fm|] eqn:Eg; [|inversion H; subst; exact Hw].
      destruct (amap_get fm (m_sid x)) as [fl|]; [|inversion H; subst; exact Hw].
      destruct (m_nf x =? 0).
      + inversion H; subst; clear H. intros b fm' Hb. cbn [st_flows] in Hb.
        destruct (N.eq_dec b a) as [->|Hne].
        * rewrite amap_get_set_same in Hb. inversion Hb; subst. apply amap_remove_wf. eapply Hw; exact Eg.
        * rewrite amap_get_set_other in Hb by exact Hne. eapply Hw; exact Hb.
      + destruct (exec_cmds cfg send_ok fl _ _ _) as [[[fl' ces] n2]|]; [|discriminate].
        inversion H; subst; clear H. intros b fm' Hb. cbn [st_flows] in Hb.
        destruct (N.eq_dec b a) as [->|Hne].
        * rewrite amap_get_set_same in Hb. inversion Hb; subst. apply amap_set_wf. eapply Hw; exact Eg.
        * rewrite amap_get_set_other in Hb by exact Hne. eapply Hw; exact Hb.
    - destruct (install_all send_ok (cfg_progs cfg) a (st_sends st)) as [[ies n] ok].
      destruct ok; [|discriminate]. inversion H; subst; clear H.
      intros b fm' Hb. cbn [st_flows] in Hb.
      destruct (N.eq_dec b a) as [->|Hne].
      + rewrite amap_get_set_same in Hb. inversion Hb; subst. constructor.
      + rewrite amap_get_set_other in Hb by exact Hne. eapply Hw; exact Hb.
    - inversion H; subst. exact Hw.
  Qed.

  (* every handler an effect of a step mentions is either bound before the step or the fresh one *)
  Lemma step_mentions st a m st' es e h :
    step st a m = SOk st' es -> wf_state st -> In e es -> mentions e h ->
    h = st_next st \/ exists b s fl, look st b s = Some fl /\ f_hid fl = h.
  Proof.
    intros H Hw Hin Hm. destruct m as [c|x|r|o].
    - destruct (step_create cfg user send_ok _ _ _ _ _ H) as (fl' & ces & _ & _ & _ & _ & _ & _ & _ & _ & _ & Hces & ->).
      apply in_app_or in Hin. destruct Hin as [Hin|Hin].
      { destruct (known st a); [contradiction|]. apply in_map_iff in Hin. destruct Hin as (p & <- & _). contradiction. }
      apply in_app_or in Hin. destruct Hin as [Hin|Hin].
      { destruct (look st a (c_sid c)) as [old|] eqn:El; [|contradiction].
        destruct Hin as [<-|[]]. cbn in Hm. subst. right. eauto. }
      apply in_app_or in Hin. destruct Hin as [Hin|Hin].
      { destruct Hin as [<-|[]]. cbn in Hm. left. congruence. }
      rewrite Forall_forall in Hces. specialize (Hces e Hin). destruct e; cbn in Hces, Hm; contradiction.
    - destruct (step_measure cfg user send_ok _ _ _ _ _ H) as (_ & _ & _ & Hcase).
      destruct (look st a (m_sid x)) as [fl|] eqn:El.
      + destruct (m_nf x =? 0).
        * destruct Hcase as [_ ->]. destruct Hin as [<-|[<-|[]]]; cbn in Hm; subst; right; eauto.
        * destruct Hcase as (fl' & ces & _ & _ & Hces & ->).
          destruct Hin as [<-|Hin]; [cbn in Hm; subst; right; eauto|].
          rewrite Forall_forall in Hces. specialize (Hces e Hin). destruct e; cbn in Hces, Hm; contradiction.
      + destruct Hcase as [_ ->]. contradiction.
    - destruct (step_ready cfg user send_ok _ _ _ _ _ H) as (_ & _ & _ & _ & _ & ->).
      apply in_app_or in Hin. destruct Hin as [Hin|Hin].
      + destruct (amap_get (st_flows st) a) as [fm|] eqn:Eg; [|contradiction].
        unfold drops_of in Hin. apply in_map_iff in Hin. destruct Hin as ([s fl] & <- & Hin).
        cbn in Hm. subst. right. exists a, s, fl. split; [|reflexivity].
        unfold look. rewrite Eg. apply in_get; [eapply Hw; exact Eg|exact Hin].
      + apply in_map_iff in Hin. destruct Hin as (p & <- & _). contradiction.
    - cbn in H. inversion H; subst. contradiction.
  Qed.

  (* a dead handler stays dead and is never mentioned again *)
  Lemma dead_step st a m st' es h :
    step st a m = SOk st' es -> wf_state st -> hids_ok st -> dead st h ->
    dead st' h /\ forall e, In e es -> ~ mentions e h.
  Proof.
    intros H Hw Hi [Hlt Hun]. split.
    - destruct (step_preserves_hids cfg user send_ok _ _ _ _ _ H Hi) as [Hlt' _].
      split.
      + (* the counter never decreases *)
        destruct m as [c|x|r|o].
        * destruct (step_create cfg user send_ok _ _ _ _ _ H) as (? & ? & _ & _ & _ & _ & Hn & _). lia.
        * destruct (step_measure cfg user send_ok _ _ _ _ _ H) as (Hn & _). lia.
        * destruct (step_ready cfg user send_ok _ _ _ _ _ H) as (_ & _ & _ & _ & Hn & _). lia.
        * cbn in H. inversion H; subst. exact Hlt.
      + (* whatever is bound afterwards was bound before with the same identity, or is fresh *)
        intros b s fl Hb Heq.
        destruct m as [c|x|r|o].
        * destruct (step_create cfg user send_ok _ _ _ _ _ H) as (fl' & ces & Hl & Hh & _ & _ & _ & Hsame & Hoth & _).
          destruct (N.eq_dec b a) as [->|Hba]; [destruct (N.eq_dec s (c_sid c)) as [->|Hsc]|].
          -- rewrite Hl in Hb. inversion Hb; subst. lia.
          -- rewrite Hsame in Hb by exact Hsc. exact (Hun _ _ _ Hb Heq).
          -- rewrite Hoth in Hb by exact Hba. exact (Hun _ _ _ Hb Heq).
        * destruct (step_measure cfg user send_ok _ _ _ _ _ H) as (_ & _ & Hoth & Hcase).
          destruct (N.eq_dec b a) as [->|Hba]; [destruct (N.eq_dec s (m_sid x)) as [->|Hsx]|].
          -- destruct (look st a (m_sid x)) as [fl0|] eqn:E0.
             ++ destruct (m_nf x =? 0).
                ** destruct Hcase as [Hn _]. congruence.
                ** destruct Hcase as (fl' & ces & Hl & (Hh & _) & _). rewrite Hl in Hb. inversion Hb; subst.
                   apply (Hun _ _ _ E0). congruence.
             ++ destruct Hcase as [-> _]. congruence.
          -- rewrite Hoth in Hb by (right; exact Hsx). exact (Hun _ _ _ Hb Heq).
          -- rewrite Hoth in Hb by (left; exact Hba). exact (Hun _ _ _ Hb Heq).
        * destruct (step_ready cfg user send_ok _ _ _ _ _ H) as (Hnone & Hoth & _).
          destruct (N.eq_dec b a) as [->|Hba].
          -- rewrite Hnone in Hb. discriminate.
          -- rewrite Hoth in Hb by exact Hba. exact (Hun _ _ _ Hb Heq).
        * cbn in H. assert (Est : st' = st) by congruence. subst st'. exact (Hun _ _ _ Hb Heq).
    - intros e Hin Hm.
      destruct (step_mentions _ _ _ _ _ _ _ H Hw Hin Hm) as [->|(b & s & fl & Hl & Hh)]; [lia|].
      exact (Hun _ _ _ Hl Hh).
  Qed.

  (* a handler dropped by a step is dead after it *)
  Lemma dropped_is_dead st a m st' es h :
    step st a m = SOk st' es -> wf_state st -> hids_ok st -> In (EDrop h) es -> dead st' h.
  Proof.
    intros H Hw Hi Hin.
    destruct (step_mentions _ _ _ _ _ (EDrop h) h H Hw Hin eq_refl) as [Hfresh|(b & s & fl & Hl & Hh)].
    - (* a fresh handler is never dropped in the step that creates it *)
      exfalso. subst h. destruct m as [c|x|r|o].
      + destruct (step_create cfg user send_ok _ _ _ _ _ H) as (fl' & ces & _ & _ & _ & _ & _ & _ & _ & _ & _ & Hces & Hes).
        subst es. destruct Hi as [Hlt _].
        apply in_app_or in Hin. destruct Hin as [Hin|Hin].
        { destruct (known st a); [contradiction|]. apply in_map_iff in Hin. destruct Hin as (p & Hp & _). discriminate. }
        apply in_app_or in Hin. destruct Hin as [Hin|Hin].
        { destruct (look st a (c_sid c)) as [old|] eqn:El; [|contradiction].
          destruct Hin as [Hin|[]]. inversion Hin. specialize (Hlt _ _ _ El). lia. }
        apply in_app_or in Hin. destruct Hin as [Hin|Hin].
        { destruct Hin as [Hin|[]]. discriminate. }
        rewrite Forall_forall in Hces. specialize (Hces _ Hin). contradiction.
      + destruct (step_measure cfg user send_ok _ _ _ _ _ H) as (_ & _ & _ & Hcase). destruct Hi as [Hlt _].
        destruct (look st a (m_sid x)) as [fl|] eqn:El.
        * destruct (m_nf x =? 0).
          -- destruct Hcase as [_ ->]. destruct Hin as [Hin|[Hin|[]]]; inversion Hin. specialize (Hlt _ _ _ El). lia.
          -- destruct Hcase as (fl' & ces & _ & _ & Hces & ->). destruct Hin as [Hin|Hin]; [discriminate|].
             rewrite Forall_forall in Hces. specialize (Hces _ Hin). contradiction.
        * destruct Hcase as [_ ->]. contradiction.
      + destruct (step_ready cfg user send_ok _ _ _ _ _ H) as (_ & _ & _ & _ & _ & ->). destruct Hi as [Hlt _].
        apply in_app_or in Hin. destruct Hin as [Hin|Hin].
        * destruct (amap_get (st_flows st) a) as [fm|] eqn:Eg; [|contradiction].
          unfold drops_of in Hin. apply in_map_iff in Hin. destruct Hin as ([s fl] & Hd & Hin). inversion Hd.
          assert (Hl : look st a s = Some fl) by (unfold look; rewrite Eg; apply in_get; [eapply Hw; exact Eg|exact Hin]).
          specialize (Hlt _ _ _ Hl). cbn in *. lia.
        * apply in_map_iff in Hin. destruct Hin as (p & Hp & _). discriminate.
      + cbn in H. inversion H; subst. contradiction.
    - (* it was bound at (b, s): after the step nothing carries its identity *)
      subst h. destruct Hi as [Hlt Hinj]. split.
      + assert (Hn : (st_next st <= st_next st')%nat).
        { destruct m as [c|x|r|o].
          * destruct (step_create cfg user send_ok _ _ _ _ _ H) as (? & ? & _ & _ & _ & _ & Hn & _). lia.
          * destruct (step_measure cfg user send_ok _ _ _ _ _ H) as (Hn & _). lia.
          * destruct (step_ready cfg user send_ok _ _ _ _ _ H) as (_ & _ & _ & _ & Hn & _). lia.
          * cbn in H. inversion H; subst. lia. }
        specialize (Hlt _ _ _ Hl). lia.
      + intros b' s' fl2 Hb' Heq.
        destruct m as [c|x|r|o].
        * destruct (step_create cfg user send_ok _ _ _ _ _ H) as (fl' & ces & Hl' & Hh' & _ & _ & _ & Hsame & Hoth & _ & _ & Hces & Hes).
          subst es.
          (* the only drop of a create is the flow previously bound at (a, sid) *)
          assert (Hold : look st a (c_sid c) = Some fl).
          { apply in_app_or in Hin. destruct Hin as [Hin|Hin].
            { destruct (known st a); [contradiction|]. apply in_map_iff in Hin. destruct Hin as (p & Hp & _). discriminate. }
            apply in_app_or in Hin. destruct Hin as [Hin|Hin].
            { destruct (look st a (c_sid c)) as [old|] eqn:El; [|contradiction].
              destruct Hin as [Hin|[]]. inversion Hin as [Hid].
              destruct (Hinj _ _ _ _ _ _ El Hl Hid) as [E1 E2]. rewrite <- E1, <- E2 in Hl. congruence. }
            apply in_app_or in Hin. destruct Hin as [Hin|Hin]; [destruct Hin as [Hin|[]]; discriminate|].
            rewrite Forall_forall in Hces. specialize (Hces _ Hin). contradiction. }
          destruct (N.eq_dec b' a) as [->|Hba]; [destruct (N.eq_dec s' (c_sid c)) as [->|Hsc]|].
          -- rewrite Hl' in Hb'. inversion Hb'; subst. specialize (Hlt _ _ _ Hold). lia.
          -- rewrite Hsame in Hb' by exact Hsc. destruct (Hinj _ _ _ _ _ _ Hb' Hold Heq) as [_ ?]. congruence.
          -- rewrite Hoth in Hb' by exact Hba. destruct (Hinj _ _ _ _ _ _ Hb' Hold Heq) as [? _]. congruence.
        * destruct (step_measure cfg user send_ok _ _ _ _ _ H) as (_ & _ & Hoth & Hcase).
          destruct (look st a (m_sid x)) as [fl0|] eqn:E0.
          -- destruct (m_nf x =? 0) eqn:Enf.
             ++ destruct Hcase as [Hnone ->].
                assert (Hid : f_hid fl0 = f_hid fl) by (destruct Hin as [Hin|[Hin|[]]]; inversion Hin; reflexivity).
                destruct (Hinj _ _ _ _ _ _ E0 Hl Hid) as [E1 E2].
                destruct (N.eq_dec b' a) as [->|Hba]; [destruct (N.eq_dec s' (m_sid x)) as [->|Hsx]|].
                ** congruence.
                ** rewrite Hoth in Hb' by (right; exact Hsx). destruct (Hinj _ _ _ _ _ _ Hb' Hl Heq) as [_ ?]. congruence.
                ** rewrite Hoth in Hb' by (left; exact Hba). destruct (Hinj _ _ _ _ _ _ Hb' Hl Heq) as [? _]. congruence.
             ++ destruct Hcase as (fl' & ces & _ & _ & Hces & ->). destruct Hin as [Hin|Hin]; [discriminate|].
                rewrite Forall_forall in Hces. specialize (Hces _ Hin). contradiction.
          -- destruct Hcase as [_ ->]. contradiction.
        * destruct (step_ready cfg user send_ok _ _ _ _ _ H) as (Hnone & Hoth & _ & _ & _ & ->).
          assert (Hba : b = a).
          { apply in_app_or in Hin. destruct Hin as [Hin|Hin].
            - destruct (amap_get (st_flows st) a) as [fm|] eqn:Eg; [|contradiction].
              unfold drops_of in Hin. apply in_map_iff in Hin. destruct Hin as ([s0 fl0] & Hd & Hin0). inversion Hd as [Hid].
              assert (Hl0 : look st a s0 = Some fl0) by (unfold look; rewrite Eg; apply in_get; [eapply Hw; exact Eg|exact Hin0]).
              cbn in Hid. destruct (Hinj _ _ _ _ _ _ Hl0 Hl Hid) as [? _]. congruence.
            - apply in_map_iff in Hin. destruct Hin as (p & Hp & _). discriminate. }
          subst b.
          destruct (N.eq_dec b' a) as [->|Hb'a].
          -- rewrite Hnone in Hb'. discriminate.
          -- rewrite Hoth in Hb' by exact Hb'a. destruct (Hinj _ _ _ _ _ _ Hb' Hl Heq) as [? _]. congruence.
        * cbn in H. inversion H; subst. contradiction.
  Qed.

  (* over a whole history: once an effect drops a handler, no later effect mentions it *)
  Fixpoint never_again (dead_set : list nat) (es : list effect) : Prop :=
    match es with
    | [] => True
    | e :: r => (forall h, In h dead_set -> ~ mentions e h) /\
                never_again (match e with EDrop h => h :: dead_set | _ => dead_set end) r
    end.

  Lemma never_again_step st a m st' es ds :
    step st a m = SOk st' es -> wf_state st -> hids_ok st ->
    (forall h, In h ds -> dead st h) ->
    (* the drops of one step are for distinct handlers, none mentioned after its drop within the step *)
    forall ds', (forall h, In h ds' -> In h ds \/ In (EDrop h) es) ->
    (forall h, In h ds' -> dead st' h).
  Proof.
    intros H Hw Hi Hds ds' Hsub h Hh. destruct (Hsub h Hh) as [Hd|Hd].
    - exact (proj1 (dead_step _ _ _ _ _ _ H Hw Hi (Hds h Hd))).
    - eapply dropped_is_dead; eauto.
  Qed.
End Once.
