(* Trace-level consequences of the step theorems: install-before-use over whole histories (C05),
   the run never panics or runs out of fuel (C16), stop behaviour (C18). *)
From Portus Require Import Loop LoopFacts CodecFacts CursorFacts.
From Coq Require Import ZArith ZifyN ZifyNat ZifyBool.

Inductive tev := TIn (a : N) (m : msg) | TOut (e : effect).

Section Trace.
  Variable cfg : config.
  Variable user : nat -> bool -> list cmd.
  Variable send_ok : nat -> bool.

  Notation step := (step cfg user send_ok).

  (* the interleaved trace of a history: each incoming message followed by its effects *)
  Fixpoint trace (st : state) (h : list (N * msg)) : option (state * list tev) :=
    match h with
    | [] => Some (st, [])
    | (a, m) :: r =>
      match step st a m with
      | SOk st' es =>
        match trace st' r with
        | Some (st'', t) => Some (st'', TIn a m :: map TOut es ++ t)
        | None => None
        end
      | _ => None
      end
    end.

  (* bookkeeping: which (address, uid) pairs were installed since that address last said ready *)
  Definition forget (a : N) (inst : list (N * N)) : list (N * N) :=
    filter (fun p => negb (fst p =? a)) inst.

  Fixpoint adv (inst : list (N * N)) (l : list tev) : list (N * N) :=
    match l with
    | [] => inst
    | TIn a (MRdy _) :: r => adv (forget a inst) r
    | TOut (EInstall a u) :: r => adv ((a, u) :: inst) r
    | _ :: r => adv inst r
    end.

  (* every change-program send names a uid installed at its destination since the last ready *)
  Definition send_ok_at (inst : list (N * N)) (a : N) (bytes : list N) : Prop :=
    (exists sid fs n, serialize_update sid n fs = Ok bytes) \/
    (exists pr sid fs n, In pr (cfg_progs cfg) /\ serialize_changeprog sid (p_uid pr) n fs = Ok bytes /\
                         In (a, p_uid pr) inst).

  Fixpoint scan (inst : list (N * N)) (l : list tev) : Prop :=
    match l with
    | [] => True
    | TIn a (MRdy _) :: r => scan (forget a inst) r
    | TOut (EInstall a u) :: r => scan ((a, u) :: inst) r
    | TOut (ESend a bytes) :: r => send_ok_at inst a bytes /\ scan inst r
    | _ :: r => scan inst r
    end.

  Lemma scan_app inst l1 l2 : scan inst (l1 ++ l2) <-> scan inst l1 /\ scan (adv inst l1) l2.
  Proof.
    revert inst. induction l1 as [|e r IH]; intros inst; cbn [app scan adv]; [tauto|].
    destruct e as [a m|e].
    - destruct m; apply IH.
    - destruct e; try apply IH. rewrite IH. tauto.
  Qed.

  Lemma adv_app inst l1 l2 : adv inst (l1 ++ l2) = adv (adv inst l1) l2.
  Proof.
    revert inst. induction l1 as [|e r IH]; intros inst; cbn [app adv]; [reflexivity|].
    destruct e as [a m|e]; [destruct m|destruct e]; apply IH.
  Qed.

  (* the invariant: every known address has the complete program set installed since its last ready *)
  Definition J (st : state) (inst : list (N * N)) : Prop :=
    forall a, known st a = true -> forall p, In p (cfg_progs cfg) -> In (a, p_uid p) inst.

  Lemma in_forget a b u inst : b <> a -> In (b, u) inst -> In (b, u) (forget a inst).
  Proof.
    intros Hne Hin. unfold forget. apply filter_In. split; [exact Hin|].
    cbn [fst]. apply negb_true_iff. apply N.eqb_neq. exact Hne.
  Qed.

  Lemma adv_installs a ps inst :
    adv inst (map TOut (map (fun p => EInstall a (p_uid p)) ps)) =
    rev (map (fun p => (a, p_uid p)) ps) ++ inst.
  Proof.
    revert inst. induction ps as [|p r IH]; intros inst; cbn [map adv rev app]; [reflexivity|].
    rewrite IH. rewrite <- app_assoc. reflexivity.
  Qed.

  Lemma scan_installs a ps inst : scan inst (map TOut (map (fun p => EInstall a (p_uid p)) ps)).
  Proof. revert inst. induction ps as [|p r IH]; intros inst; cbn [map scan]; auto. Qed.

  Lemma scan_cmds fl ces inst : Forall (cmd_effect_ok cfg fl) ces ->
    (forall p, In p (cfg_progs cfg) -> In (f_addr fl, p_uid p) inst) ->
    scan inst (map TOut ces) /\ adv inst (map TOut ces) = inst.
  Proof.
    intros Hf Hall. induction Hf as [|e r He Hr IH]; cbn [map scan adv]; [auto|].
    destruct IH as [IH1 IH2].
    destruct e; cbn [cmd_effect_ok] in He; try contradiction; try (split; assumption).
    destruct He as [-> Hk]. split; [|exact IH2]. split; [|exact IH1].
    destruct Hk as [(pr & fs & n & Hin & Hs)|(fs & n & Hs)].
    - right. exists pr, (f_sid fl), fs, n. repeat split; auto.
    - left. exists (f_sid fl), fs, n. exact Hs.
  Qed.

  Lemma scan_plain l inst :
    Forall (fun e => match e with EInstall _ _ | ESend _ _ => False | _ => True end) l ->
    scan inst (map TOut l) /\ adv inst (map TOut l) = inst.
  Proof.
    induction 1 as [|e r He Hr IH]; cbn [map scan adv]; [auto|].
    destruct e; try contradiction; exact IH.
  Qed.

  Lemma drops_plain fm : Forall (fun e => match e with EInstall _ _ | ESend _ _ => False | _ => True end) (drops_of fm).
  Proof. unfold drops_of. induction fm as [|kv r IH]; cbn [map]; constructor; auto. Qed.

  Lemma step_scan st a m st' es inst :
    step st a m = SOk st' es -> handles_ok st -> J st inst ->
    scan inst (TIn a m :: map TOut es) /\ J st' (adv inst (TIn a m :: map TOut es)).
  Proof.
    intros H Hh HJ. destruct m as [c|x|r|o].
    - (* create *)
      destruct (step_create cfg user send_ok _ _ _ _ _ H)
        as (fl' & ces & Hl & Hhid & Ha & Hs & Hnx & Hsame & Hoth & Hk & Hko & Hces & ->).
      cbn [scan adv]. rewrite !map_app.
      set (ins := if known st a then [] else map (fun p => EInstall a (p_uid p)) (cfg_progs cfg)).
      set (old := match look st a (c_sid c) with Some old => [EDrop (f_hid old)] | None => [] end).
      assert (Hins : scan inst (map TOut ins) /\
                     forall p, In p (cfg_progs cfg) -> In (a, p_uid p) (adv inst (map TOut ins))).
      { unfold ins. destruct (known st a) eqn:Ek.
        - cbn [map scan adv]. split; [exact I|]. intros p Hp. apply HJ; assumption.
        - split; [apply scan_installs|]. intros p Hp. rewrite adv_installs.
          apply in_or_app. left. apply -> in_rev. apply in_map_iff. exists p. auto. }
      destruct Hins as [Hins1 Hins2].
      assert (Hold : scan (adv inst (map TOut ins)) (map TOut old) /\
                     adv (adv inst (map TOut ins)) (map TOut old) = adv inst (map TOut ins)).
      { apply scan_plain. unfold old. destruct (look st a (c_sid c)); repeat constructor. }
      destruct Hold as [Hold1 Hold2].
      assert (Hces' : scan (adv inst (map TOut ins)) (map TOut ces) /\
                      adv (adv inst (map TOut ins)) (map TOut ces) = adv inst (map TOut ins)).
      { apply (scan_cmds fl'); [exact Hces|]. rewrite Ha. exact Hins2. }
      destruct Hces' as [Hc1 Hc2].
      split.
      + apply scan_app. split; [exact Hins1|].
        apply scan_app. split; [exact Hold1|]. rewrite Hold2.
        cbn [map app scan]. exact Hc1.
      + rewrite adv_app, adv_app, Hold2. cbn [map app adv]. rewrite Hc2.
        intros b Hb p Hp. destruct (N.eq_dec b a) as [->|Hba].
        * apply Hins2. exact Hp.
        * rewrite Hko in Hb by exact Hba.
          unfold ins. destruct (known st a).
          -- cbn [map adv]. apply HJ; assumption.
          -- rewrite adv_installs. apply in_or_app. right. apply HJ; assumption.
    - (* measurement *)
      destruct (step_measure cfg user send_ok _ _ _ _ _ H) as (Hnx & Hk & Hoth & Hcase).
      cbn [scan adv].
      destruct (look st a (m_sid x)) as [fl|] eqn:El.
      + destruct (m_nf x =? 0).
        * destruct Hcase as [_ ->]. cbn [map scan adv]. split; [exact I|].
          intros b Hb. rewrite Hk in Hb. apply HJ. exact Hb.
        * destruct Hcase as (fl' & ces & Hl & Hsame & Hces & ->).
          cbn [map scan adv].
          destruct (Hh _ _ _ El) as [Hfa Hfs].
          assert (Hka : known st a = true).
          { unfold known, look in *. destruct (amap_get (st_flows st) a); [reflexivity|discriminate]. }
          destruct (scan_cmds fl ces inst Hces) as [Hc1 Hc2].
          { rewrite Hfa. intros p Hp. apply HJ; assumption. }
          split; [exact Hc1|]. rewrite Hc2.
          intros b Hb. rewrite Hk in Hb. apply HJ. exact Hb.
      + destruct Hcase as [-> ->]. cbn [map scan adv]. auto.
    - (* ready *)
      destruct (step_ready cfg user send_ok _ _ _ _ _ H) as (Hnone & Hoth & Hk & Hko & Hnx & ->).
      cbn [scan adv]. rewrite map_app.
      set (old := match amap_get (st_flows st) a with Some fm => drops_of fm | None => [] end).
      assert (Hold : scan (forget a inst) (map TOut old) /\ adv (forget a inst) (map TOut old) = forget a inst).
      { apply scan_plain. unfold old. destruct (amap_get (st_flows st) a); [apply drops_plain|constructor]. }
      destruct Hold as [Ho1 Ho2].
      split.
      + apply scan_app. split; [exact Ho1|]. apply scan_installs.
      + rewrite adv_app, Ho2, adv_installs.
        intros b Hb p Hp. destruct (N.eq_dec b a) as [->|Hba].
        * apply in_or_app. left. apply -> in_rev. apply in_map_iff. exists p. auto.
        * apply in_or_app. right. apply in_forget; [exact Hba|].
          rewrite Hko in Hb by exact Hba. apply HJ; assumption.
    - cbn in H. inversion H; subst. cbn [map scan adv]. auto.
  Qed.

  Theorem trace_scan h : forall st st' t inst, trace st h = Some (st', t) ->
    handles_ok st -> J st inst -> scan inst t.
  Proof.
    induction h as [|[a m] r IH]; intros st st' t inst H Hh HJ; cbn [trace] in H.
    - inversion H; subst. exact I.
    - destruct (step st a m) as [st1 es1| |] eqn:E; try discriminate.
      destruct (trace st1 r) as [[st2 t2]|] eqn:E2; [|discriminate].
      inversion H; subst; clear H.
      destruct (step_scan _ _ _ _ _ inst E Hh HJ) as [Hs HJ'].
      change (TIn a m :: map TOut es1 ++ t2) with ((TIn a m :: map TOut es1) ++ t2).
      apply scan_app. split; [exact Hs|].
      eapply IH; [exact E2| |exact HJ'].
      eapply step_preserves_handles; eassumption.
  Qed.

  Theorem use_after_install h st' t : trace init_state h = Some (st', t) -> scan [] t.
  Proof.
    intros H. eapply trace_scan; [exact H|apply handles_ok_init|].
    intros a Ha. unfold known in Ha. cbn in Ha. discriminate.
  Qed.

  (* ---------- the whole run: never a panic, never out of fuel ---------- *)

  Lemma final_drops_nonpanic : True. Proof. exact I. Qed.

  Definition cur_ok (c : cur) : Prop := (c_ru c <= c_tot c <= length (c_buf c))%nat.

  Lemma next_no_panic c evs : next c evs <> NPanic.
  Proof.
    unfold next. destruct (Nat.ltb (c_ru c) (c_tot c)).
    - pose proof (from_buf_total_progress (sub (c_buf c) (c_ru c) (c_tot c))) as P.
      destruct (from_buf _) as [[m n]| |]; try discriminate. contradiction.
    - destruct (get_next_read c evs) as [[[n c'] r]|].
      + pose proof (from_buf_total_progress (sub (c_buf c') 0 n)) as P.
        destruct (from_buf _) as [[m k]| |]; try discriminate. contradiction.
      + destruct (after_failed_read c evs). discriminate.
  Qed.

  Theorem run_loop_total : forall fuel st c evs, cur_ok c ->
    ((c_tot c - c_ru c) + ev_weight (length (c_buf c)) evs < fuel)%nat ->
    let res := snd (run_loop cfg user send_ok fuel st c evs) in res = ROk \/ res = RErr.
  Proof.
    induction fuel as [|fuel IH]; intros st c evs Hc Hf; [lia|].
    cbn [run_loop].
    pose proof (next_no_panic c evs) as Hnp.
    destruct (next c evs) as [m a c' r|c' r|] eqn:En; [| |congruence].
    - pose proof (step_not_panic cfg user send_ok st a m) as Hsp.
      destruct (step st a m) as [st' es|st' es|] eqn:Es; [| |congruence].
      + destruct (next_progress _ _ _ _ _ _ En Hc) as [(-> & Ht & Hr)|(Hw & Hr & Hb & Hl)].
        * specialize (IH st' c' evs).
          assert (Hbuf : length (c_buf c') = length (c_buf c)).
          { unfold next in En. destruct (Nat.ltb (c_ru c) (c_tot c)) eqn:E.
            - destruct (from_buf _) as [[m0 n0]| |]; try discriminate. inversion En; subst. reflexivity.
            - exfalso. apply Nat.ltb_ge in E. lia. }
          destruct (run_loop cfg user send_ok fuel st' c' evs) as [es2 res] eqn:Er.
          cbn [snd] in *. apply IH; [unfold cur_ok in *; lia|]. rewrite Hbuf. lia.
        * specialize (IH st' c' r).
          destruct (run_loop cfg user send_ok fuel st' c' r) as [es2 res] eqn:Er.
          cbn [snd] in *. apply IH; [unfold cur_ok in *; lia|]. rewrite Hl. lia.
      + cbn [snd]. right. reflexivity.
    - cbn [snd]. destruct (c_stop c'); auto.
  Qed.

  Theorem run_model_total bufsize stopped0 evs :
    let res := snd (run_model cfg user send_ok bufsize stopped0 evs) in res = ROk \/ res = RErr.
  Proof.
    unfold run_model. destruct (cfg_compile_ok cfg); [|cbn; auto].
    apply run_loop_total.
    - unfold cur_ok. cbn [c_ru c_tot c_buf]. lia.
    - cbn [c_ru c_tot c_buf]. rewrite repeat_length. unfold run_fuel. lia.
  Qed.

  (* ---------- stop ---------- *)

  (* once the flag is cleared and the current datagram is used up, the next call of next() issues
     no receive and the run ends successfully with only the final drops and the transport close *)
  Theorem stopped_ends fuel st c evs : c_stop c = true -> (c_tot c <= c_ru c)%nat ->
    run_loop cfg user send_ok (S fuel) st c evs = (final_drops st, ROk).
  Proof.
    intros Hs Hr. cbn [run_loop]. unfold next.
    replace (Nat.ltb (c_ru c) (c_tot c)) with false by (symmetry; apply Nat.ltb_ge; lia).
    destruct evs as [|e r]; cbn [get_next_read after_failed_read]; rewrite Hs; cbn; rewrite Hs; reflexivity.
  Qed.

  (* a stop requested while blocked in receive: same *)
  Theorem stop_request_ends fuel st c r : c_stop c = false -> (c_tot c <= c_ru c)%nat ->
    run_loop cfg user send_ok (S fuel) st c (StopReq :: r) = (final_drops st, ROk).
  Proof.
    intros Hs Hr. cbn [run_loop]. unfold next.
    replace (Nat.ltb (c_ru c) (c_tot c)) with false by (symmetry; apply Nat.ltb_ge; lia).
    cbn [get_next_read after_failed_read]. rewrite Hs. cbn. reflexivity.
  Qed.

  (* the iterator ending while the flag is still set (an undecodable message) is an error *)
  Theorem dead_channel_is_error fuel st c evs c' r :
    next c evs = Done c' r -> c_stop c' = false ->
    run_loop cfg user send_ok (S fuel) st c evs = (final_drops st, RErr).
  Proof. intros Hn Hs. cbn [run_loop]. rewrite Hn, Hs. reflexivity. Qed.

  (* whatever happens, the run's last effect is the transport close, after every handler still
     bound has been dropped; nothing follows it *)
  Lemma final_drops_last st : exists l, final_drops st = l ++ [ECloseTransport].
  Proof. unfold final_drops. eexists. reflexivity. Qed.

  Theorem run_ends_with_close : forall fuel st c evs es res,
    run_loop cfg user send_ok fuel st c evs = (es, res) -> res = ROk \/ res = RErr ->
    exists l, es = l ++ [ECloseTransport].
  Proof.
    induction fuel as [|fuel IH]; intros st c evs es res H Hres; cbn [run_loop] in H.
    - inversion H; subst. destruct Hres; discriminate.
    - destruct (next c evs) as [m a c' r|c' r|].
      + destruct (step st a m) as [st' es1|st' es1|].
        * destruct (run_loop cfg user send_ok fuel st' c' r) as [es2 res2] eqn:Er.
          inversion H; subst. destruct (IH _ _ _ _ _ Er Hres) as (l & ->).
          exists (es1 ++ l). rewrite app_assoc. reflexivity.
        * inversion H; subst. destruct (final_drops_last st') as (l & ->).
          exists (es1 ++ l). rewrite app_assoc. reflexivity.
        * inversion H; subst. destruct Hres; discriminate.
      + inversion H; subst. apply final_drops_last.
      + inversion H; subst. destruct Hres; discriminate.
  Qed.
End Trace.
