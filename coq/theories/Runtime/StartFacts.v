(* run_inner's start-up: every offered program is compiled and its install message encoded before
   the receive loop is entered; one failure and the run ends with an error, the transport closed,
   nothing sent.  (cfg_compile_ok is false exactly when some program of the collected set does not
   compile or its install message cannot be encoded.) *)
From Portus Require Import Loop LoopFacts.

Lemma refuses_to_start cfg user send_ok bufsize stopped0 evs :
  cfg_compile_ok cfg = false ->
  run_model cfg user send_ok bufsize stopped0 evs = ([ECloseTransport], RErr).
Proof. intros H. unfold run_model. rewrite H. reflexivity. Qed.

(* in particular no installation and no handle command: a set of programs is installed whole or the
   runtime does not run *)
Corollary nothing_sent_when_refused cfg user send_ok bufsize stopped0 evs :
  cfg_compile_ok cfg = false ->
  forall e, In e (fst (run_model cfg user send_ok bufsize stopped0 evs)) -> e = ECloseTransport.
Proof.
  intros H e He. rewrite (refuses_to_start _ _ _ _ _ _ H) in He. cbn in He. destruct He as [<-|[]]. reflexivity.
Qed.

Theorem partial_program_set_never_runs cfg user send_ok bufsize stopped0 evs :
  cfg_compile_ok cfg = false ->
  run_model cfg user send_ok bufsize stopped0 evs = ([ECloseTransport], RErr) /\
  forall e, In e (fst (run_model cfg user send_ok bufsize stopped0 evs)) -> e = ECloseTransport.
Proof. intros H. split; [exact (refuses_to_start _ _ _ _ _ _ H)|exact (nothing_sent_when_refused _ _ _ _ _ _ H)]. Qed.
