(* C12 tied to the compiler: in a scope that satisfies the compiler's scope invariant (ScopeInv.sinv;
   C01Final.sinv_scF: the scope returned for every program of the typed fragment), two different
   report names are bound to different report slots, so a lookup through one name never returns the
   value of another variable's slot, and a report as long as the program's report file always has
   the slot. *)
From Portus Require Import Handle ScopeInv C01Final.
From Coq Require Import ZArith ZifyN ZifyNat ZifyBool Lia.

Lemma report_slots_distinct sc x y ix tx vx iy ty vy :
  sinv sc -> x <> y ->
  sc_get (sc_named sc) x = Some (Report ix tx vx) ->
  sc_get (sc_named sc) y = Some (Report iy ty vy) ->
  ix <> iy.
Proof.
  intros S Hxy Hx Hy Hi. subst iy. apply Hxy.
  eapply (si_inj sc S x y); [exact Hx|exact Hy|reflexivity|reflexivity].
Qed.

(* a report with as many values as the program has report variables always has the slot *)
Lemma full_report_has_every_slot sc uid fields x :
  sinv sc -> N.of_nat (length fields) = sc_nperm sc ->
  forall i t v, sc_get (sc_named sc) x = Some (Report i t v) ->
  exists w, get_field uid fields uid (sc_named sc) x = GfOk w /\ nth_error fields (N.to_nat i) = Some w.
Proof.
  intros S Hlen i t v Hx.
  pose proof (si_bounds sc S x _ Hx) as Hb. cbn beta iota in Hb.
  unfold get_field. rewrite N.eqb_refl. cbn [negb]. rewrite Hx.
  destruct (nth_error fields (N.to_nat i)) as [w|] eqn:En.
  - exists w. split; reflexivity.
  - apply nth_error_None in En. lia.
Qed.

(* two different names that both read successfully read from two different positions *)
Theorem distinct_names_read_distinct_positions sc uid fields x y vx vy :
  sinv sc -> x <> y ->
  get_field uid fields uid (sc_named sc) x = GfOk vx ->
  get_field uid fields uid (sc_named sc) y = GfOk vy ->
  exists ix iy, ix <> iy /\ nth_error fields (N.to_nat ix) = Some vx /\ nth_error fields (N.to_nat iy) = Some vy.
Proof.
  intros S Hxy Hx Hy. unfold get_field in Hx, Hy. rewrite N.eqb_refl in Hx, Hy. cbn [negb] in Hx, Hy.
  destruct (sc_get (sc_named sc) x) as [rx|] eqn:Ex; [|discriminate].
  destruct (sc_get (sc_named sc) y) as [ry|] eqn:Ey; [|destruct rx; discriminate].
  destruct rx as [ | | | | | |ix tx volx| | ]; try discriminate;
  destruct ry as [ | | | | | |iy ty voly| | ]; try discriminate.
  destruct (nth_error fields (N.to_nat ix)) as [wx|] eqn:Enx; try discriminate.
  destruct (nth_error fields (N.to_nat iy)) as [wy|] eqn:Eny; try discriminate.
  inversion Hx; inversion Hy; subst.
  exists ix, iy. split; [|split; assumption].
  eapply report_slots_distinct; eauto.
Qed.
