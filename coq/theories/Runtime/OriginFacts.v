(* C09 over whole histories: everything the runtime transmits while it handles a message -- installs,
   change-program and update-fields messages, and the sends that fail -- is addressed to the datapath
   that message came from.  No history makes a reply, or a flow's command, go to another address. *)
From Portus Require Import Loop LoopFacts CodecFacts CursorFacts TraceFacts.

Definition to_addr (a : N) (e : effect) : Prop :=
  match e with
  | ESend b _ | ESendFail b | EInstall b _ => b = a
  | _ => True
  end.

(* walk a trace remembering whose message is being handled *)
Fixpoint origin_ok (cur : option N) (t : list tev) : Prop :=
  match t with
  | [] => True
  | TIn a _ :: r => origin_ok (Some a) r
  | TOut e :: r => (match cur with Some a => to_addr a e | None => True end) /\ origin_ok cur r
  end.

Lemma origin_ok_app cur l1 l2 : (forall e, In e l1 -> exists x, e = TOut x) ->
  origin_ok cur (l1 ++ l2) <-> origin_ok cur l1 /\ origin_ok cur l2.
Proof.
  induction l1 as [|e r IH]; intros Hout; cbn [app origin_ok]; [tauto|].
  destruct (Hout e (or_introl eq_refl)) as (x & ->).
  rewrite IH by (intros e' He'; apply Hout; right; exact He'). tauto.
Qed.

Lemma origin_outs cur es : Forall (fun e => match cur with Some a => to_addr a e | None => True end) es ->
  origin_ok cur (map TOut es).
Proof. induction 1 as [|e r He _ IH]; cbn [map origin_ok]; auto. Qed.

Section Origin.
  Variable cfg : config.
  Variable user : nat -> bool -> list cmd.
  Variable send_ok : nat -> bool.

  Lemma cmd_effects_to fl a ces : f_addr fl = a -> Forall (cmd_effect_ok cfg fl) ces -> Forall (to_addr a) ces.
  Proof.
    intros Ha H. eapply Forall_impl; [|exact H]. intros e He. destruct e; cbn [cmd_effect_ok to_addr] in *; try exact I; try contradiction.
    - destruct He as [-> _]. exact Ha.
    - rewrite He. exact Ha.
  Qed.

  Theorem step_replies_to_sender st a m st' es :
    step cfg user send_ok st a m = SOk st' es -> handles_ok st -> Forall (to_addr a) es.
  Proof.
    intros H Hh. destruct m as [c|x|r|o].
    - destruct (step_create cfg user send_ok _ _ _ _ _ H) as (fl' & ces & _ & _ & Ha & _ & _ & _ & _ & _ & _ & Hc & ->).
      apply Forall_app. split.
      + destruct (known st a); [constructor|]. apply Forall_map. apply Forall_forall. intros p _. reflexivity.
      + apply Forall_app. split; [destruct (look st a (c_sid c)); repeat constructor|].
        apply Forall_app. split; [repeat constructor|]. eapply cmd_effects_to; eauto.
    - destruct (step_measure cfg user send_ok _ _ _ _ _ H) as (_ & _ & _ & Hm).
      destruct (look st a (m_sid x)) as [fl|] eqn:El.
      + destruct (Hh _ _ _ El) as [Ha _].
        destruct (m_nf x =? 0).
        * destruct Hm as [_ ->]. repeat constructor.
        * destruct Hm as (fl' & ces & _ & _ & Hc & ->). constructor; [exact I|]. eapply cmd_effects_to; eauto.
      + destruct Hm as [_ ->]. constructor.
    - destruct (step_ready cfg user send_ok _ _ _ _ _ H) as (_ & _ & _ & _ & _ & ->).
      apply Forall_app. split.
      + destruct (amap_get (st_flows st) a) as [fm|]; [|constructor]. unfold drops_of. apply Forall_map. apply Forall_forall. intros kv _. exact I.
      + apply Forall_map. apply Forall_forall. intros p _. reflexivity.
    - cbn in H. inversion H. constructor.
  Qed.

  (* C05, last clause: no other message causes any installation *)
  Theorem only_ready_and_first_create_install st a m st' es b u :
    step cfg user send_ok st a m = SOk st' es -> In (EInstall b u) es ->
    b = a /\ ((exists r, m = MRdy r) \/ (exists c, m = MCr c /\ known st a = false)).
  Proof.
    intros H Hin. destruct m as [c|x|r|o].
    - destruct (step_create cfg user send_ok _ _ _ _ _ H) as (fl' & ces & _ & _ & _ & _ & _ & _ & _ & _ & _ & Hc & ->).
      apply in_app_or in Hin. destruct Hin as [Hin|Hin].
      + destruct (known st a) eqn:Ek; [destruct Hin|]. apply in_map_iff in Hin. destruct Hin as (p & Hp & _). inversion Hp; subst.
        split; [reflexivity|]. right. eauto.
      + exfalso. apply in_app_or in Hin. destruct Hin as [Hin|Hin].
        * destruct (look st a (c_sid c)); [destruct Hin as [Hin|[]]; discriminate Hin|destruct Hin].
        * apply in_app_or in Hin. destruct Hin as [[Hin|[]]|Hin]; [discriminate Hin|].
          rewrite Forall_forall in Hc. exact (Hc _ Hin).
    - exfalso. destruct (step_measure cfg user send_ok _ _ _ _ _ H) as (_ & _ & _ & Hm).
      destruct (look st a (m_sid x)) as [fl|].
      + destruct (m_nf x =? 0).
        * destruct Hm as [_ ->]. destruct Hin as [Hin|[Hin|[]]]; discriminate Hin.
        * destruct Hm as (fl' & ces & _ & _ & Hc & ->). destruct Hin as [Hin|Hin]; [discriminate Hin|].
          rewrite Forall_forall in Hc. exact (Hc _ Hin).
      + destruct Hm as [_ ->]. destruct Hin.
    - destruct (step_ready cfg user send_ok _ _ _ _ _ H) as (_ & _ & _ & _ & _ & ->).
      apply in_app_or in Hin. destruct Hin as [Hin|Hin].
      + exfalso. destruct (amap_get (st_flows st) a) as [fm|]; [|destruct Hin]. unfold drops_of in Hin.
        apply in_map_iff in Hin. destruct Hin as (kv & Hkv & _). discriminate Hkv.
      + apply in_map_iff in Hin. destruct Hin as (p & Hp & _). inversion Hp; subst. split; [reflexivity|]. left. eauto.
    - cbn in H. inversion H; subst. destruct Hin.
  Qed.

  Theorem trace_origin : forall h st st' t cur, trace cfg user send_ok st h = Some (st', t) ->
    handles_ok st -> hids_ok st -> origin_ok cur t.
  Proof.
    induction h as [|[a m] r IH]; intros st st' t cur H Hh Hi; cbn [trace] in H.
    - inversion H; subst. exact I.
    - destruct (step cfg user send_ok st a m) as [st1 es1| |] eqn:Es; try discriminate H.
      destruct (trace cfg user send_ok st1 r) as [[st2 t2]|] eqn:Et; [|discriminate H]. inversion H; subst st' t; clear H.
      cbn [origin_ok].
      assert (Hs : steps cfg user send_ok st [(a, m)] = Some (st1, es1 ++ [])) by (cbn [steps]; rewrite Es; reflexivity).
      destruct (reachable_invariants cfg user send_ok _ _ _ _ Hs Hh Hi) as [Hh1 Hi1].
      apply origin_ok_app.
      + intros e He. apply in_map_iff in He. destruct He as (x & <- & _). eauto.
      + split.
        * apply origin_outs. exact (step_replies_to_sender _ _ _ _ _ Es Hh).
        * (* what follows starts with the next message (or is empty) *)
          destruct r as [|[a2 m2] r2].
          -- cbn [trace] in Et. inversion Et; subst. exact I.
          -- exact (IH _ _ _ (Some a) Et Hh1 Hi1).
  Qed.

  Corollary every_reply_goes_to_the_sender h st' t :
    trace cfg user send_ok init_state h = Some (st', t) -> origin_ok None t.
  Proof. intros H. exact (trace_origin _ _ _ _ None H handles_ok_init hids_ok_init). Qed.
End Origin.
