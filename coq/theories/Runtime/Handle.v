(* The datapath handle: `impl DatapathTrait for Datapath` (set_program, update_field) and
   `Report::get_field` in src/lib.rs. *)
From Portus Require Export Control.

Record prog := mkProg {
  p_name : name;
  p_uid : N;
  p_scope : scope_tbl
}.

Fixpoint find_prog (ps : list prog) (n : name) : option prog :=
  match ps with
  | [] => None
  | p :: r => if name_eqb (p_name p) n then Some p else find_prog r n
  end.

Definition starts_with_dunder (n : name) : bool :=
  match n with
  | 95 :: 95 :: _ => true
  | _ => false
  end.

(* one (name, value) pair -> (register, value), or an error *)
Definition resolve_field (sc : scope_tbl) (f : name * N) : outcome (reg * N) :=
  let '(n, v) := f in
  if starts_with_dunder n then Err
  else match sc_get sc n with
       | None => Err
       | Some (Control i t vol) => Ok (Control i t vol, v)
       | Some (Implicit i t) => if (i =? 4) || (i =? 5) then Ok (Implicit i t, v) else Err
       | Some _ => Err
       end.

(* .map(..).collect::<Result<Vec<_>>>() : first error wins, nothing is kept *)
Fixpoint resolve_all (sc : scope_tbl) (fs : list (name * N)) : outcome (list (reg * N)) :=
  match fs with
  | [] => Ok []
  | f :: rest =>
    do x <- resolve_field sc f;
    do xs <- resolve_all sc rest;
    Ok (x :: xs)
  end.

(* The bytes a command transmits, or the reason nothing is transmitted.
   set_program: Ok (program, message);  update_field: Ok message. *)
Definition set_program_msg (progs : list prog) (sid : N) (pname : name) (fields : list (name * N))
  : outcome (prog * list N) :=
  match find_prog progs pname with
  | None => Err
  | Some p =>
    do fs <- resolve_all (p_scope p) fields;
    do bytes <- serialize_changeprog sid (p_uid p) (N.of_nat (length fs)) fs;
    Ok (p, bytes)
  end.

Definition update_field_msg (sc : scope_tbl) (sid : N) (fields : list (name * N)) : outcome (list N) :=
  do fs <- resolve_all sc fields;
  if 255 <? N.of_nat (length fs) then Err       (* u8::try_from(fields.len()) *)
  else serialize_update sid (N.of_nat (length fs)) fs.

(* ---- Report::get_field ---- *)

Inductive gf_err := Stale | NotFound | RegType | InvalidReport.
Inductive gf_res := GfOk (v : N) | GfErr (e : gf_err).

Definition get_field (rep_uid : N) (fields : list N) (sc_uid : N) (sc : scope_tbl) (n : name) : gf_res :=
  if negb (sc_uid =? rep_uid) then GfErr Stale
  else match sc_get sc n with
       | None => GfErr NotFound
       | Some (Report idx _ _) =>
         match nth_error fields (N.to_nat idx) with
         | Some v => GfOk v
         | None => GfErr InvalidReport
         end
       | Some _ => GfErr RegType
       end.
