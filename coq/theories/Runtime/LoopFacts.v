(* Facts about the dispatch-loop model: the two-level flow map behaves as a flat map keyed by
   (address, flow id); handles keep their origin; installs happen exactly on ready / first
   contact; no step panics; ignored messages change nothing. *)
From Portus Require Import Loop.
From Coq Require Import ZArith ZifyN ZifyNat ZifyBool.

(* ---------- association maps ---------- *)

Lemma amap_get_remove_same {V} (m : list (N * V)) k : amap_get (amap_remove m k) k = None.
Proof.
  induction m as [|[k' v] r IH]; cbn [amap_remove amap_get]; [reflexivity|].
  destruct (k' =? k) eqn:E; [exact IH|]. cbn [amap_get]. rewrite E. exact IH.
Qed.

Lemma amap_get_remove_other {V} (m : list (N * V)) k k' : k' <> k ->
  amap_get (amap_remove m k) k' = amap_get m k'.
Proof.
  intros Hne. induction m as [|[k0 v] r IH]; cbn [amap_remove amap_get]; [reflexivity|].
  destruct (k0 =? k) eqn:E.
  - apply N.eqb_eq in E. subst k0.
    replace (k =? k') with false by (symmetry; apply N.eqb_neq; congruence). exact IH.
  - cbn [amap_get]. destruct (k0 =? k'); [reflexivity|exact IH].
Qed.

Lemma amap_get_set_same {V} (m : list (N * V)) k v : amap_get (amap_set m k v) k = Some v.
Proof. unfold amap_set. cbn [amap_get]. rewrite N.eqb_refl. reflexivity. Qed.

Lemma amap_get_set_other {V} (m : list (N * V)) k k' v : k' <> k ->
  amap_get (amap_set m k v) k' = amap_get m k'.
Proof.
  intros Hne. unfold amap_set. cbn [amap_get].
  replace (k =? k') with false by (symmetry; apply N.eqb_neq; congruence).
  apply amap_get_remove_other. exact Hne.
Qed.

(* the flat view: which flow is bound to (address, flow id) *)
Definition look (st : state) (a s : N) : option flow :=
  match amap_get (st_flows st) a with
  | Some fm => amap_get fm s
  | None => None
  end.

Definition known (st : state) (a : N) : bool :=
  match amap_get (st_flows st) a with Some _ => true | None => false end.

Section Facts.
  Variable cfg : config.
  Variable user : nat -> bool -> list cmd.
  Variable send_ok : nat -> bool.

  Notation step := (step cfg user send_ok).
  Notation exec_cmd := (exec_cmd cfg send_ok).
  Notation exec_cmds := (exec_cmds cfg send_ok).
  Notation install_all := (install_all send_ok).

  (* ---------- handle commands ---------- *)

  Definition same_handle (f g : flow) : Prop :=
    f_hid f = f_hid g /\ f_addr f = f_addr g /\ f_sid f = f_sid g.

  Lemma exec_cmd_handle fl rep k c fl' es n :
    exec_cmd fl rep k c = Some (fl', es, n) -> same_handle fl fl'.
  Proof.
    unfold exec_cmd, same_handle. intros H.
    destruct c as [p fields|p fields|s field].
    - destruct (set_program_msg (cfg_progs cfg) (f_sid fl) p fields) as [[pr bytes]| |]; try discriminate.
      + unfold do_send in H. destruct (send_ok k); inversion H; subst; cbn; auto.
      + inversion H; subst; auto.
    - destruct (find_prog (cfg_own cfg) p) as [pr|]; [|inversion H; subst; auto].
      destruct (update_field_msg (p_scope pr) (f_sid fl) fields) as [bytes| |]; try discriminate.
      + unfold do_send in H. destruct (send_ok k); inversion H; subst; auto.
      + inversion H; subst; auto.
    - destruct rep as [[uid fields]|]; [|inversion H; subst; auto].
      destruct s as [p|p].
      + destruct (mem_name p (f_got fl)); [|inversion H; subst; auto].
        destruct (find_prog (cfg_progs cfg) p); inversion H; subst; auto.
      + destruct (find_prog (cfg_own cfg) p); inversion H; subst; auto.
  Qed.

  Lemma exec_cmds_handle cs : forall fl rep k fl' es n,
    exec_cmds fl rep k cs = Some (fl', es, n) -> same_handle fl fl'.
  Proof.
    induction cs as [|c r IH]; intros fl rep k fl' es n H; cbn [Loop.exec_cmds] in H.
    - inversion H; subst. unfold same_handle; auto.
    - destruct (exec_cmd fl rep k c) as [[[fl1 e1] n1]|] eqn:E1; [|discriminate].
      destruct (exec_cmds fl1 rep (k + n1) r) as [[[fl2 e2] n2]|] eqn:E2; [|discriminate].
      inversion H; subst.
      apply exec_cmd_handle in E1. apply IH in E2.
      unfold same_handle in *. intuition congruence.
  Qed.

  (* what a command may emit: results, and sends to the handle's own address carrying the
     handle's own flow id and the uid of a program of the compiled set *)
  Definition is_chg_of (sid : N) (bytes : list N) : Prop :=
    exists pr fs n, In pr (cfg_progs cfg) /\ serialize_changeprog sid (p_uid pr) n fs = Ok bytes.
  Definition is_upd_of (sid : N) (bytes : list N) : Prop :=
    exists fs n, serialize_update sid n fs = Ok bytes.

  Definition cmd_effect_ok (fl : flow) (e : effect) : Prop :=
    match e with
    | ESend a bytes => a = f_addr fl /\ (is_chg_of (f_sid fl) bytes \/ is_upd_of (f_sid fl) bytes)
    | ESendFail a => a = f_addr fl
    | ECmd _ | ECmdSkip | EGet _ => True
    | _ => False
    end.

  Lemma find_prog_in ps n p : find_prog ps n = Some p -> In p ps /\ p_name p = n.
  Proof.
    induction ps as [|q r IH]; cbn [find_prog]; [discriminate|].
    destruct (name_eqb (p_name q) n) eqn:E; intros H.
    - inversion H; subst. split; [left; reflexivity|apply name_eqb_eq; exact E].
    - destruct (IH H) as [H1 H2]. split; [right; exact H1|exact H2].
  Qed.

  Lemma exec_cmd_effects fl rep k c fl' es n :
    exec_cmd fl rep k c = Some (fl', es, n) -> Forall (cmd_effect_ok fl) es.
  Proof.
    unfold exec_cmd. intros H.
    destruct c as [p fields|p fields|s field].
    - unfold set_program_msg in H.
      destruct (find_prog (cfg_progs cfg) p) as [pr|] eqn:Ef.
      2:{ inversion H; subst. repeat constructor. }
      destruct (find_prog_in _ _ _ Ef) as [Hin _].
      destruct (resolve_all (p_scope pr) fields) as [fs| |] eqn:Er; cbn [bind] in H.
      2:{ inversion H; subst. repeat constructor. }
      2:{ discriminate. }
      destruct (serialize_changeprog (f_sid fl) (p_uid pr) (N.of_nat (length fs)) fs) as [bytes| |] eqn:Es;
        cbn [bind] in H.
      2:{ inversion H; subst. repeat constructor. }
      2:{ discriminate. }
      unfold do_send in H. destruct (send_ok k); inversion H; subst; cbn [app].
      + constructor; [|repeat constructor]. cbn. split; [reflexivity|]. left.
        exists pr, fs, (N.of_nat (length fs)). split; assumption.
      + repeat constructor.
    - destruct (find_prog (cfg_own cfg) p) as [pr|]; [|inversion H; subst; repeat constructor].
      destruct (update_field_msg (p_scope pr) (f_sid fl) fields) as [bytes| |] eqn:Eu; try discriminate.
      2:{ inversion H; subst. repeat constructor. }
      unfold do_send in H. destruct (send_ok k); inversion H; subst; cbn [app].
      + constructor; [|repeat constructor]. cbn. split; [reflexivity|]. right.
        unfold update_field_msg in Eu.
        destruct (resolve_all (p_scope pr) fields) as [fs| |]; cbn [bind] in Eu; try discriminate.
        destruct (255 <? N.of_nat (length fs)); [discriminate|].
        exists fs, (N.of_nat (length fs)). exact Eu.
      + repeat constructor.
    - destruct rep as [[uid fields]|]; [|inversion H; subst; repeat constructor].
      destruct s as [p|p].
      + destruct (mem_name p (f_got fl)); [|inversion H; subst; repeat constructor].
        destruct (find_prog (cfg_progs cfg) p); inversion H; subst; repeat constructor.
      + destruct (find_prog (cfg_own cfg) p); inversion H; subst; repeat constructor.
  Qed.

  Lemma cmd_effect_ok_same fl fl' e : same_handle fl fl' -> cmd_effect_ok fl e -> cmd_effect_ok fl' e.
  Proof.
    unfold same_handle, cmd_effect_ok. intros (H1 & H2 & H3).
    destruct e; try tauto; rewrite <- ?H2, <- ?H3; tauto.
  Qed.

  Lemma exec_cmds_effects cs : forall fl rep k fl' es n,
    exec_cmds fl rep k cs = Some (fl', es, n) -> Forall (cmd_effect_ok fl) es.
  Proof.
    induction cs as [|c r IH]; intros fl rep k fl' es n H; cbn [Loop.exec_cmds] in H.
    - inversion H; subst. constructor.
    - destruct (exec_cmd fl rep k c) as [[[fl1 e1] n1]|] eqn:E1; [|discriminate].
      destruct (exec_cmds fl1 rep (k + n1) r) as [[[fl2 e2] n2]|] eqn:E2; [|discriminate].
      inversion H; subst.
      apply Forall_app. split.
      + eapply exec_cmd_effects; eassumption.
      + apply IH in E2. apply exec_cmd_handle in E1.
        eapply Forall_impl; [|exact E2].
        intros e He. apply (cmd_effect_ok_same fl1 fl); [|exact He].
        unfold same_handle in *. intuition congruence.
  Qed.

  (* a handle command never panics: the registers it encodes are control or implicit ones *)
  Lemma resolve_field_regs sc f r v : resolve_field sc f = Ok (r, v) ->
    (exists i t vol, r = Control i t vol) \/ (exists i t, r = Implicit i t).
  Proof.
    unfold resolve_field. destruct f as [n v0].
    destruct (starts_with_dunder n); [discriminate|].
    destruct (sc_get sc n) as [[i t vol|x|b|i t|i t|i t|i t vol|i t|]|]; try discriminate.
    - intros H; inversion H; subst. left; eauto.
    - destruct ((i =? 4) || (i =? 5)); [|discriminate]. intros H; inversion H; subst. right; eauto.
  Qed.

  Lemma resolve_all_regs sc fs : forall l, resolve_all sc fs = Ok l ->
    Forall (fun rv => (exists i t vol, fst rv = Control i t vol) \/ (exists i t, fst rv = Implicit i t)) l.
  Proof.
    induction fs as [|f r IH]; intros l H; cbn [resolve_all] in H.
    - inversion H. constructor.
    - apply bind_ok_inv in H. destruct H as ([rg v] & Hf & H).
      apply bind_ok_inv in H. destruct H as (xs & Hx & H). inversion H; subst.
      constructor; [|apply IH; exact Hx].
      cbn [fst]. eapply resolve_field_regs; exact Hf.
  Qed.

  Lemma resolve_all_not_panic sc fs : resolve_all sc fs <> Panic.
  Proof.
    induction fs as [|[n v] r IH]; cbn [resolve_all]; [discriminate|].
    apply bind_not_panic.
    - unfold resolve_field. destruct (starts_with_dunder n); [discriminate|].
      destruct (sc_get sc n) as [[i t vol|x|b|i t|i t|i t|i t vol|i t|]|]; try discriminate.
      destruct ((i =? 4) || (i =? 5)); discriminate.
    - intros x _. apply bind_not_panic; [exact IH|]. discriminate.
  Qed.

  Lemma ser_updates_not_panic l :
    Forall (fun rv => (exists i t vol, fst rv = Control i t vol) \/ (exists i t, fst rv = Implicit i t)) l ->
    ser_updates l <> Panic.
  Proof.
    induction 1 as [|[r v] l Hr Hl IH]; cbn [ser_updates]; [discriminate|].
    apply bind_not_panic.
    - cbn [fst] in Hr. unfold ser_reg.
      destruct Hr as [(i & t & vol & ->)|(i & t & ->)]; cbn [reg_code].
      + destruct (LIM_CONTROL <? i); cbn [bind]; discriminate.
      + destruct (LIM_IMPLICIT <? i); cbn [bind]; discriminate.
    - intros x _. apply bind_not_panic; [exact IH|]. discriminate.
  Qed.

  Lemma serialize_gen_not_panic typ len sid u32s bytes :
    bytes <> Panic -> serialize_gen typ len sid u32s bytes <> Panic.
  Proof.
    intros H. unfold serialize_gen. destruct (65535 <? len); [discriminate|].
    apply bind_not_panic; [exact H|]. discriminate.
  Qed.

  Lemma exec_cmd_not_panic fl rep k c : exec_cmd fl rep k c <> None.
  Proof.
    unfold exec_cmd. destruct c as [p fields|p fields|s field].
    - unfold set_program_msg. destruct (find_prog (cfg_progs cfg) p) as [pr|]; [|discriminate].
      destruct (resolve_all (p_scope pr) fields) as [fs| |] eqn:Er; cbn [bind]; try discriminate.
      + pose proof (resolve_all_regs _ _ _ Er) as Hregs.
        pose proof (serialize_gen_not_panic T_CHANGEPROG (16 + 13 * N.of_nat (length fs)) (f_sid fl)
                      (enc_le 4 (p_uid pr) ++ enc_le 4 (N.of_nat (length fs))) _
                      (ser_updates_not_panic _ Hregs)) as Hnp.
        unfold serialize_changeprog.
        destruct (serialize_gen _ _ _ _ _) as [bytes| |]; cbn [bind]; try discriminate; [|congruence].
        unfold do_send. destruct (send_ok k); discriminate.
      + exfalso. exact (resolve_all_not_panic _ _ Er).
    - destruct (find_prog (cfg_own cfg) p) as [pr|]; [|discriminate].
      unfold update_field_msg.
      destruct (resolve_all (p_scope pr) fields) as [fs| |] eqn:Er; cbn [bind]; try discriminate.
      + destruct (255 <? N.of_nat (length fs)); [discriminate|].
        pose proof (resolve_all_regs _ _ _ Er) as Hregs.
        pose proof (serialize_gen_not_panic T_UPDATE (12 + 13 * N.of_nat (length fs)) (f_sid fl)
                      (enc_le 4 (N.of_nat (length fs))) _ (ser_updates_not_panic _ Hregs)) as Hnp.
        unfold serialize_update.
        destruct (serialize_gen _ _ _ _ _) as [bytes| |]; try discriminate; [|congruence].
        unfold do_send. destruct (send_ok k); discriminate.
      + exfalso. exact (resolve_all_not_panic _ _ Er).
    - destruct rep as [[uid fields]|]; [|discriminate].
      destruct s as [p|p].
      + destruct (mem_name p (f_got fl)); [|discriminate].
        destruct (find_prog (cfg_progs cfg) p); discriminate.
      + destruct (find_prog (cfg_own cfg) p); discriminate.
  Qed.

  Lemma exec_cmds_not_panic cs : forall fl rep k, exec_cmds fl rep k cs <> None.
  Proof.
    induction cs as [|c r IH]; intros fl rep k; cbn [Loop.exec_cmds]; [discriminate|].
    pose proof (exec_cmd_not_panic fl rep k c) as H1.
    destruct (exec_cmd fl rep k c) as [[[fl1 e1] n1]|]; [|congruence].
    pose proof (IH fl1 rep (k + n1)%nat) as H2.
    destruct (exec_cmds fl1 rep (k + n1) r) as [[[fl2 e2] n2]|]; [discriminate|congruence].
  Qed.

  Theorem step_not_panic st a m : step st a m <> SPanic.
  Proof.
    unfold Loop.step. destruct m as [c|x|r|o].
    - destruct (amap_get (st_flows st) a) as [fm|].
      + cbn [negb]. cbv iota.
        pose proof (exec_cmds_not_panic (user (st_cb st) false) (mkFlow (st_next st) a (c_sid c) []) None (st_sends st + 0)) as H.
        destruct (exec_cmds _ _ _ _) as [[[fl' ces] n2]|]; [discriminate|congruence].
      + destruct (install_all (cfg_progs cfg) a (st_sends st)) as [[ies n] ok].
        destruct ok; cbn [negb]; [|discriminate].
        pose proof (exec_cmds_not_panic (user (st_cb st) false) (mkFlow (st_next st) a (c_sid c) []) None (st_sends st + n)) as H.
        destruct (exec_cmds _ _ _ _) as [[[fl' ces] n2]|]; [discriminate|congruence].
    - destruct (amap_get (st_flows st) a) as [fm|]; [|discriminate].
      destruct (amap_get fm (m_sid x)) as [fl|]; [|discriminate].
      destruct (m_nf x =? 0); [discriminate|].
      pose proof (exec_cmds_not_panic (user (st_cb st) true) fl (Some (m_uid x, m_fields x)) (st_sends st)) as H.
      destruct (exec_cmds _ _ _ _) as [[[fl' ces] n2]|]; [discriminate|congruence].
    - destruct (install_all (cfg_progs cfg) a (st_sends st)) as [[es n] ok]. destruct ok; discriminate.
    - discriminate.
  Qed.

  (* ---------- installs ---------- *)

  Lemma install_all_ok ps a : forall k es n, install_all ps a k = (es, n, true) ->
    es = map (fun p => EInstall a (p_uid p)) ps /\ n = length ps.
  Proof.
    induction ps as [|p r IH]; intros k es n H; cbn [Loop.install_all] in H.
    - inversion H. auto.
    - destruct (send_ok k); [|discriminate].
      destruct (install_all r a (S k)) as [[es' n'] ok'] eqn:E. inversion H; subst.
      destruct (IH _ _ _ E) as [H1 H2]. subst. auto.
  Qed.

  Lemma install_all_effects ps a : forall k es n ok, install_all ps a k = (es, n, ok) ->
    Forall (fun e => (exists p, In p ps /\ e = EInstall a (p_uid p)) \/ e = ESendFail a) es.
  Proof.
    induction ps as [|p r IH]; intros k es n ok H; cbn [Loop.install_all] in H.
    - inversion H. constructor.
    - destruct (send_ok k).
      + destruct (install_all r a (S k)) as [[es' n'] ok'] eqn:E. inversion H; subst.
        constructor; [left; exists p; split; [left; reflexivity|reflexivity]|].
        eapply Forall_impl; [|exact (IH _ _ _ _ E)].
        intros e [(q & Hq & He)|He]; [left; exists q; split; [right; exact Hq|exact He]|right; exact He].
      + inversion H; subst. constructor; [right; reflexivity|constructor].
  Qed.

  (* ---------- the flat-map view of one step ---------- *)

  (* invariant: a stored flow's handle points back to the key it is stored under *)
  Definition handles_ok (st : state) : Prop :=
    forall a s fl, look st a s = Some fl -> f_addr fl = a /\ f_sid fl = s.

  Definition hids_ok (st : state) : Prop :=
    (forall a s fl, look st a s = Some fl -> (f_hid fl < st_next st)%nat) /\
    (forall a s fl a' s' fl', look st a s = Some fl -> look st a' s' = Some fl' ->
                              f_hid fl = f_hid fl' -> a = a' /\ s = s').

  Lemma look_set_same flows' a fm s nx cb sd :
    look (mkSt (amap_set flows' a fm) nx cb sd) a s = amap_get fm s.
  Proof. unfold look. cbn [st_flows]. rewrite amap_get_set_same. reflexivity. Qed.

  Lemma look_set_other st a fm b s nx cb sd : b <> a ->
    look (mkSt (amap_set (st_flows st) a fm) nx cb sd) b s = look st b s.
  Proof. intros H. unfold look. cbn [st_flows]. rewrite amap_get_set_other by exact H. reflexivity. Qed.

  (* Ready: every flow of that address is gone, nothing else changes, the complete program set
     is installed exactly once (after the old handlers are dropped) *)
  Theorem step_ready st a r st' es : step st a (MRdy r) = SOk st' es ->
    (forall s, look st' a s = None) /\
    (forall b s, b <> a -> look st' b s = look st b s) /\
    known st' a = true /\ (forall b, b <> a -> known st' b = known st b) /\
    st_next st' = st_next st /\
    es = (match amap_get (st_flows st) a with Some fm => drops_of fm | None => [] end) ++
         map (fun p => EInstall a (p_uid p)) (cfg_progs cfg).
  Proof.
    unfold Loop.step.
    destruct (install_all (cfg_progs cfg) a (st_sends st)) as [[ies n] ok] eqn:E.
    destruct ok; [|discriminate]. intros H; inversion H; subst; clear H.
    destruct (install_all_ok _ _ _ _ _ E) as [-> ->].
    repeat split.
    - intros s. rewrite look_set_same. reflexivity.
    - intros b s Hb. apply look_set_other. exact Hb.
    - unfold known. cbn [st_flows]. rewrite amap_get_set_same. reflexivity.
    - intros b Hb. unfold known. cbn [st_flows]. rewrite amap_get_set_other by exact Hb. reflexivity.
  Qed.

  (* Create: the (address, flow id) is rebound to a fresh handler whose handle points back to
     exactly that address and flow id; the handler it replaces is dropped (never closed) before
     the new one is created; a never-seen address is sent the complete program set first *)
  Theorem step_create st a c st' es : step st a (MCr c) = SOk st' es ->
    exists fl' ces,
      look st' a (c_sid c) = Some fl' /\
      f_hid fl' = st_next st /\ f_addr fl' = a /\ f_sid fl' = c_sid c /\
      st_next st' = S (st_next st) /\
      (forall s, s <> c_sid c -> look st' a s = look st a s) /\
      (forall b s, b <> a -> look st' b s = look st b s) /\
      known st' a = true /\ (forall b, b <> a -> known st' b = known st b) /\
      Forall (cmd_effect_ok fl') ces /\
      es = (if known st a then [] else map (fun p => EInstall a (p_uid p)) (cfg_progs cfg)) ++
           (match look st a (c_sid c) with Some old => [EDrop (f_hid old)] | None => [] end) ++
           [ENew (st_next st)
                 (pick (cfg_algs cfg) (cfg_default cfg) (match c_alg c with Some s => s | None => [] end))
                 a c] ++ ces.
  Proof.
    unfold Loop.step, known, look.
    destruct (amap_get (st_flows st) a) as [fm|] eqn:Eg.
    - cbn [negb]. cbv iota.
      destruct (exec_cmds (mkFlow (st_next st) a (c_sid c) []) None (st_sends st + 0) (user (st_cb st) false))
        as [[[fl' ces] n2]|] eqn:Ex; [|discriminate].
      intros H; inversion H; subst; clear H.
      pose proof (exec_cmds_handle _ _ _ _ _ _ _ Ex) as (Hh & Ha & Hs). cbn in Hh, Ha, Hs.
      pose proof (exec_cmds_effects _ _ _ _ _ _ _ Ex) as Heff.
      exists fl', ces. cbn [st_flows st_next].
      rewrite amap_get_set_same.
      repeat split; try congruence.
      + apply amap_get_set_same.
      + intros s Hs'. rewrite amap_get_set_other by exact Hs'.
        apply amap_get_remove_other. exact Hs'.
      + intros b s Hb. rewrite amap_get_set_other by exact Hb. reflexivity.
      + intros b Hb. rewrite amap_get_set_other by exact Hb. reflexivity.
      + eapply Forall_impl; [|exact Heff]. intros e He.
        apply (cmd_effect_ok_same (mkFlow (st_next st) a (c_sid c) []) fl'); [|exact He].
        unfold same_handle. cbn. auto.
    - destruct (install_all (cfg_progs cfg) a (st_sends st)) as [[ies n] ok] eqn:Ei.
      destruct ok; cbn [negb]; [|discriminate]. cbv iota.
      destruct (install_all_ok _ _ _ _ _ Ei) as [-> ->].
      destruct (exec_cmds (mkFlow (st_next st) a (c_sid c) []) None (st_sends st + length (cfg_progs cfg)) (user (st_cb st) false))
        as [[[fl' ces] n2]|] eqn:Ex; [|discriminate].
      intros H; inversion H; subst; clear H.
      pose proof (exec_cmds_handle _ _ _ _ _ _ _ Ex) as (Hh & Ha & Hs). cbn in Hh, Ha, Hs.
      pose proof (exec_cmds_effects _ _ _ _ _ _ _ Ex) as Heff.
      exists fl', ces. cbn [st_flows st_next amap_get amap_remove].
      rewrite amap_get_set_same.
      repeat split; try congruence.
      + apply amap_get_set_same.
      + intros s Hs'. rewrite amap_get_set_other by exact Hs'. reflexivity.
      + intros b s Hb. rewrite amap_get_set_other by exact Hb. reflexivity.
      + intros b Hb. rewrite amap_get_set_other by exact Hb. reflexivity.
      + eapply Forall_impl; [|exact Heff]. intros e He.
        apply (cmd_effect_ok_same (mkFlow (st_next st) a (c_sid c) []) fl'); [|exact He].
        unfold same_handle. cbn. auto.
  Qed.

  (* Measurement *)
  Theorem step_measure st a x st' es : step st a (MMs x) = SOk st' es ->
    st_next st' = st_next st /\
    (forall b, known st' b = known st b) /\
    (forall b s, (b <> a \/ s <> m_sid x) -> look st' b s = look st b s) /\
    match look st a (m_sid x) with
    | None => st' = st /\ es = []                       (* unknown datapath, unknown or closed flow *)
    | Some fl =>
      if m_nf x =? 0 then
        look st' a (m_sid x) = None /\ es = [EClose (f_hid fl); EDrop (f_hid fl)]
      else
        exists fl' ces, look st' a (m_sid x) = Some fl' /\ same_handle fl fl' /\
          Forall (cmd_effect_ok fl) ces /\
          es = EReport (f_hid fl) (m_sid x) (m_uid x) (m_fields x) :: ces
    end.
  Proof.
    unfold Loop.step, look, known.
    destruct (amap_get (st_flows st) a) as [fm|] eqn:Eg.
    2:{ intros H; inversion H; subst. repeat split; auto. }
    destruct (amap_get fm (m_sid x)) as [fl|] eqn:Ef.
    2:{ intros H; inversion H; subst. repeat split; auto. }
    destruct (m_nf x =? 0) eqn:E0.
    - intros H; inversion H; subst; clear H. cbn [st_flows st_next].
      repeat split.
      + intros b. destruct (N.eq_dec b a) as [->|Hb].
        * rewrite amap_get_set_same, Eg. reflexivity.
        * rewrite amap_get_set_other by exact Hb. reflexivity.
      + intros b s Hbs. destruct (N.eq_dec b a) as [->|Hb].
        * rewrite amap_get_set_same, Eg. destruct Hbs as [Hbs|Hbs]; [congruence|].
          apply amap_get_remove_other. exact Hbs.
        * rewrite amap_get_set_other by exact Hb. reflexivity.
      + rewrite amap_get_set_same. apply amap_get_remove_same.
    - destruct (exec_cmds fl (Some (m_uid x, m_fields x)) (st_sends st) (user (st_cb st) true))
        as [[[fl' ces] n2]|] eqn:Ex; [|discriminate].
      intros H; inversion H; subst; clear H. cbn [st_flows st_next].
      repeat split.
      + intros b. destruct (N.eq_dec b a) as [->|Hb].
        * rewrite amap_get_set_same, Eg. reflexivity.
        * rewrite amap_get_set_other by exact Hb. reflexivity.
      + intros b s Hbs. destruct (N.eq_dec b a) as [->|Hb].
        * rewrite amap_get_set_same, Eg. destruct Hbs as [Hbs|Hbs]; [congruence|].
          apply amap_get_set_other. exact Hbs.
        * rewrite amap_get_set_other by exact Hb. reflexivity.
      + exists fl', ces. rewrite amap_get_set_same, amap_get_set_same.
        repeat split.
        * eapply exec_cmds_handle; exact Ex.
        * eapply exec_cmds_handle; exact Ex.
        * eapply exec_cmds_handle; exact Ex.
        * eapply exec_cmds_effects; exact Ex.
  Qed.

  (* Unknown messages are inert *)
  Theorem step_other st a o : step st a (MOther o) = SOk st [].
  Proof. reflexivity. Qed.

  (* an ignored message: the state is returned unchanged and nothing is emitted, so every later
     message is dispatched exactly as if it had never arrived *)
  Definition ignored (st : state) (a : N) (m : msg) : Prop :=
    match m with
    | MOther _ => True
    | MMs x => look st a (m_sid x) = None
    | _ => False
    end.

  Theorem ignored_inert st a m : ignored st a m -> step st a m = SOk st [].
  Proof.
    destruct m as [c|x|r|o]; cbn [ignored]; try tauto.
    unfold look, Loop.step. intros H.
    destruct (amap_get (st_flows st) a) as [fm|]; [|reflexivity].
    rewrite H. reflexivity.
  Qed.

  (* ---------- invariants over every history ---------- *)

  Lemma step_preserves_handles st a m st' es :
    step st a m = SOk st' es -> handles_ok st -> handles_ok st'.
  Proof.
    intros H Inv. destruct m as [c|x|r|o].
    - destruct (step_create _ _ _ _ _ H) as (fl' & ces & Hl & Hh & Ha & Hs & _ & Hsame & Hoth & _).
      intros b s fl Hb.
      destruct (N.eq_dec b a) as [->|Hba].
      + destruct (N.eq_dec s (c_sid c)) as [->|Hsc].
        * rewrite Hl in Hb. inversion Hb; subst. auto.
        * rewrite Hsame in Hb by exact Hsc. apply Inv; exact Hb.
      + rewrite Hoth in Hb by exact Hba. apply Inv; exact Hb.
    - destruct (step_measure _ _ _ _ _ H) as (_ & _ & Hoth & Hcase).
      intros b s fl Hb.
      destruct (N.eq_dec b a) as [->|Hba]; [destruct (N.eq_dec s (m_sid x)) as [->|Hsx]|].
      + destruct (look st a (m_sid x)) as [fl0|] eqn:E0.
        * destruct (m_nf x =? 0).
          -- destruct Hcase as [Hn _]. congruence.
          -- destruct Hcase as (fl' & ces & Hl & (Hh & Ha & Hs) & _).
             rewrite Hl in Hb. inversion Hb; subst.
             destruct (Inv _ _ _ E0). split; congruence.
        * destruct Hcase as [-> _]. apply Inv. exact Hb.
      + rewrite Hoth in Hb by (right; exact Hsx). apply Inv; exact Hb.
      + rewrite Hoth in Hb by (left; exact Hba). apply Inv; exact Hb.
    - destruct (step_ready _ _ _ _ _ H) as (Hnone & Hoth & _).
      intros b s fl Hb. destruct (N.eq_dec b a) as [->|Hba].
      + rewrite Hnone in Hb. discriminate.
      + rewrite Hoth in Hb by exact Hba. apply Inv; exact Hb.
    - cbn in H. inversion H; subst. exact Inv.
  Qed.

  Lemma handles_ok_init : handles_ok init_state.
  Proof. intros a s fl H. unfold look in H. cbn in H. discriminate. Qed.

  (* the handler identities bound in the map are distinct and below the counter *)
  Lemma step_preserves_hids st a m st' es :
    step st a m = SOk st' es -> hids_ok st -> hids_ok st'.
  Proof.
    intros H [Hlt Hinj]. destruct m as [c|x|r|o].
    - destruct (step_create _ _ _ _ _ H) as (fl' & ces & Hl & Hh & Ha & Hs & Hnx & Hsame & Hoth & _).
      assert (Hold : forall b s fl, look st' b s = Some fl -> (b = a /\ s = c_sid c /\ fl = fl') \/
                                    ((b <> a \/ s <> c_sid c) /\ look st b s = Some fl)).
      { intros b s fl Hb. destruct (N.eq_dec b a) as [->|Hba]; [destruct (N.eq_dec s (c_sid c)) as [->|Hsc]|].
        - left. rewrite Hl in Hb. inversion Hb. auto.
        - right. rewrite Hsame in Hb by exact Hsc. auto.
        - right. rewrite Hoth in Hb by exact Hba. auto. }
      split.
      + intros b s fl Hb. rewrite Hnx. destruct (Hold _ _ _ Hb) as [(-> & -> & ->)|[_ Hb']].
        * lia.
        * specialize (Hlt _ _ _ Hb'). lia.
      + intros b s fl b' s' fl2 Hb Hb' Heq.
        destruct (Hold _ _ _ Hb) as [(-> & -> & ->)|[Hk1 Hb1]];
          destruct (Hold _ _ _ Hb') as [(-> & -> & ->)|[Hk2 Hb2]]; auto.
        * specialize (Hlt _ _ _ Hb2). lia.
        * specialize (Hlt _ _ _ Hb1). lia.
        * eapply Hinj; eassumption.
    - destruct (step_measure _ _ _ _ _ H) as (Hnx & _ & Hoth & Hcase).
      assert (Hold : forall b s fl, look st' b s = Some fl ->
                                    exists fl0, look st b s = Some fl0 /\ f_hid fl0 = f_hid fl).
      { intros b s fl Hb.
        destruct (N.eq_dec b a) as [->|Hba]; [destruct (N.eq_dec s (m_sid x)) as [->|Hsx]|].
        - destruct (look st a (m_sid x)) as [fl0|] eqn:E0.
          + destruct (m_nf x =? 0).
            * destruct Hcase as [Hn _]. congruence.
            * destruct Hcase as (fl' & ces & Hl & (Hh & _) & _).
              rewrite Hl in Hb. inversion Hb; subst. exists fl0. auto.
          + destruct Hcase as [-> _]. congruence.
        - rewrite Hoth in Hb by (right; exact Hsx). eauto.
        - rewrite Hoth in Hb by (left; exact Hba). eauto. }
      split.
      + intros b s fl Hb. rewrite Hnx. destruct (Hold _ _ _ Hb) as (fl0 & H0 & Hh0).
        rewrite <- Hh0. eapply Hlt; exact H0.
      + intros b s fl b' s' fl2 Hb Hb' Heq.
        destruct (Hold _ _ _ Hb) as (fl0 & H0 & Hh0). destruct (Hold _ _ _ Hb') as (fl1 & H1 & Hh1).
        eapply Hinj; [exact H0|exact H1|congruence].
    - destruct (step_ready _ _ _ _ _ H) as (Hnone & Hoth & _ & _ & Hnx & _).
      assert (Hold : forall b s fl, look st' b s = Some fl -> look st b s = Some fl).
      { intros b s fl Hb. destruct (N.eq_dec b a) as [->|Hba].
        - rewrite Hnone in Hb. discriminate.
        - rewrite Hoth in Hb by exact Hba. exact Hb. }
      split.
      + intros b s fl Hb. rewrite Hnx. eapply Hlt. apply Hold. exact Hb.
      + intros b s fl b' s' fl2 Hb Hb' Heq. eapply Hinj; [apply Hold; exact Hb|apply Hold; exact Hb'|exact Heq].
    - cbn in H. inversion H; subst. split; assumption.
  Qed.

  Lemma hids_ok_init : hids_ok init_state.
  Proof. split; intros; unfold look in *; cbn in *; discriminate. Qed.

  (* run a list of (address, message) pairs through step *)
  Fixpoint steps (st : state) (h : list (N * msg)) : option (state * list effect) :=
    match h with
    | [] => Some (st, [])
    | (a, m) :: r =>
      match step st a m with
      | SOk st' es => match steps st' r with Some (st'', es') => Some (st'', es ++ es') | None => None end
      | _ => None
      end
    end.

  Theorem reachable_invariants h : forall st st' es, steps st h = Some (st', es) ->
    handles_ok st -> hids_ok st -> handles_ok st' /\ hids_ok st'.
  Proof.
    induction h as [|[a m] r IH]; intros st st' es H Hh Hi; cbn [steps] in H.
    - inversion H; subst. auto.
    - destruct (step st a m) as [st1 es1| |] eqn:E; try discriminate.
      destruct (steps st1 r) as [[st2 es2]|] eqn:E2; [|discriminate].
      inversion H; subst.
      eapply IH; [exact E2| |].
      + eapply step_preserves_handles; eassumption.
      + eapply step_preserves_hids; eassumption.
  Qed.
End Facts.
