(* The state space of the modelled code (read by lib/gen_statespace.py on every run, gen/StateSpace.v)
   is the state space of the model: every field, static and mutable binding below has the model
   component named in its comment, and there is no other.  Closed by computation. *)
From Coq Require Import String List. Import ListNotations. Open Scope string_scope.
From PortusGen Require Import StateSpace.

(* Runtime/Loop.v flow: f_sid (sock_id), f_addr (the sender's destination), and config cfg_progs (programs); nothing else is kept between the calls on a handle *)
Definition model_fields_Datapath : list string :=
  ["sock_id: u32";
   "sender: BackendSender<T>";
   "programs: Rc<HashMap<String, Scope>>"].
Theorem fields_Datapath_tie : impl_fields_Datapath = model_fields_Datapath.
Proof. reflexivity. Qed.

(* Runtime/Handle.v get_field: the report's program uid and value list (the datapath name string is not used by any property) *)
Definition model_fields_Report : list string :=
  ["program_uid: u32";
   "from: String";
   "fields: Vec<u64>"].
Theorem fields_Report_tie : impl_fields_Report = model_fields_Report.
Proof. reflexivity. Qed.

(* Wire/Codec.v create_msg fields handed to new_flow *)
Definition model_fields_DatapathInfo : list string :=
  ["sock_id: u32";
   "init_cwnd: u32";
   "mss: u32";
   "src_ip: u32";
   "src_port: u32";
   "dst_ip: u32";
   "dst_port: u32"].
Theorem fields_DatapathInfo_tie : impl_fields_DatapathInfo = model_fields_DatapathInfo.
Proof. reflexivity. Qed.

(* Recv/Cursor.v record cur: c_buf (receive_buf), c_tot (tot_read), c_ru (read_until), c_addr (last_recv_addr), c_stop (continue_listening, negated); sock is the scripted transport *)
Definition model_fields_Backend : list string :=
  ["sock: Rc<T>";
   "continue_listening: Arc<atomic::AtomicBool>";
   "receive_buf: &'a mut [u8]";
   "tot_read: usize";
   "read_until: usize";
   "last_recv_addr: T::Addr"].
Theorem fields_Backend_tie : impl_fields_Backend = model_fields_Backend.
Proof. reflexivity. Qed.

(* Runtime/Loop.v flow: f_addr; a dead backend is the dead-handle case of Conc/Transport.v *)
Definition model_fields_BackendSender : list string :=
  ["Weak<T>";
   "T::Addr"].
Theorem fields_BackendSender_tie : impl_fields_BackendSender = model_fields_BackendSender.
Proof. reflexivity. Qed.

(* the transport *)
Definition model_fields_BackendBuilder : list string :=
  ["sock: T"].
Theorem fields_BackendBuilder_tie : impl_fields_BackendBuilder = model_fields_BackendBuilder.
Proof. reflexivity. Qed.

(* Lang/Scope.v record scope: sc_named, sc_nctl, sc_nloc, sc_nperm, sc_ntmp (tmp.len()); program_uid is the uid of Conc/Uid.v *)
Definition model_fields_Scope : list string :=
  ["program_uid: u32";
   "named: RegFile";
   "num_control: u8";
   "num_local: u8";
   "num_perm: u8";
   "tmp: Vec<Reg>"].
Theorem fields_Scope_tie : impl_fields_Scope = model_fields_Scope.
Proof. reflexivity. Qed.

(* Lang/Scope.v: the name-sorted association list *)
Definition model_fields_RegFile : list string :=
  ["Vec<(String, Reg)>"].
Theorem fields_RegFile_tie : impl_fields_RegFile = model_fields_RegFile.
Proof. reflexivity. Qed.

(* Lang/Lower.v record bin: b_events, b_instrs *)
Definition model_fields_Bin : list string :=
  ["events: Vec<Event>";
   "instrs: Vec<Instr>"].
Theorem fields_Bin_tie : impl_fields_Bin = model_fields_Bin.
Proof. reflexivity. Qed.

(* Conc/Transport.v: the two queue ends of the channel transport *)
Definition model_fields_ChanSocket : list string :=
  ["send: Option<channel::Sender<Vec<u8>>>";
   "recv: Option<channel::Receiver<Vec<u8>>>";
   "_phantom: PhantomData<T>"].
Theorem fields_ChanSocket_tie : impl_fields_ChanSocket = model_fields_ChanSocket.
Proof. reflexivity. Qed.

(* Conc/Transport.v: the kernel datagram socket *)
Definition model_fields_UnixSocket : list string :=
  ["sk: UnixDatagram";
   "_phantom: PhantomData<T>"].
Theorem fields_UnixSocket_tie : impl_fields_UnixSocket = model_fields_UnixSocket.
Proof. reflexivity. Qed.

(* Runtime/Loop.v config: cfg_default, cfg_algs (alg), the scripted transport (backend_builder), the stop marker (stop_handle) *)
Definition model_fields_RunBuilder : list string :=
  ["backend_builder: BackendBuilder<I>";
   "alg: U";
   "stop_handle: Option<*const atomic::AtomicBool>";
   "_phantom: std::marker::PhantomData<Spawnness>"].
Theorem fields_RunBuilder_tie : impl_fields_RunBuilder = model_fields_RunBuilder.
Proof. reflexivity. Qed.

(* Runtime/Loop.v: the stop flag and the run's result *)
Definition model_fields_CCPHandle : list string :=
  ["continue_listening: Arc<atomic::AtomicBool>";
   "join_handle: thread::JoinHandle<Result<()>>"].
Theorem fields_CCPHandle_tie : impl_fields_CCPHandle = model_fields_CCPHandle.
Proof. reflexivity. Qed.

(* Conc/Uid.v: the one process-wide counter *)
Definition model_statics : list string :=
  ["src/lang/datapath.rs: static ID_COUNTER: AtomicU32"].
Theorem statics_tie : impl_statics = model_statics.
Proof. reflexivity. Qed.

(* Runtime/Loop.v: state st_flows (dp_to_flowmap; flow is one handler being built), config cfg_progs (scope_map, install_msgs), the cursor of Recv/Cursor.v (b, receive_buf), need_install (a local of the create arm) *)
Definition model_mut_run_inner : list string :=
  ["b";
   "dp_to_flowmap";
   "flow";
   "install_msgs";
   "need_install";
   "receive_buf";
   "scope_map"].
Theorem mut_run_inner_tie : impl_mut_run_inner = model_mut_run_inner.
Proof. reflexivity. Qed.

(* Recv/Cursor.v: no state besides the struct's fields *)
Definition model_mut_backend_next : list string :=
  [].
Theorem mut_backend_next_tie : impl_mut_backend_next = model_mut_backend_next.
Proof. reflexivity. Qed.

(* the kinds of shared or interior-mutable state each modelled file mentions at all *)
Definition model_shared_state_tokens : list string :=
  ["src/lib.rs: HashMap";
   "src/run.rs: AtomicBool HashMap unsafe";
   "src/ipc/mod.rs: AtomicBool";
   "src/ipc/chan.rs: -";
   "src/ipc/unix.rs: -";
   "src/lang/mod.rs: -";
   "src/lang/datapath.rs: AtomicU32";
   "src/lang/prog.rs: -";
   "src/lang/ast.rs: -";
   "src/lang/serialize.rs: -";
   "src/serialize/mod.rs: unsafe";
   "src/serialize/create.rs: unsafe";
   "src/serialize/measure.rs: unsafe";
   "src/serialize/install.rs: -";
   "src/serialize/changeprog.rs: -";
   "src/serialize/update_field.rs: -";
   "src/serialize/ready.rs: unsafe"].
Theorem shared_state_tokens_tie : impl_shared_state_tokens = model_shared_state_tokens.
Proof. reflexivity. Qed.

(* Runtime/Loop.v config: cfg_algs — each additional algorithm is kept with its NAME (a_name) and its
   optional instance (a_inst); picking compares names *)
Definition model_fields_AlgList : list string :=
  ["head_name: String";
   "head: Head";
   "tail: Tail"].
Theorem fields_AlgList_tie : impl_fields_AlgList = model_fields_AlgList.
Proof. reflexivity. Qed.

(* Runtime/Loop.v config: cfg_default *)
Definition model_fields_AlgListNil : list string :=
  ["H"].
Theorem fields_AlgListNil_tie : impl_fields_AlgListNil = model_fields_AlgListNil.
Proof. reflexivity. Qed.

(* per file, so that each property depends on the files it is anchored in *)
Theorem shared_state_lib : nth 0 impl_shared_state_tokens "" = "src/lib.rs: HashMap".
Proof. reflexivity. Qed.
Theorem shared_state_run : nth 1 impl_shared_state_tokens "" = "src/run.rs: AtomicBool HashMap unsafe".
Proof. reflexivity. Qed.
Theorem shared_state_ipc_mod : nth 2 impl_shared_state_tokens "" = "src/ipc/mod.rs: AtomicBool".
Proof. reflexivity. Qed.
Theorem shared_state_ipc_chan : nth 3 impl_shared_state_tokens "" = "src/ipc/chan.rs: -".
Proof. reflexivity. Qed.
Theorem shared_state_ipc_unix : nth 4 impl_shared_state_tokens "" = "src/ipc/unix.rs: -".
Proof. reflexivity. Qed.
Theorem shared_state_lang_mod : nth 5 impl_shared_state_tokens "" = "src/lang/mod.rs: -".
Proof. reflexivity. Qed.
Theorem shared_state_lang_datapath : nth 6 impl_shared_state_tokens "" = "src/lang/datapath.rs: AtomicU32".
Proof. reflexivity. Qed.
Theorem shared_state_lang_prog : nth 7 impl_shared_state_tokens "" = "src/lang/prog.rs: -".
Proof. reflexivity. Qed.
Theorem shared_state_lang_ast : nth 8 impl_shared_state_tokens "" = "src/lang/ast.rs: -".
Proof. reflexivity. Qed.
Theorem shared_state_lang_serialize : nth 9 impl_shared_state_tokens "" = "src/lang/serialize.rs: -".
Proof. reflexivity. Qed.
Theorem shared_state_serialize_mod : nth 10 impl_shared_state_tokens "" = "src/serialize/mod.rs: unsafe".
Proof. reflexivity. Qed.
Theorem shared_state_serialize_create : nth 11 impl_shared_state_tokens "" = "src/serialize/create.rs: unsafe".
Proof. reflexivity. Qed.
Theorem shared_state_serialize_measure : nth 12 impl_shared_state_tokens "" = "src/serialize/measure.rs: unsafe".
Proof. reflexivity. Qed.
Theorem shared_state_serialize_install : nth 13 impl_shared_state_tokens "" = "src/serialize/install.rs: -".
Proof. reflexivity. Qed.
Theorem shared_state_serialize_changeprog : nth 14 impl_shared_state_tokens "" = "src/serialize/changeprog.rs: -".
Proof. reflexivity. Qed.
Theorem shared_state_serialize_update_field : nth 15 impl_shared_state_tokens "" = "src/serialize/update_field.rs: -".
Proof. reflexivity. Qed.
Theorem shared_state_serialize_ready : nth 16 impl_shared_state_tokens "" = "src/serialize/ready.rs: unsafe".
Proof. reflexivity. Qed.
