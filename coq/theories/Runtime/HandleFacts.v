(* C11 (handle commands), C12 (report lookups), C15 (algorithm selection, program union) *)
From Portus Require Import Loop.
From Coq Require Import ZArith ZifyN ZifyNat ZifyBool.

(* ---------- C11 ---------- *)

Definition controllable (sc : scope_tbl) (n : name) : bool :=
  negb (starts_with_dunder n) &&
  match sc_get sc n with
  | Some (Control _ _ _) => true
  | Some (Implicit i _) => (i =? 4) || (i =? 5)
  | _ => false
  end.

Lemma resolve_field_spec sc n v :
  match resolve_field sc (n, v) with
  | Ok (r, v') => controllable sc n = true /\ v' = v /\ sc_get sc n = Some r
  | Err => controllable sc n = false
  | Panic => False
  end.
Proof.
  unfold resolve_field, controllable.
  destruct (starts_with_dunder n); cbn [negb andb]; [reflexivity|].
  destruct (sc_get sc n) as [[i t vol|x|b|i t|i t|i t|i t vol|i t|]|]; try reflexivity.
  - auto.
  - destruct ((i =? 4) || (i =? 5)); auto.
Qed.

Lemma resolve_all_spec sc : forall fs,
  match resolve_all sc fs with
  | Ok l => forallb (controllable sc) (map fst fs) = true /\
            map snd l = map snd fs /\
            Forall2 (fun f rv => sc_get sc (fst f) = Some (fst rv)) fs l
  | Err => forallb (controllable sc) (map fst fs) = false
  | Panic => False
  end.
Proof.
  induction fs as [|[n v] r IH]; cbn [resolve_all map forallb fst snd].
  - repeat split; constructor.
  - pose proof (resolve_field_spec sc n v) as Hf.
    destruct (resolve_field sc (n, v)) as [[rg v']| |]; cbn [bind].
    + destruct Hf as (Hc & -> & Hg). rewrite Hc. cbn [andb].
      destruct (resolve_all sc r) as [l| |]; cbn [bind].
      * destruct IH as (H1 & H2 & H3). split; [exact H1|].
        split; [cbn [map snd]; f_equal; exact H2 | constructor; [exact Hg|exact H3]].
      * exact IH.
      * exact IH.
    + rewrite Hf. reflexivity.
    + exact Hf.
Qed.

(* refusal: unknown program, or some field is not controllable => Err, and no bytes exist *)
Theorem set_program_refuses progs sid pname fields :
  (find_prog progs pname = None \/
   exists p, find_prog progs pname = Some p /\ forallb (controllable (p_scope p)) (map fst fields) = false) ->
  set_program_msg progs sid pname fields = Err.
Proof.
  unfold set_program_msg. intros [H|(p & Hp & Hc)].
  - rewrite H. reflexivity.
  - rewrite Hp. pose proof (resolve_all_spec (p_scope p) fields) as Hs.
    destruct (resolve_all (p_scope p) fields) as [l| |]; cbn [bind].
    + destruct Hs as (Hs & _). congruence.
    + reflexivity.
    + contradiction.
Qed.

Theorem update_field_refuses sc sid fields :
  forallb (controllable sc) (map fst fields) = false -> update_field_msg sc sid fields = Err.
Proof.
  unfold update_field_msg. intros Hc. pose proof (resolve_all_spec sc fields) as Hs.
  destruct (resolve_all sc fields) as [l| |]; cbn [bind].
  - destruct Hs as (Hs & _). congruence.
  - reflexivity.
  - contradiction.
Qed.

(* success: exactly the message built from the flow id, the program's uid and the requested
   (register, value) pairs in the order given; the program returned is the one named *)
Theorem set_program_succeeds progs sid pname fields p bytes :
  set_program_msg progs sid pname fields = Ok (p, bytes) ->
  find_prog progs pname = Some p /\
  forallb (controllable (p_scope p)) (map fst fields) = true /\
  exists l ups,
    map snd l = map snd fields /\
    Forall2 (fun f rv => sc_get (p_scope p) (fst f) = Some (fst rv)) fields l /\
    ser_updates l = Ok ups /\
    bytes = ser_header T_CHANGEPROG (16 + 13 * N.of_nat (length fields)) sid ++
            (enc_le 4 (p_uid p) ++ enc_le 4 (N.of_nat (length fields))) ++ ups.
Proof.
  unfold set_program_msg. destruct (find_prog progs pname) as [q|]; [|discriminate].
  pose proof (resolve_all_spec (p_scope q) fields) as Hs.
  destruct (resolve_all (p_scope q) fields) as [l| |]; cbn [bind]; try discriminate.
  destruct Hs as (Hc & Hv & Hr).
  unfold serialize_changeprog, serialize_gen.
  destruct (65535 <? 16 + 13 * N.of_nat (length l)); [discriminate|].
  destruct (ser_updates l) as [ups| |] eqn:Eu; cbn [bind]; try discriminate.
  intros H; inversion H; subst; clear H.
  assert (Hlen : length l = length fields).
  { apply (f_equal (@length N)) in Hv. rewrite !map_length in Hv. exact Hv. }
  rewrite Hlen. split; [reflexivity|]. split; [exact Hc|].
  exists l, ups. auto.
Qed.

(* when nothing stands in the way, the command does succeed *)
Definition control_encodable (sc : scope_tbl) : Prop :=
  forall n i t v, sc_get sc n = Some (Control i t v) -> i <= LIM_CONTROL.

Lemma ser_updates_ok sc : control_encodable sc -> forall (fs : list (name * N)) (l : list (reg * N)),
  Forall2 (fun f rv => sc_get sc (fst f) = Some (fst rv)) fs l ->
  forallb (controllable sc) (map fst fs) = true ->
  exists ups, ser_updates l = Ok ups.
Proof.
  intros Henc fs l H. induction H as [|[n v] [rg v'] fs l Hh Ht IH]; intros Hc.
  - exists []. reflexivity.
  - cbn [map forallb fst] in Hc. apply andb_true_iff in Hc. destruct Hc as [Hc1 Hc2].
    destruct (IH Hc2) as (ups & Hu).
    cbn [fst] in Hh. cbn [ser_updates]. rewrite Hu.
    unfold controllable in Hc1. rewrite Hh in Hc1. apply andb_true_iff in Hc1. destruct Hc1 as [_ Hc1].
    destruct rg as [i t vol|x|b|i t|i t|i t|i t vol|i t|]; try discriminate.
    + pose proof (Henc _ _ _ _ Hh) as Hi. unfold ser_reg. cbn [reg_code].
      replace (LIM_CONTROL <? i) with false by (symmetry; apply N.ltb_ge; exact Hi).
      cbn [bind]. eexists. reflexivity.
    + unfold ser_reg. cbn [reg_code].
      replace (LIM_IMPLICIT <? i) with false by (symmetry; apply N.ltb_ge; unfold LIM_IMPLICIT; lia).
      cbn [bind]. eexists. reflexivity.
Qed.

Theorem set_program_accepts progs sid pname fields p :
  find_prog progs pname = Some p -> control_encodable (p_scope p) ->
  forallb (controllable (p_scope p)) (map fst fields) = true ->
  16 + 13 * N.of_nat (length fields) <= 65535 ->
  exists bytes, set_program_msg progs sid pname fields = Ok (p, bytes).
Proof.
  intros Hp Henc Hc Hlen. unfold set_program_msg. rewrite Hp.
  pose proof (resolve_all_spec (p_scope p) fields) as Hs.
  destruct (resolve_all (p_scope p) fields) as [l| |]; cbn [bind]; [|congruence|contradiction].
  destruct Hs as (_ & Hv & Hr).
  assert (Hl : length l = length fields).
  { apply (f_equal (@length N)) in Hv. rewrite !map_length in Hv. exact Hv. }
  destruct (ser_updates_ok _ Henc _ _ Hr Hc) as (ups & Hu).
  unfold serialize_changeprog, serialize_gen. rewrite Hl.
  replace (65535 <? 16 + 13 * N.of_nat (length fields)) with false by (symmetry; apply N.ltb_ge; lia).
  rewrite Hu. cbn [bind]. eexists. reflexivity.
Qed.

(* update_field: the same for the message that changes fields of the running program.  Success is
   exactly: every name controllable and at most 255 of them; the one message carries the flow id
   and the requested (register, value) pairs, values and order as given *)
Theorem update_field_succeeds sc sid fields bytes :
  update_field_msg sc sid fields = Ok bytes ->
  forallb (controllable sc) (map fst fields) = true /\
  N.of_nat (length fields) <= 255 /\
  exists l ups,
    map snd l = map snd fields /\
    Forall2 (fun f rv => sc_get sc (fst f) = Some (fst rv)) fields l /\
    ser_updates l = Ok ups /\
    bytes = ser_header T_UPDATE (12 + 13 * N.of_nat (length fields)) sid ++
            enc_le 4 (N.of_nat (length fields)) ++ ups.
Proof.
  unfold update_field_msg.
  pose proof (resolve_all_spec sc fields) as Hs.
  destruct (resolve_all sc fields) as [l| |]; cbn [bind]; try discriminate.
  destruct Hs as (Hc & Hv & Hr).
  assert (Hlen : length l = length fields).
  { apply (f_equal (@length N)) in Hv. rewrite !map_length in Hv. exact Hv. }
  rewrite Hlen.
  destruct (255 <? N.of_nat (length fields)) eqn:E255; [discriminate|].
  unfold serialize_update, serialize_gen.
  destruct (65535 <? 12 + 13 * N.of_nat (length fields)); [discriminate|].
  destruct (ser_updates l) as [ups| |] eqn:Eu; cbn [bind]; try discriminate.
  intros H; inversion H; subst; clear H.
  split; [exact Hc|]. split; [apply N.ltb_ge; exact E255|].
  exists l, ups. auto.
Qed.

Theorem update_field_accepts sc sid fields :
  control_encodable sc ->
  forallb (controllable sc) (map fst fields) = true ->
  N.of_nat (length fields) <= 255 ->
  exists bytes, update_field_msg sc sid fields = Ok bytes.
Proof.
  intros Henc Hc Hlen. unfold update_field_msg.
  pose proof (resolve_all_spec sc fields) as Hs.
  destruct (resolve_all sc fields) as [l| |]; cbn [bind]; [|congruence|contradiction].
  destruct Hs as (_ & Hv & Hr).
  assert (Hl : length l = length fields).
  { apply (f_equal (@length N)) in Hv. rewrite !map_length in Hv. exact Hv. }
  destruct (ser_updates_ok _ Henc _ _ Hr Hc) as (ups & Hu).
  rewrite Hl.
  replace (255 <? N.of_nat (length fields)) with false by (symmetry; apply N.ltb_ge; exact Hlen).
  unfold serialize_update, serialize_gen.
  replace (65535 <? 12 + 13 * N.of_nat (length fields)) with false by (symmetry; apply N.ltb_ge; lia).
  rewrite Hu. cbn [bind]. eexists. reflexivity.
Qed.

(* more than 255 fields cannot be counted in the message's 8-bit field: refused, whatever they are *)
Theorem update_field_too_many sc sid fields :
  255 < N.of_nat (length fields) -> update_field_msg sc sid fields = Err.
Proof.
  intros Hlen. unfold update_field_msg.
  pose proof (resolve_all_spec sc fields) as Hs.
  destruct (resolve_all sc fields) as [l| |]; cbn [bind]; [|reflexivity|contradiction].
  destruct Hs as (_ & Hv & _).
  assert (Hl : length l = length fields).
  { apply (f_equal (@length N)) in Hv. rewrite !map_length in Hv. exact Hv. }
  rewrite Hl. replace (255 <? N.of_nat (length fields)) with true by (symmetry; apply N.ltb_lt; exact Hlen).
  reflexivity.
Qed.

(* ---------- C12 ---------- *)

Theorem get_field_stale rep_uid fields sc_uid sc n :
  sc_uid <> rep_uid -> get_field rep_uid fields sc_uid sc n = GfErr Stale.
Proof.
  intros H. unfold get_field.
  replace (sc_uid =? rep_uid) with false by (symmetry; apply N.eqb_neq; exact H). reflexivity.
Qed.

Theorem get_field_same_program uid fields sc n :
  get_field uid fields uid sc n =
  match sc_get sc n with
  | None => GfErr NotFound
  | Some (Report idx _ _) =>
    match nth_error fields (N.to_nat idx) with
    | Some v => GfOk v
    | None => GfErr InvalidReport
    end
  | Some _ => GfErr RegType
  end.
Proof. unfold get_field. rewrite N.eqb_refl. reflexivity. Qed.

(* a value is only ever returned from the slot the scope assigns to that very name *)
Theorem get_field_value rep_uid fields sc_uid sc n v :
  get_field rep_uid fields sc_uid sc n = GfOk v ->
  sc_uid = rep_uid /\
  exists idx t vol, sc_get sc n = Some (Report idx t vol) /\ nth_error fields (N.to_nat idx) = Some v.
Proof.
  unfold get_field. destruct (sc_uid =? rep_uid) eqn:E; cbn [negb]; [|discriminate].
  apply N.eqb_eq in E.
  destruct (sc_get sc n) as [[i t vol|x|b|i t|i t|i t|i t vol|i t|]|]; try discriminate.
  destruct (nth_error fields (N.to_nat i)) as [w|] eqn:En; [|discriminate].
  intros H; inversion H; subst. split; [reflexivity|]. eauto.
Qed.

Theorem get_field_too_short uid fields sc n idx t vol :
  sc_get sc n = Some (Report idx t vol) -> (length fields <= N.to_nat idx)%nat ->
  get_field uid fields uid sc n = GfErr InvalidReport.
Proof.
  intros Hg Hl. rewrite get_field_same_program, Hg.
  destruct (nth_error fields (N.to_nat idx)) eqn:E; [|reflexivity].
  apply nth_error_None in Hl. congruence.
Qed.

(* ---------- C15 ---------- *)

Definition matches (n : name) (a : algreg) : bool :=
  match a_inst a with Some _ => name_eqb (a_name a) n | None => false end.

Theorem pick_default algs dflt n :
  forallb (fun a => negb (matches n a)) algs = true -> pick algs dflt n = dflt.
Proof.
  induction algs as [|a r IH]; cbn [forallb pick]; [reflexivity|].
  intros H. apply andb_true_iff in H. destruct H as [Ha Hr].
  unfold matches in Ha. destruct (a_inst a) as [i|].
  - apply negb_true_iff in Ha. rewrite Ha. apply IH. exact Hr.
  - apply IH. exact Hr.
Qed.

(* the most recently registered matching instance wins (the list is most-recent-first) *)
Theorem pick_most_recent l1 a l2 dflt n i :
  forallb (fun a => negb (matches n a)) l1 = true ->
  a_name a = n -> a_inst a = Some i ->
  pick (l1 ++ a :: l2) dflt n = i.
Proof.
  intros H1 Hn Hi. induction l1 as [|b r IH]; cbn [app pick].
  - rewrite Hi, Hn, name_eqb_refl. reflexivity.
  - cbn [forallb] in H1. apply andb_true_iff in H1. destruct H1 as [Hb Hr].
    unfold matches in Hb. destruct (a_inst b) as [j|].
    + apply negb_true_iff in Hb. rewrite Hb. apply IH. exact Hr.
    + apply IH. exact Hr.
Qed.

(* every program name offered by a registered instance or the default is in the compiled set *)
Lemma has_name_in n m : has_name n m = true <-> exists k, In (n, k) m.
Proof.
  induction m as [|[k v] r IH]; cbn [has_name].
  - split; [discriminate|intros (k & [])].
  - rewrite orb_true_iff, IH. split.
    + intros [H|(k0 & H)].
      * apply name_eqb_eq in H. subst. exists v. left. reflexivity.
      * exists k0. right. exact H.
    + intros (k0 & [H|H]).
      * inversion H; subst. left. apply name_eqb_refl.
      * right. exists k0. exact H.
Qed.

Lemma union_has n head tail :
  has_name n (union_tail_wins head tail) = has_name n head || has_name n tail.
Proof.
  unfold union_tail_wins.
  destruct (has_name n tail) eqn:Et.
  - rewrite orb_true_r. apply has_name_in. apply has_name_in in Et. destruct Et as (k & Hk).
    exists k. apply in_or_app. left. exact Hk.
  - rewrite orb_false_r.
    destruct (has_name n head) eqn:Eh.
    + apply has_name_in. apply has_name_in in Eh. destruct Eh as (k & Hk).
      exists k. apply in_or_app. right. apply filter_In. split; [exact Hk|].
      cbn [fst]. rewrite Et. reflexivity.
    + destruct (has_name n (tail ++ filter (fun kv => negb (has_name (fst kv) tail)) head)) eqn:E; [|reflexivity].
      apply has_name_in in E. destruct E as (k & Hk). apply in_app_or in Hk. destruct Hk as [Hk|Hk].
      * assert (has_name n tail = true) by (apply has_name_in; eauto). congruence.
      * apply filter_In in Hk. destruct Hk as [Hk _].
        assert (has_name n head = true) by (apply has_name_in; eauto). congruence.
Qed.

Theorem collect_has_every_offered_name regs dflt n :
  has_name n (collect_programs regs dflt) =
  has_name n dflt || existsb (fun o => match o with Some ps => has_name n ps | None => false end) regs.
Proof.
  induction regs as [|o r IH]; cbn [collect_programs existsb].
  - rewrite orb_false_r. reflexivity.
  - destruct o as [ps|].
    + rewrite union_has, IH. destruct (has_name n ps), (has_name n dflt); cbn; auto.
    + rewrite IH. reflexivity.
Qed.

(* with names identifying programs (equal names => equal program everywhere), the program
   compiled under a name is the one every instance offers under that name *)
Theorem collect_in_offered regs dflt n k :
  In (n, k) (collect_programs regs dflt) ->
  In (n, k) dflt \/ exists ps, In (Some ps) regs /\ In (n, k) ps.
Proof.
  induction regs as [|o r IH]; cbn [collect_programs]; [auto|].
  destruct o as [ps|].
  - unfold union_tail_wins. intros H. apply in_app_or in H. destruct H as [H|H].
    + destruct (IH H) as [H'|(ps' & Hp & Hi)]; [left; exact H'|right; exists ps'; split; [right; exact Hp|exact Hi]].
    + apply filter_In in H. destruct H as [H _]. right. exists ps. split; [left; reflexivity|exact H].
  - intros H. destruct (IH H) as [H'|(ps' & Hp & Hi)]; [left; exact H'|right; exists ps'; split; [right; exact Hp|exact Hi]].
Qed.
