(* Every run is a trace: what run_model (the executable model that is compared with the
   implementation on every check) emits is the effects of the interleaved trace of SOME history
   from the initial state, followed by the final drops and the close of the transport (or, when a
   step ends the run, by that step's effects first).  The history theorems (C02, C05, C09, C15),
   which hold for every history, therefore hold of every run. *)
From Portus Require Import Loop LoopFacts CodecFacts CursorFacts TraceFacts.

Definition outs (t : list tev) : list effect :=
  flat_map (fun e => match e with TOut e => [e] | TIn _ _ => [] end) t.

Lemma outs_app a b : outs (a ++ b) = outs a ++ outs b.
Proof. unfold outs. apply flat_map_app. Qed.

Lemma outs_map es : outs (map TOut es) = es.
Proof. induction es as [|e r IH]; cbn; [reflexivity|]. unfold outs in IH. rewrite IH. reflexivity. Qed.

Section RunTrace.
  Variable cfg : config.
  Variable user : nat -> bool -> list cmd.
  Variable send_ok : nat -> bool.

  Definition ends_as (st' : state) (t : list tev) (es : list effect) : Prop :=
    es = outs t ++ final_drops st' \/
    exists a m st'' es', step cfg user send_ok st' a m = SStop st'' es' /\ es = outs t ++ es' ++ final_drops st''.

  Theorem run_loop_is_trace : forall fuel st c evs es res,
    run_loop cfg user send_ok fuel st c evs = (es, res) -> res = ROk \/ res = RErr ->
    exists h st' t, trace cfg user send_ok st h = Some (st', t) /\ ends_as st' t es.
  Proof.
    induction fuel as [|f IH]; intros st c evs es res H Hres; cbn [run_loop] in H.
    - inversion H; subst. destruct Hres; discriminate.
    - destruct (next c evs) as [m a c' r|c' r|] eqn:En.
      + destruct (step cfg user send_ok st a m) as [st1 es1|st1 es1|] eqn:Es.
        * destruct (run_loop cfg user send_ok f st1 c' r) as [es2 res2] eqn:Er. inversion H; subst es res; clear H.
          destruct (IH _ _ _ _ _ Er Hres) as (h & st' & t & Ht & He).
          exists ((a, m) :: h), st', (TIn a m :: map TOut es1 ++ t). split.
          -- cbn [trace]. rewrite Es, Ht. reflexivity.
          -- assert (Ho : outs (TIn a m :: map TOut es1 ++ t) = es1 ++ outs t).
             { change (TIn a m :: map TOut es1 ++ t) with ([TIn a m] ++ map TOut es1 ++ t). rewrite !outs_app, outs_map. reflexivity. }
             destruct He as [He|(a' & m' & st'' & es' & Hs & He)]; [left|right].
             ++ rewrite Ho, He, app_assoc. reflexivity.
             ++ exists a', m', st'', es'. split; [exact Hs|]. rewrite Ho, He, app_assoc. reflexivity.
        * inversion H; subst es res; clear H. exists [], st, []. split; [reflexivity|]. right.
          exists a, m, st1, es1. split; [exact Es|reflexivity].
        * inversion H; subst. destruct Hres; discriminate.
      + inversion H; subst es res; clear H. exists [], st, []. split; [reflexivity|]. left. reflexivity.
      + inversion H; subst. destruct Hres; discriminate.
  Qed.

  (* the whole run: either it refused to start (a program of the set does not compile or encode) or it
     is a trace from the initial state; install-before-use holds of that trace *)
  Theorem run_model_is_trace bufsize stopped0 evs es res :
    run_model cfg user send_ok bufsize stopped0 evs = (es, res) ->
    (cfg_compile_ok cfg = false /\ es = [ECloseTransport] /\ res = RErr) \/
    (cfg_compile_ok cfg = true /\
     exists h st' t, trace cfg user send_ok init_state h = Some (st', t) /\ scan cfg [] t /\ ends_as st' t es).
  Proof.
    intros H. pose proof (run_model_total cfg user send_ok bufsize stopped0 evs) as Htot. cbn zeta in Htot. rewrite H in Htot. cbn [snd] in Htot.
    unfold run_model in H. destruct (cfg_compile_ok cfg) eqn:Ec.
    - right. split; [reflexivity|].
      destruct (run_loop_is_trace _ _ _ _ _ _ H Htot) as (h & st' & t & Ht & He).
      exists h, st', t. split; [exact Ht|]. split; [|exact He].
      eapply use_after_install. exact Ht.
    - left. inversion H; subst. auto.
  Qed.
  (* the trace and the plain fold over the same history agree, so the reachable-state invariants of C02
     (one live handler per (address, flow id), handler ids never reused) hold at the end of every run *)
  Lemma trace_steps : forall h st st' t, trace cfg user send_ok st h = Some (st', t) ->
    steps cfg user send_ok st h = Some (st', outs t).
  Proof.
    induction h as [|[a m] r IH]; intros st st' t H; cbn [trace] in H; cbn [steps].
    - inversion H; subst. reflexivity.
    - destruct (step cfg user send_ok st a m) as [st1 es1| |]; try discriminate H.
      destruct (trace cfg user send_ok st1 r) as [[st2 t2]|] eqn:Et; [|discriminate H]. inversion H; subst st' t; clear H.
      rewrite (IH _ _ _ Et).
      change (TIn a m :: map TOut es1 ++ t2) with ([TIn a m] ++ map TOut es1 ++ t2). rewrite !outs_app, outs_map. reflexivity.
  Qed.

  Theorem run_model_ends_in_a_good_state bufsize stopped0 evs es res :
    run_model cfg user send_ok bufsize stopped0 evs = (es, res) -> cfg_compile_ok cfg = true ->
    exists h st' t, trace cfg user send_ok init_state h = Some (st', t) /\ ends_as st' t es /\ handles_ok st' /\ hids_ok st'.
  Proof.
    intros H Hc. destruct (run_model_is_trace _ _ _ _ _ H) as [(Hf & _)|(_ & h & st' & t & Ht & _ & He)]; [congruence|].
    exists h, st', t. split; [exact Ht|]. split; [exact He|].
    exact (reachable_invariants cfg user send_ok h init_state st' _ (trace_steps _ _ _ _ Ht) handles_ok_init hids_ok_init).
  Qed.
  (* which history: the one the datagrams decode to.  The messages the run dispatches are, in order, a
     prefix of what the receive path yields for the script (all of it unless a step ended the run), and
     that is spec_run: each datagram, cut to the buffer, decoded on its own (C08's specification) *)
  Definition hist (l : list (msg * N)) : list (N * msg) := map (fun ma => (snd ma, fst ma)) l.

  Definition ends_on (st' : state) (t : list tev) (es : list effect) (h : list (N * msg)) (all : list (N * msg)) : Prop :=
    (es = outs t ++ final_drops st' /\ all = h) \/
    (exists a m st'' es' suffix, step cfg user send_ok st' a m = SStop st'' es' /\
                                 es = outs t ++ es' ++ final_drops st'' /\ all = h ++ (a, m) :: suffix).

  Theorem run_loop_history : forall fuel st c evs es res l,
    run_loop cfg user send_ok fuel st c evs = (es, res) -> res = ROk \/ res = RErr ->
    run_cursor fuel c evs = Ok l ->
    exists h st' t, trace cfg user send_ok st h = Some (st', t) /\ ends_on st' t es h (hist l).
  Proof.
    induction fuel as [|f IH]; intros st c evs es res l H Hres Hl; cbn [run_loop] in H; cbn [run_cursor] in Hl.
    - inversion H; subst. destruct Hres; discriminate.
    - destruct (next c evs) as [m a c' r|c' r|] eqn:En.
      + apply bind_ok_inv in Hl. destruct Hl as (rest & Hrest & Hl). inversion Hl; subst l; clear Hl.
        destruct (step cfg user send_ok st a m) as [st1 es1|st1 es1|] eqn:Es.
        * destruct (run_loop cfg user send_ok f st1 c' r) as [es2 res2] eqn:Er. inversion H; subst es res; clear H.
          destruct (IH _ _ _ _ _ _ Er Hres Hrest) as (h & st' & t & Ht & He).
          assert (Ho : outs (TIn a m :: map TOut es1 ++ t) = es1 ++ outs t).
          { change (TIn a m :: map TOut es1 ++ t) with ([TIn a m] ++ map TOut es1 ++ t). rewrite !outs_app, outs_map. reflexivity. }
          exists ((a, m) :: h), st', (TIn a m :: map TOut es1 ++ t). split.
          -- cbn [trace]. rewrite Es, Ht. reflexivity.
          -- cbn [hist map fst snd]. fold (hist rest).
             destruct He as [(He & Hh)|(a' & m' & st'' & es' & suffix & Hst & He & Hh)]; [left|right].
             ++ split; [rewrite Ho, He, app_assoc; reflexivity|rewrite Hh; reflexivity].
             ++ exists a', m', st'', es', suffix. split; [exact Hst|]. split; [rewrite Ho, He, app_assoc; reflexivity|rewrite Hh; reflexivity].
        * inversion H; subst es res; clear H. exists [], st, []. split; [reflexivity|]. right.
          exists a, m, st1, es1, (hist rest). split; [exact Es|]. split; reflexivity.
        * inversion H; subst. destruct Hres; discriminate.
      + inversion Hl; subst l. inversion H; subst es res; clear H. exists [], st, []. split; [reflexivity|]. left. split; reflexivity.
      + discriminate Hl.
  Qed.

  (* for the whole run (not asked to stop before it starts): the history is what the datagrams decode to *)
  Theorem run_model_history bufsize evs es res :
    run_model cfg user send_ok bufsize false evs = (es, res) -> cfg_compile_ok cfg = true ->
    exists h st' t, trace cfg user send_ok init_state h = Some (st', t) /\ scan cfg [] t /\
                    ends_on st' t es h (hist (spec_run bufsize evs)).
  Proof.
    intros H Hc. pose proof (run_model_total cfg user send_ok bufsize false evs) as Htot. cbn zeta in Htot. rewrite H in Htot. cbn [snd] in Htot.
    unfold run_model in H. rewrite Hc in H.
    pose proof (run_script_spec bufsize evs) as Hs. unfold run_script, init_cur in Hs.
    destruct (run_loop_history _ _ _ _ _ _ _ H Htot Hs) as (h & st' & t & Ht & He).
    exists h, st', t. split; [exact Ht|]. split; [eapply use_after_install; exact Ht|exact He].
  Qed.
End RunTrace.
