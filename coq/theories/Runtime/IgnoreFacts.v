(* C16, second sentence, over whole histories: a message the runtime ignores (unknown type or
   undecodable header, a measurement for an unknown datapath or flow) may be inserted anywhere in a
   history or removed from it: the state reached and every effect emitted -- before it and after it --
   are the same; only the record of its arrival differs. *)
From Portus Require Import Loop LoopFacts CodecFacts CursorFacts TraceFacts RunTrace.

Section Ignore.
  Variable cfg : config.
  Variable user : nat -> bool -> list cmd.
  Variable send_ok : nat -> bool.

  Lemma trace_app : forall h1 h2 st st1 t1, trace cfg user send_ok st h1 = Some (st1, t1) ->
    trace cfg user send_ok st (h1 ++ h2) =
    match trace cfg user send_ok st1 h2 with
    | Some (st2, t2) => Some (st2, t1 ++ t2)
    | None => None
    end.
  Proof.
    induction h1 as [|[a m] r IH]; intros h2 st st1 t1 H; cbn [trace app] in *.
    - inversion H; subst. destruct (trace cfg user send_ok st1 h2) as [[st2 t2]|]; reflexivity.
    - destruct (step cfg user send_ok st a m) as [st' es| |]; try discriminate H.
      destruct (trace cfg user send_ok st' r) as [[st'' t]|] eqn:Et; [|discriminate H]. inversion H; subst st1 t1; clear H.
      rewrite (IH h2 _ _ _ Et). destruct (trace cfg user send_ok st'' h2) as [[st2 t2]|]; [|reflexivity].
      cbn [app]. rewrite app_assoc. reflexivity.
  Qed.

  Theorem ignored_message_is_transparent h1 h2 st st1 t1 a m :
    trace cfg user send_ok st h1 = Some (st1, t1) -> ignored st1 a m ->
    match trace cfg user send_ok st (h1 ++ h2), trace cfg user send_ok st (h1 ++ (a, m) :: h2) with
    | Some (s, t), Some (s', t') => s' = s /\ outs t' = outs t /\
                                    exists t2, t = t1 ++ t2 /\ t' = t1 ++ TIn a m :: t2
    | None, None => True
    | _, _ => False
    end.
  Proof.
    intros H1 Hi. rewrite (trace_app h1 h2 _ _ _ H1), (trace_app h1 ((a, m) :: h2) _ _ _ H1).
    cbn [trace]. rewrite (ignored_inert cfg user send_ok _ _ _ Hi). cbn [map app].
    destruct (trace cfg user send_ok st1 h2) as [[s2 t2]|]; [|exact I].
    split; [reflexivity|]. split.
    - rewrite !outs_app. cbn [outs flat_map app]. reflexivity.
    - exists t2. split; reflexivity.
  Qed.
End Ignore.
