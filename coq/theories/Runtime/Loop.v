(* Executable model of the dispatch loop `run_inner` in src/run.rs: the two-level flow map,
   install policy, algorithm selection, handle commands issued by (arbitrary) user callbacks,
   send failures, the stop flag, and the drops at the end of the run.
   User code is an oracle: the k-th callback (new_flow or on_report, in order) issues the
   command list [user k]; the j-th transport send succeeds iff [send_ok j]. *)
From Portus Require Export Cursor Handle.

Record algreg := mkAlg { a_name : name; a_inst : option N }.

Record config := mkCfg {
  cfg_default : N;            (* instance id of the default algorithm *)
  cfg_algs : list algreg;     (* additional algorithms, most recently registered first *)
  cfg_progs : list prog;      (* the compiled program set *)
  cfg_own : list prog;        (* scopes user code obtained by compiling sources itself (different uids) *)
  cfg_compile_ok : bool       (* false: some program failed to compile *)
}.

(* sealed::CollectDps: the union of the instances' program maps; `head.chain(tail).collect()` into
   a HashMap lets the tail (earlier registrations, finally the default) overwrite the head *)
Fixpoint has_name (n : name) (m : list (name * N)) : bool :=
  match m with
  | [] => false
  | (k, _) :: r => name_eqb k n || has_name n r
  end.

Definition union_tail_wins (head tail : list (name * N)) : list (name * N) :=
  tail ++ filter (fun kv => negb (has_name (fst kv) tail)) head.

Fixpoint collect_programs (regs : list (option (list (name * N)))) (dflt : list (name * N)) : list (name * N) :=
  match regs with
  | [] => dflt
  | Some ps :: r => union_tail_wins ps (collect_programs r dflt)
  | None :: r => collect_programs r dflt
  end.

(* sealed::Pick *)
Fixpoint pick (algs : list algreg) (dflt : N) (n : name) : N :=
  match algs with
  | [] => dflt
  | a :: r =>
    match a_inst a with
    | Some i => if name_eqb (a_name a) n then i else pick r dflt n
    | None => pick r dflt n
    end
  end.

Inductive scoperef := RT (p : name) | OWN (p : name).

Inductive cmd :=
| SetProgram (p : name) (fields : list (name * N))
| UpdateField (p : name) (fields : list (name * N))   (* with the scope of program p *)
| GetField (s : scoperef) (field : name).

Inductive effect :=
| ENew (hid : nat) (inst : N) (addr : N) (info : create_msg)
| EReport (hid : nat) (sid uid : N) (fields : list N)
| EClose (hid : nat)
| EDrop (hid : nat)
| EInstall (addr : N) (uid : N)
| ESend (addr : N) (bytes : list N)
| ESendFail (addr : N)
| ECmd (ok : bool)
| ECmdSkip
| EGet (r : option gf_res)        (* None: the flow holds no such scope *)
| ECloseTransport.

Record flow := mkFlow {
  f_hid : nat;          (* identity of the handler object *)
  f_addr : N;           (* destination captured by the handle at creation *)
  f_sid : N;            (* flow id captured by the handle at creation *)
  f_got : list name     (* programs whose scope an earlier set_program returned to this flow *)
}.

Record state := mkSt {
  st_flows : list (N * list (N * flow));   (* dp_to_flowmap *)
  st_next : nat;                           (* next handler identity *)
  st_cb : nat;                             (* callbacks made so far *)
  st_sends : nat                           (* sends attempted so far *)
}.

Definition init_state : state := mkSt [] 0 0 0.

Section Loop.
  Variable cfg : config.
  Variable user : nat -> bool -> list cmd.   (* callback number, is it on_report *)
  Variable send_ok : nat -> bool.

  Fixpoint amap_get {V} (m : list (N * V)) (k : N) : option V :=
    match m with
    | [] => None
    | (k', v) :: r => if k' =? k then Some v else amap_get r k
    end.

  Fixpoint amap_remove {V} (m : list (N * V)) (k : N) : list (N * V) :=
    match m with
    | [] => []
    | (k', v) :: r => if k' =? k then amap_remove r k else (k', v) :: amap_remove r k
    end.

  Definition amap_set {V} (m : list (N * V)) (k : N) (v : V) : list (N * V) :=
    (k, v) :: amap_remove m k.

  Fixpoint mem_name (n : name) (l : list name) : bool :=
    match l with
    | [] => false
    | x :: r => name_eqb x n || mem_name n r
    end.

  (* one send through the transport: (effects, succeeded) *)
  Definition do_send (k : nat) (addr : N) (bytes : list N) : list effect * bool :=
    if send_ok k then ([ESend addr bytes], true) else ([ESendFail addr], false).

  (* one handle command.  rep = Some (uid, fields) inside on_report.
     Returns the flow (its scopes may grow), effects, number of sends used; None = panic *)
  Definition exec_cmd (fl : flow) (rep : option (N * list N)) (k : nat) (c : cmd)
    : option (flow * list effect * nat) :=
    match c with
    | SetProgram p fields =>
      match set_program_msg (cfg_progs cfg) (f_sid fl) p fields with
      | Ok (pr, bytes) =>
        let '(es, ok) := do_send k (f_addr fl) bytes in
        Some (if ok then mkFlow (f_hid fl) (f_addr fl) (f_sid fl) (p :: f_got fl) else fl,
              es ++ [ECmd ok], 1%nat)
      | Err => Some (fl, [ECmd false], 0%nat)
      | Panic => None
      end
    | UpdateField p fields =>
      match find_prog (cfg_own cfg) p with
      | None => Some (fl, [ECmdSkip], 0%nat)
      | Some pr =>
        match update_field_msg (p_scope pr) (f_sid fl) fields with
        | Ok bytes =>
          let '(es, ok) := do_send k (f_addr fl) bytes in
          Some (fl, es ++ [ECmd ok], 1%nat)
        | Err => Some (fl, [ECmd false], 0%nat)
        | Panic => None
        end
      end
    | GetField s field =>
      match rep with
      | None => Some (fl, [ECmdSkip], 0%nat)
      | Some (uid, fields) =>
        match s with
        | RT p =>
          if mem_name p (f_got fl) then
            match find_prog (cfg_progs cfg) p with
            | Some pr => Some (fl, [EGet (Some (get_field uid fields (p_uid pr) (p_scope pr) field))], 0%nat)
            | None => Some (fl, [EGet None], 0%nat)
            end
          else Some (fl, [EGet None], 0%nat)
        | OWN p =>
          (* a scope from the algorithm's own compilation of the same source: a different uid *)
          match find_prog (cfg_own cfg) p with
          | Some _ => Some (fl, [EGet (Some (GfErr Stale))], 0%nat)
          | None => Some (fl, [EGet None], 0%nat)
          end
        end
      end
    end.

  Fixpoint exec_cmds (fl : flow) (rep : option (N * list N)) (k : nat) (cs : list cmd)
    : option (flow * list effect * nat) :=
    match cs with
    | [] => Some (fl, [], 0%nat)
    | c :: r =>
      match exec_cmd fl rep k c with
      | None => None
      | Some (fl1, e1, n1) =>
        match exec_cmds fl1 rep (k + n1) r with
        | None => None
        | Some (fl2, e2, n2) => Some (fl2, e1 ++ e2, (n1 + n2)%nat)
        end
      end
    end.

  (* send every install message to addr; stop at the first failed send *)
  Fixpoint install_all (ps : list prog) (addr : N) (k : nat) : list effect * nat * bool :=
    match ps with
    | [] => ([], 0%nat, true)
    | p :: r =>
      if send_ok k then
        let '(es, n, ok) := install_all r addr (S k) in (EInstall addr (p_uid p) :: es, S n, ok)
      else ([ESendFail addr], 1%nat, false)
    end.

  Definition drops_of (fm : list (N * flow)) : list effect := map (fun kv => EDrop (f_hid (snd kv))) fm.

  Inductive sres :=
  | SOk (st : state) (es : list effect)        (* keep serving *)
  | SStop (st : state) (es : list effect)      (* a send in an install loop failed: run returns Err *)
  | SPanic.

  Definition step (st : state) (a : N) (m : msg) : sres :=
    match m with
    | MRdy _ =>
      let old := match amap_get (st_flows st) a with Some fm => drops_of fm | None => [] end in
      let flows' := amap_set (st_flows st) a [] in
      let '(es, n, ok) := install_all (cfg_progs cfg) a (st_sends st) in
      let st' := mkSt flows' (st_next st) (st_cb st) (st_sends st + n) in
      if ok then SOk st' (old ++ es) else SStop st' (old ++ es)
    | MCr c =>
      let known := match amap_get (st_flows st) a with Some _ => true | None => false end in
      let fm0 := match amap_get (st_flows st) a with Some fm => fm | None => [] end in
      let '(ies, n, ok) := if known then ([], 0%nat, true) else install_all (cfg_progs cfg) a (st_sends st) in
      if negb ok then SStop (mkSt (amap_set (st_flows st) a fm0) (st_next st) (st_cb st) (st_sends st + n)) ies
      else
        let old := match amap_get fm0 (c_sid c) with Some fl => [EDrop (f_hid fl)] | None => [] end in
        let fm1 := amap_remove fm0 (c_sid c) in
        let inst := pick (cfg_algs cfg) (cfg_default cfg) (match c_alg c with Some s => s | None => [] end) in
        let hid := st_next st in
        let fl := mkFlow hid a (c_sid c) [] in
        match exec_cmds fl None (st_sends st + n) (user (st_cb st) false) with
        | None => SPanic
        | Some (fl', ces, n2) =>
          SOk (mkSt (amap_set (st_flows st) a (amap_set fm1 (c_sid c) fl'))
                    (S (st_next st)) (S (st_cb st)) (st_sends st + n + n2))
              (ies ++ old ++ [ENew hid inst a c] ++ ces)
        end
    | MMs x =>
      match amap_get (st_flows st) a with
      | None => SOk st []
      | Some fm =>
        match amap_get fm (m_sid x) with
        | None => SOk st []
        | Some fl =>
          if m_nf x =? 0 then
            SOk (mkSt (amap_set (st_flows st) a (amap_remove fm (m_sid x))) (st_next st) (st_cb st) (st_sends st))
                [EClose (f_hid fl); EDrop (f_hid fl)]
          else
            match exec_cmds fl (Some (m_uid x, m_fields x)) (st_sends st) (user (st_cb st) true) with
            | None => SPanic
            | Some (fl', ces, n2) =>
              SOk (mkSt (amap_set (st_flows st) a (amap_set fm (m_sid x) fl'))
                        (st_next st) (S (st_cb st)) (st_sends st + n2))
                  (EReport (f_hid fl) (m_sid x) (m_uid x) (m_fields x) :: ces)
            end
        end
      end
    | MOther _ => SOk st []
    end.

  Definition final_drops (st : state) : list effect :=
    concat (map (fun kv => drops_of (snd kv)) (st_flows st)) ++ [ECloseTransport].

  Inductive rres := ROk | RErr | RPanic | RFuel.

  Fixpoint run_loop (fuel : nat) (st : state) (c : cur) (evs : list ev) : list effect * rres :=
    match fuel with
    | O => ([], RFuel)
    | S f =>
      match next c evs with
      | NPanic => ([], RPanic)
      | Done c' _ => (final_drops st, if c_stop c' then ROk else RErr)
      | Yield m a c' r =>
        match step st a m with
        | SOk st' es => let '(es2, res) := run_loop f st' c' r in (es ++ es2, res)
        | SStop st' es => (es ++ final_drops st', RErr)
        | SPanic => ([], RPanic)
        end
      end
    end.

  Definition run_model (bufsize : nat) (stopped0 : bool) (evs : list ev) : list effect * rres :=
    if cfg_compile_ok cfg then
      run_loop (run_fuel bufsize evs) init_state
               (mkCur (repeat 0 bufsize) 0 0 0 stopped0) evs
    else ([ECloseTransport], RErr).
End Loop.
