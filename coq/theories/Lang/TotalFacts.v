(* C10: lowering and serialization never panic; with ParserFacts this makes the whole compiler
   total: every byte string yields Ok or Err. *)
From Portus Require Import Image ParserFacts.
From Coq Require Import ZArith ZifyN ZifyNat ZifyBool.

(* ---------- scopes contain no placeholder register ---------- *)

Definition regs_ok (l : list (name * reg)) : Prop := Forall (fun kv => snd kv <> RNone) l.
Definition scope_ok (sc : scope) : Prop := regs_ok (sc_named sc).

Lemma sc_get_ok l n r : regs_ok l -> sc_get l n = Some r -> r <> RNone.
Proof.
  induction 1 as [|[k v] t Hk Ht IH]; cbn [sc_get]; [discriminate|].
  destruct (name_eqb k n); [intros H; inversion H; subst; exact Hk|exact IH].
Qed.

Lemma rf_insert_ok l n r : regs_ok l -> r <> RNone -> regs_ok (rf_insert l n r).
Proof.
  intros Hl Hr. induction Hl as [|[k v] t Hk Ht IH]; cbn [rf_insert].
  - repeat constructor. exact Hr.
  - destruct (name_ltb k n).
    + constructor; [exact Hk|exact IH].
    + constructor; [exact Hr|]. constructor; [exact Hk|exact Ht].
Qed.

Lemma rf_update_type_ok l n t : forall r l', regs_ok l -> rf_update_type l n t = Ok (r, l') ->
  regs_ok l' /\ r <> RNone.
Proof.
  induction l as [|[k v] rest IH]; intros r l' Hl H; cbn [rf_update_type] in H; [discriminate|].
  inversion Hl as [|? ? Hk Hrest]; subst.
  destruct (name_eqb k n).
  - destruct v; try discriminate; inversion H; subst; split; try discriminate;
      constructor; auto; cbn; discriminate.
  - apply bind_ok_inv in H. destruct H as ([r0 rest'] & Hu & H). inversion H; subst.
    destruct (IH _ _ Hrest Hu) as [H1 H2]. split; [constructor; auto|exact H2].
Qed.

Lemma rf_update_type_not_panic l n t : rf_update_type l n t <> Panic.
Proof.
  induction l as [|[k v] rest IH]; cbn [rf_update_type]; [discriminate|].
  destruct (name_eqb k n).
  - destruct v; discriminate.
  - apply bind_not_panic; [exact IH|]. intros [r rest'] _. discriminate.
Qed.

Lemma scope_new_ok : scope_ok scope_new.
Proof.
  unfold scope_ok, regs_ok. apply Forall_forall. intros [k v] Hin.
  assert (H : forallb (fun kv : name * reg => match snd kv with RNone => false | _ => true end) (sc_named scope_new) = true)
    by (vm_compute; reflexivity).
  pose proof (proj1 (forallb_forall _ _) H (k, v) Hin) as Hn. cbn [snd] in *. intros ->. discriminate.
Qed.

(* ---------- the event flag register is always present ---------- *)

Definition has (l : list (name * reg)) (n : name) : Prop := sc_get l n <> None.

Lemma rf_insert_has l n r m : has l m -> has (rf_insert l n r) m.
Proof.
  unfold has. induction l as [|[k v] t IH]; cbn [rf_insert sc_get]; [congruence|].
  destruct (name_ltb k n); cbn [sc_get].
  - destruct (name_eqb k m); [discriminate|exact IH].
  - destruct (name_eqb n m); [discriminate|]. destruct (name_eqb k m); [discriminate|]. auto.
Qed.

Lemma rf_update_type_has l n t m : forall r l', rf_update_type l n t = Ok (r, l') -> has l m -> has l' m.
Proof.
  unfold has. induction l as [|[k v] rest IH]; intros r l' H Hm; cbn [rf_update_type] in H; [discriminate|].
  cbn [sc_get] in Hm.
  destruct (name_eqb k n).
  - destruct v; try discriminate; inversion H; subst; cbn [sc_get]; destruct (name_eqb k m); auto; discriminate.
  - apply bind_ok_inv in H. destruct H as ([r0 rest'] & Hu & H). inversion H; subst.
    cbn [sc_get]. destruct (name_eqb k m); [discriminate|]. eapply IH; eauto.
Qed.

(* ---------- compile_expr ---------- *)

Definition ops_ok (is : list instr) : Prop := Forall (fun i => i_op i <> OAnd /\ i_op i <> OOr) is.

Lemma last_res_app is1 is2 : is2 <> [] -> last_res_is_none (is1 ++ is2) = last_res_is_none is2.
Proof.
  intros Hne. unfold last_res_is_none. rewrite rev_app_distr.
  destruct (rev is2) as [|x r] eqn:E; [|reflexivity].
  apply (f_equal (@rev instr)) in E. rewrite rev_involutive in E. cbn in E. congruence.
Qed.

Lemma last_res_snoc is i : last_res_is_none (is ++ [i]) = match i_res i with RNone => true | _ => false end.
Proof. unfold last_res_is_none. rewrite rev_app_distr. reflexivity. Qed.

Lemma set_last_res_some is r : is <> [] -> exists is', set_last_res is r = Some is' /\ length is' = length is /\
  (ops_ok is -> ops_ok is') /\ last_res_is_none is' = match r with RNone => true | _ => false end.
Proof.
  intros Hne. unfold set_last_res.
  destruct (rev is) as [|x before] eqn:E.
  { apply (f_equal (@rev instr)) in E. rewrite rev_involutive in E. cbn in E. congruence. }
  eexists. split; [reflexivity|]. split.
  - rewrite app_length, rev_length. cbn [length].
    apply (f_equal (@length instr)) in E. rewrite rev_length in E. cbn [length] in E. lia.
  - split.
    + intros Ho. unfold ops_ok in *.
      assert (His : is = rev before ++ [x]).
      { apply (f_equal (@rev instr)) in E. rewrite rev_involutive in E. cbn [rev] in E. exact E. }
      rewrite His in Ho. apply Forall_app in Ho. destruct Ho as [H1 H2].
      apply Forall_app. split; [exact H1|]. inversion H2; subst. constructor; [cbn; assumption|constructor].
    + apply last_res_snoc.
Qed.

(* the result register is the placeholder only when the last instruction carries it *)
Definition result_ok (is : list instr) (r : reg) : Prop :=
  r = RNone -> is <> [] /\ last_res_is_none is = true.

Lemma new_tmp_ok sc t : scope_ok sc -> scope_ok (snd (new_tmp sc t)) /\
  sc_named (snd (new_tmp sc t)) = sc_named sc /\ fst (new_tmp sc t) <> RNone.
Proof. intros H. unfold new_tmp. cbn. repeat split; auto. discriminate. Qed.

Lemma result_ok_nn is r : r <> RNone -> result_ok is r.
Proof. intros H E. congruence. Qed.

Lemma result_ok_snoc is i : result_ok (is ++ [i]) (i_res i).
Proof.
  intros E. split; [destruct is; discriminate|]. rewrite last_res_snoc, E. reflexivity.
Qed.

Ltac four a b c d := split; [a|split; [b|split; [c|d]]].

Lemma compile_expr_total e : no_def e -> forall sc, scope_ok sc ->
  match compile_expr e sc with
  | Ok (is, r, sc') => scope_ok sc' /\ ops_ok is /\ result_ok is r /\
                       (forall m, has (sc_named sc) m -> has (sc_named sc') m)
  | Err => True
  | Panic => False
  end.
Proof.
  induction e as [p|c|o l IHl r IHr|]; intros Hnd sc Hsc; cbn [compile_expr]; try exact I.
  - destruct p as [b|n|n].
    + four ltac:(exact Hsc) ltac:(constructor) ltac:(apply result_ok_nn; discriminate) ltac:(auto).
    + destruct (sc_get (sc_named sc) n) as [rg|] eqn:Eg.
      * four ltac:(exact Hsc) ltac:(constructor) ltac:(apply result_ok_nn; eapply sc_get_ok; eauto) ltac:(auto).
      * unfold new_local. destruct (255 <=? sc_nloc sc); cbn [bind]; [exact I|].
        four ltac:(cbn [sc_named]; apply rf_insert_ok; [exact Hsc|discriminate]) ltac:(constructor)
             ltac:(apply result_ok_nn; discriminate) ltac:(intros m Hm; cbn [sc_named]; apply rf_insert_has; exact Hm).
    + four ltac:(exact Hsc) ltac:(constructor) ltac:(apply result_ok_nn; discriminate) ltac:(auto).
  - cbn [no_def] in Hnd. destruct Hnd as (Ho & Hl & Hr).
    specialize (IHl Hl sc Hsc).
    destruct (compile_expr l sc) as [[[is1 lft] sc1]| |]; cbn [bind]; try exact I; try contradiction.
    destruct IHl as (Hsc1 & Hops1 & Hres1 & Hhas1).
    specialize (IHr Hr sc1 Hsc1).
    destruct (compile_expr r sc1) as [[[is2 rgt] sc2]| |]; cbn [bind]; try exact I; try contradiction.
    destruct IHr as (Hsc2 & Hops2 & Hres2 & Hhas2).
    assert (Hops : ops_ok (is1 ++ is2)) by (apply Forall_app; auto).
    assert (Hhas : forall m, has (sc_named sc) m -> has (sc_named sc2) m) by auto.
    assert (Hsnoc : forall i, i_op i <> OAnd /\ i_op i <> OOr -> ops_ok ((is1 ++ is2) ++ [i])).
    { intros i Hi. apply Forall_app. split; [exact Hops|constructor; [exact Hi|constructor]]. }
    assert (Htmp : forall t o', o' <> OAnd /\ o' <> OOr ->
              let '(res, sc3) := new_tmp sc2 t in
              scope_ok sc3 /\ ops_ok ((is1 ++ is2) ++ [mkInstr res o' lft rgt]) /\
              result_ok ((is1 ++ is2) ++ [mkInstr res o' lft rgt]) res /\
              (forall m, has (sc_named sc) m -> has (sc_named sc3) m)).
    { intros t o' Ho'. unfold new_tmp.
      four ltac:(exact Hsc2) ltac:(apply Hsnoc; cbn; exact Ho') ltac:(apply result_ok_nn; discriminate) ltac:(exact Hhas). }
    assert (Hplace : forall o', o' <> OAnd /\ o' <> OOr ->
              scope_ok sc2 /\ ops_ok ((is1 ++ is2) ++ [mkInstr RNone o' lft rgt]) /\
              result_ok ((is1 ++ is2) ++ [mkInstr RNone o' lft rgt]) RNone /\
              (forall m, has (sc_named sc) m -> has (sc_named sc2) m)).
    { intros o' Ho'.
      four ltac:(exact Hsc2) ltac:(apply Hsnoc; cbn; exact Ho')
           ltac:(apply (result_ok_snoc (is1 ++ is2) (mkInstr RNone o' lft rgt))) ltac:(exact Hhas). }
    destruct o; try (exfalso; apply Ho; reflexivity).
    + (* Add *) destruct (is_tnum (reg_type lft) && is_tnum (reg_type rgt)); [|exact I].
      pose proof (Htmp (TNum None) OAdd ltac:(split; discriminate)) as Ht. destruct (new_tmp sc2 (TNum None)); exact Ht.
    + (* And *) destruct (is_tbool (reg_type lft) && is_tbool (reg_type rgt)); [|exact I].
      pose proof (Htmp (TBool None) OMul ltac:(split; discriminate)) as Ht. destruct (new_tmp sc2 (TBool None)); exact Ht.
    + (* Bind *)
      assert (Hupd : match (match reg_type lft with TName s => update_type sc2 s (reg_type rgt) | _ => Ok (lft, sc2) end) with
                     | Ok (lft', sc3) => scope_ok sc3 /\ (forall m, has (sc_named sc2) m -> has (sc_named sc3) m)
                     | Err => True | Panic => False end).
      { destruct (reg_type lft) as [ob|s|on|]; try (split; auto; fail).
        unfold update_type.
        pose proof (rf_update_type_not_panic (sc_named sc2) s (reg_type rgt)) as Hnp.
        destruct (rf_update_type (sc_named sc2) s (reg_type rgt)) as [[r0 named']| |] eqn:Eu; cbn [bind]; try exact I; [|congruence].
        destruct (rf_update_type_ok _ _ _ _ _ Hsc2 Eu) as [Hok Hr0].
        split; [exact Hok|]. intros m Hm. cbn [sc_named]. eapply rf_update_type_has; eauto. }
      destruct (match reg_type lft with TName s => update_type sc2 s (reg_type rgt) | _ => Ok (lft, sc2) end)
        as [[lft' sc3]| |]; cbn [bind]; try exact I; try contradiction.
      destruct Hupd as (Hsc3 & Hhas3).
      assert (Hbind : lft' <> RNone -> scope_ok sc3 /\ ops_ok ((is1 ++ is2) ++ [mkInstr lft' OBind lft' rgt]) /\
                      result_ok ((is1 ++ is2) ++ [mkInstr lft' OBind lft' rgt]) lft' /\
                      (forall m, has (sc_named sc) m -> has (sc_named sc3) m)).
      { intros Hnn. four ltac:(exact Hsc3) ltac:(apply Hsnoc; cbn; split; discriminate)
                         ltac:(apply result_ok_nn; exact Hnn) ltac:(auto). }
      assert (Hrepl : rgt = RNone -> lft' <> RNone ->
                match (if last_res_is_none (is1 ++ is2) then
                         match set_last_res (is1 ++ is2) lft' with Some is' => Ok (is', lft', sc3) | None => Panic end
                       else Panic) with
                | Ok (is, r0, sc') => scope_ok sc' /\ ops_ok is /\ result_ok is r0 /\
                                      (forall m, has (sc_named sc) m -> has (sc_named sc') m)
                | Err => True | Panic => False end).
      { intros Hrn Hnn. destruct (Hres2 Hrn) as [Hne Hlast].
        rewrite (last_res_app is1 is2 Hne), Hlast.
        assert (Hne' : is1 ++ is2 <> []) by (destruct is1; [exact Hne|discriminate]).
        destruct (set_last_res_some (is1 ++ is2) lft' Hne') as (is' & -> & Hlen & Hops' & Hlr).
        four ltac:(exact Hsc3) ltac:(apply Hops'; exact Hops) ltac:(apply result_ok_nn; exact Hnn) ltac:(auto). }
      destruct lft' as [i t vol|x|b|i t|i t|i t|i t vol|i t|]; try exact I;
        destruct rgt as [i2 t2 vol2|x2|b2|i2 t2|i2 t2|i2 t2|i2 t2 vol2|i2 t2|]; try exact I;
        try (apply Hbind; discriminate); try (apply Hrepl; [reflexivity|discriminate]).
    + (* Div *) destruct (is_tnum (reg_type lft) && is_tnum (reg_type rgt)); [|exact I].
      pose proof (Htmp (TNum None) ODiv ltac:(split; discriminate)) as Ht. destruct (new_tmp sc2 (TNum None)); exact Ht.
    + (* Equiv *) destruct (is_tnum (reg_type lft) && is_tnum (reg_type rgt)); [|exact I].
      pose proof (Htmp (TBool None) OEquiv ltac:(split; discriminate)) as Ht. destruct (new_tmp sc2 (TBool None)); exact Ht.
    + (* Gt *) destruct (is_tnum (reg_type lft) && is_tnum (reg_type rgt)); [|exact I].
      pose proof (Htmp (TBool None) OGt ltac:(split; discriminate)) as Ht. destruct (new_tmp sc2 (TBool None)); exact Ht.
    + (* Lt *) destruct (is_tnum (reg_type lft) && is_tnum (reg_type rgt)); [|exact I].
      pose proof (Htmp (TBool None) OLt ltac:(split; discriminate)) as Ht. destruct (new_tmp sc2 (TBool None)); exact Ht.
    + (* Max *) destruct (is_tnum (reg_type lft) && is_tnum (reg_type rgt)); [|exact I].
      pose proof (Htmp (TNum None) OMax ltac:(split; discriminate)) as Ht. destruct (new_tmp sc2 (TNum None)); exact Ht.
    + (* MaxWrap *) destruct (is_tnum (reg_type lft) && is_tnum (reg_type rgt)); [|exact I].
      pose proof (Htmp (TNum None) OMaxWrap ltac:(split; discriminate)) as Ht. destruct (new_tmp sc2 (TNum None)); exact Ht.
    + (* Min *) destruct (is_tnum (reg_type lft) && is_tnum (reg_type rgt)); [|exact I].
      pose proof (Htmp (TNum None) OMin ltac:(split; discriminate)) as Ht. destruct (new_tmp sc2 (TNum None)); exact Ht.
    + (* Mul *) destruct (is_tnum (reg_type lft) && is_tnum (reg_type rgt)); [|exact I].
      pose proof (Htmp (TNum None) OMul ltac:(split; discriminate)) as Ht. destruct (new_tmp sc2 (TNum None)); exact Ht.
    + (* Or *) destruct (is_tbool (reg_type lft) && is_tbool (reg_type rgt)); [|exact I].
      pose proof (Htmp (TBool None) OMax ltac:(split; discriminate)) as Ht. destruct (new_tmp sc2 (TBool None)); exact Ht.
    + (* Sub *) destruct (is_tnum (reg_type lft) && is_tnum (reg_type rgt)); [|exact I].
      pose proof (Htmp (TNum None) OSub ltac:(split; discriminate)) as Ht. destruct (new_tmp sc2 (TNum None)); exact Ht.
    + (* If *) apply Hplace. split; discriminate.
    + (* NotIf *) apply Hplace. split; discriminate.
    + (* Ewma *) apply Hplace. split; discriminate.
Qed.

(* ---------- bodies, flags, events, programs ---------- *)

Definition flag_name : name := lit "__eventFlag".

Lemma compile_body_total es : Forall no_def es -> forall sc, scope_ok sc ->
  match compile_body es sc with
  | Ok (is, sc') => scope_ok sc' /\ ops_ok is /\ (forall m, has (sc_named sc) m -> has (sc_named sc') m)
  | Err => True
  | Panic => False
  end.
Proof.
  induction 1 as [|e r He Hr IH]; intros sc Hsc; cbn [compile_body].
  - repeat split; auto. constructor.
  - assert (Hstep : match (do (is, _, sc1) <- compile_expr e (clear_tmps sc);
                           do (rest, sc2) <- compile_body r sc1; Ok (is ++ rest, sc2)) with
                    | Ok (is, sc') => scope_ok sc' /\ ops_ok is /\ (forall m, has (sc_named sc) m -> has (sc_named sc') m)
                    | Err => True | Panic => False end).
    { pose proof (compile_expr_total e He (clear_tmps sc) Hsc) as H1.
      destruct (compile_expr e (clear_tmps sc)) as [[[is rg] sc1]| |]; cbn [bind]; try exact I; try contradiction.
      destruct H1 as (Hsc1 & Hops1 & _ & Hhas1).
      specialize (IH sc1 Hsc1).
      destruct (compile_body r sc1) as [[rest sc2]| |]; cbn [bind]; try exact I; try contradiction.
      destruct IH as (Hsc2 & Hops2 & Hhas2).
      split; [exact Hsc2|]. split; [apply Forall_app; auto|]. intros m Hm. apply Hhas2. apply Hhas1. exact Hm. }
    destruct e; try exact Hstep. apply IH. exact Hsc.
Qed.

Lemma compile_flag_total e : no_def e -> forall sc, scope_ok sc -> has (sc_named sc) flag_name ->
  match compile_flag e sc with
  | Ok (is, sc') => scope_ok sc' /\ ops_ok is /\ (forall m, has (sc_named sc) m -> has (sc_named sc') m)
  | Err => True
  | Panic => False
  end.
Proof.
  intros He sc Hsc Hflag. unfold compile_flag.
  pose proof (compile_expr_total e He (clear_tmps sc) Hsc) as H1.
  destruct (compile_expr e (clear_tmps sc)) as [[[is rg] sc1]| |]; cbn [bind]; try exact I; try contradiction.
  destruct H1 as (Hsc1 & Hops1 & _ & Hhas1).
  pose proof (Hhas1 flag_name Hflag) as Hf1. unfold has, flag_name in Hf1.
  destruct (sc_get (sc_named sc1) (lit "__eventFlag")) as [fr|]; [|congruence].
  destruct rg as [i t vol|x|b|i t|i t|i t|i t vol|i t|]; try exact I.
  - repeat split; auto. apply Forall_app. split; [exact Hops1|]. constructor; [cbn; split; discriminate|constructor].
  - destruct t; try exact I.
    destruct is as [|i0 is0] eqn:Eis.
    + cbn. exact I.
    + destruct (set_last_res_some (i0 :: is0) fr ltac:(discriminate)) as (is' & -> & _ & Hops' & _).
      repeat split; auto.
Qed.

Lemma compile_events_total evs : Forall (fun ev => no_def (ev_flag ev) /\ Forall no_def (ev_body ev)) evs ->
  forall sc idx, scope_ok sc -> has (sc_named sc) flag_name ->
  match compile_events evs sc idx with
  | Ok (_, is, sc') => scope_ok sc' /\ ops_ok is
  | Err => True
  | Panic => False
  end.
Proof.
  induction 1 as [|ev r [Hf Hb] Hr IH]; intros sc idx Hsc Hflag; cbn [compile_events].
  - split; [exact Hsc|constructor].
  - pose proof (compile_flag_total _ Hf sc Hsc Hflag) as H1.
    destruct (compile_flag (ev_flag ev) sc) as [[fi sc1]| |]; cbn [bind]; try exact I; try contradiction.
    destruct H1 as (Hsc1 & Hops1 & Hhas1).
    pose proof (compile_body_total _ Hb sc1 Hsc1) as H2.
    destruct (compile_body (ev_body ev) sc1) as [[bi sc2]| |]; cbn [bind]; try exact I; try contradiction.
    destruct H2 as (Hsc2 & Hops2 & Hhas2).
    specialize (IH sc2 (idx + N.of_nat (length fi) + N.of_nat (length bi)) Hsc2 (Hhas2 _ (Hhas1 _ Hflag))).
    destruct (compile_events r sc2 _) as [[[evs' is'] sc3]| |]; cbn [bind]; try exact I; try contradiction.
    destruct IH as (Hsc3 & Hops3). split; [exact Hsc3|].
    apply Forall_app. split; [exact Hops1|]. apply Forall_app. split; assumption.
Qed.

Lemma def_instrs_ops l : ops_ok (def_instrs l).
Proof.
  induction l as [|[n r] rest IH]; cbn [def_instrs]; [constructor|].
  destruct r as [i t vol|x|b|i t|i t|i t|i t vol|i t|]; try exact IH;
    destruct t as [[bb|]|s|[nn|]|]; try exact IH; constructor; try exact IH; cbn; split; discriminate.
Qed.

Lemma ser_instrs_not_panic is : ops_ok is -> ser_instrs is <> Panic.
Proof.
  induction 1 as [|i r [H1 H2] Hr IH]; cbn [ser_instrs]; [discriminate|].
  apply bind_not_panic.
  - unfold ser_instr.
    assert (Hop : ser_op (i_op i) <> Panic) by (destruct (i_op i); cbn; congruence).
    assert (Hreg : forall rg, ser_reg_img rg <> Panic).
    { intros rg. destruct rg as [k t vol|x|b|k t|k t|k t|k t vol|k t|]; cbn [ser_reg_img]; try discriminate;
        unfold ser_reg; cbn [reg_code];
        repeat match goal with |- context [if ?c then _ else _] => destruct c end; cbn [bind]; discriminate. }
    apply bind_not_panic; [exact Hop|]. intros o _.
    apply bind_not_panic; [apply Hreg|]. intros a _.
    apply bind_not_panic; [apply Hreg|]. intros b _.
    apply bind_not_panic; [apply Hreg|]. discriminate.
  - intros a _. apply bind_not_panic; [exact IH|]. discriminate.
Qed.

(* ---------- from text to a well-formed program ---------- *)

Lemma declare_ok mk ds : (forall sc v n t r sc', mk sc v n t = Ok (r, sc') ->
                           r <> RNone /\ sc_named sc' = rf_insert (sc_named sc) n r) ->
  (forall sc v n t, mk sc v n t <> Panic) ->
  forall sc, scope_ok sc -> has (sc_named sc) flag_name ->
  match declare mk ds sc with
  | Ok sc' => scope_ok sc' /\ has (sc_named sc') flag_name
  | Err => True
  | Panic => False
  end.
Proof.
  intros Hmk Hnp. induction ds as [|[[v n] t] r IH]; intros sc Hsc Hf; cbn [declare]; [auto|].
  pose proof (Hnp sc v n t) as Hn.
  destruct (mk sc v n t) as [[rg sc1]| |] eqn:E; cbn [bind]; try exact I; [|congruence].
  destruct (Hmk _ _ _ _ _ _ E) as [Hr Hnamed].
  apply IH.
  - unfold scope_ok. rewrite Hnamed. apply rf_insert_ok; assumption.
  - rewrite Hnamed. apply rf_insert_has. exact Hf.
Qed.

Lemma many0_forall {A} (P : A -> Prop) (p : list N -> pres A) :
  (forall j a r, p j = POk a r -> P a) -> forall f i l rest, many0 p f i = POk l rest -> Forall P l.
Proof.
  intros Hp. induction f as [|f IH]; intros i l rest H; cbn [many0] in H; [discriminate|].
  destruct (p i) as [a r1| | |] eqn:E; try discriminate.
  - destruct (Nat.eqb (length r1) (length i)); [discriminate|].
    destruct (many0 p f r1) as [l' r2| | |] eqn:E2; try discriminate.
    inversion H; subst. constructor; [eapply Hp; exact E|eapply IH; exact E2].
  - inversion H; subst. constructor.
Qed.

Lemma many1_forall {A} (P : A -> Prop) (p : list N -> pres A) :
  (forall j a r, p j = POk a r -> P a) -> forall f i l rest, many1 p f i = POk l rest -> Forall P l.
Proof.
  intros Hp f i l rest H. unfold many1 in H.
  destruct (p i) as [a r1| | |] eqn:E; try discriminate.
  destruct (many0 p f r1) as [l' r2| | |] eqn:E2; try discriminate.
  inversion H; subst. constructor; [eapply Hp; exact E|eapply many0_forall; eauto].
Qed.

Definition event_no_def (ev : event) : Prop := no_def (ev_flag ev) /\ Forall no_def (ev_body ev).

Lemma p_event_no_def f i ev rest : p_event f i = POk ev rest -> event_no_def ev.
Proof.
  unfold p_event.
  destruct (tag (lit "(") (skip_ws i)) as [u r1| | |]; try discriminate.
  destruct (tag (lit "when") (skip_ws r1)) as [u2 r2| | |]; try discriminate.
  destruct (p_expr f r2) as [c r3| | |] eqn:Ec; try discriminate.
  destruct (p_exprs f r3) as [body r4| | |] eqn:Eb; try discriminate.
  destruct (tag (lit ")") (skip_ws r4)); try discriminate.
  intros H; inversion H; subst. split; cbn [ev_flag ev_body].
  - eapply p_expr_no_def; exact Ec.
  - unfold p_exprs in Eb. eapply many1_forall; [|exact Eb]. intros j a0 r0. apply p_expr_no_def.
Qed.

Lemma p_events_no_def f i evs rest : p_events f i = POk evs rest -> Forall event_no_def evs.
Proof.
  unfold p_events. apply many1_forall. intros j ev r H. unfold p_event_item in H.
  destruct (p_event f _) as [e r0| | |] eqn:E; try discriminate. inversion H; subst.
  eapply p_event_no_def; exact E.
Qed.

Lemma scope_new_has_flag : has (sc_named scope_new) flag_name.
Proof. unfold has, flag_name. vm_compute. discriminate. Qed.

Lemma new_with_scope_ok src p sc : new_with_scope src = inl (Ok (p, sc)) ->
  scope_ok sc /\ has (sc_named sc) flag_name /\ Forall event_no_def p.
Proof.
  unfold new_with_scope.
  destruct (p_defs (parse_fuel src) src) as [decls rest| | |]; try discriminate.
  pose proof (declare_ok new_report (filter (fun '(_, n, _) => has_report_prefix n) decls)
    ltac:(intros sc0 v n t r sc' H; unfold new_report in H; destruct (255 <=? sc_nperm sc0); [discriminate|];
          inversion H; subst; split; [discriminate|reflexivity])
    ltac:(intros sc0 v n t; unfold new_report; destruct (255 <=? sc_nperm sc0); discriminate)
    scope_new scope_new_ok scope_new_has_flag) as H1.
  destruct (declare new_report _ scope_new) as [sc1| |]; try discriminate; try contradiction.
  destruct H1 as [Hs1 Hf1].
  pose proof (declare_ok new_control (filter (fun '(_, n, _) => negb (has_report_prefix n)) decls)
    ltac:(intros sc0 v n t r sc' H; unfold new_control in H; destruct (255 <=? sc_nctl sc0); [discriminate|];
          inversion H; subst; split; [discriminate|reflexivity])
    ltac:(intros sc0 v n t; unfold new_control; destruct (255 <=? sc_nctl sc0); discriminate)
    sc1 Hs1 Hf1) as H2.
  destruct (declare new_control _ sc1) as [sc2| |]; try discriminate; try contradiction.
  destruct H2 as [Hs2 Hf2].
  destruct (p_events (parse_fuel src) rest) as [evs rest'| | |] eqn:Ee; try discriminate.
  destruct rest'; [|discriminate].
  intros H; inversion H; subst. split; [exact Hs2|]. split; [exact Hf2|].
  apply p_events_no_def in Ee.
  apply Forall_forall. intros ev Hin. apply in_map_iff in Hin. destruct Hin as (ev0 & <- & Hin0).
  rewrite Forall_forall in Ee. destruct (Ee ev0 Hin0) as [Hfl Hbd].
  split; cbn [ev_flag ev_body]; [exact Hfl|].
  apply Forall_forall. intros e He. apply in_map_iff in He. destruct He as (e0 & <- & He0).
  apply desugar_no_def. rewrite Forall_forall in Hbd. apply Hbd. exact He0.
Qed.

Lemma new_with_scope_not_panic src : new_with_scope src <> inl Panic.
Proof.
  unfold new_with_scope.
  destruct (p_defs (parse_fuel src) src) as [decls rest| | |]; try discriminate.
  pose proof (declare_ok new_report (filter (fun '(_, n, _) => has_report_prefix n) decls)
    ltac:(intros sc0 v n t r sc' H; unfold new_report in H; destruct (255 <=? sc_nperm sc0); [discriminate|];
          inversion H; subst; split; [discriminate|reflexivity])
    ltac:(intros sc0 v n t; unfold new_report; destruct (255 <=? sc_nperm sc0); discriminate)
    scope_new scope_new_ok scope_new_has_flag) as H1.
  destruct (declare new_report _ scope_new) as [sc1| |]; try discriminate; try contradiction.
  destruct H1 as [Hs1 Hf1].
  pose proof (declare_ok new_control (filter (fun '(_, n, _) => negb (has_report_prefix n)) decls)
    ltac:(intros sc0 v n t r sc' H; unfold new_control in H; destruct (255 <=? sc_nctl sc0); [discriminate|];
          inversion H; subst; split; [discriminate|reflexivity])
    ltac:(intros sc0 v n t; unfold new_control; destruct (255 <=? sc_nctl sc0); discriminate)
    sc1 Hs1 Hf1) as H2.
  destruct (declare new_control _ sc1) as [sc2| |]; try discriminate; try contradiction.
  destruct (p_events (parse_fuel src) rest) as [evs rest'| | |]; try discriminate.
  destruct rest'; discriminate.
Qed.

Lemma apply_updates_ok ups : forall sc, scope_ok sc -> has (sc_named sc) flag_name ->
  scope_ok (apply_updates ups sc) /\ has (sc_named (apply_updates ups sc)) flag_name.
Proof.
  induction ups as [|[n v] r IH]; intros sc Hsc Hf; cbn [apply_updates]; [auto|].
  unfold update_type.
  destruct (rf_update_type (sc_named sc) n (TNum (Some v))) as [[r0 named']| |] eqn:E; cbn [bind]; try (apply IH; assumption).
  destruct (rf_update_type_ok _ _ _ _ _ Hsc E) as [Hok _].
  apply IH; [exact Hok|]. cbn [sc_named]. eapply rf_update_type_has; eauto.
Qed.

(* The compiler is total: for every byte string and every list of overrides the result is a
   value — an image with its scope, or an error — never a panic and never out of fuel. *)
Theorem compile_and_serialize_total src ups :
  (exists bytes sc, compile_and_serialize src ups = inl (Ok (bytes, sc))) \/
  compile_and_serialize src ups = inl Err.
Proof.
  unfold compile_and_serialize, compile.
  destruct (utf8_decode src) as [cps|]; [|right; reflexivity].
  pose proof (parse_fuel_sufficient cps) as Hfuel.
  pose proof (new_with_scope_not_panic cps) as Hnp.
  destruct (new_with_scope cps) as [[[p sc]| |]|[]] eqn:En; try congruence; [|right; reflexivity].
  destruct (new_with_scope_ok _ _ _ En) as (Hsc & Hflag & Hnd).
  destruct (apply_updates_ok ups sc Hsc Hflag) as [Hsc' Hflag'].
  unfold compile_prog.
  pose proof (compile_events_total p Hnd (apply_updates ups sc)
                (N.of_nat (length (def_instrs (sc_named (apply_updates ups sc))))) Hsc' Hflag') as He.
  destruct (compile_events p (apply_updates ups sc) _) as [[[evs is] sc2]| |]; cbn [bind];
    [|right; reflexivity|contradiction].
  destruct He as [_ Hops].
  unfold serialize_bin. cbn [b_instrs b_events].
  pose proof (ser_instrs_not_panic (def_instrs (sc_named (apply_updates ups sc)) ++ is)
                ltac:(apply Forall_app; split; [apply def_instrs_ops|exact Hops])) as Hs.
  destruct (ser_instrs _) as [bytes| |]; cbn [bind]; [left; eauto|right; reflexivity|congruence].
Qed.
