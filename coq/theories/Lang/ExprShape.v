(* The three shapes the source semantics, the typing discipline and the clobber class all
   distinguish by nested pattern matching (a conditional or ewma under a bind, a plain bind, any
   other operator), with an induction principle that follows them and the corresponding
   unfolding / inversion lemmas.  Environment lemmas and the frame property of eval. *)
From Portus Require Export EndToEnd.

Definition plain (v : expr) : Prop := match v with Sexp o _ _ => is_condop o = false | _ => True end.

(* not a bind whose target is a name *)
Definition generic (o : op) (l : expr) : bool :=
  match o, l with
  | OBind, Atom (PName _) => false
  | OBind, Sexp OBind _ _ => false
  | _, _ => true
  end.

Fixpoint esize (e : expr) : nat :=
  match e with
  | Sexp _ l r => S (esize l + esize r)
  | _ => 1%nat
  end.

Section Ind.
  Variable P : expr -> Prop.
  Hypothesis H_atom : forall p, P (Atom p).
  Hypothesis H_cmd : forall c, P (Cmd c).
  Hypothesis H_none : P ENone.
  Hypothesis H_cond : forall x o c v, is_condop o = true -> P c -> P v -> P (Sexp OBind (Atom (PName x)) (Sexp o c v)).
  Hypothesis H_bind : forall x v, plain v -> P v -> P (Sexp OBind (Atom (PName x)) v).
  Hypothesis H_nest : forall t1 t2 v, P (Sexp OBind t1 t2) -> P v -> P (Sexp OBind (Sexp OBind t1 t2) v).
  Hypothesis H_op : forall o l r, generic o l = true -> P l -> P r -> P (Sexp o l r).

  Lemma expr_shape_ind_aux : forall n e, (esize e <= n)%nat -> P e.
  Proof.
    induction n as [|n IH]; intros e Hn.
    - destruct e; cbn in Hn; lia.
    - destruct e as [p|c|o l r|]; auto.
      cbn [esize] in Hn.
      destruct (generic o l) eqn:G.
      + apply H_op; auto; apply IH; lia.
      + destruct o; try discriminate G. destruct l as [[b|x|m]| |ol l1 l2|]; try discriminate G.
        2:{ destruct ol; try discriminate G. apply H_nest; apply IH; cbn [esize] in *; lia. }
        destruct r as [p|c|o' c v|].
        * apply H_bind; [exact I|apply H_atom].
        * apply H_bind; [exact I|apply H_cmd].
        * destruct (is_condop o') eqn:Co.
          -- apply H_cond; auto; apply IH; cbn [esize] in Hn; lia.
          -- apply H_bind; [exact Co|]. apply IH. lia.
        * apply H_bind; [exact I|apply H_none].
  Qed.

  Theorem expr_shape_ind : forall e, P e.
  Proof. intros e. apply (expr_shape_ind_aux (esize e)). lia. Qed.
End Ind.

(* ---------- eval, by shape ---------- *)

Lemma eval_bind_plain cx s x v : plain v ->
  eval cx s (Sexp OBind (Atom (PName x)) v) =
  match eval cx s v with
  | Fault z s1 => Fault z s1
  | Val s1 vv => Val (assign cx s1 x vv) vv
  end.
Proof. destruct v as [p|c|o l r|]; try reflexivity. destruct o; cbn; intros H; try discriminate; reflexivity. Qed.

Lemma eval_nest cx s t1 t2 v :
  eval cx s (Sexp OBind (Sexp OBind t1 t2) v) =
  match eval cx s (Sexp OBind t1 t2) with
  | Fault z s1 => Fault z s1
  | Val s1 _ =>
    match eval cx s1 v with
    | Fault z s2 => Fault z s2
    | Val s2 vv => match bind_target (Sexp OBind t1 t2) with
                   | Some x => Val (assign cx s2 x vv) vv
                   | None => Val s2 vv
                   end
    end
  end.
Proof. reflexivity. Qed.

Lemma eval_op cx s o l r : generic o l = true ->
  eval cx s (Sexp o l r) =
  match eval cx s l with
  | Fault z s1 => Fault z s1
  | Val s1 a =>
    match eval cx s1 r with
    | Fault z s2 => Fault z s2
    | Val s2 b => match op_sem o a b with inl z => Fault z s2 | inr v => Val s2 v end
    end
  end.
Proof.
  intros G. destruct o; try reflexivity.
  destruct l as [[b|x|m]| |ol l1 l2|]; try reflexivity; [discriminate G|].
  destruct ol; try reflexivity. discriminate G.
Qed.

(* ---------- typing, by shape ---------- *)

Lemma ty_cond_inv g x o c v t g' : is_condop o = true ->
  ty_expr g (Sexp OBind (Atom (PName x)) (Sexp o c v)) = Some (t, g') ->
  exists tc g1 tv, ty_expr g c = Some (tc, g1) /\ ty_expr g1 v = Some (tv, g') /\
    exists tx k, tget g' x = Some (tx, k) /\ (k = KReport \/ k = KControl).
Proof.
  intros Co H. destruct o; try discriminate Co; cbn [ty_expr] in H.
  - destruct (ty_expr g c) as [[[|] g1]|] eqn:E1; try discriminate H.
    destruct (ty_expr g1 v) as [[tv g2]|] eqn:E2; try discriminate H.
    destruct (tget g2 x) as [[tx [| | | |]]|] eqn:E3; try discriminate H;
      destruct (vty_eqb tx tv); try discriminate H; inversion H; subst;
      do 3 eexists; repeat split; eauto.
  - destruct (ty_expr g c) as [[[|] g1]|] eqn:E1; try discriminate H.
    destruct (ty_expr g1 v) as [[tv g2]|] eqn:E2; try discriminate H.
    destruct (tget g2 x) as [[tx [| | | |]]|] eqn:E3; try discriminate H;
      destruct (vty_eqb tx tv); try discriminate H; inversion H; subst;
      do 3 eexists; repeat split; eauto.
  - destruct (ty_expr g c) as [[[|] g1]|] eqn:E1; try discriminate H.
    destruct (ty_expr g1 v) as [[[|] g2]|] eqn:E2; try discriminate H.
    destruct (tget g2 x) as [[[|] [| | | |]]|] eqn:E3; try discriminate H; inversion H; subst;
      do 3 eexists; repeat split; eauto.
Qed.

Lemma ty_bind_inv g x v t g' : plain v ->
  ty_expr g (Sexp OBind (Atom (PName x)) v) = Some (t, g') ->
  exists g1, ty_expr g v = Some (t, g1) /\
    ((g' = g1 /\ tget g1 x <> None) \/ (g' = (x, (t, KLocal)) :: g1 /\ tget g1 x = None)).
Proof.
  intros Pl H.
  assert (H' : match ty_expr g v with
               | Some (t, g1) =>
                 match tget g1 x with
                 | Some (_, KPrim) => None
                 | Some (tx, _) => if vty_eqb tx t then Some (t, g1) else None
                 | None => Some (t, (x, (t, KLocal)) :: g1)
                 end
               | None => None
               end = Some (t, g')).
  { destruct v as [p|c|o l r|]; try exact H. destruct o; try discriminate Pl; exact H. }
  clear H. destruct (ty_expr g v) as [[t1 g1]|]; try discriminate H'.
  destruct (tget g1 x) as [[tx k]|] eqn:E.
  - destruct k; try discriminate H'; destruct (vty_eqb tx t1); try discriminate H'; inversion H'; subst;
      eexists; split; eauto; left; split; congruence.
  - inversion H'; subst. eexists; split; eauto.
Qed.

Lemma ty_op_inv g o l r t g' : generic o l = true ->
  ty_expr g (Sexp o l r) = Some (t, g') ->
  is_valop o = true /\ exists tl g1 tr, ty_expr g l = Some (tl, g1) /\ ty_expr g1 r = Some (tr, g').
Proof.
  intros G H.
  assert (H' : (if is_valop o then
                 match ty_expr g l with
                 | Some (tl, g1) =>
                   match ty_expr g1 r with
                   | Some (tr, g2) =>
                     if is_logic o then (if vty_eqb tl VBool && vty_eqb tr VBool then Some (VBool, g2) else None)
                     else if vty_eqb tl VNum && vty_eqb tr VNum then Some ((if is_cmp o then VBool else VNum), g2) else None
                   | None => None
                   end
                 | None => None
                 end
               else None) = Some (t, g')).
  { destruct o; try exact H. destruct l as [[b|x|m]| |ol l1 l2|]; try exact H; [discriminate G|]. destruct ol; try exact H. discriminate G. }
  clear H. destruct (is_valop o); try discriminate H'. split; [reflexivity|].
  destruct (ty_expr g l) as [[tl g1]|] eqn:E1; try discriminate H'.
  destruct (ty_expr g1 r) as [[tr g2]|] eqn:E2; try discriminate H'.
  assert (g2 = g').
  { destruct (is_logic o); [destruct (vty_eqb tl VBool && vty_eqb tr VBool)|destruct (vty_eqb tl VNum && vty_eqb tr VNum)];
      inversion H'; reflexivity. }
  subst. exists tl, g1, tr. split; [reflexivity|exact E2].
Qed.

Lemma ty_nest_inv g t1 t2 v t g' :
  ty_expr g (Sexp OBind (Sexp OBind t1 t2) v) = Some (t, g') ->
  plain v /\ exists g1, ty_expr g (Sexp OBind t1 t2) = Some (t, g1) /\ ty_expr g1 v = Some (t, g').
Proof.
  intros H.
  assert (Pl : plain v).
  { destruct v as [p|c|o l r|]; try exact I. cbn. destruct o; try reflexivity; cbn [ty_expr] in H; discriminate H. }
  split; [exact Pl|].
  assert (H' : match ty_expr g (Sexp OBind t1 t2) with
               | Some (ty1, g1) =>
                 match ty_expr g1 v with
                 | Some (tv, g2) => if vty_eqb ty1 tv then Some (tv, g2) else None
                 | None => None
                 end
               | None => None
               end = Some (t, g')).
  { destruct v as [p|c|o l r|]; try exact H. destruct o; try discriminate Pl; exact H. }
  clear H. destruct (ty_expr g (Sexp OBind t1 t2)) as [[ty1 g1]|] eqn:E1; [|discriminate H'].
  destruct (ty_expr g1 v) as [[tv g2]|] eqn:E2; [|discriminate H'].
  destruct (vty_eqb ty1 tv) eqn:Ev; [|discriminate H']. inversion H'; subst.
  assert (ty1 = t) by (destruct ty1, t; try discriminate Ev; reflexivity). subst ty1.
  exists g1. split; [reflexivity|exact E2].
Qed.

(* typing only ever adds names that were not there *)
Lemma ty_expr_mono e : forall g t g', ty_expr g e = Some (t, g') ->
  forall y, tget g y <> None -> tget g' y = tget g y.
Proof.
  induction e as [p|c| |x o c v Co IHc IHv|x v Pl IHv|t1 t2 v IHt IHv|o l r G IHl IHr] using expr_shape_ind; intros g t g' H y Hy.
  - destruct p as [b|x|n]; cbn in H.
    + inversion H; reflexivity.
    + destruct (tget g x) as [[? ?]|]; inversion H; reflexivity.
    + destruct (lit_ok n); inversion H; reflexivity.
  - discriminate H.
  - discriminate H.
  - apply ty_cond_inv in H; auto. destruct H as (tc & g1 & tv & H1 & H2 & _).
    rewrite (IHv _ _ _ H2 y); [apply (IHc _ _ _ H1 y Hy)|]. rewrite (IHc _ _ _ H1 y Hy). exact Hy.
  - apply ty_bind_inv in H; auto. destruct H as (g1 & H1 & [[-> _]|[-> Hn]]).
    + apply (IHv _ _ _ H1 y Hy).
    + cbn [tget]. destruct (name_eqb x y) eqn:E.
      * apply name_eqb_eq in E. subst y. rewrite (IHv _ _ _ H1 x Hy) in Hn. contradiction.
      * apply (IHv _ _ _ H1 y Hy).
  - apply ty_nest_inv in H. destruct H as (_ & g1 & H1 & H2).
    rewrite (IHv _ _ _ H2 y); [apply (IHt _ _ _ H1 y Hy)|]. rewrite (IHt _ _ _ H1 y Hy). exact Hy.
  - apply ty_op_inv in H; auto. destruct H as (_ & tl & g1 & tr & H1 & H2).
    rewrite (IHr _ _ _ H2 y); [apply (IHl _ _ _ H1 y Hy)|]. rewrite (IHl _ _ _ H1 y Hy). exact Hy.
Qed.

(* ---------- environments ---------- *)

Lemma env_get_set_same e x v : env_get (env_set e x v) x = v.
Proof.
  induction e as [|[k w] e IH]; cbn [env_set env_get].
  - rewrite name_eqb_refl. reflexivity.
  - destruct (name_eqb k x) eqn:E; cbn [env_get]; rewrite E; auto.
Qed.

Lemma env_get_set_other e x y v : x <> y -> env_get (env_set e x v) y = env_get e y.
Proof.
  intros H. induction e as [|[k w] e IH]; cbn [env_set env_get].
  - destruct (name_eqb x y) eqn:E; [apply name_eqb_eq in E; contradiction|reflexivity].
  - destruct (name_eqb k x) eqn:E; cbn [env_get].
    + apply name_eqb_eq in E. subst k. destruct (name_eqb x y) eqn:E2; [apply name_eqb_eq in E2; contradiction|reflexivity].
    + destruct (name_eqb k y); auto.
Qed.

Lemma assign_get_same cx s x v : env_get (s_env (assign cx s x v)) x = v.
Proof. unfold assign. destruct (name_eqb x micros_name); cbn; apply env_get_set_same. Qed.

Lemma assign_get_other cx s x y v : x <> y -> env_get (s_env (assign cx s x v)) y = env_get (s_env s) y.
Proof. intros H. unfold assign. destruct (name_eqb x micros_name); cbn; apply env_get_set_other; exact H. Qed.

(* ---------- assigns / clobbers, by shape ---------- *)

Lemma assigns_cond x o c v y : is_condop o = true ->
  assigns (Sexp OBind (Atom (PName x)) (Sexp o c v)) y = name_eqb x y || (assigns c y || assigns v y).
Proof. intros Co. destruct o; try discriminate Co; reflexivity. Qed.

Lemma assigns_bind x v y : assigns (Sexp OBind (Atom (PName x)) v) y = name_eqb x y || assigns v y.
Proof. reflexivity. Qed.

Lemma assigns_op o l r y : generic o l = true -> assigns (Sexp o l r) y = assigns l y || assigns r y.
Proof.
  intros G. destruct o; try reflexivity. destruct l as [[b|x|m]| |ol l1 l2|]; try reflexivity; try discriminate G.
  all: try (destruct ol; try reflexivity; discriminate G).
Qed.

Lemma assigns_nest t1 t2 v y : assigns (Sexp OBind (Sexp OBind t1 t2) v) y = assigns (Sexp OBind t1 t2) y || assigns v y.
Proof. reflexivity. Qed.

Lemma bind_target_assigns t : forall x y, bind_target t = Some x -> assigns t y = false -> x <> y.
Proof.
  induction t as [p|c|o l IHl r IHr|]; intros x y Hb Ha; try discriminate Hb.
  destruct o; try discriminate Hb. destruct l as [[b|z|m]| |ol l1 l2|]; try discriminate Hb.
  - cbn [bind_target] in Hb. inversion Hb; subst z. cbn [assigns] in Ha. apply orb_false_iff in Ha. destruct Ha as [Ha _].
    intros ->. rewrite name_eqb_refl in Ha. discriminate Ha.
  - destruct ol; try discriminate Hb. cbn [bind_target] in Hb. fold bind_target in Hb.
    change (assigns (Sexp OBind (Sexp OBind l1 l2) r) y) with (assigns (Sexp OBind l1 l2) y || assigns r y) in Ha.
    apply orb_false_iff in Ha. destruct Ha as [Ha _]. eapply IHl; eauto.
Qed.

Lemma clobbers_nest t1 t2 v :
  clobbers (Sexp OBind (Sexp OBind t1 t2) v) =
  match direct_var (Sexp OBind t1 t2) with Some y => assigns v y | None => false end || clobbers (Sexp OBind t1 t2) || clobbers v.
Proof. reflexivity. Qed.

Lemma clobbers_cond x o c v : is_condop o = true ->
  clobbers (Sexp OBind (Atom (PName x)) (Sexp o c v)) =
  match direct_var c with Some y => assigns v y | None => false end || clobbers c || clobbers v.
Proof. intros Co. destruct o; try discriminate Co; reflexivity. Qed.

Lemma clobbers_bind x v : plain v -> clobbers (Sexp OBind (Atom (PName x)) v) = clobbers v.
Proof.
  destruct v as [p|c|o l r|]; try reflexivity. intros Pl. cbn in Pl.
  destruct o; try discriminate Pl; reflexivity.
Qed.

Lemma clobbers_op o l r : generic o l = true ->
  clobbers (Sexp o l r) = match direct_var l with Some y => assigns r y | None => false end || clobbers l || clobbers r.
Proof.
  intros G. destruct o; try reflexivity. destruct l as [[b|x|m]| |ol l1 l2|]; try reflexivity; try discriminate G.
  all: try (destruct ol; try reflexivity; discriminate G).
Qed.

(* ---------- the frame property of the source semantics ---------- *)

Definition res_state (r : res) : sstate := match r with Val s _ => s | Fault _ s => s end.

Lemma eval_frame cx e : forall g t g' s y, ty_expr g e = Some (t, g') -> assigns e y = false ->
  env_get (s_env (res_state (eval cx s e))) y = env_get (s_env s) y.
Proof.
  induction e as [p|c| |x o c v Co IHc IHv|x v Pl IHv|t1 t2 v IHt IHv|o l r G IHl IHr] using expr_shape_ind; intros g t g' s y Ht Ha.
  - destruct p as [b|x|n]; cbn [eval]; try reflexivity. destruct (primitive_index x); reflexivity.
  - discriminate Ht.
  - discriminate Ht.
  - apply ty_cond_inv in Ht; auto. destruct Ht as (tc & g1 & tv & H1 & H2 & _).
    rewrite assigns_cond in Ha by assumption.
    apply orb_false_iff in Ha. destruct Ha as [Hx Ha]. apply orb_false_iff in Ha. destruct Ha as [Hc Hv].
    assert (Hxy : x <> y) by (intros ->; rewrite name_eqb_refl in Hx; discriminate).
    specialize (IHc _ _ _ s y H1 Hc).
    destruct o; try discriminate Co; cbn [eval].
    + destruct (eval cx s c) as [s1 cv|z s1]; cbn [res_state] in *; [|exact IHc].
      specialize (IHv _ _ _ s1 y H2 Hv).
      destruct (eval cx s1 v) as [s2 vv|z s2]; cbn [res_state] in *; [|congruence].
      destruct (cv =? 0); [congruence|]. rewrite assign_get_other by assumption. congruence.
    + destruct (eval cx s c) as [s1 cv|z s1]; cbn [res_state] in *; [|exact IHc].
      specialize (IHv _ _ _ s1 y H2 Hv).
      destruct (eval cx s1 v) as [s2 vv|z s2]; cbn [res_state] in *; [|congruence].
      destruct (cv =? 0); [|congruence]. rewrite assign_get_other by assumption. congruence.
    + destruct (eval cx s c) as [s1 cv|z s1]; cbn [res_state] in *; [|exact IHc].
      specialize (IHv _ _ _ s1 y H2 Hv).
      destruct (eval cx s1 v) as [s2 vv|z s2]; cbn [res_state] in *; [|congruence].
      rewrite assign_get_other by assumption. congruence.
  - apply ty_bind_inv in Ht; auto. destruct Ht as (g1 & H1 & _).
    rewrite assigns_bind in Ha. apply orb_false_iff in Ha. destruct Ha as [Hx Hv].
    assert (Hxy : x <> y) by (intros ->; rewrite name_eqb_refl in Hx; discriminate).
    rewrite eval_bind_plain by assumption.
    specialize (IHv _ _ _ s y H1 Hv).
    destruct (eval cx s v) as [s1 vv|z s1]; cbn [res_state] in *; [|exact IHv].
    rewrite assign_get_other by assumption. exact IHv.
  - apply ty_nest_inv in Ht. destruct Ht as (_ & g1 & H1 & H2).
    rewrite assigns_nest in Ha. apply orb_false_iff in Ha. destruct Ha as [Hl Hr].
    rewrite eval_nest.
    specialize (IHt _ _ _ s y H1 Hl).
    destruct (eval cx s (Sexp OBind t1 t2)) as [s1 a|z s1]; cbn [res_state] in *; [|exact IHt].
    specialize (IHv _ _ _ s1 y H2 Hr).
    destruct (eval cx s1 v) as [s2 b|z s2]; cbn [res_state] in *; [|congruence].
    destruct (bind_target (Sexp OBind t1 t2)) as [x|] eqn:Eb; cbn [res_state]; [|congruence].
    rewrite assign_get_other; [congruence|]. eapply bind_target_assigns; eauto.
  - apply ty_op_inv in Ht; auto. destruct Ht as (_ & tl & g1 & tr & H1 & H2).
    rewrite assigns_op in Ha by assumption. apply orb_false_iff in Ha. destruct Ha as [Hl Hr].
    rewrite eval_op by assumption.
    specialize (IHl _ _ _ s y H1 Hl).
    destruct (eval cx s l) as [s1 a|z s1]; cbn [res_state] in *; [|exact IHl].
    specialize (IHr _ _ _ s1 y H2 Hr).
    destruct (eval cx s1 r) as [s2 b|z s2]; cbn [res_state] in *; [|congruence].
    destruct (op_sem o a b); cbn [res_state]; congruence.
Qed.
