(* What the scope's entry list looks like after the declarations: for every report / control slot
   below the counter exactly the entry of the declaration that got it, whatever the names are.
   From this the declaration list that [load] hands to the source semantics is, name by name,
   the list of declarations of the program. *)
From Portus Require Export ScopeInv.
From Portus Require Import ScopeFacts TotalFacts.

Definition slot_pred (is_rep : bool) (k : N) (kv : name * reg) : bool :=
  match snd kv with
  | Report i _ _ => is_rep && (i =? k)
  | Control i _ _ => negb is_rep && (i =? k)
  | _ => false
  end.

Lemma find_slot_eq named is_rep k : find_slot named is_rep k = find (slot_pred is_rep k) named.
Proof. reflexivity. Qed.

Lemma find_insert_skip (p : name * reg -> bool) l n r : p (n, r) = false -> find p (rf_insert l n r) = find p l.
Proof.
  intros Hp. induction l as [|[k v] t IH]; cbn [rf_insert find].
  - rewrite Hp. reflexivity.
  - destruct (name_ltb k n); cbn [find]; [rewrite IH; reflexivity|rewrite Hp; reflexivity].
Qed.

Lemma find_insert_new (p : name * reg -> bool) l n r : p (n, r) = true -> (forall e, In e l -> p e = false) ->
  find p (rf_insert l n r) = Some (n, r).
Proof.
  intros Hp Hl. induction l as [|[k v] t IH]; cbn [rf_insert find].
  - rewrite Hp. reflexivity.
  - destruct (name_ltb k n); cbn [find].
    + rewrite (Hl (k, v) (or_introl eq_refl)). apply IH. intros e He. apply Hl. right. exact He.
    + rewrite Hp. reflexivity.
Qed.

Lemma in_insert l n r e : In e (rf_insert l n r) <-> e = (n, r) \/ In e l.
Proof.
  induction l as [|[k v] t IH]; cbn [rf_insert In]; [intuition congruence|].
  destruct (name_ltb k n); cbn [In]; [rewrite IH|]; intuition congruence.
Qed.

Definition is_rep_entry (kv : name * reg) : bool := match snd kv with Report _ _ _ => true | _ => false end.
Definition is_ctl_entry (kv : name * reg) : bool := match snd kv with Control _ _ _ => true | _ => false end.

Lemma filter_insert_length (p : name * reg -> bool) l n r :
  length (filter p (rf_insert l n r)) = (length (filter p l) + (if p (n, r) then 1 else 0))%nat.
Proof.
  induction l as [|[k v] t IH]; cbn [rf_insert filter].
  - destruct (p (n, r)); reflexivity.
  - destruct (name_ltb k n); cbn [filter].
    + destruct (p (k, v)); cbn [length]; rewrite IH; lia.
    + destruct (p (n, r)), (p (k, v)); cbn [length]; lia.
Qed.

(* entry-level bounds *)
Definition ebounds (sc : scope) : Prop :=
  forall x r, In (x, r) (sc_named sc) ->
    match r with
    | Report i _ _ => i < sc_nperm sc
    | Control i _ _ => i < sc_nctl sc
    | _ => True
    end.

Lemma declare_report_entries : forall ds sc sc', declare new_report ds sc = Ok sc' -> ebounds sc ->
  ebounds sc' /\ sc_nperm sc' = sc_nperm sc + N.of_nat (length ds) /\ sc_nctl sc' = sc_nctl sc /\
  (forall k v n t, nth_error ds k = Some (v, n, t) ->
     find_slot (sc_named sc') true (sc_nperm sc + N.of_nat k) = Some (n, Report (sc_nperm sc + N.of_nat k) t v)) /\
  (forall k, k < sc_nperm sc -> find_slot (sc_named sc') true k = find_slot (sc_named sc) true k) /\
  (forall k, find_slot (sc_named sc') false k = find_slot (sc_named sc) false k) /\
  length (filter is_rep_entry (sc_named sc')) = (length (filter is_rep_entry (sc_named sc)) + length ds)%nat /\
  length (filter is_ctl_entry (sc_named sc')) = length (filter is_ctl_entry (sc_named sc)).
Proof.
  induction ds as [|[[v n] t] r IH]; intros sc sc' H B; cbn [declare] in H.
  - inversion H; subst. cbn [length]. repeat split; auto; try lia.
    intros k v n t Hk. destruct k; discriminate.
  - unfold new_report in H. destruct (255 <=? sc_nperm sc) eqn:E; [discriminate|]. cbn [bind] in H.
    set (sc1 := mkScope (rf_insert (sc_named sc) n (Report (sc_nperm sc) t v)) (sc_nctl sc) (sc_nloc sc)
                        (sc_nperm sc + 1) (sc_ntmp sc)) in H.
    assert (B1 : ebounds sc1).
    { intros x rx Hin. cbn [sc1 sc_named] in Hin. apply in_insert in Hin. destruct Hin as [Hin|Hin].
      - inversion Hin; subst. cbn. lia.
      - specialize (B _ _ Hin). destruct rx; cbn in *; auto; lia. }
    destruct (IH sc1 sc' H B1) as (B' & Hp & Hc & Hget & Hlow & Hctl & Hcr & Hcc).
    cbn [sc1 sc_nperm sc_nctl sc_named] in Hp, Hc, Hget, Hlow, Hctl, Hcr, Hcc.
    split; [exact B'|]. split; [cbn [length]; lia|]. split; [exact Hc|]. split; [|split; [|split; [|split]]].
    + intros k v0 n0 t0 Hk. destruct k as [|k]; cbn [nth_error] in Hk.
      * inversion Hk; subst. rewrite N.add_0_r. rewrite Hlow by lia.
        rewrite find_slot_eq. apply find_insert_new.
        -- cbn. rewrite N.eqb_refl. reflexivity.
        -- intros [x rx] Hin. specialize (B _ _ Hin). unfold slot_pred. cbn [snd].
           destruct rx; auto. cbn. apply N.eqb_neq. lia.
      * specialize (Hget k v0 n0 t0 Hk).
        replace (sc_nperm sc + N.of_nat (S k)) with (sc_nperm sc + 1 + N.of_nat k) by lia. exact Hget.
    + intros k Hk. rewrite Hlow by lia. rewrite !find_slot_eq. apply find_insert_skip.
      cbn. apply N.eqb_neq. lia.
    + intros k. rewrite Hctl. rewrite !find_slot_eq. apply find_insert_skip. reflexivity.
    + rewrite Hcr, filter_insert_length. cbn [is_rep_entry snd length]. lia.
    + rewrite Hcc, filter_insert_length. cbn [is_ctl_entry snd]. lia.
Qed.

Lemma declare_control_entries : forall ds sc sc', declare new_control ds sc = Ok sc' -> ebounds sc ->
  ebounds sc' /\ sc_nctl sc' = sc_nctl sc + N.of_nat (length ds) /\ sc_nperm sc' = sc_nperm sc /\
  (forall k v n t, nth_error ds k = Some (v, n, t) ->
     find_slot (sc_named sc') false (sc_nctl sc + N.of_nat k) = Some (n, Control (sc_nctl sc + N.of_nat k) t v)) /\
  (forall k, k < sc_nctl sc -> find_slot (sc_named sc') false k = find_slot (sc_named sc) false k) /\
  (forall k, find_slot (sc_named sc') true k = find_slot (sc_named sc) true k) /\
  length (filter is_ctl_entry (sc_named sc')) = (length (filter is_ctl_entry (sc_named sc)) + length ds)%nat /\
  length (filter is_rep_entry (sc_named sc')) = length (filter is_rep_entry (sc_named sc)).
Proof.
  induction ds as [|[[v n] t] r IH]; intros sc sc' H B; cbn [declare] in H.
  - inversion H; subst. cbn [length]. repeat split; auto; try lia.
    intros k v n t Hk. destruct k; discriminate.
  - unfold new_control in H. destruct (255 <=? sc_nctl sc) eqn:E; [discriminate|]. cbn [bind] in H.
    set (sc1 := mkScope (rf_insert (sc_named sc) n (Control (sc_nctl sc) t v)) (sc_nctl sc + 1) (sc_nloc sc)
                        (sc_nperm sc) (sc_ntmp sc)) in H.
    assert (B1 : ebounds sc1).
    { intros x rx Hin. cbn [sc1 sc_named] in Hin. apply in_insert in Hin. destruct Hin as [Hin|Hin].
      - inversion Hin; subst. cbn. lia.
      - specialize (B _ _ Hin). destruct rx; cbn in *; auto; lia. }
    destruct (IH sc1 sc' H B1) as (B' & Hc & Hp & Hget & Hlow & Hrep & Hcc & Hcr).
    cbn [sc1 sc_nperm sc_nctl sc_named] in Hp, Hc, Hget, Hlow, Hrep, Hcr, Hcc.
    split; [exact B'|]. split; [cbn [length]; lia|]. split; [exact Hp|]. split; [|split; [|split; [|split]]].
    + intros k v0 n0 t0 Hk. destruct k as [|k]; cbn [nth_error] in Hk.
      * inversion Hk; subst. rewrite N.add_0_r. rewrite Hlow by lia.
        rewrite find_slot_eq. apply find_insert_new.
        -- cbn. rewrite N.eqb_refl. reflexivity.
        -- intros [x rx] Hin. specialize (B _ _ Hin). unfold slot_pred. cbn [snd].
           destruct rx; auto. cbn. apply N.eqb_neq. lia.
      * specialize (Hget k v0 n0 t0 Hk).
        replace (sc_nctl sc + N.of_nat (S k)) with (sc_nctl sc + 1 + N.of_nat k) by lia. exact Hget.
    + intros k Hk. rewrite Hlow by lia. rewrite !find_slot_eq. apply find_insert_skip.
      cbn. apply N.eqb_neq. lia.
    + intros k. rewrite Hrep. rewrite !find_slot_eq. apply find_insert_skip. reflexivity.
    + rewrite Hcc, filter_insert_length. cbn [is_ctl_entry snd length]. lia.
    + rewrite Hcr, filter_insert_length. cbn [is_rep_entry snd]. lia.
Qed.

Lemma ebounds_new : ebounds scope_new.
Proof.
  intros x r Hin. change (sc_named scope_new) with entries_new in Hin.
  assert (H : Forall (fun kv : name * reg => match snd kv with Report _ _ _ | Control _ _ _ => False | _ => True end) entries_new)
    by (vm_compute; repeat (constructor; [exact I|]); constructor).
  rewrite Forall_forall in H. specialize (H _ Hin). cbn in H. destruct r; auto; contradiction.
Qed.

Lemma flat_map_seq_found {A} (f : nat -> option A) (g : nat -> A) n :
  (forall k, (k < n)%nat -> f k = Some (g k)) ->
  flat_map (fun k => match f k with Some a => [a] | None => [] end) (seq 0 n) = map g (seq 0 n).
Proof.
  intros H. assert (G : forall s, (forall k, In k (seq s n) -> f k = Some (g k)) ->
                      flat_map (fun k => match f k with Some a => [a] | None => [] end) (seq s n) = map g (seq s n)).
  { clear H. induction n as [|m IH]; intros s Hs; [reflexivity|]. cbn [seq flat_map map].
    rewrite (Hs s (or_introl eq_refl)). cbn [app]. f_equal. apply IH. intros k Hk. apply Hs. right. exact Hk. }
  apply G. intros k Hk. apply in_seq in Hk. apply H. lia.
Qed.

(* the declarations of a program, as its scope's entries in slot order *)
Theorem entries_of_declarations reports controls sc1 sc0 :
  declare new_report reports scope_new = Ok sc1 -> declare new_control controls sc1 = Ok sc0 ->
  entries_in_order (sc_named sc0) (N.to_nat (sc_nperm sc0)) (N.to_nat (sc_nctl sc0)) =
  map (fun k => match nth_error reports k with Some (v, n, t) => (n, Report (N.of_nat k) t v) | None => ([], RNone) end) (seq 0 (length reports)) ++
  map (fun k => match nth_error controls k with Some (v, n, t) => (n, Control (N.of_nat k) t v) | None => ([], RNone) end) (seq 0 (length controls)) /\
  sc_nperm sc0 = N.of_nat (length reports) /\ sc_nctl sc0 = N.of_nat (length controls) /\
  length (filter is_rep_entry (sc_named sc0)) = length reports /\ ebounds sc0.
Proof.
  intros H1 H2.
  destruct (declare_report_entries _ _ _ H1 ebounds_new) as (B1 & Hp1 & Hc1 & Hg1 & _ & _ & Hcr1 & _).
  destruct (declare_control_entries _ _ _ H2 B1) as (B2 & Hc2 & Hp2 & Hg2 & _ & Hr2 & _ & Hcr2).
  change (sc_nperm scope_new) with 0 in *. change (sc_nctl scope_new) with 0 in *.
  assert (Hnp : sc_nperm sc0 = N.of_nat (length reports)) by lia.
  assert (Hnc : sc_nctl sc0 = N.of_nat (length controls)) by lia.
  split; [|split; [exact Hnp|split; [exact Hnc|split; [|exact B2]]]].
  - unfold entries_in_order. rewrite Hnp, Hnc, !Nat2N.id. f_equal.
    + apply flat_map_seq_found. intros k Hk.
      destruct (nth_error reports k) as [[[v n] t]|] eqn:E; [|apply nth_error_None in E; lia].
      rewrite Hr2. specialize (Hg1 k v n t E). rewrite N.add_0_l in Hg1. exact Hg1.
    + apply flat_map_seq_found. intros k Hk.
      destruct (nth_error controls k) as [[[v n] t]|] eqn:E; [|apply nth_error_None in E; lia].
      specialize (Hg2 k v n t E). rewrite Hc1, N.add_0_l in Hg2. exact Hg2.
  - rewrite Hcr2, Hcr1. reflexivity.
Qed.

(* where the entries of a scope after declarations come from *)
Lemma declare_report_in : forall ds sc sc', declare new_report ds sc = Ok sc' ->
  forall e, In e (sc_named sc') -> In e (sc_named sc) \/ exists v n t i, e = (n, Report i t v) /\ In (v, n, t) ds.
Proof.
  induction ds as [|[[v n] t] r IH]; intros sc sc' H e He; cbn [declare] in H.
  - inversion H; subst. left. exact He.
  - unfold new_report in H. destruct (255 <=? sc_nperm sc); [discriminate|]. cbn [bind] in H.
    destruct (IH _ _ H e He) as [Hin|(v0 & n0 & t0 & i0 & -> & Hin)].
    + cbn [sc_named] in Hin. apply in_insert in Hin. destruct Hin as [->|Hin]; [|left; exact Hin].
      right. exists v, n, t, (sc_nperm sc). split; [reflexivity|left; reflexivity].
    + right. exists v0, n0, t0, i0. split; [reflexivity|right; exact Hin].
Qed.

Lemma declare_control_in : forall ds sc sc', declare new_control ds sc = Ok sc' ->
  forall e, In e (sc_named sc') -> In e (sc_named sc) \/ exists v n t i, e = (n, Control i t v) /\ In (v, n, t) ds.
Proof.
  induction ds as [|[[v n] t] r IH]; intros sc sc' H e He; cbn [declare] in H.
  - inversion H; subst. left. exact He.
  - unfold new_control in H. destruct (255 <=? sc_nctl sc); [discriminate|]. cbn [bind] in H.
    destruct (IH _ _ H e He) as [Hin|(v0 & n0 & t0 & i0 & -> & Hin)].
    + cbn [sc_named] in Hin. apply in_insert in Hin. destruct Hin as [->|Hin]; [|left; exact Hin].
      right. exists v, n, t, (sc_nctl sc). split; [reflexivity|left; reflexivity].
    + right. exists v0, n0, t0, i0. split; [reflexivity|right; exact Hin].
Qed.

Lemma nodup_names_spec l : nodup_names l = true -> NoDup l.
Proof.
  induction l as [|x r IH]; cbn [nodup_names]; intros H; [constructor|].
  apply andb_true_iff in H. destruct H as [H1 H2]. apply negb_true_iff in H1.
  constructor; [|apply IH; exact H2].
  intros Hin. assert (existsb (name_eqb x) r = true); [|congruence].
  apply existsb_exists. exists x. split; [exact Hin|apply name_eqb_refl].
Qed.

(* the DEF preamble, entry by entry *)
Definition def_of_reg (r : reg) : option instr :=
  match r with
  | Report _ (TNum (Some n)) _ | Control _ (TNum (Some n)) _ => Some (mkInstr r ODef r (ImmNum n))
  | Report _ (TBool (Some b)) _ | Control _ (TBool (Some b)) _ => Some (mkInstr r ODef r (ImmBool b))
  | _ => None
  end.

Lemma def_instrs_flat l :
  def_instrs l = flat_map (fun kv : name * reg => match def_of_reg (snd kv) with Some i => [i] | None => [] end) l.
Proof.
  induction l as [|[x r] t IH]; [reflexivity|]. cbn [def_instrs flat_map snd]. rewrite <- IH.
  destruct r as [j ty vol|n|b|j ty|j ty|j ty|j ty vol|j ty|]; try reflexivity; destruct ty as [[b|]|s|[n|]|]; reflexivity.
Qed.

Lemma def_instrs_in l i : In i (def_instrs l) <-> exists x r, In (x, r) l /\ def_of_reg r = Some i.
Proof.
  rewrite def_instrs_flat, in_flat_map. split.
  - intros ([x r] & Hin & Hi). cbn [snd] in Hi. destruct (def_of_reg r) as [i0|] eqn:E; [|destruct Hi].
    destruct Hi as [<-|[]]. eauto.
  - intros (x & r & Hin & Hd). exists (x, r). split; [exact Hin|]. cbn [snd]. rewrite Hd. left. reflexivity.
Qed.
