(* Facts about the source semantics alone: what init_all / reset_volatile leave in the
   environment, name by name, and that every value stays a 64-bit value when the inputs are. *)
From Portus Require Export ExprShape.

(* ---------- initialisation and reset, pointwise ---------- *)

Lemma init_all_other ds : forall e x, (forall d, In d ds -> sd_name d <> x \/ sd_init d = None) ->
  env_get (init_all e ds) x = env_get e x.
Proof.
  induction ds as [|d t IH]; intros e x H; cbn [init_all]; [reflexivity|].
  rewrite IH by (intros d' Hd'; apply H; right; exact Hd').
  destruct (H d (or_introl eq_refl)) as [Hn| ->]; [|reflexivity].
  destruct (sd_init d); [apply env_get_set_other; exact Hn|reflexivity].
Qed.

Lemma init_all_in ds : forall e d v, NoDup (map sd_name ds) -> In d ds -> sd_init d = Some v ->
  env_get (init_all e ds) (sd_name d) = init_value v.
Proof.
  induction ds as [|d0 t IH]; intros e d v Hnd Hin Hv; [destruct Hin|].
  cbn [map] in Hnd. inversion Hnd as [|? ? Hni Hnd']; subst. cbn [init_all].
  destruct Hin as [->|Hin].
  - rewrite Hv. rewrite init_all_other; [apply env_get_set_same|].
    intros d' Hd'. left. intros E. apply Hni. rewrite <- E. apply in_map. exact Hd'.
  - apply IH; auto.
Qed.

Lemma reset_volatile_other ds : forall e x,
  (forall d, In d ds -> sd_name d <> x \/ sd_init d = None \/ sd_vol d = false) ->
  env_get (reset_volatile e ds) x = env_get e x.
Proof.
  induction ds as [|d t IH]; intros e x H; cbn [reset_volatile]; [reflexivity|].
  rewrite IH by (intros d' Hd'; apply H; right; exact Hd').
  destruct (H d (or_introl eq_refl)) as [Hn|[-> | Hv]]; [|reflexivity|].
  - destruct (sd_init d); [|reflexivity]. destruct (sd_vol d); [apply env_get_set_other; exact Hn|reflexivity].
  - rewrite Hv. destruct (sd_init d); reflexivity.
Qed.

Lemma reset_volatile_in ds : forall e d v, NoDup (map sd_name ds) -> In d ds -> sd_init d = Some v -> sd_vol d = true ->
  env_get (reset_volatile e ds) (sd_name d) = init_value v.
Proof.
  induction ds as [|d0 t IH]; intros e d v Hnd Hin Hv Hvol; [destruct Hin|].
  cbn [map] in Hnd. inversion Hnd as [|? ? Hni Hnd']; subst. cbn [reset_volatile].
  destruct Hin as [->|Hin].
  - rewrite Hv, Hvol. rewrite reset_volatile_other; [apply env_get_set_same|].
    intros d' Hd'. left. intros E. apply Hni. rewrite <- E. apply in_map. exact Hd'.
  - apply IH; auto.
Qed.

(* ---------- values stay 64-bit values ---------- *)

Definition prims_bounded (p : prims) : Prop :=
  p_bytes_acked p < W64 /\ p_packets_acked p < W64 /\ p_bytes_misordered p < W64 /\ p_packets_misordered p < W64 /\
  p_ecn_bytes p < W64 /\ p_ecn_packets p < W64 /\ p_lost_pkts_sample p < W64 /\ p_was_timeout p < W64 /\
  p_rtt_sample_us p < W64 /\ p_rate_outgoing p < W64 /\ p_rate_incoming p < W64 /\ p_bytes_in_flight p < W64 /\
  p_packets_in_flight p < W64 /\ p_snd_cwnd p < W64 /\ p_snd_rate p < W64 /\ p_bytes_pending p < W64.

Definition env_bounded (e : env) : Prop := forall x, env_get e x < W64.

Lemma env_bounded_set e x v : env_bounded e -> v < W64 -> env_bounded (env_set e x v).
Proof.
  intros He Hv y. destruct (name_eqb x y) eqn:E.
  - apply name_eqb_eq in E. subst y. rewrite env_get_set_same. exact Hv.
  - rewrite env_get_set_other; [apply He|]. intros ->. rewrite name_eqb_refl in E. discriminate.
Qed.

Lemma assign_bounded cx s x v : env_bounded (s_env s) -> v < W64 -> env_bounded (s_env (assign cx s x v)).
Proof. intros He Hv. unfold assign. destruct (name_eqb x micros_name); cbn; apply env_bounded_set; auto. Qed.

Lemma wrap64_lt x : wrap64 x < W64.
Proof. unfold wrap64. apply N.mod_lt. unfold W64. lia. Qed.

Lemma read_prim_bounded k z p i : prims_bounded p -> read_prim k z p i < W64.
Proof.
  intros (H1 & H2 & H3 & H4 & H5 & H6 & H7 & H8 & H9 & H10 & H11 & H12 & H13 & H14 & H15 & H16).
  unfold read_prim.
  repeat match goal with |- context [if ?c then _ else _] => destruct c end; auto using wrap64_lt;
    unfold INF32, W64 in *; lia.
Qed.

Lemma op_sem_bounded o a b v : a < W64 -> b < W64 -> op_sem o a b = inr v -> v < W64.
Proof.
  intros Ha Hb. unfold op_sem.
  destruct o; intros H;
    repeat match type of H with context [if ?c then _ else _] => destruct c end;
    inversion H; subst; auto using wrap64_lt; try (unfold W64; lia).
  - (* div *) apply N.le_lt_trans with a; [|exact Ha].
    destruct (N.eq_dec b 0) as [->|Hb0]; [destruct a; cbn; lia|apply N.div_le_upper_bound; [exact Hb0|nia]].
  - (* wrapped max *)
    unfold maxwrap. repeat match goal with |- context [if ?c then _ else _] => destruct c end; auto;
      (apply N.lt_trans with W32; [apply N.mod_lt; unfold W32; lia|unfold W32, W64; lia]).
Qed.

Lemma ewma_bounded a b c : c < W64 -> ewma a b c < W64.
Proof.
  intros Hc. unfold ewma. destruct (b =? 0); [exact Hc|].
  apply N.le_lt_trans with (wrap64 (wrap64 (a * b) + wrap64 (wrap64 (10 + W64 - a) * c))); [|apply wrap64_lt].
  apply N.div_le_upper_bound; [lia|]. set (q := wrap64 (wrap64 (a * b) + wrap64 (wrap64 (10 + W64 - a) * c))). lia.
Qed.

Lemma lit_value_bounded n : lit_ok n = true -> lit_value n < W64.
Proof.
  unfold lit_ok, lit_value. intros H. destruct (n =? 18446744073709551615); [unfold INF32, W64; lia|].
  apply orb_true_iff in H. destruct H as [H|H]; [apply N.ltb_lt in H; unfold W64; lia|discriminate].
Qed.

Lemma eval_bounded cx e : prims_bounded (cx_prims cx) -> forall g t g' s, ty_expr g e = Some (t, g') ->
  env_bounded (s_env s) ->
  env_bounded (s_env (res_state (eval cx s e))) /\
  match eval cx s e with Val _ v => v < W64 | Fault _ _ => True end.
Proof.
  intros Hp.
  induction e as [p|c| |x o c v Co IHc IHv|x v Pl IHv|t1 t2 v IHt IHv|o l r G IHl IHr] using expr_shape_ind; intros g t g' s Ht Hb.
  - destruct p as [b|x|n]; cbn [eval ty_expr] in *.
    + split; [exact Hb|]. destruct b; unfold W64; lia.
    + destruct (primitive_index x); cbn [res_state]; (split; [exact Hb|]); [apply read_prim_bounded; exact Hp|apply Hb].
    + destruct (lit_ok n) eqn:El; [|discriminate Ht]. split; [exact Hb|]. apply lit_value_bounded. exact El.
  - discriminate Ht.
  - discriminate Ht.
  - apply ty_cond_inv in Ht; auto. destruct Ht as (tc & g1 & tv & H1 & H2 & _).
    specialize (IHc _ _ _ s H1 Hb).
    destruct o; try discriminate Co; cbn [eval].
    + destruct (eval cx s c) as [s1 cv|z s1]; cbn [res_state] in *; [|exact IHc]. destruct IHc as [B1 _].
      specialize (IHv _ _ _ s1 H2 B1).
      destruct (eval cx s1 v) as [s2 vv|z s2]; cbn [res_state] in *; [|exact IHv]. destruct IHv as [B2 V2].
      destruct (cv =? 0); cbn [res_state]; split; auto using assign_bounded.
      apply assign_bounded; auto.
    + destruct (eval cx s c) as [s1 cv|z s1]; cbn [res_state] in *; [|exact IHc]. destruct IHc as [B1 _].
      specialize (IHv _ _ _ s1 H2 B1).
      destruct (eval cx s1 v) as [s2 vv|z s2]; cbn [res_state] in *; [|exact IHv]. destruct IHv as [B2 V2].
      destruct (cv =? 0); cbn [res_state]; split; auto using assign_bounded.
      apply assign_bounded; auto.
    + destruct (eval cx s c) as [s1 av|z s1]; cbn [res_state] in *; [|exact IHc]. destruct IHc as [B1 _].
      specialize (IHv _ _ _ s1 H2 B1).
      destruct (eval cx s1 v) as [s2 bv|z s2]; cbn [res_state] in *; [|exact IHv]. destruct IHv as [B2 V2].
      assert (B3 : env_bounded (s_env (assign cx s2 x (ewma av (env_get (s_env s2) x) bv)))) by (apply assign_bounded; auto using ewma_bounded).
      split; [exact B3|apply B3].
  - apply ty_bind_inv in Ht; auto. destruct Ht as (g1 & H1 & _).
    rewrite eval_bind_plain by exact Pl. specialize (IHv _ _ _ s H1 Hb).
    destruct (eval cx s v) as [s1 vv|z s1]; cbn [res_state] in *; [|exact IHv]. destruct IHv as [B1 V1].
    split; [apply assign_bounded; auto|exact V1].
  - apply ty_nest_inv in Ht. destruct Ht as (_ & g1 & H1 & H2).
    rewrite eval_nest. specialize (IHt _ _ _ s H1 Hb).
    destruct (eval cx s (Sexp OBind t1 t2)) as [s1 a|z s1]; cbn [res_state] in *; [|exact IHt]. destruct IHt as [B1 _].
    specialize (IHv _ _ _ s1 H2 B1).
    destruct (eval cx s1 v) as [s2 vv|z s2]; cbn [res_state] in *; [|exact IHv]. destruct IHv as [B2 V2].
    destruct (bind_target (Sexp OBind t1 t2)); cbn [res_state]; split; auto. apply assign_bounded; auto.
  - apply ty_op_inv in Ht; auto. destruct Ht as (_ & tl & g1 & tr & H1 & H2).
    rewrite eval_op by exact G. specialize (IHl _ _ _ s H1 Hb).
    destruct (eval cx s l) as [s1 a|z s1]; cbn [res_state] in *; [|exact IHl]. destruct IHl as [B1 V1].
    specialize (IHr _ _ _ s1 H2 B1).
    destruct (eval cx s1 r) as [s2 b|z s2]; cbn [res_state] in *; [|exact IHr]. destruct IHr as [B2 V2].
    destruct (op_sem o a b) as [ze|v0] eqn:Eo; cbn [res_state]; split; auto.
    exact (op_sem_bounded o a b v0 V1 V2 Eo).
Qed.

Lemma eval_body_bounded cx es : prims_bounded (cx_prims cx) -> forall g g' s, ty_body g es = Some g' ->
  env_bounded (s_env s) ->
  env_bounded (s_env (match eval_body cx s es with inl (_, s') => s' | inr s' => s' end)).
Proof.
  intros Hp. induction es as [|e r IH]; intros g g' s Ht Hb; cbn [eval_body]; [exact Hb|].
  destruct e as [p|c|o l r0|].
  - cbn [ty_body] in Ht. destruct (ty_expr g (Atom p)) as [[t1 g1]|] eqn:E1; [|discriminate Ht].
    destruct (eval_bounded cx _ Hp _ _ _ s E1 Hb) as [B1 _].
    destruct (eval cx s (Atom p)) as [s1 v|z s1]; cbn [res_state] in B1; [eapply IH; eauto|exact B1].
  - cbn [ty_body] in Ht. cbn [eval].
    destruct c; cbn; eapply IH; eauto; cbn; apply env_bounded_set; auto; unfold W64; lia.
  - cbn [ty_body] in Ht. destruct (ty_expr g (Sexp o l r0)) as [[t1 g1]|] eqn:E1; [|discriminate Ht].
    destruct (eval_bounded cx _ Hp _ _ _ s E1 Hb) as [B1 _].
    destruct (eval cx s (Sexp o l r0)) as [s1 v|z s1]; cbn [res_state] in B1; [eapply IH; eauto|exact B1].
  - cbn [ty_body] in Ht. cbn [eval]. eapply IH; eauto.
Qed.

Lemma ty_cond_expr g e g1 : ty_cond g e = Some g1 -> exists t, ty_expr g e = Some (t, g1).
Proof.
  destruct e as [[b|x|n]|c|o l r|]; cbn [ty_cond]; intros H; try discriminate H.
  - inversion H; subst. exists VBool. reflexivity.
  - destruct (is_cmp o || is_logic o); [|discriminate H].
    destruct (ty_expr g (Sexp o l r)) as [[[|] g2]|]; try discriminate H. inversion H; subst. eauto.
Qed.

Lemma run_events_bounded cx evs : prims_bounded (cx_prims cx) -> forall g s, ty_events g evs = true ->
  env_bounded (s_env s) ->
  env_bounded (s_env (match run_events cx s evs with inl (_, s') => s' | inr s' => s' end)).
Proof.
  intros Hp. induction evs as [|ev r IH]; intros g s Ht Hb; cbn [run_events]; [exact Hb|].
  cbn [ty_events] in Ht.
  destruct (ty_cond g (se_cond ev)) as [g1|] eqn:Tc; [|discriminate Ht].
  destruct (ty_body g1 (se_body ev)) as [g2|] eqn:Tb; [|discriminate Ht].
  destruct (ty_cond_expr _ _ _ Tc) as (t & Te).
  destruct (eval_bounded cx _ Hp _ _ _ s Te Hb) as [B1 V1].
  destruct (eval cx s (se_cond ev)) as [s1 cv|z s1]; cbn [res_state] in *; [|exact B1].
  assert (B2 : env_bounded (s_env (mkS (env_set (s_env s1) flag_n cv) (s_tz s1)))) by (cbn; apply env_bounded_set; auto).
  destruct (cv =? 0).
  - match goal with |- context [if ?c then _ else _] => destruct c end; [exact B2|eapply IH; eauto].
  - pose proof (eval_body_bounded cx _ Hp _ _ _ Tb B2) as B3.
    destruct (eval_body cx (mkS (env_set (s_env s1) flag_n cv) (s_tz s1)) (se_body ev)) as [[z s3]|s3]; [exact B3|].
    destruct (negb (env_get (s_env s3) flag_n =? 0) && (env_get (s_env s3) cont_n =? 0)); [exact B3|eapply IH; eauto].
Qed.
