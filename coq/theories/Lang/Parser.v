(* Character-level model of the nom parsers in src/lang/ast.rs and src/lang/prog.rs.
   nom 7 "complete" combinator semantics: a recoverable error (Err::Error) makes alt/opt/many
   try something else; a failure (Err::Failure) aborts the whole parse; many0/many1 report an
   error when an iteration succeeds without consuming input.  Recursion is on explicit fuel;
   PFuel is a distinct outcome that the theorems exclude. *)
From Portus Require Export Ast.

Inductive pres (A : Type) :=
| POk (a : A) (rest : list N)
| PErr          (* nom::Err::Error: recoverable *)
| PFail         (* nom::Err::Failure *)
| PFuel.
Arguments POk {A} a rest.
Arguments PErr {A}.
Arguments PFail {A}.
Arguments PFuel {A}.

Definition is_ws (c : N) : bool := (c =? 32) || (c =? 9) || (c =? 13) || (c =? 10).
Definition is_digit (c : N) : bool := (48 <=? c) && (c <=? 57).
Definition is_alnum_byte (b : N) : bool :=
  ((65 <=? b) && (b <=? 90)) || ((97 <=? b) && (b <=? 122)) || is_digit b.
(* is_alphanumeric(u as u8) || u == '.' || u == '_' : the cast keeps the low byte only *)
Definition is_name_char (c : N) : bool := is_alnum_byte (c mod 256) || (c =? 46) || (c =? 95).

Fixpoint skip_ws (i : list N) : list N :=
  match i with
  | c :: r => if is_ws c then skip_ws r else i
  | [] => []
  end.

(* multispace1: at least one *)
Definition ws1 (i : list N) : pres unit :=
  match i with
  | c :: r => if is_ws c then POk tt (skip_ws r) else PErr
  | [] => PErr
  end.

Fixpoint tag (t i : list N) : pres unit :=
  match t with
  | [] => POk tt i
  | x :: t' => match i with
               | y :: i' => if x =? y then tag t' i' else PErr
               | [] => PErr
               end
  end.

Fixpoint take_while (p : N -> bool) (i : list N) : list N * list N :=
  match i with
  | c :: r => if p c then let '(a, b) := take_while p r in (c :: a, b) else ([], i)
  | [] => ([], [])
  end.

(* ---- operators: the ordered choice of `op` ---- *)
Definition op_table : list (list N * op) :=
  [ (lit "+", OAdd); (lit "add", OAdd); (lit "&&", OAnd); (lit "and", OAnd);
    (lit ":=", OBind); (lit "bind", OBind); (lit "if", OIf);
    (lit "/", ODiv); (lit "div", ODiv); (lit "==", OEquiv); (lit "eq", OEquiv);
    (lit "ewma", OEwma); (lit ">", OGt); (lit "gt", OGt); (lit "<", OLt); (lit "lt", OLt);
    (lit "wrapped_max", OMaxWrap); (lit "max", OMax); (lit "min", OMin);
    (lit "*", OMul); (lit "mul", OMul); (lit "||", OOr); (lit "or", OOr);
    (lit "!if", ONotIf); (lit "-", OSub); (lit "sub", OSub) ].

(* the remainder after a literal prefix, if it is one *)
Fixpoint strip_prefix (t i : list N) : option (list N) :=
  match t with
  | [] => Some i
  | x :: t' => match i with
               | y :: i' => if x =? y then strip_prefix t' i' else None
               | [] => None
               end
  end.

(* alt((tag(t1) -> a1, tag(t2) -> a2, ...)) *)
Fixpoint alt_tags {A} (tbl : list (list N * A)) (i : list N) : pres A :=
  match tbl with
  | [] => PErr
  | (t, a) :: r => match strip_prefix t i with
                   | Some rest => POk a rest
                   | None => alt_tags r i
                   end
  end.

Definition p_op (i : list N) : pres op := alt_tags op_table i.

(* ---- atoms ---- *)
Definition U64_LIMIT : N := 18446744073709551616.

Fixpoint digits_value (acc : N) (ds : list N) : N :=
  match ds with
  | [] => acc
  | d :: r => digits_value (acc * 10 + (d - 48)) r
  end.

(* num: digit1, then u64 parsing.  A numeral that does not fit 64 bits is a hard failure
   (it must not fall through to the name parser). *)
Definition p_num (i : list N) : pres N :=
  let '(ds, rest) := take_while is_digit i in
  match ds with
  | [] => PErr
  | _ => let v := digits_value 0 ds in
         if v <? U64_LIMIT then POk v rest else PFail
  end.

Definition starts_dunder (s : list N) : bool :=
  match s with 95 :: 95 :: _ => true | _ => false end.

Definition p_name (i : list N) : pres name :=
  let '(s, rest) := take_while is_name_char i in
  match s with
  | [] => PErr
  | _ => if starts_dunder s then PErr else POk s rest
  end.

Definition p_atom (i : list N) : pres expr :=
  match tag (lit "true") i with
  | POk _ r => POk (Atom (PBool true)) r
  | _ =>
    match tag (lit "false") i with
    | POk _ r => POk (Atom (PBool false)) r
    | _ =>
      match tag (lit "+infinity") i with
      | POk _ r => POk (Atom (PNum U64_MAX)) r
      | _ =>
        match p_num i with
        | POk n r => POk (Atom (PNum n)) r
        | PFail => PFail
        | PFuel => PFuel
        | PErr =>
          match p_name i with
          | POk s r => POk (Atom (PName s)) r
          | PErr => PErr
          | PFail => PFail
          | PFuel => PFuel
          end
        end
      end
    end
  end.

Definition p_command (i : list N) : pres expr :=
  match tag (lit "(") i with
  | POk _ r1 =>
    let r2 := skip_ws r1 in
    match alt_tags [(lit "fallthrough", Fallthrough); (lit "report", CReport)] r2 with
    | POk c r3 =>
      match tag (lit ")") (skip_ws r3) with
      | POk _ r4 => POk (Cmd c) r4
      | _ => PErr
      end
    | _ => PErr
    end
  | _ => PErr
  end.

(* take_until("\n"): the text before the first newline; an error when there is none *)
Fixpoint until_newline (i : list N) : option (list N) :=
  match i with
  | [] => None
  | c :: r => if c =? 10 then Some i else until_newline r
  end.

Definition p_comment (i : list N) : pres expr :=
  match tag (lit "#") i with
  | POk _ r => match until_newline r with
               | Some rest => POk ENone rest
               | None => PErr
               end
  | _ => PErr
  end.

(* check_expr: a conditional may not be the left operand of anything but bind *)
Definition check_expr (o : op) (l r : expr) : option expr :=
  match o with
  | OBind => Some (Sexp o l r)
  | _ => match l with
         | Sexp OIf _ _ | Sexp ONotIf _ _ => None
         | _ => Some (Sexp o l r)
         end
  end.

(* sexp, given the parser to use for the two operands *)
Definition p_sexp_with (rec : list N -> pres expr) (i : list N) : pres expr :=
  match tag (lit "(") i with
  | POk _ r1 =>
    match p_op (skip_ws r1) with
    | POk o r2 =>
      match rec (skip_ws r2) with
      | POk l r3 =>
        match rec (skip_ws r3) with
        | POk r r4 =>
          match check_expr o l r with
          | Some e =>
            match tag (lit ")") (skip_ws r4) with
            | POk _ r5 => POk e r5
            | _ => PErr
            end
          | None => PErr
          end
        | PErr => PErr | PFail => PFail | PFuel => PFuel
        end
      | PErr => PErr | PFail => PFail | PFuel => PFuel
      end
    | _ => PErr
    end
  | _ => PErr
  end.

(* expr = delimited(multispace0, alt((comment, sexp, command, atom)), multispace0) *)
Fixpoint p_expr (fuel : nat) (i : list N) : pres expr :=
  match fuel with
  | O => PFuel
  | S f =>
    let i1 := skip_ws i in
    let finish (r : pres expr) : pres expr :=
        match r with POk e rest => POk e (skip_ws rest) | x => x end in
    match p_comment i1 with
    | POk e r => POk e (skip_ws r)
    | _ =>
      match p_sexp_with (p_expr f) i1 with
      | POk e r => POk e (skip_ws r)
      | PFail => PFail
      | PFuel => PFuel
      | PErr =>
        match p_command i1 with
        | POk e r => POk e (skip_ws r)
        | _ => finish (p_atom i1)
        end
      end
    end
  end.

(* many0 / many1 with nom's "parser must consume" check *)
Fixpoint many0 {A} (p : list N -> pres A) (fuel : nat) (i : list N) : pres (list A) :=
  match fuel with
  | O => PFuel
  | S f =>
    match p i with
    | PErr => POk [] i
    | PFail => PFail
    | PFuel => PFuel
    | POk a rest =>
      if Nat.eqb (length rest) (length i) then PErr
      else match many0 p f rest with
           | POk l r2 => POk (a :: l) r2
           | PErr => PErr | PFail => PFail | PFuel => PFuel
           end
    end
  end.

Definition many1 {A} (p : list N -> pres A) (fuel : nat) (i : list N) : pres (list A) :=
  match p i with
  | PErr => PErr
  | PFail => PFail
  | PFuel => PFuel
  | POk a rest =>
    match many0 p fuel rest with
    | POk l r2 => POk (a :: l) r2
    | PErr => PErr | PFail => PFail | PFuel => PFuel
    end
  end.

Definition p_exprs (fuel : nat) (i : list N) : pres (list expr) := many1 (p_expr fuel) fuel i.

(* ---- declarations ---- *)

Definition atom_type (e : expr) : option ty :=
  match e with
  | Atom (PBool b) => Some (TBool (Some b))
  | Atom (PName s) => Some (TName s)
  | Atom (PNum n) => Some (TNum (Some n))
  | _ => None
  end.

(* opt(delimited(multispace0, tag("volatile"), multispace1)) *)
Definition p_volatile (i : list N) : bool * list N :=
  match tag (lit "volatile") (skip_ws i) with
  | POk _ r => match ws1 r with
               | POk _ r2 => (true, r2)
               | _ => (false, i)
               end
  | _ => (false, i)
  end.

Definition p_decl (i : list N) : pres (bool * name * ty) :=
  match tag (lit "(") (skip_ws i) with
  | POk _ r1 =>
    let '(vol, r2) := p_volatile (skip_ws r1) in
    match p_name r2 with
    | POk n r3 =>
      match p_atom (skip_ws r3) with
      | POk e r4 =>
        match atom_type e with
        | Some t =>
          match tag (lit ")") (skip_ws r4) with
          | POk _ r5 => POk (vol, n, t) (skip_ws r5)
          | _ => PErr
          end
        | None => PErr
        end
      | PFail => PFail
      | _ => PErr
      end
    | _ => PErr
    end
  | _ => PErr
  end.

Definition p_report_struct (fuel : nat) (i : list N) : pres (list (bool * name * ty)) :=
  match tag (lit "(") (skip_ws i) with
  | POk _ r1 =>
    match tag (lit "Report") (skip_ws r1) with
    | POk _ r2 =>
      match many1 p_decl fuel r2 with
      | POk ds r3 =>
        match tag (lit ")") (skip_ws r3) with
        | POk _ r4 => POk ds (skip_ws r4)
        | _ => PErr
        end
      | PFail => PFail
      | PFuel => PFuel
      | PErr => PErr
      end
    | _ => PErr
    end
  | _ => PErr
  end.

Definition keep_init (t : ty) : ty :=
  match t with
  | TNum _ | TBool _ => t
  | _ => TNone
  end.

(* defs: def, declarations, an optional Report struct, declarations; Report-struct variables first, prefixed *)
Definition p_defs (fuel : nat) (i : list N) : pres (list (bool * name * ty)) :=
  match tag (lit "(") (skip_ws i) with
  | POk _ r0 =>
    match tag (lit "def") (skip_ws r0) with
    | POk _ r1 =>
      match many0 p_decl fuel r1 with
      | POk d1 r2 =>
        let rs := match p_report_struct fuel r2 with
                  | POk ds r => POk (Some ds) r
                  | PErr => POk None r2
                  | PFail => PFail
                  | PFuel => PFuel
                  end in
        match rs with
        | POk reports r3 =>
          match many0 p_decl fuel r3 with
          | POk d2 r4 =>
            match tag (lit ")") (skip_ws r4) with
            | POk _ r5 =>
              let reps := match reports with
                          | Some ds => map (fun '(v, n, t) => (v, lit "Report." ++ n, keep_init t)) ds
                          | None => []
                          end in
              POk (reps ++ map (fun '(v, n, t) => (v, n, keep_init t)) (d1 ++ d2)) (skip_ws r5)
            | _ => PErr
            end
          | PErr => PErr | PFail => PFail | PFuel => PFuel
          end
        | PErr => PErr | PFail => PFail | PFuel => PFuel
        end
      | PErr => PErr | PFail => PFail | PFuel => PFuel
      end
    | _ => PErr
    end
  | _ => PErr
  end.

(* ---- events ---- *)

Definition is_enone (e : expr) : bool := match e with ENone => true | _ => false end.

(* (when cond body...) ; comments among the statements stay in the AST as ENone *)
Definition p_event (fuel : nat) (i : list N) : pres event :=
  match tag (lit "(") (skip_ws i) with
  | POk _ r1 =>
    match tag (lit "when") (skip_ws r1) with
    | POk _ r2 =>
      match p_expr fuel r2 with
      | POk c r3 =>
        match p_exprs fuel r3 with
        | POk body r4 =>
          match tag (lit ")") (skip_ws r4) with
          | POk _ r5 => POk (mkEvent c body) (skip_ws r5)
          | _ => PErr
          end
        | PErr => PErr | PFail => PFail | PFuel => PFuel
        end
      | PErr => PErr | PFail => PFail | PFuel => PFuel
      end
    | _ => PErr
    end
  | _ => PErr
  end.

(* many1(delimited(multispace0, (opt(comment), event), multispace0)) *)
Definition p_event_item (fuel : nat) (i : list N) : pres event :=
  let i1 := skip_ws i in
  let i2 := match p_comment i1 with POk _ r => r | _ => i1 end in
  match p_event fuel i2 with
  | POk e r => POk e (skip_ws r)
  | x => x
  end.

Definition p_events (fuel : nat) (i : list N) : pres (list event) :=
  many1 (p_event_item fuel) fuel i.
