(* C01, event level: condition blocks (flag retargeting), statement lists and the event loop of
   the libccp machine against run_events of the source semantics. *)
From Portus Require Export SimExpr EncodeFacts.
From Portus Require Import ScopeFacts TotalFacts ImageFacts.

Definition sev (ev : event) : sevent := mkSEv (ev_flag ev) (ev_body ev).

(* the implicit registers, by name, in the final scope *)
Definition scf_impl (scf : list (name * reg)) : Prop :=
  (exists t, sc_get scf flag_n = Some (Implicit 0 t)) /\ (exists t, sc_get scf cont_n = Some (Implicit 1 t)) /\
  (exists t, sc_get scf report_n = Some (Implicit 2 t)) /\ (exists t, sc_get scf cwnd_n = Some (Implicit 4 t)) /\
  (exists t, sc_get scf rate_n = Some (Implicit 5 t)).

Lemma slice_instrs_mid (pre mid post : list dinstr) :
  slice_instrs (pre ++ mid ++ post) (N.of_nat (length pre)) (N.of_nat (length mid)) = mid.
Proof.
  unfold slice_instrs. rewrite !Nat2N.id.
  rewrite skipn_app, skipn_all, Nat.sub_diag. cbn [skipn app].
  rewrite firstn_app, firstn_all, Nat.sub_diag. cbn [firstn]. apply app_nil_r.
Qed.

Lemma compile_body_mono es : forall sc is sc', compile_body es sc = Ok (is, sc') ->
  sext (sc_named sc) (sc_named sc').
Proof.
  induction es as [|e r IH]; intros sc is sc' H; cbn [compile_body] in H.
  - inversion H; subst. apply sext_refl.
  - destruct e as [p|c|o l r0|].
    all: try (apply bind_ok_inv in H; destruct H as ([[is1 r1] sc1] & H1 & H);
              apply bind_ok_inv in H; destruct H as ([rest sc2] & H2 & H); inversion H; subst;
              destruct (compile_expr_mono _ _ _ _ _ H1) as [E1 _]; cbn in E1;
              eapply sext_trans; [exact E1|eapply IH; eauto]).
    eapply IH; eauto.
Qed.

Section SimProg.
  Variable scf : list (name * reg).
  Variable cx : ctx.
  Notation k := (cx_clock cx).
  Notation z := (cx_dp_zero cx).
  Hypothesis OK : scf_ok scf.
  Hypothesis OKI : scf_impl scf.

  Notation R := (R scf cx).

  Lemma assign_not_micros s x v : name_eqb x micros_name = false ->
    assign cx s x v = mkS (env_set (s_env s) x v) (s_tz s).
  Proof. intros H. unfold assign. now rewrite H. Qed.

  (* writing one of the implicit flags *)
  Lemma R_set_impl s c x i t r v : sc_get scf x = Some (Implicit i t) -> i < 6 -> i <> 3 ->
    dreg_of r = dreg_of (Implicit i t) -> R s c ->
    R (mkS (env_set (s_env s) x v) (s_tz s)) (write_reg k c v (dreg_of r)).
  Proof.
    intros Hx Hi H3 Hd HR.
    assert (Hn : name_eqb x micros_name = false).
    { destruct (name_eqb x micros_name) eqn:E; [|reflexivity]. apply name_eqb_eq in E. subst x.
      destruct (ok_micros _ OK _ _ Hx) as [_ Hm]. specialize (Hm eq_refl). cbn in Hm. inversion Hm. congruence. }
    rewrite <- (assign_not_micros s x v Hn). rewrite Hd.
    eapply R_write; eauto; cbn; exact Hi.
  Qed.

  Lemma R_read_impl s c x i t : sc_get scf x = Some (Implicit i t) -> R s c ->
    getn (r_impl (c_regs c)) i = env_get (s_env s) x.
  Proof.
    intros Hx (_ & Hv & _). specialize (Hv _ _ Hx eq_refl). exact Hv.
  Qed.

  (* both operands of an operator, left to right *)
  Lemma sim_operands o l r0 g t g' sc is1 lft sc1 is2 rgt sc2 :
    generic o l = true -> ty_expr g (Sexp o l r0) = Some (t, g') -> clobbers (Sexp o l r0) = false ->
    compile_expr l sc = Ok (is1, lft, sc1) -> compile_expr r0 sc1 = Ok (is2, rgt, sc2) ->
    link g (sc_named sc) -> tname_ok (sc_named sc) -> sext (sc_named sc2) scf -> sc_ntmp sc <= 8 ->
    Forall instr_within (is1 ++ is2) ->
    is_valop o = true /\ sc_ntmp sc2 <= 8 /\ link g' (sc_named sc2) /\ tname_ok (sc_named sc2) /\
    forall s c, R s c ->
      match eval cx s l with
      | Fault zc s1 => exists c', run_is k z c (is1 ++ is2) = inl (zc, c') /\ R s1 c'
      | Val s1 a =>
        match eval cx s1 r0 with
        | Fault zc s2 => exists c', run_is k z c (is1 ++ is2) = inl (zc, c') /\ R s2 c'
        | Val s2 b => exists c2, run_is k z c (is1 ++ is2) = inr c2 /\ R s2 c2 /\ tmp_frame (sc_ntmp sc) c c2 /\
                                 read_reg k z c2 (dreg_of lft) = a /\ read_reg k z c2 (dreg_of rgt) = b
        end
      end.
  Proof.
    intros G Ht Hcl C1 C2 L T X N8 W.
    apply ty_op_inv in Ht; auto. destruct Ht as (Vo & tl & g1 & tr & H1 & H2).
    rewrite clobbers_op in Hcl by exact G.
    apply orb_false_iff in Hcl. destruct Hcl as [Hcl Hclr]. apply orb_false_iff in Hcl. destruct Hcl as [Hdv Hcll].
    apply Forall_app_inv in W. destruct W as [W1 W2].
    destruct (compile_expr_mono _ _ _ _ _ C1) as [E01 N01]. destruct (compile_expr_mono _ _ _ _ _ C2) as [E12 N12].
    destruct (typing_link _ _ _ _ _ _ _ _ H1 C1 L T) as (L1 & T1 & _ & _).
    destruct (typing_link _ _ _ _ _ _ _ _ H2 C2 L1 T1) as (L2 & T2 & _ & _).
    destruct (sim_expr scf cx OK _ _ _ _ _ _ _ _ H1 Hcll C1 L T (sext_trans _ _ _ E12 X) N8 W1) as (Rl & N8a & Sl).
    destruct (sim_expr scf cx OK _ _ _ _ _ _ _ _ H2 Hclr C2 L1 T1 X N8a W2) as (Rr & N8b & Sr).
    split; [exact Vo|]. split; [exact N8b|]. split; [exact L2|]. split; [exact T2|].
    intros s c HR. specialize (Sl s c HR).
    destruct (eval cx s l) as [s1 a|zc s1] eqn:El.
    2:{ destruct Sl as (c1 & Hrun & HR1). exists c1. split; [|exact HR1]. rewrite run_is_app, Hrun. reflexivity. }
    destruct Sl as (c1 & Hrun1 & HR1 & F1 & V1). specialize (Sr s1 c1 HR1).
    destruct (eval cx s1 r0) as [s2 b|zc s2] eqn:Er.
    2:{ destruct Sr as (c2 & Hrun2 & HR2). exists c2. split; [|exact HR2]. rewrite run_is_app, Hrun1, Hrun2. reflexivity. }
    destruct Sr as (c2 & Hrun2 & HR2 & F2 & V2).
    exists c2. split; [rewrite run_is_app, Hrun1, Hrun2; reflexivity|]. split; [exact HR2|].
    split; [eapply tmp_frame_trans; [exact N01|exact F1|exact F2]|]. split; [|exact V2].
    rewrite (operand_stable scf cx _ _ _ _ _ _ _ _ Rl HR1 HR2 F2); [exact V1|].
    intros y Hy. rewrite Hy in Hdv. pose proof (eval_frame cx r0 _ _ _ s1 y H2 Hdv) as Hfr. rewrite Er in Hfr. exact Hfr.
  Qed.

  Lemma flag_reg_dreg sc fr : sext sc scf -> sc_get sc flag_n = Some fr ->
    exists t, sc_get scf flag_n = Some (Implicit 0 t) /\ dreg_of fr = dreg_of (Implicit 0 t).
  Proof.
    intros X Hf. destruct (X _ _ Hf) as (r' & Gf & Hd). destruct OKI as ((t & Hflag) & _).
    rewrite Hflag in Gf. inversion Gf; subst. eauto.
  Qed.

  (* the condition block: the value of the condition ends up in the event-flag register *)
  Lemma sim_flag e g g1 sc is sc' :
    ty_cond g e = Some g1 -> clobbers e = false -> compile_flag e sc = Ok (is, sc') ->
    link g (sc_named sc) -> tname_ok (sc_named sc) -> sext (sc_named sc') scf -> Forall instr_within is ->
    (link g1 (sc_named sc') /\ tname_ok (sc_named sc')) /\
    forall s c, R s c ->
      match eval cx s e with
      | Val s1 v => exists c', run_is k z c is = inr c' /\ R (mkS (env_set (s_env s1) flag_n v) (s_tz s1)) c'
      | Fault zc s1 => exists c', run_is k z c is = inl (zc, c') /\ R s1 c'
      end.
  Proof.
    intros Ht Hcl Hc L T X W.
    apply compile_flag_inv in Hc. destruct Hc as (is0 & res & fr & C0 & Hf & Hshape).
    destruct (flag_reg_dreg _ _ X Hf) as (tf & Gflag & Hdf).
    destruct e as [[b|x|n]|cm|o l r0|]; try discriminate Ht.
    - (* a boolean literal *)
      cbn in Ht. inversion Ht; subst g1. cbn in C0. inversion C0; subst is0 res sc'. clear C0.
      destruct Hshape as [(b0 & Hb & ->)|(j & t & Hj & _)]; [|discriminate Hj].
      split; [split; assumption|].
      intros s c HR. cbn [eval app]. eexists. split; [rewrite run_is_one, exec_bind; reflexivity|].
      rewrite read_reg_imm_bool. eapply R_set_impl; eauto; lia.
    - (* a comparison or a logical operator *)
      cbn [ty_cond] in Ht. destruct (is_cmp o || is_logic o) eqn:Ecl; [|discriminate Ht].
      destruct (ty_expr g (Sexp o l r0)) as [[[|] g2]|] eqn:Hty; try discriminate Ht. inversion Ht; subst g2. clear Ht.
      assert (G : generic o l = true) by (destruct o; try reflexivity; discriminate Ecl).
      apply compile_sexp_inv in C0. destruct C0 as (is1 & lft & sc1 & is2 & rgt & sc2 & C1 & C2 & C3).
      assert (Vo : is_valop o = true) by (unfold is_valop; rewrite <- orb_assoc; rewrite Ecl; apply orb_true_r).
      apply lower_tail_valop in C3; auto. destruct C3 as (-> & -> & Hn & Nt & _).
      destruct Hshape as [(b0 & Hb & _)|(j & t & _ & Hset)]; [discriminate Hb|].
      rewrite set_last_res_snoc in Hset. cbn [i_op i_left i_right] in Hset. inversion Hset; subst is. clear Hset.
      apply Forall_app_inv in W. destruct W as [W12 Wl]. inversion Wl as [|? ? (Wf & _ & _) _]; subst. cbn [i_res] in Wf.
      assert (X2 : sext (sc_named sc2) scf) by (rewrite <- Hn; exact X).
      destruct (sim_operands _ _ _ _ _ _ _ _ _ _ _ _ _ G Hty Hcl C1 C2 L T X2 (N.le_0_l 8) W12) as (_ & _ & L2 & T2 & S).
      split; [rewrite Hn; split; assumption|].
      intros s c HR. rewrite eval_op by exact G. specialize (S s c HR).
      destruct (eval cx s l) as [s1 a|zc s1].
      2:{ destruct S as (c1 & Hrun & HR1). exists c1. split; [|exact HR1]. rewrite run_is_snoc, Hrun. reflexivity. }
      destruct (eval cx s1 r0) as [s2 b|zc s2].
      2:{ destruct S as (c1 & Hrun & HR1). exists c1. split; [|exact HR1]. rewrite run_is_snoc, Hrun. reflexivity. }
      destruct S as (c2 & Hrun & HR2 & _ & Va & Vb).
      rewrite run_is_snoc, Hrun, exec_valop by exact Vo. rewrite Va, Vb.
      destruct (op_sem o a b) as [ze|v0].
      + exists c2. split; [reflexivity|exact HR2].
      + eexists. split; [reflexivity|]. eapply R_set_impl; eauto; lia.
  Qed.

  Lemma sim_body es : forall g g' sc is sc',
    ty_body g es = Some g' -> forallb (fun e => negb (clobbers e)) es = true ->
    compile_body es sc = Ok (is, sc') ->
    link g (sc_named sc) -> tname_ok (sc_named sc) -> sext (sc_named sc') scf -> Forall instr_within is ->
    (link g' (sc_named sc') /\ tname_ok (sc_named sc')) /\
    forall s c, R s c ->
      match eval_body cx s es with
      | inr s' => exists c', run_is k z c is = inr c' /\ R s' c'
      | inl (zc, s') => exists c', run_is k z c is = inl (zc, c') /\ R s' c'
      end.
  Proof.
    induction es as [|e r IH]; intros g g' sc is sc' Ht Hcl Hc L T X W.
    - cbn in Ht, Hc. inversion Ht; inversion Hc; subst. split; [split; assumption|].
      intros s c HR. cbn. exists c. split; [reflexivity|exact HR].
    - cbn [forallb] in Hcl. apply andb_true_iff in Hcl. destruct Hcl as [Hcle Hclr]. apply negb_true_iff in Hcle.
      assert (Hgen : forall (He : e <> ENone) (Hnc : forall cm, e <> Cmd cm),
                 (link g' (sc_named sc') /\ tname_ok (sc_named sc')) /\
                 forall s c, R s c ->
                   match eval_body cx s (e :: r) with
                   | inr s' => exists c', run_is k z c is = inr c' /\ R s' c'
                   | inl (zc, s') => exists c', run_is k z c is = inl (zc, c') /\ R s' c'
                   end).
      { intros He Hnc.
        assert (Ht' : exists t1 g1, ty_expr g e = Some (t1, g1) /\ ty_body g1 r = Some g').
        { destruct e as [p|cm|o l r0|]; try congruence; try (exfalso; eapply Hnc; reflexivity);
            cbn [ty_body] in Ht; match type of Ht with match ?x with _ => _ end = _ => destruct x as [[t1 g1]|] eqn:E1; [eauto|discriminate Ht] end. }
        destruct Ht' as (t1 & g1 & H1 & H2).
        assert (Hc' : exists is1 r1 sc1 rest, compile_expr e (clear_tmps sc) = Ok (is1, r1, sc1) /\
                                              compile_body r sc1 = Ok (rest, sc') /\ is = is1 ++ rest).
        { destruct e as [p|cm|o l r0|]; try congruence; cbn [compile_body] in Hc;
            apply bind_ok_inv in Hc; destruct Hc as ([[is1 r1] sc1] & Hc1 & Hc);
            apply bind_ok_inv in Hc; destruct Hc as ([rest sc2] & Hc2 & Hc); inversion Hc; subst; eauto 8. }
        destruct Hc' as (is1 & r1 & sc1 & rest & C1 & C2 & ->).
        apply Forall_app_inv in W. destruct W as [W1 W2].
        pose proof (compile_body_mono _ _ _ _ C2) as E12.
        destruct (typing_link _ _ _ _ _ _ _ _ H1 C1 L T) as (L1 & T1 & _ & _).
        destruct (sim_expr scf cx OK _ _ _ _ _ _ _ _ H1 Hcle C1 L T (sext_trans _ _ _ E12 X) (N.le_0_l 8) W1) as (_ & _ & S1).
        destruct (IH _ _ _ _ _ H2 Hclr C2 L1 T1 X W2) as (LT & S2).
        split; [exact LT|].
        intros s c HR. cbn [eval_body]. specialize (S1 s c HR).
        destruct (eval cx s e) as [s1 v|zc s1].
        - destruct S1 as (c1 & Hrun1 & HR1 & _ & _). specialize (S2 s1 c1 HR1).
          destruct (eval_body cx s1 r) as [[zc s2]|s2].
          + destruct S2 as (c2 & Hrun2 & HR2). exists c2. split; [|exact HR2]. rewrite run_is_app, Hrun1. exact Hrun2.
          + destruct S2 as (c2 & Hrun2 & HR2). exists c2. split; [|exact HR2]. rewrite run_is_app, Hrun1. exact Hrun2.
        - destruct S1 as (c1 & Hrun1 & HR1). exists c1. split; [|exact HR1]. rewrite run_is_app, Hrun1. reflexivity. }
      destruct e as [p|cm|o l r0|].
      + apply Hgen; congruence.
      + cbn [compile_body] in Hc. apply bind_ok_inv in Hc. destruct Hc as (? & Hc1 & _). discriminate Hc1.
      + apply Hgen; congruence.
      + (* a comment: no instructions, no effect *)
        cbn [ty_body compile_body] in Ht, Hc.
        destruct (IH _ _ _ _ _ Ht Hclr Hc L T X W) as (LT & S2). split; [exact LT|].
        intros s c HR. cbn [eval_body eval]. apply S2. exact HR.
  Qed.

  Definition flag_live (c : conn) : bool :=
    negb (flag_of c =? 0) && (getn (r_impl (c_regs c)) 1 =? 0).

  Lemma compile_events_mono evs : forall sc idx devs is sc', compile_events evs sc idx = Ok (devs, is, sc') ->
    sext (sc_named sc) (sc_named sc').
  Proof.
    induction evs as [|ev r IH]; intros sc idx devs is sc' H; cbn [compile_events] in H.
    - inversion H; subst. apply sext_refl.
    - apply bind_ok_inv in H. destruct H as ([fi sc1] & Hf & H).
      apply bind_ok_inv in H. destruct H as ([bi sc2] & Hb & H).
      apply bind_ok_inv in H. destruct H as ([[evs' is'] sc3] & Hr & H). inversion H; subst.
      apply compile_flag_inv in Hf. destruct Hf as (is0 & res & fr & C0 & _).
      destruct (compile_expr_mono _ _ _ _ _ C0) as [E0 _]. cbn in E0.
      eapply sext_trans; [exact E0|]. eapply sext_trans; [eapply compile_body_mono; eauto|eapply IH; eauto].
  Qed.

  (* the event loop *)
  Theorem sim_events evs : forall g sc idx devs is sc' pre post (dp : dprog),
    ty_events g (map sev evs) = true ->
    forallb (fun ev => negb (clobbers (ev_flag ev)) && forallb (fun e => negb (clobbers e)) (ev_body ev)) evs = true ->
    compile_events evs sc idx = Ok (devs, is, sc') ->
    link g (sc_named sc) -> tname_ok (sc_named sc) -> sext (sc_named sc') scf -> Forall instr_within is ->
    dp_instrs dp = pre ++ map dinstr_of is ++ post -> idx = N.of_nat (length pre) ->
    forall s c, R s c ->
      match run_events cx s (map sev evs) with
      | inr s' => exists c', run_exprs k z dp c (map dexpr_of devs) = inr c' /\ R s' c'
      | inl (zc, s') => exists c', run_exprs k z dp c (map dexpr_of devs) = inl (zc, c') /\ R s' c'
      end.
  Proof.
    induction evs as [|ev r IH]; intros g sc idx devs is sc' pre post dp Ht Hcl Hc L T X W Hdp Hidx s c HR.
    - cbn in Hc. inversion Hc; subst. cbn. exists c. split; [reflexivity|exact HR].
    - subst idx. cbn [compile_events] in Hc.
      apply bind_ok_inv in Hc. destruct Hc as ([fi sc1] & Hf & Hc).
      apply bind_ok_inv in Hc. destruct Hc as ([bi sc2] & Hb & Hc).
      apply bind_ok_inv in Hc. destruct Hc as ([[evs' is'] sc3] & Hr & Hc). inversion Hc; subst devs is sc3. clear Hc.
      cbn [map sev ty_events se_cond se_body] in Ht.
      destruct (ty_cond g (ev_flag ev)) as [g1|] eqn:Tc; [|discriminate Ht].
      destruct (ty_body g1 (ev_body ev)) as [g2|] eqn:Tb; [|discriminate Ht].
      cbn [forallb] in Hcl. apply andb_true_iff in Hcl. destruct Hcl as [Hcl1 Hclr].
      apply andb_true_iff in Hcl1. destruct Hcl1 as [Hclf Hclb]. apply negb_true_iff in Hclf.
      apply Forall_app_inv in W. destruct W as [Wf W]. apply Forall_app_inv in W. destruct W as [Wb Wr].
      pose proof (compile_body_mono _ _ _ _ Hb) as E12. pose proof (compile_events_mono _ _ _ _ _ _ Hr) as E23.
      destruct (sim_flag _ _ _ _ _ _ Tc Hclf Hf L T (sext_trans _ _ _ E12 (sext_trans _ _ _ E23 X)) Wf) as ((L1 & T1) & Sf).
      destruct (sim_body _ _ _ _ _ _ Tb Hclb Hb L1 T1 (sext_trans _ _ _ E23 X) Wb) as ((L2 & T2) & Sb).
      (* where the two blocks sit in the program *)
      rewrite !map_app in Hdp.
      assert (Hflag : slice_instrs (dp_instrs dp) (N.of_nat (length pre)) (N.of_nat (length fi)) = map dinstr_of fi).
      { rewrite Hdp. rewrite <- (map_length dinstr_of fi). rewrite <- app_assoc. apply slice_instrs_mid. }
      assert (Hbody : slice_instrs (dp_instrs dp) (N.of_nat (length pre) + N.of_nat (length fi)) (N.of_nat (length bi)) = map dinstr_of bi).
      { rewrite Hdp. rewrite <- (map_length dinstr_of bi). rewrite <- (map_length dinstr_of fi) at 1.
        rewrite <- Nat2N.inj_add, <- app_length.
        replace (pre ++ (map dinstr_of fi ++ map dinstr_of bi ++ map dinstr_of is') ++ post)
          with ((pre ++ map dinstr_of fi) ++ map dinstr_of bi ++ (map dinstr_of is' ++ post))
          by (rewrite <- !app_assoc; reflexivity).
        apply slice_instrs_mid. }
      cbn [map run_exprs dexpr_of e_flag_idx e_num_flag e_body_idx e_num_body run_events sev se_cond se_body].
      unfold process_expression. cbn [dx_cond_start dx_num_cond dx_event_start dx_num_event dexpr_of e_flag_idx e_num_flag e_body_idx e_num_body].
      rewrite Hflag, Hbody.
      destruct OKI as ((tfl & Gflag) & (tco & Gcont) & _).
      specialize (Sf s c HR). fold (run_is k z c fi).
      destruct (eval cx s (ev_flag ev)) as [s1 cv|zc s1].
      2:{ destruct Sf as (c1 & Hrun & HR1). rewrite Hrun. exists c1. split; [reflexivity|exact HR1]. }
      destruct Sf as (c1 & Hrun1 & HR1). rewrite Hrun1.
      assert (Hfl1 : flag_of c1 = cv).
      { unfold flag_of. rewrite (R_read_impl _ _ _ _ _ Gflag HR1). cbn [s_env]. apply env_get_set_same. }
      rewrite Hfl1.
      (* after the statements (or without them) *)
      assert (Hcont : forall s3 c3, R s3 c3 ->
                 (negb (flag_of c3 =? 0) && (getn (r_impl (c_regs c3)) 1 =? 0)) =
                 (negb (env_get (s_env s3) flag_n =? 0) && (env_get (s_env s3) cont_n =? 0))).
      { intros s3 c3 HR3. unfold flag_of. rewrite (R_read_impl _ _ _ _ _ Gflag HR3), (R_read_impl _ _ _ _ _ Gcont HR3). reflexivity. }
      assert (Hrest : forall s3 c3, R s3 c3 ->
                 match (if negb (env_get (s_env s3) flag_n =? 0) && (env_get (s_env s3) cont_n =? 0) then inr s3
                        else run_events cx s3 (map sev r)) with
                 | inr s' => exists c', (if negb (flag_of c3 =? 0) && (getn (r_impl (c_regs c3)) 1 =? 0) then inr c3
                                         else run_exprs k z dp c3 (map dexpr_of evs')) = inr c' /\ R s' c'
                 | inl (zc, s') => exists c', (if negb (flag_of c3 =? 0) && (getn (r_impl (c_regs c3)) 1 =? 0) then inr c3
                                               else run_exprs k z dp c3 (map dexpr_of evs')) = inl (zc, c') /\ R s' c'
                 end).
      { intros s3 c3 HR3. rewrite (Hcont _ _ HR3).
        destruct (negb (env_get (s_env s3) flag_n =? 0) && (env_get (s_env s3) cont_n =? 0)).
        - exists c3. split; [reflexivity|exact HR3].
        - eapply (IH g2 sc2 _ evs' is' sc' (pre ++ map dinstr_of (fi ++ bi)) post dp Ht Hclr Hr L2 T2 X Wr); auto.
          + rewrite Hdp, map_app, <- !app_assoc. reflexivity.
          + rewrite app_length, map_length, app_length, !Nat2N.inj_add. lia. }
      destruct (cv =? 0) eqn:Ecv.
      + apply Hrest. exact HR1.
      + specialize (Sb _ c1 HR1). fold (run_is k z c1 bi).
        destruct (eval_body cx (mkS (env_set (s_env s1) flag_n cv) (s_tz s1)) (ev_body ev)) as [[zc s2]|s2].
        * destruct Sb as (c2 & Hrun2 & HR2). rewrite Hrun2. exists c2. split; [reflexivity|exact HR2].
        * destruct Sb as (c2 & Hrun2 & HR2). rewrite Hrun2. apply Hrest. exact HR2.
  Qed.

End SimProg.
