(* The static tables of the source (read by lib/gen_langtables.py on every run, gen/LangTables.v)
   are the tables of the model.  Every statement is closed by computation. *)
From Portus Require Import Image.
From PortusGen Require Import LangTables.

(* the ordered choice of operator spellings of ast.rs `op` *)
Theorem op_table_tie : impl_op_table = op_table.
Proof. reflexivity. Qed.

(* the two commands of ast.rs `command`, as p_command tries them *)
Definition model_cmd_table : list (list N * command) := [(lit "fallthrough", Fallthrough); (lit "report", CReport)].
Theorem cmd_table_tie : impl_cmd_table = model_cmd_table.
Proof. reflexivity. Qed.
Theorem model_cmd_table_used i : p_command (lit "(" ++ i) =
  match alt_tags model_cmd_table (skip_ws i) with
  | POk c r3 => match tag (lit ")") (skip_ws r3) with POk _ r4 => POk (Cmd c) r4 | _ => PErr end
  | _ => PErr
  end.
Proof. reflexivity. Qed.

(* Scope::new: inserting the source's rows, in the source's order, gives the model's initial scope *)
Theorem builtins_tie :
  fold_left (fun l kv => rf_insert l (fst kv) (snd kv)) impl_builtins [] = sc_named scope_new.
Proof. vm_compute. reflexivity. Qed.

(* serialize_op: the same opcode for every operator, unreachable for the same two *)
Definition all_ops : list op :=
  [OAdd; OAnd; OBind; ODiv; OEquiv; OGt; OLt; OMax; OMaxWrap; OMin; OMul; OOr; OSub; ODef; OIf; ONotIf; OEwma].
Lemma all_ops_complete o : In o all_ops.
Proof. destruct o; cbn; tauto. Qed.
Definition ser_op_opt (o : op) : option N := match ser_op o with Ok c => Some c | _ => None end.
Definition optn_eqb (a b : option N) : bool :=
  match a, b with Some x, Some y => x =? y | None, None => true | _, _ => false end.
Theorem opcodes_tie :
  length impl_opcodes = length all_ops /\
  forallb (fun o => existsb (fun p => op_eqb (fst p) o && optn_eqb (snd p) (ser_op_opt o)) impl_opcodes) all_ops = true.
Proof. split; reflexivity. Qed.

(* the encoder's register classes: index limits and class codes *)
Theorem reg_limits_tie :
  (impl_lim_control, impl_lim_implicit, impl_lim_local, impl_lim_primitive, impl_lim_report, impl_lim_tmp) =
  (LIM_CONTROL, LIM_IMPLICIT, LIM_LOCAL, LIM_PRIMITIVE, LIM_REPORT, LIM_TMP).
Proof. reflexivity. Qed.

Theorem reg_codes_tie :
  reg_code (Control 0 TNone true) = Ok (impl_code_control_vol, 0) /\ reg_code (Control 0 TNone false) = Ok (impl_code_control, 0) /\
  reg_code (Report 0 TNone true) = Ok (impl_code_report_vol, 0) /\ reg_code (Report 0 TNone false) = Ok (impl_code_report, 0) /\
  reg_code (ImmBool true) = Ok (impl_code_immbool, 1) /\ reg_code (ImmNum 0) = Ok (impl_code_immnum, 0) /\
  reg_code (Implicit 0 TNone) = Ok (impl_code_implicit, 0) /\ reg_code (Local 0 TNone) = Ok (impl_code_local, 0) /\
  reg_code (Primitive 0 TNone) = Ok (impl_code_primitive, 0) /\ reg_code (Tmp 0 TNone) = Ok (impl_code_tmp, 0).
Proof. repeat split; reflexivity. Qed.

Theorem imm_limit_tie : 2 ^ impl_imm_bits = IMM_LIMIT.
Proof. reflexivity. Qed.
