(* The register machine seen through the compiler's registers: the direct translation of an
   instruction (what libccp holds after reading the serialized form), and the read/write algebra
   of the register files that the simulation proof of C01 rests on. *)
From Portus Require Export EndToEnd.
From Portus Require Import ImageFacts.

Arguments getn : simpl never.
Arguments setn : simpl never.

Definition dreg_of (r : reg) : dreg :=
  match r with
  | Control i _ vol => mkDReg (if vol then T_VCTL else T_NVCTL) i 0
  | ImmNum n => mkDReg T_IMM 0 (n mod 4294967296)
  | ImmBool b => mkDReg T_IMM 0 (if b then 1 else 0)
  | Implicit i _ => mkDReg T_IMPL i 0
  | Local i _ => mkDReg T_LOCAL i 0
  | Primitive i _ => mkDReg T_PRIM i 0
  | Report i _ vol => mkDReg (if vol then T_VREP else T_NVREP) i 0
  | Tmp i _ => mkDReg T_TMP i 0
  | RNone => mkDReg 99 0 0
  end.

Definition opcode (o : op) : N := match ser_op o with Ok n => n | _ => 15 end.

Definition dinstr_of (i : instr) : dinstr :=
  mkDInstr (opcode (i_op i)) (dreg_of (i_res i)) (dreg_of (i_left i)) (dreg_of (i_right i)).

(* ---------- register files ---------- *)

Inductive file := FRep | FCtl | FImpl | FTmp | FLoc.

Definition file_eqb (a b : file) : bool :=
  match a, b with
  | FRep, FRep | FCtl, FCtl | FImpl, FImpl | FTmp, FTmp | FLoc, FLoc => true
  | _, _ => false
  end.

Lemma file_eqb_eq a b : file_eqb a b = true <-> a = b.
Proof. destruct a, b; cbn; split; intros H; try reflexivity; discriminate. Qed.

Definition slot (r : reg) : option (file * N) :=
  match r with
  | Report i _ _ => Some (FRep, i)
  | Control i _ _ => Some (FCtl, i)
  | Implicit i _ => Some (FImpl, i)
  | Tmp i _ => Some (FTmp, i)
  | Local i _ => Some (FLoc, i)
  | _ => None
  end.

(* the registers a variable can live in: everything with a slot except the temporaries *)
Definition var_class (r : reg) : bool :=
  match slot r with Some (f, _) => negb (file_eqb f FTmp) | None => false end.

Definition file_of (rg : regs) (f : file) : list N :=
  match f with
  | FRep => r_report rg | FCtl => r_control rg | FImpl => r_impl rg | FTmp => r_tmp rg | FLoc => r_local rg
  end.

Definition rd (c : conn) (f : file) (i : N) : N := getn (file_of (c_regs c) f) i.

Definition regs_wf (rg : regs) : Prop :=
  length (r_report rg) = 110%nat /\ length (r_control rg) = 110%nat /\ length (r_impl rg) = 6%nat /\
  length (r_tmp rg) = 8%nat /\ length (r_local rg) = 8%nat.

Lemma regs0_wf : regs_wf regs0.
Proof. repeat split. Qed.

(* ---------- lists ---------- *)

Lemma upd_length {A} (l : list A) i v : length (upd l i v) = length l.
Proof. revert i; induction l as [|x l IH]; intros [|i]; cbn; auto. Qed.

Lemma nth_upd_same (l : list N) i v : (i < length l)%nat -> nth i (upd l i v) 0 = v.
Proof. revert i; induction l as [|x l IH]; intros [|i] H; cbn in *; try lia; auto. apply IH. lia. Qed.

Lemma nth_upd_other (l : list N) i j v : i <> j -> nth j (upd l i v) 0 = nth j l 0.
Proof.
  revert i j; induction l as [|x l IH]; intros [|i] [|j] H; cbn; auto; try congruence.
Qed.

Lemma setn_length l i v : length (setn l i v) = length l.
Proof. unfold setn. destruct (i <? N.of_nat (length l)); auto using upd_length. Qed.

Lemma getn_setn_same l i v : i < N.of_nat (length l) -> getn (setn l i v) i = v.
Proof.
  intros H. unfold getn, setn. destruct (i <? N.of_nat (length l)) eqn:E; [|apply N.ltb_ge in E; lia].
  apply nth_upd_same. lia.
Qed.

Lemma getn_setn_other l i j v : i <> j -> getn (setn l i v) j = getn l j.
Proof.
  intros H. unfold getn, setn. destruct (i <? N.of_nat (length l)); auto.
  apply nth_upd_other. intros E. apply H. apply N2Nat.inj. exact E.
Qed.

(* ---------- reads ---------- *)

Lemma read_reg_slot k z c r f i : slot r = Some (f, i) -> read_reg k z c (dreg_of r) = rd c f i.
Proof.
  destruct r as [j t vol|n|b|j t|j t|j t|j t vol|j t|]; cbn [slot]; intros H; inversion H; subst; clear H;
    unfold read_reg, rd; cbn [dreg_of dr_type dr_index file_of]; try destruct vol; reflexivity.
Qed.

Lemma read_reg_imm_num k z c n : read_reg k z c (dreg_of (ImmNum n)) = n mod 4294967296.
Proof. reflexivity. Qed.

Lemma read_reg_imm_bool k z c b : read_reg k z c (dreg_of (ImmBool b)) = if b then 1 else 0.
Proof. reflexivity. Qed.

Lemma read_reg_prim k z c i t : read_reg k z c (dreg_of (Primitive i t)) = read_prim k z (c_prims c) i.
Proof. reflexivity. Qed.

(* ---------- writes ---------- *)

Definition flen (f : file) : N :=
  match f with FRep | FCtl => 110 | FImpl => 6 | FTmp | FLoc => 8 end.

Lemma write_reg_prims k c v r : c_prims (write_reg k c v (dreg_of r)) = c_prims c.
Proof.
  destruct r as [j t vol|n|b|j t|j t|j t|j t vol|j t|]; unfold write_reg; cbn [dreg_of dr_type dr_index];
    try destruct vol; cbn; try reflexivity.
  repeat match goal with |- context [if ?x then _ else _] => destruct x end; reflexivity.
Qed.

Lemma write_reg_index k c v r : c_index (write_reg k c v (dreg_of r)) = c_index c.
Proof.
  destruct r as [j t vol|n|b|j t|j t|j t|j t vol|j t|]; unfold write_reg; cbn [dreg_of dr_type dr_index];
    try destruct vol; cbn; try reflexivity.
  repeat match goal with |- context [if ?x then _ else _] => destruct x end; reflexivity.
Qed.

Lemma write_reg_prog k c v r : c_prog (write_reg k c v (dreg_of r)) = c_prog c /\
  c_staged (write_reg k c v (dreg_of r)) = c_staged c /\ c_sent_create (write_reg k c v (dreg_of r)) = c_sent_create c /\
  c_pend_ctl (write_reg k c v (dreg_of r)) = c_pend_ctl c /\ c_pend_cwnd (write_reg k c v (dreg_of r)) = c_pend_cwnd c /\
  c_pend_rate (write_reg k c v (dreg_of r)) = c_pend_rate c.
Proof.
  destruct r as [j t vol|n|b|j t|j t|j t|j t vol|j t|]; unfold write_reg; cbn [dreg_of dr_type dr_index];
    try destruct vol; cbn; try (repeat split; reflexivity).
  repeat match goal with |- context [if ?x then _ else _] => destruct x end; repeat split; reflexivity.
Qed.

Lemma write_reg_wf k c v r : regs_wf (c_regs c) -> regs_wf (c_regs (write_reg k c v (dreg_of r))).
Proof.
  intros (H1 & H2 & H3 & H4 & H5).
  destruct r as [j t vol|n|b|j t|j t|j t|j t vol|j t|]; unfold write_reg; cbn [dreg_of dr_type dr_index];
    try destruct vol; cbn; unfold regs_wf; cbn; rewrite ?setn_length; auto.
  all: repeat match goal with |- context [if ?x then _ else _] => destruct x end; cbn; rewrite ?setn_length; auto.
Qed.

(* the time base moves exactly on a write to Micros *)
Lemma write_reg_tz k c v r :
  c_time_zero (write_reg k c v (dreg_of r)) =
  match slot r with
  | Some (FImpl, 3) => wrap64 (k + W64 - v)
  | _ => c_time_zero c
  end.
Proof.
  destruct r as [j t vol|n|b|j t|j t|j t|j t vol|j t|]; unfold write_reg; cbn [dreg_of dr_type dr_index slot];
    try destruct vol; cbn; try reflexivity.
  destruct j as [|p]; cbn; [reflexivity|].
  do 3 (destruct p as [p|p|]; cbn; try reflexivity).
Qed.

Definition writable (f : file) (i : N) : Prop := i < flen f.

Lemma rd_write_same k c v r f i : regs_wf (c_regs c) -> slot r = Some (f, i) -> writable f i ->
  rd (write_reg k c v (dreg_of r)) f i = v.
Proof.
  intros (H1 & H2 & H3 & H4 & H5) Hs Hw. unfold writable in Hw.
  destruct r as [j t vol|n|b|j t|j t|j t|j t vol|j t|]; cbn [slot] in Hs; inversion Hs; subst; clear Hs;
    cbn [flen] in Hw; unfold write_reg, rd; cbn [dreg_of dr_type dr_index];
    try destruct vol; cbn; try (apply getn_setn_same; lia).
  (* implicit *)
  assert (Hi : i = 0 \/ i = 1 \/ i = 2 \/ i = 3 \/ i = 4 \/ i = 5) by lia.
  destruct Hi as [->|[->|[->|[->|[->| ->]]]]]; cbn; apply getn_setn_same; lia.
Qed.

Lemma rd_write_other k c v r f i f' i' : slot r = Some (f, i) -> (f, i) <> (f', i') ->
  rd (write_reg k c v (dreg_of r)) f' i' = rd c f' i'.
Proof.
  intros Hs Hne.
  destruct r as [j t vol|n|b|j t|j t|j t|j t vol|j t|]; cbn [slot] in Hs; inversion Hs; subst; clear Hs;
    unfold write_reg, rd; cbn [dreg_of dr_type dr_index]; try destruct vol; cbn.
  all: try (destruct f'; cbn; try reflexivity; apply getn_setn_other; congruence).
  (* implicit *)
  destruct (i =? US_ELAPSED) eqn:E3.
  - apply N.eqb_eq in E3. subst i. cbn. destruct f'; cbn; try reflexivity. apply getn_setn_other. unfold US_ELAPSED in *. congruence.
  - repeat match goal with |- context [if ?x then _ else _] => destruct x end; cbn;
      destruct f'; cbn; try reflexivity; apply getn_setn_other; congruence.
Qed.

Lemma write_reg_noslot k c v r : slot r = None -> write_reg k c v (dreg_of r) = c.
Proof.
  destruct r as [j t vol|n|b|j t|j t|j t|j t vol|j t|]; cbn [slot]; intros H; try discriminate; reflexivity.
Qed.

(* ---------- instruction sequences ---------- *)

Lemma exec_range_app k z c a b :
  exec_range k z c (a ++ b) =
  match exec_range k z c a with
  | inl e => inl e
  | inr c' => exec_range k z c' b
  end.
Proof.
  revert c; induction a as [|i a IH]; intros c; cbn [exec_range app]; [reflexivity|].
  destruct (exec_instr k z c i); [reflexivity|apply IH].
Qed.

Definition run_is (k z : N) (c : conn) (is : list instr) : (Z * conn) + conn :=
  exec_range k z c (map dinstr_of is).

Lemma run_is_app k z c a b :
  run_is k z c (a ++ b) = match run_is k z c a with inl e => inl e | inr c' => run_is k z c' b end.
Proof. unfold run_is. rewrite map_app. apply exec_range_app. Qed.

Lemma run_is_nil k z c : run_is k z c [] = inr c.
Proof. reflexivity. Qed.

Lemma run_is_one k z c i : run_is k z c [i] =
  match exec_instr k z c (dinstr_of i) with inl e => inl (e, c) | inr c' => inr c' end.
Proof. unfold run_is. cbn. destruct (exec_instr k z c (dinstr_of i)); reflexivity. Qed.

(* one value-operator instruction: reads both operands, faults or writes the result *)
Definition mach_op (o : op) : op := match o with OAnd => OMul | OOr => OMax | _ => o end.

Lemma exec_valop k z c o res lft rgt : is_valop o = true ->
  exec_instr k z c (dinstr_of (mkInstr res (mach_op o) lft rgt)) =
  match op_sem o (read_reg k z c (dreg_of lft)) (read_reg k z c (dreg_of rgt)) with
  | inl e => inl e
  | inr v => inr (write_reg k c v (dreg_of res))
  end.
Proof.
  intros Ho. unfold exec_instr, dinstr_of. cbn [di_left di_right di_op di_ret i_op i_res i_left i_right].
  set (a := read_reg k z c (dreg_of lft)). set (b := read_reg k z c (dreg_of rgt)).
  destruct o; try discriminate Ho; cbn [mach_op opcode ser_op N.eqb Pos.eqb op_sem];
    repeat match goal with |- context [if ?x then _ else _] => destruct x end; reflexivity.
Qed.

Lemma exec_bind k z c res lft rgt :
  exec_instr k z c (dinstr_of (mkInstr res OBind lft rgt)) =
  inr (write_reg k c (read_reg k z c (dreg_of rgt)) (dreg_of res)).
Proof. reflexivity. Qed.

Lemma exec_if k z c res lft rgt :
  exec_instr k z c (dinstr_of (mkInstr res OIf lft rgt)) =
  inr (if read_reg k z c (dreg_of lft) =? 0 then c else write_reg k c (read_reg k z c (dreg_of rgt)) (dreg_of res)).
Proof.
  unfold exec_instr, dinstr_of; cbn [di_left di_right di_op di_ret i_op i_res i_left i_right opcode ser_op N.eqb Pos.eqb].
  destruct (read_reg k z c (dreg_of lft) =? 0); reflexivity.
Qed.

Lemma exec_notif k z c res lft rgt :
  exec_instr k z c (dinstr_of (mkInstr res ONotIf lft rgt)) =
  inr (if read_reg k z c (dreg_of lft) =? 0 then write_reg k c (read_reg k z c (dreg_of rgt)) (dreg_of res) else c).
Proof.
  unfold exec_instr, dinstr_of; cbn [di_left di_right di_op di_ret i_op i_res i_left i_right opcode ser_op N.eqb Pos.eqb].
  destruct (read_reg k z c (dreg_of lft) =? 0); reflexivity.
Qed.

Lemma exec_ewma k z c res lft rgt :
  exec_instr k z c (dinstr_of (mkInstr res OEwma lft rgt)) =
  inr (write_reg k c (ewma (read_reg k z c (dreg_of lft)) (read_reg k z c (dreg_of res)) (read_reg k z c (dreg_of rgt)))
                 (dreg_of res)).
Proof. reflexivity. Qed.
