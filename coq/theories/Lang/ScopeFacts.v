(* C13: names map to distinct datapath registers with a stable built-in ABI. *)
From Portus Require Import Image.
From Coq Require Import ZArith ZifyN ZifyNat ZifyBool.

(* ---------- the sorted register file as a map ---------- *)

Lemma name_ltb_irrefl a : name_ltb a a = false.
Proof.
  induction a as [|x a IH]; cbn [name_ltb]; [reflexivity|].
  rewrite N.ltb_irrefl. exact IH.
Qed.

Lemma name_ltb_neq k n : name_ltb k n = true -> name_eqb k n = false.
Proof.
  intros H. destruct (name_eqb k n) eqn:E; [|reflexivity].
  apply name_eqb_eq in E. subst. rewrite name_ltb_irrefl in H. discriminate.
Qed.

Lemma name_eqb_sym a b : name_eqb a b = name_eqb b a.
Proof.
  destruct (name_eqb a b) eqn:E1, (name_eqb b a) eqn:E2; try reflexivity.
  - apply name_eqb_eq in E1. subst. rewrite name_eqb_refl in E2. discriminate.
  - apply name_eqb_eq in E2. subst. rewrite name_eqb_refl in E1. discriminate.
Qed.

(* inserting a name that is not yet present binds exactly that name and nothing else changes *)
Lemma get_insert_same l n r : sc_get l n = None -> sc_get (rf_insert l n r) n = Some r.
Proof.
  induction l as [|[k v] t IH]; cbn [rf_insert sc_get]; intros H.
  - rewrite name_eqb_refl. reflexivity.
  - destruct (name_eqb k n) eqn:Ek; [discriminate|].
    destruct (name_ltb k n) eqn:El; cbn [sc_get].
    + rewrite Ek. apply IH. exact H.
    + rewrite name_eqb_refl. reflexivity.
Qed.

Lemma get_insert_other l n r m : n <> m -> sc_get (rf_insert l n r) m = sc_get l m.
Proof.
  intros Hne. induction l as [|[k v] t IH]; cbn [rf_insert sc_get].
  - destruct (name_eqb n m) eqn:E; [apply name_eqb_eq in E; congruence|reflexivity].
  - destruct (name_ltb k n); cbn [sc_get].
    + destruct (name_eqb k m); [reflexivity|exact IH].
    + destruct (name_eqb n m) eqn:E; [apply name_eqb_eq in E; congruence|reflexivity].
Qed.

Lemma nodup_app {A} (l1 l2 : list A) : NoDup (l1 ++ l2) ->
  NoDup l1 /\ NoDup l2 /\ (forall x, In x l1 -> In x l2 -> False).
Proof.
  induction l1 as [|a r IH]; cbn [app]; intros H.
  - repeat split; [constructor|exact H|intros x []].
  - inversion H as [|? ? Hn Hr]; subst. destruct (IH Hr) as (H1 & H2 & H3).
    repeat split.
    + constructor; [|exact H1]. intros Hi. apply Hn. apply in_or_app. left. exact Hi.
    + exact H2.
    + intros x [->|Hx] Hx2; [apply Hn; apply in_or_app; right; exact Hx2|exact (H3 x Hx Hx2)].
Qed.

(* ---------- built-ins: the fixed ABI ---------- *)

Theorem builtin_primitives :
  map (fun nt => sc_get (sc_named scope_new) (fst nt)) primitive_names =
  map (fun k => Some (Primitive (N.of_nat k) (snd (nth k primitive_names ([], TNone))))) (seq 0 15).
Proof. vm_compute. reflexivity. Qed.

Theorem builtin_implicits :
  map (fun nt => sc_get (sc_named scope_new) (fst nt)) implicit_names =
  map (fun k => Some (Implicit (N.of_nat k) (snd (nth k implicit_names ([], TNone))))) (seq 0 6).
Proof. vm_compute. reflexivity. Qed.

Definition builtin_names : list name := map fst primitive_names ++ map fst implicit_names.

Definition is_builtin (n : name) : bool := existsb (name_eqb n) builtin_names.

(* ---------- declarations: slots 0..n-1 in order, volatility and initial value kept ---------- *)

Fixpoint names_of (ds : list (bool * name * ty)) : list name :=
  match ds with [] => [] | (_, n, _) :: r => n :: names_of r end.

Definition fresh_in (l : list (name * reg)) (n : name) : Prop := sc_get l n = None.

Lemma declare_report_spec : forall ds sc sc',
  declare new_report ds sc = Ok sc' ->
  NoDup (names_of ds) -> (forall n, In n (names_of ds) -> sc_get (sc_named sc) n = None) ->
  sc_nperm sc' = sc_nperm sc + N.of_nat (length ds) /\
  sc_nctl sc' = sc_nctl sc /\ sc_nloc sc' = sc_nloc sc /\ sc_ntmp sc' = sc_ntmp sc /\
  (forall k v n t, nth_error ds k = Some (v, n, t) ->
                   sc_get (sc_named sc') n = Some (Report (sc_nperm sc + N.of_nat k) t v)) /\
  (forall m, ~ In m (names_of ds) -> sc_get (sc_named sc') m = sc_get (sc_named sc) m).
Proof.
  induction ds as [|[[v n] t] r IH]; intros sc sc' H Hnd Hfresh; cbn [declare] in H.
  - inversion H; subst. cbn [length]. repeat split; try lia; auto.
    intros k v n t Hk. destruct k; discriminate.
  - unfold new_report in H. destruct (255 <=? sc_nperm sc) eqn:E; [discriminate|]. cbn [bind] in H.
    cbn [names_of] in Hnd, Hfresh. inversion Hnd as [|? ? Hnotin Hnd']; subst.
    set (sc1 := mkScope (rf_insert (sc_named sc) n (Report (sc_nperm sc) t v)) (sc_nctl sc) (sc_nloc sc)
                        (sc_nperm sc + 1) (sc_ntmp sc)) in H.
    assert (Hf1 : forall m, In m (names_of r) -> sc_get (sc_named sc1) m = None).
    { intros m Hm. cbn [sc1 sc_named]. rewrite get_insert_other.
      - apply Hfresh. right. exact Hm.
      - intros ->. contradiction. }
    destruct (IH sc1 sc' H Hnd' Hf1) as (Hp & Hc & Hl & Ht & Hget & Hoth).
    cbn [sc1 sc_nperm sc_nctl sc_nloc sc_ntmp] in Hp, Hc, Hl, Ht, Hget.
    cbn [length]. repeat split; try lia.
    + intros k v0 n0 t0 Hk. destruct k as [|k]; cbn [nth_error] in Hk.
      * inversion Hk; subst. rewrite Hoth by exact Hnotin.
        cbn [sc1 sc_named]. rewrite get_insert_same by (apply Hfresh; left; reflexivity).
        f_equal. f_equal. lia.
      * rewrite (Hget k v0 n0 t0 Hk). f_equal. f_equal. lia.
    + intros m Hm. cbn [names_of] in Hm.
      rewrite Hoth by (intros Hi; apply Hm; right; exact Hi).
      cbn [sc1 sc_named]. apply get_insert_other. intros ->. apply Hm. left. reflexivity.
Qed.

Lemma declare_control_spec : forall ds sc sc',
  declare new_control ds sc = Ok sc' ->
  NoDup (names_of ds) -> (forall n, In n (names_of ds) -> sc_get (sc_named sc) n = None) ->
  sc_nctl sc' = sc_nctl sc + N.of_nat (length ds) /\
  sc_nperm sc' = sc_nperm sc /\ sc_nloc sc' = sc_nloc sc /\ sc_ntmp sc' = sc_ntmp sc /\
  (forall k v n t, nth_error ds k = Some (v, n, t) ->
                   sc_get (sc_named sc') n = Some (Control (sc_nctl sc + N.of_nat k) t v)) /\
  (forall m, ~ In m (names_of ds) -> sc_get (sc_named sc') m = sc_get (sc_named sc) m).
Proof.
  induction ds as [|[[v n] t] r IH]; intros sc sc' H Hnd Hfresh; cbn [declare] in H.
  - inversion H; subst. cbn [length]. repeat split; try lia; auto.
    intros k v n t Hk. destruct k; discriminate.
  - unfold new_control in H. destruct (255 <=? sc_nctl sc) eqn:E; [discriminate|]. cbn [bind] in H.
    cbn [names_of] in Hnd, Hfresh. inversion Hnd as [|? ? Hnotin Hnd']; subst.
    set (sc1 := mkScope (rf_insert (sc_named sc) n (Control (sc_nctl sc) t v)) (sc_nctl sc + 1) (sc_nloc sc)
                        (sc_nperm sc) (sc_ntmp sc)) in H.
    assert (Hf1 : forall m, In m (names_of r) -> sc_get (sc_named sc1) m = None).
    { intros m Hm. cbn [sc1 sc_named]. rewrite get_insert_other.
      - apply Hfresh. right. exact Hm.
      - intros ->. contradiction. }
    destruct (IH sc1 sc' H Hnd' Hf1) as (Hc & Hp & Hl & Ht & Hget & Hoth).
    cbn [sc1 sc_nperm sc_nctl sc_nloc sc_ntmp] in Hp, Hc, Hl, Ht, Hget.
    cbn [length]. repeat split; try lia.
    + intros k v0 n0 t0 Hk. destruct k as [|k]; cbn [nth_error] in Hk.
      * inversion Hk; subst. rewrite Hoth by exact Hnotin.
        cbn [sc1 sc_named]. rewrite get_insert_same by (apply Hfresh; left; reflexivity).
        f_equal. f_equal. lia.
      * rewrite (Hget k v0 n0 t0 Hk). f_equal. f_equal. lia.
    + intros m Hm. cbn [names_of] in Hm.
      rewrite Hoth by (intros Hi; apply Hm; right; exact Hi).
      cbn [sc1 sc_named]. apply get_insert_other. intros ->. apply Hm. left. reflexivity.
Qed.

(* The scope a program's declarations produce: report variables occupy exactly slots 0..n-1 in
   declaration order (Report-block variables first: that is the order [reports] is in), control
   variables slots 0..m-1, each with its declared volatility and initial value; built-in names
   keep their fixed registers. *)
Theorem declarations_scope reports controls sc1 sc2 :
  declare new_report reports scope_new = Ok sc1 ->
  declare new_control controls sc1 = Ok sc2 ->
  NoDup (names_of reports ++ names_of controls) ->
  (forall n, In n (names_of reports ++ names_of controls) -> is_builtin n = false) ->
  (forall k v n t, nth_error reports k = Some (v, n, t) ->
                   sc_get (sc_named sc2) n = Some (Report (N.of_nat k) t v)) /\
  (forall k v n t, nth_error controls k = Some (v, n, t) ->
                   sc_get (sc_named sc2) n = Some (Control (N.of_nat k) t v)) /\
  (forall m, is_builtin m = true -> sc_get (sc_named sc2) m = sc_get (sc_named scope_new) m) /\
  sc_nperm sc2 = N.of_nat (length reports) /\ sc_nctl sc2 = N.of_nat (length controls) /\ sc_nloc sc2 = 0.
Proof.
  intros H1 H2 Hnd Hnb.
  destruct (nodup_app _ _ Hnd) as (Hnd1 & Hnd2 & Hdisj).
  assert (Hfresh_new : forall n, is_builtin n = false -> sc_get (sc_named scope_new) n = None).
  { intros n Hn. unfold is_builtin, builtin_names in Hn.
    (* the initial scope contains exactly the built-in names *)
    assert (Hall : forall l m, sc_get l m = None <-> forallb (fun kv => negb (name_eqb (fst kv) m)) l = true).
    { induction l as [|[k v] t IH]; intros m; cbn [sc_get forallb fst]; [tauto|].
      destruct (name_eqb k m); cbn [negb andb]; [split; discriminate|apply IH]. }
    apply Hall.
    assert (Hkeys : map fst (sc_named scope_new) = map fst (sc_named scope_new)) by reflexivity.
    apply forallb_forall. intros [k v] Hin. cbn [fst].
    destruct (name_eqb k n) eqn:E; [|reflexivity]. exfalso.
    apply name_eqb_eq in E. subst k.
    assert (Hk : In n (map fst (sc_named scope_new))) by (apply in_map_iff; exists (n, v); auto).
    assert (Hb : existsb (name_eqb n) (map fst primitive_names ++ map fst implicit_names) = true).
    { apply existsb_exists. exists n. split; [|apply name_eqb_refl].
      revert Hk. vm_compute. intros Hk.
      repeat (destruct Hk as [Hk|Hk]; [subst; tauto|]). contradiction. }
    congruence. }
  assert (Hf1 : forall n, In n (names_of reports) -> sc_get (sc_named scope_new) n = None).
  { intros n Hn. apply Hfresh_new. apply Hnb. apply in_or_app. left. exact Hn. }
  destruct (declare_report_spec _ _ _ H1 Hnd1 Hf1) as (Hp1 & Hc1 & Hl1 & Ht1 & Hget1 & Hoth1).
  assert (Hf2 : forall n, In n (names_of controls) -> sc_get (sc_named sc1) n = None).
  { intros n Hn. rewrite Hoth1.
    - apply Hfresh_new. apply Hnb. apply in_or_app. right. exact Hn.
    - intros Hi. exact (Hdisj n Hi Hn). }
  destruct (declare_control_spec _ _ _ H2 Hnd2 Hf2) as (Hc2 & Hp2 & Hl2 & Ht2 & Hget2 & Hoth2).
  repeat split.
  - intros k v n t Hk. rewrite Hoth2.
    + rewrite (Hget1 k v n t Hk). reflexivity.
    + intros Hi. apply (Hdisj n); [|exact Hi].
      apply nth_error_In in Hk. clear -Hk. induction reports as [|[[v' n'] t'] r IH]; [contradiction|].
      destruct Hk as [Hk|Hk]; [inversion Hk; left; reflexivity|right; apply IH; exact Hk].
  - intros k v n t Hk. rewrite (Hget2 k v n t Hk). rewrite Hc1. reflexivity.
  - intros m Hm. rewrite Hoth2, Hoth1; [reflexivity| |].
    + intros Hi. assert (is_builtin m = false) by (apply Hnb; apply in_or_app; left; exact Hi). congruence.
    + intros Hi. assert (is_builtin m = false) by (apply Hnb; apply in_or_app; right; exact Hi). congruence.
  - rewrite Hp2, Hp1. reflexivity.
  - rewrite Hc2, Hc1. reflexivity.
  - rewrite Hl2, Hl1. reflexivity.
Qed.
