(* C03: structure of the emitted image (the parts proved so far: lengths, the tiling of the
   instructions by the event table, non-empty condition blocks ending in a write of the event
   flag, per-register limits). *)
From Portus Require Import Image TotalFacts.
From Coq Require Import ZArith ZifyN ZifyNat ZifyBool.

(* ---------- lengths ---------- *)

Lemma ser_reg_img_length r bs : ser_reg_img r = Ok bs -> length bs = 5%nat.
Proof. destruct r; cbn [ser_reg_img]; try discriminate; apply ser_reg_length. Qed.

Lemma ser_instr_length i bs : ser_instr i = Ok bs -> length bs = 16%nat.
Proof.
  unfold ser_instr. intros H.
  apply bind_ok_inv in H. destruct H as (o & _ & H).
  apply bind_ok_inv in H. destruct H as (a & Ha & H).
  apply bind_ok_inv in H. destruct H as (b & Hb & H).
  apply bind_ok_inv in H. destruct H as (c & Hc & H).
  assert (E : bs = o :: a ++ b ++ c) by congruence. subst bs.
  cbn [length]. rewrite !app_length, (ser_reg_img_length _ _ Ha), (ser_reg_img_length _ _ Hb), (ser_reg_img_length _ _ Hc).
  reflexivity.
Qed.

Lemma ser_instrs_length is : forall bs, ser_instrs is = Ok bs -> length bs = (16 * length is)%nat.
Proof.
  induction is as [|i r IH]; intros bs H; cbn [ser_instrs] in H.
  - inversion H. reflexivity.
  - apply bind_ok_inv in H. destruct H as (a & Ha & H).
    apply bind_ok_inv in H. destruct H as (b & Hb & H).
    assert (E : bs = a ++ b) by congruence. subst bs.
    rewrite app_length, (ser_instr_length _ _ Ha), (IH _ Hb). cbn [length]. lia.
Qed.

Lemma ser_event_length e : length (ser_event e) = 16%nat.
Proof. unfold ser_event. rewrite !app_length, !enc_le_length. reflexivity. Qed.

Lemma ser_events_length evs : length (concat (map ser_event evs)) = (16 * length evs)%nat.
Proof.
  induction evs as [|e r IH]; cbn [map concat length]; [reflexivity|].
  rewrite app_length, ser_event_length, IH. lia.
Qed.

(* 16 bytes per event followed by 16 bytes per instruction *)
Theorem image_length b bytes : serialize_bin b = Ok bytes ->
  length bytes = (16 * length (b_events b) + 16 * length (b_instrs b))%nat.
Proof.
  unfold serialize_bin. intros H. apply bind_ok_inv in H. destruct H as (is & His & H).
  assert (E : bytes = concat (map ser_event (b_events b)) ++ is) by congruence. subst bytes.
  rewrite app_length, ser_events_length, (ser_instrs_length _ _ His). reflexivity.
Qed.

(* ---------- registers within the datapath's register files ---------- *)

Definition reg_within (r : reg) : Prop :=
  match r with
  | Control i _ _ => i < 16
  | Report i _ _ => i < 16
  | Implicit i _ => i < 6
  | Local i _ => i < 6
  | Primitive i _ => i <= 15
  | Tmp i _ => i < 8
  | ImmNum n => n < 2147483648 \/ n = U64_MAX
  | ImmBool _ => True
  | RNone => False
  end.

Lemma ser_reg_img_within r bs : ser_reg_img r = Ok bs -> reg_within r.
Proof.
  destruct r as [i t vol|n|b|i t|i t|i t|i t vol|i t|]; cbn [ser_reg_img reg_within]; try discriminate;
    unfold ser_reg; cbn [reg_code]; intros H; try exact I.
  all: unfold LIM_CONTROL, LIM_IMPLICIT, LIM_LOCAL, LIM_PRIMITIVE, LIM_REPORT, LIM_TMP, IMM_LIMIT in *.
  all: repeat match type of H with context [if ?c then _ else _] => destruct c eqn:? end; cbn [bind] in H; try discriminate; try lia.
  all: try (destruct (n =? U64_MAX) eqn:E1; [right; lia|left; lia]).
Qed.

Definition op_defined (o : op) : Prop := o <> OAnd /\ o <> OOr.

Theorem serialized_instrs_within is : forall bytes, ser_instrs is = Ok bytes ->
  Forall (fun i => reg_within (i_res i) /\ reg_within (i_left i) /\ reg_within (i_right i)) is.
Proof.
  induction is as [|i r IH]; intros bytes H; cbn [ser_instrs] in H; [constructor|].
  apply bind_ok_inv in H. destruct H as (a & Ha & H).
  apply bind_ok_inv in H. destruct H as (b & Hb & _).
  constructor; [|eapply IH; exact Hb].
  unfold ser_instr in Ha.
  apply bind_ok_inv in Ha. destruct Ha as (o & _ & Ha).
  apply bind_ok_inv in Ha. destruct Ha as (x & Hx & Ha).
  apply bind_ok_inv in Ha. destruct Ha as (y & Hy & Ha).
  apply bind_ok_inv in Ha. destruct Ha as (z & Hz & _).
  repeat split; eapply ser_reg_img_within; eassumption.
Qed.

(* ---------- the event table tiles the instructions ---------- *)

Fixpoint tiles_abs (next : N) (evs : list devent) (flags bodies : list nat) : Prop :=
  match evs, flags, bodies with
  | [], [], [] => True
  | e :: r, f :: fr, b :: br =>
    e_flag_idx e = next /\ e_num_flag e = N.of_nat f /\ (1 <= f)%nat /\
    e_body_idx e = next + N.of_nat f /\ e_num_body e = N.of_nat b /\
    tiles_abs (next + N.of_nat f + N.of_nat b) r fr br
  | _, _, _ => False
  end.

Lemma compile_flag_nonempty e sc is sc' : compile_flag e sc = Ok (is, sc') ->
  (1 <= length is)%nat /\
  exists before last, is = before ++ [last] /\
    sc_get (sc_named sc') (lit "__eventFlag") = Some (i_res last).
Proof.
  unfold compile_flag. intros H.
  apply bind_ok_inv in H. destruct H as ([[is0 res] sc1] & Hc & H).
  destruct (sc_get (sc_named sc1) (lit "__eventFlag")) as [fr|] eqn:Ef; [|discriminate].
  destruct res as [i t vol|x|b|i t|i t|i t|i t vol|i t|]; try discriminate.
  - inversion H; subst. rewrite app_length. cbn [length]. split; [lia|].
    exists is0, (mkInstr fr OBind fr (ImmBool b)). split; [reflexivity|exact Ef].
  - destruct t; try discriminate.
    unfold set_last_res in H. destruct (rev is0) as [|l before] eqn:Er; [discriminate|].
    inversion H; subst. rewrite app_length. cbn [length]. split; [lia|].
    exists (rev before), (mkInstr fr (i_op l) (i_left l) (i_right l)). split; [reflexivity|exact Ef].
Qed.

Theorem events_tile evs : forall sc idx devs is sc', compile_events evs sc idx = Ok (devs, is, sc') ->
  exists flags bodies, tiles_abs idx devs flags bodies /\
    length is = (fold_right plus 0 flags + fold_right plus 0 bodies)%nat /\
    length devs = length evs.
Proof.
  induction evs as [|ev r IH]; intros sc idx devs is sc' H; cbn [compile_events] in H.
  - inversion H; subst. exists [], []. cbn. auto.
  - apply bind_ok_inv in H. destruct H as ([fi sc1] & Hf & H).
    apply bind_ok_inv in H. destruct H as ([bi sc2] & Hb & H).
    apply bind_ok_inv in H. destruct H as ([[evs' is'] sc3] & Hr & H).
    inversion H; subst; clear H.
    destruct (IH _ _ _ _ _ Hr) as (flags & bodies & Ht & Hl & Hn).
    destruct (compile_flag_nonempty _ _ _ _ Hf) as [Hne _].
    exists (length fi :: flags), (length bi :: bodies).
    cbn [tiles_abs e_flag_idx e_num_flag e_body_idx e_num_body fold_right length].
    repeat split; auto.
    rewrite !app_length, Hl. lia.
Qed.

(* the image begins with the preamble: one DEF per report/control variable with a literal
   initial value, in the scope's (name) order, and the first event starts right after it *)
Theorem preamble_then_events p sc b sc' : compile_prog p sc = Ok (b, sc') ->
  exists is, b_instrs b = def_instrs (sc_named sc) ++ is /\
    exists flags bodies, tiles_abs (N.of_nat (length (def_instrs (sc_named sc)))) (b_events b) flags bodies /\
      length is = (fold_right plus 0 flags + fold_right plus 0 bodies)%nat /\
      length (b_events b) = length p.
Proof.
  unfold compile_prog. intros H.
  apply bind_ok_inv in H. destruct H as ([[evs is] sc2] & He & H). inversion H; subst; clear H.
  exists is. split; [reflexivity|]. cbn [b_events]. eapply events_tile. exact He.
Qed.
