(* C20, non-vacuity of the acceptance theorem: the example program of LayoutExample.v is well
   typed and within the limits, so both of its layouts compile and serialize by the theorem. *)
From Portus Require Import Accept LayoutExample.

Lemma ex_accepts : accepts ex_prog [].
Proof.
  constructor.
  - vm_compute. repeat (constructor; [intros H; repeat (destruct H as [H|H]; [discriminate H|]); exact H|]). constructor.
  - intros n Hn. vm_compute in Hn. repeat (destruct Hn as [Hn|Hn]; [subst n; reflexivity|]). contradiction.
  - apply Forall_forall. intros d Hd. vm_compute in Hd. destruct Hd as [<-|[<-|[]]]; split; try discriminate; reflexivity.
  - vm_compute. lia.
  - vm_compute. lia.
  - cbn. lia.
  - vm_compute. reflexivity.
  - unfold ex_prog. cbn [ap_events]. constructor; [|constructor]. split.
    + split; [cbn; repeat split; reflexivity|]. split; [|cbn; lia].
      intros x Hx. cbn in Hx. contradiction.
    + cbn [ev_body]. constructor; [|constructor; [exact I|constructor]].
      split; [cbn; repeat split; reflexivity|]. split; [|cbn; lia].
      intros x Hx. cbn in Hx. destruct Hx as [<-|[]]. right. vm_compute. discriminate.
Qed.

Example ex_compiles : forall src, utf8_decode src = Some text_b ->
  exists bytes sc, compile_and_serialize src [] = inl (Ok (bytes, sc)).
Proof. intros src H. exact (grammar_accepted ex_prog [] text_b src lay_b H ex_accepts). Qed.
