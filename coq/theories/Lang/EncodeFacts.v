(* What libccp holds after reading a serialized program: read_instruction / read_instrs /
   read_exprs applied to the bytes of ser_instr / ser_instrs / ser_event give back the direct
   translation (dinstr_of, dexpr_of) of the compiler's instructions and events. *)
From Portus Require Export MachFacts.
From Portus Require Import ImageFacts.

Lemma enc4 v : exists a0 a1 a2 a3, enc_le 4 v = [a0; a1; a2; a3].
Proof. cbn [enc_le]. eauto. Qed.

Lemma dec4 v a0 a1 a2 a3 : enc_le 4 v = [a0; a1; a2; a3] -> dec_le [a0; a1; a2; a3] = v mod 4294967296.
Proof. intros <-. rewrite dec_enc_le. reflexivity. Qed.

Lemma reg_code_dreg r c v : reg_code r = Ok (c, v) ->
  deser_reg c (v mod 4294967296) = Some (dreg_of r) /\ c < 256.
Proof.
  destruct r as [i t vol|n|b|i t|i t|i t|i t vol|i t|]; cbn [reg_code]; intros H; try discriminate H.
  - destruct (LIM_CONTROL <? i) eqn:E; [discriminate|]. apply N.ltb_ge in E. unfold LIM_CONTROL in E.
    inversion H; subst. rewrite N.mod_small by lia. destruct vol; cbn; split; try reflexivity; lia.
  - destruct ((n =? U64_MAX) || (n <? IMM_LIMIT)); [|discriminate]. inversion H; subst.
    rewrite N.mod_mod by lia. cbn. split; [reflexivity|lia].
  - inversion H; subst. destruct b; cbn; split; try reflexivity; lia.
  - destruct (LIM_IMPLICIT <? i) eqn:E; [discriminate|]. apply N.ltb_ge in E. unfold LIM_IMPLICIT in E.
    inversion H; subst. rewrite N.mod_small by lia. cbn; split; try reflexivity; lia.
  - destruct (LIM_LOCAL <? i) eqn:E; [discriminate|]. apply N.ltb_ge in E. unfold LIM_LOCAL in E.
    inversion H; subst. rewrite N.mod_small by lia. cbn; split; try reflexivity; lia.
  - destruct (LIM_PRIMITIVE <? i) eqn:E; [discriminate|]. apply N.ltb_ge in E. unfold LIM_PRIMITIVE in E.
    inversion H; subst. rewrite N.mod_small by lia. cbn; split; try reflexivity; lia.
  - destruct (LIM_REPORT <? i) eqn:E; [discriminate|]. apply N.ltb_ge in E. unfold LIM_REPORT in E.
    inversion H; subst. rewrite N.mod_small by lia. destruct vol; cbn; split; try reflexivity; lia.
  - destruct (LIM_TMP <? i) eqn:E; [discriminate|]. apply N.ltb_ge in E. unfold LIM_TMP in E.
    inversion H; subst. rewrite N.mod_small by lia. cbn; split; try reflexivity; lia.
Qed.

Lemma ser_reg_img_inv r bs : ser_reg_img r = Ok bs ->
  exists c v, reg_code r = Ok (c, v) /\ bs = c :: enc_le 4 v.
Proof.
  destruct r as [i t vol|n|b|i t|i t|i t|i t vol|i t|]; cbn [ser_reg_img]; try discriminate;
    unfold ser_reg; intros H; apply bind_ok_inv in H; destruct H as ([c v] & H1 & H); inversion H; eauto.
Qed.

(* a register an instruction may write: not an immediate, not a primitive, not the placeholder *)
Definition res_writable (r : reg) : Prop := match slot r with Some _ => True | None => False end.

Lemma res_writable_code r c v : res_writable r -> reg_code r = Ok (c, v) ->
  (c =? T_IMM) || (c =? T_PRIM) = false.
Proof.
  destruct r as [i t vol|n|b|i t|i t|i t|i t vol|i t|]; cbn [res_writable slot reg_code]; intros Hw H; try contradiction.
  all: repeat match type of H with (if ?x then _ else _) = _ => destruct x end; try discriminate H; inversion H; subst;
    try destruct vol; reflexivity.
Qed.

Lemma ser_op_lt o n : ser_op o = Ok n -> n < 15 /\ opcode o = n.
Proof. unfold opcode. destruct o; cbn; intros H; inversion H; subst; split; try reflexivity; lia. Qed.

Theorem read_ser_instr i bs : ser_instr i = Ok bs -> res_writable (i_res i) ->
  read_instruction bs = inr (dinstr_of i).
Proof.
  unfold ser_instr. intros H Hw.
  apply bind_ok_inv in H. destruct H as (o & Ho & H).
  apply bind_ok_inv in H. destruct H as (a & Ha & H).
  apply bind_ok_inv in H. destruct H as (b & Hb & H).
  apply bind_ok_inv in H. destruct H as (c & Hc & H). inversion H; subst bs; clear H.
  apply ser_reg_img_inv in Ha. destruct Ha as (ca & va & Ra & ->).
  apply ser_reg_img_inv in Hb. destruct Hb as (cb & vb & Rb & ->).
  apply ser_reg_img_inv in Hc. destruct Hc as (cc & vc & Rc & ->).
  destruct (ser_op_lt _ _ Ho) as [Hlt Hop].
  destruct (enc4 va) as (a0 & a1 & a2 & a3 & Ea). destruct (enc4 vb) as (b0 & b1 & b2 & b3 & Eb).
  destruct (enc4 vc) as (c0 & c1 & c2 & c3 & Ec).
  rewrite Ea, Eb, Ec. cbn [app].
  unfold read_instruction. cbn [nth].
  destruct (15 <=? o) eqn:E15; [apply N.leb_le in E15; lia|].
  rewrite (res_writable_code _ _ _ Hw Ra).
  unfold le32, le_at, sub. cbn [skipn firstn Nat.sub Nat.add].
  rewrite (dec4 _ _ _ _ _ Ea). destruct (reg_code_dreg _ _ _ Ra) as [-> _]. cbv iota beta.
  rewrite (dec4 _ _ _ _ _ Eb). destruct (reg_code_dreg _ _ _ Rb) as [-> _]. cbv iota beta.
  rewrite (dec4 _ _ _ _ _ Ec). destruct (reg_code_dreg _ _ _ Rc) as [-> _]. cbv iota beta.
  unfold dinstr_of. rewrite Hop. reflexivity.
Qed.

Theorem read_ser_instrs is : forall bs tail, ser_instrs is = Ok bs -> Forall (fun i => res_writable (i_res i)) is ->
  read_instrs (length is) (bs ++ tail) = inr (map dinstr_of is).
Proof.
  induction is as [|i r IH]; intros bs tail H Hw; cbn [ser_instrs] in H.
  - inversion H; subst. reflexivity.
  - apply bind_ok_inv in H. destruct H as (a & Ha & H).
    apply bind_ok_inv in H. destruct H as (b & Hb & H). inversion H; subst bs; clear H.
    inversion Hw as [|? ? Hwi Hwr]; subst.
    pose proof (ser_instr_length _ _ Ha) as La.
    cbn [length read_instrs map]. rewrite <- app_assoc.
    rewrite firstn_app, La, Nat.sub_diag, firstn_all2 by lia. cbn [firstn]. rewrite app_nil_r.
    rewrite (read_ser_instr _ _ Ha Hwi).
    rewrite skipn_app, La, Nat.sub_diag, skipn_all2 by lia. cbn [skipn app].
    rewrite (IH _ _ Hb Hwr). reflexivity.
Qed.

Definition dexpr_of (d : Lower.devent) : dexpr :=
  mkDExpr (e_flag_idx d) (e_num_flag d) (e_body_idx d) (e_num_body d).

Definition devent_small (d : Lower.devent) : Prop :=
  e_flag_idx d < 4294967296 /\ e_num_flag d < 4294967296 /\ e_body_idx d < 4294967296 /\ e_num_body d < 4294967296.

Theorem read_ser_events evs : forall tail, Forall devent_small evs ->
  read_exprs (length evs) (concat (map ser_event evs) ++ tail) = map dexpr_of evs.
Proof.
  induction evs as [|d r IH]; intros tail Hs; [reflexivity|].
  inversion Hs as [|? ? (H1 & H2 & H3 & H4) Hr]; subst.
  cbn [length map concat]. unfold ser_event at 1.
  destruct (enc4 (e_flag_idx d)) as (a0 & a1 & a2 & a3 & Ea). destruct (enc4 (e_num_flag d)) as (b0 & b1 & b2 & b3 & Eb).
  destruct (enc4 (e_body_idx d)) as (c0 & c1 & c2 & c3 & Ec). destruct (enc4 (e_num_body d)) as (d0 & d1 & d2 & d3 & Ed).
  rewrite Ea, Eb, Ec, Ed. cbn [app]. cbn [read_exprs].
  unfold le32, le_at, sub. cbn [skipn firstn Nat.sub Nat.add].
  rewrite (dec4 _ _ _ _ _ Ea), (dec4 _ _ _ _ _ Eb), (dec4 _ _ _ _ _ Ec), (dec4 _ _ _ _ _ Ed).
  rewrite !N.mod_small by assumption.
  rewrite (IH _ Hr). reflexivity.
Qed.

(* the same without knowing beforehand that the result registers are writable: whenever libccp
   accepts the bytes, what it holds is the direct translation *)
Theorem read_ser_instr_inv i bs di : ser_instr i = Ok bs -> read_instruction bs = inr di -> di = dinstr_of i.
Proof.
  unfold ser_instr. intros H Hr.
  apply bind_ok_inv in H. destruct H as (o & Ho & H).
  apply bind_ok_inv in H. destruct H as (a & Ha & H).
  apply bind_ok_inv in H. destruct H as (b & Hb & H).
  apply bind_ok_inv in H. destruct H as (c & Hc & H). inversion H; subst bs; clear H.
  apply ser_reg_img_inv in Ha. destruct Ha as (ca & va & Ra & ->).
  apply ser_reg_img_inv in Hb. destruct Hb as (cb & vb & Rb & ->).
  apply ser_reg_img_inv in Hc. destruct Hc as (cc & vc & Rc & ->).
  destruct (ser_op_lt _ _ Ho) as [Hlt Hop].
  destruct (enc4 va) as (a0 & a1 & a2 & a3 & Ea). destruct (enc4 vb) as (b0 & b1 & b2 & b3 & Eb).
  destruct (enc4 vc) as (c0 & c1 & c2 & c3 & Ec).
  rewrite Ea, Eb, Ec in Hr. cbn [app] in Hr.
  unfold read_instruction in Hr. cbn [nth] in Hr.
  destruct (15 <=? o) eqn:E15; [discriminate Hr|].
  destruct ((ca =? T_IMM) || (ca =? T_PRIM)); [discriminate Hr|].
  unfold le32, le_at, sub in Hr. cbn [skipn firstn Nat.sub Nat.add] in Hr.
  rewrite (dec4 _ _ _ _ _ Ea) in Hr. destruct (reg_code_dreg _ _ _ Ra) as [Ha' _]. rewrite Ha' in Hr. cbv iota beta in Hr.
  rewrite (dec4 _ _ _ _ _ Eb) in Hr. destruct (reg_code_dreg _ _ _ Rb) as [Hb' _]. rewrite Hb' in Hr. cbv iota beta in Hr.
  rewrite (dec4 _ _ _ _ _ Ec) in Hr. destruct (reg_code_dreg _ _ _ Rc) as [Hc' _]. rewrite Hc' in Hr. cbv iota beta in Hr.
  inversion Hr. unfold dinstr_of. rewrite Hop. reflexivity.
Qed.

Theorem read_ser_instrs_inv is : forall bs tail dis, ser_instrs is = Ok bs ->
  read_instrs (length is) (bs ++ tail) = inr dis -> dis = map dinstr_of is.
Proof.
  induction is as [|i r IH]; intros bs tail dis H Hr; cbn [ser_instrs] in H.
  - inversion H; subst. cbn in Hr. inversion Hr. reflexivity.
  - apply bind_ok_inv in H. destruct H as (a & Ha & H).
    apply bind_ok_inv in H. destruct H as (b & Hb & H). inversion H; subst bs; clear H.
    pose proof (ser_instr_length _ _ Ha) as La.
    cbn [length read_instrs map] in *. rewrite <- app_assoc in Hr.
    rewrite firstn_app, La, Nat.sub_diag, firstn_all2 in Hr by lia. cbn [firstn] in Hr. rewrite app_nil_r in Hr.
    destruct (read_instruction a) as [e|di] eqn:Ei; [discriminate Hr|].
    rewrite skipn_app, La, Nat.sub_diag, skipn_all2 in Hr by lia. cbn [skipn app] in Hr.
    destruct (read_instrs (length r) (b ++ tail)) as [e|dr] eqn:Er; [discriminate Hr|].
    inversion Hr; subst dis. f_equal; [eapply read_ser_instr_inv; eauto|eapply IH; eauto].
Qed.
