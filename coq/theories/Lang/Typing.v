(* The documented typing discipline of the datapath language (the quantifier of C01 and C20),
   as a boolean checker, and the class of programs in which an operand can be overwritten
   between its evaluation and its use (the recorded C01 finding). *)
From Portus Require Export SrcSem.

Inductive vty := VNum | VBool.
Definition vty_eqb (a b : vty) : bool := match a, b with VNum, VNum | VBool, VBool => true | _, _ => false end.

Inductive vclass := KReport | KControl | KLocal | KImplicit | KPrim.

Definition tenv := list (name * (vty * vclass)).

Fixpoint tget (g : tenv) (n : name) : option (vty * vclass) :=
  match g with
  | [] => None
  | (k, v) :: r => if name_eqb k n then Some v else tget r n
  end.

Definition builtin_tenv : tenv :=
  map (fun n => (n, (VNum, KPrim)))
      [lit "Ack.bytes_acked"; lit "Ack.bytes_misordered"; lit "Ack.ecn_bytes"; lit "Ack.ecn_packets";
       lit "Ack.lost_pkts_sample"; lit "Ack.now"; lit "Ack.packets_acked"; lit "Ack.packets_misordered";
       lit "Flow.bytes_in_flight"; lit "Flow.bytes_pending"; lit "Flow.packets_in_flight";
       lit "Flow.rate_incoming"; lit "Flow.rate_outgoing"; lit "Flow.rtt_sample_us"] ++
  [(lit "Flow.was_timeout", (VBool, KPrim)); (lit "Micros", (VNum, KImplicit));
   (lit "Cwnd", (VNum, KImplicit)); (lit "Rate", (VNum, KImplicit))].

Definition lit_ok (n : N) : bool := (n <? 2147483648) || (n =? 18446744073709551615).

Definition is_arith (o : op) : bool :=
  match o with OAdd | OSub | OMul | ODiv | OMax | OMin | OMaxWrap => true | _ => false end.
Definition is_cmp (o : op) : bool := match o with OEquiv | OGt | OLt => true | _ => false end.
Definition is_logic (o : op) : bool := match o with OAnd | OOr => true | _ => false end.
Definition is_valop (o : op) : bool := is_arith o || is_cmp o || is_logic o.

(* type of an expression, threading the environment (a bind of a new name declares a local) *)
Fixpoint ty_expr (g : tenv) (e : expr) : option (vty * tenv) :=
  match e with
  | Atom (PBool _) => Some (VBool, g)
  | Atom (PNum n) => if lit_ok n then Some (VNum, g) else None
  | Atom (PName x) => match tget g x with Some (t, _) => Some (t, g) | None => None end
  | Sexp OBind (Atom (PName x)) (Sexp OIf c v) | Sexp OBind (Atom (PName x)) (Sexp ONotIf c v) =>
    match ty_expr g c with
    | Some (VBool, g1) =>
      match ty_expr g1 v with
      | Some (t, g2) =>
        match tget g2 x with
        | Some (tx, KReport) | Some (tx, KControl) => if vty_eqb tx t then Some (t, g2) else None
        | _ => None
        end
      | None => None
      end
    | _ => None
    end
  | Sexp OBind (Atom (PName x)) (Sexp OEwma a b) =>
    match ty_expr g a with
    | Some (VNum, g1) =>
      match ty_expr g1 b with
      | Some (VNum, g2) =>
        match tget g2 x with
        | Some (VNum, KReport) | Some (VNum, KControl) => Some (VNum, g2)
        | _ => None
        end
      | _ => None
      end
    | _ => None
    end
  | Sexp OBind (Atom (PName x)) v =>
    match ty_expr g v with
    | Some (t, g1) =>
      match tget g1 x with
      | Some (_, KPrim) => None
      | Some (tx, _) => if vty_eqb tx t then Some (t, g1) else None
      | None => Some (t, (x, (t, KLocal)) :: g1)
      end
    | None => None
    end
  (* a bind whose target is itself a bind: the value has the type of the inner bind's variable *)
  | Sexp OBind ((Sexp OBind _ _) as t) v =>
    match v with
    | Sexp OIf _ _ | Sexp ONotIf _ _ | Sexp OEwma _ _ => None
    | _ =>
      match ty_expr g t with
      | Some (ty1, g1) =>
        match ty_expr g1 v with
        | Some (tv, g2) => if vty_eqb ty1 tv then Some (tv, g2) else None
        | None => None
        end
      | None => None
      end
    end
  | Sexp o l r =>
    if is_arith o || is_cmp o || is_logic o then
      match ty_expr g l with
      | Some (tl, g1) =>
        match ty_expr g1 r with
        | Some (tr, g2) =>
          if is_logic o then (if vty_eqb tl VBool && vty_eqb tr VBool then Some (VBool, g2) else None)
          else if vty_eqb tl VNum && vty_eqb tr VNum then Some ((if is_cmp o then VBool else VNum), g2) else None
        | None => None
        end
      | None => None
      end
    else None
  | Cmd _ | ENone => None
  end.

Fixpoint ty_body (g : tenv) (es : list expr) : option tenv :=
  match es with
  | [] => Some g
  | Cmd _ :: r | ENone :: r => ty_body g r
  | e :: r => match ty_expr g e with Some (_, g1) => ty_body g1 r | None => None end
  end.

(* an event condition: a boolean literal, or a comparison / logical operator expression *)
Definition ty_cond (g : tenv) (e : expr) : option tenv :=
  match e with
  | Atom (PBool _) => Some g
  | Sexp o _ _ => if is_cmp o || is_logic o then
                    match ty_expr g e with Some (VBool, g1) => Some g1 | _ => None end
                  else None
  | _ => None
  end.

Fixpoint ty_events (g : tenv) (evs : list sevent) : bool :=
  match evs with
  | [] => true
  | ev :: r => match ty_cond g (se_cond ev) with
               | Some g1 => match ty_body g1 (se_body ev) with
                            | Some g2 => ty_events g2 r
                            | None => false
                            end
               | None => false
               end
  end.

Fixpoint nodup_names (l : list name) : bool :=
  match l with
  | [] => true
  | x :: r => negb (existsb (name_eqb x) r) && nodup_names r
  end.

Definition decl_tenv (ds : list sdecl) (tys : list vty) : tenv :=
  map (fun dt => (sd_name (fst dt), (snd dt, if sd_report (fst dt) then KReport else KControl))) (combine ds tys).

(* well-typed: declarations with literal initial values, names distinct and not built-in, events typed *)
Definition wt_prog (p : sprog) (tys : list vty) : bool :=
  Nat.eqb (length tys) (length (sp_decls p)) &&
  forallb (fun d => match sd_init d with Some _ => true | None => false end) (sp_decls p) &&
  nodup_names (map sd_name (sp_decls p)) &&
  forallb (fun d => match tget builtin_tenv (sd_name d) with None => true | Some _ => false end) (sp_decls p) &&
  (* nor one of the three internal flags (names beginning with "__" are reserved) *)
  forallb (fun d => negb (existsb (name_eqb (sd_name d)) [flag_n; cont_n; report_n])) (sp_decls p) &&
  negb (Nat.eqb (length (sp_events p)) 0) &&
  ty_events (decl_tenv (sp_decls p) tys ++ builtin_tenv) (sp_events p).

(* ---------- the clobber class ---------- *)

Fixpoint assigns (e : expr) (x : name) : bool :=
  match e with
  | Sexp OBind (Atom (PName y)) v => name_eqb y x || assigns v x
  | Sexp _ l r => assigns l x || assigns r x
  | _ => false
  end.

(* the named register an operand is read from when the operator's instruction runs *)
Fixpoint direct_var (e : expr) : option name :=
  match e with
  | Atom (PName x) => match primitive_index x with Some _ => None | None => Some x end
  | Sexp OBind (Atom (PName x)) _ => Some x
  | Sexp OBind ((Sexp OBind _ _) as t) _ => direct_var t
  | _ => None
  end.

Definition is_condop (o : op) : bool := match o with OIf | ONotIf | OEwma => true | _ => false end.

Fixpoint clobbers (e : expr) : bool :=
  match e with
  | Sexp OBind (Atom (PName _)) ((Sexp o c v) as w) =>
    (* if / !if / ewma under a bind: the operands of the inner operator *)
    if is_condop o then match direct_var c with Some x => assigns v x | None => false end || clobbers c || clobbers v
    else clobbers w
  | Sexp OBind (Atom (PName _)) v => clobbers v
  | Sexp _ l r =>
    match direct_var l with Some x => assigns r x | None => false end || clobbers l || clobbers r
  | _ => false
  end.

Definition clobbers_prog (p : sprog) : bool :=
  existsb (fun ev => clobbers (se_cond ev) || existsb clobbers (se_body ev)) (sp_events p).

(* libccp reads a declared initial value of 0x3fffffff back as infinity (its legacy encoding) *)
Definition legacy_inf_prog (p : sprog) : bool :=
  existsb (fun d => match sd_init d with Some v => v =? 1073741823 | None => false end) (sp_decls p).
