(* C01: the two sides of the compile-correctness statement as executable functions of
   (source text, inputs): the emitted image loaded into the libccp model and run, and the
   source semantics run on the same inputs; and the observation that compares them. *)
From Portus Require Export Image Machine SrcSem Typing Control.

(* compile, build the install and change-program messages exactly as the runtime does, feed them
   to the datapath model, start a connection *)
(* the declared variables in slot order: report variables by report slot, then control variables
   by control slot, each with its volatility and literal initial value *)
Definition find_slot (named : list (name * reg)) (is_rep : bool) (k : N) : option (name * reg) :=
  find (fun kv => match snd kv with
                  | Report i _ _ => is_rep && (i =? k)
                  | Control i _ _ => negb is_rep && (i =? k)
                  | _ => false
                  end) named.

Definition entries_in_order (named : list (name * reg)) (nrep nctl : nat) : list (name * reg) :=
  flat_map (fun k => match find_slot named true (N.of_nat k) with Some kv => [kv] | None => [] end) (seq 0 nrep) ++
  flat_map (fun k => match find_slot named false (N.of_nat k) with Some kv => [kv] | None => [] end) (seq 0 nctl).

Definition decl_of (kv : name * reg) : sdecl * vty :=
  match snd kv with
  | Report _ (TNum (Some n)) v => (mkSD (fst kv) v (Some n) true, VNum)
  | Report _ (TBool (Some b)) v => (mkSD (fst kv) v (Some (if b then 1 else 0)) true, VBool)
  | Report _ _ v => (mkSD (fst kv) v None true, VNum)
  | Control _ (TNum (Some n)) v => (mkSD (fst kv) v (Some n) false, VNum)
  | Control _ (TBool (Some b)) v => (mkSD (fst kv) v (Some (if b then 1 else 0)) false, VBool)
  | Control _ _ v => (mkSD (fst kv) v None false, VNum)
  | _ => (mkSD (fst kv) false None false, VNum)
  end.

Definition decls_of_scope (sc0 : scope) : list (sdecl * vty) :=
  map decl_of (entries_in_order (sc_named sc0) (N.to_nat (sc_nperm sc0)) (N.to_nat (sc_nctl sc0))).

(* compile, build the install and change-program messages exactly as the runtime does, feed them
   to the datapath model, start a connection *)
Definition load (src : list N) (uid : N) : option (dpstate * sprog * list vty * scope) :=
  match utf8_decode src with
  | None => None
  | Some cps =>
    match new_with_scope cps, compile src [] with
    | inl (Ok (evs, sc0)), inl (Ok (b, scf)) =>
      match serialize_install 0 uid (N.of_nat (length (b_events b))) (N.of_nat (length (b_instrs b))) (serialize_bin b),
            serialize_changeprog 1 uid 0 [] with
      | Ok im, Ok cp =>
        let '(rc1, d1) := read_msg dp_init im in
        let '(d2, _) := conn_start d1 10 1448 [] in
        let '(rc2, d3) := read_msg d2 cp in
        if (rc1 =? 0)%Z && (rc2 =? 0)%Z then
          Some (d3,
                mkSP (map fst (decls_of_scope sc0))
                     (map (fun ev => mkSEv (ev_flag ev) (ev_body ev)) evs),
                map snd (decls_of_scope sc0), scf)
        else None
      | _, _ => None
      end
    | _, _ => None
    end
  end.

(* one input: the primitives and the clock reading of an invocation *)
Definition input := (prims * N)%type.

Definition set_input (d : dpstate) (i : input) : dpstate :=
  match d_conn d with
  | Some c => mkDp (snd i) (d_time_zero d) (d_progs d)
                   (Some (mkConn (c_index c) (c_sent_create c) (c_time_zero c) (c_prog c) (c_staged c) (c_regs c)
                                 (c_pend_ctl c) (c_pend_cwnd c) (c_pend_rate c) (fst i)))
  | None => d
  end.

(* what is observable of one invocation: fault code, window and rate settings, the report, and
   afterwards the value of every variable (through the scope's slot on the machine side) *)
Record obs := mkObs { o_rc : Z; o_cwnd : list N; o_rate : list N; o_report : list (list N); o_vars : list (name * N) }.

Definition var_names (sc : scope) : list (name * reg) :=
  filter (fun kv => match snd kv with Report _ _ _ | Control _ _ _ | Local _ _ => true | _ => false end) (sc_named sc).

Definition reg_value (rg : regs) (r : reg) : N :=
  match r with
  | Report i _ _ => getn (r_report rg) i
  | Control i _ _ => getn (r_control rg) i
  | Local i _ => getn (r_local rg) i
  | _ => 0
  end.

Fixpoint machine_run (sc : scope) (nrep : nat) (d : dpstate) (ins : list input) : list obs :=
  match ins with
  | [] => []
  | i :: r =>
    let '(rc, d', evs) := invoke (set_input d i) in
    let rg := match d_conn d' with Some c => c_regs c | None => regs0 end in
    mkObs rc
          (flat_map (fun e => match e with DSetCwnd v => [v] | _ => [] end) evs)
          (flat_map (fun e => match e with DSetRate v => [v] | _ => [] end) evs)
          (flat_map (fun e => match e with DSend b => [firstn nrep (u64s_of (length b) (skipn 16 b))] | _ => [] end) evs)
          (map (fun kv => (fst kv, reg_value rg (snd kv))) (var_names sc))
    :: machine_run sc nrep d' r
  end.

Fixpoint src_run (sc : scope) (p : sprog) (first : bool) (s : sstate) (ins : list input) : list obs :=
  match ins with
  | [] => []
  | i :: r =>
    let cx := mkCtx (snd i) 1000 (fst i) in
    let '(rc, s', outs) := invoke_src p cx (mkPend first []) s in
    mkObs rc
          (flat_map (fun o => match o with SCwnd v => [v] | _ => [] end) outs)
          (flat_map (fun o => match o with SRate v => [v] | _ => [] end) outs)
          (flat_map (fun o => match o with SReport f => [f] | _ => [] end) outs)
          (map (fun kv => (fst kv, env_get (s_env s') (fst kv))) (var_names sc))
    :: src_run sc p false s' r
  end.

Definition obs_eqb (a b : obs) : bool :=
  (o_rc a =? o_rc b)%Z &&
  (if list_eq_dec N.eq_dec (o_cwnd a) (o_cwnd b) then true else false) &&
  (if list_eq_dec N.eq_dec (o_rate a) (o_rate b) then true else false) &&
  (if list_eq_dec (list_eq_dec N.eq_dec) (o_report a) (o_report b) then true else false) &&
  (if list_eq_dec N.eq_dec (map snd (o_vars a)) (map snd (o_vars b)) then true else false).

Fixpoint all_obs_eq (a b : list obs) : bool :=
  match a, b with
  | [], [] => true
  | x :: r, y :: r' => obs_eqb x y && all_obs_eq r r'
  | _, _ => false
  end.

(* the end-to-end check on one program and one input sequence *)
Definition agrees (src : list N) (ins : list input) : option bool :=
  match load src 77 with
  | None => None
  | Some (d, p, tys, sc) =>
    let nrep := length (filter (fun d => sd_report d) (sp_decls p)) in
    Some (all_obs_eq (machine_run sc nrep d ins) (src_run sc p true (mkS [] 1000) ins))
  end.

Definition in_c01_scope (src : list N) : bool :=
  match load src 77 with
  | Some (_, p, tys, _) => wt_prog p tys && negb (clobbers_prog p) && negb (legacy_inf_prog p)
  | None => false
  end.

Fixpoint clock_monotone (last : N) (ins : list input) : bool :=
  match ins with
  | [] => true
  | i :: r => (last <=? snd i) && clock_monotone (snd i) r
  end.
