(* C20: the documented grammar as a layout relation over abstract programs, and the theorem
   that every layout of a program parses to that program.  Part 1: tokens and expressions.

   A layout fixes everything the property lets vary: the runs of space/tab/CR/LF between
   tokens (empty wherever two tokens cannot fuse), the spelling of each operator, and the
   newline-terminated comments before events and among the statements of an event. *)
From Portus Require Export Image LayoutFacts LitFacts ParserFacts.
From Coq Require Import ZArith ZifyN ZifyNat ZifyBool.

(* ---------- characters ---------- *)

Definition tok_end (rest : list N) : Prop :=
  match rest with [] => True | c :: _ => is_name_char c = false end.

Definition starts_nonws (t : list N) : Prop :=
  match t with c :: _ => is_ws c = false | [] => False end.

Lemma ws_not_name c : is_ws c = true -> is_name_char c = false.
Proof.
  unfold is_ws. intros H.
  destruct (c =? 32) eqn:E1; [apply N.eqb_eq in E1; subst; reflexivity|].
  destruct (c =? 9) eqn:E2; [apply N.eqb_eq in E2; subst; reflexivity|].
  destruct (c =? 13) eqn:E3; [apply N.eqb_eq in E3; subst; reflexivity|].
  destruct (c =? 10) eqn:E4; [apply N.eqb_eq in E4; subst; reflexivity|discriminate H].
Qed.

Lemma name_not_ws c : is_name_char c = true -> is_ws c = false.
Proof. intros H. destruct (is_ws c) eqn:E; [|reflexivity]. apply ws_not_name in E. congruence. Qed.

Lemma digit_is_name c : is_digit c = true -> is_name_char c = true.
Proof.
  unfold is_name_char, is_alnum_byte, is_digit. intros H.
  assert (Hc : c mod 256 = c) by (apply N.mod_small; lia). rewrite Hc, H. rewrite orb_true_r. reflexivity.
Qed.

Lemma skip_ws_nonws t : starts_nonws t -> skip_ws t = t.
Proof. destruct t as [|c r]; [contradiction|]. cbn. intros ->. reflexivity. Qed.

Lemma skip_ws_ws_then w t : all_ws w -> starts_nonws t -> skip_ws (w ++ t) = t.
Proof. intros Hw Ht. rewrite skip_ws_app by exact Hw. apply skip_ws_nonws. exact Ht. Qed.

Lemma starts_nonws_app t r : starts_nonws t -> starts_nonws (t ++ r).
Proof. destruct t; [contradiction|]. cbn. auto. Qed.

Lemma tok_end_ws w rest : all_ws w -> w <> [] -> tok_end (w ++ rest).
Proof. intros Hw Hne. destruct w as [|c r]; [congruence|]. inversion Hw; subst. cbn. apply ws_not_name. assumption. Qed.

Lemma tok_end_ws_or w rest : all_ws w -> tok_end rest -> tok_end (w ++ rest).
Proof. intros Hw Hr. destruct w as [|c r]; [exact Hr|]. inversion Hw; subst. cbn. apply ws_not_name. assumption. Qed.

(* ---------- names and literals ---------- *)

Fixpoint starts_with (t s : list N) : bool :=
  match t with
  | [] => true
  | x :: t' => match s with y :: s' => (x =? y) && starts_with t' s' | [] => false end
  end.

Definition name_ok (s : name) : Prop :=
  s <> [] /\ Forall (fun c => is_name_char c = true) s /\ starts_dunder s = false /\
  (match s with c :: _ => is_digit c = false | [] => True end) /\
  starts_with (lit "true") s = false /\ starts_with (lit "false") s = false.

Lemma tag_name_err t : Forall (fun c => is_name_char c = true) t ->
  forall s rest, starts_with t s = false -> tok_end rest -> tag t (s ++ rest) = PErr.
Proof.
  induction 1 as [|x t' Hx Ht IH]; intros s rest Hs Hr; [discriminate Hs|].
  destruct s as [|y s']; cbn [app].
  - destruct rest as [|c r]; [reflexivity|]. cbn [tag]. destruct (x =? c) eqn:E; [|reflexivity].
    apply N.eqb_eq in E. subst c. cbn in Hr. congruence.
  - cbn [tag]. cbn [starts_with] in Hs. destruct (x =? y); [|reflexivity]. cbn [andb] in Hs. apply IH; assumption.
Qed.

Lemma tag_head_ne x t c r : x <> c -> tag (x :: t) (c :: r) = PErr.
Proof. intros H. cbn [tag]. replace (x =? c) with false by (symmetry; apply N.eqb_neq; exact H). reflexivity. Qed.

Lemma take_while_name s rest : Forall (fun c => is_name_char c = true) s -> tok_end rest ->
  take_while is_name_char (s ++ rest) = (s, rest).
Proof.
  intros Hs Hr. induction Hs as [|c r Hc Hrest IH]; cbn [app take_while].
  - destruct rest as [|c rest']; [reflexivity|]. cbn [take_while]. cbn in Hr. rewrite Hr. reflexivity.
  - rewrite Hc, IH. reflexivity.
Qed.

Lemma p_name_ok s rest : name_ok s -> tok_end rest -> p_name (s ++ rest) = POk s rest.
Proof.
  intros (Hne & Hall & Hd & _) Hr. unfold p_name. rewrite (take_while_name s rest Hall Hr).
  destruct s; [congruence|]. rewrite Hd. reflexivity.
Qed.

Lemma all_name_true : Forall (fun c => is_name_char c = true) (lit "true").
Proof. repeat constructor. Qed.
Lemma all_name_false : Forall (fun c => is_name_char c = true) (lit "false").
Proof. repeat constructor. Qed.

Lemma p_atom_name s rest : name_ok s -> tok_end rest -> p_atom (s ++ rest) = POk (Atom (PName s)) rest.
Proof.
  intros Hn Hr. pose proof Hn as (Hne & Hall & Hd & Hdig & Ht & Hf). unfold p_atom.
  rewrite (tag_name_err _ all_name_true s rest Ht Hr), (tag_name_err _ all_name_false s rest Hf Hr).
  destruct s as [|c r]; [congruence|]. inversion Hall as [|? ? Hc _]; subst.
  assert (Hinf : tag (lit "+infinity") ((c :: r) ++ rest) = PErr).
  { change (lit "+infinity") with (43 :: lit "infinity"). apply tag_head_ne. intros <-. discriminate Hc. }
  rewrite Hinf.
  assert (Hnum : p_num ((c :: r) ++ rest) = PErr).
  { unfold p_num. cbn [app take_while]. rewrite Hdig. reflexivity. }
  rewrite Hnum, (p_name_ok (c :: r) rest Hn Hr). reflexivity.
Qed.

Inductive lay_prim : prim -> list N -> Prop :=
| LTrue : lay_prim (PBool true) (lit "true")
| LFalse : lay_prim (PBool false) (lit "false")
| LInf : lay_prim (PNum U64_MAX) (lit "+infinity")
| LNum ds : ds <> [] -> all_digits ds -> dec_value ds < U64_LIMIT -> lay_prim (PNum (dec_value ds)) ds
| LName s : name_ok s -> lay_prim (PName s) s.

Lemma tok_end_digit rest : tok_end rest -> match rest with c :: _ => is_digit c = false | [] => True end.
Proof.
  destruct rest as [|c r]; [auto|]. cbn. intros H. destruct (is_digit c) eqn:E; [|reflexivity].
  apply digit_is_name in E. congruence.
Qed.

Lemma p_atom_lay p t rest : lay_prim p t -> tok_end rest -> p_atom (t ++ rest) = POk (Atom p) rest.
Proof.
  intros H Hr. destruct H as [| | |ds Hne Hd Hv|s Hs].
  - reflexivity.
  - reflexivity.
  - reflexivity.
  - rewrite (p_atom_numeral ds rest Hne Hd (tok_end_digit _ Hr)).
    replace (dec_value ds <? U64_LIMIT) with true by (symmetry; apply N.ltb_lt; exact Hv). reflexivity.
  - apply p_atom_name; assumption.
Qed.

(* the first character of a literal or name: not white space, not '#', not '(' *)
Definition plain_head (t : list N) : Prop :=
  match t with c :: _ => is_ws c = false /\ c <> 35 /\ c <> 40 | [] => False end.

Lemma lay_prim_head p t : lay_prim p t -> plain_head t.
Proof.
  intros H. destruct H as [| | |ds Hne Hd Hv|s (Hne & Hall & _)].
  - cbn. repeat split; discriminate.
  - cbn. repeat split; discriminate.
  - cbn. repeat split; discriminate.
  - destruct ds as [|c r]; [congruence|]. inversion Hd as [|? ? Hc _]; subst. cbn.
    pose proof (digit_is_name _ Hc) as Hn. split; [apply name_not_ws; exact Hn|].
    split; intros ->; discriminate Hc.
  - destruct s as [|c r]; [congruence|]. inversion Hall as [|? ? Hc _]; subst. cbn.
    split; [apply name_not_ws; exact Hc|]. split; intros ->; discriminate Hc.
Qed.

(* ---------- expressions ---------- *)

Definition cmd_text (c : command) : list N :=
  match c with Fallthrough => lit "fallthrough" | CReport => lit "report" end.

Definition paren_form (e : expr) : bool := match e with Sexp _ _ _ | Cmd _ => true | _ => false end.

(* what may follow an expression: a name or numeral must not run into a following name character *)
Definition follow_ok (e : expr) (rest : list N) : Prop := paren_form e = true \/ tok_end rest.

Inductive lay_expr : expr -> list N -> Prop :=
| LAtom p t : lay_prim p t -> lay_expr (Atom p) t
| LCmd c w1 w2 : all_ws w1 -> all_ws w2 -> lay_expr (Cmd c) (lit "(" ++ w1 ++ cmd_text c ++ w2 ++ lit ")")
| LSexp o sp l r tl tr w1 w2 w3 w4 :
    In (sp, o) op_table -> all_ws w1 -> all_ws w2 -> all_ws w3 -> all_ws w4 ->
    lay_expr l tl -> lay_expr r tr -> follow_ok l (w3 ++ tr) ->
    check_expr o l r = Some (Sexp o l r) ->
    lay_expr (Sexp o l r) (lit "(" ++ w1 ++ sp ++ w2 ++ tl ++ w3 ++ tr ++ w4 ++ lit ")").

Definition expr_head (t : list N) : Prop :=
  match t with c :: _ => is_ws c = false /\ c <> 35 /\ is_name_char 35 = false | [] => False end.

Lemma lay_expr_head e t : lay_expr e t -> expr_head t /\ (paren_form e = true -> exists x, t = 40 :: x) /\
                                          (paren_form e = false -> plain_head t).
Proof.
  intros H. destruct H as [p t Hp|c w1 w2 _ _|o sp l r tl tr w1 w2 w3 w4 _ _ _ _ _ _ _ _ _].
  - pose proof (lay_prim_head _ _ Hp) as Hh. destruct t as [|c r]; [contradiction|]. cbn in Hh. destruct Hh as (H1 & H2 & H3).
    split; [cbn; auto|]. split; [discriminate|intros _; cbn; auto].
  - split; [cbn; repeat split; discriminate|]. split; [intros _; eexists; reflexivity|discriminate].
  - split; [cbn; repeat split; discriminate|]. split; [intros _; eexists; reflexivity|discriminate].
Qed.

Lemma lay_expr_nonws e t : lay_expr e t -> starts_nonws t.
Proof. intros H. destruct (lay_expr_head _ _ H) as [Hh _]. destruct t; [contradiction|]. exact (proj1 Hh). Qed.

Lemma lay_expr_nonempty e t : lay_expr e t -> t <> [].
Proof. intros H. pose proof (lay_expr_nonws _ _ H) as Hh. destruct t; [contradiction|discriminate]. Qed.

Lemma tok_end_app t r : t <> [] -> tok_end t -> tok_end (t ++ r).
Proof. destruct t; [congruence|]. cbn. auto. Qed.

Lemma tag_lit_app t : forall r, tag t (t ++ r) = POk tt r.
Proof. induction t as [|x t IH]; intros r; cbn [app tag]; [reflexivity|]. rewrite N.eqb_refl. apply IH. Qed.

Lemma p_comment_head c r : c <> 35 -> p_comment (c :: r) = PErr.
Proof. intros H. unfold p_comment. change (lit "#") with [35]. rewrite tag_head_ne by congruence. reflexivity. Qed.

Lemma p_sexp_head rec c r : c <> 40 -> p_sexp_with rec (c :: r) = PErr.
Proof. intros H. unfold p_sexp_with. change (lit "(") with [40]. rewrite tag_head_ne by congruence. reflexivity. Qed.

Lemma p_command_head c r : c <> 40 -> p_command (c :: r) = PErr.
Proof. intros H. unfold p_command. change (lit "(") with [40]. rewrite tag_head_ne by congruence. reflexivity. Qed.

Lemma p_expr_skip f i : p_expr f (skip_ws i) = p_expr f i.
Proof. destruct f as [|f]; [reflexivity|]. cbn [p_expr]. rewrite skip_ws_idem. reflexivity. Qed.

Lemma map_eq_in {A B} (f g : A -> B) l x : map f l = map g l -> In x l -> f x = g x.
Proof.
  induction l as [|y t IH]; intros H Hin; [destruct Hin|]. cbn [map] in H. inversion H as [[H1 H2]].
  destruct Hin as [->|Hin]; [exact H1|apply IH; assumption].
Qed.

Lemma p_op_spelling sp o rest : In (sp, o) op_table -> p_op (sp ++ rest) = POk o rest.
Proof. intros Hin. exact (map_eq_in (fun to => p_op (fst to ++ rest)) (fun to => POk (snd to) rest) op_table (sp, o) (op_spellings rest) Hin). Qed.

Lemma op_spelling_nonws sp o : In (sp, o) op_table -> starts_nonws sp /\ (0 < length sp)%nat.
Proof.
  intros Hin.
  assert (H : forallb (fun to : list N * op => match fst to with c :: _ => negb (is_ws c) | [] => false end) op_table = true) by reflexivity.
  pose proof (proj1 (forallb_forall _ _) H _ Hin) as Hs. cbn [fst] in Hs.
  destruct sp as [|c r]; [discriminate|]. cbn. split; [|lia]. destruct (is_ws c); [discriminate|reflexivity].
Qed.

Lemma p_op_cmd c rest : p_op (cmd_text c ++ rest) = PErr.
Proof. destruct c; reflexivity. Qed.

Lemma alt_cmd c rest : alt_tags [(lit "fallthrough", Fallthrough); (lit "report", CReport)] (cmd_text c ++ rest) = POk c rest.
Proof. destruct c; reflexivity. Qed.

Lemma cmd_text_nonws c rest : starts_nonws (cmd_text c ++ rest).
Proof. destruct c; reflexivity. Qed.

Lemma tok_end_close rest : tok_end (lit ")" ++ rest).
Proof. reflexivity. Qed.

Lemma close_nonws rest : starts_nonws (lit ")" ++ rest).
Proof. reflexivity. Qed.

Theorem p_expr_lay e t : lay_expr e t -> forall f rest, (length t < f)%nat -> follow_ok e rest ->
  p_expr f (t ++ rest) = POk e (skip_ws rest).
Proof.
  induction 1 as [p t Hp|c w1 w2 Hw1 Hw2|o sp l r tl tr w1 w2 w3 w4 Hin Hw1 Hw2 Hw3 Hw4 Hl IHl Hr IHr Hsep Hchk];
    intros f rest Hf Hfol; (destruct f as [|f]; [lia|]); cbn [p_expr].
  - pose proof (lay_prim_head _ _ Hp) as Hh. destruct t as [|c t']; [contradiction|]. cbn in Hh. destruct Hh as (H1 & H2 & H3).
    cbn [app]. rewrite (skip_ws_nonws (c :: t' ++ rest)) by exact H1.
    rewrite (p_comment_head c _ H2), (p_sexp_head _ c _ H3), (p_command_head c _ H3).
    destruct Hfol as [Hpf|Hte]; [discriminate Hpf|].
    change (c :: t' ++ rest) with ((c :: t') ++ rest). rewrite (p_atom_lay _ _ _ Hp Hte). reflexivity.
  - rewrite <- !app_assoc.
    rewrite (skip_ws_nonws (lit "(" ++ _)) by reflexivity.
    change (lit "(" ++ w1 ++ cmd_text c ++ w2 ++ lit ")" ++ rest) with (40 :: w1 ++ cmd_text c ++ w2 ++ lit ")" ++ rest).
    rewrite (p_comment_head 40) by discriminate.
    assert (Hs : p_sexp_with (p_expr f) (40 :: w1 ++ cmd_text c ++ w2 ++ lit ")" ++ rest) = PErr).
    { unfold p_sexp_with. change (40 :: w1 ++ cmd_text c ++ w2 ++ lit ")" ++ rest) with (lit "(" ++ w1 ++ cmd_text c ++ w2 ++ lit ")" ++ rest).
      rewrite tag_lit_app. rewrite (skip_ws_ws_then w1 _ Hw1 (cmd_text_nonws c _)). rewrite p_op_cmd. reflexivity. }
    rewrite Hs.
    assert (Hc : p_command (40 :: w1 ++ cmd_text c ++ w2 ++ lit ")" ++ rest) = POk (Cmd c) rest).
    { unfold p_command. change (40 :: w1 ++ cmd_text c ++ w2 ++ lit ")" ++ rest) with (lit "(" ++ w1 ++ cmd_text c ++ w2 ++ lit ")" ++ rest).
      rewrite tag_lit_app. rewrite (skip_ws_ws_then w1 _ Hw1 (cmd_text_nonws c _)). rewrite alt_cmd.
      rewrite (skip_ws_ws_then w2 _ Hw2 (close_nonws rest)). rewrite tag_lit_app. reflexivity. }
    rewrite Hc. reflexivity.
  - rewrite <- !app_assoc.
    rewrite (skip_ws_nonws (lit "(" ++ _)) by reflexivity.
    set (Z := w4 ++ lit ")" ++ rest). set (Y := w3 ++ tr ++ Z). set (X := w2 ++ tl ++ Y).
    change (lit "(" ++ w1 ++ sp ++ X) with (40 :: w1 ++ sp ++ X).
    rewrite (p_comment_head 40) by discriminate.
    assert (Hlen : (length tl < f)%nat /\ (length tr < f)%nat).
    { change (lit "(") with [40] in Hf. change (lit ")") with [41] in Hf. rewrite !app_length in Hf. cbn [length] in Hf. split; lia. }
    destruct (op_spelling_nonws _ _ Hin) as [Hspn _].
    pose proof (lay_expr_nonws _ _ Hr) as Hrn. pose proof (lay_expr_nonempty _ _ Hr) as Hrne.
    assert (Hfl : follow_ok l Y).
    { destruct Hsep as [Hpf|Hte]; [left; exact Hpf|right]. unfold Y. rewrite app_assoc. apply tok_end_app; [|exact Hte].
      destruct w3; [cbn; exact Hrne|discriminate]. }
    assert (Hfr : follow_ok r Z) by (right; unfold Z; apply tok_end_ws_or; [exact Hw4|apply tok_end_close]).
    assert (HY : skip_ws Y = tr ++ Z) by (unfold Y; apply skip_ws_ws_then; [exact Hw3|apply starts_nonws_app; exact Hrn]).
    assert (HZ : skip_ws Z = lit ")" ++ rest) by (unfold Z; apply skip_ws_ws_then; [exact Hw4|apply close_nonws]).
    assert (Hs : p_sexp_with (p_expr f) (40 :: w1 ++ sp ++ X) = POk (Sexp o l r) rest).
    { unfold p_sexp_with. change (40 :: w1 ++ sp ++ X) with (lit "(" ++ w1 ++ sp ++ X). rewrite tag_lit_app.
      rewrite (skip_ws_ws_then w1 _ Hw1 (starts_nonws_app _ _ Hspn)). rewrite (p_op_spelling _ _ _ Hin).
      rewrite p_expr_skip. unfold X. rewrite (expr_leading_ws f w2 _ Hw2).
      rewrite (IHl f Y (proj1 Hlen) Hfl). rewrite HY, p_expr_skip.
      rewrite (IHr f Z (proj2 Hlen) Hfr). rewrite Hchk, HZ.
      rewrite (skip_ws_nonws _ (close_nonws rest)), tag_lit_app. reflexivity. }
    rewrite Hs. reflexivity.
Qed.

(* ---------- the statements of an event, with comments among them ---------- *)

(* the items as parsed (a comment is ENone); every item is followed by a white-space run *)
Inductive lay_items : list expr -> list N -> Prop :=
| LI_nil : lay_items [] []
| LI_stmt e t w es ts : lay_expr e t -> all_ws w -> lay_items es ts -> follow_ok e (w ++ ts ++ lit ")") ->
    lay_items (e :: es) (t ++ w ++ ts)
| LI_comment c w es ts : no_newline c -> all_ws w -> lay_items es ts ->
    lay_items (ENone :: es) (lit "#" ++ c ++ 10 :: w ++ ts).

Lemma items_nonws es ts rest : lay_items es ts -> starts_nonws (ts ++ lit ")" ++ rest).
Proof.
  intros H. destruct H as [|e t w es ts He _ _ _|c w es ts _ _ _].
  - reflexivity.
  - rewrite <- app_assoc. apply starts_nonws_app. eapply lay_expr_nonws; eauto.
  - reflexivity.
Qed.

Lemma items_length es ts : lay_items es ts -> (length es <= length ts)%nat.
Proof.
  induction 1 as [|e t w es ts He _ _ IH _|c w es ts _ _ _ IH]; [cbn; lia| |].
  - pose proof (lay_expr_nonempty _ _ He) as Hne. rewrite !app_length. cbn [length]. destruct t; [congruence|cbn [length]; lia].
  - change (lit "#") with [35]. cbn [app length]. rewrite !app_length. cbn [length]. rewrite app_length. lia.
Qed.

Lemma p_expr_close F rest : p_expr (S F) (lit ")" ++ rest) = PErr.
Proof. reflexivity. Qed.

Lemma follow_ok_app e t r : t <> [] -> follow_ok e t -> follow_ok e (t ++ r).
Proof. intros Hne [H|H]; [left; exact H|right; apply tok_end_app; assumption]. Qed.

Lemma many0_items es ts : lay_items es ts -> forall F fuel rest, (length ts < F)%nat -> (length es < fuel)%nat ->
  many0 (p_expr F) fuel (ts ++ lit ")" ++ rest) = POk es (lit ")" ++ rest).
Proof.
  induction 1 as [|e t w es ts He Hw Hes IH Hfol|c w es ts Hc Hw Hes IH]; intros F fuel rest HF Hfuel;
    (destruct fuel as [|fuel]; [lia|]); (destruct F as [|F]; [lia|]).
  - cbn [app many0]. rewrite p_expr_close. reflexivity.
  - cbn [many0]. rewrite <- !app_assoc.
    assert (Hlen : (length t < S F)%nat /\ (length ts < S F)%nat) by (rewrite !app_length in HF; lia).
    assert (Hf2 : follow_ok e (w ++ ts ++ lit ")" ++ rest)).
    { replace (w ++ ts ++ lit ")" ++ rest) with ((w ++ ts ++ lit ")") ++ rest) by (rewrite <- !app_assoc; reflexivity).
      apply follow_ok_app; [|exact Hfol]. destruct w; [destruct ts; discriminate|discriminate]. }
    rewrite (p_expr_lay _ _ He (S F) _ (proj1 Hlen) Hf2).
    rewrite (skip_ws_ws_then w _ Hw (items_nonws _ _ rest Hes)).
    assert (Hneq : Nat.eqb (length (ts ++ lit ")" ++ rest)) (length (t ++ w ++ ts ++ lit ")" ++ rest)) = false).
    { apply Nat.eqb_neq. pose proof (lay_expr_nonempty _ _ He) as Hne. rewrite !app_length. destruct t; [congruence|cbn [length]; lia]. }
    rewrite Hneq. cbn [length] in Hfuel. rewrite (IH (S F) fuel rest (proj2 Hlen)) by lia. reflexivity.
  - cbn [many0]. rewrite <- !app_assoc. cbn [app]. rewrite <- app_assoc.
    change (35 :: c ++ 10 :: w ++ ts ++ lit ")" ++ rest) with (lit "#" ++ c ++ 10 :: (w ++ ts ++ lit ")" ++ rest)).
    rewrite (comment_statement F c _ Hc).
    rewrite (skip_ws_ws_then w _ Hw (items_nonws _ _ rest Hes)).
    assert (Hneq : Nat.eqb (length (ts ++ lit ")" ++ rest)) (length (lit "#" ++ c ++ 10 :: w ++ ts ++ lit ")" ++ rest)) = false).
    { apply Nat.eqb_neq. change (lit "#") with [35]. cbn [app length]. rewrite !app_length. cbn [length]. rewrite !app_length. lia. }
    rewrite Hneq.
    assert (Hlen : (length ts < S F)%nat).
    { change (lit "#") with [35] in HF. cbn [app length] in HF. rewrite !app_length in HF. cbn [length] in HF. rewrite app_length in HF. lia. }
    cbn [length] in Hfuel. rewrite (IH (S F) fuel rest Hlen) by lia. reflexivity.
Qed.

Lemma many1_of_many0 {A} (p : list N -> pres A) fuel i a l r :
  many0 p (S fuel) i = POk (a :: l) r -> many1 p fuel i = POk (a :: l) r.
Proof.
  cbn [many0]. unfold many1. destruct (p i) as [a0 rest| | |]; try discriminate.
  destruct (Nat.eqb (length rest) (length i)); [discriminate|]. auto.
Qed.

(* ---------- events ---------- *)

Inductive lay_event : event -> list N -> Prop :=
| LEvent c tc body ts w1 w2 w3 : all_ws w1 -> all_ws w2 -> all_ws w3 -> lay_expr c tc -> lay_items body ts -> body <> [] ->
    follow_ok c (w3 ++ ts ++ lit ")") ->
    lay_event (mkEvent c body) (lit "(" ++ w1 ++ lit "when" ++ w2 ++ tc ++ w3 ++ ts ++ lit ")").

Lemma p_event_lay ev t : lay_event ev t -> forall F rest, (length t < F)%nat -> p_event F (t ++ rest) = POk ev (skip_ws rest).
Proof.
  intros H F rest HF. destruct H as [c tc body ts w1 w2 w3 Hw1 Hw2 Hw3 Hc Hb Hne Hfol].
  unfold p_event. rewrite <- !app_assoc.
  rewrite (skip_ws_nonws (lit "(" ++ _)) by reflexivity. rewrite tag_lit_app.
  rewrite (skip_ws_ws_then w1 (lit "when" ++ _) Hw1) by reflexivity. rewrite tag_lit_app.
  change (lit "(") with [40] in HF. change (lit ")") with [41] in HF. change (lit "when") with [119; 104; 101; 110] in HF.
  rewrite !app_length in HF. cbn [length] in HF.
  rewrite (expr_leading_ws F w2 _ Hw2).
  assert (Hf2 : follow_ok c (w3 ++ ts ++ lit ")" ++ rest)).
  { replace (w3 ++ ts ++ lit ")" ++ rest) with ((w3 ++ ts ++ lit ")") ++ rest) by (rewrite <- !app_assoc; reflexivity).
    apply follow_ok_app; [|exact Hfol]. destruct w3; [destruct ts; discriminate|discriminate]. }
  rewrite (p_expr_lay _ _ Hc F _ ltac:(lia) Hf2).
  rewrite (skip_ws_ws_then w3 _ Hw3 (items_nonws _ _ rest Hb)).
  destruct body as [|e0 body']; [congruence|].
  pose proof (items_length _ _ Hb) as Hil.
  unfold p_exprs. rewrite (many1_of_many0 _ _ _ _ _ _ (many0_items _ _ Hb F (S F) rest ltac:(lia) ltac:(lia))).
  rewrite (skip_ws_nonws _ (close_nonws rest)), tag_lit_app. reflexivity.
Qed.

Inductive lay_event_item : event -> list N -> Prop :=
| LEI_plain ev t : lay_event ev t -> lay_event_item ev t
| LEI_comment ev t c w : no_newline c -> all_ws w -> lay_event ev t -> lay_event_item ev (lit "#" ++ c ++ 10 :: w ++ t).

Lemma lay_event_head ev t : lay_event ev t -> exists x, t = 40 :: x.
Proof. intros H. destruct H. eexists. reflexivity. Qed.

Lemma p_event_item_lay ev t : lay_event_item ev t -> forall F rest, (length t < F)%nat ->
  p_event_item F (t ++ rest) = POk ev (skip_ws rest).
Proof.
  intros H F rest HF. destruct H as [ev t He|ev t c w Hc Hw He]; unfold p_event_item.
  - destruct (lay_event_head _ _ He) as (x & ->). cbn [app].
    rewrite (skip_ws_nonws (40 :: x ++ rest)) by reflexivity. rewrite (p_comment_head 40) by discriminate.
    change (40 :: x ++ rest) with ((40 :: x) ++ rest). rewrite (p_event_lay _ _ He F rest HF). rewrite skip_ws_idem. reflexivity.
  - rewrite <- !app_assoc. cbn [app]. rewrite <- app_assoc.
    change (lit "#" ++ c ++ 10 :: w ++ t ++ rest) with (35 :: c ++ 10 :: w ++ t ++ rest).
    rewrite (skip_ws_nonws (35 :: _)) by reflexivity.
    assert (Hcm : p_comment (35 :: c ++ 10 :: w ++ t ++ rest) = POk ENone (10 :: w ++ t ++ rest)).
    { unfold p_comment. change (35 :: c ++ 10 :: w ++ t ++ rest) with (lit "#" ++ c ++ 10 :: w ++ t ++ rest).
      rewrite tag_lit_app, (until_newline_comment c _ Hc). reflexivity. }
    rewrite Hcm.
    change (10 :: w ++ t ++ rest) with ((10 :: w) ++ t ++ rest).
    rewrite (event_leading_ws F (10 :: w)) by (constructor; [reflexivity|exact Hw]).
    assert (Hlen : (length t < F)%nat).
    { change (lit "#") with [35] in HF. cbn [app length] in HF. rewrite !app_length in HF. cbn [length] in HF. rewrite app_length in HF. lia. }
    rewrite (p_event_lay _ _ He F rest Hlen). rewrite skip_ws_idem. reflexivity.
Qed.

Inductive lay_events : list event -> list N -> Prop :=
| LEs_nil : lay_events [] []
| LEs_cons ev t w evs ts : lay_event_item ev t -> all_ws w -> lay_events evs ts -> lay_events (ev :: evs) (t ++ w ++ ts).

Lemma lay_event_item_nonempty ev t : lay_event_item ev t -> starts_nonws t.
Proof. intros H. destruct H as [ev t He|ev t c w _ _ _]; [destruct (lay_event_head _ _ He) as (x & ->)|]; reflexivity. Qed.

Lemma lay_events_skip evs ts : lay_events evs ts -> skip_ws ts = ts.
Proof.
  intros H. destruct H as [|ev t w evs ts Hev _ _]; [reflexivity|].
  apply skip_ws_nonws. apply starts_nonws_app. eapply lay_event_item_nonempty; eauto.
Qed.

Lemma lay_events_length evs ts : lay_events evs ts -> (length evs <= length ts)%nat.
Proof.
  induction 1 as [|ev t w evs ts Hev _ _ IH]; [cbn; lia|].
  pose proof (lay_event_item_nonempty _ _ Hev) as Hne. rewrite !app_length. cbn [length]. destruct t; [contradiction|cbn [length]; lia].
Qed.

Lemma many0_events evs ts : lay_events evs ts -> forall F fuel, (length ts < F)%nat -> (length evs < fuel)%nat ->
  many0 (p_event_item F) fuel ts = POk evs [].
Proof.
  induction 1 as [|ev t w evs ts Hev Hw Hes IH]; intros F fuel HF Hfuel; (destruct fuel as [|fuel]; [lia|]).
  - reflexivity.
  - cbn [many0].
    assert (Hlen : (length t < F)%nat /\ (length ts < F)%nat) by (rewrite !app_length in HF; lia).
    rewrite (p_event_item_lay _ _ Hev F (w ++ ts) (proj1 Hlen)).
    rewrite (skip_ws_app w ts Hw), (lay_events_skip _ _ Hes).
    assert (Hneq : Nat.eqb (length ts) (length (t ++ w ++ ts)) = false).
    { apply Nat.eqb_neq. pose proof (lay_event_item_nonempty _ _ Hev) as Hne. rewrite !app_length. destruct t; [contradiction|cbn [length]; lia]. }
    rewrite Hneq. cbn [length] in Hfuel. rewrite (IH F fuel (proj2 Hlen)) by lia. reflexivity.
Qed.

Theorem p_events_lay evs ts : lay_events evs ts -> evs <> [] -> forall F, (length ts < F)%nat -> p_events F ts = POk evs [].
Proof.
  intros H Hne F HF. destruct evs as [|e0 evs']; [congruence|].
  pose proof (lay_events_length _ _ H) as Hl.
  unfold p_events. apply many1_of_many0. apply many0_events; [exact H|exact HF|lia].
Qed.

(* ---------- declarations ---------- *)

Definition prim_ty (p : prim) : ty :=
  match p with PBool b => TBool (Some b) | PName s => TName s | PNum n => TNum (Some n) end.

Inductive lay_decl : bool * name * ty -> list N -> Prop :=
| LDecl (vol : bool) n p tp w1 wv w2 w3 : name_ok n -> n <> lit "volatile" -> lay_prim p tp ->
    all_ws w1 -> all_ws wv -> wv <> [] -> all_ws w2 -> all_ws w3 -> tok_end (w2 ++ tp) ->
    lay_decl (vol, n, prim_ty p)
             (lit "(" ++ w1 ++ (if vol then lit "volatile" ++ wv else []) ++ n ++ w2 ++ tp ++ w3 ++ lit ")").

Lemma starts_with_split t : forall s, starts_with t s = true -> exists m, s = t ++ m.
Proof.
  induction t as [|x t IH]; intros s H; [exists s; reflexivity|].
  destruct s as [|y s']; [discriminate|]. cbn [starts_with] in H. apply andb_true_iff in H. destruct H as [H1 H2].
  apply N.eqb_eq in H1. subst y. destruct (IH _ H2) as (m & ->). exists m. reflexivity.
Qed.

Lemma name_ok_nonws n rest : name_ok n -> starts_nonws (n ++ rest).
Proof.
  intros (Hne & Hall & _). destruct n as [|c r]; [congruence|]. inversion Hall; subst. cbn. apply name_not_ws. assumption.
Qed.

Lemma all_name_volatile : Forall (fun c => is_name_char c = true) (lit "volatile").
Proof. repeat constructor. Qed.

Lemma p_volatile_absent n R : name_ok n -> n <> lit "volatile" -> tok_end R -> p_volatile (n ++ R) = (false, n ++ R).
Proof.
  intros Hn Hnv HR. unfold p_volatile. rewrite (skip_ws_nonws _ (name_ok_nonws n R Hn)).
  destruct (starts_with (lit "volatile") n) eqn:Es.
  - destruct (starts_with_split _ _ Es) as (m & ->). rewrite <- app_assoc, tag_lit_app.
    destruct m as [|c m']; [rewrite app_nil_r in Hnv; congruence|].
    destruct Hn as (_ & Hall & _). apply Forall_app in Hall. destruct Hall as [_ Hm]. inversion Hm as [|? ? Hc _]; subst.
    cbn [app ws1]. rewrite (name_not_ws _ Hc). reflexivity.
  - rewrite (tag_name_err _ all_name_volatile n R Es HR). reflexivity.
Qed.

Lemma p_volatile_present wv n R : all_ws wv -> wv <> [] -> name_ok n -> p_volatile (lit "volatile" ++ wv ++ n ++ R) = (true, n ++ R).
Proof.
  intros Hw Hne Hn. unfold p_volatile. rewrite (skip_ws_nonws (lit "volatile" ++ _)) by reflexivity. rewrite tag_lit_app.
  destruct wv as [|c w']; [congruence|]. inversion Hw as [|? ? Hc Hw']; subst. cbn [app ws1]. rewrite Hc.
  rewrite (skip_ws_ws_then w' _ Hw' (name_ok_nonws n R Hn)). reflexivity.
Qed.

Lemma atom_type_prim p : atom_type (Atom p) = Some (prim_ty p).
Proof. destruct p; reflexivity. Qed.

Lemma lay_prim_nonws p t rest : lay_prim p t -> starts_nonws (t ++ rest).
Proof. intros H. pose proof (lay_prim_head _ _ H) as Hh. destruct t; [contradiction|]. exact (proj1 Hh). Qed.

Lemma lay_prim_nonempty p t : lay_prim p t -> t <> [].
Proof. intros H. pose proof (lay_prim_head _ _ H) as Hh. destruct t; [contradiction|discriminate]. Qed.

Lemma p_decl_lay d t rest : lay_decl d t -> p_decl (t ++ rest) = POk d (skip_ws rest).
Proof.
  intros H. destruct H as [vol n p tp w1 wv w2 w3 Hn Hnv Hp Hw1 Hwv Hwvne Hw2 Hw3 Hte].
  unfold p_decl. rewrite <- !app_assoc.
  rewrite (skip_ws_nonws (lit "(" ++ _)) by reflexivity. rewrite tag_lit_app.
  set (R := w2 ++ tp ++ w3 ++ lit ")" ++ rest).
  assert (HR : tok_end R).
  { unfold R. rewrite app_assoc. apply tok_end_app; [|exact Hte]. pose proof (lay_prim_nonempty _ _ Hp). destruct w2; [cbn; assumption|discriminate]. }
  assert (Hv : p_volatile (skip_ws (w1 ++ (if vol then lit "volatile" ++ wv else []) ++ n ++ R)) = (vol, n ++ R)).
  { destruct vol.
    - rewrite <- app_assoc. rewrite (skip_ws_ws_then w1 (lit "volatile" ++ _) Hw1) by reflexivity.
      apply p_volatile_present; assumption.
    - cbn [app]. rewrite (skip_ws_ws_then w1 _ Hw1 (name_ok_nonws n R Hn)). apply p_volatile_absent; assumption. }
  rewrite Hv. rewrite (p_name_ok n R Hn HR).
  unfold R. rewrite (skip_ws_ws_then w2 _ Hw2 (lay_prim_nonws _ _ _ Hp)).
  rewrite (p_atom_lay p tp (w3 ++ lit ")" ++ rest) Hp) by (apply tok_end_ws_or; [exact Hw3|apply tok_end_close]).
  rewrite atom_type_prim. rewrite (skip_ws_ws_then w3 _ Hw3 (close_nonws rest)), tag_lit_app. reflexivity.
Qed.

Lemma p_decl_skip i : p_decl (skip_ws i) = p_decl i.
Proof. unfold p_decl. rewrite skip_ws_idem. reflexivity. Qed.

Lemma p_decl_of_skip i j : skip_ws i = skip_ws j -> p_decl i = p_decl j.
Proof. intros H. rewrite <- (p_decl_skip i), <- (p_decl_skip j), H. reflexivity. Qed.

Lemma lay_decl_head d t : lay_decl d t -> exists x, t = 40 :: x.
Proof. intros H. destruct H. eexists. reflexivity. Qed.

Inductive lay_decls : list (bool * name * ty) -> list N -> Prop :=
| LD_nil : lay_decls [] []
| LD_cons d t w ds ts : lay_decl d t -> all_ws w -> lay_decls ds ts -> lay_decls (d :: ds) (t ++ w ++ ts).

Lemma lay_decls_head ds ts : lay_decls ds ts -> ds <> [] -> exists x, ts = 40 :: x.
Proof.
  intros H Hne. destruct H as [|d t w ds ts Hd _ _]; [congruence|]. destruct (lay_decl_head _ _ Hd) as (x & ->). eexists. reflexivity.
Qed.

Lemma lay_decls_length ds ts : lay_decls ds ts -> (length ds <= length ts)%nat.
Proof.
  induction 1 as [|d t w ds ts Hd _ _ IH]; [cbn; lia|].
  destruct (lay_decl_head _ _ Hd) as (x & ->). rewrite !app_length. cbn [length]. lia.
Qed.

(* many0(decl): stops at anything decl rejects; the remainder is the stop text up to leading white space *)
Lemma many0_decls ds ts : lay_decls ds ts -> forall fuel i stop, (length ds < fuel)%nat -> p_decl stop = PErr ->
  skip_ws i = skip_ws (ts ++ stop) ->
  exists r', many0 p_decl fuel i = POk ds r' /\ skip_ws r' = skip_ws stop.
Proof.
  induction 1 as [|d t w ds ts Hd Hw Hds IH]; intros fuel i stop Hfuel Hstop Hi; (destruct fuel as [|fuel]; [cbn in Hfuel; lia|]).
  - cbn [many0]. cbn [app] in Hi. rewrite (p_decl_of_skip i stop Hi), Hstop. exists i. split; [reflexivity|exact Hi].
  - cbn [many0]. rewrite <- !app_assoc in Hi.
    destruct (lay_decl_head _ _ Hd) as (x & Hx).
    assert (Hi2 : skip_ws i = t ++ w ++ ts ++ stop) by (rewrite Hi; apply skip_ws_nonws; rewrite Hx; reflexivity).
    rewrite <- (p_decl_skip i), Hi2, (p_decl_lay _ _ _ Hd).
    assert (Hneq : Nat.eqb (length (skip_ws (w ++ ts ++ stop))) (length i) = false).
    { apply Nat.eqb_neq. pose proof (skip_ws_le (w ++ ts ++ stop)). pose proof (skip_ws_le i) as Hle. rewrite Hi2 in Hle.
      rewrite Hx in Hle. cbn [app length] in Hle. rewrite app_length in Hle. lia. }
    rewrite Hneq. cbn [length] in Hfuel.
    destruct (IH fuel (skip_ws (w ++ ts ++ stop)) stop ltac:(lia) Hstop) as (r' & Hm & Hr').
    { rewrite skip_ws_idem. apply skip_ws_app. exact Hw. }
    rewrite Hm. exists r'. split; [reflexivity|exact Hr'].
Qed.

(* ---------- the definition block ---------- *)

Definition report_decl (d : bool * name * ty) : bool * name * ty :=
  let '(v, n, t) := d in (v, lit "Report." ++ n, keep_init t).
Definition plain_decl (d : bool * name * ty) : bool * name * ty :=
  let '(v, n, t) := d in (v, n, keep_init t).

Definition decls_of (d1 : list (bool * name * ty)) (rep : option (list (bool * name * ty))) (d2 : list (bool * name * ty)) :=
  match rep with Some ds => map report_decl ds | None => [] end ++ map plain_decl (d1 ++ d2).

Inductive lay_defs : list (bool * name * ty) -> option (list (bool * name * ty)) -> list (bool * name * ty) -> list N -> Prop :=
| LDefs_plain d1 t1 w1 w2 : all_ws w1 -> all_ws w2 -> lay_decls d1 t1 ->
    lay_defs d1 None [] (lit "(" ++ w1 ++ lit "def" ++ w2 ++ t1 ++ lit ")")
| LDefs_report d1 t1 rs tr d2 t2 w1 w2 w3 w4 w5 :
    all_ws w1 -> all_ws w2 -> all_ws w3 -> all_ws w4 -> all_ws w5 ->
    lay_decls d1 t1 -> lay_decls rs tr -> rs <> [] -> lay_decls d2 t2 ->
    lay_defs d1 (Some rs) d2
      (lit "(" ++ w1 ++ lit "def" ++ w2 ++ t1 ++ lit "(" ++ w3 ++ lit "Report" ++ w4 ++ tr ++ lit ")" ++ w5 ++ t2 ++ lit ")").

Lemma p_decl_close rest : p_decl (lit ")" ++ rest) = PErr.
Proof. reflexivity. Qed.

Lemma name_ok_Report : name_ok (lit "Report").
Proof. repeat split; try discriminate; try reflexivity. repeat constructor. Qed.

Lemma p_atom_open rest : p_atom (40 :: rest) = PErr.
Proof. reflexivity. Qed.

Lemma p_decl_report_struct w3 w4 x rest : all_ws w3 -> all_ws w4 ->
  p_decl (lit "(" ++ w3 ++ lit "Report" ++ w4 ++ (40 :: x) ++ rest) = PErr.
Proof.
  intros Hw3 Hw4. unfold p_decl. rewrite (skip_ws_nonws (lit "(" ++ _)) by reflexivity. rewrite tag_lit_app.
  rewrite (skip_ws_ws_then w3 (lit "Report" ++ _) Hw3) by reflexivity.
  assert (HR : tok_end (w4 ++ (40 :: x) ++ rest)) by (apply tok_end_ws_or; [exact Hw4|reflexivity]).
  rewrite (p_volatile_absent (lit "Report") _ name_ok_Report ltac:(discriminate) HR).
  rewrite (p_name_ok (lit "Report") _ name_ok_Report HR).
  rewrite (skip_ws_ws_then w4 ((40 :: x) ++ rest) Hw4) by reflexivity. cbn [app]. rewrite p_atom_open. reflexivity.
Qed.

Lemma p_report_struct_close F i rest : skip_ws i = lit ")" ++ rest -> p_report_struct F i = PErr.
Proof. intros H. unfold p_report_struct. rewrite H. reflexivity. Qed.

Theorem p_defs_lay d1 rep d2 t : lay_defs d1 rep d2 t -> forall F rest, (length t < F)%nat ->
  p_defs F (t ++ rest) = POk (decls_of d1 rep d2) (skip_ws rest).
Proof.
  intros H F rest HF.
  destruct H as [d1 t1 w1 w2 Hw1 Hw2 Hd1|d1 t1 rs tr d2 t2 w1 w2 w3 w4 w5 Hw1 Hw2 Hw3 Hw4 Hw5 Hd1 Hrs Hne Hd2];
    unfold p_defs; rewrite <- !app_assoc;
    rewrite (skip_ws_nonws (lit "(" ++ _)) by reflexivity; rewrite tag_lit_app;
    rewrite (skip_ws_ws_then w1 (lit "def" ++ _) Hw1) by reflexivity; rewrite tag_lit_app;
    change (lit "(") with [40] in HF; change (lit ")") with [41] in HF; change (lit "def") with [100; 101; 102] in HF;
    change (lit "Report") with [82; 101; 112; 111; 114; 116] in HF; rewrite !app_length in HF; cbn [length] in HF.
  - pose proof (lay_decls_length _ _ Hd1) as L1.
    destruct (many0_decls _ _ Hd1 F (w2 ++ t1 ++ lit ")" ++ rest) (lit ")" ++ rest) ltac:(lia) (p_decl_close rest)) as (r2 & Hm & Hr2).
    { apply skip_ws_app. exact Hw2. }
    rewrite Hm. rewrite (skip_ws_nonws _ (close_nonws rest)) in Hr2.
    rewrite (p_report_struct_close F r2 rest Hr2).
    destruct F as [|F]; [lia|]. cbn [many0]. rewrite <- (p_decl_skip r2), Hr2, p_decl_close.
    rewrite Hr2, tag_lit_app. unfold decls_of. rewrite app_nil_r. cbn [app]. reflexivity.
  - pose proof (lay_decls_length _ _ Hd1) as L1. pose proof (lay_decls_length _ _ Hrs) as Lr. pose proof (lay_decls_length _ _ Hd2) as L2.
    destruct (lay_decls_head _ _ Hrs Hne) as (x & Hx).
    set (S2 := w5 ++ t2 ++ lit ")" ++ rest).
    set (S1 := lit "(" ++ w3 ++ lit "Report" ++ w4 ++ tr ++ lit ")" ++ S2).
    assert (Hstop1 : p_decl S1 = PErr).
    { unfold S1. rewrite Hx. replace ((40 :: x) ++ lit ")" ++ S2) with ((40 :: x) ++ (lit ")" ++ S2)) by reflexivity.
      apply p_decl_report_struct; assumption. }
    destruct (many0_decls _ _ Hd1 F (w2 ++ t1 ++ S1) S1 ltac:(lia) Hstop1) as (r2 & Hm & Hr2).
    { apply skip_ws_app. exact Hw2. }
    rewrite Hm. assert (Hr2' : skip_ws r2 = S1) by (rewrite Hr2; apply skip_ws_nonws; reflexivity).
    (* the Report block *)
    assert (Hrep : p_report_struct F r2 = POk rs (skip_ws S2)).
    { unfold p_report_struct. rewrite Hr2'. unfold S1. rewrite tag_lit_app.
      rewrite (skip_ws_ws_then w3 (lit "Report" ++ _) Hw3) by reflexivity. rewrite tag_lit_app.
      destruct (many0_decls _ _ Hrs (S F) (w4 ++ tr ++ lit ")" ++ S2) (lit ")" ++ S2) ltac:(lia) (p_decl_close S2)) as (r3 & Hm3 & Hr3).
      { apply skip_ws_app. exact Hw4. }
      destruct rs as [|r0 rs']; [congruence|].
      rewrite (many1_of_many0 _ _ _ _ _ _ Hm3). rewrite Hr3, (skip_ws_nonws _ (close_nonws S2)), tag_lit_app. reflexivity. }
    rewrite Hrep.
    destruct (many0_decls _ _ Hd2 F (skip_ws S2) (lit ")" ++ rest) ltac:(lia) (p_decl_close rest)) as (r4 & Hm4 & Hr4).
    { rewrite skip_ws_idem. unfold S2. apply skip_ws_app. exact Hw5. }
    rewrite Hm4, Hr4, (skip_ws_nonws _ (close_nonws rest)), tag_lit_app. reflexivity.
Qed.

(* ---------- whole programs ---------- *)

Record aprog := mkAprog {
  ap_d1 : list (bool * name * ty);            (* declarations before the Report block *)
  ap_rep : option (list (bool * name * ty));  (* the Report block *)
  ap_d2 : list (bool * name * ty);            (* declarations after it *)
  ap_events : list event                      (* events; bodies hold statements only *)
}.

Definition strip_body (es : list expr) : list expr := filter (fun e => negb (is_enone e)) es.
Definition strip_event (ev : event) : event := mkEvent (ev_flag ev) (strip_body (ev_body ev)).

(* t is a layout of ap: white space anywhere between tokens, any operator spelling, an optional
   comment before each event and any number of comments among the statements of each event *)
Definition lay_prog (ap : aprog) (t : list N) : Prop :=
  exists w0 w1 td evs te, all_ws w0 /\ all_ws w1 /\ lay_defs (ap_d1 ap) (ap_rep ap) (ap_d2 ap) td /\
    lay_events evs te /\ evs <> [] /\ map strip_event evs = ap_events ap /\ t = w0 ++ td ++ w1 ++ te.

Theorem grammar_parses ap t : lay_prog ap t ->
  exists evs rest, p_defs (parse_fuel t) t = POk (decls_of (ap_d1 ap) (ap_rep ap) (ap_d2 ap)) rest /\
                   p_events (parse_fuel t) rest = POk evs [] /\ map strip_event evs = ap_events ap.
Proof.
  intros (w0 & w1 & td & evs & te & Hw0 & Hw1 & Hd & He & Hne & Hs & ->).
  exists evs, te. unfold parse_fuel.
  split; [|split; [|exact Hs]].
  - rewrite (defs_leading_ws _ w0 _ Hw0). rewrite (p_defs_lay _ _ _ _ Hd) by (rewrite !app_length; lia).
    rewrite (skip_ws_app w1 te Hw1), (lay_events_skip _ _ He). reflexivity.
  - apply p_events_lay; [exact He|exact Hne|]. rewrite !app_length. lia.
Qed.

Definition desugar_event (ev : event) : event := mkEvent (ev_flag ev) (map desugar (ev_body ev)).

Definition finish_parse (decls : list (bool * name * ty)) (evs : list event) : outcome (list event * scope) + perr :=
  let reports := filter (fun '(_, n, _) => has_report_prefix n) decls in
  let controls := filter (fun '(_, n, _) => negb (has_report_prefix n)) decls in
  match declare new_report reports scope_new with
  | Ok sc1 =>
    match declare new_control controls sc1 with
    | Ok sc2 => inl (Ok (map desugar_event evs, sc2))
    | Err => inl Err
    | Panic => inl Panic
    end
  | Err => inl Err
  | Panic => inl Panic
  end.

Lemma new_with_scope_lay ap t : lay_prog ap t -> exists evs, map strip_event evs = ap_events ap /\
  new_with_scope t = finish_parse (decls_of (ap_d1 ap) (ap_rep ap) (ap_d2 ap)) evs.
Proof.
  intros H. destruct (grammar_parses _ _ H) as (evs & rest & Hd & He & Hs). exists evs. split; [exact Hs|].
  unfold new_with_scope, finish_parse. rewrite Hd, He. reflexivity.
Qed.

(* lowering does not see the comments *)
Lemma compile_body_strip es : forall sc, compile_body es sc = compile_body (strip_body es) sc.
Proof.
  induction es as [|e r IH]; intros sc; [reflexivity|].
  destruct e as [p|c|o l r0|]; cbn [strip_body filter is_enone negb compile_body]; fold (strip_body r);
    try (destruct (compile_expr _ (clear_tmps sc)) as [[[is rg] sc1]| |]; cbn [bind]; [rewrite IH|..]; reflexivity).
  apply IH.
Qed.

Lemma is_enone_desugar e : is_enone (desugar e) = is_enone e.
Proof. destruct e as [p|[]|o l r|]; reflexivity. Qed.

Lemma strip_desugar es : strip_body (map desugar es) = map desugar (strip_body es).
Proof.
  induction es as [|e r IH]; [reflexivity|]. cbn [map strip_body filter]. rewrite is_enone_desugar.
  destruct (is_enone e); cbn [negb]; fold (strip_body r); fold (strip_body (map desugar r)); [exact IH|cbn [map]; rewrite IH; reflexivity].
Qed.

Lemma compile_events_strip evs : forall sc idx,
  compile_events (map desugar_event evs) sc idx = compile_events (map desugar_event (map strip_event evs)) sc idx.
Proof.
  induction evs as [|ev r IH]; intros sc idx; [reflexivity|]. cbn [map compile_events desugar_event strip_event ev_flag ev_body].
  destruct (compile_flag (ev_flag ev) sc) as [[fi sc1]| |]; cbn [bind]; try reflexivity.
  rewrite (compile_body_strip (map desugar (ev_body ev))), strip_desugar.
  destruct (compile_body (map desugar (strip_body (ev_body ev))) sc1) as [[bi sc2]| |]; cbn [bind]; try reflexivity.
  rewrite IH. reflexivity.
Qed.

Lemma compile_prog_strip evs sc : compile_prog (map desugar_event evs) sc = compile_prog (map desugar_event (map strip_event evs)) sc.
Proof. unfold compile_prog. rewrite compile_events_strip. reflexivity. Qed.

(* what compiling any layout of ap gives: a function of ap alone *)
Definition compile_aprog (ap : aprog) (ups : list (name * N)) : outcome (bin * scope) + perr :=
  match finish_parse (decls_of (ap_d1 ap) (ap_rep ap) (ap_d2 ap)) (ap_events ap) with
  | inr e => inr e
  | inl (Ok (p, sc)) => inl (compile_prog p (apply_updates ups sc))
  | inl Err => inl Err
  | inl Panic => inl Panic
  end.

Theorem compile_layout ap t src ups : lay_prog ap t -> utf8_decode src = Some t -> compile src ups = compile_aprog ap ups.
Proof.
  intros H Hu. destruct (new_with_scope_lay _ _ H) as (evs & Hs & Hn).
  unfold compile, compile_aprog. rewrite Hu, Hn, <- Hs. unfold finish_parse.
  destruct (declare new_report _ scope_new) as [sc1| |]; try reflexivity.
  destruct (declare new_control _ sc1) as [sc2| |]; try reflexivity.
  rewrite compile_prog_strip. reflexivity.
Qed.

Theorem layouts_compile_alike ap t1 t2 src1 src2 ups :
  lay_prog ap t1 -> lay_prog ap t2 -> utf8_decode src1 = Some t1 -> utf8_decode src2 = Some t2 ->
  compile src1 ups = compile src2 ups /\ compile_and_serialize src1 ups = compile_and_serialize src2 ups.
Proof.
  intros H1 H2 U1 U2.
  assert (Hc : compile src1 ups = compile src2 ups) by (rewrite (compile_layout _ _ _ ups H1 U1), (compile_layout _ _ _ ups H2 U2); reflexivity).
  split; [exact Hc|]. unfold compile_and_serialize. rewrite Hc. reflexivity.
Qed.
