(* Lowering: compile_expr, Bin::compile_prog (src/lang/datapath.rs), Prog::new_with_scope
   (src/lang/prog.rs) and lang::compile (src/lang/mod.rs). *)
From Portus Require Export Parser Scope Utf8.

Record instr := mkInstr { i_res : reg; i_op : op; i_left : reg; i_right : reg }.
Record devent := mkDEvent { e_flag_idx : N; e_num_flag : N; e_body_idx : N; e_num_body : N }.
Record bin := mkBin { b_events : list devent; b_instrs : list instr }.

Definition is_tnum (t : ty) : bool := match t with TNum _ => true | _ => false end.
Definition is_tbool (t : ty) : bool := match t with TBool _ => true | _ => false end.

Definition set_last_res (is : list instr) (r : reg) : option (list instr) :=
  match rev is with
  | [] => None
  | last :: before => Some (rev before ++ [mkInstr r (i_op last) (i_left last) (i_right last)])
  end.

Definition last_res_is_none (is : list instr) : bool :=
  match rev is with
  | last :: _ => match i_res last with RNone => true | _ => false end
  | [] => false
  end.

Fixpoint compile_expr (e : expr) (sc : scope) : outcome (list instr * reg * scope) :=
  match e with
  | Atom (PBool b) => Ok ([], ImmBool b, sc)
  | Atom (PName n) =>
    match sc_get (sc_named sc) n with
    | Some r => Ok ([], r, sc)
    | None => do (r, sc') <- new_local sc n (TName n); Ok ([], r, sc')
    end
  | Atom (PNum n) => Ok ([], ImmNum n, sc)
  | Cmd _ | ENone => Err
  | Sexp o le re =>
    do (is1, lft, sc1) <- compile_expr le sc;
    do (is2, rgt, sc2) <- compile_expr re sc1;
    let instrs := is1 ++ is2 in
    match o with
    | OAdd | ODiv | OMax | OMaxWrap | OMin | OMul | OSub =>
      if is_tnum (reg_type lft) && is_tnum (reg_type rgt) then
        let '(res, sc3) := new_tmp sc2 (TNum None) in
        Ok (instrs ++ [mkInstr res o lft rgt], res, sc3)
      else Err
    | OAnd | OOr =>
      if is_tbool (reg_type lft) && is_tbool (reg_type rgt) then
        let '(res, sc3) := new_tmp sc2 (TBool None) in
        Ok (instrs ++ [mkInstr res (match o with OAnd => OMul | _ => OMax end) lft rgt], res, sc3)
      else Err
    | OEquiv | OGt | OLt =>
      if is_tnum (reg_type lft) && is_tnum (reg_type rgt) then
        let '(res, sc3) := new_tmp sc2 (TBool None) in
        Ok (instrs ++ [mkInstr res o lft rgt], res, sc3)
      else Err
    | OBind =>
      do (lft', sc3) <- match reg_type lft with
                         | TName s => update_type sc2 s (reg_type rgt)
                         | _ => Ok (lft, sc2)
                         end;
      match lft', rgt with
      | Report _ _ _, RNone | Control _ _ _, RNone =>
        if last_res_is_none instrs then
          match set_last_res instrs lft' with
          | Some is' => Ok (is', lft', sc3)
          | None => Panic
          end
        else Panic      (* assert_eq!(last.res, Reg::None) / unreachable!() *)
      | Tmp _ _, RNone => Err
      | Implicit _ _, _ | Control _ _ _, _ | Local _ _, _ | Report _ _ _, _ | Tmp _ _, _ =>
        Ok (instrs ++ [mkInstr lft' OBind lft' rgt], lft', sc3)
      | _, _ => Err
      end
    | OEwma | OIf | ONotIf => Ok (instrs ++ [mkInstr RNone o lft rgt], RNone, sc2)
    | ODef => Panic
    end
  end.

(* ScopeDefInstrIter *)
Fixpoint def_instrs (l : list (name * reg)) : list instr :=
  match l with
  | [] => []
  | (_, r) :: rest =>
    match r with
    | Report _ (TNum (Some n)) _ | Control _ (TNum (Some n)) _ =>
      mkInstr r ODef r (ImmNum n) :: def_instrs rest
    | Report _ (TBool (Some b)) _ | Control _ (TBool (Some b)) _ =>
      mkInstr r ODef r (ImmBool b) :: def_instrs rest
    | _ => def_instrs rest
    end
  end.

Definition flag_reg : reg := Implicit 0 (TBool None).

Fixpoint compile_body (es : list expr) (sc : scope) : outcome (list instr * scope) :=
  match es with
  | [] => Ok ([], sc)
  | ENone :: r => compile_body r sc        (* comments are not statements *)
  | e :: r =>
    do (is, _, sc1) <- compile_expr e (clear_tmps sc);
    do (rest, sc2) <- compile_body r sc1;
    Ok (is ++ rest, sc2)
  end.

Definition compile_flag (e : expr) (sc : scope) : outcome (list instr * scope) :=
  do (is, res, sc1) <- compile_expr e (clear_tmps sc);
  match sc_get (sc_named sc1) (lit "__eventFlag") with
  | None => Panic      (* scope.get("__eventFlag").unwrap() *)
  | Some fr =>
    match res with
    | Tmp _ (TBool _) =>
      match set_last_res is fr with
      | Some is' => Ok (is', sc1)
      | None => Err
      end
    | ImmBool _ => Ok (is ++ [mkInstr fr OBind fr res], sc1)
    | _ => Err
    end
  end.

Fixpoint compile_events (evs : list event) (sc : scope) (idx : N)
  : outcome (list devent * list instr * scope) :=
  match evs with
  | [] => Ok ([], [], sc)
  | ev :: r =>
    do (fi, sc1) <- compile_flag (ev_flag ev) sc;
    do (bi, sc2) <- compile_body (ev_body ev) sc1;
    let nf := N.of_nat (length fi) in
    let nb := N.of_nat (length bi) in
    do (evs', is', sc3) <- compile_events r sc2 (idx + nf + nb);
    Ok (mkDEvent idx nf (idx + nf) nb :: evs', fi ++ bi ++ is', sc3)
  end.

Definition compile_prog (p : list event) (sc : scope) : outcome (bin * scope) :=
  let defs := def_instrs (sc_named sc) in
  do (evs, is, sc') <- compile_events p sc (N.of_nat (length defs));
  Ok (mkBin evs (defs ++ is), sc').

(* Prog::new_with_scope *)
Definition has_report_prefix (n : name) : bool :=
  match tag (lit "Report.") n with POk _ _ => true | _ => false end.

Fixpoint declare (mk : scope -> bool -> name -> ty -> outcome (reg * scope))
         (ds : list (bool * name * ty)) (sc : scope) : outcome scope :=
  match ds with
  | [] => Ok sc
  | (v, n, t) :: r => do (_, sc') <- mk sc v n t; declare mk r sc'
  end.

Inductive perr := PEFuel.

Definition pres_to_outcome {A} (r : pres A) : outcome (A * list N) + perr :=
  match r with
  | POk a rest => inl (Ok (a, rest))
  | PErr | PFail => inl Err
  | PFuel => inr PEFuel
  end.

(* fuel for every recursive parser: the length of the text plus two *)
Definition parse_fuel (src : list N) : nat := S (S (length src)).

Definition new_with_scope (src : list N) : outcome (list event * scope) + perr :=
  let fuel := parse_fuel src in
  match p_defs fuel src with
  | PFuel => inr PEFuel
  | PErr | PFail => inl Err
  | POk decls rest =>
    let reports := filter (fun '(_, n, _) => has_report_prefix n) decls in
    let controls := filter (fun '(_, n, _) => negb (has_report_prefix n)) decls in
    match declare new_report reports scope_new with
    | Ok sc1 =>
      match declare new_control controls sc1 with
      | Ok sc2 =>
        match p_events fuel rest with
        | PFuel => inr PEFuel
        | PErr | PFail => inl Err
        | POk evs rest' =>
          match rest' with
          | [] => inl (Ok (map (fun ev => mkEvent (ev_flag ev) (map desugar (ev_body ev))) evs, sc2))
          | _ => inl Err
          end
        end
      | Err => inl Err
      | Panic => inl Panic
      end
    | Err => inl Err
    | Panic => inl Panic
    end
  end.

(* the compile-time overrides: errors are printed and ignored *)
Fixpoint apply_updates (ups : list (name * N)) (sc : scope) : scope :=
  match ups with
  | [] => sc
  | (n, v) :: r =>
    match update_type sc n (TNum (Some v)) with
    | Ok (_, sc') => apply_updates r sc'
    | _ => apply_updates r sc
    end
  end.

(* lang::compile on bytes *)
Definition compile (src_bytes : list N) (ups : list (name * N)) : outcome (bin * scope) + perr :=
  match utf8_decode src_bytes with
  | None => inl Err
  | Some src =>
    match new_with_scope src with
    | inr e => inr e
    | inl (Ok (p, sc)) => inl (compile_prog p (apply_updates ups sc))
    | inl Err => inl Err
    | inl Panic => inl Panic
    end
  end.
