(* C20 (the parts proved so far): whitespace before any form is irrelevant, every operator
   spelling denotes its operator whatever follows it, a comment before an event or among the
   statements of an event does not change what is compiled. *)
From Portus Require Import Image.
From Coq Require Import ZArith ZifyN ZifyNat ZifyBool.

Definition all_ws (w : list N) : Prop := Forall (fun c => is_ws c = true) w.

Lemma skip_ws_app w i : all_ws w -> skip_ws (w ++ i) = skip_ws i.
Proof. induction 1 as [|c r Hc Hr IH]; cbn [app skip_ws]; [reflexivity|]. rewrite Hc. exact IH. Qed.

Lemma skip_ws_idem i : skip_ws (skip_ws i) = skip_ws i.
Proof.
  induction i as [|c r IH]; cbn [skip_ws]; [reflexivity|].
  destruct (is_ws c) eqn:E; [exact IH|]. cbn [skip_ws]. rewrite E. reflexivity.
Qed.

(* any run of spaces, tabs, carriage returns and newlines before an expression is irrelevant *)
Theorem expr_leading_ws f w i : all_ws w -> p_expr f (w ++ i) = p_expr f i.
Proof. intros H. destruct f as [|f]; [reflexivity|]. cbn [p_expr]. rewrite (skip_ws_app w i H). reflexivity. Qed.

(* ... and after it: the remainder an expression leaves never starts with whitespace *)
Theorem expr_trailing_ws f i e rest : p_expr f i = POk e rest -> skip_ws rest = rest.
Proof.
  destruct f as [|f]; [discriminate|]. cbn [p_expr].
  destruct (p_comment (skip_ws i)) as [e1 r1| | |]; [intros H; inversion H; apply skip_ws_idem| | |].
  all: destruct (p_sexp_with (p_expr f) (skip_ws i)) as [e2 r2| | |]; try discriminate;
    try (intros H; inversion H; apply skip_ws_idem).
  all: destruct (p_command (skip_ws i)) as [e3 r3| | |]; try (intros H; inversion H; apply skip_ws_idem).
  all: destruct (p_atom (skip_ws i)) as [e4 r4| | |]; try discriminate; intros H; inversion H; apply skip_ws_idem.
Qed.

Theorem decl_leading_ws w i : all_ws w -> p_decl (w ++ i) = p_decl i.
Proof. intros H. unfold p_decl. rewrite (skip_ws_app w i H). reflexivity. Qed.

Theorem event_leading_ws f w i : all_ws w -> p_event f (w ++ i) = p_event f i.
Proof. intros H. unfold p_event. rewrite (skip_ws_app w i H). reflexivity. Qed.

Theorem event_item_leading_ws f w i : all_ws w -> p_event_item f (w ++ i) = p_event_item f i.
Proof. intros H. unfold p_event_item. rewrite (skip_ws_app w i H). reflexivity. Qed.

Theorem defs_leading_ws f w i : all_ws w -> p_defs f (w ++ i) = p_defs f i.
Proof. intros H. unfold p_defs. rewrite (skip_ws_app w i H). reflexivity. Qed.

(* whitespace between the parenthesis and the keyword / operator of a form *)
Theorem sexp_inner_ws rec w i : all_ws w ->
  p_sexp_with rec (lit "(" ++ w ++ i) = p_sexp_with rec (lit "(" ++ i).
Proof. intros H. unfold p_sexp_with. cbn [lit app tag]. cbn. rewrite (skip_ws_app w i H). reflexivity. Qed.

(* every spelling of every operator is recognised as that operator, whatever follows it: no
   earlier alternative of the ordered choice is a prefix of a later spelling *)
Theorem op_spellings rest :
  map (fun to => p_op (fst to ++ rest)) op_table = map (fun to => POk (snd to) rest) op_table.
Proof. reflexivity. Qed.

(* the two spellings of an operator are interchangeable *)
Corollary op_spelling_pairs rest :
  p_op (lit "+" ++ rest) = p_op (lit "add" ++ rest) /\ p_op (lit "-" ++ rest) = p_op (lit "sub" ++ rest) /\
  p_op (lit "*" ++ rest) = p_op (lit "mul" ++ rest) /\ p_op (lit "/" ++ rest) = p_op (lit "div" ++ rest) /\
  p_op (lit "==" ++ rest) = p_op (lit "eq" ++ rest) /\ p_op (lit ">" ++ rest) = p_op (lit "gt" ++ rest) /\
  p_op (lit "<" ++ rest) = p_op (lit "lt" ++ rest) /\ p_op (lit "&&" ++ rest) = p_op (lit "and" ++ rest) /\
  p_op (lit "||" ++ rest) = p_op (lit "or" ++ rest) /\ p_op (lit ":=" ++ rest) = p_op (lit "bind" ++ rest).
Proof. repeat split; reflexivity. Qed.

(* a newline-terminated comment before an event is skipped *)
Definition no_newline (t : list N) : Prop := Forall (fun c => c <> 10) t.

Lemma until_newline_comment t i : no_newline t -> until_newline (t ++ 10 :: i) = Some (10 :: i).
Proof.
  induction 1 as [|c r Hc Hr IH]; cbn [app until_newline]; [reflexivity|].
  replace (c =? 10) with false by (symmetry; apply N.eqb_neq; exact Hc). exact IH.
Qed.

Lemma event_skip_ws f i : p_event f (skip_ws i) = p_event f i.
Proof. unfold p_event. rewrite skip_ws_idem. reflexivity. Qed.

Theorem comment_before_event f t i : no_newline t -> p_comment (skip_ws i) = PErr ->
  p_event_item f (lit "#" ++ t ++ 10 :: i) = p_event_item f i.
Proof.
  intros H Hnc. unfold p_event_item.
  change (skip_ws (lit "#" ++ t ++ 10 :: i)) with (lit "#" ++ t ++ 10 :: i).
  assert (Hc : p_comment (lit "#" ++ t ++ 10 :: i) = POk ENone (10 :: i)).
  { unfold p_comment. cbn [lit app tag]. cbn. rewrite (until_newline_comment t i H). reflexivity. }
  rewrite Hc, Hnc.
  change (10 :: i) with ([10] ++ i).
  rewrite (event_leading_ws f [10] i) by (repeat constructor).
  rewrite event_skip_ws. reflexivity.
Qed.

(* a comment among the statements of an event parses to the empty expression ... *)
Theorem comment_statement f t i : no_newline t ->
  p_expr (S f) (lit "#" ++ t ++ 10 :: i) = POk ENone (skip_ws i).
Proof.
  intros H. cbn [p_expr].
  change (skip_ws (lit "#" ++ t ++ 10 :: i)) with (lit "#" ++ t ++ 10 :: i).
  unfold p_comment. cbn [lit app tag]. cbn. rewrite (until_newline_comment t i H).
  cbn [skip_ws is_ws]. cbn. reflexivity.
Qed.

(* ... which lowering skips: the instructions and the scope are those of the other statements *)
Theorem comment_statement_is_skipped es1 es2 sc :
  compile_body (es1 ++ ENone :: es2) sc = compile_body (es1 ++ es2) sc.
Proof.
  revert sc. induction es1 as [|e r IH]; intros sc; cbn [app compile_body]; [reflexivity|].
  destruct e; try (rewrite IH; reflexivity).
  all: destruct (compile_expr _ (clear_tmps sc)) as [[[is rg] sc1]| |]; cbn [bind]; try reflexivity;
    rewrite IH; reflexivity.
Qed.
