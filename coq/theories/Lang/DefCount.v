(* C03, first clause, read against the source: the instruction list begins with exactly one DEF per
   declared variable that has a literal initial value -- as many DEF instructions as the (def ...) form
   has declarations with a numeric or boolean literal, for every source text (no overrides). *)
From Portus Require Import ImageWf ScopeFacts.

Definition litc (t : ty) : nat := match t with TNum (Some _) | TBool (Some _) => 1%nat | _ => 0%nat end.
Definition nlit (ds : list (bool * name * ty)) : nat := list_sum (map (fun d => litc (snd d)) ds).
Definition is_def_op (i : instr) : bool := match i_op i with ODef => true | _ => false end.

Lemma def_instrs_cons kv t : length (def_instrs (kv :: t)) = (length (def_instrs [kv]) + length (def_instrs t))%nat.
Proof.
  destruct kv as [k r]. cbn [def_instrs].
  destruct r as [i ty vol|n|b|i ty|i ty|i ty|i ty vol|i ty|]; try reflexivity;
    destruct ty as [[b|]|s|[n|]|]; reflexivity.
Qed.

Lemma def_len_insert l n r : length (def_instrs (rf_insert l n r)) = (length (def_instrs l) + length (def_instrs [(n, r)]))%nat.
Proof.
  induction l as [|[k v] t IH]; cbn [rf_insert].
  - cbn [def_instrs length]. lia.
  - destruct (name_ltb k n).
    + rewrite (def_instrs_cons (k, v) (rf_insert t n r)), IH, (def_instrs_cons (k, v) t). lia.
    + rewrite (def_instrs_cons (n, r) ((k, v) :: t)). lia.
Qed.

Lemma def_one_report n i t v : length (def_instrs [(n, Report i t v)]) = litc t.
Proof. cbn [def_instrs]. destruct t as [[b|]|s|[m|]|]; reflexivity. Qed.
Lemma def_one_control n i t v : length (def_instrs [(n, Control i t v)]) = litc t.
Proof. cbn [def_instrs]. destruct t as [[b|]|s|[m|]|]; reflexivity. Qed.

Lemma new_report_defs sc v n t r sc' : new_report sc v n t = Ok (r, sc') ->
  length (def_instrs (sc_named sc')) = (length (def_instrs (sc_named sc)) + litc t)%nat.
Proof.
  unfold new_report. destruct (255 <=? sc_nperm sc); [discriminate|]. intros H. inversion H; subst. cbn [sc_named].
  rewrite def_len_insert, def_one_report. reflexivity.
Qed.
Lemma new_control_defs sc v n t r sc' : new_control sc v n t = Ok (r, sc') ->
  length (def_instrs (sc_named sc')) = (length (def_instrs (sc_named sc)) + litc t)%nat.
Proof.
  unfold new_control. destruct (255 <=? sc_nctl sc); [discriminate|]. intros H. inversion H; subst. cbn [sc_named].
  rewrite def_len_insert, def_one_control. reflexivity.
Qed.

Lemma declare_defs (mk : scope -> bool -> name -> ty -> outcome (reg * scope)) :
  (forall sc v n t r sc', mk sc v n t = Ok (r, sc') -> length (def_instrs (sc_named sc')) = (length (def_instrs (sc_named sc)) + litc t)%nat) ->
  forall ds sc sc', declare mk ds sc = Ok sc' -> length (def_instrs (sc_named sc')) = (length (def_instrs (sc_named sc)) + nlit ds)%nat.
Proof.
  intros Hmk. induction ds as [|[[v n] t] r IH]; intros sc sc' H; cbn [declare] in H.
  - inversion H; subst. unfold nlit. cbn [map list_sum fold_right]. lia.
  - apply bind_ok_inv in H. destruct H as ([r1 sc1] & H1 & H). rewrite (IH _ _ H), (Hmk _ _ _ _ _ _ H1).
    unfold nlit. simpl map. simpl list_sum. simpl snd. lia.
Qed.

Lemma nlit_split ds :
  (nlit (filter (fun '(_, n, _) => has_report_prefix n) ds) + nlit (filter (fun '(_, n, _) => negb (has_report_prefix n)) ds) = nlit ds)%nat.
Proof.
  unfold nlit. induction ds as [|[[v n] t] r IH]; [reflexivity|]. cbn [filter]. destruct (has_report_prefix n); simpl in *; lia.
Qed.

Lemma filter_defs_all l : Forall is_def_instr l -> length (filter is_def_op l) = length l.
Proof. induction 1 as [|i t (Ho & _) _ IH]; [reflexivity|]. cbn [filter]. unfold is_def_op at 1. rewrite Ho. cbn [length]. lia. Qed.

Lemma filter_defs_none l : Forall (fun i => i_op i <> ODef) l -> filter is_def_op l = [].
Proof.
  induction 1 as [|i t Ho _ IH]; [reflexivity|]. cbn [filter]. unfold is_def_op at 1.
  destruct (i_op i); try exact IH. congruence.
Qed.

Lemma scope_new_no_defs : length (def_instrs (sc_named scope_new)) = 0%nat.
Proof. vm_compute. reflexivity. Qed.

Theorem def_count src cps decls rest b sc :
  utf8_decode src = Some cps -> p_defs (parse_fuel cps) cps = POk decls rest ->
  compile src [] = inl (Ok (b, sc)) ->
  length (filter is_def_op (b_instrs b)) = nlit decls.
Proof.
  intros Hu Hd Hc. unfold compile in Hc. rewrite Hu in Hc.
  destruct (new_with_scope cps) as [[[evs sc0]| |]|] eqn:Hn; try discriminate.
  assert (Hp : compile_prog evs sc0 = Ok (b, sc)) by (inversion Hc; reflexivity). clear Hc.
  unfold new_with_scope in Hn. rewrite Hd in Hn.
  destruct (declare new_report _ scope_new) as [sc1| |] eqn:D1; try discriminate.
  destruct (declare new_control _ sc1) as [sc2| |] eqn:D2; try discriminate.
  destruct (p_events (parse_fuel cps) rest) as [es rest'| | |] eqn:Ee; try discriminate.
  destruct rest'; try discriminate. inversion Hn; subst evs sc0; clear Hn.
  unfold compile_prog in Hp. apply bind_ok_inv in Hp. destruct Hp as ([[devs eis] scF] & Hev & Hp). inversion Hp; subst b scF; clear Hp.
  cbn [b_instrs]. rewrite filter_app, app_length.
  rewrite (filter_defs_none _ (compile_events_no_def _ _ _ _ _ _ Hev)). cbn [length].
  rewrite (filter_defs_all _ (def_instrs_are_defs _)).
  rewrite (declare_defs new_control new_control_defs _ _ _ D2), (declare_defs new_report new_report_defs _ _ _ D1), scope_new_no_defs.
  pose proof (nlit_split decls) as Hs. lia.
Qed.
