(* Invariants of the scope through declaration and lowering: unique names, registers of the
   variable classes only, the built-in ABI intact and never shadowed, slot counters as strict
   bounds, distinct names in distinct slots.  (This is also the content of C13.) *)
From Portus Require Export CompileFacts.
From Portus Require Import ScopeFacts TotalFacts.

Definition implicit_index (n : name) : option N :=
  (fix go (l : list (list N * N)) :=
     match l with
     | [] => None
     | (k, i) :: r => if name_eqb k n then Some i else go r
     end)
    [ (lit "__eventFlag", 0); (lit "__shouldContinue", 1); (lit "__shouldReport", 2);
      (lit "Micros", 3); (lit "Cwnd", 4); (lit "Rate", 5) ].

Definition is_builtin_name (n : name) : bool :=
  match primitive_index n, implicit_index n with None, None => false | _, _ => true end.

(* ---------- lists with unique keys ---------- *)

Definition keys_nodup (l : list (name * reg)) : Prop := NoDup (map fst l).

Lemma get_in l x r : sc_get l x = Some r -> In (x, r) l.
Proof.
  induction l as [|[k v] t IH]; cbn [sc_get]; [discriminate|].
  destruct (name_eqb k x) eqn:E; intros H.
  - apply name_eqb_eq in E. inversion H; subst. left. reflexivity.
  - right. apply IH. exact H.
Qed.

Lemma get_none_keys l x : sc_get l x = None <-> ~ In x (map fst l).
Proof.
  induction l as [|[k v] t IH]; cbn [sc_get map fst In]; [tauto|].
  destruct (name_eqb k x) eqn:E.
  - apply name_eqb_eq in E. subst. split; [discriminate|]. intros H. exfalso. apply H. left. reflexivity.
  - rewrite IH. split; intros H; [|tauto]. intros [Hk|Hk]; [subst; rewrite name_eqb_refl in E; discriminate|tauto].
Qed.

Lemma in_get l x r : keys_nodup l -> In (x, r) l -> sc_get l x = Some r.
Proof.
  unfold keys_nodup. induction l as [|[k v] t IH]; intros Hnd Hin; [destruct Hin|].
  cbn [map fst] in Hnd. inversion Hnd as [|? ? Hni Hnd']; subst. cbn [sc_get].
  destruct Hin as [Hin|Hin].
  - inversion Hin; subst. rewrite name_eqb_refl. reflexivity.
  - destruct (name_eqb k x) eqn:E; [|apply IH; auto].
    apply name_eqb_eq in E. subst. exfalso. apply Hni. apply in_map_iff. exists (x, r). auto.
Qed.

Lemma rf_insert_keys l n r : map fst (rf_insert l n r) = map fst (rf_insert l n r) /\
  (forall x, In x (map fst (rf_insert l n r)) <-> x = n \/ In x (map fst l)).
Proof.
  split; [reflexivity|]. induction l as [|[k v] t IH]; intros x; cbn [rf_insert map fst In].
  - intuition congruence.
  - destruct (name_ltb k n); cbn [map fst In]; [rewrite IH|]; intuition congruence.
Qed.

Lemma rf_insert_nodup l n r : keys_nodup l -> ~ In n (map fst l) -> keys_nodup (rf_insert l n r).
Proof.
  unfold keys_nodup. induction l as [|[k v] t IH]; intros Hnd Hni; cbn [rf_insert map fst].
  - constructor; [intros []|constructor].
  - cbn [map fst] in Hnd, Hni. inversion Hnd as [|? ? Hk Hnd']; subst.
    destruct (name_ltb k n); cbn [map fst].
    + constructor; [|apply IH; [exact Hnd'|intros Hx; apply Hni; right; exact Hx]].
      intros Hin. apply (proj2 (rf_insert_keys t n r)) in Hin. destruct Hin as [->|Hin]; [apply Hni; left; reflexivity|contradiction].
    + constructor; [exact Hni|exact Hnd].
Qed.

Lemma rf_update_type_keys l n t : forall r l', rf_update_type l n t = Ok (r, l') -> map fst l' = map fst l.
Proof.
  induction l as [|[k v] rest IH]; intros r l' H; cbn [rf_update_type] in H; [discriminate|].
  destruct (name_eqb k n).
  - destruct v; try discriminate H; inversion H; subst; reflexivity.
  - apply bind_ok_inv in H. destruct H as ([r1 rest'] & H1 & H). inversion H; subst. cbn [map fst]. f_equal. eapply IH; eauto.
Qed.

(* ---------- the invariant ---------- *)

Record sinv (sc : scope) : Prop := mkSinv {
  si_keys : keys_nodup (sc_named sc);
  si_class : forall x r, sc_get (sc_named sc) x = Some r -> var_class r = true \/ exists i t, r = Primitive i t;
  si_prims : forall x, match primitive_index x with
                       | Some i => exists t, sc_get (sc_named sc) x = Some (Primitive i t)
                       | None => forall i t, sc_get (sc_named sc) x <> Some (Primitive i t)
                       end;
  si_impl : forall x, match implicit_index x with
                      | Some i => exists t, sc_get (sc_named sc) x = Some (Implicit i t)
                      | None => forall i t, sc_get (sc_named sc) x <> Some (Implicit i t)
                      end;
  si_bounds : forall x r, sc_get (sc_named sc) x = Some r ->
                match r with
                | Report i _ _ => i < sc_nperm sc
                | Control i _ _ => i < sc_nctl sc
                | Local i _ => i < sc_nloc sc
                | _ => True
                end;
  si_inj : forall x y rx ry, sc_get (sc_named sc) x = Some rx -> sc_get (sc_named sc) y = Some ry ->
                             var_class rx = true -> slot rx = slot ry -> x = y
}.

(* the initial scope, by evaluation over its 21 entries *)
Definition entries_new : list (name * reg) := sc_named scope_new.

Lemma get_new_in x r : sc_get entries_new x = Some r -> In (x, r) entries_new.
Proof. apply get_in. Qed.

Lemma entries_new_cases (P : name -> reg -> Prop) :
  Forall (fun kv => P (fst kv) (snd kv)) entries_new -> forall x r, sc_get entries_new x = Some r -> P x r.
Proof.
  intros H x r Hg. apply get_in in Hg. rewrite Forall_forall in H. exact (H (x, r) Hg).
Qed.

Definition pair_ok (kv1 kv2 : name * reg) : bool :=
  implb (var_class (snd kv1) && match slot (snd kv1), slot (snd kv2) with
                                | Some (f, i), Some (g, j) => file_eqb f g && (i =? j)
                                | None, None => true
                                | _, _ => false
                                end) (name_eqb (fst kv1) (fst kv2)).

Lemma slot_eq_b (a b : reg) : slot a = slot b ->
  match slot a, slot b with
  | Some (f, i), Some (g, j) => file_eqb f g && (i =? j)
  | None, None => true
  | _, _ => false
  end = true.
Proof.
  intros ->. destruct (slot b) as [[g j]|]; [|reflexivity].
  rewrite N.eqb_refl, andb_true_r. apply file_eqb_eq. reflexivity.
Qed.

Lemma sinv_new : sinv scope_new.
Proof.
  constructor.
  - unfold keys_nodup. change (sc_named scope_new) with entries_new.
    assert (H : forallb (fun p => negb (name_eqb (fst p) (snd p)))
                  (flat_map (fun i => map (fun j => (nth i (map fst entries_new) [], nth j (map fst entries_new) [])) (seq (S i) (20 - i))) (seq 0 21)) = true)
      by (vm_compute; reflexivity).
    (* pairwise distinct names: checked by evaluation, turned into NoDup entry by entry *)
    vm_compute. repeat (constructor; [cbn; intros Hin; repeat (destruct Hin as [Hin|Hin]; [discriminate Hin|]); exact Hin|]). constructor.
  - intros x r Hg. change (sc_named scope_new) with entries_new in Hg.
    revert x r Hg. apply entries_new_cases. vm_compute.
    repeat (constructor; [first [left; reflexivity|right; eauto]|]). constructor.
  - intros x. change (sc_named scope_new) with entries_new.
    destruct (primitive_index x) as [i|] eqn:E.
    + unfold primitive_index in E.
      repeat match type of E with
             | (if name_eqb ?k x then _ else _) = _ =>
               let E1 := fresh in destruct (name_eqb k x) eqn:E1;
               [apply name_eqb_eq in E1; subst x; inversion E; subst i; eexists; vm_compute; reflexivity|]
             end.
      discriminate E.
    + intros i t Hg. revert E. revert x Hg.
      assert (H : forall x r, sc_get entries_new x = Some r -> match r with Primitive _ _ => primitive_index x <> None | _ => True end).
      { apply entries_new_cases. vm_compute. repeat (constructor; [first [exact I|discriminate]|]). constructor. }
      intros x Hg E. specialize (H _ _ Hg). cbn in H. contradiction.
  - intros x. change (sc_named scope_new) with entries_new.
    destruct (implicit_index x) as [i|] eqn:E.
    + unfold implicit_index in E.
      repeat match type of E with
             | (if name_eqb ?k x then _ else _) = _ =>
               let E1 := fresh in destruct (name_eqb k x) eqn:E1;
               [apply name_eqb_eq in E1; subst x; inversion E; subst i; eexists; vm_compute; reflexivity|]
             end.
      discriminate E.
    + intros i t Hg.
      assert (H : forall x r, sc_get entries_new x = Some r -> match r with Implicit _ _ => implicit_index x <> None | _ => True end).
      { apply entries_new_cases. vm_compute. repeat (constructor; [first [exact I|discriminate]|]). constructor. }
      specialize (H _ _ Hg). cbn in H. contradiction.
  - intros x r Hg. change (sc_named scope_new) with entries_new in Hg. revert x r Hg. apply entries_new_cases.
    vm_compute. repeat (constructor; [exact I|]). constructor.
  - intros x y rx ry Hx Hy Hv Hs. change (sc_named scope_new) with entries_new in Hx, Hy.
    apply get_in in Hx. apply get_in in Hy.
    assert (H : forallb (fun kv1 => forallb (pair_ok kv1) entries_new) entries_new = true) by (vm_compute; reflexivity).
    rewrite forallb_forall in H. specialize (H _ Hx). rewrite forallb_forall in H. specialize (H _ Hy).
    unfold pair_ok in H. cbn [fst snd] in H. rewrite Hv, (slot_eq_b _ _ Hs) in H. cbn in H.
    apply name_eqb_eq. exact H.
Qed.

(* ---------- preservation ---------- *)

Definition bnd (sc : scope) (r : reg) : Prop :=
  match r with
  | Report i _ _ => i < sc_nperm sc
  | Control i _ _ => i < sc_nctl sc
  | Local i _ => i < sc_nloc sc
  | _ => True
  end.

Lemma builtin_name_none n : is_builtin_name n = false -> primitive_index n = None /\ implicit_index n = None.
Proof. unfold is_builtin_name. destruct (primitive_index n), (implicit_index n); try discriminate; auto. Qed.

(* a name that is not in the scope is not a built-in name *)
Lemma fresh_not_builtin sc n : sinv sc -> sc_get (sc_named sc) n = None -> is_builtin_name n = false.
Proof.
  intros S Hn. unfold is_builtin_name.
  pose proof (si_prims _ S n) as Hp. pose proof (si_impl _ S n) as Hi.
  destruct (primitive_index n); [destruct Hp as (t & Hp); congruence|].
  destruct (implicit_index n); [destruct Hi as (t & Hi); congruence|reflexivity].
Qed.

Lemma sinv_insert sc sc' n r : sinv sc -> sc_get (sc_named sc) n = None -> is_builtin_name n = false ->
  sc_named sc' = rf_insert (sc_named sc) n r ->
  var_class r = true -> (forall i t, r <> Implicit i t) ->
  (forall y ry, sc_get (sc_named sc) y = Some ry -> slot ry <> slot r) ->
  (forall ry, bnd sc ry -> bnd sc' ry) -> bnd sc' r ->
  sinv sc'.
Proof.
  intros S Hn Hb Hnamed Hvc Hni Hfs Hmono Hbr.
  destruct (builtin_name_none _ Hb) as [Hpn Hin].
  assert (Hsame : sc_get (sc_named sc') n = Some r) by (rewrite Hnamed; apply get_insert_same; exact Hn).
  assert (Hoth : forall m, n <> m -> sc_get (sc_named sc') m = sc_get (sc_named sc) m)
    by (intros m Hm; rewrite Hnamed; apply get_insert_other; exact Hm).
  assert (Hcase : forall x rx, sc_get (sc_named sc') x = Some rx -> (x = n /\ rx = r) \/ (x <> n /\ sc_get (sc_named sc) x = Some rx)).
  { intros x rx Hx. destruct (name_eqb n x) eqn:E.
    - apply name_eqb_eq in E. subst x. left. split; [reflexivity|congruence].
    - right. assert (n <> x) by (intros ->; rewrite name_eqb_refl in E; discriminate).
      split; [congruence|]. rewrite <- Hoth; auto. }
  constructor.
  - rewrite Hnamed. apply rf_insert_nodup; [apply (si_keys _ S)|]. apply get_none_keys. exact Hn.
  - intros x rx Hx. destruct (Hcase _ _ Hx) as [[-> ->]|[_ Hx']]; [left; exact Hvc|apply (si_class _ S _ _ Hx')].
  - intros x. pose proof (si_prims _ S x) as Hp.
    destruct (name_eqb n x) eqn:E.
    + apply name_eqb_eq in E. subst x. rewrite Hpn. intros i t. rewrite Hsame. intros Hq. inversion Hq; subst r.
      unfold var_class in Hvc. discriminate Hvc.
    + assert (Hne : n <> x) by (intros ->; rewrite name_eqb_refl in E; discriminate).
      rewrite (Hoth _ Hne). exact Hp.
  - intros x. pose proof (si_impl _ S x) as Hi.
    destruct (name_eqb n x) eqn:E.
    + apply name_eqb_eq in E. subst x. rewrite Hin. intros i t. rewrite Hsame. intros Hq. inversion Hq. eapply Hni; eauto.
    + assert (Hne : n <> x) by (intros ->; rewrite name_eqb_refl in E; discriminate).
      rewrite (Hoth _ Hne). exact Hi.
  - intros x rx Hx. destruct (Hcase _ _ Hx) as [[-> ->]|[_ Hx']]; [exact Hbr|].
    apply Hmono. exact (si_bounds _ S _ _ Hx').
  - intros x y rx ry Hx Hy Hv Hs.
    destruct (Hcase _ _ Hx) as [[-> ->]|[Hxn Hx']], (Hcase _ _ Hy) as [[-> ->]|[Hyn Hy']].
    + reflexivity.
    + exfalso. apply (Hfs _ _ Hy'). congruence.
    + exfalso. apply (Hfs _ _ Hx'). exact Hs.
    + eapply (si_inj _ S); eauto.
Qed.

Lemma bounded_slot_fresh sc (P : reg -> Prop) r :
  sinv sc -> (forall y ry, sc_get (sc_named sc) y = Some ry -> slot ry = slot r -> bnd sc ry -> False) ->
  forall y ry, sc_get (sc_named sc) y = Some ry -> slot ry <> slot r.
Proof. intros S H y ry Hy E. apply (H y ry Hy E). apply (si_bounds _ S _ _ Hy). Qed.

Lemma sinv_new_report sc vol n t r sc' : sinv sc -> sc_get (sc_named sc) n = None -> is_builtin_name n = false ->
  new_report sc vol n t = Ok (r, sc') -> sinv sc'.
Proof.
  intros S Hn Hb H. unfold new_report in H. destruct (255 <=? sc_nperm sc); [discriminate|]. inversion H; subst; clear H.
  match goal with |- sinv ?s' => refine (sinv_insert sc s' n (Report (sc_nperm sc) t vol) S Hn Hb eq_refl eq_refl _ _ _ _) end.
  - discriminate.
  - apply (bounded_slot_fresh sc (fun _ => True)); auto. intros y ry Hy E Hbd.
    destruct ry; cbn in E; try discriminate E; inversion E; subst; cbn in Hbd; lia.
  - intros ry Hr. destruct ry; cbn in *; auto; lia.
  - cbn. lia.
Qed.

Lemma sinv_new_control sc vol n t r sc' : sinv sc -> sc_get (sc_named sc) n = None -> is_builtin_name n = false ->
  new_control sc vol n t = Ok (r, sc') -> sinv sc'.
Proof.
  intros S Hn Hb H. unfold new_control in H. destruct (255 <=? sc_nctl sc); [discriminate|]. inversion H; subst; clear H.
  match goal with |- sinv ?s' => refine (sinv_insert sc s' n (Control (sc_nctl sc) t vol) S Hn Hb eq_refl eq_refl _ _ _ _) end.
  - discriminate.
  - apply (bounded_slot_fresh sc (fun _ => True)); auto. intros y ry Hy E Hbd.
    destruct ry; cbn in E; try discriminate E; inversion E; subst; cbn in Hbd; lia.
  - intros ry Hr. destruct ry; cbn in *; auto; lia.
  - cbn. lia.
Qed.

Lemma sinv_new_local sc n t r sc' : sinv sc -> sc_get (sc_named sc) n = None ->
  new_local sc n t = Ok (r, sc') -> sinv sc'.
Proof.
  intros S Hn H. pose proof (fresh_not_builtin _ _ S Hn) as Hb.
  unfold new_local in H. destruct (255 <=? sc_nloc sc); [discriminate|]. inversion H; subst; clear H.
  match goal with |- sinv ?s' => refine (sinv_insert sc s' n (Local (sc_nloc sc) t) S Hn Hb eq_refl eq_refl _ _ _ _) end.
  - discriminate.
  - apply (bounded_slot_fresh sc (fun _ => True)); auto. intros y ry Hy E Hbd.
    destruct ry; cbn in E; try discriminate E; inversion E; subst; cbn in Hbd; lia.
  - intros ry Hr. destruct ry; cbn in *; auto; lia.
  - cbn. lia.
Qed.

Lemma retype_facts r t : (match r with Report _ _ _ | Local _ _ | Control _ _ _ => True | _ => False end) ->
  slot (retype r t) = slot r /\ var_class (retype r t) = var_class r /\
  (forall i u, retype r t <> Primitive i u) /\ (forall i u, retype r t <> Implicit i u).
Proof. destruct r; intros H; try contradiction; cbn; repeat split; discriminate. Qed.

Lemma rf_update_type_class l n t : forall r l', rf_update_type l n t = Ok (r, l') ->
  exists r0, sc_get l n = Some r0 /\ match r0 with Report _ _ _ | Local _ _ | Control _ _ _ => True | _ => False end.
Proof.
  induction l as [|[k v] rest IH]; intros r l' H; cbn [rf_update_type] in H; [discriminate|].
  cbn [sc_get]. destruct (name_eqb k n).
  - destruct v; try discriminate H; eexists; split; try reflexivity; exact I.
  - apply bind_ok_inv in H. destruct H as ([r1 rest'] & H1 & _). eapply IH; eauto.
Qed.

Lemma sinv_update_type sc n t r sc' : sinv sc -> update_type sc n t = Ok (r, sc') -> sinv sc'.
Proof.
  intros S H.
  assert (Hcls : exists r0, sc_get (sc_named sc) n = Some r0 /\
                            match r0 with Report _ _ _ | Local _ _ | Control _ _ _ => True | _ => False end).
  { unfold update_type in H. apply bind_ok_inv in H. destruct H as ([r1 named'] & H1 & _). eapply rf_update_type_class; eauto. }
  assert (Hkeys : map fst (sc_named sc') = map fst (sc_named sc)).
  { unfold update_type in H. apply bind_ok_inv in H. destruct H as ([r1 named'] & H1 & H). inversion H; subst. cbn.
    eapply rf_update_type_keys; eauto. }
  apply update_type_spec in H. destruct H as ((r0 & G0 & Hr & Hty & Hd) & G1 & Ho & _ & Hl & Hc & Hp).
  destruct Hcls as (r0' & G0' & Hcl). rewrite G0 in G0'. inversion G0'; subst r0'. clear G0'.
  destruct (retype_facts r0 t Hcl) as (Hs & Hv & Hnp & Hni). rewrite <- Hr in Hs, Hv, Hnp, Hni.
  assert (Hcase : forall x rx, sc_get (sc_named sc') x = Some rx ->
                    (x = n /\ rx = r) \/ (x <> n /\ sc_get (sc_named sc) x = Some rx)).
  { intros x rx Hx. destruct (name_eqb x n) eqn:E.
    - apply name_eqb_eq in E. subst x. left. split; [reflexivity|congruence].
    - right. assert (x <> n) by (intros ->; rewrite name_eqb_refl in E; discriminate). split; [assumption|]. rewrite <- Ho; auto. }
  assert (Hbr : bnd sc r0 -> bnd sc' r).
  { rewrite Hr. destruct r0; try contradiction; cbn; rewrite ?Hp, ?Hc, ?Hl; auto. }
  constructor.
  - unfold keys_nodup. rewrite Hkeys. apply (si_keys _ S).
  - intros x rx Hx. destruct (Hcase _ _ Hx) as [[-> ->]|[_ Hx']]; [|apply (si_class _ S _ _ Hx')].
    left. rewrite Hv. destruct (si_class _ S _ _ G0) as [Hq|(i & u & ->)]; [exact Hq|contradiction].
  - intros x. pose proof (si_prims _ S x) as Hpx. destruct (name_eqb x n) eqn:E.
    + apply name_eqb_eq in E. subst x. destruct (primitive_index n).
      * destruct Hpx as (u & Hpx). rewrite G0 in Hpx. inversion Hpx; subst r0. contradiction.
      * intros i u. rewrite G1. intros Hq. inversion Hq. eapply Hnp; eauto.
    + assert (x <> n) by (intros ->; rewrite name_eqb_refl in E; discriminate). rewrite Ho by assumption. exact Hpx.
  - intros x. pose proof (si_impl _ S x) as Hix. destruct (name_eqb x n) eqn:E.
    + apply name_eqb_eq in E. subst x. destruct (implicit_index n).
      * destruct Hix as (u & Hix). rewrite G0 in Hix. inversion Hix; subst r0. contradiction.
      * intros i u. rewrite G1. intros Hq. inversion Hq. eapply Hni; eauto.
    + assert (x <> n) by (intros ->; rewrite name_eqb_refl in E; discriminate). rewrite Ho by assumption. exact Hix.
  - intros x rx Hx. destruct (Hcase _ _ Hx) as [[-> ->]|[_ Hx']].
    + apply Hbr. exact (si_bounds _ S _ _ G0).
    + pose proof (si_bounds _ S _ _ Hx') as Hb. destruct rx; cbn in *; rewrite ?Hp, ?Hc, ?Hl; auto.
  - intros x y rx ry Hx Hy Hvx Hsx.
    destruct (Hcase _ _ Hx) as [[-> ->]|[Hxn Hx']], (Hcase _ _ Hy) as [[-> ->]|[Hyn Hy']].
    + reflexivity.
    + symmetry. eapply (si_inj _ S _ _ _ _ Hy' G0); [|congruence].
      destruct (si_class _ S _ _ Hy') as [Hq|(i & u & ->)]; [exact Hq|]. rewrite Hs in Hsx. destruct r0; try contradiction; discriminate Hsx.
    + eapply (si_inj _ S _ _ _ _ Hx' G0); [exact Hvx|congruence].
    + eapply (si_inj _ S); eauto.
Qed.

Lemma sinv_same sc sc' : sinv sc -> sc_named sc' = sc_named sc -> sc_nperm sc' = sc_nperm sc ->
  sc_nctl sc' = sc_nctl sc -> sc_nloc sc' = sc_nloc sc -> sinv sc'.
Proof.
  intros S Hn Hp Hc Hl. constructor; rewrite ?Hn.
  - apply (si_keys _ S).
  - apply (si_class _ S).
  - apply (si_prims _ S).
  - apply (si_impl _ S).
  - intros x r Hx. pose proof (si_bounds _ S _ _ Hx) as Hb. destruct r; cbn in *; rewrite ?Hp, ?Hc, ?Hl; auto.
  - apply (si_inj _ S).
Qed.

(* ---------- through declaration and lowering ---------- *)

Lemma declare_sinv (mk : scope -> bool -> name -> ty -> outcome (reg * scope)) :
  (forall sc v n t r sc', sinv sc -> sc_get (sc_named sc) n = None -> is_builtin_name n = false ->
                          mk sc v n t = Ok (r, sc') -> sinv sc' /\ forall m, n <> m -> sc_get (sc_named sc') m = sc_get (sc_named sc) m) ->
  forall ds sc sc', declare mk ds sc = Ok sc' -> sinv sc ->
    NoDup (names_of ds) -> (forall n, In n (names_of ds) -> sc_get (sc_named sc) n = None /\ is_builtin_name n = false) ->
    sinv sc'.
Proof.
  intros Hmk. induction ds as [|[[v n] t] r IH]; intros sc sc' H S Hnd Hf; cbn [declare] in H.
  - inversion H; subst. exact S.
  - apply bind_ok_inv in H. destruct H as ([r1 sc1] & H1 & H).
    cbn [names_of] in Hnd, Hf. inversion Hnd as [|? ? Hni Hnd']; subst.
    destruct (Hf n (or_introl eq_refl)) as [Hfn Hbn].
    destruct (Hmk _ _ _ _ _ _ S Hfn Hbn H1) as [S1 Ho].
    eapply IH; eauto. intros m Hm. destruct (Hf m (or_intror Hm)) as [Hfm Hbm]. split; [|exact Hbm].
    rewrite Ho; [exact Hfm|]. intros ->. contradiction.
Qed.

Lemma new_report_other sc v n t r sc' : new_report sc v n t = Ok (r, sc') ->
  forall m, n <> m -> sc_get (sc_named sc') m = sc_get (sc_named sc) m.
Proof.
  unfold new_report. destruct (255 <=? sc_nperm sc); [discriminate|]. intros H; inversion H; subst. cbn.
  intros m Hm. apply get_insert_other. exact Hm.
Qed.

Lemma new_control_other sc v n t r sc' : new_control sc v n t = Ok (r, sc') ->
  forall m, n <> m -> sc_get (sc_named sc') m = sc_get (sc_named sc) m.
Proof.
  unfold new_control. destruct (255 <=? sc_nctl sc); [discriminate|]. intros H; inversion H; subst. cbn.
  intros m Hm. apply get_insert_other. exact Hm.
Qed.

Lemma compile_expr_sinv e : forall sc is r sc', compile_expr e sc = Ok (is, r, sc') -> sinv sc -> sinv sc'.
Proof.
  induction e as [p|c|o l IHl r0 IHr|]; intros sc is r sc' H S.
  - destruct p as [b|x|n].
    + inversion H; subst. exact S.
    + cbn [compile_expr] in H. destruct (sc_get (sc_named sc) x) eqn:E.
      * inversion H; subst. exact S.
      * apply bind_ok_inv in H. destruct H as ([r1 sc1] & H1 & H). inversion H; subst.
        eapply sinv_new_local; eauto.
    + inversion H; subst. exact S.
  - discriminate H.
  - apply compile_sexp_inv in H. destruct H as (is1 & lft & sc1 & is2 & rgt & sc2 & H1 & H2 & H3).
    specialize (IHl _ _ _ _ H1 S). specialize (IHr _ _ _ _ H2 IHl).
    destruct (is_valop o) eqn:Vo.
    + apply lower_tail_valop in H3; auto. destruct H3 as (_ & _ & Hn & _ & Hl & Hc & Hp). exact (sinv_same sc2 sc' IHr Hn Hp Hc Hl).
    + destruct (is_condop o) eqn:Co.
      * apply lower_tail_condop in H3; auto. destruct H3 as (_ & _ & ->). exact IHr.
      * destruct o; try discriminate Vo; try discriminate Co.
        -- apply lower_tail_bind in H3. destruct H3 as (lft' & [(s & _ & Hu)|(_ & _ & ->)] & _).
           ++ exact (sinv_update_type _ _ _ _ _ IHr Hu).
           ++ exact IHr.
        -- discriminate H3.
  - discriminate H.
Qed.

Lemma clear_tmps_sinv sc : sinv sc -> sinv (clear_tmps sc).
Proof. intros S. exact (sinv_same sc (clear_tmps sc) S eq_refl eq_refl eq_refl eq_refl). Qed.

Lemma compile_body_sinv es : forall sc is sc', compile_body es sc = Ok (is, sc') -> sinv sc -> sinv sc'.
Proof.
  induction es as [|e r IH]; intros sc is sc' H S; cbn [compile_body] in H.
  - inversion H; subst. exact S.
  - destruct e as [p|c|o l r0|].
    all: try (apply bind_ok_inv in H; destruct H as ([[is1 r1] sc1] & H1 & H);
              apply bind_ok_inv in H; destruct H as ([rest sc2] & H2 & H); inversion H; subst;
              eapply IH; [exact H2|]; eapply compile_expr_sinv; [exact H1|apply clear_tmps_sinv; exact S]).
    eapply IH; eauto.
Qed.

Lemma compile_flag_sinv e sc is sc' : compile_flag e sc = Ok (is, sc') -> sinv sc -> sinv sc'.
Proof.
  unfold compile_flag. intros H S. apply bind_ok_inv in H. destruct H as ([[is0 res] sc1] & Hc & H).
  assert (S1 : sinv sc1) by (eapply compile_expr_sinv; [exact Hc|apply clear_tmps_sinv; exact S]).
  destruct (sc_get (sc_named sc1) (lit "__eventFlag")); [|discriminate H].
  destruct res; try discriminate H.
  - inversion H; subst. exact S1.
  - destruct t; try discriminate H. destruct (set_last_res is0 r); [|discriminate H]. inversion H; subst. exact S1.
Qed.

Lemma compile_events_sinv evs : forall sc idx devs is sc', compile_events evs sc idx = Ok (devs, is, sc') -> sinv sc -> sinv sc'.
Proof.
  induction evs as [|ev r IH]; intros sc idx devs is sc' H S; cbn [compile_events] in H.
  - inversion H; subst. exact S.
  - apply bind_ok_inv in H. destruct H as ([fi sc1] & Hf & H).
    apply bind_ok_inv in H. destruct H as ([bi sc2] & Hb & H).
    apply bind_ok_inv in H. destruct H as ([[evs' is'] sc3] & Hr & H). inversion H; subst.
    eapply IH; [exact Hr|]. eapply compile_body_sinv; [exact Hb|]. eapply compile_flag_sinv; eauto.
Qed.

(* ---------- what the simulation needs of the final scope ---------- *)

Lemma implicit_index_micros x : implicit_index x = Some 3 -> x = lit "Micros".
Proof.
  unfold implicit_index.
  repeat match goal with
         | |- (if name_eqb ?k x then _ else _) = _ -> _ =>
           let E := fresh "E" in destruct (name_eqb k x) eqn:E; [apply name_eqb_eq in E; subst x; let Hq := fresh "Hq" in intros Hq; inversion Hq; try reflexivity|]
         end.
  intros Hq; discriminate Hq.
Qed.

Lemma sinv_micros sc x r : sinv sc -> sc_get (sc_named sc) x = Some r ->
  (slot r = Some (FImpl, 3) <-> x = lit "Micros").
Proof.
  intros S Hx. split.
  - intros Hs. destruct r; cbn in Hs; try discriminate Hs. inversion Hs; subst.
    pose proof (si_impl _ S x) as Hi. destruct (implicit_index x) as [j|] eqn:E.
    + destruct Hi as (u & Hi). rewrite Hx in Hi. inversion Hi; subst. apply implicit_index_micros. exact E.
    + exfalso. exact (Hi _ _ Hx).
  - intros ->. pose proof (si_impl _ S (lit "Micros")) as Hi.
    assert (E : implicit_index (lit "Micros") = Some 3) by (vm_compute; reflexivity). rewrite E in Hi. destruct Hi as (u & Hi).
    rewrite Hx in Hi. inversion Hi; subst. reflexivity.
Qed.

Lemma sinv_unique sc x r : sinv sc -> In (x, r) (sc_named sc) -> sc_get (sc_named sc) x = Some r.
Proof. intros S. apply in_get. apply (si_keys _ S). Qed.
