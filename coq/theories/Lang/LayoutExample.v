(* C20, non-vacuity: two concrete texts are layouts of one abstract program (white space,
   both operator spellings, a comment before the event and comments among its statements),
   so the layout theorem applies to them. *)
From Portus Require Import Layout.

Ltac ws := match goal with |- all_ws _ => repeat (constructor; try reflexivity) end.
Ltac ne := match goal with |- _ <> _ => discriminate end.
Ltac nameok := repeat split; try ne; try reflexivity; repeat constructor.
Ltac intable := cbn; repeat (first [left; reflexivity | right]).

Definition ex_prog : aprog :=
  mkAprog [] (Some [(true, lit "x", TNum (Some 0))]) [(false, lit "c", TNum (Some 5))]
    [mkEvent (Sexp OGt (Atom (PName (lit "c"))) (Atom (PNum 3)))
       [Sexp OBind (Atom (PName (lit "Report.x"))) (Sexp OAdd (Atom (PName (lit "Report.x"))) (Atom (PName (lit "c"))));
        Cmd CReport]].

Definition text_a : list N := lit "(def(Report(volatile x 0))(c 5))(when(> c 3)(:= Report.x(+ Report.x c))(report))".
Definition text_b : list N := lit "  ( def
	(Report  ( volatile   x 0 ) )(c 5)  )
# a comment (with parens) := x
 (  when(gt c 3)   # another
    (  bind Report.x(add Report.x c) )  # trailing
  ( report )
 )
 ".

Lemma prim_x0 : lay_prim (PNum 0) (lit "0").
Proof. apply (LNum (lit "0")); [discriminate|repeat (constructor; try reflexivity)|reflexivity]. Qed.
Lemma prim_5 : lay_prim (PNum 5) (lit "5").
Proof. apply (LNum (lit "5")); [discriminate|repeat (constructor; try reflexivity)|reflexivity]. Qed.
Lemma prim_3 : lay_prim (PNum 3) (lit "3").
Proof. apply (LNum (lit "3")); [discriminate|repeat (constructor; try reflexivity)|reflexivity]. Qed.
Lemma name_c : name_ok (lit "c"). Proof. nameok. Qed.
Lemma name_x : name_ok (lit "x"). Proof. nameok. Qed.
Lemma name_rx : name_ok (lit "Report.x"). Proof. nameok. Qed.

Lemma lay_a : lay_prog ex_prog text_a.
Proof.
  exists [], [], (lit "(def(Report(volatile x 0))(c 5))"),
    [mkEvent (Sexp OGt (Atom (PName (lit "c"))) (Atom (PNum 3)))
       [Sexp OBind (Atom (PName (lit "Report.x"))) (Sexp OAdd (Atom (PName (lit "Report.x"))) (Atom (PName (lit "c"))));
        Cmd CReport]],
    (lit "(when(> c 3)(:= Report.x(+ Report.x c))(report))").
  split; [ws|]. split; [ws|]. split; [|split; [|split; [discriminate|split; reflexivity]]].
  - apply (LDefs_report [] [] [(true, lit "x", TNum (Some 0))] (lit "(volatile x 0)") [(false, lit "c", TNum (Some 5))] (lit "(c 5)") [] [] [] [] []);
      try ws; try ne; [constructor| |].
    + apply (LD_cons (true, lit "x", TNum (Some 0)) (lit "(volatile x 0)") [] [] []); [|ws|constructor].
      apply (LDecl true (lit "x") (PNum 0) (lit "0") [] (lit " ") (lit " ") []); try ws; try ne; [exact name_x|exact prim_x0|reflexivity].
    + apply (LD_cons (false, lit "c", TNum (Some 5)) (lit "(c 5)") [] [] []); [|ws|constructor].
      apply (LDecl false (lit "c") (PNum 5) (lit "5") [] (lit " ") (lit " ") []); try ws; try ne; [exact name_c|exact prim_5|reflexivity].
  - apply (LEs_cons _ (lit "(when(> c 3)(:= Report.x(+ Report.x c))(report))") [] [] []); [|ws|constructor].
    apply LEI_plain.
    apply (LEvent (Sexp OGt (Atom (PName (lit "c"))) (Atom (PNum 3))) (lit "(> c 3)") _ (lit "(:= Report.x(+ Report.x c))(report)") [] [] []);
      try ws; try ne; [| |left; reflexivity].
    + apply (LSexp OGt (lit ">") (Atom (PName (lit "c"))) (Atom (PNum 3)) (lit "c") (lit "3") [] (lit " ") (lit " ") []);
        try ws; try reflexivity; [intable|apply LAtom, LName, name_c|apply LAtom, prim_3|right; reflexivity].
    + apply (LI_stmt _ (lit "(:= Report.x(+ Report.x c))") [] [Cmd CReport] (lit "(report)")); [|ws| |left; reflexivity].
      * apply (LSexp OBind (lit ":=") (Atom (PName (lit "Report.x"))) (Sexp OAdd (Atom (PName (lit "Report.x"))) (Atom (PName (lit "c"))))
                     (lit "Report.x") (lit "(+ Report.x c)") [] (lit " ") [] []);
          try ws; try reflexivity; [intable|apply LAtom, LName, name_rx| |right; reflexivity].
        apply (LSexp OAdd (lit "+") (Atom (PName (lit "Report.x"))) (Atom (PName (lit "c"))) (lit "Report.x") (lit "c") [] (lit " ") (lit " ") []);
          try ws; try reflexivity; [intable|apply LAtom, LName, name_rx|apply LAtom, LName, name_c|right; reflexivity].
      * apply (LI_stmt (Cmd CReport) (lit "(report)") [] [] []); [|ws|constructor|left; reflexivity].
        apply (LCmd CReport [] []); ws.
Qed.

Lemma lay_b : lay_prog ex_prog text_b.
Proof.
  exists (lit "  "), (lit "
"), (lit "( def
	(Report  ( volatile   x 0 ) )(c 5)  )"),
    [mkEvent (Sexp OGt (Atom (PName (lit "c"))) (Atom (PNum 3)))
       [ENone; Sexp OBind (Atom (PName (lit "Report.x"))) (Sexp OAdd (Atom (PName (lit "Report.x"))) (Atom (PName (lit "c"))));
        ENone; Cmd CReport]],
    (lit "# a comment (with parens) := x
 (  when(gt c 3)   # another
    (  bind Report.x(add Report.x c) )  # trailing
  ( report )
 )
 ").
  split; [ws|]. split; [ws|]. split; [|split; [|split; [discriminate|split; reflexivity]]].
  - apply (LDefs_report [] [] [(true, lit "x", TNum (Some 0))] (lit "( volatile   x 0 ) ") [(false, lit "c", TNum (Some 5))] (lit "(c 5)  ")
                        (lit " ") (lit "
	") [] (lit "  ") []);
      try ws; try ne; [constructor| |].
    + apply (LD_cons (true, lit "x", TNum (Some 0)) (lit "( volatile   x 0 )") (lit " ") [] []); [|ws|constructor].
      apply (LDecl true (lit "x") (PNum 0) (lit "0") (lit " ") (lit "   ") (lit " ") (lit " ")); try ws; try ne; [exact name_x|exact prim_x0|reflexivity].
    + apply (LD_cons (false, lit "c", TNum (Some 5)) (lit "(c 5)") (lit "  ") [] []); [|ws|constructor].
      apply (LDecl false (lit "c") (PNum 5) (lit "5") [] (lit " ") (lit " ") []); try ws; try ne; [exact name_c|exact prim_5|reflexivity].
  - apply (LEs_cons _ (lit "# a comment (with parens) := x
 (  when(gt c 3)   # another
    (  bind Report.x(add Report.x c) )  # trailing
  ( report )
 )") (lit "
 ") [] []); [|ws|constructor].
    apply (LEI_comment _ (lit "(  when(gt c 3)   # another
    (  bind Report.x(add Report.x c) )  # trailing
  ( report )
 )") (lit " a comment (with parens) := x") (lit " ")); [repeat (constructor; try ne)|ws|].
    apply (LEvent (Sexp OGt (Atom (PName (lit "c"))) (Atom (PNum 3))) (lit "(gt c 3)") _
                  (lit "# another
    (  bind Report.x(add Report.x c) )  # trailing
  ( report )
 ") (lit "  ") [] (lit "   "));
      try ws; try ne; [| |left; reflexivity].
    + apply (LSexp OGt (lit "gt") (Atom (PName (lit "c"))) (Atom (PNum 3)) (lit "c") (lit "3") [] (lit " ") (lit " ") []);
        try ws; try reflexivity; [intable|apply LAtom, LName, name_c|apply LAtom, prim_3|right; reflexivity].
    + apply (LI_comment (lit " another") (lit "    ") _ (lit "(  bind Report.x(add Report.x c) )  # trailing
  ( report )
 ")); [repeat (constructor; try ne)|ws|].
      apply (LI_stmt _ (lit "(  bind Report.x(add Report.x c) )") (lit "  ") _ (lit "# trailing
  ( report )
 ")); [|ws| |left; reflexivity].
      * apply (LSexp OBind (lit "bind") (Atom (PName (lit "Report.x"))) (Sexp OAdd (Atom (PName (lit "Report.x"))) (Atom (PName (lit "c"))))
                     (lit "Report.x") (lit "(add Report.x c)") (lit "  ") (lit " ") [] (lit " "));
          try ws; try reflexivity; [intable|apply LAtom, LName, name_rx| |right; reflexivity].
        apply (LSexp OAdd (lit "add") (Atom (PName (lit "Report.x"))) (Atom (PName (lit "c"))) (lit "Report.x") (lit "c") [] (lit " ") (lit " ") []);
          try ws; try reflexivity; [intable|apply LAtom, LName, name_rx|apply LAtom, LName, name_c|right; reflexivity].
      * apply (LI_comment (lit " trailing") (lit "  ") _ (lit "( report )
 ")); [repeat (constructor; try ne)|ws|].
        apply (LI_stmt (Cmd CReport) (lit "( report )") (lit "
 ") [] []); [|ws|constructor|left; reflexivity].
        apply (LCmd CReport (lit " ") (lit " ")); ws.
Qed.
