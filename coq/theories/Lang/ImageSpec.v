(* C03: the structural contract of an emitted image, as an executable predicate over the bytes
   (an independent decoder: it shares nothing with the encoder in Image.v except the byte
   helpers).  The number of events is known from the install message's count field. *)
From Portus Require Export Bytes.

Record rawreg := mkRR { rr_class : N; rr_idx : N }.
Record rawinstr := mkRI { ri_op : N; ri_res : rawreg; ri_left : rawreg; ri_right : rawreg }.
Record rawevent := mkRE { re_flag_idx : N; re_num_flag : N; re_body_idx : N; re_num_body : N }.

Definition dec_reg (b : list N) (off : nat) : rawreg :=
  mkRR (nth off b 0) (le32 b (S off)).

Definition dec_instr (b : list N) : rawinstr :=
  mkRI (nth 0 b 0) (dec_reg b 1) (dec_reg b 6) (dec_reg b 11).

Definition dec_event (b : list N) : rawevent :=
  mkRE (le32 b 0) (le32 b 4) (le32 b 8) (le32 b 12).

Fixpoint chunks16 (n : nat) (b : list N) : list (list N) :=
  match n with
  | O => []
  | S k => firstn 16 b :: chunks16 k (skipn 16 b)
  end.

(* register classes (libccp): 0 control, 1 immediate, 2 implicit, 3 local, 4 primitive,
   5 volatile report, 6 report, 7 tmp, 8 volatile control; index limits of the register files *)
Definition reg_in_files (r : rawreg) : bool :=
  let c := rr_class r in let i := rr_idx r in
  if (c =? 0) || (c =? 8) then i <? 16
  else if c =? 1 then true
  else if c =? 2 then i <? 6
  else if c =? 3 then i <? 6
  else if c =? 4 then i <? 15
  else if (c =? 5) || (c =? 6) then i <? 16
  else if c =? 7 then i <? 8
  else false.

Definition writable (r : rawreg) : bool :=
  negb (rr_class r =? 1) && negb (rr_class r =? 4).

Definition instr_ok (i : rawinstr) : bool :=
  (ri_op i <? 15) && writable (ri_res i) &&
  reg_in_files (ri_res i) && reg_in_files (ri_left i) && reg_in_files (ri_right i).

Definition is_tmp (r : rawreg) : bool := rr_class r =? 7.

Definition tmp_written (written : list N) (r : rawreg) : bool :=
  negb (is_tmp r) || existsb (N.eqb (rr_idx r)) written.

(* within a block: a temporary is read only after an earlier instruction of the block wrote it.
   OP 5 (ewma) also reads its result register. *)
Fixpoint tmps_ok (written : list N) (is : list rawinstr) : bool :=
  match is with
  | [] => true
  | i :: r =>
    tmp_written written (ri_left i) && tmp_written written (ri_right i) &&
    (negb (ri_op i =? 5) || tmp_written written (ri_res i)) &&
    tmps_ok (if is_tmp (ri_res i) then rr_idx (ri_res i) :: written else written) r
  end.

Definition sub_list {A} (l : list A) (a n : nat) : list A := firstn n (skipn a l).

(* events tile the instructions after the preamble, contiguously and in order; each has a
   non-empty condition block whose last instruction writes implicit register 0 *)
Fixpoint tiles (next : N) (evs : list rawevent) (is : list rawinstr) : bool :=
  match evs with
  | [] => next =? N.of_nat (length is)
  | e :: r =>
    (re_flag_idx e =? next) && (1 <=? re_num_flag e) &&
    (re_body_idx e =? re_flag_idx e + re_num_flag e) &&
    (re_body_idx e + re_num_body e <=? N.of_nat (length is)) &&
    (let flag := sub_list is (N.to_nat (re_flag_idx e)) (N.to_nat (re_num_flag e)) in
     let body := sub_list is (N.to_nat (re_body_idx e)) (N.to_nat (re_num_body e)) in
     match rev flag with
     | last :: _ => (rr_class (ri_res last) =? 2) && (rr_idx (ri_res last) =? 0)
     | [] => false
     end && tmps_ok [] flag && tmps_ok [] body) &&
    tiles (re_body_idx e + re_num_body e) r is
  end.

(* the preamble: DEF instructions (opcode 2) initialising report/control registers from an
   immediate, and no DEF anywhere else *)
Fixpoint count_defs (is : list rawinstr) : nat :=
  match is with
  | i :: r => if ri_op i =? 2 then S (count_defs r) else O
  | [] => O
  end.

Definition def_ok (i : rawinstr) : bool :=
  (ri_op i =? 2) &&
  (let c := rr_class (ri_res i) in (c =? 0) || (c =? 8) || (c =? 5) || (c =? 6)) &&
  (rr_class (ri_left i) =? rr_class (ri_res i)) && (rr_idx (ri_left i) =? rr_idx (ri_res i)) &&
  (rr_class (ri_right i) =? 1).

Definition image_wf (nev : nat) (bytes : list N) : bool :=
  let n := length bytes in
  Nat.eqb (Nat.modulo n 16) 0 && Nat.leb (16 * nev) n &&
  (let ni := (Nat.div n 16 - nev)%nat in
   let evs := map dec_event (chunks16 nev bytes) in
   let is := map dec_instr (chunks16 ni (skipn (16 * nev) bytes)) in
   let nd := count_defs is in
   forallb instr_ok is &&
   forallb def_ok (firstn nd is) &&
   forallb (fun i => negb (ri_op i =? 2)) (skipn nd is) &&
   tiles (N.of_nat nd) evs is).
