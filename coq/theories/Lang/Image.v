(* The 16-byte event and instruction records: src/lang/serialize.rs (Bin::serialize,
   impl IntoIterator for Event / Instr, serialize_op). *)
From Portus Require Export Lower.

Definition ser_op (o : op) : outcome N :=
  match o with
  | OAdd => Ok 0 | OBind => Ok 1 | ODef => Ok 2 | ODiv => Ok 3 | OEquiv => Ok 4 | OEwma => Ok 5
  | OGt => Ok 6 | OIf => Ok 7 | OLt => Ok 8 | OMax => Ok 9 | OMaxWrap => Ok 10 | OMin => Ok 11
  | OMul => Ok 12 | ONotIf => Ok 13 | OSub => Ok 14
  | OAnd | OOr => Panic      (* unreachable!(): lowering never emits them *)
  end.

(* an unbound placeholder register is an error at this point *)
Definition ser_reg_img (r : reg) : outcome (list N) :=
  match r with
  | RNone => Err
  | _ => ser_reg r
  end.

(* serialize_op runs eagerly when the iterator is built; the register errors surface when the
   bytes are collected *)
Definition ser_instr (i : instr) : outcome (list N) :=
  do o <- ser_op (i_op i);
  do a <- ser_reg_img (i_res i);
  do b <- ser_reg_img (i_left i);
  do c <- ser_reg_img (i_right i);
  Ok (o :: a ++ b ++ c).

Definition ser_event (e : devent) : list N :=
  enc_le 4 (e_flag_idx e) ++ enc_le 4 (e_num_flag e) ++ enc_le 4 (e_body_idx e) ++ enc_le 4 (e_num_body e).

Fixpoint ser_instrs (is : list instr) : outcome (list N) :=
  match is with
  | [] => Ok []
  | i :: r => do a <- ser_instr i; do b <- ser_instrs r; Ok (a ++ b)
  end.

Definition serialize_bin (b : bin) : outcome (list N) :=
  do is <- ser_instrs (b_instrs b);
  Ok (concat (map ser_event (b_events b)) ++ is).

Definition compile_and_serialize (src : list N) (ups : list (name * N))
  : outcome (list N * scope) + perr :=
  match compile src ups with
  | inr e => inr e
  | inl (Ok (b, sc)) => inl (do bytes <- serialize_bin b; Ok (bytes, sc))
  | inl Err => inl Err
  | inl Panic => inl Panic
  end.
