(* C01, invocation level: ccp_invoke of the libccp model (staged program change, flag reset,
   event loop, window/rate callbacks, report and reset) against invoke_src. *)
From Portus Require Export DefWalk SrcFacts.
From Portus Require Import ImageFacts CodecSpec CodecRoundtrip.

(* ---------- small machine facts ---------- *)

Lemma set_impl_write k c i t v : i = 0 \/ i = 1 \/ i = 2 \/ i = 4 \/ i = 5 ->
  set_impl c i v = write_reg k c v (dreg_of (Implicit i t)).
Proof. intros [->|[->|[->|[->| ->]]]]; reflexivity. Qed.

Definition fields_frame (c c' : conn) : Prop :=
  c_index c' = c_index c /\ c_prog c' = c_prog c /\ c_staged c' = c_staged c /\ c_sent_create c' = c_sent_create c /\
  c_pend_ctl c' = c_pend_ctl c /\ c_pend_cwnd c' = c_pend_cwnd c /\ c_pend_rate c' = c_pend_rate c /\ c_prims c' = c_prims c.

Lemma fields_frame_refl c : fields_frame c c.
Proof. repeat split. Qed.

Lemma fields_frame_trans a b c : fields_frame a b -> fields_frame b c -> fields_frame a c.
Proof. unfold fields_frame. intros (A1&A2&A3&A4&A5&A6&A7&A8) (B1&B2&B3&B4&B5&B6&B7&B8). repeat split; congruence. Qed.

Lemma write_reg_fields k c v (r : dreg) : fields_frame c (write_reg k c v r).
Proof.
  unfold write_reg, fields_frame.
  repeat match goal with |- context [if ?x then _ else _] => destruct x end; cbn; repeat split; reflexivity.
Qed.

Lemma exec_instr_fields k z c i c' : exec_instr k z c i = inr c' -> fields_frame c c'.
Proof.
  unfold exec_instr.
  repeat match goal with |- context [if ?x then _ else _] => destruct x end; intros H; inversion H; subst;
    auto using write_reg_fields, fields_frame_refl.
Qed.

Lemma exec_range_fields k z is : forall c, fields_frame c (match exec_range k z c is with inl (_, c') => c' | inr c' => c' end).
Proof.
  induction is as [|i r IH]; intros c; cbn [exec_range]; [apply fields_frame_refl|].
  destruct (exec_instr k z c i) as [e|c1] eqn:E; [apply fields_frame_refl|].
  eapply fields_frame_trans; [eapply exec_instr_fields; eauto|apply IH].
Qed.

Lemma run_exprs_fields k z p xs : forall c, fields_frame c (match run_exprs k z p c xs with inl (_, c') => c' | inr c' => c' end).
Proof.
  induction xs as [|x r IH]; intros c; cbn [run_exprs]; [apply fields_frame_refl|].
  unfold process_expression.
  pose proof (exec_range_fields k z (slice_instrs (dp_instrs p) (dx_cond_start x) (dx_num_cond x)) c) as F1.
  destruct (exec_range k z c (slice_instrs (dp_instrs p) (dx_cond_start x) (dx_num_cond x))) as [[e c1]|c1]; [exact F1|].
  destruct (flag_of c1 =? 0).
  - destruct (negb (flag_of c1 =? 0) && (getn (r_impl (c_regs c1)) 1 =? 0)); [exact F1|].
    eapply fields_frame_trans; [exact F1|apply IH].
  - pose proof (exec_range_fields k z (slice_instrs (dp_instrs p) (dx_event_start x) (dx_num_event x)) c1) as F2.
    destruct (exec_range k z c1 (slice_instrs (dp_instrs p) (dx_event_start x) (dx_num_event x))) as [[e c2]|c2];
      [eapply fields_frame_trans; eauto|].
    destruct (negb (flag_of c2 =? 0) && (getn (r_impl (c_regs c2)) 1 =? 0)); [eapply fields_frame_trans; eauto|].
    eapply fields_frame_trans; [exact F1|]. eapply fields_frame_trans; [exact F2|apply IH].
Qed.

Lemma apply_pending_none ctl n : apply_pending_ctl ctl (repeat None n) = ctl.
Proof.
  revert n; induction ctl as [|x r IH]; intros [|n]; cbn; try reflexivity. rewrite IH. reflexivity.
Qed.

Lemma lookup_set_prog ps p p' idx : lookup_prog ps idx = Some p -> dp_index p' = dp_index p ->
  lookup_prog (set_prog ps p') idx = Some p'.
Proof.
  induction ps as [|q r IH]; cbn [lookup_prog set_prog]; [discriminate|]. intros H Hi.
  destruct ((dp_index q =? idx) && negb (idx =? 0)) eqn:E.
  - inversion H; subst q. rewrite Hi, N.eqb_refl. cbn [lookup_prog]. rewrite Hi, E. reflexivity.
  - destruct (dp_index q =? dp_index p') eqn:E2.
    + (* the first program with that index is the one looked up *)
      apply andb_false_iff in E. apply N.eqb_eq in E2.
      assert (Hp : dp_index p = idx /\ idx <> 0).
      { clear - H. induction r as [|q' r' IHr]; cbn in H; [discriminate|].
        destruct ((dp_index q' =? idx) && negb (idx =? 0)) eqn:E'; [|auto].
        inversion H; subst. apply andb_true_iff in E'. destruct E' as [E1 E2]. apply N.eqb_eq in E1. apply negb_true_iff in E2. apply N.eqb_neq in E2. auto. }
      destruct Hp as [Hp1 Hp2]. exfalso. destruct E as [E|E].
      * apply N.eqb_neq in E. congruence.
      * apply negb_false_iff in E. apply N.eqb_eq in E. congruence.
    + cbn [lookup_prog]. rewrite E. apply IH; auto.
Qed.

(* ---------- the relation with the clock reading left out ---------- *)

Section Rm.
  Variable scf : list (name * reg).
  Variable cx : ctx.
  Hypothesis OK : scf_ok scf.
  Notation k := (cx_clock cx).
  Notation z := (cx_dp_zero cx).

  (* R except that nothing is said about Micros *)
  Definition Rm (s : sstate) (c : conn) : Prop :=
    regs_wf (c_regs c) /\
    (forall x r, sc_get scf x = Some r -> var_class r = true -> x <> micros_name ->
                 read_reg k z c (dreg_of r) = env_get (s_env s) x) /\
    c_time_zero c = s_tz s /\ c_prims c = cx_prims cx.

  Lemma R_Rm s c : R scf cx s c -> Rm s c.
  Proof. intros (H1 & H2 & H3 & H4). split; [exact H1|]. split; [|split; assumption]. intros x r Hx Hv _. apply H2; auto. Qed.

  (* writing a variable other than Micros *)
  Lemma Rm_write s c x r r' v : Rm s c -> sc_get scf x = Some r' -> var_class r' = true -> x <> micros_name ->
    dreg_of r = dreg_of r' -> reg_within r ->
    Rm (mkS (env_set (s_env s) x v) (s_tz s)) (write_reg k c v (dreg_of r)).
  Proof.
    intros (Hwf & Hv & Htz & Hp) Hx Hvc Hxm Hd Hw.
    assert (Hs : slot r = slot r') by (apply dreg_slot; exact Hd).
    destruct (slot r') as [[f i]|] eqn:Es; [|unfold var_class in Hvc; rewrite Es in Hvc; discriminate].
    assert (Hwr : writable f i) by (eapply within_writable; eauto).
    split; [apply write_reg_wf; exact Hwf|]. split; [|split].
    - intros y ry Hy Hyc Hym. cbn [s_env].
      destruct (slot ry) as [[fy iy]|] eqn:Ey; [|unfold var_class in Hyc; rewrite Ey in Hyc; discriminate].
      rewrite (read_reg_slot _ _ _ _ _ _ Ey).
      destruct (name_eqb x y) eqn:E.
      + apply name_eqb_eq in E. subst y. rewrite Hx in Hy. inversion Hy; subst ry. rewrite Es in Ey. inversion Ey; subst.
        rewrite env_get_set_same. apply rd_write_same; auto.
      + assert (Hne : x <> y) by (intros ->; rewrite name_eqb_refl in E; discriminate).
        rewrite env_get_set_other by exact Hne.
        rewrite (rd_write_other _ _ _ _ _ _ _ _ Hs).
        * rewrite <- (read_reg_slot k z c ry fy iy Ey). apply Hv; auto.
        * intros Heq. inversion Heq; subst. apply Hne. eapply (ok_inj _ OK); eauto. congruence.
    - rewrite write_reg_tz, Hs. cbn [s_tz].
      destruct f; try exact Htz. destruct (N.eq_dec i 3) as [->|Hn].
      + destruct (ok_micros _ OK _ _ Hx) as [Hm _]. rewrite Es in Hm. specialize (Hm eq_refl). contradiction.
      + destruct i as [|[[q|q|]|q|]]; try exact Htz. contradiction.
    - rewrite write_reg_prims. exact Hp.
  Qed.

  (* loading Micros completes the relation *)
  Lemma Rm_set_micros s c v : Rm s c ->
    R scf cx (mkS (env_set (s_env s) micros_name v) (s_tz s)) (set_impl c US_ELAPSED v).
  Proof.
    intros (Hwf & Hv & Htz & Hp).
    destruct Hwf as (W1 & W2 & W3 & W4 & W5).
    split; [unfold regs_wf; cbn; rewrite setn_length; auto|]. split; [|split; [exact Htz|exact Hp]].
    intros y ry Hy Hyc. cbn [s_env].
    destruct (slot ry) as [[fy iy]|] eqn:Ey; [|unfold var_class in Hyc; rewrite Ey in Hyc; discriminate].
    rewrite (read_reg_slot _ _ _ _ _ _ Ey).
    destruct (name_eqb micros_name y) eqn:E.
    - apply name_eqb_eq in E. subst y. destruct (ok_micros _ OK _ _ Hy) as [_ Hm]. rewrite Ey in Hm. specialize (Hm eq_refl).
      inversion Hm; subst. rewrite env_get_set_same. unfold rd, set_impl, US_ELAPSED. cbn. apply getn_setn_same. lia.
    - assert (Hne : micros_name <> y) by (intros <-; rewrite name_eqb_refl in E; discriminate).
      rewrite env_get_set_other by exact Hne.
      assert (Hsl : (fy, iy) <> (FImpl, 3)).
      { intros Heq. inversion Heq; subst. destruct (ok_micros _ OK _ _ Hy) as [Hm _]. rewrite Ey in Hm. specialize (Hm eq_refl). congruence. }
      rewrite <- (Hv _ _ Hy Hyc (fun Hq => Hne (eq_sym Hq))). rewrite (read_reg_slot _ _ _ _ _ _ Ey).
      unfold rd, set_impl, US_ELAPSED. cbn. destruct fy; cbn; try reflexivity. apply getn_setn_other. congruence.
  Qed.

End Rm.

Lemma NoDup_map_inj {A B} (f : A -> B) l a b : NoDup (map f l) -> In a l -> In b l -> f a = f b -> a = b.
Proof.
  induction l as [|x t IH]; intros Hnd Ha Hb E; [destruct Ha|].
  cbn [map] in Hnd. inversion Hnd as [|? ? Hni Hnd']; subst.
  destruct Ha as [->|Ha], Hb as [->|Hb]; auto.
  - exfalso. apply Hni. rewrite E. apply in_map. exact Hb.
  - exfalso. apply Hni. rewrite <- E. apply in_map. exact Ha.
Qed.

(* ccp_invoke after the staged program change: staged field updates, then the state machine *)
Definition invoke_tail (d1 : dpstate) (c2 : conn) : Z * dpstate * list Machine.devent :=
  let rg := c_regs c2 in
  let rg1 := mkRegs (r_report rg) (apply_pending_ctl (r_control rg) (c_pend_ctl c2)) (r_impl rg) (r_tmp rg) (r_local rg) in
  let '(rg2, e1) := match c_pend_cwnd c2 with
                    | Some v => (mkRegs (r_report rg1) (r_control rg1) (setn (r_impl rg1) 4 v) (r_tmp rg1) (r_local rg1),
                                 if negb (v =? 0) then [DSetCwnd (v mod W32)] else [])
                    | None => (rg1, [])
                    end in
  let '(rg3, e2) := match c_pend_rate c2 with
                    | Some v => (mkRegs (r_report rg2) (r_control rg2) (setn (r_impl rg2) 5 v) (r_tmp rg2) (r_local rg2),
                                 if negb (v =? 0) then [DSetRate (v mod W32)] else [])
                    | None => (rg2, [])
                    end in
  let c3 := mkConn (c_index c2) (c_sent_create c2) (c_time_zero c2) (c_prog c2) (c_staged c2) rg3
                   (repeat None 110) None None (c_prims c2) in
  let '(rc, d2, c4, evs) := state_machine d1 c3 in
  (rc, mkDp (d_clock d2) (d_time_zero d2) (d_progs d2) (Some c4), e1 ++ e2 ++ evs).

Definition clean (c2 : conn) : conn :=
  let rg := c_regs c2 in
  mkConn (c_index c2) (c_sent_create c2) (c_time_zero c2) (c_prog c2) (c_staged c2)
         (mkRegs (r_report rg) (r_control rg) (r_impl rg) (r_tmp rg) (r_local rg))
         (repeat None 110) None None (c_prims c2).

Lemma invoke_tail_idle d1 c2 : c_pend_ctl c2 = repeat None 110 -> c_pend_cwnd c2 = None -> c_pend_rate c2 = None ->
  invoke_tail d1 c2 =
  let '(rc, d2, c4, evs) := state_machine d1 (clean c2) in
  (rc, mkDp (d_clock d2) (d_time_zero d2) (d_progs d2) (Some c4), evs).
Proof.
  intros H1 H2 H3. unfold invoke_tail, clean. rewrite H1, H2, H3, apply_pending_none. reflexivity.
Qed.

Lemma rd_clean c f j : rd (clean c) f j = rd c f j.
Proof. destruct f; reflexivity. Qed.

(* the staged program change of ccp_invoke *)
Definition invoke_switch (d : dpstate) (c1 : conn) : dpstate * conn :=
  match c_staged c1 with
  | None => (d, c1)
  | Some idx =>
    let cc := mkConn (c_index c1) (c_sent_create c1) (c_time_zero c1) idx None (c_regs c1)
                     (c_pend_ctl c1) (c_pend_cwnd c1) (c_pend_rate c1) (c_prims c1) in
    match lookup_prog (d_progs d) idx with
    | None => (d, mkConn (c_index cc) (c_sent_create cc) (d_clock d) idx None
                         (let rg := c_regs cc in mkRegs (r_report rg) (r_control rg) (setn (r_impl rg) US_ELAPSED 0) (r_tmp rg) (r_local rg))
                         (c_pend_ctl cc) (c_pend_cwnd cc) (c_pend_rate cc) (c_prims cc))
    | Some p =>
      let '(ca, ntr) := reset_walk (d_clock d) cc (dp_instrs p) 0 in
      let p' := match ntr with
                | Some n => mkDProg (dp_index p) (dp_uid p) (dp_exprs p) (dp_instrs p) n
                | None => p end in
      let cb := init_walk (d_clock d) ca (dp_instrs p) in
      let cr := mkConn (c_index cb) (c_sent_create cb) (d_clock d) (c_prog cb) None
                       (let rg := c_regs cb in mkRegs (r_report rg) (r_control rg) (setn (r_impl rg) US_ELAPSED 0) (r_tmp rg) (r_local rg))
                       (c_pend_ctl cb) (c_pend_cwnd cb) (c_pend_rate cb) (c_prims cb) in
      (mkDp (d_clock d) (d_time_zero d) (set_prog (d_progs d) p') (d_conn d), cr)
    end
  end.

Lemma invoke_unfold d c : d_conn d = Some c -> c_sent_create c = true ->
  invoke d =
  let c1 := set_impl (set_impl c 4 (p_snd_cwnd (c_prims c))) 5 (p_snd_rate (c_prims c)) in
  let '(d1, c2) := invoke_switch d c1 in
  invoke_tail d1 c2.
Proof. intros H1 H2. unfold invoke, invoke_switch, invoke_tail. rewrite H1, H2. reflexivity. Qed.

(* the part of invoke_src after the program switch and the field updates *)
Definition src_tail (p : sprog) (cx : ctx) (sb : sstate) (o0 : list sout) : Z * sstate * list sout :=
  let e0 := env_set (env_set (env_set (s_env sb) flag_n 0) cont_n 0) report_n 0 in
  let e1 := env_set e0 micros_name (wrap64 (cx_clock cx + W64 - s_tz sb)) in
  match run_events cx (mkS e1 (s_tz sb)) (sp_events p) with
  | inl (z, sf) => (z, sf, o0)
  | inr s1 =>
    let cw := env_get (s_env s1) cwnd_n in
    let rt := env_get (s_env s1) rate_n in
    let o1 := (if 0 <? cw then [SCwnd (cw mod W32)] else []) ++ (if negb (rt =? 0) then [SRate (rt mod W32)] else []) in
    if negb (env_get (s_env s1) report_n =? 0) then
      (0%Z, mkS (reset_volatile (s_env s1) (sp_decls p)) (s_tz s1),
       o0 ++ o1 ++ [SReport (report_fields (sp_decls p) (s_env s1))])
    else (0%Z, s1, o0 ++ o1)
  end.

Lemma invoke_src_no_updates p cx first s :
  invoke_src p cx (mkPend first []) s =
  let ea := env_set (env_set (s_env s) cwnd_n (p_snd_cwnd (cx_prims cx))) rate_n (p_snd_rate (cx_prims cx)) in
  src_tail p cx (if first then mkS (init_all ea (sp_decls p)) (cx_clock cx) else mkS ea (s_tz s)) [].
Proof. unfold invoke_src, src_tail. destruct first; reflexivity. Qed.

Lemma decl_name_dec (ds : list sdecl) x : {d | In d ds /\ sd_name d = x} + {forall d, In d ds -> sd_name d <> x}.
Proof.
  induction ds as [|d t IH]; [right; intros d []|].
  destruct (name_eqb (sd_name d) x) eqn:E.
  - left. exists d. split; [left; reflexivity|apply name_eqb_eq; exact E].
  - destruct IH as [(d' & Hin & Hn)|Hno].
    + left. exists d'. split; [right; exact Hin|exact Hn].
    + right. intros d' [<-|Hin]; [intros Hn; rewrite Hn, name_eqb_refl in E; discriminate|apply Hno; exact Hin].
Qed.

Section Invoke.
  Variable scf : list (name * reg).
  Hypothesis OK : scf_ok scf.
  Hypothesis OKI : scf_impl scf.
  Variables (defs eis : list instr) (devs : list Lower.devent) (evs : list event) (decls : list sdecl).

  Hypothesis Hshape : Forall def_shape defs.
  Hypothesis Hnodup_slots : NoDup (map def_slot defs).
  Hypothesis Hdef_within : Forall (fun i => reg_within (i_res i)) defs.
  Hypothesis Hnodup_decls : NoDup (map sd_name decls).

  (* a declaration, its DEF instruction and its register in the final scope *)
  Definition decl_def (d : sdecl) (i : instr) : Prop :=
    exists v r', sd_init d = Some v /\ sc_get scf (sd_name d) = Some r' /\ dreg_of r' = dreg_of (i_res i) /\
      legacy (def_val (i_right i)) = init_value v /\ reg_vol (i_res i) = sd_vol d /\ reg_is_report (i_res i) = sd_report d.

  Hypothesis Hdecl_def : forall d, In d decls -> exists i, In i defs /\ decl_def d i.
  Hypothesis Hdef_decl : forall i, In i defs -> exists d, In d decls /\ decl_def d i.

  Lemma perm_var_class r : is_perm r -> var_class r = true.
  Proof. destruct r; intros H; try contradiction; reflexivity. Qed.

  Lemma def_in_perm i : In i defs -> is_perm (i_res i).
  Proof. intros Hi. rewrite Forall_forall in Hshape. destruct (Hshape _ Hi) as (_ & _ & Hp & _). exact Hp. Qed.

  (* a register of a name that no declaration has is no DEF's register *)
  Lemma undeclared_slot x r f j : sc_get scf x = Some r -> var_class r = true -> slot r = Some (f, j) ->
    (forall d, In d decls -> sd_name d <> x) -> forall i, In i defs -> def_slot i <> Some (f, j).
  Proof.
    intros Hx Hvc Hs Hno i Hi E.
    destruct (Hdef_decl _ Hi) as (d & Hd & v & r' & _ & Hg & Hdr & _).
    apply (Hno d Hd). symmetry. eapply (ok_inj _ OK); eauto.
    rewrite Hs, <- E. unfold def_slot. symmetry. apply dreg_slot. exact Hdr.
  Qed.

  Section Walks.
    Variable cx : ctx.
    Notation k := (cx_clock cx).
    Notation z := (cx_dp_zero cx).

    (* program change: reset_state then init_register_state *)
    Lemma switch_vars (P : name -> Prop) s c :
      regs_wf (c_regs c) ->
      (forall x r, sc_get scf x = Some r -> var_class r = true -> P x -> read_reg k z c (dreg_of r) = env_get (s_env s) x) ->
      let ca := fst (reset_fold k c 0 defs) in
      let cb := init_fold k ca defs in
      conn_frame c cb /\
      (forall x r, sc_get scf x = Some r -> var_class r = true -> P x ->
                   read_reg k z cb (dreg_of r) = env_get (init_all (s_env s) decls) x).
    Proof.
      intros Hwf Hv ca cb.
      destruct (reset_fold_spec k defs Hshape Hnodup_slots Hdef_within c 0 Hwf) as (Fa & Ina & Outa). fold ca in Fa, Ina, Outa.
      assert (Hwfa : regs_wf (c_regs ca)) by (apply Fa; exact Hwf).
      destruct (init_fold_spec k defs Hshape Hnodup_slots Hdef_within ca Hwfa) as (Fb & Inb & Outb). fold cb in Fb, Inb, Outb.
      split; [eapply conn_frame_trans; eauto|].
      intros x r Hx Hvc HP.
      destruct (slot r) as [[f j]|] eqn:Es; [|unfold var_class in Hvc; rewrite Es in Hvc; discriminate].
      destruct (decl_name_dec decls x) as [(d & Hd & Hn)|Hno].
      - subst x. destruct (Hdecl_def _ Hd) as (i & Hi & v & r' & Hiv & Hg & Hdr & Hval & Hvol & _).
        rewrite Hx in Hg. inversion Hg; subst r'. clear Hg.
        rewrite (init_all_in _ _ _ _ Hnodup_decls Hd Hiv). rewrite Hdr.
        pose proof (def_in_perm _ Hi) as Hp. destruct (perm_slot _ Hp) as (fi & ji & Hsi & _).
        destruct (reg_vol (i_res i)) eqn:Ev.
        + rewrite (read_reg_slot _ _ _ _ _ _ Hsi). rewrite Outb.
          * rewrite <- (read_reg_slot k 0 ca _ _ _ Hsi). rewrite (Ina _ Hi Ev). exact Hval.
          * intros i2 Hi2 Hv2 E. assert (i2 = i) by (eapply NoDup_map_inj; eauto; unfold def_slot at 2; rewrite Hsi; exact E).
            subst i2. congruence.
        + rewrite (read_reg_slot _ _ _ _ _ _ Hsi), <- (read_reg_slot k 0 cb _ _ _ Hsi). rewrite (Inb _ Hi Ev). exact Hval.
      - rewrite init_all_other by (intros d Hd; left; apply Hno; exact Hd).
        rewrite (read_reg_slot _ _ _ _ _ _ Es).
        rewrite Outb by (intros i Hi _; eapply undeclared_slot; eauto).
        rewrite Outa by (intros i Hi _; eapply undeclared_slot; eauto).
        rewrite <- (read_reg_slot k z c _ _ _ Es). apply Hv; auto.
    Qed.

    (* after a report: reset_state alone *)
    Lemma report_reset_vars s c :
      regs_wf (c_regs c) ->
      (forall x r, sc_get scf x = Some r -> var_class r = true -> read_reg k z c (dreg_of r) = env_get (s_env s) x) ->
      let ca := fst (reset_fold k c 0 defs) in
      conn_frame c ca /\
      (forall x r, sc_get scf x = Some r -> var_class r = true ->
                   read_reg k z ca (dreg_of r) = env_get (reset_volatile (s_env s) decls) x).
    Proof.
      intros Hwf Hv ca.
      destruct (reset_fold_spec k defs Hshape Hnodup_slots Hdef_within c 0 Hwf) as (Fa & Ina & Outa). fold ca in Fa, Ina, Outa.
      split; [exact Fa|].
      intros x r Hx Hvc.
      destruct (slot r) as [[f j]|] eqn:Es; [|unfold var_class in Hvc; rewrite Es in Hvc; discriminate].
      destruct (decl_name_dec decls x) as [(d & Hd & Hn)|Hno].
      - subst x. destruct (Hdecl_def _ Hd) as (i & Hi & v & r' & Hiv & Hg & Hdr & Hval & Hvol & _).
        rewrite Hx in Hg. inversion Hg; subst r'. clear Hg.
        pose proof (def_in_perm _ Hi) as Hp. destruct (perm_slot _ Hp) as (fi & ji & Hsi & _).
        rewrite Hdr.
        destruct (sd_vol d) eqn:Ev.
        + rewrite (reset_volatile_in _ _ _ _ Hnodup_decls Hd Hiv Ev).
          rewrite (read_reg_slot _ _ _ _ _ _ Hsi), <- (read_reg_slot k 0 ca _ _ _ Hsi). rewrite (Ina _ Hi Hvol). exact Hval.
        + rewrite reset_volatile_other.
          * rewrite (read_reg_slot _ _ _ _ _ _ Hsi). rewrite Outa.
            -- rewrite <- (read_reg_slot k z c _ _ _ Hsi), <- Hdr. apply Hv; auto.
            -- intros i2 Hi2 Hv2 E. assert (i2 = i) by (eapply NoDup_map_inj; eauto; unfold def_slot at 2; rewrite Hsi; exact E).
               subst i2. congruence.
          * intros d' Hd'. destruct (name_eqb (sd_name d') (sd_name d)) eqn:En.
            -- apply name_eqb_eq in En. assert (d' = d) by (eapply NoDup_map_inj; eauto). subst d'. right. right. exact Ev.
            -- left. intros Hq. rewrite Hq, name_eqb_refl in En. discriminate.
      - rewrite reset_volatile_other by (intros d Hd; left; apply Hno; exact Hd).
        rewrite (read_reg_slot _ _ _ _ _ _ Es).
        rewrite Outa by (intros i Hi _; eapply undeclared_slot; eauto).
        rewrite <- (read_reg_slot k z c _ _ _ Es). apply Hv; auto.
    Qed.
  End Walks.


  (* ---------- one invocation ---------- *)

  Variables (g0 : tenv) (sc0 scF : scope) (pidx uid : N).
  Hypothesis Hcomp : compile_events evs sc0 (N.of_nat (length defs)) = Ok (devs, eis, scF).
  Hypothesis HscF : sext (sc_named scF) scf.
  Hypothesis Hty : ty_events g0 (map sev evs) = true.
  Hypothesis Hcl : forallb (fun ev => negb (clobbers (ev_flag ev)) && forallb (fun e => negb (clobbers e)) (ev_body ev)) evs = true.
  Hypothesis Hlink : link g0 (sc_named sc0).
  Hypothesis Htn : tname_ok (sc_named sc0).
  Hypothesis Hwithin : Forall instr_within eis.
  Hypothesis Hfirst : exists e0 rest, eis = e0 :: rest /\ not_def (dinstr_of e0).
  Hypothesis Hpidx : pidx <> 0.
  Hypothesis Hinit_bounded : forall d v, In d decls -> sd_init d = Some v -> init_value v < W64.

  Definition ntr_of : N := fold_left (fun n i => if reg_is_report (i_res i) then (n + 1) mod 256 else n) defs 0.
  Definition rep_decls : list sdecl :=
    filter (fun d => sd_report d && match sd_init d with Some _ => true | None => false end) decls.
  Hypothesis Hnrep : N.of_nat (length rep_decls) = ntr_of.
  Hypothesis Hrep_slots : forall j d, nth_error rep_decls j = Some d ->
    exists r, sc_get scf (sd_name d) = Some r /\ slot r = Some (FRep, N.of_nat j).

  Definition prog (n : N) : dprog := mkDProg pidx uid (map dexpr_of devs) (map dinstr_of (defs ++ eis)) n.

  (* between invocations: every variable's register holds its value, the time bases agree *)
  Definition Rv (s : sstate) (c : conn) : Prop := R scf (mkCtx 0 0 (c_prims c)) s c.

  Lemma R_ctx cx1 cx2 s c c' : R scf cx1 s c -> c_regs c' = c_regs c -> c_time_zero c' = c_time_zero c ->
    c_prims c' = cx_prims cx2 -> R scf cx2 s c'.
  Proof.
    intros (Hwf & Hv & Htz & _) Hr Ht Hp. split; [rewrite Hr; exact Hwf|]. split; [|split; [congruence|exact Hp]].
    intros x r Hx Hvc. rewrite <- (Hv _ _ Hx Hvc).
    destruct (slot r) as [[f j]|] eqn:Es; [|unfold var_class in Hvc; rewrite Es in Hvc; discriminate].
    rewrite !(read_reg_slot _ _ _ _ _ _ Es). unfold rd. rewrite Hr. reflexivity.
  Qed.

  Definition idle (c : conn) : Prop :=
    c_sent_create c = true /\ c_pend_ctl c = repeat None 110 /\ c_pend_cwnd c = None /\ c_pend_rate c = None.

  Definition cwnds_m (l : list Machine.devent) : list N := flat_map (fun e => match e with DSetCwnd v => [v] | _ => [] end) l.
  Definition rates_m (l : list Machine.devent) : list N := flat_map (fun e => match e with DSetRate v => [v] | _ => [] end) l.
  Definition reports_m (n : nat) (l : list Machine.devent) : list (list N) :=
    flat_map (fun e => match e with DSend b => [firstn n (u64s_of (length b) (skipn 16 b))] | _ => [] end) l.
  Definition cwnds_s (l : list sout) : list N := flat_map (fun o => match o with SCwnd v => [v] | _ => [] end) l.
  Definition rates_s (l : list sout) : list N := flat_map (fun o => match o with SRate v => [v] | _ => [] end) l.
  Definition reports_s (l : list sout) : list (list N) := flat_map (fun o => match o with SReport f => [f] | _ => [] end) l.

  Lemma firstn_map_nth {A} (g : A -> N) ds : forall l, (length ds <= length l)%nat ->
    (forall j d, nth_error ds j = Some d -> nth j l 0 = g d) -> firstn (length ds) l = map g ds.
  Proof.
    induction ds as [|d t IH]; intros l Hl H; [reflexivity|].
    destruct l as [|x l']; [cbn in Hl; lia|]. cbn [length firstn map].
    f_equal; [exact (H 0%nat d eq_refl)|]. apply IH; [cbn in Hl; lia|].
    intros j d' Hj. exact (H (S j) d' Hj).
  Qed.

  Hypothesis Hall_init : forall d, In d decls -> sd_init d <> None.

  Lemma rep_decls_all : rep_decls = filter (fun d => sd_report d) decls.
  Proof.
    unfold rep_decls. apply filter_ext_in. intros d Hd. specialize (Hall_init d Hd).
    destruct (sd_init d); [apply andb_true_r|congruence].
  Qed.

  Lemma fold_ntr_lt l : forall a, a < 256 ->
    fold_left (fun n (i : instr) => if reg_is_report (i_res i) then (n + 1) mod 256 else n) l a < 256.
  Proof.
    induction l as [|i t IH]; intros a Ha; cbn [fold_left]; [exact Ha|]. apply IH.
    destruct (reg_is_report (i_res i)); [apply N.mod_lt; lia|exact Ha].
  Qed.

  Lemma rep_decls_short : (length rep_decls <= 16)%nat.
  Proof.
    destruct (length rep_decls) as [|m] eqn:El; [lia|].
    destruct (nth_error rep_decls m) as [d|] eqn:En; [|apply nth_error_None in En; lia].
    destruct (Hrep_slots _ _ En) as (r & Hx & Hs).
    assert (Hd : In d decls) by (apply nth_error_In in En; unfold rep_decls in En; apply filter_In in En; tauto).
    destruct (Hdecl_def _ Hd) as (i & Hi & v & r' & _ & Hg & Hdr & _). rewrite Hx in Hg. inversion Hg; subst r'.
    rewrite Forall_forall in Hdef_within. specialize (Hdef_within _ Hi).
    apply dreg_slot in Hdr. rewrite Hs in Hdr.
    destruct (i_res i); cbn in Hdr; try discriminate Hdr; inversion Hdr; subst; cbn in Hdef_within; lia.
  Qed.

  (* the report message decodes to the values of the report variables *)
  Lemma report_decode cx s c sid : R scf cx s c -> env_bounded (s_env s) ->
    let b := measure_bytes sid uid (r_report (c_regs c)) ntr_of in
    firstn (length (filter (fun d => sd_report d) decls)) (u64s_of (length b) (skipn 16 b)) = report_fields decls (s_env s).
  Proof.
    intros HR Hb b. rewrite <- rep_decls_all.
    destruct HR as ((W1 & _) & Hv & _).
    assert (Hf : firstn (N.to_nat ntr_of) (r_report (c_regs c)) = report_fields decls (s_env s)).
    { rewrite <- Hnrep, Nat2N.id. unfold report_fields. fold rep_decls.
      apply firstn_map_nth.
      - rewrite W1. pose proof rep_decls_short. lia.
      - intros j d Hj. destruct (Hrep_slots _ _ Hj) as (r & Hx & Hs).
        assert (Hvc : var_class r = true) by (unfold var_class; rewrite Hs; reflexivity).
        rewrite <- (Hv _ _ Hx Hvc), (read_reg_slot _ _ _ _ _ _ Hs). unfold rd, getn. cbn [file_of]. rewrite Nat2N.id. reflexivity. }
    unfold b, measure_bytes.
    rewrite skipn_app, ser_header_length. cbn [Nat.sub]. rewrite skipn_all2 by (rewrite ser_header_length; lia). cbn [app].
    rewrite skipn_app, enc_le_length. cbn [Nat.sub]. rewrite skipn_all2 by (rewrite enc_le_length; lia). cbn [app].
    rewrite skipn_app, enc_le_length. cbn [Nat.sub]. rewrite skipn_all2 by (rewrite enc_le_length; lia). cbn [app skipn].
    rewrite Hf. rewrite u64s_of_enc.
    - apply firstn_all2. unfold report_fields. fold rep_decls. rewrite map_length. lia.
    - unfold report_fields. apply forallb_forall. intros v Hin. apply in_map_iff in Hin. destruct Hin as (d & <- & _).
      unfold CodecSpec.u64_ok. apply N.ltb_lt. apply Hb.
    - rewrite !app_length, ser_header_length, !enc_le_length, enc_le_list_length. lia.
  Qed.


  Lemma name_neq_micros x : x = flag_n \/ x = cont_n \/ x = report_n \/ x = cwnd_n \/ x = rate_n -> x <> micros_name.
  Proof. intros [->|[->|[->|[->| ->]]]]; discriminate. Qed.

  Section OneInvocation.
    Variable cx : ctx.
    Notation k := (cx_clock cx).
    Notation z := (cx_dp_zero cx).

    Lemma Rm_set_flag s c x i t v : sc_get scf x = Some (Implicit i t) -> i = 0 \/ i = 1 \/ i = 2 \/ i = 4 \/ i = 5 ->
      x <> micros_name -> Rm scf cx s c -> Rm scf cx (mkS (env_set (s_env s) x v) (s_tz s)) (set_impl c i v).
    Proof.
      intros Hx Hi Hxm HR. rewrite (set_impl_write k c i t v Hi).
      eapply Rm_write; eauto. cbn. destruct Hi as [->|[->|[->|[->| ->]]]]; lia.
    Qed.

    (* loading the window and the rate *)
    Lemma pre_Rm s c : R scf cx s c ->
      Rm scf cx (mkS (env_set (env_set (s_env s) cwnd_n (p_snd_cwnd (cx_prims cx))) rate_n (p_snd_rate (cx_prims cx))) (s_tz s))
         (set_impl (set_impl c 4 (p_snd_cwnd (cx_prims cx))) 5 (p_snd_rate (cx_prims cx))).
    Proof.
      intros HR. destruct OKI as (_ & _ & _ & (tc & Hc) & (tr & Hr)).
      apply (Rm_set_flag (mkS (env_set (s_env s) cwnd_n (p_snd_cwnd (cx_prims cx))) (s_tz s)) _ rate_n 5 tr); auto.
      - apply name_neq_micros; auto.
      - apply (Rm_set_flag s c cwnd_n 4 tc); auto.
        + apply name_neq_micros; auto.
        + apply R_Rm. exact HR.
    Qed.

    (* resetting the three flags and loading Micros *)
    Lemma setup_R s c : Rm scf cx s c ->
      let e0 := env_set (env_set (env_set (s_env s) flag_n 0) cont_n 0) report_n 0 in
      let c0 := set_impl (set_impl (set_impl c 0 0) 1 0) 2 0 in
      R scf cx (mkS (env_set e0 micros_name (wrap64 (k + W64 - s_tz s))) (s_tz s))
        (set_impl c0 US_ELAPSED (wrap64 (k + W64 - c_time_zero c0))).
    Proof.
      intros HR e0 c0. destruct OKI as ((tf & Hf) & (tc & Hc) & (tr & Hr) & _).
      assert (H0 : Rm scf cx (mkS e0 (s_tz s)) c0).
      { unfold e0, c0.
        apply (Rm_set_flag (mkS (env_set (env_set (s_env s) flag_n 0) cont_n 0) (s_tz s)) _ report_n 2 tr); auto; [apply name_neq_micros; auto|].
        apply (Rm_set_flag (mkS (env_set (s_env s) flag_n 0) (s_tz s)) _ cont_n 1 tc); auto; [apply name_neq_micros; auto|].
        apply (Rm_set_flag s c flag_n 0 tf); auto. apply name_neq_micros; auto. }
      assert (Htz : c_time_zero c0 = s_tz s) by (destruct H0 as (_ & _ & Htz & _); exact Htz).
      rewrite Htz. exact (Rm_set_micros scf cx OK (mkS e0 (s_tz s)) c0 _ H0).
    Qed.
  End OneInvocation.


  Lemma flat_map_snoc {A B} (f : A -> list B) l x : flat_map f (l ++ [x]) = flat_map f l ++ f x.
  Proof. rewrite flat_map_app. cbn. rewrite app_nil_r. reflexivity. Qed.

  Lemma prog_instrs n : dp_instrs (prog n) = map dinstr_of defs ++ map dinstr_of eis ++ [].
  Proof. cbn. rewrite map_app, app_nil_r. reflexivity. Qed.

  Lemma reset_walk_prog kk c n : reset_walk kk c (dp_instrs (prog n)) 0 = (fst (reset_fold kk c 0 defs), Some ntr_of).
  Proof.
    destruct Hfirst as (e0 & rest & He & Hnd). cbn [prog dp_instrs]. rewrite map_app, He. cbn [map].
    rewrite (reset_walk_defs kk defs Hshape c 0 _ _ Hnd). rewrite reset_fold_count. reflexivity.
  Qed.

  Lemma init_walk_prog kk c n : init_walk kk c (dp_instrs (prog n)) = init_fold kk c defs.
  Proof.
    destruct Hfirst as (e0 & rest & He & Hnd). cbn [prog dp_instrs]. rewrite map_app, He. cbn [map].
    apply (init_walk_defs kk defs Hshape c _ _ Hnd).
  Qed.

  Theorem sim_state_machine cx d1 c3 sb :
    d_clock d1 = cx_clock cx -> d_time_zero d1 = cx_dp_zero cx ->
    lookup_prog (d_progs d1) pidx = Some (prog ntr_of) -> c_prog c3 = pidx ->
    Rm scf cx sb c3 -> env_bounded (s_env sb) -> prims_bounded (cx_prims cx) ->
    let '(rc, d2, c4, em) := state_machine d1 c3 in
    let '(rc', s', outs) := src_tail (mkSP decls (map sev evs)) cx sb [] in
    rc = rc' /\ cwnds_m em = cwnds_s outs /\ rates_m em = rates_s outs /\
    reports_m (length (filter (fun d => sd_report d) decls)) em = reports_s outs /\
    fields_frame c3 c4 /\ d_clock d2 = d_clock d1 /\ d_time_zero d2 = d_time_zero d1 /\
    lookup_prog (d_progs d2) pidx = Some (prog ntr_of) /\ Rv s' c4 /\ env_bounded (s_env s').
  Proof.
    intros Hk Hz Hlook Hprog HRm Hb Hpb.
    unfold state_machine. rewrite Hprog, Hlook, Hk, Hz.
    pose proof (setup_R cx sb c3 HRm) as HR1. cbn zeta in HR1.
    set (c0 := set_impl (set_impl (set_impl c3 0 0) 1 0) 2 0) in *.
    set (c1 := set_impl c0 US_ELAPSED (wrap64 (cx_clock cx + W64 - c_time_zero c0))) in *.
    unfold src_tail. cbn [sp_events sp_decls].
    set (e1 := env_set (env_set (env_set (env_set (s_env sb) flag_n 0) cont_n 0) report_n 0) micros_name (wrap64 (cx_clock cx + W64 - s_tz sb))) in *.
    assert (Hb1 : env_bounded e1).
    { unfold e1. repeat apply env_bounded_set; auto using wrap64_lt; unfold W64; lia. }
    assert (F01 : fields_frame c3 c1) by (repeat split).
    pose proof (sim_events scf cx OK OKI evs g0 sc0 _ devs eis scF (map dinstr_of defs) [] (prog ntr_of) Hty Hcl Hcomp Hlink Htn HscF Hwithin
                  (prog_instrs ntr_of) (eq_sym (f_equal N.of_nat (map_length dinstr_of defs))) _ _ HR1) as Hsim.
    pose proof (run_events_bounded cx (map sev evs) Hpb g0 (mkS e1 (s_tz sb)) Hty Hb1) as Hrb.
    pose proof (run_exprs_fields (cx_clock cx) (cx_dp_zero cx) (prog ntr_of) (map dexpr_of devs) c1) as Hrf.
    change (dp_exprs (prog ntr_of)) with (map dexpr_of devs).
    destruct (run_events cx (mkS e1 (s_tz sb)) (map sev evs)) as [[zc sf]|s1].
    - (* an arithmetic fault ends the invocation *)
      destruct Hsim as (cf & Hrun & HRf). rewrite Hrun in *.
      do 4 (split; [reflexivity|]).
      split; [exact (fields_frame_trans _ _ _ F01 Hrf)|]. split; [first [reflexivity|exact Hk|symmetry; exact Hk]|]. split; [first [reflexivity|exact Hz|symmetry; exact Hz]|]. split; [exact Hlook|].
      split; [unfold Rv; eapply R_ctx; eauto; reflexivity|exact Hrb].
    - destruct Hsim as (c2 & Hrun & HR2). rewrite Hrun in *.
      destruct OKI as (_ & _ & (tr & Hrep) & (tcw & Hcw) & (trt & Hrt)).
      rewrite (R_read_impl scf cx _ _ _ _ _ Hcw HR2), (R_read_impl scf cx _ _ _ _ _ Hrt HR2), (R_read_impl scf cx _ _ _ _ _ Hrep HR2).
      set (cw := env_get (s_env s1) cwnd_n). set (rt := env_get (s_env s1) rate_n).
      assert (Hc1 : cwnds_m ((if 0 <? cw then [DSetCwnd (cw mod W32)] else []) ++ (if negb (rt =? 0) then [DSetRate (rt mod W32)] else [])) =
                    cwnds_s ((if 0 <? cw then [SCwnd (cw mod W32)] else []) ++ (if negb (rt =? 0) then [SRate (rt mod W32)] else [])))
        by (destruct (0 <? cw), (negb (rt =? 0)); reflexivity).
      assert (Hr1 : rates_m ((if 0 <? cw then [DSetCwnd (cw mod W32)] else []) ++ (if negb (rt =? 0) then [DSetRate (rt mod W32)] else [])) =
                    rates_s ((if 0 <? cw then [SCwnd (cw mod W32)] else []) ++ (if negb (rt =? 0) then [SRate (rt mod W32)] else [])))
        by (destruct (0 <? cw), (negb (rt =? 0)); reflexivity).
      assert (Hp1 : forall n, reports_m n ((if 0 <? cw then [DSetCwnd (cw mod W32)] else []) ++ (if negb (rt =? 0) then [DSetRate (rt mod W32)] else [])) = [] /\
                    reports_s ((if 0 <? cw then [SCwnd (cw mod W32)] else []) ++ (if negb (rt =? 0) then [SRate (rt mod W32)] else [])) = [])
        by (intros n; destruct (0 <? cw), (negb (rt =? 0)); split; reflexivity).
      destruct (negb (env_get (s_env s1) report_n =? 0)).
      + (* report, then reset of the volatile variables *)
        rewrite reset_walk_prog. cbn [app].
        destruct HR2 as (Hwf2 & Hv2 & Htz2 & Hp2).
        destruct (report_reset_vars cx s1 c2 Hwf2 Hv2) as (Fr & Hvr).
        set (c3' := fst (reset_fold (cx_clock cx) c2 0 defs)) in *.
        destruct Fr as (F1 & F2 & F3 & F4 & F5 & F6 & F7 & F8 & F9 & F10).
        unfold cwnds_m, rates_m, reports_m, cwnds_s, rates_s, reports_s in *.
        rewrite !flat_map_snoc. cbn [app].
        destruct (Hp1 (length (filter (fun d => sd_report d) decls))) as [Hp1a Hp1b].
        split; [reflexivity|]. split; [rewrite Hc1; cbn; rewrite !app_nil_r; reflexivity|].
        split; [rewrite Hr1; cbn; rewrite !app_nil_r; reflexivity|].
        split.
        { rewrite Hp1a, Hp1b. cbn [app]. f_equal.
          change (dp_num_to_return (prog ntr_of)) with ntr_of. change (dp_uid (prog ntr_of)) with uid.
          apply (report_decode cx s1 c2); [exact (conj Hwf2 (conj Hv2 (conj Htz2 Hp2)))|exact Hrb]. }
        split.
        { eapply fields_frame_trans; [exact F01|]. eapply fields_frame_trans; [exact Hrf|]. repeat split; congruence. }
        split; [cbn; first [reflexivity|exact Hk|symmetry; exact Hk]|]. split; [cbn; first [reflexivity|exact Hz|symmetry; exact Hz]|].
        split; [cbn [d_progs]; apply (lookup_set_prog _ (prog ntr_of)); [exact Hlook|reflexivity]|].
        split.
        { unfold Rv. split; [apply F10; exact Hwf2|]. split; [|split; [cbn [s_tz]; congruence|reflexivity]].
          intros x r Hx Hvc. cbn [s_env]. rewrite <- (Hvr _ _ Hx Hvc).
          destruct (slot r) as [[f j]|] eqn:Es; [|unfold var_class in Hvc; rewrite Es in Hvc; discriminate].
          rewrite !(read_reg_slot _ _ _ _ _ _ Es). reflexivity. }
        { cbn [s_env]. intros x.
          destruct (decl_name_dec decls x) as [(d & Hd & Hn)|Hno].
          - subst x. destruct (sd_init d) as [v|] eqn:Ei; [|exfalso; exact (Hall_init d Hd Ei)].
            destruct (sd_vol d) eqn:Ev.
            + rewrite (reset_volatile_in _ _ _ _ Hnodup_decls Hd Ei Ev). eapply Hinit_bounded; eauto.
            + rewrite reset_volatile_other; [apply Hrb|]. intros d' Hd'.
              destruct (name_eqb (sd_name d') (sd_name d)) eqn:En.
              * apply name_eqb_eq in En. assert (d' = d) by (eapply NoDup_map_inj; eauto). subst d'. right. right. exact Ev.
              * left. intros Hq. rewrite Hq, name_eqb_refl in En. discriminate.
          - rewrite reset_volatile_other by (intros d Hd; left; apply Hno; exact Hd). apply Hrb. }
      + (* no report *)
        cbn [app]. unfold cwnds_m, rates_m, reports_m, cwnds_s, rates_s, reports_s in *.
        destruct (Hp1 (length (filter (fun d => sd_report d) decls))) as [Hp1a Hp1b].
        split; [reflexivity|]. split; [exact Hc1|]. split; [exact Hr1|].
        split; [congruence|].
        split; [exact (fields_frame_trans _ _ _ F01 Hrf)|]. split; [first [reflexivity|exact Hk|symmetry; exact Hk]|]. split; [first [reflexivity|exact Hz|symmetry; exact Hz]|]. split; [exact Hlook|].
        split; [unfold Rv; eapply R_ctx; eauto; reflexivity|exact Hrb].
  Qed.


  Lemma Rm_ext cx s c c' : Rm scf cx s c -> (forall f j, rd c' f j = rd c f j) -> regs_wf (c_regs c') ->
    c_time_zero c' = c_time_zero c -> c_prims c' = c_prims c -> Rm scf cx s c'.
  Proof.
    intros (Hwf & Hv & Htz & Hp) Hrd Hwf' Ht Hpr. split; [exact Hwf'|]. split; [|split; congruence].
    intros x r Hx Hvc Hxm. rewrite <- (Hv _ _ Hx Hvc Hxm).
    destruct (slot r) as [[f j]|] eqn:Es; [|unfold var_class in Hvc; rewrite Es in Hvc; discriminate].
    rewrite !(read_reg_slot _ _ _ _ _ _ Es). apply Hrd.
  Qed.

  Theorem sim_invoke d c s (first : bool) n0 inp :
    d_conn d = Some c -> idle c ->
    (if first then c_staged c = Some pidx else c_staged c = None /\ c_prog c = pidx /\ n0 = ntr_of) ->
    lookup_prog (d_progs d) pidx = Some (prog n0) ->
    Rv s c -> env_bounded (s_env s) -> prims_bounded (fst inp) ->
    let cx := mkCtx (snd inp) (d_time_zero d) (fst inp) in
    let '(rc, d', em) := invoke (set_input d inp) in
    let '(rc', s', outs) := invoke_src (mkSP decls (map sev evs)) cx (mkPend first []) s in
    rc = rc' /\ cwnds_m em = cwnds_s outs /\ rates_m em = rates_s outs /\
    reports_m (length (filter (fun d => sd_report d) decls)) em = reports_s outs /\
    exists c', d_conn d' = Some c' /\ idle c' /\ c_staged c' = None /\ c_prog c' = pidx /\ c_index c' = c_index c /\
      lookup_prog (d_progs d') pidx = Some (prog ntr_of) /\ d_time_zero d' = d_time_zero d /\
      Rv s' c' /\ env_bounded (s_env s').
  Proof.
    intros Hconn (Hsent & Hpc & Hpw & Hpr) Hstage Hlook HRv Hb Hpb cx.
    rewrite invoke_src_no_updates. cbn [sp_decls].
    set (cin := mkConn (c_index c) (c_sent_create c) (c_time_zero c) (c_prog c) (c_staged c) (c_regs c)
                       (c_pend_ctl c) (c_pend_cwnd c) (c_pend_rate c) (fst inp)).
    assert (Hin : set_input d inp = mkDp (snd inp) (d_time_zero d) (d_progs d) (Some cin)) by (unfold set_input; rewrite Hconn; reflexivity).
    rewrite Hin. rewrite (invoke_unfold (mkDp (snd inp) (d_time_zero d) (d_progs d) (Some cin)) cin eq_refl Hsent). cbn zeta.
    change (c_prims cin) with (cx_prims cx).
    set (c1 := set_impl (set_impl cin 4 (p_snd_cwnd (cx_prims cx))) 5 (p_snd_rate (cx_prims cx))).
    set (ea := env_set (env_set (s_env s) cwnd_n (p_snd_cwnd (cx_prims cx))) rate_n (p_snd_rate (cx_prims cx))).
    assert (HRin : R scf cx s cin) by (eapply R_ctx; [exact HRv|reflexivity|reflexivity|reflexivity]).
    pose proof (pre_Rm cx s cin HRin) as HR1. fold c1 in HR1. fold ea in HR1.
    assert (Hbea : env_bounded ea).
    { destruct Hpb as (_&_&_&_&_&_&_&_&_&_&_&_&_&Hcw&Hrt&_). unfold ea. repeat apply env_bounded_set; auto. }
    set (din := mkDp (snd inp) (d_time_zero d) (d_progs d) (Some cin)).
    (* what the rest needs from the switch *)
    assert (Hsw : exists d1 c2, invoke_switch din c1 = (d1, c2) /\
              d_clock d1 = cx_clock cx /\ d_time_zero d1 = cx_dp_zero cx /\
              lookup_prog (d_progs d1) pidx = Some (prog ntr_of) /\
              c_prog c2 = pidx /\ c_staged c2 = None /\ c_index c2 = c_index c /\ c_sent_create c2 = true /\
              c_pend_ctl c2 = repeat None 110 /\ c_pend_cwnd c2 = None /\ c_pend_rate c2 = None /\
              Rm scf cx (if first then mkS (init_all ea decls) (cx_clock cx) else mkS ea (s_tz s)) c2 /\
              env_bounded (s_env (if first then mkS (init_all ea decls) (cx_clock cx) else mkS ea (s_tz s)))).
    { unfold invoke_switch. change (c_staged c1) with (c_staged c).
      destruct first.
      - rewrite Hstage. change (d_progs din) with (d_progs d). rewrite Hlook. change (d_clock din) with (cx_clock cx).
        rewrite reset_walk_prog, init_walk_prog.
        match goal with |- context [reset_fold _ ?cc0 0 defs] => set (cc := cc0) end.
        set (ca := fst (reset_fold (cx_clock cx) cc 0 defs)). set (cb := init_fold (cx_clock cx) ca defs).
        destruct HR1 as (Hwf1 & Hv1 & Htz1 & Hp1).
        destruct (switch_vars cx (fun x => x <> micros_name) (mkS ea (s_tz s)) cc Hwf1 Hv1) as (Fr & Hvb).
        fold ca in Fr, Hvb. fold cb in Fr, Hvb. cbn [s_env] in Hvb.
        destruct Fr as (F1 & F2 & F3 & F4 & F5 & F6 & F7 & F8 & F9 & F10).
        do 2 eexists. split; [reflexivity|]. cbn [d_clock d_time_zero d_progs c_prog c_staged c_index c_sent_create c_pend_ctl c_pend_cwnd c_pend_rate].
        split; [reflexivity|]. split; [reflexivity|].
        split; [apply (lookup_set_prog _ (prog n0)); [exact Hlook|reflexivity]|].
        split; [rewrite F4; reflexivity|]. split; [reflexivity|]. split; [rewrite F3; reflexivity|].
        split; [rewrite F6; exact Hsent|]. split; [rewrite F7; exact Hpc|]. split; [rewrite F8; exact Hpw|]. split; [rewrite F9; exact Hpr|].
        split.
        + (* the relation after reset_state, init_register_state and reset_time *)
          split; [specialize (F10 Hwf1); destruct F10 as (W1&W2&W3&W4&W5); unfold regs_wf; cbn; rewrite setn_length; auto|].
          split; [|split; [reflexivity|cbn [c_prims]; rewrite F2; exact Hp1]].
          intros x r Hx Hvc Hxm. cbn [s_env]. rewrite <- (Hvb _ _ Hx Hvc Hxm).
          destruct (slot r) as [[f j]|] eqn:Es; [|unfold var_class in Hvc; rewrite Es in Hvc; discriminate].
          rewrite !(read_reg_slot _ _ _ _ _ _ Es). unfold rd. cbn [c_regs].
          destruct f; cbn [file_of r_report r_control r_impl r_tmp r_local]; try reflexivity.
          apply getn_setn_other. intros <-. destruct (ok_micros _ OK _ _ Hx) as [Hm _]. rewrite Es in Hm. exact (Hxm (Hm eq_refl)).
        + cbn [s_env]. intros x. destruct (decl_name_dec decls x) as [(d0 & Hd0 & Hn0)|Hno].
          * subst x. destruct (sd_init d0) as [v|] eqn:Ei; [|exfalso; exact (Hall_init d0 Hd0 Ei)].
            rewrite (init_all_in _ _ _ _ Hnodup_decls Hd0 Ei). eapply Hinit_bounded; eauto.
          * rewrite init_all_other by (intros d0 Hd0; left; apply Hno; exact Hd0). apply Hbea.
      - destruct Hstage as (Hst & Hpg & Hn0). rewrite Hst.
        exists din, c1. split; [reflexivity|].
        split; [reflexivity|]. split; [reflexivity|]. split; [rewrite <- Hn0; exact Hlook|].
        split; [exact Hpg|]. split; [exact Hst|]. split; [reflexivity|]. split; [exact Hsent|].
        split; [exact Hpc|]. split; [exact Hpw|]. split; [exact Hpr|]. split; [exact HR1|exact Hbea]. }
    destruct Hsw as (d1 & c2 & Hsw & Hk1 & Hz1 & Hl1 & Hpg2 & Hst2 & Hix2 & Hse2 & Hpc2 & Hpw2 & Hpr2 & HRm2 & Hb2).
    rewrite Hsw. rewrite (invoke_tail_idle d1 c2 Hpc2 Hpw2 Hpr2).
    assert (HRm3 : Rm scf cx (if first then mkS (init_all ea decls) (cx_clock cx) else mkS ea (s_tz s)) (clean c2)).
    { eapply Rm_ext; [exact HRm2|intros f j; apply rd_clean| |reflexivity|reflexivity].
      destruct HRm2 as ((W1&W2&W3&W4&W5) & _). repeat split; assumption. }
    pose proof (sim_state_machine cx d1 (clean c2) _ Hk1 Hz1 Hl1 Hpg2 HRm3 Hb2 Hpb) as Hsm.
    destruct (state_machine d1 (clean c2)) as [[[rc d2] c4] em].
    destruct (src_tail (mkSP decls (map sev evs)) cx (if first then mkS (init_all ea decls) (cx_clock cx) else mkS ea (s_tz s)) []) as [[rc' s'] outs].
    destruct Hsm as (E1 & E2 & E3 & E4 & (G1&G2&G3&G4&G5&G6&G7&G8) & Hck & Hzk & Hl2 & HRv' & Hb').
    split; [exact E1|]. split; [exact E2|]. split; [exact E3|]. split; [exact E4|].
    exists c4. cbn [d_conn d_progs d_time_zero].
    split; [reflexivity|]. split; [repeat split; [rewrite G4; exact Hse2|rewrite G5; reflexivity|rewrite G6; reflexivity|rewrite G7; reflexivity]|].
    split; [rewrite G3; exact Hst2|]. split; [rewrite G2; exact Hpg2|]. split; [rewrite G1; exact Hix2|].
    split; [exact Hl2|]. split; [rewrite Hzk; exact Hz1|]. split; [exact HRv'|exact Hb'].
  Qed.


  (* ---------- every invocation of a run ---------- *)

  Variable scV : scope.                   (* the scope through which variables are observed *)
  Hypothesis HscV : sc_named scV = scf.
  Hypothesis Hscf_unique : forall x r, In (x, r) scf -> sc_get scf x = Some r.

  Lemma list_eqb_refl (l : list N) : (if list_eq_dec N.eq_dec l l then true else false) = true.
  Proof. destruct (list_eq_dec N.eq_dec l l); [reflexivity|contradiction]. Qed.

  Lemma list_list_eqb_refl (l : list (list N)) : (if list_eq_dec (list_eq_dec N.eq_dec) l l then true else false) = true.
  Proof. destruct (list_eq_dec (list_eq_dec N.eq_dec) l l); [reflexivity|contradiction]. Qed.

  Lemma vars_agree s c : Rv s c ->
    map snd (map (fun kv : name * reg => (fst kv, reg_value (c_regs c) (snd kv))) (var_names scV)) =
    map snd (map (fun kv : name * reg => (fst kv, env_get (s_env s) (fst kv))) (var_names scV)).
  Proof.
    intros (_ & Hv & _). rewrite !map_map. cbn [snd fst]. apply map_ext_in. intros [x r] Hin.
    unfold var_names in Hin. apply filter_In in Hin. destruct Hin as [Hin Hcls]. rewrite HscV in Hin. cbn [snd fst] in *.
    pose proof (Hscf_unique _ _ Hin) as Hx.
    destruct r as [i t vol|n|b|i t|i t|i t|i t vol|i t|]; try discriminate Hcls;
      rewrite <- (Hv _ _ Hx eq_refl); try destruct vol; reflexivity.
  Qed.

  Theorem sim_run ins : forall d c s (first : bool) n0,
    d_conn d = Some c -> idle c ->
    (if first then c_staged c = Some pidx else c_staged c = None /\ c_prog c = pidx /\ n0 = ntr_of) ->
    lookup_prog (d_progs d) pidx = Some (prog n0) -> d_time_zero d = 1000 ->
    Rv s c -> env_bounded (s_env s) -> Forall (fun i : input => prims_bounded (fst i)) ins ->
    all_obs_eq (machine_run scV (length (filter (fun d => sd_report d) decls)) d ins)
               (src_run scV (mkSP decls (map sev evs)) first s ins) = true.
  Proof.
    induction ins as [|i r IH]; intros d c s first n0 Hconn Hidle Hstage Hlook Htz HRv Hb Hpb; [reflexivity|].
    inversion Hpb as [|? ? Hpi Hpr]; subst.
    cbn [machine_run src_run].
    pose proof (sim_invoke d c s first n0 i Hconn Hidle Hstage Hlook HRv Hb Hpi) as H. cbn zeta in H. rewrite Htz in H.
    destruct (invoke (set_input d i)) as [[rc d'] em].
    destruct (invoke_src (mkSP decls (map sev evs)) (mkCtx (snd i) 1000 (fst i)) (mkPend first []) s) as [[rc' s'] outs].
    destruct H as (E1 & E2 & E3 & E4 & c' & Hc' & Hidle' & Hst' & Hpg' & _ & Hl' & Htz' & HRv' & Hb').
    cbn [all_obs_eq]. apply andb_true_iff. split.
    - unfold obs_eqb. cbn [o_rc o_cwnd o_rate o_report o_vars]. rewrite Hc'.
      fold (cwnds_m em) (rates_m em) (reports_m (length (filter (fun d => sd_report d) decls)) em).
      fold (cwnds_s outs) (rates_s outs) (reports_s outs).
      rewrite E1, E2, E3, E4, (vars_agree _ _ HRv').
      rewrite Z.eqb_refl, !list_eqb_refl, list_list_eqb_refl. reflexivity.
    - apply (IH d' c' s' false ntr_of); auto; rewrite Htz'; exact Htz.
  Qed.

End Invoke.
