(* C13: a declared variable carries the type and initial value it was declared with, and nothing
   else ever does: in every scope the compiler returns, a register whose type is still a name
   waiting to be resolved (TName) is a local, and the name it waits for is a local's.  Report,
   control, implicit and primitive registers therefore never carry a name as their type, whatever
   the statements bind (binds of untyped locals to one another included). *)
From Portus Require Import ImageWf ScopeFacts.

Definition local_at (l : list (name * reg)) (s : name) : Prop := exists i t, sc_get l s = Some (Local i t).
Definition fl (l : list (name * reg)) (r : reg) : Prop := forall s, reg_type r = TName s -> local_at l s.
Definition tloc (l : list (name * reg)) : Prop :=
  forall x r s, sc_get l x = Some r -> reg_type r = TName s -> (exists i, r = Local i (TName s)) /\ local_at l s.
Definition lmono (l l' : list (name * reg)) : Prop := forall s, local_at l s -> local_at l' s.

Lemma lmono_refl l : lmono l l.
Proof. intros s H. exact H. Qed.
Lemma lmono_trans a b c : lmono a b -> lmono b c -> lmono a c.
Proof. intros H1 H2 s H. auto. Qed.
Lemma fl_mono l l' r : fl l r -> lmono l l' -> fl l' r.
Proof. intros H M s Hs. auto. Qed.

Lemma tloc_insert_local l x i : tloc l -> sc_get l x = None ->
  tloc (rf_insert l x (Local i (TName x))) /\ lmono l (rf_insert l x (Local i (TName x))).
Proof.
  intros T E.
  assert (M : lmono l (rf_insert l x (Local i (TName x)))).
  { intros s (j & t & Hs). exists j, t. rewrite get_insert_other; [exact Hs|]. intros ->. congruence. }
  split; [|exact M].
  intros y r s Hy Ht. destruct (name_eqb x y) eqn:Exy.
  - apply name_eqb_eq in Exy. subst y. rewrite (get_insert_same _ _ _ E) in Hy. inversion Hy; subst r. cbn [reg_type] in Ht.
    inversion Ht; subst s. split; [eauto|]. exists i, (TName x). apply get_insert_same. exact E.
  - assert (Hne : x <> y) by (intros ->; rewrite name_eqb_refl in Exy; discriminate).
    rewrite get_insert_other in Hy by exact Hne. destruct (T _ _ _ Hy Ht) as [H1 H2]. split; [exact H1|apply M; exact H2].
Qed.

Lemma tloc_update sc s t r sc' : tloc (sc_named sc) -> local_at (sc_named sc) s ->
  (forall b, t = TName b -> local_at (sc_named sc) b) ->
  update_type sc s t = Ok (r, sc') ->
  tloc (sc_named sc') /\ lmono (sc_named sc) (sc_named sc') /\ fl (sc_named sc') r.
Proof.
  intros T (i & t0 & Gs) Ht Hu. apply update_type_spec in Hu.
  destruct Hu as ((r0 & G0 & Hr & Hty & _) & G1 & Ho & _).
  rewrite Gs in G0. inversion G0; subst r0. cbn [retype] in Hr. subst r.
  assert (M : lmono (sc_named sc) (sc_named sc')).
  { intros b (j & tb & Hb). destruct (name_eqb b s) eqn:E.
    - apply name_eqb_eq in E. subst b. exists i, t. exact G1.
    - exists j, tb. rewrite Ho; [exact Hb|]. intros ->. rewrite name_eqb_refl in E. discriminate. }
  split; [|split; [exact M|]].
  - intros y r b Hy Hb. destruct (name_eqb y s) eqn:E.
    + apply name_eqb_eq in E. subst y. rewrite G1 in Hy. inversion Hy; subst r. cbn [reg_type] in Hb. subst t.
      split; [eauto|]. apply M. apply Ht. reflexivity.
    + rewrite Ho in Hy by (intros ->; rewrite name_eqb_refl in E; discriminate).
      destruct (T _ _ _ Hy Hb) as [H1 H2]. split; [exact H1|apply M; exact H2].
  - intros b Hb. cbn [reg_type] in Hb. apply M. apply Ht. exact Hb.
Qed.

Lemma compile_expr_tloc e : forall sc is r sc', compile_expr e sc = Ok (is, r, sc') -> tloc (sc_named sc) ->
  tloc (sc_named sc') /\ lmono (sc_named sc) (sc_named sc') /\ fl (sc_named sc') r.
Proof.
  induction e as [p|c|o l IHl r0 IHr|]; intros sc is r sc' H T.
  - destruct p as [b|x|n].
    + inversion H; subst. split; [exact T|split; [apply lmono_refl|intros s Hs; discriminate Hs]].
    + cbn [compile_expr] in H. destruct (sc_get (sc_named sc) x) as [r1|] eqn:E.
      * inversion H; subst. split; [exact T|split; [apply lmono_refl|]]. intros s Hs. exact (proj2 (T _ _ _ E Hs)).
      * apply bind_ok_inv in H. destruct H as ([r1 sc1] & H1 & H). inversion H; subst.
        apply new_local_inv in H1. destruct H1 as (-> & Hnamed & _). rewrite Hnamed.
        destruct (tloc_insert_local _ _ (sc_nloc sc) T E) as [T1 M1]. split; [exact T1|split; [exact M1|]].
        intros s Hs. cbn [reg_type] in Hs. inversion Hs; subst s. exists (sc_nloc sc), (TName x). apply get_insert_same. exact E.
    + inversion H; subst. split; [exact T|split; [apply lmono_refl|intros s Hs; discriminate Hs]].
  - discriminate H.
  - apply compile_sexp_inv in H. destruct H as (is1 & lft & sc1 & is2 & rgt & sc2 & H1 & H2 & H3).
    destruct (IHl _ _ _ _ H1 T) as (T1 & M1 & F1). destruct (IHr _ _ _ _ H2 T1) as (T2 & M2 & F2).
    pose proof (lmono_trans _ _ _ M1 M2) as M12.
    destruct (is_valop o) eqn:Vo.
    + apply lower_tail_valop in H3; auto. destruct H3 as (-> & _ & Hnm & _). rewrite Hnm.
      split; [exact T2|split; [exact M12|]]. intros s Hs. cbn [reg_type] in Hs. unfold tmp_ty in Hs. destruct (is_arith o); discriminate Hs.
    + destruct (is_condop o) eqn:Co.
      * apply lower_tail_condop in H3; auto. destruct H3 as (-> & _ & ->).
        split; [exact T2|split; [exact M12|intros s Hs; discriminate Hs]].
      * destruct o; try discriminate Vo; try discriminate Co; [|discriminate H3].
        apply lower_tail_bind in H3. destruct H3 as (lft' & Hup & -> & _).
        destruct Hup as [(s & Hs & Hu)|(_ & -> & ->)].
        -- destruct (tloc_update _ _ _ _ _ T2 (M2 _ (F1 _ Hs)) F2 Hu) as (T3 & M3 & F3).
           split; [exact T3|split; [exact (lmono_trans _ _ _ M12 M3)|exact F3]].
        -- split; [exact T2|split; [exact M12|exact (fl_mono _ _ _ F1 M2)]].
  - discriminate H.
Qed.

Lemma compile_body_tloc es : forall sc is sc', compile_body es sc = Ok (is, sc') -> tloc (sc_named sc) -> tloc (sc_named sc').
Proof.
  induction es as [|e r IH]; intros sc is sc' H T; cbn [compile_body] in H; [inversion H; subst; exact T|].
  destruct e as [p|c|o l r0|].
  all: try (apply bind_ok_inv in H; destruct H as ([[is1 r1] sc1] & H1 & H);
            apply bind_ok_inv in H; destruct H as ([rest sc2] & H2 & H); inversion H; subst;
            destruct (compile_expr_tloc _ _ _ _ _ H1 T) as (T1 & _ & _); eapply IH; eauto).
  eapply IH; eauto.
Qed.

Lemma compile_flag_tloc e sc is sc' : compile_flag e sc = Ok (is, sc') -> tloc (sc_named sc) -> tloc (sc_named sc').
Proof.
  intros H T. apply compile_flag_inv in H. destruct H as (is0 & res & fr & C0 & _).
  exact (proj1 (compile_expr_tloc _ _ _ _ _ C0 T)).
Qed.

Lemma compile_events_tloc evs : forall sc idx devs is sc', compile_events evs sc idx = Ok (devs, is, sc') ->
  tloc (sc_named sc) -> tloc (sc_named sc').
Proof.
  induction evs as [|ev r IH]; intros sc idx devs is sc' H T; cbn [compile_events] in H; [inversion H; subst; exact T|].
  apply bind_ok_inv in H. destruct H as ([fi sc1] & Hf & H).
  apply bind_ok_inv in H. destruct H as ([bi sc2] & Hb & H).
  apply bind_ok_inv in H. destruct H as ([[evs' is'] sc3] & Hr & H). inversion H; subst.
  eapply IH; [exact Hr|]. eapply compile_body_tloc; [exact Hb|]. eapply compile_flag_tloc; eauto.
Qed.

(* before the events are lowered no register carries a name at all *)
Definition no_tname (l : list (name * reg)) : Prop := Forall (fun kv => tname_free (reg_type (snd kv))) l.

Lemma no_tname_get l x r : no_tname l -> sc_get l x = Some r -> tname_free (reg_type r).
Proof.
  intros H Hg. unfold no_tname in H. rewrite Forall_forall in H.
  assert (Hin : In (x, r) l).
  { clear H. induction l as [|[k v] t IH]; cbn [sc_get] in Hg; [discriminate|].
    destruct (name_eqb k x) eqn:E; [apply name_eqb_eq in E; inversion Hg; subst; left; reflexivity|right; auto]. }
  exact (H _ Hin).
Qed.

Lemma no_tname_tloc l : no_tname l -> tloc l.
Proof. intros H x r s Hx Hs. pose proof (no_tname_get _ _ _ H Hx) as Hf. rewrite Hs in Hf. destruct Hf. Qed.

Lemma no_tname_insert l n r : no_tname l -> tname_free (reg_type r) -> no_tname (rf_insert l n r).
Proof.
  unfold no_tname. induction l as [|[k v] t IH]; intros H Hr; cbn [rf_insert].
  - constructor; [exact Hr|constructor].
  - inversion H as [|? ? Hv Ht]; subst. destruct (name_ltb k n); [constructor; [exact Hv|apply IH; auto]|constructor; [exact Hr|exact H]].
Qed.

Lemma no_tname_update l n t : forall r l', no_tname l -> tname_free t -> rf_update_type l n t = Ok (r, l') -> no_tname l'.
Proof.
  unfold no_tname. induction l as [|[k v] rest IH]; intros r l' H Ht Hu; cbn [rf_update_type] in Hu; [discriminate|].
  inversion H as [|? ? Hv Hrest]; subst. destruct (name_eqb k n).
  - destruct v; try discriminate Hu; inversion Hu; subst; constructor; auto.
  - apply bind_ok_inv in Hu. destruct Hu as ([r1 rest'] & H1 & Hu). inversion Hu; subst. constructor; [exact Hv|eapply IH; eauto].
Qed.

Lemma apply_updates_no_tname ups : forall sc, no_tname (sc_named sc) -> no_tname (sc_named (apply_updates ups sc)).
Proof.
  induction ups as [|[n v] r IH]; intros sc T; cbn [apply_updates]; [exact T|].
  destruct (update_type sc n (TNum (Some v))) as [[r1 sc1]| |] eqn:Hu; auto.
  apply IH. unfold update_type in Hu. apply bind_ok_inv in Hu. destruct Hu as ([r2 l'] & H1 & Hu). inversion Hu; subst. cbn [sc_named].
  eapply no_tname_update; eauto. exact I.
Qed.

Lemma declare_no_tname (mk : scope -> bool -> name -> ty -> outcome (reg * scope)) :
  (forall sc v n t r sc', tname_free t -> no_tname (sc_named sc) -> mk sc v n t = Ok (r, sc') -> no_tname (sc_named sc')) ->
  forall ds sc sc', Forall decl_ok ds -> declare mk ds sc = Ok sc' -> no_tname (sc_named sc) -> no_tname (sc_named sc').
Proof.
  intros Hmk. induction ds as [|[[v n] t] r IH]; intros sc sc' Hd H T; cbn [declare] in H; [inversion H; subst; auto|].
  inversion Hd as [|? ? [Hn Ht] Hr]; subst. cbn in Hn, Ht.
  apply bind_ok_inv in H. destruct H as ([r1 sc1] & H1 & H).
  eapply IH; eauto.
Qed.

Lemma new_report_no_tname sc v n t r sc' : tname_free t -> no_tname (sc_named sc) -> new_report sc v n t = Ok (r, sc') -> no_tname (sc_named sc').
Proof.
  unfold new_report. intros Ht T. destruct (255 <=? sc_nperm sc); [discriminate|]. intros H. inversion H; subst. cbn [sc_named].
  apply no_tname_insert; [exact T|exact Ht].
Qed.

Lemma new_control_no_tname sc v n t r sc' : tname_free t -> no_tname (sc_named sc) -> new_control sc v n t = Ok (r, sc') -> no_tname (sc_named sc').
Proof.
  unfold new_control. intros Ht T. destruct (255 <=? sc_nctl sc); [discriminate|]. intros H. inversion H; subst. cbn [sc_named].
  apply no_tname_insert; [exact T|exact Ht].
Qed.

Lemma no_tname_new : no_tname (sc_named scope_new).
Proof. unfold no_tname. vm_compute. repeat (constructor; [exact I|]). constructor. Qed.

Lemma new_with_scope_no_tname cps evs sc0 : new_with_scope cps = inl (Ok (evs, sc0)) -> no_tname (sc_named sc0).
Proof.
  unfold new_with_scope.
  destruct (p_defs (parse_fuel cps) cps) as [decls rest| | |] eqn:Ed; try discriminate.
  destruct (declare new_report _ scope_new) as [sc1| |] eqn:D1; try discriminate.
  destruct (declare new_control _ sc1) as [sc2| |] eqn:D2; try discriminate.
  destruct (p_events (parse_fuel cps) rest) as [es rest'| | |] eqn:Ee; try discriminate.
  destruct rest'; try discriminate. intros H. inversion H; subst; clear H.
  pose proof (p_defs_decls _ _ _ _ Ed) as Hd.
  pose proof (declare_no_tname new_report new_report_no_tname _ _ _ (Forall_filter_keep _ _ _ Hd) D1 no_tname_new) as T1.
  exact (declare_no_tname new_control new_control_no_tname _ _ _ (Forall_filter_keep _ _ _ Hd) D2 T1).
Qed.

(* the returned scope: only locals wait for a type, and what they wait for is a local *)
Theorem returned_scope_names_only_on_locals src ups b sc :
  compile src ups = inl (Ok (b, sc)) ->
  forall x r s, sc_get (sc_named sc) x = Some r -> reg_type r = TName s ->
    (exists i, r = Local i (TName s)) /\ exists j t, sc_get (sc_named sc) s = Some (Local j t).
Proof.
  intros Hc. unfold compile in Hc. destruct (utf8_decode src) as [cps|]; [|discriminate].
  destruct (new_with_scope cps) as [[[evs sc0]| |]|] eqn:Hn; try discriminate.
  assert (Hp : compile_prog evs (apply_updates ups sc0) = Ok (b, sc)) by (inversion Hc; reflexivity). clear Hc.
  pose proof (no_tname_tloc _ (apply_updates_no_tname ups _ (new_with_scope_no_tname _ _ _ Hn))) as T.
  unfold compile_prog in Hp. apply bind_ok_inv in Hp. destruct Hp as ([[devs eis] scF] & Hev & Hp). inversion Hp; subst b scF; clear Hp.
  exact (compile_events_tloc _ _ _ _ _ _ Hev T).
Qed.

(* so a declared variable's register carries a literal initial value or none *)
Corollary declared_variables_keep_declared_types src ups b sc :
  compile src ups = inl (Ok (b, sc)) ->
  forall x r, sc_get (sc_named sc) x = Some r ->
    match r with Local _ _ => True | _ => tname_free (reg_type r) end.
Proof.
  intros Hc x r Hx. destruct (reg_type r) eqn:Et; try (destruct r; exact I).
  destruct (returned_scope_names_only_on_locals _ _ _ _ Hc _ _ _ Hx Et) as ((i & ->) & _). exact I.
Qed.
