(* C20, acceptance: a program of the documented grammar that is well typed and within the
   register limits is accepted by lowering and by the encoder.  Part 1: the link between the
   typing environment and the scope that makes lowering succeed, and expressions. *)
From Portus Require Export CompileFacts ImageWf SimExpr Layout.
From Portus Require Import ScopeFacts TotalFacts ScopeInv.
From Coq Require Import ZArith ZifyN ZifyNat ZifyBool.

Definition vty_of (t : ty) : option vty :=
  match t with TNum _ => Some VNum | TBool _ => Some VBool | _ => None end.

Definition class_ok (k : vclass) (r : reg) : Prop :=
  match k, r with
  | KReport, Report _ _ _ | KControl, Control _ _ _ | KLocal, Local _ _
  | KImplicit, Implicit _ _ | KPrim, Primitive _ _ => True
  | _, _ => False
  end.

(* a register the encoder will accept once the counters are within the datapath's files *)
Definition enc_ok (sc : scope) (r : reg) : Prop :=
  match r with
  | Report i _ _ => i < sc_nperm sc
  | Control i _ _ => i < sc_nctl sc
  | Local i _ => i < sc_nloc sc
  | Tmp i _ => i < sc_ntmp sc
  | Implicit i _ => i <= 5
  | Primitive i _ => i <= 15
  | ImmNum n => lit_ok n = true
  | ImmBool _ => True
  | RNone => False
  end.

Definition cle (a b : scope) : Prop :=
  sc_nperm b = sc_nperm a /\ sc_nctl b = sc_nctl a /\ sc_nloc a <= sc_nloc b /\ sc_ntmp a <= sc_ntmp b.

Lemma cle_refl a : cle a a.
Proof. unfold cle. repeat split; lia. Qed.

Lemma cle_trans a b c : cle a b -> cle b c -> cle a c.
Proof. unfold cle. intros (A1 & A2 & A3 & A4) (B1 & B2 & B3 & B4). repeat split; try congruence; lia. Qed.

Lemma enc_ok_mono a b r : cle a b -> enc_ok a r -> enc_ok b r.
Proof. unfold cle. intros (A1 & A2 & A3 & A4). destruct r; cbn [enc_ok]; try tauto; try lia. Qed.

Definition ienc (sc : scope) (i : instr) : Prop :=
  enc_ok sc (i_res i) /\ enc_ok sc (i_left i) /\ enc_ok sc (i_right i) /\ i_op i <> OAnd /\ i_op i <> OOr.

Lemma ienc_mono a b i : cle a b -> ienc a i -> ienc b i.
Proof. intros H (H1 & H2 & H3 & H4). repeat split; eauto using enc_ok_mono; tauto. Qed.

Lemma Forall_ienc_mono a b is : cle a b -> Forall (ienc a) is -> Forall (ienc b) is.
Proof. intros H. apply Forall_impl. intros i. apply ienc_mono. exact H. Qed.

(* the typing environment against the scope: a typed name has a register of that type and class
   within the files; an untyped (non-reserved) name is absent or the fresh local of an enclosing
   bind whose type is not known yet *)
Definition J (g : tenv) (sc : scope) : Prop :=
  (forall x t k, tget g x = Some (t, k) ->
     exists r, sc_get (sc_named sc) x = Some r /\ vty_of (reg_type r) = Some t /\ class_ok k r /\ enc_ok sc r) /\
  (forall x, nd x -> tget g x = None ->
     sc_get (sc_named sc) x = None \/ exists i, sc_get (sc_named sc) x = Some (Local i (TName x)) /\ i < sc_nloc sc).

Lemma J_counters g a b : sc_named b = sc_named a -> cle a b -> J g a -> J g b.
Proof.
  intros Hn Hc [J1 J2]. split.
  - intros x t k H. destruct (J1 _ _ _ H) as (r & G & V & K & E). exists r. rewrite Hn. eauto using enc_ok_mono.
  - intros x Hx H. rewrite Hn. destruct (J2 _ Hx H) as [A|(i & A & B)]; [left; exact A|right].
    exists i. split; [exact A|]. destruct Hc as (_ & _ & Hl & _). lia.
Qed.

(* ---------- how many more locals there can be ---------- *)

Section Locals.
  Variable T : list name.     (* the names that may become locals *)
  Variable cap : N.

  Definition absent (sc : scope) (x : name) : bool :=
    match sc_get (sc_named sc) x with None => true | Some _ => false end.
  Definition rem (sc : scope) : nat := length (filter (absent sc) T).
  Definition C (sc : scope) : Prop := sc_nloc sc + N.of_nat (rem sc) <= cap.

  Lemma filter_shrinks {A} (p q : A -> bool) l x : (forall y, q y = true -> p y = true) ->
    In x l -> p x = true -> q x = false -> (S (length (filter q l)) <= length (filter p l))%nat.
  Proof.
    intros Hpq. induction l as [|y t IH]; intros Hin Hp Hq; [destruct Hin|].
    cbn [filter]. destruct Hin as [->|Hin].
    - rewrite Hp, Hq. cbn [length]. apply le_n_S.
      clear IH. induction t as [|z t IH]; [cbn; lia|]. cbn [filter].
      destruct (q z) eqn:Eq; [rewrite (Hpq _ Eq); cbn [length]; lia|destruct (p z); cbn [length]; lia].
    - specialize (IH Hin Hp Hq). destruct (q y) eqn:Eq; [rewrite (Hpq _ Eq); cbn [length]; lia|destruct (p y); cbn [length]; lia].
  Qed.

  Lemma C_same_named a b : sc_named b = sc_named a -> sc_nloc b = sc_nloc a -> C a -> C b.
  Proof. unfold C, rem, absent. intros -> ->. auto. Qed.

  Lemma C_same_presence a b : (forall y, absent b y = absent a y) -> sc_nloc b = sc_nloc a -> C a -> C b.
  Proof.
    unfold C, rem. intros H ->. rewrite (filter_ext _ _ H). auto.
  Qed.

  (* a new local whose name is in T *)
  Lemma C_new_local sc x r sc1 : C sc -> In x T -> sc_get (sc_named sc) x = None ->
    new_local sc x (TName x) = Ok (r, sc1) -> C sc1.
  Proof.
    unfold C. intros HC Hin Hx Hn.
    destruct (new_local_ext _ _ _ _ _ Hn Hx) as (_ & Hg & Ho).
    apply new_local_inv in Hn. destruct Hn as (_ & _ & _ & Hl & _).
    assert (Hs : (S (rem sc1) <= rem sc)%nat).
    { unfold rem. apply (filter_shrinks (absent sc) (absent sc1) T x).
      - intros y Hy. unfold absent in *. destruct (name_eqb y x) eqn:E.
        + apply name_eqb_eq in E. subst y. rewrite Hg in Hy. discriminate Hy.
        + rewrite Ho in Hy; [exact Hy|]. intros ->. rewrite name_eqb_refl in E. discriminate E.
      - exact Hin.
      - unfold absent. rewrite Hx. reflexivity.
      - unfold absent. rewrite Hg. reflexivity. }
    lia.
  Qed.

  Lemma C_room sc x : C sc -> In x T -> sc_get (sc_named sc) x = None -> sc_nloc sc < cap.
  Proof.
    unfold C. intros HC Hin Hx.
    assert ((1 <= rem sc)%nat).
    { unfold rem. clear HC. induction T as [|y t IH]; [destruct Hin|]. cbn [filter].
      destruct Hin as [->|Hin]; [unfold absent at 1; rewrite Hx; cbn [length]; lia|].
      specialize (IH Hin). destruct (absent sc y); cbn [length]; lia. }
    lia.
  Qed.
End Locals.

(* ---------- typing, by shape, with everything it checks ---------- *)

Lemma vty_eqb_eq a b : vty_eqb a b = true -> a = b.
Proof. destruct a, b; cbn; congruence. Qed.

Lemma ty_op_full g o l r t g' : generic o l = true -> ty_expr g (Sexp o l r) = Some (t, g') ->
  is_valop o = true /\ exists tl g1 tr, ty_expr g l = Some (tl, g1) /\ ty_expr g1 r = Some (tr, g') /\
    (if is_logic o then tl = VBool /\ tr = VBool /\ t = VBool
     else tl = VNum /\ tr = VNum /\ t = if is_cmp o then VBool else VNum).
Proof.
  intros G H.
  assert (H' : (if is_valop o then
                 match ty_expr g l with
                 | Some (tl, g1) =>
                   match ty_expr g1 r with
                   | Some (tr, g2) =>
                     if is_logic o then (if vty_eqb tl VBool && vty_eqb tr VBool then Some (VBool, g2) else None)
                     else if vty_eqb tl VNum && vty_eqb tr VNum then Some ((if is_cmp o then VBool else VNum), g2) else None
                   | None => None
                   end
                 | None => None
                 end
               else None) = Some (t, g')).
  { destruct o; try exact H. destruct l as [[b|x|m]| |ol l1 l2|]; try exact H; [discriminate G|]. destruct ol; try exact H. discriminate G. }
  clear H. destruct (is_valop o); try discriminate H'. split; [reflexivity|].
  destruct (ty_expr g l) as [[tl g1]|] eqn:E1; try discriminate H'.
  destruct (ty_expr g1 r) as [[tr g2]|] eqn:E2; try discriminate H'.
  exists tl, g1, tr.
  destruct (is_logic o).
  - destruct (vty_eqb tl VBool) eqn:A; [|discriminate H']. destruct (vty_eqb tr VBool) eqn:B; [|discriminate H'].
    inversion H'; subst. apply vty_eqb_eq in A, B. auto.
  - destruct (vty_eqb tl VNum) eqn:A; [|discriminate H']. destruct (vty_eqb tr VNum) eqn:B; [|discriminate H'].
    inversion H'; subst. apply vty_eqb_eq in A, B. auto.
Qed.

Lemma ty_bind_full g x v t g' : plain v -> ty_expr g (Sexp OBind (Atom (PName x)) v) = Some (t, g') ->
  exists g1, ty_expr g v = Some (t, g1) /\
    ((exists k, tget g1 x = Some (t, k) /\ k <> KPrim /\ g' = g1) \/
     (tget g1 x = None /\ g' = (x, (t, KLocal)) :: g1)).
Proof.
  intros Pl H.
  assert (H' : match ty_expr g v with
               | Some (t, g1) =>
                 match tget g1 x with
                 | Some (_, KPrim) => None
                 | Some (tx, _) => if vty_eqb tx t then Some (t, g1) else None
                 | None => Some (t, (x, (t, KLocal)) :: g1)
                 end
               | None => None
               end = Some (t, g')).
  { destruct v as [p|c|o l r|]; try exact H. destruct o; try discriminate Pl; exact H. }
  clear H. destruct (ty_expr g v) as [[t1 g1]|]; try discriminate H'.
  destruct (tget g1 x) as [[tx k]|] eqn:E.
  - destruct k; try discriminate H'; destruct (vty_eqb tx t1) eqn:V; try discriminate H'; inversion H'; subst;
      apply vty_eqb_eq in V; subst; eexists; split; eauto; left; eexists; repeat split; eauto; discriminate.
  - inversion H'; subst. eexists; split; eauto.
Qed.

Lemma ty_cond_full g x o c v t g' : is_condop o = true ->
  ty_expr g (Sexp OBind (Atom (PName x)) (Sexp o c v)) = Some (t, g') ->
  exists tc g1, ty_expr g c = Some (tc, g1) /\ ty_expr g1 v = Some (t, g') /\
    exists k, tget g' x = Some (t, k) /\ (k = KReport \/ k = KControl).
Proof.
  intros Co H. destruct o; try discriminate Co; cbn [ty_expr] in H.
  - destruct (ty_expr g c) as [[[|] g1]|] eqn:E1; try discriminate H.
    destruct (ty_expr g1 v) as [[tv g2]|] eqn:E2; try discriminate H.
    destruct (tget g2 x) as [[tx [| | | |]]|] eqn:E3; try discriminate H;
      destruct (vty_eqb tx tv) eqn:V; try discriminate H; inversion H; subst; apply vty_eqb_eq in V; subst;
      do 2 eexists; repeat split; eauto.
  - destruct (ty_expr g c) as [[[|] g1]|] eqn:E1; try discriminate H.
    destruct (ty_expr g1 v) as [[tv g2]|] eqn:E2; try discriminate H.
    destruct (tget g2 x) as [[tx [| | | |]]|] eqn:E3; try discriminate H;
      destruct (vty_eqb tx tv) eqn:V; try discriminate H; inversion H; subst; apply vty_eqb_eq in V; subst;
      do 2 eexists; repeat split; eauto.
  - destruct (ty_expr g c) as [[[|] g1]|] eqn:E1; try discriminate H.
    destruct (ty_expr g1 v) as [[[|] g2]|] eqn:E2; try discriminate H.
    destruct (tget g2 x) as [[[|] [| | | |]]|] eqn:E3; try discriminate H; inversion H; subst;
      do 2 eexists; repeat split; eauto.
Qed.

(* ---------- syntactic counts ---------- *)

Fixpoint valops (e : expr) : nat :=
  match e with
  | Sexp o l r => ((if is_valop o then 1 else 0) + valops l + valops r)%nat
  | _ => 0%nat
  end.

Fixpoint targets (e : expr) : list name :=
  match e with
  | Sexp OBind (Atom (PName x)) v => x :: targets v
  | Sexp _ l r => targets l ++ targets r
  | _ => []
  end.

Lemma targets_bind x v : targets (Sexp OBind (Atom (PName x)) v) = x :: targets v.
Proof. reflexivity. Qed.

Lemma targets_op o l r : generic o l = true -> targets (Sexp o l r) = targets l ++ targets r.
Proof. intros G. destruct o; try reflexivity. destruct l as [[b|x|m]| |ol l1 l2|]; try reflexivity; try discriminate G. all: try (destruct ol; try reflexivity; discriminate G). Qed.

Lemma targets_condop o c v : is_condop o = true -> targets (Sexp o c v) = targets c ++ targets v.
Proof. intros Co. destruct o; try discriminate Co; reflexivity. Qed.

Lemma valops_condop o c v : is_condop o = true -> valops (Sexp o c v) = (valops c + valops v)%nat.
Proof. intros Co. destruct o; try discriminate Co; reflexivity. Qed.

Lemma is_valop_condop o : is_condop o = true -> is_valop o = false.
Proof. destruct o; cbn; congruence. Qed.

(* ---------- the steps of lowering that can refuse, made to succeed ---------- *)

Lemma is_tnum_vty r : vty_of (reg_type r) = Some VNum -> is_tnum (reg_type r) = true.
Proof. destruct (reg_type r); cbn; congruence. Qed.

Lemma is_tbool_vty r : vty_of (reg_type r) = Some VBool -> is_tbool (reg_type r) = true.
Proof. destruct (reg_type r); cbn; congruence. Qed.

Lemma vty_not_tname r t : vty_of (reg_type r) = Some t -> forall s, reg_type r <> TName s.
Proof. intros H s E. rewrite E in H. discriminate H. Qed.

Lemma enc_ok_not_none sc r : enc_ok sc r -> r <> RNone.
Proof. intros H ->. exact H. Qed.

Lemma new_local_ok sc n t : sc_nloc sc < 255 ->
  new_local sc n t = Ok (Local (sc_nloc sc) t,
                         mkScope (rf_insert (sc_named sc) n (Local (sc_nloc sc) t)) (sc_nctl sc) (sc_nloc sc + 1) (sc_nperm sc) (sc_ntmp sc)).
Proof. intros H. unfold new_local. replace (255 <=? sc_nloc sc) with false by (symmetry; apply N.leb_gt; exact H). reflexivity. Qed.

Lemma rf_update_type_succeeds l x t : forall r0, sc_get l x = Some r0 ->
  (match r0 with Report _ _ _ | Local _ _ | Control _ _ _ => True | _ => False end) ->
  exists l', rf_update_type l x t = Ok (retype r0 t, l').
Proof.
  induction l as [|[k v] rest IH]; intros r0 Hg Hc; cbn [sc_get] in Hg; [discriminate|].
  cbn [rf_update_type]. destruct (name_eqb k x).
  - inversion Hg; subst v. destruct r0; try contradiction; eexists; reflexivity.
  - destruct (IH _ Hg Hc) as (l' & ->). cbn [bind]. eexists; reflexivity.
Qed.

Lemma update_type_succeeds sc x t r0 : sc_get (sc_named sc) x = Some r0 ->
  (match r0 with Report _ _ _ | Local _ _ | Control _ _ _ => True | _ => False end) ->
  exists sc', update_type sc x t = Ok (retype r0 t, sc').
Proof.
  intros Hg Hc. unfold update_type. destruct (rf_update_type_succeeds _ _ t _ Hg Hc) as (l' & ->). cbn [bind]. eexists; reflexivity.
Qed.

Lemma lower_tail_valop_ok o instrs lft rgt sc2 : is_valop o = true ->
  (if is_logic o then is_tbool (reg_type lft) && is_tbool (reg_type rgt)
   else is_tnum (reg_type lft) && is_tnum (reg_type rgt)) = true ->
  lower_tail o instrs lft rgt sc2 =
  Ok (instrs ++ [mkInstr (Tmp (sc_ntmp sc2 mod 256) (tmp_ty o)) (mach_op o) lft rgt], Tmp (sc_ntmp sc2 mod 256) (tmp_ty o),
      mkScope (sc_named sc2) (sc_nctl sc2) (sc_nloc sc2) (sc_nperm sc2) (sc_ntmp sc2 + 1)).
Proof.
  intros Vo H. unfold lower_tail, new_tmp. destruct o; try discriminate Vo; cbn [is_logic] in H; rewrite H; reflexivity.
Qed.

Lemma lower_tail_condop_ok o instrs lft rgt sc2 : is_condop o = true ->
  lower_tail o instrs lft rgt sc2 = Ok (instrs ++ [mkInstr RNone o lft rgt], RNone, sc2).
Proof. intros Co. destruct o; try discriminate Co; reflexivity. Qed.

Definition assignable (r : reg) : Prop :=
  match r with Implicit _ _ | Control _ _ _ | Local _ _ | Report _ _ _ => True | _ => False end.

Lemma lower_tail_bind_ok instrs lft rgt sc2 : (forall s, reg_type lft <> TName s) -> rgt <> RNone -> assignable lft ->
  lower_tail OBind instrs lft rgt sc2 = Ok (instrs ++ [mkInstr lft OBind lft rgt], lft, sc2).
Proof.
  intros Ht Hr Ha. unfold lower_tail.
  destruct (reg_type lft) eqn:E; try (exfalso; eapply Ht; reflexivity); cbn [bind];
    destruct lft; try contradiction; destruct rgt; try congruence; reflexivity.
Qed.

Lemma lower_tail_bind_upd instrs lft rgt sc2 s i t sc3 : reg_type lft = TName s -> rgt <> RNone ->
  update_type sc2 s (reg_type rgt) = Ok (Local i t, sc3) ->
  lower_tail OBind instrs lft rgt sc2 = Ok (instrs ++ [mkInstr (Local i t) OBind (Local i t) rgt], Local i t, sc3).
Proof.
  intros Ht Hr Hu. unfold lower_tail. rewrite Ht, Hu. cbn [bind]. destruct rgt; try congruence; reflexivity.
Qed.

Lemma lower_tail_bind_cond ins o a b lft sc2 : (forall s, reg_type lft <> TName s) ->
  (match lft with Report _ _ _ | Control _ _ _ => True | _ => False end) ->
  lower_tail OBind (ins ++ [mkInstr RNone o a b]) lft RNone sc2 = Ok (ins ++ [mkInstr lft o a b], lft, sc2).
Proof.
  intros Ht Hc. unfold lower_tail.
  assert (Hup : match reg_type lft with TName s => update_type sc2 s (reg_type RNone) | _ => Ok (lft, sc2) end = Ok (lft, sc2))
    by (destruct (reg_type lft) eqn:E; try reflexivity; exfalso; eapply Ht; reflexivity).
  rewrite Hup. cbn [bind].
  destruct lft; try contradiction; rewrite last_res_snoc; cbn [i_res]; rewrite set_last_res_snoc; reflexivity.
Qed.

Lemma dreg_local r i t0 : dreg_of r = dreg_of (Local i t0) -> exists t', r = Local i t'.
Proof.
  destruct r as [j t vol|n|b|j t|j t|j t|j t vol|j t|]; cbn [dreg_of]; intros H; try destruct vol; try discriminate H.
  inversion H; subst. eauto.
Qed.

(* a bind whose target is a name or, again, such a bind: what it leaves as its result is a register a
   further bind can store into *)
Fixpoint chain (e : expr) : Prop :=
  match e with
  | Atom (PName _) => True
  | Sexp OBind a _ => chain a
  | _ => False
  end.

Lemma bind_target_chain e : forall x, bind_target e = Some x -> chain e.
Proof.
  induction e as [p|c|o l IHl r IHr|]; intros x H; try discriminate H.
  destruct o; try discriminate H. destruct l as [[b|y|m]| |ol l1 l2|]; try discriminate H; [exact I|].
  destruct ol; try discriminate H. cbn [chain]. cbn [bind_target] in H. eapply IHl. exact H.
Qed.

Lemma chain_not_tmp e : forall g sc is r sc', chain e -> J g sc -> enames nd e ->
  compile_expr e sc = Ok (is, r, sc') -> is_tmp_reg r = false.
Proof.
  induction e as [p|c|o l IHl r0 IHr|]; intros g sc is r sc' Hc HJ Hn H; try destruct Hc.
  - destruct p as [b|x|n]; try destruct Hc. cbn [enames] in Hn.
    apply compile_atom_name in H. destruct H as (_ & _ & _ & _ & [(G0 & _)|(_ & _ & Hs & _)]).
    + destruct HJ as [J1 J2]. destruct (tget g x) as [[tx kx]|] eqn:Eg.
      * destruct (J1 _ _ _ Eg) as (r1 & G1 & _ & K & _). rewrite G0 in G1. inversion G1; subst r1.
        destruct kx, r; try contradiction; reflexivity.
      * destruct (J2 _ Hn Eg) as [A|(i & A & _)]; [congruence|]. rewrite G0 in A. inversion A; subst. reflexivity.
    + destruct r; try discriminate Hs; reflexivity.
  - destruct o; try destruct Hc. cbn [chain] in Hc. cbn [enames] in Hn. destruct Hn as [Hnl _].
    apply compile_sexp_inv in H. destruct H as (is1 & lft & sc1 & is2 & rgt & sc2 & H1 & H2 & H3).
    pose proof (IHl _ _ _ _ _ Hc HJ Hnl H1) as Hl.
    apply lower_tail_bind in H3. destruct H3 as (lft' & [(s & _ & Hu)|(_ & -> & _)] & -> & _).
    + eapply update_type_not_tmp; eauto.
    + exact Hl.
Qed.

Lemma slot_assignable r : (match slot r with Some _ => True | None => False end) -> is_tmp_reg r = false -> assignable r.
Proof. destruct r; cbn; intros H1 H2; try contradiction; try discriminate; exact I. Qed.

Lemma bind_result_assignable a b g sc is r sc' : chain (Sexp OBind a b) -> J g sc -> enames nd (Sexp OBind a b) ->
  compile_expr (Sexp OBind a b) sc = Ok (is, r, sc') -> assignable r.
Proof.
  intros Hc HJ Hn H. pose proof (chain_not_tmp _ _ _ _ _ _ Hc HJ Hn H) as Hnt.
  apply compile_sexp_inv in H. destruct H as (is1 & lft & sc1 & is2 & rgt & sc2 & _ & _ & H3).
  apply lower_tail_bind in H3. destruct H3 as (lft' & _ & -> & [(_ & (i & t & v & [-> | ->]) & _)|(_ & Hs)]); try exact I.
  apply slot_assignable; assumption.
Qed.

(* ---------- expressions ---------- *)

Ltac splits := repeat match goal with |- _ /\ _ => split end.

Section Accept.
  Variable T : list name.
  Variable cap : N.
  Hypothesis cap_small : cap <= 254.

  (* the target of a bind: a typed variable, the pending local of an enclosing bind, or a new local *)
  Lemma accept_target g sc x : J g sc -> C T cap sc -> nd x -> (In x T \/ tget g x <> None) ->
    exists lft sc1, compile_expr (Atom (PName x)) sc = Ok ([], lft, sc1) /\ J g sc1 /\ C T cap sc1 /\ cle sc sc1 /\
      sc_ntmp sc1 = sc_ntmp sc /\ sext (sc_named sc) (sc_named sc1) /\ sc_get (sc_named sc1) x = Some lft /\ enc_ok sc1 lft /\
      ((exists tx kx, tget g x = Some (tx, kx) /\ vty_of (reg_type lft) = Some tx /\ class_ok kx lft) \/
       (tget g x = None /\ exists i, lft = Local i (TName x))).
  Proof.
    intros HJ HC Hx HT. pose proof HJ as [J1 J2]. cbn [compile_expr].
    destruct (tget g x) as [[tx kx]|] eqn:Eg.
    - destruct (J1 _ _ _ Eg) as (r & G & V & K & E). rewrite G.
      exists r, sc. splits; auto using cle_refl, sext_refl. left. eauto.
    - destruct (J2 _ Hx Eg) as [Gx|(i & Gx & Hi)].
      + rewrite Gx. destruct HT as [HT|HT]; [|congruence].
        pose proof (C_room T cap sc x HC HT Gx) as Hroom.
        rewrite (new_local_ok sc x (TName x)) by lia. cbn [bind].
        set (sc1 := mkScope (rf_insert (sc_named sc) x (Local (sc_nloc sc) (TName x))) (sc_nctl sc) (sc_nloc sc + 1) (sc_nperm sc) (sc_ntmp sc)).
        assert (Hnl : new_local sc x (TName x) = Ok (Local (sc_nloc sc) (TName x), sc1)) by (apply new_local_ok; lia).
        destruct (new_local_ext _ _ _ _ _ Hnl Gx) as (Hsx & Hgx & Hother).
        assert (Hcle : cle sc sc1) by (unfold cle, sc1; cbn; repeat split; lia).
        exists (Local (sc_nloc sc) (TName x)), sc1. split; [reflexivity|]. split; [|split; [|split; [|split; [|split; [|split; [|split]]]]]].
        * split.
          -- intros y t k Hy. destruct (J1 _ _ _ Hy) as (r & G & V & K & E). exists r.
             rewrite Hother by (intros ->; congruence). eauto using enc_ok_mono.
          -- intros y Hy Hty. destruct (name_eqb y x) eqn:Eyx.
             ++ apply name_eqb_eq in Eyx. subst y. right. exists (sc_nloc sc). split; [exact Hgx|]. unfold sc1; cbn; lia.
             ++ assert (y <> x) by (intros ->; rewrite name_eqb_refl in Eyx; discriminate). rewrite Hother by assumption.
                destruct (J2 _ Hy Hty) as [A|(j & A & B)]; [left; exact A|right; exists j; split; [exact A|unfold sc1; cbn; lia]].
        * eapply C_new_local; eauto.
        * exact Hcle.
        * reflexivity.
        * exact Hsx.
        * exact Hgx.
        * unfold sc1; cbn; lia.
        * right. split; [reflexivity|eauto].
      + rewrite Gx. exists (Local i (TName x)), sc. splits; auto using cle_refl, sext_refl.
        right. split; [reflexivity|eauto].
  Qed.

  Lemma mach_op_enc o : is_valop o = true -> mach_op o <> OAnd /\ mach_op o <> OOr.
  Proof. destruct o; cbn; intros H; try discriminate H; split; discriminate. Qed.

  Lemma condop_enc o : is_condop o = true -> o <> OAnd /\ o <> OOr.
  Proof. destruct o; cbn; intros H; try discriminate H; split; discriminate. Qed.

  Lemma tmp_vty o t : is_valop o = true ->
    (if is_logic o then t = VBool else t = if is_cmp o then VBool else VNum) -> vty_of (tmp_ty o) = Some t.
  Proof. destruct o; cbn; intros H Ht; try discriminate H; subst; reflexivity. Qed.

  Theorem accept_expr e : forall g t g' sc,
    ty_expr g e = Some (t, g') -> enames nd e ->
    (forall x, In x (targets e) -> In x T \/ tget g x <> None) ->
    J g sc -> C T cap sc ->
    exists is r sc', compile_expr e sc = Ok (is, r, sc') /\ J g' sc' /\ C T cap sc' /\ cle sc sc' /\
      sc_ntmp sc' = sc_ntmp sc + N.of_nat (valops e) /\
      vty_of (reg_type r) = Some t /\ enc_ok sc' r /\ Forall (ienc sc') is /\
      sext (sc_named sc) (sc_named sc').
  Proof.
    induction e as [p|c| |x o c v Co IHc IHv|x v Pl IHv|u1 u2 v IHt IHv|o l r0 G IHl IHr] using expr_shape_ind;
      intros g t g' sc Ht Hn HT HJ HC.
    - destruct p as [b|x|n].
      + cbn in Ht. inversion Ht; subst. exists [], (ImmBool b), sc.
        splits; auto using cle_refl, sext_refl. cbn. lia.
      + cbn [ty_expr] in Ht. destruct (tget g x) as [[tx kx]|] eqn:E; [|discriminate Ht]. inversion Ht; subst; clear Ht.
        destruct HJ as [J1 J2]. destruct (J1 _ _ _ E) as (r & Gx & V & K & En).
        exists [], r, sc. cbn [compile_expr]. rewrite Gx.
        splits; auto using cle_refl, sext_refl; [split; assumption|cbn; lia].
      + cbn [ty_expr] in Ht. destruct (lit_ok n) eqn:L; [|discriminate Ht]. inversion Ht; subst.
        exists [], (ImmNum n), sc. splits; auto using cle_refl, sext_refl. cbn. lia.
    - discriminate Ht.
    - discriminate Ht.
    - (* a conditional or ewma bound to a declared report / control variable *)
      destruct (ty_cond_target _ _ _ _ _ _ _ Co Ht) as ([tx0 kx0] & Hxg).
      apply ty_cond_full in Ht; auto. destruct Ht as (tc & g1 & H1 & H2 & k & Hx & Hk).
      assert (Hxg' : tget g' x = Some (tx0, kx0)).
      { rewrite (ty_expr_mono _ _ _ _ H2 x); [rewrite (ty_expr_mono _ _ _ _ H1 x); [exact Hxg|congruence]|].
        rewrite (ty_expr_mono _ _ _ _ H1 x); congruence. }
      rewrite Hx in Hxg'. inversion Hxg'; subst tx0 kx0; clear Hxg'.
      cbn [enames] in Hn. destruct Hn as (Hnx & Hnc & Hnv).
      rewrite targets_bind, (targets_condop _ _ _ Co) in HT.
      destruct (IHc g tc g1 sc H1 Hnc) as (is1 & rc & sc1 & C1 & J1 & HC1 & L1 & T1 & V1 & E1 & F1 & S1); auto.
      { intros y Hy. apply HT. right. apply in_or_app. left. exact Hy. }
      destruct (IHv g1 t g' sc1 H2 Hnv) as (is2 & rv & sc2 & C2 & J2 & HC2 & L2 & T2 & V2 & E2 & F2 & S2); auto.
      { intros y Hy. destruct (HT y) as [A|A]; [right; apply in_or_app; right; exact Hy|left; exact A|].
        right. rewrite (ty_expr_mono _ _ _ _ H1 y A). exact A. }
      pose proof HJ as [Ja Jb]. destruct (Ja _ _ _ Hxg) as (r0 & Gx & Vx & Kx & Ex).
      assert (Hcls : match r0 with Report _ _ _ | Control _ _ _ => True | _ => False end).
      { destruct Hk as [-> | ->]; destruct r0; try contradiction; exact I. }
      exists ((is1 ++ is2) ++ [mkInstr r0 o rc rv]), r0, sc2.
      split; [|split; [exact J2|split; [exact HC2|split; [eauto using cle_trans|split; [|split; [exact Vx|split; [|split; [|eauto using sext_trans]]]]]]]].
      + assert (Ca : compile_expr (Atom (PName x)) sc = Ok ([], r0, sc)) by (cbn [compile_expr]; rewrite Gx; reflexivity).
        rewrite compile_sexp, Ca. cbn [bind].
        rewrite compile_sexp, C1. cbn [bind]. rewrite C2. cbn [bind].
        rewrite (lower_tail_condop_ok o _ rc rv sc2 Co). cbn [bind app].
        apply lower_tail_bind_cond; [eapply vty_not_tname; exact Vx|exact Hcls].
      + cbn [valops]. rewrite (is_valop_condop o Co). cbn [is_valop is_arith is_cmp is_logic orb]. lia.
      + eapply enc_ok_mono; [|exact Ex]. eauto using cle_trans.
      + apply Forall_app. split; [apply Forall_app; split|].
        * eapply Forall_ienc_mono; [exact L2|exact F1].
        * exact F2.
        * constructor; [|constructor]. destruct (condop_enc o Co) as [A B].
          repeat split; cbn [i_res i_left i_right i_op]; auto.
          -- eapply enc_ok_mono; [|exact Ex]. eauto using cle_trans.
          -- eapply enc_ok_mono; [exact L2|exact E1].
    - (* a plain bind *)
      apply ty_bind_full in Ht; auto. destruct Ht as (g1 & H1 & Hbr).
      cbn [enames] in Hn. destruct Hn as (Hnx & Hnv). cbn [enames] in Hnx.
      rewrite targets_bind in HT.
      destruct (accept_target g sc x HJ HC Hnx (HT x (or_introl eq_refl)))
        as (lft & sc1 & Cl & Jl & HCl & Ll & Tl & Sl & Gl & El & Hl).
      destruct (IHv g t g1 sc1 H1 Hnv) as (is2 & rgt & sc2 & C2 & J2 & HC2 & L2 & T2 & V2 & E2 & F2 & S2); auto.
      { intros y Hy. apply HT. right. exact Hy. }
      pose proof (enc_ok_not_none _ _ E2) as Hrn.
      assert (Hunf : compile_expr (Sexp OBind (Atom (PName x)) v) sc = lower_tail OBind is2 lft rgt sc2).
      { rewrite compile_sexp, Cl. cbn [bind]. rewrite C2. cbn [bind app]. reflexivity. }
      rewrite Hunf.
      destruct Hl as [(tx & kx & Hgx & Vl & Kl)|(Hgx & i & ->)].
      + (* the target is typed *)
        assert (Hg1x : tget g1 x = Some (tx, kx)) by (rewrite (ty_expr_mono _ _ _ _ H1 x); congruence).
        destruct Hbr as [(k & Hk1 & Hk2 & ->)|(Hk1 & _)]; [|congruence].
        rewrite Hk1 in Hg1x. inversion Hg1x; subst tx kx; clear Hg1x.
        assert (Hasg : assignable lft) by (destruct k; try congruence; destruct lft; try contradiction; exact I).
        rewrite (lower_tail_bind_ok is2 lft rgt sc2 (vty_not_tname _ _ Vl) Hrn Hasg).
        exists (is2 ++ [mkInstr lft OBind lft rgt]), lft, sc2.
        split; [reflexivity|]. split; [exact J2|]. split; [exact HC2|]. split; [eauto using cle_trans|].
        split; [cbn [valops is_valop is_arith is_cmp is_logic orb]; lia|]. split; [exact Vl|].
        split; [eapply enc_ok_mono; [exact L2|exact El]|]. split; [|eauto using sext_trans].
        apply Forall_app. split; [exact F2|]. constructor; [|constructor].
        repeat split; cbn [i_res i_left i_right i_op]; try discriminate; auto; eapply enc_ok_mono; try exact L2; exact El.
      + (* the target is a local whose type this bind fixes *)
        destruct (S2 _ _ Gl) as (r' & G2x & Hd). apply dreg_local in Hd. destruct Hd as (t' & ->).
        destruct (update_type_succeeds sc2 x (reg_type rgt) _ G2x I) as (sc3 & Hu). cbn [retype] in Hu.
        rewrite (lower_tail_bind_upd is2 (Local i (TName x)) rgt sc2 x i (reg_type rgt) sc3 eq_refl Hrn Hu).
        pose proof (update_type_spec _ _ _ _ _ Hu) as ((r0 & _ & _ & _ & _) & G3x & Ho & N1 & N2 & N3 & N4).
        assert (Hc23 : cle sc2 sc3) by (unfold cle; repeat split; lia).
        assert (Hi : i < sc_nloc sc3) by (cbn [enc_ok] in El; destruct L2 as (_ & _ & A & _); lia).
        exists (is2 ++ [mkInstr (Local i (reg_type rgt)) OBind (Local i (reg_type rgt)) rgt]), (Local i (reg_type rgt)), sc3.
        split; [reflexivity|]. split; [|split; [|split; [eauto using cle_trans|split; [|split; [exact V2|split; [exact Hi|split]]]]]].
        * (* the link *)
          destruct J2 as [Ja Jb].
          destruct Hbr as [(k & Hk1 & Hk2 & ->)|(Hk1 & ->)].
          -- split.
             ++ intros y ty ky Hy. destruct (name_eqb y x) eqn:Eyx.
                ** apply name_eqb_eq in Eyx. subst y. rewrite Hk1 in Hy. inversion Hy; subst ty ky.
                   destruct (Ja _ _ _ Hk1) as (r2 & Gr2 & _ & Kr2 & _). rewrite G2x in Gr2. inversion Gr2; subst r2.
                   exists (Local i (reg_type rgt)). repeat split; auto.
                ** assert (y <> x) by (intros ->; rewrite name_eqb_refl in Eyx; discriminate).
                   destruct (Ja _ _ _ Hy) as (r2 & Gr2 & Vr2 & Kr2 & Er2). exists r2. rewrite Ho by assumption.
                   eauto using enc_ok_mono.
             ++ intros y Hy Hty. assert (y <> x) by (intros ->; congruence). rewrite Ho by assumption.
                destruct (Jb _ Hy Hty) as [A|(j & A & B)]; [left; exact A|right; exists j; split; [exact A|lia]].
          -- split.
             ++ intros y ty ky Hy. cbn [tget] in Hy. destruct (name_eqb x y) eqn:Exy.
                ** apply name_eqb_eq in Exy. subst y. inversion Hy; subst ty ky.
                   exists (Local i (reg_type rgt)). repeat split; auto.
                ** assert (y <> x) by (intros ->; rewrite name_eqb_refl in Exy; discriminate).
                   destruct (Ja _ _ _ Hy) as (r2 & Gr2 & Vr2 & Kr2 & Er2). exists r2. rewrite Ho by assumption.
                   eauto using enc_ok_mono.
             ++ intros y Hy Hty. cbn [tget] in Hty. destruct (name_eqb x y) eqn:Exy; [discriminate Hty|].
                assert (y <> x) by (intros ->; rewrite name_eqb_refl in Exy; discriminate). rewrite Ho by assumption.
                destruct (Jb _ Hy Hty) as [A|(j & A & B)]; [left; exact A|right; exists j; split; [exact A|lia]].
        * eapply (C_same_presence T cap sc2 sc3); [|exact N2|exact HC2].
          intros y. unfold absent. destruct (name_eqb y x) eqn:Eyx.
          -- apply name_eqb_eq in Eyx. subst y. rewrite G3x, G2x. reflexivity.
          -- rewrite Ho; [reflexivity|]. intros ->. rewrite name_eqb_refl in Eyx. discriminate.
        * cbn [valops is_valop is_arith is_cmp is_logic orb]. lia.
        * apply Forall_app. split; [eapply Forall_ienc_mono; [exact Hc23|exact F2]|]. constructor; [|constructor].
          repeat split; cbn [i_res i_left i_right i_op]; try discriminate; auto. eapply enc_ok_mono; [exact Hc23|exact E2].
        * eapply sext_trans; [exact Sl|]. eapply sext_trans; [exact S2|]. eapply update_type_ext; exact Hu.
    - (* a bind whose target is itself a bind *)
      pose proof Ht as Ht0. apply ty_nest_inv in Ht. destruct Ht as (Pl & g1 & H1 & H2).
      pose proof Hn as Hn0. cbn [enames] in Hn. destruct Hn as (Hnt & Hnv).
      change (targets (Sexp OBind (Sexp OBind u1 u2) v)) with (targets (Sexp OBind u1 u2) ++ targets v) in HT.
      destruct (IHt g t g1 sc H1 Hnt) as (is1 & lft & sc1 & C1 & J1 & HC1 & L1 & T1 & V1 & E1 & F1 & S1); auto.
      { intros y Hy. apply HT. apply in_or_app. left. exact Hy. }
      destruct (IHv g1 t g' sc1 H2 Hnv) as (is2 & rgt & sc2 & C2 & J2 & HC2 & L2 & T2 & V2 & E2 & F2 & S2); auto.
      { intros y Hy. destruct (HT y) as [A|A]; [apply in_or_app; right; exact Hy|left; exact A|].
        right. rewrite (ty_expr_mono _ _ _ _ H1 y A). exact A. }
      pose proof (enc_ok_not_none _ _ E2) as Hrn.
      assert (Hasg : assignable lft).
      { destruct (typed_bind_target _ _ _ _ H1 _ _ eq_refl) as (x & Hbt & _).
        eapply (bind_result_assignable u1 u2 g sc); eauto. eapply bind_target_chain; exact Hbt. }
      exists ((is1 ++ is2) ++ [mkInstr lft OBind lft rgt]), lft, sc2. splits.
      + rewrite compile_sexp, C1. cbn [bind]. rewrite C2. cbn [bind].
        apply lower_tail_bind_ok; [eapply vty_not_tname; exact V1|exact Hrn|exact Hasg].
      + exact J2.
      + exact HC2.
      + eauto using cle_trans.
      + cbn [valops is_valop is_arith is_cmp is_logic orb] in *. lia.
      + exact V1.
      + eapply enc_ok_mono; [exact L2|exact E1].
      + apply Forall_app. split; [apply Forall_app; split|].
        * eapply Forall_ienc_mono; [exact L2|exact F1].
        * exact F2.
        * constructor; [|constructor].
          repeat split; cbn [i_res i_left i_right i_op]; try discriminate; auto; eapply enc_ok_mono; try exact L2; exact E1.
      + eapply sext_trans; [exact S1|exact S2].
    - (* an arithmetic, comparison or logical operator *)
      apply ty_op_full in Ht; auto. destruct Ht as (Vo & tl & g1 & tr & H1 & H2 & Hty).
      cbn [enames] in Hn. destruct Hn as (Hnl & Hnr).
      rewrite (targets_op _ _ _ G) in HT.
      destruct (IHl g tl g1 sc H1 Hnl) as (is1 & lft & sc1 & C1 & J1 & HC1 & L1 & T1 & V1 & E1 & F1 & S1); auto.
      { intros y Hy. apply HT. apply in_or_app. left. exact Hy. }
      destruct (IHr g1 tr g' sc1 H2 Hnr) as (is2 & rgt & sc2 & C2 & J2 & HC2 & L2 & T2 & V2 & E2 & F2 & S2); auto.
      { intros y Hy. destruct (HT y) as [A|A]; [apply in_or_app; right; exact Hy|left; exact A|].
        right. rewrite (ty_expr_mono _ _ _ _ H1 y A). exact A. }
      set (sc3 := mkScope (sc_named sc2) (sc_nctl sc2) (sc_nloc sc2) (sc_nperm sc2) (sc_ntmp sc2 + 1)).
      assert (Hc23 : cle sc2 sc3) by (unfold cle, sc3; cbn; repeat split; lia).
      assert (Htypes : (if is_logic o then is_tbool (reg_type lft) && is_tbool (reg_type rgt)
                        else is_tnum (reg_type lft) && is_tnum (reg_type rgt)) = true).
      { destruct (is_logic o); [destruct Hty as (-> & -> & _)|destruct Hty as (-> & -> & _)].
        - rewrite (is_tbool_vty _ V1), (is_tbool_vty _ V2). reflexivity.
        - rewrite (is_tnum_vty _ V1), (is_tnum_vty _ V2). reflexivity. }
      exists ((is1 ++ is2) ++ [mkInstr (Tmp (sc_ntmp sc2 mod 256) (tmp_ty o)) (mach_op o) lft rgt]), (Tmp (sc_ntmp sc2 mod 256) (tmp_ty o)), sc3.
      split; [|split; [|split; [|split; [|split; [|split; [|split; [|split]]]]]]].
      + rewrite compile_sexp, C1. cbn [bind]. rewrite C2. cbn [bind].
        apply lower_tail_valop_ok; assumption.
      + eapply (J_counters g' sc2 sc3); [reflexivity|exact Hc23|exact J2].
      + eapply (C_same_named T cap sc2 sc3); [reflexivity|reflexivity|exact HC2].
      + eauto using cle_trans.
      + unfold sc3. cbn [sc_ntmp valops]. rewrite Vo. lia.
      + cbn [reg_type]. apply tmp_vty; [exact Vo|]. destruct (is_logic o); tauto.
      + unfold sc3. cbn [enc_ok sc_ntmp]. pose proof (N.mod_le (sc_ntmp sc2) 256). lia.
      + apply Forall_app. split; [apply Forall_app; split|].
        * eapply Forall_ienc_mono; [|exact F1]. eauto using cle_trans.
        * eapply Forall_ienc_mono; [exact Hc23|exact F2].
        * constructor; [|constructor]. destruct (mach_op_enc o Vo) as [A B].
          repeat split; cbn [i_res i_left i_right i_op]; auto.
          -- unfold sc3. cbn [enc_ok sc_ntmp]. pose proof (N.mod_le (sc_ntmp sc2) 256). lia.
          -- eapply enc_ok_mono; [|exact E1]. eauto using cle_trans.
          -- eapply enc_ok_mono; [exact Hc23|exact E2].
      + eapply sext_trans; [exact S1|exact S2].
  Qed.
End Accept.

(* ---------- implicit registers never move or change type ---------- *)

Lemma implicit_stable e : forall sc is r sc', compile_expr e sc = Ok (is, r, sc') ->
  forall y i t, sc_get (sc_named sc) y = Some (Implicit i t) -> sc_get (sc_named sc') y = Some (Implicit i t).
Proof.
  induction e as [p|c|o l IHl r0 IHr|]; intros sc is r sc' H y i t Hy.
  - destruct p as [b|x|n].
    + inversion H; subst. exact Hy.
    + apply compile_atom_name in H. destruct H as (_ & _ & _ & _ & [(_ & ->)|(Hx & _ & _ & Ho)]); [exact Hy|].
      rewrite Ho; [exact Hy|]. intros ->. congruence.
    + inversion H; subst. exact Hy.
  - discriminate H.
  - apply compile_sexp_inv in H. destruct H as (is1 & lft & sc1 & is2 & rgt & sc2 & H1 & H2 & H3).
    pose proof (IHr _ _ _ _ H2 y i t (IHl _ _ _ _ H1 y i t Hy)) as Hy2.
    destruct (is_valop o) eqn:Vo.
    + apply lower_tail_valop in H3; auto. destruct H3 as (_ & _ & Hn & _). rewrite Hn. exact Hy2.
    + destruct (is_condop o) eqn:Co.
      * apply lower_tail_condop in H3; auto. destruct H3 as (_ & _ & ->). exact Hy2.
      * destruct o; try discriminate Vo; try discriminate Co; [|discriminate H3].
        apply lower_tail_bind in H3. destruct H3 as (lft' & [(s & _ & Hu)|(_ & _ & ->)] & _); [|exact Hy2].
        apply update_type_spec in Hu. destruct Hu as ((r1 & G1 & Hr & _) & G2 & Ho & _).
        destruct (name_eqb y s) eqn:E.
        -- apply name_eqb_eq in E. subst y. rewrite Hy2 in G1. inversion G1; subst r1. cbn [retype] in Hr. subst lft'. exact G2.
        -- rewrite Ho; [exact Hy2|]. intros ->. rewrite name_eqb_refl in E. discriminate E.
  - discriminate H.
Qed.

Definition flagsB (sc : scope) : Prop :=
  sc_get (sc_named sc) (lit "__eventFlag") = Some (Implicit 0 (TBool None)) /\
  sc_get (sc_named sc) (lit "__shouldContinue") = Some (Implicit 1 (TBool None)) /\
  sc_get (sc_named sc) (lit "__shouldReport") = Some (Implicit 2 (TBool None)).

Lemma flagsB_expr e sc is r sc' : compile_expr e sc = Ok (is, r, sc') -> flagsB sc -> flagsB sc'.
Proof. intros H (A & B & D). repeat split; eapply implicit_stable; eauto. Qed.

(* ---------- bounds that survive the per-statement reset of the temporaries ---------- *)

Definition enc8 (sc : scope) (r : reg) : Prop :=
  match r with Tmp i _ => i < 8 | _ => enc_ok sc r end.

Definition ienc8 (sc : scope) (i : instr) : Prop :=
  enc8 sc (i_res i) /\ enc8 sc (i_left i) /\ enc8 sc (i_right i) /\ i_op i <> OAnd /\ i_op i <> OOr.

Definition cle0 (a b : scope) : Prop :=
  sc_nperm b = sc_nperm a /\ sc_nctl b = sc_nctl a /\ sc_nloc a <= sc_nloc b.

Lemma cle0_refl a : cle0 a a.
Proof. unfold cle0. repeat split; lia. Qed.
Lemma cle0_trans a b c : cle0 a b -> cle0 b c -> cle0 a c.
Proof. unfold cle0. intros (A1 & A2 & A3) (B1 & B2 & B3). repeat split; try congruence; lia. Qed.
Lemma cle_cle0 a b : cle a b -> cle0 a b.
Proof. unfold cle, cle0. tauto. Qed.

Lemma enc8_mono a b r : cle0 a b -> enc8 a r -> enc8 b r.
Proof. unfold cle0. intros (A1 & A2 & A3). destruct r; cbn [enc8 enc_ok]; try tauto; try lia. Qed.

Lemma ienc8_mono a b i : cle0 a b -> ienc8 a i -> ienc8 b i.
Proof. intros H (H1 & H2 & H3 & H4). repeat split; eauto using enc8_mono; tauto. Qed.

Lemma enc_enc8 sc r : sc_ntmp sc <= 8 -> enc_ok sc r -> enc8 sc r.
Proof. intros H. destruct r; cbn [enc8 enc_ok]; try tauto. lia. Qed.

Lemma ienc_ienc8 sc i : sc_ntmp sc <= 8 -> ienc sc i -> ienc8 sc i.
Proof. intros H (H1 & H2 & H3 & H4). repeat split; auto using enc_enc8; tauto. Qed.

Lemma J_clear g sc : J g sc -> J g (clear_tmps sc).
Proof.
  intros [J1 J2]. split.
  - intros x t k H. destruct (J1 _ _ _ H) as (r & G & V & K & E). exists r. cbn [clear_tmps sc_named]. repeat split; auto.
    destruct k, r; try contradiction; exact E.
  - intros x Hx H. cbn [clear_tmps sc_named sc_nloc]. apply J2; assumption.
Qed.

Lemma typed_desugar e : forall g t g', ty_expr g e = Some (t, g') -> desugar e = e.
Proof.
  induction e as [p|c| |x o c v Co IHc IHv|x v Pl IHv|u1 u2 v IHt IHv|o l r G IHl IHr] using expr_shape_ind; intros g t g' H.
  - reflexivity.
  - discriminate H.
  - discriminate H.
  - apply ty_cond_full in H; auto. destruct H as (tc & g1 & H1 & H2 & _). cbn [desugar]. rewrite (IHc _ _ _ H1), (IHv _ _ _ H2). reflexivity.
  - apply ty_bind_full in H; auto. destruct H as (g1 & H1 & _). cbn [desugar]. rewrite (IHv _ _ _ H1). reflexivity.
  - apply ty_nest_inv in H. destruct H as (_ & g1 & H1 & H2). change (desugar (Sexp OBind (Sexp OBind u1 u2) v)) with (Sexp OBind (desugar (Sexp OBind u1 u2)) (desugar v)). rewrite (IHt _ _ _ H1), (IHv _ _ _ H2). reflexivity.
  - apply ty_op_full in H; auto. destruct H as (_ & tl & g1 & tr & H1 & H2 & _). cbn [desugar]. rewrite (IHl _ _ _ H1), (IHr _ _ _ H2). reflexivity.
Qed.

(* ---------- statements, condition blocks, events ---------- *)

Definition sub (g0 g : tenv) : Prop := forall y, tget g0 y <> None -> tget g y <> None.

Lemma sub_refl g : sub g g.
Proof. intros y H. exact H. Qed.

Lemma sub_expr g0 g e t g' : sub g0 g -> ty_expr g e = Some (t, g') -> sub g0 g'.
Proof. intros S H y Hy. rewrite (ty_expr_mono _ _ _ _ H y (S y Hy)). exact (S y Hy). Qed.

Section Prog.
  Variable T : list name.
  Variable cap : N.
  Hypothesis cap_small : cap <= 254.
  Variable g0 : tenv.

  (* what a statement or condition must satisfy besides being typed *)
  Definition stmt_ok (e : expr) : Prop :=
    enames nd e /\ (forall x, In x (targets e) -> In x T \/ tget g0 x <> None) /\ (valops e <= 8)%nat.

  Lemma accept_stmt e g t g' sc : ty_expr g e = Some (t, g') -> stmt_ok e -> sub g0 g ->
    J g sc -> C T cap sc -> flagsB sc ->
    exists is r sc', compile_expr e (clear_tmps sc) = Ok (is, r, sc') /\ J g' sc' /\ C T cap sc' /\ cle0 sc sc' /\
      Forall (ienc8 sc') is /\ flagsB sc' /\ vty_of (reg_type r) = Some t /\ sc_ntmp sc' = N.of_nat (valops e) /\ enc_ok sc' r.
  Proof.
    intros Ht (Hn & HT & Hv) Hs HJ HC HF.
    destruct (accept_expr T cap cap_small e g t g' (clear_tmps sc) Ht Hn) as (is & r & sc' & Hc & J' & C' & L & Tm & V & E & F & S).
    - intros x Hx. destruct (HT x Hx) as [A|A]; [left; exact A|right; exact (Hs x A)].
    - apply J_clear. exact HJ.
    - eapply (C_same_named T cap sc (clear_tmps sc)); [reflexivity|reflexivity|exact HC].
    - exists is, r, sc'. cbn [clear_tmps sc_ntmp] in Tm.
      assert (Htm : sc_ntmp sc' <= 8) by lia.
      split; [exact Hc|]. split; [exact J'|]. split; [exact C'|]. split.
      { destruct L as (A1 & A2 & A3 & _). cbn [clear_tmps sc_nperm sc_nctl sc_nloc] in *. repeat split; assumption. }
      split; [eapply Forall_impl; [|exact F]; intros i; apply ienc_ienc8; exact Htm|].
      split; [eapply flagsB_expr; [exact Hc|exact HF]|]. split; [exact V|]. split; [lia|exact E].
  Qed.

  Lemma accept_cmd c sc : flagsB sc ->
    exists is r, compile_expr (desugar (Cmd c)) (clear_tmps sc) = Ok (is, r, clear_tmps sc) /\ Forall (ienc8 (clear_tmps sc)) is.
  Proof.
    intros (A & B & D). destruct c; cbn [desugar]; rewrite compile_sexp; cbn [compile_expr clear_tmps sc_named].
    - rewrite B. cbn [bind]. eexists _, _. split; [reflexivity|]. constructor; [|constructor].
      repeat split; cbn [i_res i_left i_right i_op enc8 enc_ok]; try discriminate; try lia; exact I.
    - rewrite D. cbn [bind]. eexists _, _. split; [reflexivity|]. constructor; [|constructor].
      repeat split; cbn [i_res i_left i_right i_op enc8 enc_ok]; try discriminate; try lia; exact I.
  Qed.

  Lemma accept_body es : forall g g2 sc, ty_body g es = Some g2 ->
    Forall (fun e => match e with Cmd _ | ENone => True | _ => stmt_ok e end) es -> sub g0 g ->
    J g sc -> C T cap sc -> flagsB sc ->
    exists is sc', compile_body (map desugar es) sc = Ok (is, sc') /\ J g2 sc' /\ C T cap sc' /\ cle0 sc sc' /\
      Forall (ienc8 sc') is /\ flagsB sc' /\ sub g0 g2.
  Proof.
    induction es as [|e r IH]; intros g g2 sc Ht Hok Hs HJ HC HF.
    - cbn in Ht. inversion Ht; subst. exists [], sc. cbn. splits; auto using cle0_refl.
    - inversion Hok as [|? ? He Hr]; subst.
      assert (Htyped : forall t g1, ty_expr g e = Some (t, g1) -> ty_body g1 r = Some g2 -> stmt_ok e ->
                exists is sc', compile_body (map desugar (e :: r)) sc = Ok (is, sc') /\ J g2 sc' /\ C T cap sc' /\ cle0 sc sc' /\
                               Forall (ienc8 sc') is /\ flagsB sc' /\ sub g0 g2).
      { intros t g1 Hte Htr Hse.
        destruct (accept_stmt e g t g1 sc Hte Hse Hs HJ HC HF) as (is1 & r1 & sc1 & C1 & J1 & HC1 & L1 & F1 & FB1 & _).
        destruct (IH g1 g2 sc1 Htr Hr (sub_expr _ _ _ _ _ Hs Hte) J1 HC1 FB1) as (is2 & sc2 & C2 & J2 & HC2 & L2 & F2 & FB2 & S2).
        exists (is1 ++ is2), sc2. cbn [map]. rewrite (typed_desugar _ _ _ _ Hte).
        assert (Hcb : compile_body (e :: map desugar r) sc =
                      do (is, _, sc1) <- compile_expr e (clear_tmps sc); do (rest, sc2) <- compile_body (map desugar r) sc1; Ok (is ++ rest, sc2)).
        { destruct e; try reflexivity. discriminate Hte. }
        rewrite Hcb, C1. cbn [bind]. rewrite C2. cbn [bind].
        splits; auto; [eauto using cle0_trans|].
        apply Forall_app. split; [|exact F2]. eapply Forall_impl; [|exact F1]. intros i. apply ienc8_mono. exact L2. }
      destruct e as [p|c|o l r0|].
      + cbn [ty_body] in Ht. destruct (ty_expr g (Atom p)) as [[t g1]|] eqn:E; [|discriminate Ht]. eapply Htyped; eauto.
      + (* a command *)
        cbn [ty_body] in Ht.
        destruct (accept_cmd c sc HF) as (is1 & r1 & C1 & F1).
        assert (J1 : J g (clear_tmps sc)) by (apply J_clear; exact HJ).
        assert (HC1 : C T cap (clear_tmps sc)) by (eapply (C_same_named T cap sc); [reflexivity|reflexivity|exact HC]).
        destruct (IH g g2 (clear_tmps sc) Ht Hr Hs J1 HC1 HF) as (is2 & sc2 & C2 & J2 & HC2 & L2 & F2 & FB2 & S2).
        exists (is1 ++ is2), sc2. cbn [map].
        assert (Hcb : compile_body (desugar (Cmd c) :: map desugar r) sc =
                      do (is, _, sc1) <- compile_expr (desugar (Cmd c)) (clear_tmps sc); do (rest, sc2) <- compile_body (map desugar r) sc1; Ok (is ++ rest, sc2)).
        { destruct c; reflexivity. }
        rewrite Hcb, C1. cbn [bind]. rewrite C2. cbn [bind].
        splits; auto.
        apply Forall_app. split; [|exact F2]. eapply Forall_impl; [|exact F1]. intros i. apply ienc8_mono. exact L2.
      + cbn [ty_body] in Ht. destruct (ty_expr g (Sexp o l r0)) as [[t g1]|] eqn:E; [|discriminate Ht]. eapply Htyped; eauto.
      + cbn [ty_body] in Ht. cbn [map desugar compile_body]. eapply IH; eauto.
  Qed.

  Lemma accept_flag e g g1 sc : ty_cond g e = Some g1 -> stmt_ok e -> sub g0 g ->
    J g sc -> C T cap sc -> flagsB sc ->
    exists is sc', compile_flag e sc = Ok (is, sc') /\ J g1 sc' /\ C T cap sc' /\ cle0 sc sc' /\
      Forall (ienc8 sc') is /\ flagsB sc' /\ sub g0 g1.
  Proof.
    intros Ht Hok Hs HJ HC HF. unfold ty_cond in Ht.
    destruct e as [[b|x|n]|c|o l r|]; try discriminate Ht.
    - inversion Ht; subst g1.
      exists ([] ++ [mkInstr (Implicit 0 (TBool None)) OBind (Implicit 0 (TBool None)) (ImmBool b)]), (clear_tmps sc).
      unfold compile_flag. cbn [compile_expr bind clear_tmps sc_named]. destruct HF as (A & B & D). rewrite A.
      splits.
      + reflexivity.
      + apply J_clear. exact HJ.
      + eapply (C_same_named T cap sc); [reflexivity|reflexivity|exact HC].
      + unfold cle0. cbn. repeat split; lia.
      + constructor; [|constructor]. repeat split; cbn [i_res i_left i_right i_op enc8 enc_ok]; try discriminate; try lia; exact I.
      + repeat split; assumption.
      + exact Hs.
    - destruct (is_cmp o || is_logic o) eqn:Eo; [|discriminate Ht].
      destruct (ty_expr g (Sexp o l r)) as [[[|] g2]|] eqn:Et; try discriminate Ht. inversion Ht; subst g2; clear Ht.
      destruct (accept_stmt _ g VBool g1 sc Et Hok Hs HJ HC HF) as (is & res & sc' & Hc & J' & C' & L & F & FB & V & Tm & E).
      assert (Vo : is_valop o = true) by (unfold is_valop; destruct (is_cmp o), (is_logic o); try discriminate Eo; destruct (is_arith o); reflexivity).
      pose proof Hc as Hc0. apply compile_sexp_inv in Hc0. destruct Hc0 as (is1 & lft & sc1 & is2 & rgt & sc2 & H1 & H2 & H3).
      apply lower_tail_valop in H3; auto. destruct H3 as (Hres & His & _).
      assert (Htt : tmp_ty o = TBool None).
      { unfold tmp_ty. destruct o; cbn in Eo; try discriminate Eo; reflexivity. }
      rewrite Htt in Hres.
      exists ((is1 ++ is2) ++ [mkInstr (Implicit 0 (TBool None)) (mach_op o) lft rgt]), sc'.
      unfold compile_flag. rewrite Hc. cbn [bind]. destruct FB as (A & B & D). rewrite A. rewrite Hres at 1.
      rewrite His, set_last_res_snoc. cbn [i_op i_left i_right].
      splits; auto.
      + rewrite His in F. apply Forall_app in F. destruct F as [F1 F2]. apply Forall_app. split; [exact F1|].
        inversion F2 as [|? ? (_ & R2 & R3 & R4) _]; subst. constructor; [|constructor].
        repeat split; cbn [i_res i_left i_right i_op enc8 enc_ok] in *; auto; try tauto. lia.
      + repeat split; assumption.
      + eapply sub_expr; eauto.
  Qed.

  Definition event_ok (ev : event) : Prop :=
    stmt_ok (ev_flag ev) /\ Forall (fun e => match e with Cmd _ | ENone => True | _ => stmt_ok e end) (ev_body ev).

  Definition sev (ev : event) : sevent := mkSEv (ev_flag ev) (ev_body ev).

  Lemma accept_events evs : forall g sc idx, ty_events g (map sev evs) = true -> Forall event_ok evs -> sub g0 g ->
    J g sc -> C T cap sc -> flagsB sc ->
    exists devs is sc', compile_events (map desugar_event evs) sc idx = Ok (devs, is, sc') /\ cle0 sc sc' /\ Forall (ienc8 sc') is /\ C T cap sc'.
  Proof.
    induction evs as [|ev r IH]; intros g sc idx Ht Hok Hs HJ HC HF.
    - exists [], [], sc. cbn. splits; auto using cle0_refl.
    - cbn [map ty_events sev se_cond se_body] in Ht.
      destruct (ty_cond g (ev_flag ev)) as [g1|] eqn:E1; [|discriminate Ht].
      destruct (ty_body g1 (ev_body ev)) as [g2|] eqn:E2; [|discriminate Ht].
      inversion Hok as [|? ? [Hf Hb] Hr]; subst.
      destruct (accept_flag _ g g1 sc E1 Hf Hs HJ HC HF) as (fi & sc1 & C1 & J1 & HC1 & L1 & F1 & FB1 & S1).
      destruct (accept_body _ g1 g2 sc1 E2 Hb S1 J1 HC1 FB1) as (bi & sc2 & C2 & J2 & HC2 & L2 & F2 & FB2 & S2).
      destruct (IH g2 sc2 (idx + N.of_nat (length fi) + N.of_nat (length bi)) Ht Hr S2 J2 HC2 FB2) as (devs & is' & sc3 & C3 & L3 & F3 & HC3).
      exists (mkDEvent idx (N.of_nat (length fi)) (idx + N.of_nat (length fi)) (N.of_nat (length bi)) :: devs), (fi ++ bi ++ is'), sc3.
      cbn [map compile_events desugar_event ev_flag ev_body]. rewrite C1. cbn [bind]. rewrite C2. cbn [bind]. rewrite C3. cbn [bind].
      splits; auto; [eauto using cle0_trans|].
      apply Forall_app. split; [eapply Forall_impl; [|exact F1]; intros i; apply ienc8_mono; eauto using cle0_trans|].
      apply Forall_app. split; [eapply Forall_impl; [|exact F2]; intros i; apply ienc8_mono; exact L3|exact F3].
  Qed.
End Prog.

(* ---------- the encoder accepts registers within the files ---------- *)

Lemma reg_code_ok sc r : enc8 sc r -> sc_nperm sc <= 16 -> sc_nctl sc <= 16 -> sc_nloc sc <= 6 ->
  exists c v, reg_code r = Ok (c, v).
Proof.
  intros E Hp Hc Hl. destruct r as [i t vol|n|b|i t|i t|i t|i t vol|i t|]; cbn [enc8 enc_ok] in E; cbn [reg_code];
    unfold LIM_CONTROL, LIM_IMPLICIT, LIM_LOCAL, LIM_PRIMITIVE, LIM_REPORT, LIM_TMP.
  - replace (15 <? i) with false by (symmetry; apply N.ltb_ge; lia). eauto.
  - unfold lit_ok in E. unfold U64_MAX, IMM_LIMIT. rewrite orb_comm. rewrite E. eauto.
  - eauto.
  - replace (5 <? i) with false by (symmetry; apply N.ltb_ge; lia). eauto.
  - replace (5 <? i) with false by (symmetry; apply N.ltb_ge; lia). eauto.
  - replace (15 <? i) with false by (symmetry; apply N.ltb_ge; lia). eauto.
  - replace (15 <? i) with false by (symmetry; apply N.ltb_ge; lia). eauto.
  - replace (7 <? i) with false by (symmetry; apply N.ltb_ge; lia). eauto.
  - contradiction.
Qed.

Lemma ser_reg_img_ok sc r : enc8 sc r -> sc_nperm sc <= 16 -> sc_nctl sc <= 16 -> sc_nloc sc <= 6 ->
  exists bs, ser_reg_img r = Ok bs.
Proof.
  intros E Hp Hc Hl. destruct (reg_code_ok sc r E Hp Hc Hl) as (c & v & Hrc).
  assert (Hs : ser_reg r = Ok (c :: enc_le 4 v)) by (unfold ser_reg; rewrite Hrc; reflexivity).
  destruct r; try (eexists; exact Hs). cbn [enc8 enc_ok] in E. contradiction.
Qed.

Lemma ser_instr_ok sc i : ienc8 sc i -> sc_nperm sc <= 16 -> sc_nctl sc <= 16 -> sc_nloc sc <= 6 ->
  exists bs, ser_instr i = Ok bs.
Proof.
  intros (E1 & E2 & E3 & O1 & O2) Hp Hc Hl. unfold ser_instr.
  assert (Ho : exists o, ser_op (i_op i) = Ok o) by (destruct (i_op i); try congruence; eexists; reflexivity).
  destruct Ho as (o & ->). cbn [bind].
  destruct (ser_reg_img_ok sc _ E1 Hp Hc Hl) as (a & ->). cbn [bind].
  destruct (ser_reg_img_ok sc _ E2 Hp Hc Hl) as (b & ->). cbn [bind].
  destruct (ser_reg_img_ok sc _ E3 Hp Hc Hl) as (c & ->). cbn [bind]. eauto.
Qed.

Lemma ser_instrs_accept sc is : Forall (ienc8 sc) is -> sc_nperm sc <= 16 -> sc_nctl sc <= 16 -> sc_nloc sc <= 6 ->
  exists bs, ser_instrs is = Ok bs.
Proof.
  intros F Hp Hc Hl. induction F as [|i r Hi _ IH]; [exists []; reflexivity|].
  cbn [ser_instrs]. destruct (ser_instr_ok sc i Hi Hp Hc Hl) as (a & ->). destruct IH as (b & ->). cbn [bind]. eauto.
Qed.

(* ---------- declarations ---------- *)

Definition init_lit (t : ty) : Prop := match t with TNum (Some n) => lit_ok n = true | _ => True end.

Definition entry_ok (sc : scope) (r : reg) : Prop :=
  match r with
  | Report i t _ => i < sc_nperm sc /\ init_lit t
  | Control i t _ => i < sc_nctl sc /\ init_lit t
  | _ => True
  end.

Definition entries_enc (sc : scope) : Prop := Forall (fun kv => entry_ok sc (snd kv)) (sc_named sc).

Lemma Forall_rf_insert (P : name * reg -> Prop) l n r : Forall P l -> P (n, r) -> Forall P (rf_insert l n r).
Proof.
  induction l as [|[k v] t IH]; intros H Hr; cbn [rf_insert]; [constructor; [exact Hr|constructor]|].
  inversion H as [|? ? Hv Ht]; subst. destruct (name_ltb k n); [constructor; [exact Hv|apply IH; auto]|constructor; [exact Hr|exact H]].
Qed.

Lemma entries_new_classes :
  Forall (fun kv : name * reg => match snd kv with Implicit _ _ | Primitive _ _ => True | _ => False end) (sc_named scope_new).
Proof. vm_compute. repeat (constructor; [exact I|]). constructor. Qed.

Lemma entries_enc_new : entries_enc scope_new.
Proof.
  unfold entries_enc. eapply Forall_impl; [|exact entries_new_classes].
  intros [k r] H. cbn [snd] in *. destruct r; try contradiction; exact I.
Qed.

Definition decl_lit (d : bool * name * ty) : Prop := init_lit (snd d).

Lemma declare_report_ok ds : forall sc, sc_nperm sc + N.of_nat (length ds) <= 255 -> entries_enc sc -> Forall decl_lit ds ->
  exists sc', declare new_report ds sc = Ok sc' /\ entries_enc sc' /\ sc_nctl sc' = sc_nctl sc.
Proof.
  induction ds as [|[[v n] t] r IH]; intros sc Hb E Hd; [exists sc; split; [reflexivity|split; [exact E|reflexivity]]|].
  cbn [declare]. unfold new_report. cbn [length] in Hb.
  replace (255 <=? sc_nperm sc) with false by (symmetry; apply N.leb_gt; lia). cbn [bind].
  inversion Hd as [|? ? Hdt Hdr]; subst.
  match goal with |- exists sc', declare _ _ ?s = _ /\ _ => destruct (IH s) as (sc' & A & B & D) end; [cbn [sc_nperm]; lia| |exact Hdr|].
  - unfold entries_enc. cbn [sc_named]. apply Forall_rf_insert.
    + eapply Forall_impl; [|exact E]. intros [k rr] H. cbn [snd] in *. destruct rr; cbn [entry_ok sc_nperm sc_nctl] in *; try tauto. split; [lia|tauto].
    + cbn [snd entry_ok sc_nperm]. split; [lia|exact Hdt].
  - exists sc'. split; [exact A|split; [exact B|]]. rewrite D. reflexivity.
Qed.

Lemma declare_control_ok ds : forall sc, sc_nctl sc + N.of_nat (length ds) <= 255 -> entries_enc sc -> Forall decl_lit ds ->
  exists sc', declare new_control ds sc = Ok sc' /\ entries_enc sc'.
Proof.
  induction ds as [|[[v n] t] r IH]; intros sc Hb E Hd; [exists sc; split; [reflexivity|exact E]|].
  cbn [declare]. unfold new_control. cbn [length] in Hb.
  replace (255 <=? sc_nctl sc) with false by (symmetry; apply N.leb_gt; lia). cbn [bind].
  inversion Hd as [|? ? Hdt Hdr]; subst.
  apply IH; [cbn [sc_nctl]; lia| |exact Hdr].
  unfold entries_enc. cbn [sc_named]. apply Forall_rf_insert.
  - eapply Forall_impl; [|exact E]. intros [k rr] H. cbn [snd] in *. destruct rr; cbn [entry_ok sc_nperm sc_nctl] in *; try tauto. split; [lia|tauto].
  - cbn [snd entry_ok sc_nctl]. split; [lia|exact Hdt].
Qed.

(* the DEF preamble of a scope whose entries are within the files *)
Lemma def_instrs_enc sc l : Forall (fun kv => entry_ok sc (snd kv)) l -> Forall (ienc8 sc) (def_instrs l).
Proof.
  induction 1 as [|[k r] t Hr _ IH]; [constructor|]. cbn [def_instrs snd] in *.
  destruct r as [i ty vol|n|b|i ty|i ty|i ty|i ty vol|i ty|]; try exact IH;
    destruct ty as [[b|]|s|[n|]|]; try exact IH; constructor; try exact IH;
    cbn [entry_ok init_lit] in Hr; repeat split; cbn [i_res i_left i_right i_op enc8 enc_ok]; try discriminate; try tauto.
Qed.

(* ---------- the scope after the declarations, against the typing environment ---------- *)

Definition dentry (d : bool * name * ty) : name * (vty * vclass) :=
  (snd (fst d), (match vty_of (snd d) with Some t => t | None => VNum end,
                 if has_report_prefix (snd (fst d)) then KReport else KControl)).

Definition decl_env (decls : list (bool * name * ty)) : tenv := map dentry decls ++ builtin_tenv.

Lemma tget_app a b x : tget (a ++ b) x = match tget a x with Some v => Some v | None => tget b x end.
Proof. induction a as [|[k v] t IH]; [reflexivity|]. cbn [app tget]. destruct (name_eqb k x); [reflexivity|exact IH]. Qed.

Lemma tget_in' g x v : tget g x = Some v -> In (x, v) g.
Proof.
  induction g as [|[k w] t IH]; cbn [tget]; [discriminate|]. destruct (name_eqb k x) eqn:E.
  - intros H. inversion H; subst. apply name_eqb_eq in E. subst. left. reflexivity.
  - intros H. right. apply IH. exact H.
Qed.

Lemma tget_dentry decls x tk : tget (map dentry decls) x = Some tk ->
  exists v ty, In (v, x, ty) decls /\ tk = snd (dentry (v, x, ty)).
Proof.
  intros H. apply tget_in' in H. apply in_map_iff in H. destruct H as ([[v n] ty] & Hd & Hin).
  unfold dentry in Hd. cbn [fst snd] in Hd. inversion Hd; subst. exists v, ty. split; [exact Hin|reflexivity].
Qed.

Lemma tget_dentry_none decls x : tget (map dentry decls) x = None -> ~ In x (names_of decls).
Proof.
  induction decls as [|[[v n] ty] r IH]; intros H Hin; [exact Hin|].
  cbn [map tget dentry fst snd] in H. destruct (name_eqb n x) eqn:E; [discriminate H|].
  cbn [names_of] in Hin. destruct Hin as [->|Hin]; [rewrite name_eqb_refl in E; discriminate E|exact (IH H Hin)].
Qed.

Lemma names_of_in ds v n t : In (v, n, t) ds -> In n (names_of ds).
Proof. induction ds as [|[[v' n'] t'] r IH]; [intros []|]. intros [H|H]; [inversion H; left; reflexivity|right; apply IH; exact H]. Qed.

Lemma names_of_filter (p : bool * name * ty -> bool) ds n : In n (names_of (filter p ds)) -> In n (names_of ds).
Proof.
  induction ds as [|[[v' n'] t'] r IH]; [intros []|]. cbn [filter]. destruct (p (v', n', t')); cbn [names_of].
  - intros [H|H]; [left; exact H|right; apply IH; exact H].
  - intros H. right. apply IH. exact H.
Qed.

Lemma builtin_J : Forall (fun e : name * (vty * vclass) =>
    exists r, sc_get (sc_named scope_new) (fst e) = Some r /\ vty_of (reg_type r) = Some (fst (snd e)) /\ class_ok (snd (snd e)) r /\
              (match r with Implicit i _ => i <= 5 | Primitive i _ => i <= 15 | _ => False end) /\ is_builtin (fst e) = true) builtin_tenv.
Proof.
  unfold builtin_tenv. cbn [map app].
  repeat (constructor; [eexists; split; [vm_compute; reflexivity|split; [reflexivity|split; [exact I|split; [cbn; lia|reflexivity]]]]|]).
  constructor.
Qed.

Lemma new_entries_known :
  Forall (fun kv : name * reg => (tget builtin_tenv (fst kv) <> None \/ starts_dunder (fst kv) = true) /\ is_builtin (fst kv) = true)
         (sc_named scope_new).
Proof.
  vm_compute. repeat (constructor; [split; [first [left; discriminate|right; reflexivity]|reflexivity]|]). constructor.
Qed.

Lemma fresh_new n : is_builtin n = false -> sc_get (sc_named scope_new) n = None.
Proof.
  intros H. destruct (sc_get (sc_named scope_new) n) as [r|] eqn:E; [|reflexivity]. exfalso.
  apply get_in in E. pose proof new_entries_known as K. rewrite Forall_forall in K. destruct (K _ E) as [_ B]. cbn [fst] in B. congruence.
Qed.

Lemma initial_scope decls sc1 sc2 :
  let reports := filter (fun '(_, n, _) => has_report_prefix n) decls in
  let controls := filter (fun '(_, n, _) => negb (has_report_prefix n)) decls in
  declare new_report reports scope_new = Ok sc1 -> declare new_control controls sc1 = Ok sc2 ->
  NoDup (names_of reports ++ names_of controls) ->
  (forall n, In n (names_of reports ++ names_of controls) -> is_builtin n = false) ->
  Forall (fun d => vty_of (snd d) <> None) decls ->
  J (decl_env decls) sc2 /\ flagsB sc2 /\ sc_nloc sc2 = 0 /\
  sc_nperm sc2 = N.of_nat (length reports) /\ sc_nctl sc2 = N.of_nat (length controls).
Proof.
  intros reports controls D1 D2 Hnd Hnb Hty.
  destruct (declarations_scope _ _ _ _ D1 D2 Hnd Hnb) as (Hr & Hc & Hb & Np & Nc & Nl).
  (* names that are neither declared nor built in are absent *)
  assert (Hother : forall x, ~ In x (names_of decls) -> sc_get (sc_named sc2) x = sc_get (sc_named scope_new) x).
  { intros x Hx.
    destruct (nodup_app _ _ Hnd) as (Hnd1 & Hnd2 & Hdisj).
    assert (Hf1 : forall n, In n (names_of reports) -> sc_get (sc_named scope_new) n = None).
    { intros n Hn. apply fresh_new. apply Hnb. apply in_or_app. left. exact Hn. }
    destruct (declare_report_spec _ _ _ D1 Hnd1 Hf1) as (_ & _ & _ & _ & _ & Hoth1).
    assert (Hf2 : forall n, In n (names_of controls) -> sc_get (sc_named sc1) n = None).
    { intros n Hn. rewrite Hoth1; [apply fresh_new; apply Hnb; apply in_or_app; right; exact Hn|].
      intros Hi. exact (Hdisj n Hi Hn). }
    destruct (declare_control_spec _ _ _ D2 Hnd2 Hf2) as (_ & _ & _ & _ & _ & Hoth2).
    rewrite Hoth2, Hoth1; [reflexivity| |]; intros Hi; apply Hx; eapply names_of_filter; exact Hi. }
  split; [|split; [|split; [exact Nl|split; [exact Np|exact Nc]]]].
  - split.
    + intros x t k H. unfold decl_env in H. rewrite tget_app in H.
      destruct (tget (map dentry decls) x) as [tk|] eqn:Ed.
      * inversion H; subst tk; clear H. destruct (tget_dentry _ _ _ Ed) as (v & ty & Hin & Htk).
        unfold dentry in Htk. cbn [fst snd] in Htk. inversion Htk as [[Ht Hk]]; clear Htk.
        rewrite Forall_forall in Hty. pose proof (Hty _ Hin) as Hv. cbn [snd] in Hv.
        destruct (vty_of ty) as [t0|] eqn:Ev; [|congruence].
        destruct (has_report_prefix x) eqn:Ep.
        -- assert (Hin' : In (v, x, ty) reports) by (apply filter_In; split; [exact Hin|exact Ep]).
           destruct (In_nth_error _ _ Hin') as (k0 & Hk0).
           exists (Report (N.of_nat k0) ty v). split; [exact (Hr _ _ _ _ Hk0)|]. cbn [reg_type]. split; [exact Ev|]. split; [exact I|].
           cbn [enc_ok]. rewrite Np. assert (k0 < length reports)%nat by (apply nth_error_Some; congruence). lia.
        -- assert (Hin' : In (v, x, ty) controls) by (apply filter_In; split; [exact Hin|rewrite Ep; reflexivity]).
           destruct (In_nth_error _ _ Hin') as (k0 & Hk0).
           exists (Control (N.of_nat k0) ty v). split; [exact (Hc _ _ _ _ Hk0)|]. cbn [reg_type]. split; [exact Ev|]. split; [exact I|].
           cbn [enc_ok]. rewrite Nc. assert (k0 < length controls)%nat by (apply nth_error_Some; congruence). lia.
      * pose proof builtin_J as B. rewrite Forall_forall in B. destruct (B _ (tget_in' _ _ _ H)) as (r & G & V & K & E & Hbi). cbn [fst snd] in *.
        exists r. rewrite (Hb _ Hbi). split; [exact G|]. split; [exact V|]. split; [exact K|]. destruct r; try contradiction; exact E.
    + intros x Hx H. left. unfold decl_env in H. rewrite tget_app in H.
      destruct (tget (map dentry decls) x) as [tk|] eqn:Ed; [discriminate H|].
      rewrite (Hother _ (tget_dentry_none _ _ Ed)).
      destruct (sc_get (sc_named scope_new) x) as [r|] eqn:E; [|reflexivity]. exfalso.
      apply get_in in E. pose proof new_entries_known as K. rewrite Forall_forall in K. destruct (K _ E) as [[A|A] _]; cbn [fst] in A; [congruence|].
      unfold nd in Hx. congruence.
  - repeat split; rewrite Hb by reflexivity; reflexivity.
Qed.

(* ---------- whole programs ---------- *)

Lemma filter_len_le {A} (p : A -> bool) l : (length (filter p l) <= length l)%nat.
Proof. induction l as [|x t IH]; [cbn; lia|]. cbn [filter]. destruct (p x); cbn [length]; lia. Qed.

Definition ap_decls (ap : aprog) := decls_of (ap_d1 ap) (ap_rep ap) (ap_d2 ap).
Definition ap_reports (ap : aprog) := filter (fun '(_, n, _) => has_report_prefix n) (ap_decls ap).
Definition ap_controls (ap : aprog) := filter (fun '(_, n, _) => negb (has_report_prefix n)) (ap_decls ap).

(* well typed and within the register limits.  T lists the names the events may bind as locals. *)
Record accepts (ap : aprog) (T : list name) : Prop := mkAccepts {
  acc_nodup : NoDup (names_of (ap_reports ap) ++ names_of (ap_controls ap));
  acc_notbuiltin : forall n, In n (names_of (ap_reports ap) ++ names_of (ap_controls ap)) -> is_builtin n = false;
  acc_typed : Forall (fun d => vty_of (snd d) <> None /\ init_lit (snd d)) (ap_decls ap);
  acc_reports : (length (ap_reports ap) <= 16)%nat;
  acc_controls : (length (ap_controls ap) <= 16)%nat;
  acc_locals : (length T <= 6)%nat;
  acc_events_typed : ty_events (decl_env (ap_decls ap)) (map sev (ap_events ap)) = true;
  acc_events_ok : Forall (event_ok T (decl_env (ap_decls ap))) (ap_events ap)
}.

Theorem accepted ap T : accepts ap T ->
  exists b sc bytes, compile_aprog ap [] = inl (Ok (b, sc)) /\ serialize_bin b = Ok bytes.
Proof.
  intros [Hnd Hnb Hty Hr Hc Hl Hev Hok].
  assert (Hlit_r : Forall decl_lit (ap_reports ap)).
  { unfold ap_reports. apply Forall_forall. intros d Hd. apply filter_In in Hd. rewrite Forall_forall in Hty. exact (proj2 (Hty _ (proj1 Hd))). }
  assert (Hlit_c : Forall decl_lit (ap_controls ap)).
  { unfold ap_controls. apply Forall_forall. intros d Hd. apply filter_In in Hd. rewrite Forall_forall in Hty. exact (proj2 (Hty _ (proj1 Hd))). }
  destruct (declare_report_ok (ap_reports ap) scope_new) as (sc1 & D1 & E1 & N1); [cbn; lia|exact entries_enc_new|exact Hlit_r|].
  destruct (declare_control_ok (ap_controls ap) sc1) as (sc2 & D2 & E2); [rewrite N1; cbn; lia|exact E1|exact Hlit_c|].
  destruct (initial_scope (ap_decls ap) sc1 sc2 D1 D2 Hnd Hnb) as (HJ & HF & Nl & Np & Nc).
  { eapply Forall_impl; [|exact Hty]. intros d [A _]. exact A. }
  set (cap := N.of_nat (length T)).
  assert (Hcap : cap <= 254) by (unfold cap; lia).
  assert (HC : C T cap sc2).
  { unfold C, rem, cap. rewrite Nl. pose proof (filter_len_le (absent sc2) T). lia. }
  destruct (accept_events T cap Hcap (decl_env (ap_decls ap)) (ap_events ap) (decl_env (ap_decls ap)) sc2
              (N.of_nat (length (def_instrs (sc_named sc2)))) Hev Hok (sub_refl _) HJ HC HF)
    as (devs & is & sc3 & Cev & L & F & HC3).
  assert (Hbounds : sc_nperm sc3 <= 16 /\ sc_nctl sc3 <= 16 /\ sc_nloc sc3 <= 6).
  { destruct L as (A & B & _). unfold C in HC3. rewrite A, B, Np, Nc. unfold cap in HC3. unfold ap_reports, ap_controls in Hr, Hc. repeat split; lia. }
  destruct Hbounds as (B1 & B2 & B3).
  assert (Fall : Forall (ienc8 sc3) (def_instrs (sc_named sc2) ++ is)).
  { apply Forall_app. split; [|exact F]. eapply Forall_impl; [|exact (def_instrs_enc sc2 _ E2)]. intros i. apply ienc8_mono. exact L. }
  destruct (ser_instrs_accept sc3 _ Fall B1 B2 B3) as (ibytes & Hser).
  exists (mkBin devs (def_instrs (sc_named sc2) ++ is)), sc3, (concat (map ser_event devs) ++ ibytes).
  split.
  - unfold compile_aprog, finish_parse. fold (ap_decls ap). fold (ap_reports ap). fold (ap_controls ap).
    rewrite D1, D2. cbn [apply_updates]. unfold compile_prog. rewrite Cev. reflexivity.
  - unfold serialize_bin. cbn [b_instrs b_events]. rewrite Hser. reflexivity.
Qed.

(* the first sentence of C20: every layout of a well-typed program within the limits compiles and serializes *)
Theorem grammar_accepted ap T t src : lay_prog ap t -> utf8_decode src = Some t -> accepts ap T ->
  exists bytes sc, compile_and_serialize src [] = inl (Ok (bytes, sc)).
Proof.
  intros Hl Hu Ha. destruct (accepted ap T Ha) as (b & sc & bytes & Hc & Hs).
  exists bytes, sc. unfold compile_and_serialize. rewrite (compile_layout ap t src [] Hl Hu), Hc, Hs. reflexivity.
Qed.
