(* Names the parser can produce: none begins with "__" (reserved), in declarations and in
   expressions; desugaring adds only the two internal command flags. *)
From Portus Require Export Image ParserFacts TotalFacts.

Fixpoint enames (P : name -> Prop) (e : expr) : Prop :=
  match e with
  | Atom (PName x) => P x
  | Sexp _ l r => enames P l /\ enames P r
  | _ => True
  end.

Definition nd (x : name) : Prop := starts_dunder x = false.

Lemma p_name_nd i s r : p_name i = POk s r -> nd s.
Proof.
  unfold p_name. destruct (take_while is_name_char i) as [s0 rest]. destruct s0 as [|c t]; [discriminate|].
  destruct (starts_dunder (c :: t)) eqn:E; [discriminate|]. intros H. inversion H; subst. exact E.
Qed.

Lemma p_atom_names i e r : p_atom i = POk e r -> enames nd e.
Proof.
  unfold p_atom.
  destruct (tag (lit "true") i); [intros H; inversion H; exact I| | |];
  destruct (tag (lit "false") i); try (intros H; inversion H; exact I);
  destruct (tag (lit "+infinity") i); try (intros H; inversion H; exact I);
  destruct (p_num i) as [n r1| | |]; try discriminate; try (intros H; inversion H; exact I);
  destruct (p_name i) as [s r1| | |] eqn:En; try discriminate; intros H; inversion H; subst; cbn; eapply p_name_nd; eauto.
Qed.

Lemma p_sexp_names rec i e rest :
  (forall j e' r', rec j = POk e' r' -> enames nd e') ->
  p_sexp_with rec i = POk e rest -> enames nd e.
Proof.
  intros Hrec. unfold p_sexp_with.
  destruct (tag (lit "(") i) as [u r1| | |]; try discriminate.
  destruct (p_op (skip_ws r1)) as [o r2| | |] eqn:Eo; try discriminate.
  destruct (rec (skip_ws r2)) as [l r3| | |] eqn:E1; try discriminate.
  destruct (rec (skip_ws r3)) as [r r4| | |] eqn:E2; try discriminate.
  destruct (check_expr o l r) as [e0|] eqn:Ec; try discriminate.
  destruct (tag (lit ")") (skip_ws r4)); try discriminate.
  intros H; inversion H; subst.
  assert (He0 : e = Sexp o l r).
  { unfold check_expr in Ec. destruct o; try (inversion Ec; reflexivity);
      destruct l as [?|?|[] ? ?|]; inversion Ec; reflexivity. }
  subst e. cbn [enames]. split; [eapply Hrec; exact E1|eapply Hrec; exact E2].
Qed.

Lemma p_expr_names f : forall i e rest, p_expr f i = POk e rest -> enames nd e.
Proof.
  induction f as [|f IH]; intros i e rest H; cbn [p_expr] in H; [discriminate|].
  destruct (p_comment (skip_ws i)) as [e1 r1| | |] eqn:Ec.
  { inversion H; subst. unfold p_comment in Ec.
    destruct (tag (lit "#") (skip_ws i)); try discriminate.
    destruct (until_newline _); inversion Ec. exact I. }
  all: destruct (p_sexp_with (p_expr f) (skip_ws i)) as [e2 r2| | |] eqn:Es; try discriminate;
    try (inversion H; subst; eapply p_sexp_names; [exact IH|exact Es]).
  all: destruct (p_command (skip_ws i)) as [e3 r3| | |] eqn:Em;
    try (inversion H; subst; unfold p_command in Em;
         destruct (tag (lit "(") (skip_ws i)); try discriminate;
         destruct (alt_tags _ _); try discriminate;
         destruct (tag (lit ")") _); inversion Em; exact I).
  all: destruct (p_atom (skip_ws i)) as [e4 r4| | |] eqn:Ea; try discriminate;
    inversion H; subst; eapply p_atom_names; exact Ea.
Qed.

(* after desugaring: reserved names only for the two command flags *)
Definition ename_ok (x : name) : Prop := nd x \/ x = lit "__shouldContinue" \/ x = lit "__shouldReport".

Lemma enames_weaken (P Q : name -> Prop) e : (forall x, P x -> Q x) -> enames P e -> enames Q e.
Proof. intros H. induction e as [[b|x|n]|c|o l IHl r IHr|]; cbn [enames]; auto. intros [H1 H2]. auto. Qed.

Lemma desugar_names e : enames nd e -> enames ename_ok (desugar e).
Proof.
  induction e as [[b|x|n]|c|o l IHl r IHr|]; cbn [desugar enames]; auto.
  - intros H. left. exact H.
  - intros _. destruct c; cbn [enames]; split; try exact I; unfold ename_ok; auto.
  - intros [H1 H2]. auto.
Qed.

Definition event_names (ev : event) : Prop := enames ename_ok (ev_flag ev) /\ Forall (enames ename_ok) (ev_body ev).

Lemma p_event_names f i ev rest : p_event f i = POk ev rest ->
  enames nd (ev_flag ev) /\ Forall (enames nd) (ev_body ev).
Proof.
  unfold p_event.
  destruct (tag (lit "(") (skip_ws i)) as [u r1| | |]; try discriminate.
  destruct (tag (lit "when") (skip_ws r1)) as [u2 r2| | |]; try discriminate.
  destruct (p_expr f r2) as [c r3| | |] eqn:Ec; try discriminate.
  destruct (p_exprs f r3) as [body r4| | |] eqn:Eb; try discriminate.
  destruct (tag (lit ")") (skip_ws r4)); try discriminate.
  intros H; inversion H; subst. split; cbn [ev_flag ev_body].
  - eapply p_expr_names; exact Ec.
  - unfold p_exprs in Eb. eapply many1_forall; [|exact Eb]. intros j a0 r0. apply p_expr_names.
Qed.

Lemma p_events_names f i evs rest : p_events f i = POk evs rest ->
  Forall (fun ev => enames nd (ev_flag ev) /\ Forall (enames nd) (ev_body ev)) evs.
Proof.
  unfold p_events. apply many1_forall. intros j ev r H. unfold p_event_item in H.
  destruct (p_event f _) as [e r0| | |] eqn:E; try discriminate. inversion H; subst.
  eapply p_event_names; exact E.
Qed.

(* declarations: names not reserved, types never a name *)
Definition tname_free (t : ty) : Prop := match t with TName _ => False | _ => True end.

Lemma keep_init_free t : tname_free (keep_init t).
Proof. destruct t; exact I. Qed.

Lemma p_decl_name i d r : p_decl i = POk d r -> nd (snd (fst d)).
Proof.
  unfold p_decl.
  destruct (tag (lit "(") (skip_ws i)) as [u r1| | |]; try discriminate.
  destruct (p_volatile (skip_ws r1)) as [vol r2].
  destruct (p_name r2) as [n r3| | |] eqn:En; try discriminate.
  destruct (p_atom (skip_ws r3)) as [e r4| | |]; try discriminate.
  destruct (atom_type e); try discriminate.
  destruct (tag (lit ")") (skip_ws r4)); try discriminate.
  intros H. inversion H; subst. cbn. eapply p_name_nd; eauto.
Qed.

Lemma report_prefix_nd n : nd (lit "Report." ++ n).
Proof. reflexivity. Qed.

Lemma p_defs_decls f i ds rest : p_defs f i = POk ds rest ->
  Forall (fun d : bool * name * ty => nd (snd (fst d)) /\ tname_free (snd d)) ds.
Proof.
  unfold p_defs.
  destruct (tag (lit "(") (skip_ws i)) as [u r0| | |]; try discriminate.
  destruct (tag (lit "def") (skip_ws r0)) as [u1 r1| | |]; try discriminate.
  destruct (many0 p_decl f r1) as [d1 r2| | |] eqn:E1; try discriminate.
  destruct (p_report_struct f r2) as [rs r3| | |] eqn:Er; try discriminate.
  - destruct (many0 p_decl f r3) as [d2 r4| | |] eqn:E2; try discriminate.
    destruct (tag (lit ")") (skip_ws r4)); try discriminate.
    intros H. inversion H; subst. apply Forall_app. split.
    + apply Forall_map. apply Forall_forall. intros [[v n] t] _. cbn. split; [apply report_prefix_nd|apply keep_init_free].
    + apply Forall_map. apply Forall_app. split.
      * eapply Forall_impl; [|eapply (many0_forall (fun d => nd (snd (fst d)))); [|exact E1]].
        -- intros [[v n] t] Hn. cbn in *. split; [exact Hn|apply keep_init_free].
        -- intros j dd r5. apply p_decl_name.
      * eapply Forall_impl; [|eapply (many0_forall (fun d => nd (snd (fst d)))); [|exact E2]].
        -- intros [[v n] t] Hn. cbn in *. split; [exact Hn|apply keep_init_free].
        -- intros j dd r5. apply p_decl_name.
  - destruct (many0 p_decl f r2) as [d2 r4| | |] eqn:E2; try discriminate.
    destruct (tag (lit ")") (skip_ws r4)); try discriminate.
    intros H. inversion H; subst. cbn [app]. apply Forall_map. apply Forall_app. split.
    + eapply Forall_impl; [|eapply (many0_forall (fun d => nd (snd (fst d)))); [|exact E1]].
      * intros [[v n] t] Hn. cbn in *. split; [exact Hn|apply keep_init_free].
      * intros j dd r5. apply p_decl_name.
    + eapply Forall_impl; [|eapply (many0_forall (fun d => nd (snd (fst d)))); [|exact E2]].
      * intros [[v n] t] Hn. cbn in *. split; [exact Hn|apply keep_init_free].
      * intros j dd r5. apply p_decl_name.
Qed.
