(* Parser facts for C10: every parser consumes (its remainder is never longer than its input),
   the fuel S (S (length src)) always suffices, and no parsed expression contains the
   generated-only operator Def. *)
From Portus Require Import Image.
From Coq Require Import ZArith ZifyN ZifyNat ZifyBool.

Definition shorter {A} (r : pres A) (i : list N) : Prop :=
  match r with POk _ rest => (length rest < length i)%nat | _ => True end.
Definition not_longer {A} (r : pres A) (i : list N) : Prop :=
  match r with POk _ rest => (length rest <= length i)%nat | _ => True end.

Lemma skip_ws_le i : (length (skip_ws i) <= length i)%nat.
Proof.
  induction i as [|c r IH]; cbn [skip_ws length]; [lia|].
  destruct (is_ws c); cbn [length]; lia.
Qed.

Lemma tag_len t : forall i u rest, tag t i = POk u rest -> (length rest + length t = length i)%nat.
Proof.
  induction t as [|x t IH]; intros i u rest H; cbn [tag] in H.
  - inversion H; subst. cbn [length]. lia.
  - destruct i as [|y i']; [discriminate|]. destruct (x =? y); [|discriminate].
    apply IH in H. cbn [length]. lia.
Qed.

Lemma tag_outcomes t i : tag t i = PErr \/ exists rest, tag t i = POk tt rest.
Proof.
  revert i; induction t as [|x t IH]; intros i; cbn [tag]; [right; eauto|].
  destruct i as [|y i']; [left; reflexivity|]. destruct (x =? y); [apply IH|left; reflexivity].
Qed.

Lemma take_while_len p i : forall a b, take_while p i = (a, b) -> (length a + length b = length i)%nat.
Proof.
  induction i as [|c r IH]; intros a b H; cbn [take_while] in H.
  - inversion H; subst. reflexivity.
  - destruct (p c).
    + destruct (take_while p r) as [a' b'] eqn:E. inversion H; subst.
      specialize (IH a' b eq_refl). cbn [length]. lia.
    + inversion H; subst. cbn [length]. lia.
Qed.

Lemma strip_prefix_len t : forall i rest, strip_prefix t i = Some rest -> (length rest + length t = length i)%nat.
Proof.
  induction t as [|x t IH]; intros i rest H; cbn [strip_prefix] in H.
  - inversion H; subst. cbn [length]. lia.
  - destruct i as [|y i']; [discriminate|]. destruct (x =? y); [|discriminate].
    apply IH in H. cbn [length]. lia.
Qed.

Lemma alt_tags_shorter {A} (tbl : list (list N * A)) i :
  Forall (fun ta => fst ta <> []) tbl -> shorter (alt_tags tbl i) i.
Proof.
  induction 1 as [|[t a] r Ht Hr IH]; cbn [alt_tags shorter]; [exact I|].
  destruct (strip_prefix t i) as [rest|] eqn:E; [|exact IH].
  cbn [shorter]. apply strip_prefix_len in E. cbn [fst] in Ht. destruct t; [congruence|cbn [length] in E; lia].
Qed.

Lemma alt_tags_in {A} (tbl : list (list N * A)) i a rest :
  alt_tags tbl i = POk a rest -> exists t, In (t, a) tbl.
Proof.
  induction tbl as [|[t b] r IH]; cbn [alt_tags]; [discriminate|].
  destruct (strip_prefix t i) as [rest'|]; intros H.
  - inversion H; subst. exists t. left. reflexivity.
  - destruct (IH H) as (t' & Ht'). exists t'. right. exact Ht'.
Qed.

Lemma alt_tags_no_fuel {A} (tbl : list (list N * A)) i : alt_tags tbl i <> PFuel /\ alt_tags tbl i <> PFail.
Proof.
  induction tbl as [|[t a] r IH]; cbn [alt_tags]; [split; discriminate|].
  destruct (strip_prefix t i); [split; discriminate|exact IH].
Qed.

Lemma op_table_nonempty : Forall (fun ta : list N * op => fst ta <> []) op_table.
Proof.
  apply Forall_forall. intros [t o] Hin.
  assert (H : forallb (fun ta : list N * op => match fst ta with [] => false | _ => true end) op_table = true)
    by (vm_compute; reflexivity).
  pose proof (proj1 (forallb_forall _ _) H (t, o) Hin) as Hn. cbn [fst] in *.
  destruct t; [discriminate|discriminate].
Qed.

Lemma p_op_shorter i : shorter (p_op i) i.
Proof. apply alt_tags_shorter. exact op_table_nonempty. Qed.

Lemma op_table_no_def : forallb (fun ta : list N * op => negb (op_eqb (snd ta) ODef)) op_table = true.
Proof. vm_compute. reflexivity. Qed.

Lemma p_op_not_def i o rest : p_op i = POk o rest -> o <> ODef.
Proof.
  intros H. apply alt_tags_in in H. destruct H as (t & Hin).
  pose proof (proj1 (forallb_forall _ _) op_table_no_def (t, o) Hin) as Hn.
  cbn [snd] in Hn. intros ->. discriminate.
Qed.

Lemma p_num_shorter i : shorter (p_num i) i /\ p_num i <> PFuel.
Proof.
  unfold p_num. destruct (take_while is_digit i) as [ds rest] eqn:E.
  apply take_while_len in E.
  destruct ds as [|d r]; [split; [exact I|discriminate]|].
  destruct (digits_value 0 (d :: r) <? U64_LIMIT); cbn [shorter length] in *; split; try discriminate; try exact I; lia.
Qed.

Lemma p_name_shorter i : shorter (p_name i) i /\ p_name i <> PFuel /\ p_name i <> PFail.
Proof.
  unfold p_name. destruct (take_while is_name_char i) as [s rest] eqn:E.
  apply take_while_len in E.
  destruct s as [|c r]; [repeat split; try exact I; discriminate|].
  destruct (starts_dunder (c :: r)); cbn [shorter length] in *; repeat split; try discriminate; try exact I; lia.
Qed.

Lemma p_atom_shorter i : shorter (p_atom i) i /\ p_atom i <> PFuel.
Proof.
  unfold p_atom.
  destruct (tag (lit "true") i) as [u r| | |] eqn:E1.
  { apply tag_len in E1. cbn [shorter]. cbn [length lit] in E1. split; [|discriminate].
    change (length (lit "true")) with 4%nat in E1. lia. }
  all: destruct (tag (lit "false") i) as [u2 r2| | |] eqn:E2;
    try (apply tag_len in E2; change (length (lit "false")) with 5%nat in E2; cbn [shorter]; split; [lia|discriminate]).
  all: destruct (tag (lit "+infinity") i) as [u3 r3| | |] eqn:E3;
    try (apply tag_len in E3; change (length (lit "+infinity")) with 9%nat in E3; cbn [shorter]; split; [lia|discriminate]).
  all: destruct (p_num_shorter i) as [Hn Hnf]; destruct (p_num i) as [n rn| | |];
    try (cbn [shorter] in *; split; [assumption|discriminate]); try congruence.
  all: destruct (p_name_shorter i) as (Hs & Hsf & Hsl); destruct (p_name i) as [s rs| | |];
    try (cbn [shorter] in *; split; [assumption|discriminate]); try congruence.
Qed.

Lemma p_atom_is_atom i e rest : p_atom i = POk e rest -> exists p, e = Atom p.
Proof.
  unfold p_atom.
  destruct (tag (lit "true") i); [intros H; inversion H; eauto| | |].
  all: destruct (tag (lit "false") i); [intros H; inversion H; eauto| | |].
  all: destruct (tag (lit "+infinity") i); [intros H; inversion H; eauto| | |].
  all: destruct (p_num i); try discriminate; try (intros H; inversion H; eauto; fail).
  all: destruct (p_name i); try discriminate; intros H; inversion H; eauto.
Qed.

Lemma p_command_shorter i : shorter (p_command i) i /\ p_command i <> PFuel /\ p_command i <> PFail.
Proof.
  unfold p_command.
  destruct (tag (lit "(") i) as [u r1| | |] eqn:E1; try (repeat split; try exact I; discriminate).
  apply tag_len in E1. change (length (lit "(")) with 1%nat in E1.
  destruct (alt_tags _ (skip_ws r1)) as [c r3| | |] eqn:E2; try (repeat split; try exact I; discriminate).
  pose proof (alt_tags_shorter [(lit "fallthrough", Fallthrough); (lit "report", CReport)] (skip_ws r1)
                ltac:(repeat constructor; discriminate)) as Hs.
  rewrite E2 in Hs. cbn [shorter] in Hs.
  destruct (tag (lit ")") (skip_ws r3)) as [u4 r4| | |] eqn:E4; try (repeat split; try exact I; discriminate).
  apply tag_len in E4. cbn [shorter].
  pose proof (skip_ws_le r1). pose proof (skip_ws_le r3).
  repeat split; try discriminate. lia.
Qed.

Lemma until_newline_le i rest : until_newline i = Some rest -> (length rest <= length i)%nat.
Proof.
  revert rest; induction i as [|c r IH]; intros rest H; cbn [until_newline] in H; [discriminate|].
  destruct (c =? 10).
  - inversion H; subst. lia.
  - apply IH in H. cbn [length]. lia.
Qed.

Lemma p_comment_shorter i : shorter (p_comment i) i /\ p_comment i <> PFuel /\ p_comment i <> PFail.
Proof.
  unfold p_comment.
  destruct (tag (lit "#") i) as [u r| | |] eqn:E; try (repeat split; try exact I; discriminate).
  apply tag_len in E. change (length (lit "#")) with 1%nat in E.
  destruct (until_newline r) as [rest|] eqn:E2; [|repeat split; try exact I; discriminate].
  apply until_newline_le in E2. cbn [shorter]. repeat split; try discriminate. lia.
Qed.

(* sexp: strictly shorter when the operand parser never lengthens *)
Lemma p_sexp_shorter rec i :
  (forall j, not_longer (rec j) j) -> shorter (p_sexp_with rec i) i.
Proof.
  intros Hrec. unfold p_sexp_with.
  destruct (tag (lit "(") i) as [u r1| | |] eqn:E1; try exact I.
  apply tag_len in E1. change (length (lit "(")) with 1%nat in E1.
  pose proof (p_op_shorter (skip_ws r1)) as Ho.
  destruct (p_op (skip_ws r1)) as [o r2| | |]; try exact I. cbn [shorter] in Ho.
  pose proof (Hrec (skip_ws r2)) as H1.
  destruct (rec (skip_ws r2)) as [l r3| | |]; try exact I. cbn [not_longer] in H1.
  pose proof (Hrec (skip_ws r3)) as H2.
  destruct (rec (skip_ws r3)) as [r r4| | |]; try exact I. cbn [not_longer] in H2.
  destruct (check_expr o l r); try exact I.
  destruct (tag (lit ")") (skip_ws r4)) as [u5 r5| | |] eqn:E5; try exact I.
  apply tag_len in E5. cbn [shorter].
  pose proof (skip_ws_le r1). pose proof (skip_ws_le r2). pose proof (skip_ws_le r3). pose proof (skip_ws_le r4).
  lia.
Qed.

Lemma p_expr_shorter f : forall i, shorter (p_expr f i) i.
Proof.
  induction f as [|f IH]; intros i; cbn [p_expr]; [exact I|].
  pose proof (skip_ws_le i) as Hi.
  destruct (p_comment_shorter (skip_ws i)) as (Hc & _ & _).
  destruct (p_comment (skip_ws i)) as [e r| | |].
  { cbn [shorter] in *. pose proof (skip_ws_le r). lia. }
  all: pose proof (p_sexp_shorter (p_expr f) (skip_ws i)
                    (fun j => ltac:(specialize (IH j); destruct (p_expr f j); cbn in *; try exact I; lia))) as Hs.
  all: destruct (p_sexp_with (p_expr f) (skip_ws i)) as [e r| | |]; try exact I.
  all: try (cbn [shorter] in *; pose proof (skip_ws_le r); lia).
  all: destruct (p_command_shorter (skip_ws i)) as (Hm & _ & _);
    destruct (p_command (skip_ws i)) as [e r| | |];
    try (cbn [shorter] in *; pose proof (skip_ws_le r); lia).
  all: destruct (p_atom_shorter (skip_ws i)) as (Ha & _);
    destruct (p_atom (skip_ws i)) as [e r| | |]; try exact I;
    cbn [shorter] in *; pose proof (skip_ws_le r); lia.
Qed.

Lemma p_expr_not_longer f i : not_longer (p_expr f i) i.
Proof. pose proof (p_expr_shorter f i) as H. destruct (p_expr f i); cbn in *; try exact I. lia. Qed.

(* ---------- fuel ---------- *)

Lemma p_sexp_no_fuel rec i :
  (forall j, (length j < length i)%nat -> rec j <> PFuel) ->
  (forall j, not_longer (rec j) j) ->
  p_sexp_with rec i <> PFuel.
Proof.
  intros Hf Hrec. unfold p_sexp_with.
  destruct (tag (lit "(") i) as [u r1| | |] eqn:E1; try discriminate.
  apply tag_len in E1. change (length (lit "(")) with 1%nat in E1.
  pose proof (p_op_shorter (skip_ws r1)) as Ho.
  destruct (p_op (skip_ws r1)) as [o r2| | |]; try discriminate. cbn [shorter] in Ho.
  pose proof (skip_ws_le r1). pose proof (skip_ws_le r2).
  pose proof (Hf (skip_ws r2) ltac:(lia)) as Hf1.
  pose proof (Hrec (skip_ws r2)) as H1.
  destruct (rec (skip_ws r2)) as [l r3| | |]; try discriminate; try congruence. cbn [not_longer] in H1.
  pose proof (skip_ws_le r3).
  pose proof (Hf (skip_ws r3) ltac:(lia)) as Hf2.
  destruct (rec (skip_ws r3)) as [r r4| | |]; try discriminate; try congruence.
  destruct (check_expr o l r); try discriminate.
  destruct (tag (lit ")") (skip_ws r4)); discriminate.
Qed.

Lemma p_expr_no_fuel f : forall i, (length i < f)%nat -> p_expr f i <> PFuel.
Proof.
  induction f as [|f IH]; intros i Hl; [lia|]. cbn [p_expr].
  pose proof (skip_ws_le i) as Hi.
  destruct (p_comment_shorter (skip_ws i)) as (_ & Hcf & _).
  destruct (p_comment (skip_ws i)) as [e r| | |]; try discriminate; try congruence.
  all: pose proof (p_sexp_no_fuel (p_expr f) (skip_ws i)
                    (fun j Hj => IH j ltac:(lia)) (p_expr_not_longer f)) as Hs.
  all: destruct (p_sexp_with (p_expr f) (skip_ws i)) as [e r| | |]; try discriminate; try congruence.
  all: destruct (p_command (skip_ws i)) as [e r| | |]; try discriminate.
  all: destruct (p_atom_shorter (skip_ws i)) as (_ & Haf);
    destruct (p_atom (skip_ws i)) as [e r| | |]; try discriminate; congruence.
Qed.

Lemma many0_not_longer {A} (p : list N -> pres A) f : (forall j, not_longer (p j) j) ->
  forall i, not_longer (many0 p f i) i.
Proof.
  intros Hp. induction f as [|f IH]; intros i; cbn [many0]; [exact I|].
  pose proof (Hp i) as H1. destruct (p i) as [a rest| | |]; try exact I; [|cbn; lia].
  cbn [not_longer] in H1.
  destruct (Nat.eqb (length rest) (length i)); [exact I|].
  specialize (IH rest). destruct (many0 p f rest) as [l r2| | |]; try exact I.
  cbn [not_longer] in *. lia.
Qed.

Lemma many0_no_fuel {A} (p : list N -> pres A) : forall f i,
  (forall j, (length j <= length i)%nat -> p j <> PFuel) -> (forall j, not_longer (p j) j) ->
  (length i < f)%nat -> many0 p f i <> PFuel.
Proof.
  induction f as [|f IH]; intros i Hp Hnl Hl; [lia|]. cbn [many0].
  pose proof (Hp i ltac:(lia)) as H0. pose proof (Hnl i) as H1.
  destruct (p i) as [a rest| | |]; try discriminate; try congruence.
  cbn [not_longer] in H1.
  destruct (Nat.eqb (length rest) (length i)) eqn:E; [discriminate|].
  apply Nat.eqb_neq in E.
  specialize (IH rest (fun j Hj => Hp j ltac:(lia)) Hnl ltac:(lia)).
  destruct (many0 p f rest); try discriminate. congruence.
Qed.

Lemma many1_not_longer {A} (p : list N -> pres A) f : (forall j, not_longer (p j) j) ->
  forall i, not_longer (many1 p f i) i.
Proof.
  intros Hp i. unfold many1. pose proof (Hp i) as H1.
  destruct (p i) as [a rest| | |]; try exact I. cbn [not_longer] in H1.
  pose proof (many0_not_longer p f Hp rest) as H2.
  destruct (many0 p f rest); try exact I. cbn [not_longer] in *. lia.
Qed.

Lemma many1_no_fuel {A} (p : list N -> pres A) f i :
  (forall j, (length j <= length i)%nat -> p j <> PFuel) -> (forall j, not_longer (p j) j) ->
  (length i < f)%nat -> many1 p f i <> PFuel.
Proof.
  intros Hp Hnl Hl. unfold many1.
  pose proof (Hp i ltac:(lia)) as H0. pose proof (Hnl i) as H1.
  destruct (p i) as [a rest| | |]; try discriminate; try congruence. cbn [not_longer] in H1.
  pose proof (many0_no_fuel p f rest (fun j Hj => Hp j ltac:(lia)) Hnl ltac:(lia)) as H2.
  destruct (many0 p f rest); try discriminate. congruence.
Qed.

Lemma p_volatile_le i : (length (snd (p_volatile i)) <= length i)%nat.
Proof.
  unfold p_volatile. destruct (tag (lit "volatile") (skip_ws i)) as [u r| | |] eqn:E; cbn [snd]; try lia.
  apply tag_len in E. unfold ws1. destruct r as [|c r']; cbn [snd]; [lia|].
  destruct (is_ws c); cbn [snd]; [|lia].
  pose proof (skip_ws_le i). pose proof (skip_ws_le r'). cbn [length] in *. lia.
Qed.

Lemma p_decl_props i : not_longer (p_decl i) i /\ p_decl i <> PFuel.
Proof.
  unfold p_decl.
  destruct (tag (lit "(") (skip_ws i)) as [u r1| | |] eqn:E1; try (split; [exact I|discriminate]).
  apply tag_len in E1.
  destruct (p_volatile (skip_ws r1)) as [vol r2] eqn:Ev.
  pose proof (p_volatile_le (skip_ws r1)) as Hv. rewrite Ev in Hv. cbn [snd] in Hv.
  destruct (p_name_shorter r2) as (Hn & _ & _).
  destruct (p_name r2) as [n r3| | |]; try (split; [exact I|discriminate]). cbn [shorter] in Hn.
  destruct (p_atom_shorter (skip_ws r3)) as (Ha & _).
  destruct (p_atom (skip_ws r3)) as [e r4| | |]; try (split; [exact I|discriminate]). cbn [shorter] in Ha.
  destruct (atom_type e); try (split; [exact I|discriminate]).
  destruct (tag (lit ")") (skip_ws r4)) as [u5 r5| | |] eqn:E5; try (split; [exact I|discriminate]).
  apply tag_len in E5. cbn [not_longer]. split; [|discriminate].
  pose proof (skip_ws_le i). pose proof (skip_ws_le r1). pose proof (skip_ws_le r3).
  pose proof (skip_ws_le r4). pose proof (skip_ws_le r5). lia.
Qed.

Lemma p_report_struct_props f i : not_longer (p_report_struct f i) i /\
  ((length i < f)%nat -> p_report_struct f i <> PFuel).
Proof.
  unfold p_report_struct.
  destruct (tag (lit "(") (skip_ws i)) as [u r1| | |] eqn:E1; try (split; [exact I|discriminate]).
  apply tag_len in E1.
  destruct (tag (lit "Report") (skip_ws r1)) as [u2 r2| | |] eqn:E2; try (split; [exact I|discriminate]).
  apply tag_len in E2.
  pose proof (skip_ws_le i). pose proof (skip_ws_le r1).
  pose proof (many1_not_longer p_decl f (fun j => proj1 (p_decl_props j)) r2) as Hm.
  split.
  - destruct (many1 p_decl f r2) as [ds r3| | |]; try exact I. cbn [not_longer] in Hm.
    destruct (tag (lit ")") (skip_ws r3)) as [u4 r4| | |] eqn:E4; try exact I.
    apply tag_len in E4. cbn [not_longer]. pose proof (skip_ws_le r3). pose proof (skip_ws_le r4). lia.
  - intros Hl.
    pose proof (many1_no_fuel p_decl f r2 (fun j _ => proj2 (p_decl_props j)) (fun j => proj1 (p_decl_props j)) ltac:(lia)) as Hnf.
    destruct (many1 p_decl f r2) as [ds r3| | |]; try discriminate; try congruence.
    destruct (tag (lit ")") (skip_ws r3)); discriminate.
Qed.

Lemma p_defs_props f i : not_longer (p_defs f i) i /\ ((length i < f)%nat -> p_defs f i <> PFuel).
Proof.
  unfold p_defs.
  destruct (tag (lit "(") (skip_ws i)) as [u r0| | |] eqn:E0; try (split; [exact I|discriminate]).
  apply tag_len in E0.
  destruct (tag (lit "def") (skip_ws r0)) as [u1 r1| | |] eqn:E1; try (split; [exact I|discriminate]).
  apply tag_len in E1.
  pose proof (skip_ws_le i). pose proof (skip_ws_le r0).
  pose proof (many0_not_longer p_decl f (fun j => proj1 (p_decl_props j)) r1) as Hm1.
  assert (Hf1 : (length i < f)%nat -> many0 p_decl f r1 <> PFuel).
  { intros Hl. apply many0_no_fuel; [intros j _; apply p_decl_props|intros j; apply p_decl_props|lia]. }
  destruct (many0 p_decl f r1) as [d1 r2| | |]; try (split; [exact I|first [discriminate|intros Hl; specialize (Hf1 Hl); congruence]]).
  cbn [not_longer] in Hm1.
  destruct (p_report_struct_props f r2) as [Hrs Hrsf].
  set (rs := match p_report_struct f r2 with
             | POk ds r => POk (Some ds) r | PErr => POk None r2 | PFail => PFail | PFuel => PFuel end).
  assert (Hrs' : not_longer rs r2 /\ ((length i < f)%nat -> rs <> PFuel)).
  { unfold rs. destruct (p_report_struct f r2); cbn [not_longer] in *; split; try exact I; try lia; try discriminate.
    intros Hl _. apply Hrsf; [lia|reflexivity]. }
  destruct Hrs' as [Hrs1 Hrs2].
  destruct rs as [reports r3| | |]; try (split; [exact I|first [discriminate|intros Hl; specialize (Hrs2 Hl); congruence]]).
  cbn [not_longer] in Hrs1.
  pose proof (many0_not_longer p_decl f (fun j => proj1 (p_decl_props j)) r3) as Hm2.
  assert (Hf2 : (length i < f)%nat -> many0 p_decl f r3 <> PFuel).
  { intros Hl. apply many0_no_fuel; [intros j _; apply p_decl_props|intros j; apply p_decl_props|lia]. }
  destruct (many0 p_decl f r3) as [d2 r4| | |]; try (split; [exact I|first [discriminate|intros Hl; specialize (Hf2 Hl); congruence]]).
  cbn [not_longer] in Hm2.
  destruct (tag (lit ")") (skip_ws r4)) as [u5 r5| | |] eqn:E5; try (split; [exact I|discriminate]).
  apply tag_len in E5. cbn [not_longer]. split; [|discriminate].
  pose proof (skip_ws_le r4). pose proof (skip_ws_le r5). lia.
Qed.

Lemma p_exprs_props f i : not_longer (p_exprs f i) i /\ ((length i < f)%nat -> p_exprs f i <> PFuel).
Proof.
  unfold p_exprs. split.
  - apply many1_not_longer. apply p_expr_not_longer.
  - intros Hl. apply many1_no_fuel; [|apply p_expr_not_longer|exact Hl].
    intros j Hj. apply p_expr_no_fuel. lia.
Qed.

Lemma p_event_props f i : not_longer (p_event f i) i /\ ((length i < f)%nat -> p_event f i <> PFuel).
Proof.
  unfold p_event.
  destruct (tag (lit "(") (skip_ws i)) as [u r1| | |] eqn:E1; try (split; [exact I|discriminate]).
  apply tag_len in E1.
  destruct (tag (lit "when") (skip_ws r1)) as [u2 r2| | |] eqn:E2; try (split; [exact I|discriminate]).
  apply tag_len in E2.
  pose proof (skip_ws_le i). pose proof (skip_ws_le r1).
  pose proof (p_expr_not_longer f r2) as Hc.
  assert (Hcf : (length i < f)%nat -> p_expr f r2 <> PFuel) by (intros Hl; apply p_expr_no_fuel; lia).
  destruct (p_expr f r2) as [c r3| | |]; try (split; [exact I|first [discriminate|intros Hl; specialize (Hcf Hl); congruence]]).
  cbn [not_longer] in Hc.
  destruct (p_exprs_props f r3) as [Hb Hbf].
  destruct (p_exprs f r3) as [body r4| | |]; try (split; [exact I|first [discriminate|intros Hl; specialize (Hbf ltac:(lia)); congruence]]).
  cbn [not_longer] in Hb.
  destruct (tag (lit ")") (skip_ws r4)) as [u5 r5| | |] eqn:E5; try (split; [exact I|discriminate]).
  apply tag_len in E5. cbn [not_longer]. split; [|discriminate].
  pose proof (skip_ws_le r4). pose proof (skip_ws_le r5). lia.
Qed.

Lemma p_event_item_props f i : not_longer (p_event_item f i) i /\ ((length i < f)%nat -> p_event_item f i <> PFuel).
Proof.
  unfold p_event_item.
  set (i1 := skip_ws i).
  set (i2 := match p_comment i1 with POk _ r => r | _ => i1 end).
  assert (Hi2 : (length i2 <= length i)%nat).
  { unfold i2, i1. destruct (p_comment_shorter (skip_ws i)) as (Hc & _).
    pose proof (skip_ws_le i). destruct (p_comment (skip_ws i)); cbn [shorter] in *; lia. }
  destruct (p_event_props f i2) as [He Hef].
  destruct (p_event f i2) as [e r| | |]; cbn [not_longer] in *.
  - split; [|discriminate]. pose proof (skip_ws_le r). lia.
  - split; [exact I|discriminate].
  - split; [exact I|discriminate].
  - split; [exact I|]. intros Hl. apply Hef. lia.
Qed.

Lemma p_events_no_fuel f i : (length i < f)%nat -> p_events f i <> PFuel.
Proof.
  intros Hl. unfold p_events. apply many1_no_fuel; [|intros j; apply p_event_item_props|exact Hl].
  intros j Hj. apply p_event_item_props. lia.
Qed.

(* the fuel new_with_scope supplies always suffices *)
Theorem parse_fuel_sufficient src : new_with_scope src <> inr PEFuel.
Proof.
  unfold new_with_scope, parse_fuel.
  destruct (p_defs_props (S (S (length src))) src) as [Hd Hdf].
  specialize (Hdf ltac:(lia)).
  destruct (p_defs (S (S (length src))) src) as [decls rest| | |]; try discriminate; try congruence.
  cbn [not_longer] in Hd.
  destruct (declare new_report _ scope_new) as [sc1| |]; try discriminate.
  destruct (declare new_control _ sc1) as [sc2| |]; try discriminate.
  pose proof (p_events_no_fuel (S (S (length src))) rest ltac:(lia)) as He.
  destruct (p_events (S (S (length src))) rest) as [evs rest'| | |]; try discriminate; try congruence.
  destruct rest'; discriminate.
Qed.

(* ---------- no parsed expression contains Def ---------- *)

Fixpoint no_def (e : expr) : Prop :=
  match e with
  | Sexp o l r => o <> ODef /\ no_def l /\ no_def r
  | _ => True
  end.

Lemma p_sexp_no_def rec i e rest :
  (forall j e' r', rec j = POk e' r' -> no_def e') ->
  p_sexp_with rec i = POk e rest -> no_def e.
Proof.
  intros Hrec. unfold p_sexp_with.
  destruct (tag (lit "(") i) as [u r1| | |]; try discriminate.
  destruct (p_op (skip_ws r1)) as [o r2| | |] eqn:Eo; try discriminate.
  destruct (rec (skip_ws r2)) as [l r3| | |] eqn:E1; try discriminate.
  destruct (rec (skip_ws r3)) as [r r4| | |] eqn:E2; try discriminate.
  destruct (check_expr o l r) as [e0|] eqn:Ec; try discriminate.
  destruct (tag (lit ")") (skip_ws r4)); try discriminate.
  intros H; inversion H; subst.
  assert (He0 : e = Sexp o l r).
  { unfold check_expr in Ec. destruct o; try (inversion Ec; reflexivity);
      destruct l as [?|?|[] ? ?|]; inversion Ec; reflexivity. }
  subst e. cbn [no_def]. repeat split.
  - eapply p_op_not_def; exact Eo.
  - eapply Hrec; exact E1.
  - eapply Hrec; exact E2.
Qed.

Lemma p_expr_no_def f : forall i e rest, p_expr f i = POk e rest -> no_def e.
Proof.
  induction f as [|f IH]; intros i e rest H; cbn [p_expr] in H; [discriminate|].
  destruct (p_comment (skip_ws i)) as [e1 r1| | |] eqn:Ec.
  { inversion H; subst. unfold p_comment in Ec.
    destruct (tag (lit "#") (skip_ws i)); try discriminate.
    destruct (until_newline _); inversion Ec. exact I. }
  all: destruct (p_sexp_with (p_expr f) (skip_ws i)) as [e2 r2| | |] eqn:Es; try discriminate;
    try (inversion H; subst; eapply p_sexp_no_def; [exact IH|exact Es]).
  all: destruct (p_command (skip_ws i)) as [e3 r3| | |] eqn:Em;
    try (inversion H; subst; unfold p_command in Em;
         destruct (tag (lit "(") (skip_ws i)); try discriminate;
         destruct (alt_tags _ _); try discriminate;
         destruct (tag (lit ")") _); inversion Em; exact I).
  all: destruct (p_atom (skip_ws i)) as [e4 r4| | |] eqn:Ea; try discriminate;
    inversion H; subst; destruct (p_atom_is_atom _ _ _ Ea) as (p & ->); exact I.
Qed.

Lemma desugar_no_def e : no_def e -> no_def (desugar e).
Proof.
  induction e as [p|c|o l IHl r IHr|]; cbn [desugar no_def]; auto.
  - destruct c; cbn [no_def]; repeat split; discriminate.
  - intros (Ho & Hl & Hr). auto.
Qed.
