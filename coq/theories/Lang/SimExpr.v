(* C01, expression level: the instructions compile_expr emits for a well-typed expression outside
   the clobber class, run on the libccp register machine, compute what the source semantics says:
   same value, same variable updates, same fault at the same point. *)
From Portus Require Export CompileFacts.
From Portus Require Import ScopeFacts TotalFacts ImageFacts.

(* ---------- typing environment vs scope ---------- *)

Definition not_tname (t : ty) : Prop := forall s, t <> TName s.

Definition link (g : tenv) (sc : list (name * reg)) : Prop :=
  forall x tk, tget g x = Some tk -> exists r, sc_get sc x = Some r /\ not_tname (reg_type r).

(* a register whose recorded type is still a name is the fresh local of that very name *)
Definition tname_ok (sc : list (name * reg)) : Prop :=
  forall x r s, sc_get sc x = Some r -> reg_type r = TName s -> s = x.

(* recorded types that are no longer names stay so *)
Definition typed_mono (a b : list (name * reg)) : Prop :=
  forall x r, sc_get a x = Some r -> not_tname (reg_type r) ->
              exists r', sc_get b x = Some r' /\ not_tname (reg_type r').

Lemma typed_mono_refl a : typed_mono a a.
Proof. intros x r H1 H2. eauto. Qed.

Lemma typed_mono_trans a b c : typed_mono a b -> typed_mono b c -> typed_mono a c.
Proof. intros H1 H2 x r Hx Ht. destruct (H1 _ _ Hx Ht) as (r1 & G1 & T1). eauto. Qed.

Lemma link_mono g a b : link g a -> typed_mono a b -> link g b.
Proof. intros L M x tk H. destruct (L _ _ H) as (r & G & T). eauto. Qed.

Lemma not_tname_tmp_ty o : not_tname (tmp_ty o).
Proof. unfold tmp_ty. intros s. destruct (is_arith o); discriminate. Qed.

(* a name that typing adds to the environment is a local *)
Lemma ty_expr_adds_locals e : forall g t g', ty_expr g e = Some (t, g') ->
  forall y t1 k1, tget g y = None -> tget g' y = Some (t1, k1) -> k1 = KLocal.
Proof.
  induction e as [p|c| |x o c v Co IHc IHv|x v Pl IHv|u1 u2 v IHt IHv|o l r0 G IHl IHr] using expr_shape_ind; intros g t g' Ht y t1 k1 Hn Hs.
  - destruct p as [b|x|n]; cbn in Ht.
    + inversion Ht; subst; congruence.
    + destruct (tget g x) as [[? ?]|]; inversion Ht; subst; congruence.
    + destruct (lit_ok n); inversion Ht; subst; congruence.
  - discriminate Ht.
  - discriminate Ht.
  - apply ty_cond_inv in Ht; auto. destruct Ht as (tc & g1 & tv & H1 & H2 & _).
    destruct (tget g1 y) as [[t2 k2]|] eqn:E1.
    + assert (k2 = KLocal) by (eapply IHc; eauto). subst.
      rewrite (ty_expr_mono _ _ _ _ H2 y) in Hs by congruence. congruence.
    + eapply IHv; eauto.
  - apply ty_bind_inv in Ht; auto. destruct Ht as (g1 & H1 & [[-> _]|[-> Hn1]]).
    + eapply IHv; eauto.
    + cbn [tget] in Hs. destruct (name_eqb x y) eqn:E; [inversion Hs; reflexivity|]. eapply IHv; eauto.
  - apply ty_nest_inv in Ht. destruct Ht as (_ & g1 & H1 & H2).
    destruct (tget g1 y) as [[t2 k2]|] eqn:E1.
    + assert (k2 = KLocal) by (eapply IHt; eauto). subst.
      rewrite (ty_expr_mono _ _ _ _ H2 y) in Hs by congruence. congruence.
    + eapply IHv; eauto.
  - apply ty_op_inv in Ht; auto. destruct Ht as (_ & tl & g1 & tr & H1 & H2).
    destruct (tget g1 y) as [[t2 k2]|] eqn:E1.
    + assert (k2 = KLocal) by (eapply IHl; eauto). subst.
      rewrite (ty_expr_mono _ _ _ _ H2 y) in Hs by congruence. congruence.
    + eapply IHr; eauto.
Qed.

(* a typed bind expression has a target variable, and that is where its value is read from *)
Lemma typed_bind_target e : forall g t g', ty_expr g e = Some (t, g') ->
  forall a b, e = Sexp OBind a b -> exists x, bind_target e = Some x /\ direct_var e = Some x.
Proof.
  induction e as [p|c| |x o c v Co IHc IHv|x v Pl IHv|u1 u2 v IHt IHv|o l r0 G IHl IHr] using expr_shape_ind;
    intros g t g' Ht a b He; try discriminate He.
  - exists x. split; reflexivity.
  - exists x. split; reflexivity.
  - apply ty_nest_inv in Ht. destruct Ht as (_ & g1 & H1 & _).
    destruct (IHt _ _ _ H1 _ _ eq_refl) as (x & Hb & Hd). exists x. split; [exact Hb|exact Hd].
  - apply ty_op_inv in Ht; auto. destruct Ht as (Vo & _). inversion He; subst o. discriminate Vo.
Qed.

(* the target of a conditional or ewma is a variable that was declared before the expression *)
Lemma ty_cond_target g x o c v t g' : is_condop o = true ->
  ty_expr g (Sexp OBind (Atom (PName x)) (Sexp o c v)) = Some (t, g') -> exists tk, tget g x = Some tk.
Proof.
  intros Co Ht. apply ty_cond_inv in Ht; auto. destruct Ht as (tc & g1 & tv & H1 & H2 & tx & kx & Hx & Hk).
  destruct (tget g x) as [e0|] eqn:E; [eauto|]. exfalso.
  destruct (tget g1 x) as [[t2 k2]|] eqn:E1.
  - assert (k2 = KLocal) by (exact (ty_expr_adds_locals _ _ _ _ H1 x t2 k2 E E1)). subst.
    rewrite (ty_expr_mono _ _ _ _ H2 x) in Hx by congruence. rewrite E1 in Hx. inversion Hx; subst. destruct Hk; discriminate.
  - assert (kx = KLocal) by (exact (ty_expr_adds_locals _ _ _ _ H2 x tx kx E1 Hx)). subst. destruct Hk; discriminate.
Qed.

(* looking a bind target up (or declaring it as a fresh local) keeps the link *)
Lemma atom_name_link g x sc is lft sc1 : compile_expr (Atom (PName x)) sc = Ok (is, lft, sc1) ->
  link g (sc_named sc) -> tname_ok (sc_named sc) ->
  link g (sc_named sc1) /\ tname_ok (sc_named sc1) /\ typed_mono (sc_named sc) (sc_named sc1).
Proof.
  intros C1 L T. apply compile_atom_name in C1. destruct C1 as (-> & Gl & E1 & N1 & Hcase).
  assert (M01 : typed_mono (sc_named sc) (sc_named sc1)).
  { destruct Hcase as [[_ ->]|(Hn & _ & _ & Ho)]; [apply typed_mono_refl|].
    intros y ry Hy Hty. exists ry. split; [|exact Hty]. rewrite Ho; [exact Hy|]. intros ->. congruence. }
  split; [eapply link_mono; eauto|]. split; [|exact M01].
  destruct Hcase as [[_ ->]|(Hn & Htn & _ & Ho)]; [exact T|].
  intros y ry s Hy Hs. destruct (name_eqb y x) eqn:E.
  - apply name_eqb_eq in E. subst y. rewrite Gl in Hy. inversion Hy; subst. congruence.
  - rewrite Ho in Hy; [eapply T; eauto|]. intros ->. rewrite name_eqb_refl in E. discriminate.
Qed.

Theorem typing_link e : forall g t g' sc is r sc',
  ty_expr g e = Some (t, g') -> compile_expr e sc = Ok (is, r, sc') ->
  link g (sc_named sc) -> tname_ok (sc_named sc) ->
  link g' (sc_named sc') /\ tname_ok (sc_named sc') /\ not_tname (reg_type r) /\
  typed_mono (sc_named sc) (sc_named sc').
Proof.
  induction e as [p|c| |x o c v Co IHc IHv|x v Pl IHv|u1 u2 v IHt IHv|o l r0 G IHl IHr] using expr_shape_ind;
    intros g t g' sc is r sc' Ht Hc L T.
  - destruct p as [b|x|n].
    + cbn in Ht, Hc. inversion Ht; inversion Hc; subst. repeat split; auto using typed_mono_refl. intros s; discriminate.
    + cbn [ty_expr] in Ht. destruct (tget g x) as [[tx kx]|] eqn:E; [|discriminate Ht]. inversion Ht; subst; clear Ht.
      destruct (L _ _ E) as (r1 & G1 & T1).
      cbn [compile_expr] in Hc. rewrite G1 in Hc. inversion Hc; subst. repeat split; auto using typed_mono_refl.
    + cbn in Ht, Hc. destruct (lit_ok n); [|discriminate Ht]. inversion Ht; inversion Hc; subst.
      repeat split; auto using typed_mono_refl. intros s; discriminate.
  - discriminate Ht.
  - discriminate Ht.
  - (* conditional / ewma under a bind to a declared variable *)
    destruct (ty_cond_target _ _ _ _ _ _ _ Co Ht) as (tk0 & Hxg).
    apply ty_cond_inv in Ht; auto. destruct Ht as (tc & g1 & tv & H1 & H2 & tx & kx & Hx & Hk).
    destruct (L _ _ Hxg) as (rx & Gx & Tx).
    apply compile_sexp_inv in Hc. destruct Hc as (is1 & lft & sc1 & is2 & rgt & sc2 & C1 & C2 & C3).
    cbn [compile_expr] in C1. rewrite Gx in C1. inversion C1; subst; clear C1.
    apply compile_sexp_inv in C2. destruct C2 as (isc & rc & sca & isv & rv & scb & Cc & Cv & Ct).
    apply lower_tail_condop in Ct; auto. destruct Ct as (-> & -> & ->).
    destruct (IHc _ _ _ _ _ _ _ H1 Cc L T) as (L1 & T1 & _ & M1).
    destruct (IHv _ _ _ _ _ _ _ H2 Cv L1 T1) as (L2 & T2 & _ & M2).
    apply lower_tail_bind in C3. destruct C3 as (lft' & [(s & Hs & _)|(_ & -> & ->)] & -> & _).
    + exfalso. exact (Tx s Hs).
    + repeat split; eauto using typed_mono_trans.
  - (* plain bind *)
    apply ty_bind_inv in Ht; auto. destruct Ht as (g1 & H1 & Hg').
    apply compile_sexp_inv in Hc. destruct Hc as (is1 & lft & sc1 & is2 & rgt & sc2 & C1 & C2 & C3).
    apply compile_atom_name in C1. destruct C1 as (-> & Gl & E1 & N1 & Hcase).
    assert (M01 : typed_mono (sc_named sc) (sc_named sc1)).
    { destruct Hcase as [[_ ->]|(Hn & _ & _ & Ho)]; [apply typed_mono_refl|].
      intros y ry Hy Hty. exists ry. split; [|exact Hty]. rewrite Ho; [exact Hy|]. intros ->. congruence. }
    assert (T01 : tname_ok (sc_named sc1)).
    { destruct Hcase as [[_ ->]|(Hn & Htn & _ & Ho)]; [exact T|].
      intros y ry s Hy Hs. destruct (name_eqb y x) eqn:E.
      - apply name_eqb_eq in E. subst y. rewrite Gl in Hy. inversion Hy; subst. congruence.
      - rewrite Ho in Hy; [eapply T; eauto|]. intros ->. rewrite name_eqb_refl in E. discriminate. }
    destruct (IHv _ _ _ _ _ _ _ H1 C2 (link_mono _ _ _ L M01) T01) as (L1 & T1 & Tr & M1).
    apply lower_tail_bind in C3. destruct C3 as (lft' & Hup & -> & _).
    destruct Hup as [(s & Hs & Hu)|(Hnt & -> & ->)].
    + (* the target's type was still its name: it is retyped with the value's type *)
      assert (s = x) by (eapply T01; eauto). subst s.
      apply update_type_spec in Hu. destruct Hu as ((r0 & G0 & _ & Hty & _) & G1 & Ho & _).
      assert (M23 : typed_mono (sc_named sc2) (sc_named sc')).
      { intros y ry Hy Hyt. destruct (name_eqb y x) eqn:E.
        - apply name_eqb_eq in E. subst y. exists lft'. split; [exact G1|]. rewrite Hty. exact Tr.
        - exists ry. split; [|exact Hyt]. rewrite Ho; [exact Hy|]. intros ->. rewrite name_eqb_refl in E. discriminate. }
      assert (Tl : not_tname (reg_type lft')) by (rewrite Hty; exact Tr).
      repeat split.
      * intros y tk Hy. destruct Hg' as [[-> _]|[-> _]].
        -- eapply link_mono; eauto.
        -- cbn [tget] in Hy. destruct (name_eqb x y) eqn:E.
           ++ apply name_eqb_eq in E. subst y. eauto.
           ++ eapply link_mono; eauto.
      * intros y ry s Hy Hs2. destruct (name_eqb y x) eqn:E.
        -- apply name_eqb_eq in E. subst y. rewrite G1 in Hy. inversion Hy; subst. exfalso. exact (Tl s Hs2).
        -- rewrite Ho in Hy; [eapply T1; eauto|]. intros ->. rewrite name_eqb_refl in E. discriminate.
      * exact Tl.
      * eauto using typed_mono_trans.
    + (* the target already had a value type *)
      destruct (M1 _ _ Gl Hnt) as (r2 & G2 & T2).
      repeat split; eauto using typed_mono_trans.
      intros y tk Hy. destruct Hg' as [[-> _]|[-> _]]; [eauto|].
      cbn [tget] in Hy. destruct (name_eqb x y) eqn:E; [|eauto].
      apply name_eqb_eq in E. subst y. eauto.
  - (* a bind whose target is itself a bind *)
    apply ty_nest_inv in Ht. destruct Ht as (_ & g1 & H1 & H2).
    apply compile_sexp_inv in Hc. destruct Hc as (is1 & lft & sc1 & is2 & rgt & sc2 & C1 & C2 & C3).
    destruct (IHt _ _ _ _ _ _ _ H1 C1 L T) as (L1 & T1 & Tl & M1).
    destruct (IHv _ _ _ _ _ _ _ H2 C2 L1 T1) as (L2 & T2 & _ & M2).
    apply lower_tail_bind in C3. destruct C3 as (lft' & [(s & Hs & _)|(_ & -> & ->)] & -> & _).
    + exfalso. exact (Tl s Hs).
    + repeat split; eauto using typed_mono_trans.
  - (* operators *)
    apply ty_op_inv in Ht; auto. destruct Ht as (Vo & tl & g1 & tr & H1 & H2).
    apply compile_sexp_inv in Hc. destruct Hc as (is1 & lft & sc1 & is2 & rgt & sc2 & C1 & C2 & C3).
    destruct (IHl _ _ _ _ _ _ _ H1 C1 L T) as (L1 & T1 & _ & M1).
    destruct (IHr _ _ _ _ _ _ _ H2 C2 L1 T1) as (L2 & T2 & _ & M2).
    apply lower_tail_valop in C3; auto. destruct C3 as (-> & _ & Hn & _).
    rewrite Hn. repeat split; eauto using typed_mono_trans. cbn [reg_type]. apply not_tname_tmp_ty.
Qed.

(* ---------- the simulation ---------- *)

Lemma dreg_slot a b : dreg_of a = dreg_of b -> slot a = slot b.
Proof.
  destruct a as [i t vol|n|b0|i t|i t|i t|i t vol|i t|], b as [j u w|m|b1|j u|j u|j u|j u w|j u|];
    try destruct vol; try destruct w; cbn; intros H; try reflexivity; try discriminate H; inversion H; reflexivity.
Qed.

Lemma dreg_prim r i t : dreg_of r = dreg_of (Primitive i t) -> exists t', r = Primitive i t'.
Proof.
  destruct r as [j u w|m|b1|j u|j u|j u|j u w|j u|]; try destruct w; cbn; intros H; try discriminate H.
  inversion H; subst. eauto.
Qed.

Definition instr_within (i : instr) : Prop :=
  reg_within (i_res i) /\ reg_within (i_left i) /\ reg_within (i_right i).

Lemma within_writable r f i : reg_within r -> slot r = Some (f, i) -> writable f i.
Proof.
  destruct r as [j u w|m|b1|j u|j u|j u|j u w|j u|]; cbn; intros H E; inversion E; subst; unfold writable; cbn; lia.
Qed.

Lemma var_class_dreg a b : dreg_of a = dreg_of b -> var_class a = var_class b.
Proof. intros H. unfold var_class. rewrite (dreg_slot _ _ H). reflexivity. Qed.

Definition tmp_frame (n : N) (c c' : conn) : Prop := forall j, j < n -> rd c' FTmp j = rd c FTmp j.

Lemma tmp_frame_refl n c : tmp_frame n c c.
Proof. intros j _. reflexivity. Qed.

Lemma tmp_frame_trans n m c1 c2 c3 : n <= m -> tmp_frame n c1 c2 -> tmp_frame m c2 c3 -> tmp_frame n c1 c3.
Proof. intros Hnm H1 H2 j Hj. rewrite H2 by lia. apply H1. exact Hj. Qed.

Section Sim.
  Variable scf : list (name * reg).     (* the scope when lowering has finished *)
  Variable cx : ctx.
  Notation k := (cx_clock cx).
  Notation z := (cx_dp_zero cx).

  Record scf_ok : Prop := mkScfOk {
    ok_named : forall x r, sc_get scf x = Some r -> var_class r = true \/ exists i t, r = Primitive i t;
    ok_prims : forall x, match primitive_index x with
                         | Some i => exists t, sc_get scf x = Some (Primitive i t)
                         | None => forall i t, sc_get scf x <> Some (Primitive i t)
                         end;
    ok_inj : forall x y rx ry, sc_get scf x = Some rx -> sc_get scf y = Some ry -> var_class rx = true ->
                               slot rx = slot ry -> x = y;
    ok_micros : forall x r, sc_get scf x = Some r -> (slot r = Some (FImpl, 3) <-> x = micros_name)
  }.

  (* every variable's register holds the variable's value; the time bases and the measurements agree *)
  Definition R (s : sstate) (c : conn) : Prop :=
    regs_wf (c_regs c) /\
    (forall x r, sc_get scf x = Some r -> var_class r = true -> read_reg k z c (dreg_of r) = env_get (s_env s) x) /\
    c_time_zero c = s_tz s /\ c_prims c = cx_prims cx.

  Hypothesis OK : scf_ok.

  Lemma R_write s c x r r' v : R s c -> sc_get scf x = Some r' -> var_class r' = true ->
    dreg_of r = dreg_of r' -> reg_within r ->
    R (assign cx s x v) (write_reg k c v (dreg_of r)).
  Proof.
    intros (Hwf & Hv & Htz & Hp) Hx Hvc Hd Hw.
    assert (Hs : slot r = slot r') by (apply dreg_slot; exact Hd).
    destruct (slot r') as [[f i]|] eqn:Es; [|unfold var_class in Hvc; rewrite Es in Hvc; discriminate].
    assert (Hwr : writable f i) by (eapply within_writable; eauto).
    split; [|split; [|split]].
    - apply write_reg_wf. exact Hwf.
    - intros y ry Hy Hyc.
      destruct (slot ry) as [[fy iy]|] eqn:Ey; [|unfold var_class in Hyc; rewrite Ey in Hyc; discriminate].
      rewrite (read_reg_slot _ _ _ _ _ _ Ey).
      destruct (name_eqb x y) eqn:E.
      + apply name_eqb_eq in E. subst y. rewrite Hx in Hy. inversion Hy; subst ry. rewrite Es in Ey. inversion Ey; subst.
        rewrite assign_get_same. apply rd_write_same; auto.
      + assert (Hne : x <> y) by (intros ->; rewrite name_eqb_refl in E; discriminate).
        rewrite assign_get_other by exact Hne.
        rewrite (rd_write_other _ _ _ _ _ _ _ _ Hs).
        * rewrite <- (read_reg_slot k z c ry fy iy Ey). apply Hv; auto.
        * intros Heq. inversion Heq; subst. apply Hne. eapply (ok_inj OK); eauto. congruence.
    - rewrite write_reg_tz. rewrite Hs. unfold assign.
      destruct (name_eqb x micros_name) eqn:E.
      + apply name_eqb_eq in E. destruct (ok_micros OK _ _ Hx) as [_ Hm]. rewrite Es in Hm.
        specialize (Hm E). inversion Hm; subst. reflexivity.
      + cbn [s_tz]. destruct f; try exact Htz.
        destruct (N.eq_dec i 3) as [->|Hn].
        * destruct (ok_micros OK _ _ Hx) as [Hm _]. rewrite Es in Hm. rewrite (Hm eq_refl) in E. rewrite name_eqb_refl in E. discriminate.
        * destruct i as [|[[q|q|]|q|]]; try exact Htz. contradiction.
    - rewrite write_reg_prims. exact Hp.
  Qed.

  Lemma R_write_tmp s c v j t : R s c -> R s (write_reg k c v (dreg_of (Tmp j t))).
  Proof.
    intros (Hwf & Hv & Htz & Hp). split; [|split; [|split]].
    - apply write_reg_wf. exact Hwf.
    - intros y ry Hy Hyc.
      destruct (slot ry) as [[fy iy]|] eqn:Ey; [|unfold var_class in Hyc; rewrite Ey in Hyc; discriminate].
      rewrite (read_reg_slot _ _ _ _ _ _ Ey).
      rewrite (rd_write_other k c v (Tmp j t) FTmp j fy iy eq_refl).
      + rewrite <- (read_reg_slot k z c ry fy iy Ey). apply Hv; auto.
      + intros Heq. inversion Heq; subst. unfold var_class in Hyc. rewrite Ey in Hyc. discriminate.
    - rewrite write_reg_tz. exact Htz.
    - rewrite write_reg_prims. exact Hp.
  Qed.

  (* where the value of a sub-expression lives *)
  Definition res_ok (sc sc' : scope) (e : expr) (r : reg) : Prop :=
    match slot r with
    | Some (FTmp, j) => sc_ntmp sc <= j < sc_ntmp sc' /\ bind_target e = None
    | Some _ => exists x r', direct_var e = Some x /\ sc_get scf x = Some r' /\ dreg_of r' = dreg_of r
    | None => match r with RNone => False | _ => True end
    end.

  (* an operand keeps its value while its sibling is evaluated *)
  Lemma operand_stable sc0 sc1 l lft s1 c1 s2 c2 :
    res_ok sc0 sc1 l lft -> R s1 c1 -> R s2 c2 -> tmp_frame (sc_ntmp sc1) c1 c2 ->
    (forall y, direct_var l = Some y -> env_get (s_env s2) y = env_get (s_env s1) y) ->
    read_reg k z c2 (dreg_of lft) = read_reg k z c1 (dreg_of lft).
  Proof.
    intros Hr R1 R2 Hf He. unfold res_ok in Hr.
    destruct (slot lft) as [[f j]|] eqn:Es.
    - rewrite !(read_reg_slot _ _ _ _ _ _ Es).
      destruct f; try (destruct Hr as (y & r' & Hd & Hy & Hdr);
        rewrite <- !(read_reg_slot k z _ lft _ j Es); rewrite <- Hdr;
        assert (Hvc : var_class r' = true) by (unfold var_class; rewrite (dreg_slot _ _ Hdr), Es; reflexivity);
        destruct R1 as (_ & Hv1 & _); destruct R2 as (_ & Hv2 & _);
        rewrite (Hv1 _ _ Hy Hvc), (Hv2 _ _ Hy Hvc); apply He; exact Hd).
      apply Hf. destruct Hr as [Hr _]. lia.
    - destruct R1 as (_ & _ & _ & P1). destruct R2 as (_ & _ & _ & P2).
      destruct lft as [i t vol|n|b|i t|i t|i t|i t vol|i t|]; try discriminate Es; try reflexivity.
      rewrite !read_reg_prim. congruence.
  Qed.

  Lemma read_imm_num c n : lit_ok n = true -> read_reg k z c (dreg_of (ImmNum n)) = lit_value n.
  Proof.
    unfold lit_ok, lit_value. rewrite read_reg_imm_num. intros H. apply orb_true_iff in H. destruct H as [H|H].
    - apply N.ltb_lt in H. destruct (n =? 18446744073709551615) eqn:E; [apply N.eqb_eq in E; lia|].
      apply N.mod_small. lia.
    - rewrite H. apply N.eqb_eq in H. subst n. reflexivity.
  Qed.

  Lemma Forall_app_inv {A} (P : A -> Prop) l1 l2 : Forall P (l1 ++ l2) -> Forall P l1 /\ Forall P l2.
  Proof. intros H. apply Forall_app in H. exact H. Qed.

  Lemma tmp_frame_write_var n c v r f i : slot r = Some (f, i) -> f <> FTmp ->
    tmp_frame n c (write_reg k c v (dreg_of r)).
  Proof.
    intros Hs Hf j _. apply (rd_write_other _ _ _ _ _ _ _ _ Hs). intros E. inversion E. congruence.
  Qed.

  Lemma run_is_snoc c is i :
    run_is k z c (is ++ [i]) =
    match run_is k z c is with
    | inl e => inl e
    | inr c' => match exec_instr k z c' (dinstr_of i) with inl e => inl (e, c') | inr c'' => inr c'' end
    end.
  Proof. rewrite run_is_app. destruct (run_is k z c is); [reflexivity|apply run_is_one]. Qed.

  (* the value of anything but a conditional or ewma has a register *)
  Lemma plain_result v sc is r sc' : plain v -> compile_expr v sc = Ok (is, r, sc') ->
    (forall y r0, sc_get (sc_named sc) y = Some r0 -> r0 <> RNone) -> r <> RNone.
  Proof.
    intros Pl Hc Hsc. destruct v as [[b|x|n]|cm|o l r0|].
    - inversion Hc; discriminate.
    - apply compile_atom_name in Hc. destruct Hc as (_ & Gx & _ & _ & [[G0 _]|(_ & _ & Hs & _)]).
      + eapply Hsc; eauto.
      + intros ->. discriminate Hs.
    - inversion Hc; discriminate.
    - discriminate Hc.
    - cbn in Pl. apply compile_sexp_inv in Hc. destruct Hc as (is1 & lft & sc1 & is2 & rgt & sc2 & _ & _ & C3).
      destruct (is_valop o) eqn:Vo.
      + apply lower_tail_valop in C3; auto. destruct C3 as (-> & _). discriminate.
      + destruct o; try discriminate Vo; try discriminate Pl.
        * apply lower_tail_bind in C3. destruct C3 as (lft' & _ & -> & [(_ & (i & t & w & [-> | ->]) & _)|(_ & Hs)]); try discriminate.
          intros ->. exact Hs.
        * discriminate C3.
    - discriminate Hc.
  Qed.

  Lemma scf_no_rnone sc : sext sc scf -> forall y r0, sc_get sc y = Some r0 -> r0 <> RNone.
  Proof.
    intros X y r0 Hy ->. destruct (X _ _ Hy) as (r' & Gf & Hd).
    destruct (ok_named OK _ _ Gf) as [H|(i & t & ->)].
    - rewrite (var_class_dreg _ _ Hd) in H. discriminate H.
    - discriminate Hd.
  Qed.

  Lemma tmp_frame_write_tmp n c v j t : n <= j -> tmp_frame n c (write_reg k c v (dreg_of (Tmp j t))).
  Proof.
    intros Hn j' Hj. apply (rd_write_other k c v (Tmp j t) FTmp j FTmp j' eq_refl). intros E. inversion E. lia.
  Qed.

  Theorem sim_expr e : forall g t g' sc is r sc',
    ty_expr g e = Some (t, g') -> clobbers e = false ->
    compile_expr e sc = Ok (is, r, sc') ->
    link g (sc_named sc) -> tname_ok (sc_named sc) -> sext (sc_named sc') scf -> sc_ntmp sc <= 8 ->
    Forall instr_within is ->
    res_ok sc sc' e r /\ sc_ntmp sc' <= 8 /\
    forall s c, R s c ->
      match eval cx s e with
      | Val s' v => exists c', run_is k z c is = inr c' /\ R s' c' /\ tmp_frame (sc_ntmp sc) c c' /\
                               read_reg k z c' (dreg_of r) = v
      | Fault zc s' => exists c', run_is k z c is = inl (zc, c') /\ R s' c'
      end.
  Proof.
    induction e as [p|cm| |x o c v Co IHc IHv|x v Pl IHv|u1 u2 v IHt IHv|o l r0 G IHl IHr] using expr_shape_ind;
      intros g t g' sc is r sc' Ht Hcl Hc L T X N8 W.
    - (* atoms *)
      destruct p as [b|x|n].
      + cbn in Hc. inversion Hc; subst. split; [exact I|]. split; [exact N8|].
        intros s c HR. cbn [eval]. exists c; split; [reflexivity|split; [exact HR|split; [apply tmp_frame_refl|]]]. reflexivity.
      + pose proof Hc as Hc0. apply compile_atom_name in Hc. destruct Hc as (-> & Gx & _ & N1 & _).
        destruct (X _ _ Gx) as (r' & Gf & Hd).
        pose proof (ok_prims OK x) as Hp. cbn [eval].
        destruct (primitive_index x) as [i|] eqn:Ei.
        * destruct Hp as (t0 & Hp). rewrite Hp in Gf. inversion Gf; subst r'.
          symmetry in Hd. destruct (dreg_prim _ _ _ Hd) as (t1 & ->).
          split; [exact I|]. split; [lia|].
          intros s c HR. exists c; split; [reflexivity|split; [exact HR|split; [apply tmp_frame_refl|]]].
          rewrite read_reg_prim. destruct HR as (_ & _ & _ & ->). reflexivity.
        * assert (Hvc : var_class r' = true).
          { destruct (ok_named OK _ _ Gf) as [H|(i & t0 & ->)]; [exact H|]. exfalso. exact (Hp _ _ Gf). }
          assert (Hvr : var_class r = true) by (rewrite <- (var_class_dreg _ _ Hd); exact Hvc).
          split.
          { unfold res_ok. unfold var_class in Hvr. destruct (slot r) as [[f j]|]; [|discriminate].
            destruct f; try discriminate Hvr; exists x, r'; cbn [direct_var]; rewrite Ei; auto. }
          split; [lia|].
          intros s c HR. exists c; split; [reflexivity|split; [exact HR|split; [apply tmp_frame_refl|]]].
          rewrite <- Hd. destruct HR as (_ & Hv & _). apply Hv; auto.
      + cbn in Hc. inversion Hc; subst. cbn [ty_expr] in Ht.
        destruct (lit_ok n) eqn:El; [|discriminate Ht].
        split; [exact I|]. split; [exact N8|].
        intros s c HR. cbn [eval]. exists c; split; [reflexivity|split; [exact HR|split; [apply tmp_frame_refl|]]]. apply read_imm_num. exact El.
    - discriminate Ht.
    - discriminate Ht.
    - (* a conditional or ewma under a bind *)
      destruct (ty_cond_target _ _ _ _ _ _ _ Co Ht) as (tk0 & Hxg).
      pose proof Ht as Ht0. apply ty_cond_inv in Ht; auto. destruct Ht as (tc & g1 & tv & H1 & H2 & _).
      rewrite clobbers_cond in Hcl by exact Co.
      apply orb_false_iff in Hcl. destruct Hcl as [Hcl Hclv]. apply orb_false_iff in Hcl. destruct Hcl as [Hdv Hclc].
      destruct (L _ _ Hxg) as (rx & Gx & Tx).
      apply compile_sexp_inv in Hc. destruct Hc as (is1 & lft & sc1 & is2 & rgt & sc2 & C1 & C2 & C3).
      cbn [compile_expr] in C1. rewrite Gx in C1. inversion C1; subst is1 lft sc1; clear C1.
      apply compile_sexp_inv in C2. destruct C2 as (isc & rc & sca & isv & rv & scb & Cc & Cv & Ct).
      apply lower_tail_condop in Ct; auto. destruct Ct as (-> & -> & ->).
      apply lower_tail_bind in C3. destruct C3 as (lft' & Hup & -> & Hshape).
      destruct Hup as [(s0 & Hs0 & _)|(_ & -> & ->)]; [exfalso; exact (Tx s0 Hs0)|].
      destruct Hshape as [(_ & (i0 & t0 & v0 & Hrc) & _ & Hset)|(-> & _)].
      2:{ exfalso. apply Forall_app_inv in W. destruct W as [_ W]. inversion W as [|? ? (_ & _ & Wr) _]. exact Wr. }
      cbn [app] in Hset. rewrite set_last_res_snoc in Hset. cbn [i_op i_left i_right] in Hset. inversion Hset; subst is; clear Hset.
      apply Forall_app_inv in W. destruct W as [W Wl]. apply Forall_app_inv in W. destruct W as [Wc Wv].
      inversion Wl as [|? ? (Wrx & Wrc & Wrv) _]; subst. cbn [i_res i_left i_right] in Wrx, Wrc, Wrv.
      destruct (compile_expr_mono _ _ _ _ _ Cc) as [Ec Nc]. destruct (compile_expr_mono _ _ _ _ _ Cv) as [Ev Nv].
      destruct (typing_link _ _ _ _ _ _ _ _ H1 Cc L T) as (L1 & T1 & _ & _).
      destruct (IHc _ _ _ _ _ _ _ H1 Hclc Cc L T (sext_trans _ _ _ Ev X) N8 Wc) as (Rc & N8a & Sc).
      destruct (IHv _ _ _ _ _ _ _ H2 Hclv Cv L1 T1 X N8a Wv) as (Rv & N8b & Sv).
      destruct (sext_trans _ _ _ (sext_trans _ _ _ Ec Ev) X _ _ Gx) as (r' & Gf & Hd).
      assert (Hvr : var_class rx = true) by (destruct Hrc as [-> | ->]; reflexivity).
      assert (Hvc : var_class r' = true) by (rewrite (var_class_dreg _ _ Hd); exact Hvr).
      assert (Hsl : exists f i, slot rx = Some (f, i) /\ f <> FTmp).
      { destruct Hrc as [-> | ->]; cbn; do 2 eexists; split; eauto; discriminate. }
      destruct Hsl as (fx & ix & Hsx & Hfx).
      assert (Hfin : forall s3 c3, R s3 c3 -> read_reg k z c3 (dreg_of rx) = env_get (s_env s3) x).
      { intros s3 c3 (_ & Hv3 & _). rewrite <- Hd. apply Hv3; auto. }
      split.
      { unfold res_ok. rewrite Hsx. destruct fx; try congruence; exists x, r'; auto. }
      split; [exact N8b|].
      intros s c0 HR. specialize (Sc s c0 HR).
      assert (Hfr0 : forall s1 y, direct_var c = Some y ->
                       env_get (s_env (res_state (eval cx s1 v))) y = env_get (s_env s1) y).
      { intros s1 y Hy. rewrite Hy in Hdv. exact (eval_frame cx v _ _ _ s1 y H2 Hdv). }
      destruct o; try discriminate Co; cbn [eval].
      + (* if *)
        destruct (eval cx s c) as [s1 cv|zc s1] eqn:Ec1.
        2:{ destruct Sc as (c1 & Hrun & HR1). exists c1. split; [|exact HR1]. rewrite run_is_snoc, run_is_app, Hrun. reflexivity. }
        destruct Sc as (c1 & Hrun1 & HR1 & F1 & V1). specialize (Sv s1 c1 HR1).
        destruct (eval cx s1 v) as [s2 vv|zc s2] eqn:Ev1.
        2:{ destruct Sv as (c2 & Hrun2 & HR2). exists c2. split; [|exact HR2]. rewrite run_is_snoc, run_is_app, Hrun1, Hrun2. reflexivity. }
        destruct Sv as (c2 & Hrun2 & HR2 & F2 & V2).
        assert (Hst' : read_reg k z c2 (dreg_of rc) = cv).
        { rewrite (operand_stable _ _ _ _ _ _ _ _ Rc HR1 HR2 F2); [exact V1|].
          intros y Hy. pose proof (Hfr0 s1 y Hy) as Hfr. rewrite Ev1 in Hfr. exact Hfr. }
        eexists. split; [rewrite run_is_snoc, run_is_app, Hrun1, Hrun2, exec_if; reflexivity|].
        rewrite Hst', V2.
        assert (F12 : tmp_frame (sc_ntmp sc) c0 c2) by (eapply tmp_frame_trans; [exact Nc|exact F1|exact F2]).
        destruct (cv =? 0).
        * split; [exact HR2|]. split; [exact F12|]. apply Hfin; exact HR2.
        * assert (HR3 : R (assign cx s2 x vv) (write_reg k c2 vv (dreg_of rx))) by (eapply R_write; eauto).
          split; [exact HR3|]. split; [|apply Hfin; exact HR3].
          eapply tmp_frame_trans; [apply N.le_refl|exact F12|eapply tmp_frame_write_var; eauto].
      + (* !if *)
        destruct (eval cx s c) as [s1 cv|zc s1] eqn:Ec1.
        2:{ destruct Sc as (c1 & Hrun & HR1). exists c1. split; [|exact HR1]. rewrite run_is_snoc, run_is_app, Hrun. reflexivity. }
        destruct Sc as (c1 & Hrun1 & HR1 & F1 & V1). specialize (Sv s1 c1 HR1).
        destruct (eval cx s1 v) as [s2 vv|zc s2] eqn:Ev1.
        2:{ destruct Sv as (c2 & Hrun2 & HR2). exists c2. split; [|exact HR2]. rewrite run_is_snoc, run_is_app, Hrun1, Hrun2. reflexivity. }
        destruct Sv as (c2 & Hrun2 & HR2 & F2 & V2).
        assert (Hst' : read_reg k z c2 (dreg_of rc) = cv).
        { rewrite (operand_stable _ _ _ _ _ _ _ _ Rc HR1 HR2 F2); [exact V1|].
          intros y Hy. pose proof (Hfr0 s1 y Hy) as Hfr. rewrite Ev1 in Hfr. exact Hfr. }
        eexists. split; [rewrite run_is_snoc, run_is_app, Hrun1, Hrun2, exec_notif; reflexivity|].
        rewrite Hst', V2.
        assert (F12 : tmp_frame (sc_ntmp sc) c0 c2) by (eapply tmp_frame_trans; [exact Nc|exact F1|exact F2]).
        destruct (cv =? 0).
        * assert (HR3 : R (assign cx s2 x vv) (write_reg k c2 vv (dreg_of rx))) by (eapply R_write; eauto).
          split; [exact HR3|]. split; [|apply Hfin; exact HR3].
          eapply tmp_frame_trans; [apply N.le_refl|exact F12|eapply tmp_frame_write_var; eauto].
        * split; [exact HR2|]. split; [exact F12|]. apply Hfin; exact HR2.
      + (* ewma *)
        destruct (eval cx s c) as [s1 av|zc s1] eqn:Ec1.
        2:{ destruct Sc as (c1 & Hrun & HR1). exists c1. split; [|exact HR1]. rewrite run_is_snoc, run_is_app, Hrun. reflexivity. }
        destruct Sc as (c1 & Hrun1 & HR1 & F1 & V1). specialize (Sv s1 c1 HR1).
        destruct (eval cx s1 v) as [s2 bv|zc s2] eqn:Ev1.
        2:{ destruct Sv as (c2 & Hrun2 & HR2). exists c2. split; [|exact HR2]. rewrite run_is_snoc, run_is_app, Hrun1, Hrun2. reflexivity. }
        destruct Sv as (c2 & Hrun2 & HR2 & F2 & V2).
        assert (Hst' : read_reg k z c2 (dreg_of rc) = av).
        { rewrite (operand_stable _ _ _ _ _ _ _ _ Rc HR1 HR2 F2); [exact V1|].
          intros y Hy. pose proof (Hfr0 s1 y Hy) as Hfr. rewrite Ev1 in Hfr. exact Hfr. }
        eexists. split; [rewrite run_is_snoc, run_is_app, Hrun1, Hrun2, exec_ewma; reflexivity|].
        rewrite Hst', V2, (Hfin _ _ HR2).
        assert (HR3 : R (assign cx s2 x (ewma av (env_get (s_env s2) x) bv))
                        (write_reg k c2 (ewma av (env_get (s_env s2) x) bv) (dreg_of rx))).
        { eapply R_write; eauto. }
        split; [exact HR3|]. split; [|apply Hfin; exact HR3].
        eapply tmp_frame_trans; [apply N.le_refl| |eapply tmp_frame_write_var; eauto].
        eapply tmp_frame_trans; [exact Nc|exact F1|exact F2].
    - (* plain bind *)
      apply ty_bind_inv in Ht; auto. destruct Ht as (g1 & H1 & _).
      rewrite clobbers_bind in Hcl by exact Pl.
      apply compile_sexp_inv in Hc. destruct Hc as (is1 & lft & sc1 & is2 & rgt & sc2 & C1 & C2 & C3).
      destruct (atom_name_link g _ _ _ _ _ C1 L T) as (L01 & T01 & _).
      apply compile_atom_name in C1. destruct C1 as (-> & Gl & E01 & N01 & _).
      destruct (compile_expr_mono _ _ _ _ _ C2) as [E12 N12].
      apply lower_tail_bind in C3. destruct C3 as (lft' & Hup & -> & Hshape).
      assert (Hx' : (exists r', sc_get scf x = Some r' /\ dreg_of r' = dreg_of lft') /\
                    sext (sc_named sc2) (sc_named sc') /\ sc_ntmp sc' = sc_ntmp sc2).
      { destruct (E12 _ _ Gl) as (r2 & G2 & Hd2).
        destruct Hup as [(s0 & Hs0 & Hu)|(_ & -> & ->)].
        - assert (s0 = x) by (eapply T01; eauto). subst s0.
          pose proof (update_type_ext _ _ _ _ _ Hu) as E23.
          apply update_type_spec in Hu. destruct Hu as (_ & G1 & _ & Nt & _).
          destruct (X _ _ G1) as (r' & Gf & Hd). split; [eauto|]. split; [exact E23|exact Nt].
        - destruct (X _ _ G2) as (r' & Gf & Hd). split; [|split; [apply sext_refl|reflexivity]].
          exists r'. split; [exact Gf|congruence]. }
      destruct Hx' as ((r' & Gf & Hd) & E23 & N23).
      assert (Hrg : rgt <> RNone).
      { eapply plain_result; eauto. apply scf_no_rnone. exact (sext_trans _ _ _ E12 (sext_trans _ _ _ E23 X)). }
      destruct Hshape as [(-> & _)|(-> & Hsl)]; [congruence|].
      cbn [app] in W. apply Forall_app_inv in W. destruct W as [W2 Wl].
      inversion Wl as [|? ? (Wx & _ & Wr) _]; subst. cbn [i_res i_right] in Wx, Wr.
      assert (N8' : sc_ntmp sc1 <= 8) by lia.
      destruct (IHv _ _ _ _ _ _ _ H1 Hcl C2 L01 T01 (sext_trans _ _ _ E23 X) N8' W2) as (Rv & N8b & Sv).
      destruct (slot lft') as [[fx ix]|] eqn:Hsx; [|contradiction].
      assert (Hvc : var_class r' = true).
      { destruct (ok_named OK _ _ Gf) as [H|(i & t0 & ->)]; [exact H|]. apply dreg_slot in Hd. rewrite Hsx in Hd. discriminate Hd. }
      assert (Hfx : fx <> FTmp).
      { intros ->. rewrite (var_class_dreg _ _ Hd) in Hvc. unfold var_class in Hvc. rewrite Hsx in Hvc. discriminate Hvc. }
      split.
      { unfold res_ok. rewrite Hsx. destruct fx; try congruence; exists x, r'; auto. }
      split; [lia|].
      intros s c HR. rewrite eval_bind_plain by exact Pl. specialize (Sv s c HR). cbn [app].
      destruct (eval cx s v) as [s1 vv|zc s1].
      2:{ destruct Sv as (c2 & Hrun & HR2). exists c2. split; [|exact HR2]. rewrite run_is_snoc, Hrun. reflexivity. }
      destruct Sv as (c2 & Hrun & HR2 & F2 & V2).
      eexists. split; [rewrite run_is_snoc, Hrun, exec_bind; reflexivity|]. rewrite V2.
      split; [eapply R_write; eauto|]. split.
      + eapply tmp_frame_trans; [apply N.le_refl| |eapply tmp_frame_write_var; eauto]. rewrite <- N01. exact F2.
      + rewrite (read_reg_slot _ _ _ _ _ _ Hsx). apply rd_write_same; [exact (proj1 HR2)|exact Hsx|exact (within_writable _ _ _ Wx Hsx)].
    - (* a bind whose target is itself a bind: the inner bind runs first, then the value, then the store *)
      pose proof Ht as Ht0. apply ty_nest_inv in Ht. destruct Ht as (Pl & g1 & H1 & H2).
      rewrite clobbers_nest in Hcl.
      apply orb_false_iff in Hcl. destruct Hcl as [Hcl Hclv]. apply orb_false_iff in Hcl. destruct Hcl as [Hdv Hclt].
      apply compile_sexp_inv in Hc. destruct Hc as (is1 & lft & sc1 & is2 & rgt & sc2 & C1 & C2 & C3).
      destruct (compile_expr_mono _ _ _ _ _ C1) as [E01 N01]. destruct (compile_expr_mono _ _ _ _ _ C2) as [E12 N12].
      destruct (typing_link _ _ _ _ _ _ _ _ H1 C1 L T) as (L1 & T1 & Tl & _).
      apply lower_tail_bind in C3. destruct C3 as (lft' & Hup & -> & Hshape).
      destruct Hup as [(s0 & Hs0 & _)|(_ & -> & ->)]; [exfalso; exact (Tl s0 Hs0)|].
      assert (Hrg : rgt <> RNone).
      { eapply plain_result; eauto. apply scf_no_rnone. exact (sext_trans _ _ _ E12 X). }
      destruct Hshape as [(-> & _)|(-> & Hsl)]; [congruence|].
      apply Forall_app_inv in W. destruct W as [W Wl]. apply Forall_app_inv in W. destruct W as [W1 W2].
      inversion Wl as [|? ? (Wx & _ & Wr) _]; subst. cbn [i_res i_right] in Wx, Wr.
      destruct (IHt _ _ _ _ _ _ _ H1 Hclt C1 L T (sext_trans _ _ _ E12 X) N8 W1) as (Rt & N8a & St).
      destruct (IHv _ _ _ _ _ _ _ H2 Hclv C2 L1 T1 X N8a W2) as (Rv & N8b & Sv).
      destruct (slot lft) as [[fx ix]|] eqn:Hsx; [|contradiction].
      destruct (typed_bind_target _ _ _ _ H1 _ _ eq_refl) as (x & Hbt & Hdv').
      assert (Hx' : fx <> FTmp /\ exists r', sc_get scf x = Some r' /\ dreg_of r' = dreg_of lft).
      { unfold res_ok in Rt. rewrite Hsx in Rt.
        destruct fx; try (destruct Rt as (x0 & r' & Hd0 & Gf & Hd); rewrite Hdv' in Hd0; inversion Hd0; subst x0; split; [discriminate|eauto]).
        destruct Rt as [_ Hnone]. rewrite Hbt in Hnone. discriminate Hnone. }
      destruct Hx' as (Hfx & r' & Gf & Hd).
      assert (Hvc : var_class r' = true).
      { rewrite (var_class_dreg _ _ Hd). unfold var_class. rewrite Hsx. destruct fx; try reflexivity. congruence. }
      split.
      { unfold res_ok. rewrite Hsx. destruct fx; try congruence; exists x, r'; (split; [exact Hdv'|auto]). }
      split; [lia|].
      intros s c HR. rewrite eval_nest. specialize (St s c HR).
      destruct (eval cx s (Sexp OBind u1 u2)) as [s1 a|zc s1] eqn:Et.
      2:{ destruct St as (c1 & Hrun & HR1). exists c1. split; [|exact HR1]. rewrite run_is_snoc, run_is_app, Hrun. reflexivity. }
      destruct St as (c1 & Hrun1 & HR1 & F1 & V1). specialize (Sv s1 c1 HR1).
      destruct (eval cx s1 v) as [s2 vv|zc s2] eqn:Ev.
      2:{ destruct Sv as (c2 & Hrun2 & HR2). exists c2. split; [|exact HR2]. rewrite run_is_snoc, run_is_app, Hrun1, Hrun2. reflexivity. }
      destruct Sv as (c2 & Hrun2 & HR2 & F2 & V2).
      rewrite Hbt.
      eexists. split; [rewrite run_is_snoc, run_is_app, Hrun1, Hrun2, exec_bind; reflexivity|]. rewrite V2.
      split; [eapply R_write; eauto|]. split.
      + eapply tmp_frame_trans; [apply N.le_refl| |eapply tmp_frame_write_var; eauto].
        eapply tmp_frame_trans; [exact N01|exact F1|exact F2].
      + rewrite (read_reg_slot _ _ _ _ _ _ Hsx). apply rd_write_same; [exact (proj1 HR2)|exact Hsx|exact (within_writable _ _ _ Wx Hsx)].
    - (* arithmetic, comparison and logical operators *)
      apply ty_op_inv in Ht; auto. destruct Ht as (Vo & tl & g1 & tr & H1 & H2).
      rewrite clobbers_op in Hcl by exact G.
      apply orb_false_iff in Hcl. destruct Hcl as [Hcl Hclr]. apply orb_false_iff in Hcl. destruct Hcl as [Hdv Hcll].
      apply compile_sexp_inv in Hc. destruct Hc as (is1 & lft & sc1 & is2 & rgt & sc2 & C1 & C2 & C3).
      apply lower_tail_valop in C3; auto. destruct C3 as (-> & -> & Hn & Nt & _).
      apply Forall_app_inv in W. destruct W as [W Wl]. apply Forall_app_inv in W. destruct W as [W1 W2].
      inversion Wl as [|? ? (Wt & _ & _) _]; subst. cbn [i_res reg_within] in Wt.
      destruct (compile_expr_mono _ _ _ _ _ C1) as [E01 N01]. destruct (compile_expr_mono _ _ _ _ _ C2) as [E12 N12].
      destruct (typing_link _ _ _ _ _ _ _ _ H1 C1 L T) as (L1 & T1 & _ & _).
      assert (X2 : sext (sc_named sc2) scf) by (rewrite <- Hn; exact X).
      destruct (IHl _ _ _ _ _ _ _ H1 Hcll C1 L T (sext_trans _ _ _ E12 X2) N8 W1) as (Rl & N8a & Sl).
      destruct (IHr _ _ _ _ _ _ _ H2 Hclr C2 L1 T1 X2 N8a W2) as (Rr & N8b & Sr).
      assert (Hj : sc_ntmp sc2 mod 256 = sc_ntmp sc2) by (apply N.mod_small; lia).
      rewrite Hj in *.
      split; [unfold res_ok; cbn [slot]; split; [lia|destruct o; try reflexivity; discriminate Vo]|]. split; [lia|].
      intros s c HR. rewrite eval_op by exact G. specialize (Sl s c HR).
      destruct (eval cx s l) as [s1 a|zc s1] eqn:El.
      2:{ destruct Sl as (c1 & Hrun & HR1). exists c1. split; [|exact HR1]. rewrite run_is_snoc, run_is_app, Hrun. reflexivity. }
      destruct Sl as (c1 & Hrun1 & HR1 & F1 & V1). specialize (Sr s1 c1 HR1).
      destruct (eval cx s1 r0) as [s2 b|zc s2] eqn:Er.
      2:{ destruct Sr as (c2 & Hrun2 & HR2). exists c2. split; [|exact HR2]. rewrite run_is_snoc, run_is_app, Hrun1, Hrun2. reflexivity. }
      destruct Sr as (c2 & Hrun2 & HR2 & F2 & V2).
      assert (Hst : read_reg k z c2 (dreg_of lft) = a).
      { rewrite (operand_stable _ _ _ _ _ _ _ _ Rl HR1 HR2 F2); [exact V1|].
        intros y Hy. rewrite Hy in Hdv. pose proof (eval_frame cx r0 _ _ _ s1 y H2 Hdv) as Hfr. rewrite Er in Hfr. exact Hfr. }
      rewrite run_is_snoc, run_is_app, Hrun1, Hrun2, exec_valop by exact Vo. rewrite Hst, V2.
      destruct (op_sem o a b) as [ze|v0].
      + exists c2. split; [reflexivity|exact HR2].
      + eexists. split; [reflexivity|]. split; [apply R_write_tmp; exact HR2|]. split.
        * eapply tmp_frame_trans; [apply N.le_refl| |apply tmp_frame_write_tmp; lia].
          eapply tmp_frame_trans; [exact N01|exact F1|exact F2].
        * rewrite (read_reg_slot k z _ (Tmp (sc_ntmp sc2) (tmp_ty o)) FTmp (sc_ntmp sc2) eq_refl).
          apply rd_write_same; [exact (proj1 HR2)|reflexivity|unfold writable; cbn; lia].
  Qed.

End Sim.
