(* C14: numeric literals reach the datapath unchanged or are rejected. *)
From Portus Require Import Image.
From Coq Require Import ZArith ZifyN ZifyNat ZifyBool.

(* ---------- lexical half: digit strings ---------- *)

Definition all_digits (ds : list N) : Prop := Forall (fun c => is_digit c = true) ds.

Definition dec_value (ds : list N) : N :=   (* the number a digit string denotes, most significant first *)
  fold_left (fun acc d => acc * 10 + (d - 48)) ds 0.

Lemma digits_value_fold acc ds : digits_value acc ds = fold_left (fun a d => a * 10 + (d - 48)) ds acc.
Proof. revert acc; induction ds as [|d r IH]; intros acc; cbn; auto. Qed.

Lemma take_while_digits ds rest :
  all_digits ds -> (match rest with c :: _ => is_digit c = false | [] => True end) ->
  take_while is_digit (ds ++ rest) = (ds, rest).
Proof.
  intros Hd Hr. induction Hd as [|d r Hdig Hrest IH]; cbn [app take_while].
  - destruct rest as [|c rest']; [reflexivity|]. cbn [take_while]. rewrite Hr. reflexivity.
  - rewrite Hdig, IH. reflexivity.
Qed.

(* a numeral (maximal digit run) denotes its value when that fits 64 bits, and is otherwise a
   hard parse failure: it is never handed to the name parser *)
Theorem p_num_numeral ds rest : ds <> [] -> all_digits ds ->
  (match rest with c :: _ => is_digit c = false | [] => True end) ->
  p_num (ds ++ rest) = if dec_value ds <? U64_LIMIT then POk (dec_value ds) rest else PFail.
Proof.
  intros Hne Hd Hr. unfold p_num. rewrite (take_while_digits ds rest Hd Hr).
  destruct ds as [|d r]; [congruence|].
  rewrite digits_value_fold. reflexivity.
Qed.

Lemma tag_digit_start t d r : is_digit d = true ->
  (match t with x :: _ => is_digit x = false | [] => False end) -> tag t (d :: r) = PErr.
Proof.
  intros Hd Ht. destruct t as [|x t']; [contradiction|]. cbn [tag].
  destruct (x =? d) eqn:E; [|reflexivity]. apply N.eqb_eq in E. subst. congruence.
Qed.

Theorem p_atom_numeral ds rest : ds <> [] -> all_digits ds ->
  (match rest with c :: _ => is_digit c = false | [] => True end) ->
  p_atom (ds ++ rest) =
  if dec_value ds <? U64_LIMIT then POk (Atom (PNum (dec_value ds))) rest else PFail.
Proof.
  intros Hne Hd Hr. unfold p_atom.
  destruct ds as [|d r]; [congruence|]. inversion Hd as [|? ? Hdig Hrest]; subst.
  cbn [app].
  rewrite (tag_digit_start (lit "true") d (r ++ rest) Hdig) by reflexivity.
  rewrite (tag_digit_start (lit "false") d (r ++ rest) Hdig) by reflexivity.
  rewrite (tag_digit_start (lit "+infinity") d (r ++ rest) Hdig) by reflexivity.
  change (d :: r ++ rest) with ((d :: r) ++ rest).
  rewrite (p_num_numeral (d :: r) rest Hne Hd Hr).
  destruct (dec_value (d :: r) <? U64_LIMIT); reflexivity.
Qed.

(* ---------- encoding half: the 32-bit immediate ---------- *)

(* what libccp reads back from an immediate register: the 32-bit field, zero-extended *)
Definition libccp_imm (payload : N) : N := payload.
Definition INFINITY32 : N := 4294967295.

Definition denote (n : N) : N := if n =? U64_MAX then INFINITY32 else n.

Theorem imm_small n : n < IMM_LIMIT -> reg_code (ImmNum n) = Ok (1, n).
Proof.
  intros H. unfold reg_code, IMM_LIMIT in *.
  replace (n <? 2147483648) with true by (symmetry; apply N.ltb_lt; exact H).
  rewrite orb_true_r. rewrite N.mod_small by lia. reflexivity.
Qed.

Theorem imm_infinity : reg_code (ImmNum U64_MAX) = Ok (1, INFINITY32).
Proof. vm_compute. reflexivity. Qed.

Theorem imm_unencodable n : IMM_LIMIT <= n -> n <> U64_MAX -> reg_code (ImmNum n) = Err.
Proof.
  intros H1 H2. unfold reg_code.
  replace (n =? U64_MAX) with false by (symmetry; apply N.eqb_neq; exact H2).
  replace (n <? IMM_LIMIT) with false by (symmetry; apply N.ltb_ge; exact H1).
  reflexivity.
Qed.

(* whenever an immediate is encoded at all, the datapath reads back exactly its denotation *)
Theorem imm_exact n c v : reg_code (ImmNum n) = Ok (c, v) ->
  c = 1 /\ libccp_imm v = denote n /\ v < 4294967296.
Proof.
  unfold reg_code, denote, libccp_imm. destruct (n =? U64_MAX) eqn:E; cbn [orb].
  - apply N.eqb_eq in E. subst. intros H; inversion H; subst. vm_compute. repeat split; reflexivity.
  - destruct (n <? IMM_LIMIT) eqn:E2; [|discriminate].
    intros H; inversion H; subst. unfold IMM_LIMIT in E2.
    rewrite N.mod_small by lia. repeat split; lia.
Qed.

Theorem ser_reg_imm_bytes n bs : ser_reg (ImmNum n) = Ok bs ->
  bs = 1 :: enc_le 4 (denote n) /\ le32 bs 1 = denote n.
Proof.
  unfold ser_reg. intros H. apply bind_ok_inv in H. destruct H as ([c v] & Hc & H).
  destruct (imm_exact _ _ _ Hc) as (-> & Hv & Hlt). unfold libccp_imm in Hv. subst v.
  cbv beta match in H.
  assert (Hbs : bs = 1 :: enc_le 4 (denote n)) by congruence. clear H. subst bs.
  split; [reflexivity|].
  unfold le32, le_at. cbn [plus].
  replace (sub (1 :: enc_le 4 (denote n)) 1 5) with (enc_le 4 (denote n)).
  - rewrite dec_enc_le_small; [reflexivity|exact Hlt].
  - unfold sub. cbn [skipn Nat.sub]. rewrite <- (enc_le_length 4 (denote n)) at 2.
    rewrite firstn_all. reflexivity.
Qed.

(* ---------- no silent acceptance: a serialized image only contains encodable immediates ---------- *)

Definition imm_encodable (r : reg) : Prop :=
  match r with
  | ImmNum n => n < IMM_LIMIT \/ n = U64_MAX
  | _ => True
  end.

Lemma ser_reg_img_encodable r bs : ser_reg_img r = Ok bs -> imm_encodable r.
Proof.
  destruct r as [i t vol|n|b|i t|i t|i t|i t vol|i t|]; cbn [imm_encodable]; auto.
  unfold ser_reg_img, ser_reg. intros H. apply bind_ok_inv in H. destruct H as ([c v] & Hc & _).
  unfold reg_code in Hc. destruct (n =? U64_MAX) eqn:E1; cbn [orb] in Hc.
  - right. apply N.eqb_eq. exact E1.
  - destruct (n <? IMM_LIMIT) eqn:E2; [|discriminate]. left. lia.
Qed.

Theorem serialized_immediates_encodable is : forall bytes, ser_instrs is = Ok bytes ->
  Forall (fun i => imm_encodable (i_res i) /\ imm_encodable (i_left i) /\ imm_encodable (i_right i)) is.
Proof.
  induction is as [|i r IH]; intros bytes H; cbn [ser_instrs] in H; [constructor|].
  apply bind_ok_inv in H. destruct H as (a & Ha & H).
  apply bind_ok_inv in H. destruct H as (b & Hb & _).
  constructor; [|eapply IH; exact Hb].
  unfold ser_instr in Ha.
  apply bind_ok_inv in Ha. destruct Ha as (o & _ & Ha).
  apply bind_ok_inv in Ha. destruct Ha as (x & Hx & Ha).
  apply bind_ok_inv in Ha. destruct Ha as (y & Hy & Ha).
  apply bind_ok_inv in Ha. destruct Ha as (z & Hz & _).
  repeat split; eapply ser_reg_img_encodable; eassumption.
Qed.

(* overrides use the same path: update_type stores TNum (Some v) and the DEF preamble turns it
   into ImmNum v, which goes through the same encoder *)
Lemma def_instrs_imm l : Forall (fun i => i_op i = ODef /\
   match i_right i with
   | ImmNum n => exists r k v, i_res i = r /\ (r = Report k (TNum (Some n)) v \/ r = Control k (TNum (Some n)) v)
   | ImmBool _ => True
   | _ => False
   end) (def_instrs l).
Proof.
  induction l as [|[n r] rest IH]; cbn [def_instrs]; [constructor|].
  destruct r as [i t vol|x|b|i t|i t|i t|i t vol|i t|]; try exact IH.
  - destruct t as [[bb|]|s|[nn|]|]; try exact IH; constructor; try exact IH; cbn; split; auto.
    exists (Control i (TNum (Some nn)) vol), i, vol. auto.
  - destruct t as [[bb|]|s|[nn|]|]; try exact IH; constructor; try exact IH; cbn; split; auto.
    exists (Report i (TNum (Some nn)) vol), i, vol. auto.
Qed.
