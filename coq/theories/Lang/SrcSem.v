(* The documented semantics of the datapath language, as a tree-walking evaluator over NAMES:
   no registers, no temporaries, no placeholders, no flag retargeting.  It shares with the
   machine model only the arithmetic of the value operators (validated against the C code) and
   the reading of primitives.  This is a specification; nothing in portus is modelled here. *)
From Portus Require Export Ast Machine.

Definition env := list (name * N).

Fixpoint env_get (e : env) (n : name) : N :=
  match e with
  | [] => 0                       (* a variable never written reads 0 *)
  | (k, v) :: r => if name_eqb k n then v else env_get r n
  end.

Fixpoint env_set (e : env) (n : name) (v : N) : env :=
  match e with
  | [] => [(n, v)]
  | (k, w) :: r => if name_eqb k n then (k, v) :: r else (k, w) :: env_set r n v
  end.

(* what one invocation sees of the outside world *)
Record ctx := mkCtx { cx_clock : N; cx_dp_zero : N; cx_prims : prims }.

Record sstate := mkS { s_env : env; s_tz : N }.     (* variables, and the time base of Micros *)

Inductive res := Val (s : sstate) (v : N) | Fault (code : Z) (s : sstate).

Definition primitive_index (n : name) : option N :=
  (fix go (l : list (list N * N)) :=
     match l with
     | [] => None
     | (k, i) :: r => if name_eqb k n then Some i else go r
     end)
    [ (lit "Ack.bytes_acked", 0); (lit "Ack.bytes_misordered", 1); (lit "Ack.ecn_bytes", 2);
      (lit "Ack.ecn_packets", 3); (lit "Ack.lost_pkts_sample", 4); (lit "Ack.now", 5);
      (lit "Ack.packets_acked", 6); (lit "Ack.packets_misordered", 7); (lit "Flow.bytes_in_flight", 8);
      (lit "Flow.bytes_pending", 9); (lit "Flow.packets_in_flight", 10); (lit "Flow.rate_incoming", 11);
      (lit "Flow.rate_outgoing", 12); (lit "Flow.rtt_sample_us", 13); (lit "Flow.was_timeout", 14) ].

Definition lit_value (n : N) : N := if n =? 18446744073709551615 then INF32 else n.

(* the value operators: result or arithmetic fault *)
Definition op_sem (o : op) (a b : N) : Z + N :=
  match o with
  | OAdd => let r := wrap64 (a + b) in if r <? a then inl (-91)%Z else inr r
  | OSub => let r := wrap64 (a + W64 - b) in if a <? r then inl (-94)%Z else inr r
  | OMul | OAnd => let r := wrap64 (a * b) in if (r <? a) && (0 <? b) then inl (-93)%Z else inr r
  | ODiv => if b =? 0 then inl (-92)%Z else inr (a / b)
  | OMax | OOr => inr (if b <? a then a else b)
  | OMin => inr (if a <? b then a else b)
  | OMaxWrap => inr (maxwrap a b)
  | OEquiv => inr (if a =? b then 1 else 0)
  | OGt => inr (if b <? a then 1 else 0)
  | OLt => inr (if a <? b then 1 else 0)
  | _ => inr 0
  end.

Definition micros_name : name := lit "Micros".

(* assignment; binding Micros moves the time base so that Micros reads the bound value now *)
Definition assign (cx : ctx) (s : sstate) (x : name) (v : N) : sstate :=
  if name_eqb x micros_name then mkS (env_set (s_env s) x v) (wrap64 (cx_clock cx + W64 - v))
  else mkS (env_set (s_env s) x v) (s_tz s).

(* the variable a bind expression stores into: its target, or its target's when that is a bind itself *)
Fixpoint bind_target (e : expr) : option name :=
  match e with
  | Sexp OBind (Atom (PName x)) _ => Some x
  | Sexp OBind t _ => bind_target t
  | _ => None
  end.

Fixpoint eval (cx : ctx) (s : sstate) (e : expr) : res :=
  match e with
  | Atom (PBool b) => Val s (if b then 1 else 0)
  | Atom (PNum n) => Val s (lit_value n)
  | Atom (PName x) =>
    match primitive_index x with
    | Some i => Val s (read_prim (cx_clock cx) (cx_dp_zero cx) (cx_prims cx) i)
    | None => Val s (env_get (s_env s) x)
    end
  | Sexp OBind (Atom (PName x)) (Sexp OIf c v) =>
    match eval cx s c with
    | Fault z s1 => Fault z s1
    | Val s1 cv =>
      match eval cx s1 v with
      | Fault z s2 => Fault z s2
      | Val s2 vv => let s3 := if cv =? 0 then s2 else assign cx s2 x vv in Val s3 (env_get (s_env s3) x)
      end
    end
  | Sexp OBind (Atom (PName x)) (Sexp ONotIf c v) =>
    match eval cx s c with
    | Fault z s1 => Fault z s1
    | Val s1 cv =>
      match eval cx s1 v with
      | Fault z s2 => Fault z s2
      | Val s2 vv => let s3 := if cv =? 0 then assign cx s2 x vv else s2 in Val s3 (env_get (s_env s3) x)
      end
    end
  | Sexp OBind (Atom (PName x)) (Sexp OEwma a b) =>
    match eval cx s a with
    | Fault z s1 => Fault z s1
    | Val s1 av =>
      match eval cx s1 b with
      | Fault z s2 => Fault z s2
      | Val s2 bv => let s3 := assign cx s2 x (ewma av (env_get (s_env s2) x) bv) in Val s3 (env_get (s_env s3) x)
      end
    end
  | Sexp OBind (Atom (PName x)) v =>
    match eval cx s v with
    | Fault z s1 => Fault z s1
    | Val s1 vv => let s2 := assign cx s1 x vv in Val s2 vv
    end
  (* a bind whose target is itself a bind: operands left to right -- the inner bind first (it denotes
     its variable), then the value, then the store into that variable *)
  | Sexp OBind ((Sexp OBind _ _) as t) v =>
    match eval cx s t with
    | Fault z s1 => Fault z s1
    | Val s1 _ =>
      match eval cx s1 v with
      | Fault z s2 => Fault z s2
      | Val s2 vv => match bind_target t with
                     | Some x => Val (assign cx s2 x vv) vv
                     | None => Val s2 vv
                     end
      end
    end
  | Sexp o l r =>
    match eval cx s l with
    | Fault z s1 => Fault z s1
    | Val s1 a =>
      match eval cx s1 r with
      | Fault z s2 => Fault z s2
      | Val s2 b =>
        match op_sem o a b with
        | inl z => Fault z s2
        | inr v => Val s2 v
        end
      end
    end
  | Cmd Fallthrough => Val (mkS (env_set (s_env s) (lit "__shouldContinue") 1) (s_tz s)) 1
  | Cmd CReport => Val (mkS (env_set (s_env s) (lit "__shouldReport") 1) (s_tz s)) 1
  | ENone => Val s 0
  end.

Fixpoint eval_body (cx : ctx) (s : sstate) (es : list expr) : (Z * sstate) + sstate :=
  match es with
  | [] => inr s
  | e :: r => match eval cx s e with
              | Fault z s1 => inl (z, s1)
              | Val s1 _ => eval_body cx s1 r
              end
  end.

Definition flag_n : name := lit "__eventFlag".
Definition cont_n : name := lit "__shouldContinue".
Definition report_n : name := lit "__shouldReport".

Record sevent := mkSEv { se_cond : expr; se_body : list expr }.

(* events are tried in source order; an event whose condition is true runs its statements; the
   invocation ends after a true event unless fallthrough was requested *)
Fixpoint run_events (cx : ctx) (s : sstate) (evs : list sevent) : (Z * sstate) + sstate :=
  match evs with
  | [] => inr s
  | ev :: r =>
    match eval cx s (se_cond ev) with
    | Fault z s1 => inl (z, s1)
    | Val s1 c =>
      let s2 := mkS (env_set (s_env s1) flag_n c) (s_tz s1) in
      let after := if c =? 0 then inr s2 else eval_body cx s2 (se_body ev) in
      match after with
      | inl zs => inl zs
      | inr s3 =>
        if negb (env_get (s_env s3) flag_n =? 0) && (env_get (s_env s3) cont_n =? 0) then inr s3
        else run_events cx s3 r
      end
    end
  end.

(* a declared variable: name, volatile, initial value (None: no literal initial value) *)
Record sdecl := mkSD { sd_name : name; sd_vol : bool; sd_init : option N; sd_report : bool }.

Definition init_value (v : N) : N := lit_value v.

(* reset after a report: volatile variables return to their declared initial value *)
Fixpoint reset_volatile (e : env) (ds : list sdecl) : env :=
  match ds with
  | [] => e
  | d :: r =>
    let e' := match sd_init d with
              | Some v => if sd_vol d then env_set e (sd_name d) (init_value v) else e
              | None => e
              end in
    reset_volatile e' r
  end.

Fixpoint init_all (e : env) (ds : list sdecl) : env :=
  match ds with
  | [] => e
  | d :: r => init_all (match sd_init d with Some v => env_set e (sd_name d) (init_value v) | None => e end) r
  end.

Record sprog := mkSP { sp_decls : list sdecl; sp_events : list sevent }.

Inductive sout := SCwnd (v : N) | SRate (v : N) | SReport (fields : list N).

Definition report_fields (ds : list sdecl) (e : env) : list N :=
  map (fun d => env_get e (sd_name d)) (filter (fun d => sd_report d && match sd_init d with Some _ => true | None => false end) ds).

Definition cwnd_n : name := lit "Cwnd".
Definition rate_n : name := lit "Rate".

(* what the control plane has asked for since the last invocation *)
Record pending := mkPend { pn_switch : bool; pn_updates : list (name * N) }.

(* the last value asked for a name, if any *)
Fixpoint last_update (ups : list (name * N)) (x : name) : option N :=
  match ups with
  | [] => None
  | (k, v) :: r => match last_update r x with
                   | Some w => Some w
                   | None => if name_eqb k x then Some v else None
                   end
  end.

Fixpoint apply_updates_env (e : env) (ups : list (name * N)) : env :=
  match ups with
  | [] => e
  | (k, v) :: r => apply_updates_env (env_set e k v) r
  end.

(* one invocation: (fault code or 0, new state, outputs).  On a fault the state is the one at
   the point of the fault (every assignment made before it is kept) and nothing is output. *)
Definition invoke_src (p : sprog) (cx : ctx) (pend : pending) (s : sstate) : Z * sstate * list sout :=
  (* the datapath's current window and rate are visible as Cwnd and Rate *)
  let ea := env_set (env_set (s_env s) cwnd_n (p_snd_cwnd (cx_prims cx))) rate_n (p_snd_rate (cx_prims cx)) in
  (* a program selected since the last invocation starts from its declared initial values, now *)
  let '(eb, tz) := if pn_switch pend then (init_all ea (sp_decls p), cx_clock cx) else (ea, s_tz s) in
  (* requested field updates *)
  let ec := apply_updates_env eb (pn_updates pend) in
  let o0 := (match last_update (pn_updates pend) cwnd_n with
             | Some v => if negb (v =? 0) then [SCwnd (v mod W32)] else []
             | None => [] end) ++
            (match last_update (pn_updates pend) rate_n with
             | Some v => if negb (v =? 0) then [SRate (v mod W32)] else []
             | None => [] end) in
  let e0 := env_set (env_set (env_set ec flag_n 0) cont_n 0) report_n 0 in
  let e1 := env_set e0 micros_name (wrap64 (cx_clock cx + W64 - tz)) in
  match run_events cx (mkS e1 tz) (sp_events p) with
  | inl (z, sf) => (z, sf, o0)
  | inr s1 =>
    let cw := env_get (s_env s1) cwnd_n in
    let rt := env_get (s_env s1) rate_n in
    let o1 := (if 0 <? cw then [SCwnd (cw mod W32)] else []) ++ (if negb (rt =? 0) then [SRate (rt mod W32)] else []) in
    if negb (env_get (s_env s1) report_n =? 0) then
      (0%Z, mkS (reset_volatile (s_env s1) (sp_decls p)) (s_tz s1),
       o0 ++ o1 ++ [SReport (report_fields (sp_decls p) (s_env s1))])
    else (0%Z, s1, o0 ++ o1)
  end.
