(* Facts about lowering that the simulation proof needs: the operator tail of compile_expr as a
   function, scope extension (a name keeps its register, only its recorded type may change),
   temporaries, and the link between the typing environment and the scope. *)
From Portus Require Export ExprShape MachFacts.
From Portus Require Import ScopeFacts TotalFacts ImageFacts.

(* ---------- the operator tail ---------- *)

Definition lower_tail (o : op) (instrs : list instr) (lft rgt : reg) (sc2 : scope)
  : outcome (list instr * reg * scope) :=
    match o with
    | OAdd | ODiv | OMax | OMaxWrap | OMin | OMul | OSub =>
      if is_tnum (reg_type lft) && is_tnum (reg_type rgt) then
        let '(res, sc3) := new_tmp sc2 (TNum None) in
        Ok (instrs ++ [mkInstr res o lft rgt], res, sc3)
      else Err
    | OAnd | OOr =>
      if is_tbool (reg_type lft) && is_tbool (reg_type rgt) then
        let '(res, sc3) := new_tmp sc2 (TBool None) in
        Ok (instrs ++ [mkInstr res (match o with OAnd => OMul | _ => OMax end) lft rgt], res, sc3)
      else Err
    | OEquiv | OGt | OLt =>
      if is_tnum (reg_type lft) && is_tnum (reg_type rgt) then
        let '(res, sc3) := new_tmp sc2 (TBool None) in
        Ok (instrs ++ [mkInstr res o lft rgt], res, sc3)
      else Err
    | OBind =>
      do (lft', sc3) <- match reg_type lft with
                         | TName s => update_type sc2 s (reg_type rgt)
                         | _ => Ok (lft, sc2)
                         end;
      match lft', rgt with
      | Report _ _ _, RNone | Control _ _ _, RNone =>
        if last_res_is_none instrs then
          match set_last_res instrs lft' with
          | Some is' => Ok (is', lft', sc3)
          | None => Panic
          end
        else Panic
      | Tmp _ _, RNone => Err
      | Implicit _ _, _ | Control _ _ _, _ | Local _ _, _ | Report _ _ _, _ | Tmp _ _, _ =>
        Ok (instrs ++ [mkInstr lft' OBind lft' rgt], lft', sc3)
      | _, _ => Err
      end
    | OEwma | OIf | ONotIf => Ok (instrs ++ [mkInstr RNone o lft rgt], RNone, sc2)
    | ODef => Panic
    end.

Lemma compile_sexp o le re sc :
  compile_expr (Sexp o le re) sc =
  do (is1, lft, sc1) <- compile_expr le sc;
  do (is2, rgt, sc2) <- compile_expr re sc1;
  lower_tail o (is1 ++ is2) lft rgt sc2.
Proof. reflexivity. Qed.

Lemma compile_sexp_inv o le re sc is r sc' : compile_expr (Sexp o le re) sc = Ok (is, r, sc') ->
  exists is1 lft sc1 is2 rgt sc2,
    compile_expr le sc = Ok (is1, lft, sc1) /\ compile_expr re sc1 = Ok (is2, rgt, sc2) /\
    lower_tail o (is1 ++ is2) lft rgt sc2 = Ok (is, r, sc').
Proof.
  rewrite compile_sexp. intros H.
  apply bind_ok_inv in H. destruct H as ([[is1 lft] sc1] & H1 & H).
  apply bind_ok_inv in H. destruct H as ([[is2 rgt] sc2] & H2 & H).
  eauto 10.
Qed.

Definition tmp_ty (o : op) : ty := if is_arith o then TNum None else TBool None.

(* arithmetic, comparison and logical operators: a fresh temporary receives the result *)
Lemma lower_tail_valop o instrs lft rgt sc2 is r sc' : is_valop o = true ->
  lower_tail o instrs lft rgt sc2 = Ok (is, r, sc') ->
  r = Tmp (sc_ntmp sc2 mod 256) (tmp_ty o) /\
  is = instrs ++ [mkInstr r (mach_op o) lft rgt] /\
  sc_named sc' = sc_named sc2 /\ sc_ntmp sc' = sc_ntmp sc2 + 1 /\
  sc_nloc sc' = sc_nloc sc2 /\ sc_nctl sc' = sc_nctl sc2 /\ sc_nperm sc' = sc_nperm sc2.
Proof.
  intros Ho H. unfold lower_tail, new_tmp in H.
  destruct o; try discriminate Ho; cbn [mach_op tmp_ty is_arith];
    match type of H with (if ?c then _ else _) = _ => destruct c; [|discriminate H] end;
    inversion H; subst; cbn; repeat split; reflexivity.
Qed.

Lemma lower_tail_condop o instrs lft rgt sc2 is r sc' : is_condop o = true ->
  lower_tail o instrs lft rgt sc2 = Ok (is, r, sc') ->
  r = RNone /\ is = instrs ++ [mkInstr RNone o lft rgt] /\ sc' = sc2.
Proof. intros Ho H. destruct o; try discriminate Ho; inversion H; auto. Qed.

Lemma set_last_res_snoc is i r :
  set_last_res (is ++ [i]) r = Some (is ++ [mkInstr r (i_op i) (i_left i) (i_right i)]).
Proof. unfold set_last_res. rewrite rev_app_distr. cbn. rewrite rev_involutive. reflexivity. Qed.

(* ---------- scope extension ---------- *)

Definition sext (a b : list (name * reg)) : Prop :=
  forall x r, sc_get a x = Some r -> exists r', sc_get b x = Some r' /\ dreg_of r' = dreg_of r.

Lemma sext_refl a : sext a a.
Proof. intros x r H. eauto. Qed.

Lemma sext_trans a b c : sext a b -> sext b c -> sext a c.
Proof.
  intros H1 H2 x r H. destruct (H1 _ _ H) as (r1 & Hb & E1). destruct (H2 _ _ Hb) as (r2 & Hc & E2).
  exists r2. split; [exact Hc|congruence].
Qed.

Lemma new_local_inv sc n t r sc' : new_local sc n t = Ok (r, sc') ->
  r = Local (sc_nloc sc) t /\ sc_named sc' = rf_insert (sc_named sc) n r /\ sc_ntmp sc' = sc_ntmp sc /\
  sc_nloc sc' = sc_nloc sc + 1 /\ sc_nloc sc < 255 /\ sc_nctl sc' = sc_nctl sc /\ sc_nperm sc' = sc_nperm sc.
Proof.
  unfold new_local. destruct (255 <=? sc_nloc sc) eqn:E; [discriminate|].
  intros H. inversion H; subst; cbn. apply N.leb_gt in E. repeat split; auto.
Qed.

Lemma new_local_ext sc n t r sc' : new_local sc n t = Ok (r, sc') -> sc_get (sc_named sc) n = None ->
  sext (sc_named sc) (sc_named sc') /\ sc_get (sc_named sc') n = Some r /\
  (forall y, y <> n -> sc_get (sc_named sc') y = sc_get (sc_named sc) y).
Proof.
  intros H Hn. apply new_local_inv in H. destruct H as (-> & Hnamed & _).
  rewrite Hnamed. split; [|split].
  - intros x r Hx. exists r. split; [|reflexivity].
    rewrite get_insert_other; [exact Hx|]. intros ->. congruence.
  - apply get_insert_same. exact Hn.
  - intros y Hy. apply get_insert_other. congruence.
Qed.

Definition retype (r : reg) (t : ty) : reg :=
  match r with
  | Report i _ vol => Report i t vol
  | Local i _ => Local i t
  | Control i _ vol => Control i t vol
  | _ => r
  end.

Lemma rf_update_type_spec l n t : forall r l', rf_update_type l n t = Ok (r, l') ->
  exists r0, sc_get l n = Some r0 /\ r = retype r0 t /\ reg_type r = t /\ dreg_of r = dreg_of r0 /\
    sc_get l' n = Some r /\ (forall y, y <> n -> sc_get l' y = sc_get l y).
Proof.
  induction l as [|[k v] rest IH]; intros r l' H; cbn [rf_update_type] in H; [discriminate|].
  cbn [sc_get]. destruct (name_eqb k n) eqn:E.
  - apply name_eqb_eq in E. subst k.
    destruct v as [i t0 vol|m|b|i t0|i t0|i t0|i t0 vol|i t0|]; try discriminate H; inversion H; subst;
      eexists; (split; [reflexivity|]); cbn [retype reg_type dreg_of sc_get]; rewrite name_eqb_refl;
      repeat split; try reflexivity;
      intros y Hy; (destruct (name_eqb n y) eqn:E2; [apply name_eqb_eq in E2; congruence|reflexivity]).
  - apply bind_ok_inv in H. destruct H as ([r1 rest'] & H1 & H). inversion H; subst; clear H.
    destruct (IH _ _ H1) as (r0 & G0 & Hr & Ht & Hd & G1 & Ho).
    exists r0. repeat split; auto.
    + cbn [sc_get]. rewrite E. exact G1.
    + intros y Hy. cbn [sc_get]. destruct (name_eqb k y); auto.
Qed.

Lemma update_type_spec sc n t r sc' : update_type sc n t = Ok (r, sc') ->
  (exists r0, sc_get (sc_named sc) n = Some r0 /\ r = retype r0 t /\ reg_type r = t /\ dreg_of r = dreg_of r0) /\
  sc_get (sc_named sc') n = Some r /\ (forall y, y <> n -> sc_get (sc_named sc') y = sc_get (sc_named sc) y) /\
  sc_ntmp sc' = sc_ntmp sc /\ sc_nloc sc' = sc_nloc sc /\ sc_nctl sc' = sc_nctl sc /\ sc_nperm sc' = sc_nperm sc.
Proof.
  unfold update_type. intros H. apply bind_ok_inv in H. destruct H as ([r1 named'] & H1 & H).
  inversion H; subst; clear H. cbn.
  destruct (rf_update_type_spec _ _ _ _ _ H1) as (r0 & G0 & Hr & Ht & Hd & G1 & Ho).
  repeat split; eauto.
Qed.

Lemma update_type_ext sc n t r sc' : update_type sc n t = Ok (r, sc') -> sext (sc_named sc) (sc_named sc').
Proof.
  intros H. apply update_type_spec in H. destruct H as ((r0 & G0 & _ & _ & Hd) & G1 & Ho & _).
  intros x rx Hx. destruct (name_eqb x n) eqn:E.
  - apply name_eqb_eq in E. subst x. exists r. split; [exact G1|]. congruence.
  - exists rx. split; [|reflexivity]. rewrite Ho; [exact Hx|]. intros ->. rewrite name_eqb_refl in E. discriminate.
Qed.

(* the shape of the bind tail *)
Lemma lower_tail_bind instrs lft rgt sc2 is r sc' :
  lower_tail OBind instrs lft rgt sc2 = Ok (is, r, sc') ->
  exists lft',
    ((exists s, reg_type lft = TName s /\ update_type sc2 s (reg_type rgt) = Ok (lft', sc')) \/
     ((forall s, reg_type lft <> TName s) /\ lft' = lft /\ sc' = sc2)) /\
    r = lft' /\
    ((rgt = RNone /\ (exists i t v, lft' = Report i t v \/ lft' = Control i t v) /\
      last_res_is_none instrs = true /\ set_last_res instrs lft' = Some is) \/
     (is = instrs ++ [mkInstr lft' OBind lft' rgt] /\
      match slot lft' with Some _ => True | None => False end)).
Proof.
  unfold lower_tail. intros H. apply bind_ok_inv in H. destruct H as ([lft' sc3] & H1 & H).
  exists lft'.
  assert (Hup : (exists s, reg_type lft = TName s /\ update_type sc2 s (reg_type rgt) = Ok (lft', sc3)) \/
                ((forall s, reg_type lft <> TName s) /\ lft' = lft /\ sc3 = sc2)).
  { destruct (reg_type lft) eqn:Et; try (right; inversion H1; subst; repeat split; auto; intros s0 Hs; discriminate Hs).
    left. eauto. }
  destruct lft' as [i t vol|m|b|i t|i t|i t|i t vol|i t|]; try discriminate H.
  - (* Control *)
    destruct rgt; try (inversion H; subst; split; [exact Hup|]; split; [reflexivity|right; cbn; auto]).
    destruct (last_res_is_none instrs) eqn:E1; [|discriminate H].
    destruct (set_last_res instrs (Control i t vol)) eqn:E2; [|discriminate H].
    inversion H; subst. split; [exact Hup|]. split; [reflexivity|]. left. repeat split; eauto 6.
  - destruct rgt; inversion H; subst; (split; [exact Hup|]); (split; [reflexivity|right; cbn; auto]).
  - destruct rgt; inversion H; subst; (split; [exact Hup|]); (split; [reflexivity|right; cbn; auto]).
  - (* Report *)
    destruct rgt; try (inversion H; subst; split; [exact Hup|]; split; [reflexivity|right; cbn; auto]).
    destruct (last_res_is_none instrs) eqn:E1; [|discriminate H].
    destruct (set_last_res instrs (Report i t vol)) eqn:E2; [|discriminate H].
    inversion H; subst. split; [exact Hup|]. split; [reflexivity|]. left. repeat split; eauto 6.
  - destruct rgt; try discriminate H; inversion H; subst; (split; [exact Hup|]); (split; [reflexivity|right; cbn; auto]).
Qed.

(* ---------- lowering only extends the scope ---------- *)

Lemma compile_atom_name x sc is r sc' : compile_expr (Atom (PName x)) sc = Ok (is, r, sc') ->
  is = [] /\ sc_get (sc_named sc') x = Some r /\ sext (sc_named sc) (sc_named sc') /\ sc_ntmp sc' = sc_ntmp sc /\
  ((sc_get (sc_named sc) x = Some r /\ sc' = sc) \/
   (sc_get (sc_named sc) x = None /\ reg_type r = TName x /\ slot r = Some (FLoc, sc_nloc sc) /\
    (forall y, y <> x -> sc_get (sc_named sc') y = sc_get (sc_named sc) y))).
Proof.
  cbn [compile_expr]. destruct (sc_get (sc_named sc) x) as [r0|] eqn:E.
  - intros H. inversion H; subst. repeat split; auto using sext_refl.
  - intros H. apply bind_ok_inv in H. destruct H as ([r1 sc1] & H1 & H). inversion H; subst; clear H.
    destruct (new_local_ext _ _ _ _ _ H1 E) as (He & Hg & Ho).
    apply new_local_inv in H1. destruct H1 as (-> & _ & Ht & _).
    split; [reflexivity|]. split; [exact Hg|]. split; [exact He|]. split; [exact Ht|].
    right. split; [reflexivity|]. split; [reflexivity|]. split; [reflexivity|exact Ho].
Qed.

Lemma compile_expr_mono e : forall sc is r sc', compile_expr e sc = Ok (is, r, sc') ->
  sext (sc_named sc) (sc_named sc') /\ sc_ntmp sc <= sc_ntmp sc'.
Proof.
  induction e as [p|c|o l IHl r0 IHr|]; intros sc is r sc' H.
  - destruct p as [b|x|n].
    + inversion H; subst. split; [apply sext_refl|lia].
    + apply compile_atom_name in H. destruct H as (_ & _ & He & Ht & _). split; [exact He|lia].
    + inversion H; subst. split; [apply sext_refl|lia].
  - discriminate H.
  - apply compile_sexp_inv in H. destruct H as (is1 & lft & sc1 & is2 & rgt & sc2 & H1 & H2 & H3).
    destruct (IHl _ _ _ _ H1) as [E1 T1]. destruct (IHr _ _ _ _ H2) as [E2 T2].
    assert (sext (sc_named sc2) (sc_named sc') /\ sc_ntmp sc2 <= sc_ntmp sc').
    { destruct (is_valop o) eqn:Vo.
      - apply lower_tail_valop in H3; auto. destruct H3 as (_ & _ & Hn & Ht & _). rewrite Hn. split; [apply sext_refl|lia].
      - destruct (is_condop o) eqn:Co.
        + apply lower_tail_condop in H3; auto. destruct H3 as (_ & _ & ->). split; [apply sext_refl|lia].
        + destruct o; try discriminate Vo; try discriminate Co.
          * apply lower_tail_bind in H3. destruct H3 as (lft' & [(s & _ & Hu)|(_ & _ & ->)] & _).
            -- split; [eapply update_type_ext; eauto|]. apply update_type_spec in Hu. destruct Hu as (_ & _ & _ & -> & _). lia.
            -- split; [apply sext_refl|lia].
          * discriminate H3. }
    destruct H as [E3 T3]. split; [eauto using sext_trans|lia].
  - discriminate H.
Qed.

(* ---------- the condition block ---------- *)

Lemma compile_flag_inv e sc is sc' : compile_flag e sc = Ok (is, sc') ->
  exists is0 res fr, compile_expr e (clear_tmps sc) = Ok (is0, res, sc') /\
    sc_get (sc_named sc') (lit "__eventFlag") = Some fr /\
    ((exists b, res = ImmBool b /\ is = is0 ++ [mkInstr fr OBind fr res]) \/
     (exists j t, res = Tmp j (TBool t) /\ set_last_res is0 fr = Some is)).
Proof.
  unfold compile_flag. intros H. apply bind_ok_inv in H. destruct H as ([[is0 res] sc1] & Hc & H).
  destruct (sc_get (sc_named sc1) (lit "__eventFlag")) as [fr|] eqn:Ef; [|discriminate].
  destruct res as [i t vol|x|b|i t|i t|i t|i t vol|i t|]; try discriminate.
  - inversion H; subst. exists is0, (ImmBool b), fr. repeat split; eauto.
  - destruct t; try discriminate. destruct (set_last_res is0 fr) eqn:Es; [|discriminate].
    inversion H; subst. exists is0, (Tmp i (TBool o)), fr. repeat split; eauto.
Qed.


(* lowering never emits a DEF *)
Lemma set_last_res_ops is r is' : set_last_res is r = Some is' -> Forall (fun i => i_op i <> ODef) is ->
  Forall (fun i => i_op i <> ODef) is'.
Proof.
  unfold set_last_res. destruct (rev is) as [|l before] eqn:E; [discriminate|]. intros H F. inversion H; subst.
  assert (His : is = rev before ++ [l]) by (rewrite <- (rev_involutive is), E; reflexivity).
  rewrite His in F. apply Forall_app in F. destruct F as [F1 F2]. apply Forall_app. split; [exact F1|].
  inversion F2; subst. constructor; [cbn; assumption|constructor].
Qed.

Lemma compile_expr_no_def e : forall sc is r sc', compile_expr e sc = Ok (is, r, sc') -> Forall (fun i => i_op i <> ODef) is.
Proof.
  induction e as [p|c|o l IHl r0 IHr|]; intros sc is r sc' H.
  - destruct p as [b|x|n]; [inversion H; constructor| |inversion H; constructor].
    apply compile_atom_name in H. destruct H as (-> & _). constructor.
  - discriminate H.
  - apply compile_sexp_inv in H. destruct H as (is1 & lft & sc1 & is2 & rgt & sc2 & H1 & H2 & H3).
    assert (F12 : Forall (fun i => i_op i <> ODef) (is1 ++ is2)) by (apply Forall_app; split; eauto).
    destruct (is_valop o) eqn:Vo.
    + apply lower_tail_valop in H3; auto. destruct H3 as (_ & -> & _). apply Forall_app. split; [exact F12|].
      constructor; [|constructor]. cbn. destruct o; try discriminate Vo; discriminate.
    + destruct (is_condop o) eqn:Co.
      * apply lower_tail_condop in H3; auto. destruct H3 as (_ & -> & _). apply Forall_app. split; [exact F12|].
        constructor; [|constructor]. cbn. destruct o; try discriminate Co; discriminate.
      * destruct o; try discriminate Vo; try discriminate Co.
        -- apply lower_tail_bind in H3. destruct H3 as (lft' & _ & _ & [(_ & _ & _ & Hs)|(-> & _)]).
           ++ eapply set_last_res_ops; eauto.
           ++ apply Forall_app. split; [exact F12|]. constructor; [discriminate|constructor].
        -- discriminate H3.
  - discriminate H.
Qed.

Lemma compile_flag_no_def e sc is sc' : compile_flag e sc = Ok (is, sc') -> Forall (fun i => i_op i <> ODef) is.
Proof.
  intros H. apply compile_flag_inv in H. destruct H as (is0 & res & fr & C0 & _ & [(b & -> & ->)|(j & t & _ & Hs)]).
  - apply Forall_app. split; [eapply compile_expr_no_def; eauto|constructor; [discriminate|constructor]].
  - eapply set_last_res_ops; [exact Hs|eapply compile_expr_no_def; eauto].
Qed.

Lemma opcode_def o : o <> ODef -> (opcode o =? 2) = false.
Proof. intros H. destruct o; try reflexivity. congruence. Qed.

