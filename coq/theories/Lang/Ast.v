(* AST of the datapath language: src/lang/ast.rs (Prim, Op, Command, Expr), src/lang/prog.rs
   (Event, Prog).  Names are lists of Unicode code points. *)
From Portus Require Export Reg.
Require Coq.Strings.String Coq.Strings.Ascii.
Export Coq.Strings.String.StringSyntax.

Definition lit (x : String.string) : list N :=
  List.map Ascii.N_of_ascii (String.list_ascii_of_string x).
Arguments lit _%string_scope.

Inductive prim := PBool (b : bool) | PName (s : name) | PNum (n : N).

Inductive op :=
| OAdd | OAnd | OBind | ODiv | OEquiv | OGt | OLt | OMax | OMaxWrap | OMin | OMul | OOr | OSub
| ODef | OIf | ONotIf | OEwma.

Inductive command := Fallthrough | CReport.

Inductive expr :=
| Atom (p : prim)
| Cmd (c : command)
| Sexp (o : op) (l r : expr)
| ENone.

Record event := mkEvent { ev_flag : expr; ev_body : list expr }.

Definition op_eqb (a b : op) : bool :=
  match a, b with
  | OAdd, OAdd | OAnd, OAnd | OBind, OBind | ODiv, ODiv | OEquiv, OEquiv | OGt, OGt | OLt, OLt | OMax, OMax
  | OMaxWrap, OMaxWrap | OMin, OMin | OMul, OMul | OOr, OOr | OSub, OSub | ODef, ODef | OIf, OIf | ONotIf, ONotIf
  | OEwma, OEwma => true
  | _, _ => false
  end.

(* Expr::desugar *)
Fixpoint desugar (e : expr) : expr :=
  match e with
  | Cmd Fallthrough => Sexp OBind (Atom (PName (lit "__shouldContinue"))) (Atom (PBool true))
  | Cmd CReport => Sexp OBind (Atom (PName (lit "__shouldReport"))) (Atom (PBool true))
  | ENone => ENone
  | Atom p => Atom p
  | Sexp o l r => Sexp o (desugar l) (desugar r)
  end.
