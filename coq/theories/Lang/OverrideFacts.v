(* C13: compile-time overrides.  After lang::compile's update loop, a declared variable carries
   the LAST value supplied for it as its initial value, in the register (class, slot, volatility)
   it had; overrides of names that are not report/control/local variables, or not declared at all,
   are ignored; nothing else changes. *)
From Portus Require Export CompileFacts.
From Portus Require Import ScopeFacts TotalFacts.

Definition updatable (r : reg) : bool :=
  match r with Report _ _ _ | Local _ _ | Control _ _ _ => true | _ => false end.

Fixpoint last_update (ups : list (name * N)) (x : name) : option N :=
  match ups with
  | [] => None
  | (n, v) :: r => match last_update r x with Some w => Some w | None => if name_eqb n x then Some v else None end
  end.

Lemma rf_update_type_fails l x t : (forall r0, sc_get l x = Some r0 -> updatable r0 = false) ->
  forall r l', rf_update_type l x t <> Ok (r, l').
Proof.
  induction l as [|[k v] rest IH]; intros H r l' Hu; cbn [rf_update_type] in Hu; [discriminate|].
  cbn [sc_get] in H. destruct (name_eqb k x).
  - specialize (H v eq_refl). destruct v; try discriminate Hu; discriminate H.
  - apply bind_ok_inv in Hu. destruct Hu as ([r1 rest'] & H1 & _). eapply IH; eauto.
Qed.

Lemma rf_update_type_ok l x t : forall r0, sc_get l x = Some r0 -> updatable r0 = true ->
  exists l', rf_update_type l x t = Ok (retype r0 t, l').
Proof.
  induction l as [|[k v] rest IH]; intros r0 Hg Hc; cbn [sc_get] in Hg; [discriminate|].
  cbn [rf_update_type]. destruct (name_eqb k x).
  - inversion Hg; subst v. destruct r0; try discriminate Hc; eexists; reflexivity.
  - destruct (IH _ Hg Hc) as (l' & ->). cbn [bind]. eexists; reflexivity.
Qed.

Lemma update_type_get sc n t x :
  sc_get (sc_named (match update_type sc n t with Ok (_, sc') => sc' | _ => sc end)) x =
  match sc_get (sc_named sc) x with
  | Some r => if name_eqb n x && updatable r then Some (retype r t) else Some r
  | None => None
  end.
Proof.
  destruct (update_type sc n t) as [[r1 sc']| |] eqn:Hu.
  - apply update_type_spec in Hu. destruct Hu as ((r0 & G0 & Hr & _) & G1 & Ho & _).
    destruct (name_eqb n x) eqn:E.
    + apply name_eqb_eq in E. subst x. rewrite G1, G0. cbn [andb]. subst r1.
      destruct (updatable r0) eqn:U; [reflexivity|]. destruct r0; try discriminate U; reflexivity.
    + rewrite Ho; [|intros ->; rewrite name_eqb_refl in E; discriminate E]. cbn [andb].
      destruct (sc_get (sc_named sc) x); reflexivity.
  - (* refused: the name is not an updatable variable of this scope *)
    destruct (sc_get (sc_named sc) x) as [r|] eqn:G; [|reflexivity].
    destruct (name_eqb n x) eqn:E; [|reflexivity]. apply name_eqb_eq in E. subst x. cbn [andb].
    destruct (updatable r) eqn:U; [|reflexivity]. exfalso.
    unfold update_type in Hu. destruct (rf_update_type_ok (sc_named sc) n t r G U) as (l' & Hl). rewrite Hl in Hu. discriminate Hu.
  - exfalso. unfold update_type in Hu. pose proof (rf_update_type_not_panic (sc_named sc) n t) as Hp.
    destruct (rf_update_type (sc_named sc) n t) as [[r l']| |]; [discriminate Hu|discriminate Hu|congruence].
Qed.

(* the whole update loop: the last value supplied for a variable wins; everything else is untouched *)
Theorem apply_updates_get ups : forall sc x,
  sc_get (sc_named (apply_updates ups sc)) x =
  match sc_get (sc_named sc) x with
  | Some r => match last_update ups x with
              | Some v => if updatable r then Some (retype r (TNum (Some v))) else Some r
              | None => Some r
              end
  | None => None
  end.
Proof.
  induction ups as [|[n v] rest IH]; intros sc x; cbn [apply_updates last_update].
  - destruct (sc_get (sc_named sc) x); reflexivity.
  - assert (Hstep : apply_updates rest (match update_type sc n (TNum (Some v)) with Ok (_, sc') => sc' | _ => sc end) =
                    match update_type sc n (TNum (Some v)) with Ok (_, sc') => apply_updates rest sc' | _ => apply_updates rest sc end).
    { destruct (update_type sc n (TNum (Some v))) as [[r1 sc']| |]; reflexivity. }
    rewrite <- Hstep, IH, update_type_get.
    destruct (sc_get (sc_named sc) x) as [r|]; [|reflexivity].
    destruct (name_eqb n x) eqn:E; cbn [andb].
    + destruct (updatable r) eqn:U.
      * assert (U' : updatable (retype r (TNum (Some v))) = true) by (destruct r; try discriminate U; reflexivity).
        destruct (last_update rest x) as [w|]; [rewrite U'; destruct r; try discriminate U; reflexivity|reflexivity].
      * rewrite U. destruct (last_update rest x); reflexivity.
    + destruct (last_update rest x); reflexivity.
Qed.

(* counters and the set of names are untouched *)
Theorem apply_updates_counters ups : forall sc,
  sc_nperm (apply_updates ups sc) = sc_nperm sc /\ sc_nctl (apply_updates ups sc) = sc_nctl sc /\
  sc_nloc (apply_updates ups sc) = sc_nloc sc /\ sc_ntmp (apply_updates ups sc) = sc_ntmp sc.
Proof.
  induction ups as [|[n v] rest IH]; intros sc; cbn [apply_updates]; [auto|].
  destruct (update_type sc n (TNum (Some v))) as [[r1 sc']| |] eqn:Hu; try apply IH.
  apply update_type_spec in Hu. destruct Hu as (_ & _ & _ & N1 & N2 & N3 & N4).
  destruct (IH sc') as (A & B & C & D). repeat split; congruence.
Qed.
