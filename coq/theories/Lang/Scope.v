(* RegFile / Scope of src/lang/datapath.rs: a name-sorted association list with counter-based
   slot allocation per register class. *)
From Portus Require Export Ast.

Fixpoint name_ltb (a b : name) : bool :=
  match a, b with
  | [], [] => false
  | [], _ :: _ => true
  | _ :: _, [] => false
  | x :: a', y :: b' => if x <? y then true else if y <? x then false else name_ltb a' b'
  end.

(* RegFile::insert: before the first entry whose name is not smaller *)
Fixpoint rf_insert (l : list (name * reg)) (n : name) (r : reg) : list (name * reg) :=
  match l with
  | [] => [(n, r)]
  | (k, v) :: t => if name_ltb k n then (k, v) :: rf_insert t n r else (n, r) :: l
  end.

Record scope := mkScope {
  sc_named : list (name * reg);
  sc_nctl : N;     (* num_control : u8 *)
  sc_nloc : N;     (* num_local : u8 *)
  sc_nperm : N;    (* num_perm : u8 *)
  sc_ntmp : N      (* tmp.len() *)
}.

Definition primitive_names : list (list N * ty) :=
  [ (lit "Ack.bytes_acked", TNum None); (lit "Ack.bytes_misordered", TNum None);
    (lit "Ack.ecn_bytes", TNum None); (lit "Ack.ecn_packets", TNum None);
    (lit "Ack.lost_pkts_sample", TNum None); (lit "Ack.now", TNum None);
    (lit "Ack.packets_acked", TNum None); (lit "Ack.packets_misordered", TNum None);
    (lit "Flow.bytes_in_flight", TNum None); (lit "Flow.bytes_pending", TNum None);
    (lit "Flow.packets_in_flight", TNum None); (lit "Flow.rate_incoming", TNum None);
    (lit "Flow.rate_outgoing", TNum None); (lit "Flow.rtt_sample_us", TNum None);
    (lit "Flow.was_timeout", TBool None) ].

Definition implicit_names : list (list N * ty) :=
  [ (lit "__eventFlag", TBool None); (lit "__shouldContinue", TBool None);
    (lit "__shouldReport", TBool None); (lit "Micros", TNum None);
    (lit "Cwnd", TNum None); (lit "Rate", TNum None) ].

Fixpoint add_regs (mk : N -> ty -> reg) (l : list (list N * ty)) (idx : N) (named : list (name * reg))
  : list (name * reg) :=
  match l with
  | [] => named
  | (n, t) :: r => add_regs mk r (idx + 1) (rf_insert named n (mk idx t))
  end.

Definition scope_new : scope :=
  mkScope (add_regs Implicit implicit_names 0 (add_regs Primitive primitive_names 0 [])) 0 0 0 0.

Definition sc_has (sc : scope) (n : name) : bool :=
  match sc_get (sc_named sc) n with Some _ => true | None => false end.

(* the u8 counters: running out of slots is an error, not an overflow *)
Definition new_report (sc : scope) (vol : bool) (n : name) (t : ty) : outcome (reg * scope) :=
  if 255 <=? sc_nperm sc then Err
  else let r := Report (sc_nperm sc) t vol in
       Ok (r, mkScope (rf_insert (sc_named sc) n r) (sc_nctl sc) (sc_nloc sc) (sc_nperm sc + 1) (sc_ntmp sc)).

Definition new_control (sc : scope) (vol : bool) (n : name) (t : ty) : outcome (reg * scope) :=
  if 255 <=? sc_nctl sc then Err
  else let r := Control (sc_nctl sc) t vol in
       Ok (r, mkScope (rf_insert (sc_named sc) n r) (sc_nctl sc + 1) (sc_nloc sc) (sc_nperm sc) (sc_ntmp sc)).

Definition new_local (sc : scope) (n : name) (t : ty) : outcome (reg * scope) :=
  if 255 <=? sc_nloc sc then Err
  else let r := Local (sc_nloc sc) t in
       Ok (r, mkScope (rf_insert (sc_named sc) n r) (sc_nctl sc) (sc_nloc sc + 1) (sc_nperm sc) (sc_ntmp sc)).

(* new_tmp: index = tmp.len() as u8 *)
Definition new_tmp (sc : scope) (t : ty) : reg * scope :=
  (Tmp (sc_ntmp sc mod 256) t,
   mkScope (sc_named sc) (sc_nctl sc) (sc_nloc sc) (sc_nperm sc) (sc_ntmp sc + 1)).

Definition clear_tmps (sc : scope) : scope :=
  mkScope (sc_named sc) (sc_nctl sc) (sc_nloc sc) (sc_nperm sc) 0.

(* update_type: the first entry with that name; only report/local/control registers *)
Fixpoint rf_update_type (l : list (name * reg)) (n : name) (t : ty) : outcome (reg * list (name * reg)) :=
  match l with
  | [] => Err
  | (k, v) :: rest =>
    if name_eqb k n then
      match v with
      | Report i _ vol => Ok (Report i t vol, (k, Report i t vol) :: rest)
      | Local i _ => Ok (Local i t, (k, Local i t) :: rest)
      | Control i _ vol => Ok (Control i t vol, (k, Control i t vol) :: rest)
      | _ => Err
      end
    else
      do (r, rest') <- rf_update_type rest n t; Ok (r, (k, v) :: rest')
  end.

Definition update_type (sc : scope) (n : name) (t : ty) : outcome (reg * scope) :=
  do (r, named') <- rf_update_type (sc_named sc) n t;
  Ok (r, mkScope named' (sc_nctl sc) (sc_nloc sc) (sc_nperm sc) (sc_ntmp sc)).

Definition reg_type (r : reg) : ty :=
  match r with
  | ImmNum n => TNum (Some n)
  | ImmBool b => TBool (Some b)
  | Control _ t _ | Implicit _ t | Local _ t | Primitive _ t | Tmp _ t | Report _ t _ => t
  | RNone => TNone
  end.
