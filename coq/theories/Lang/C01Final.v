(* C01, assembly: from "the source text is in the property's quantifier" to the hypotheses of the
   run-level simulation, and the end-to-end theorem. *)
From Portus Require Export SimInvoke LoadFacts.
From Portus Require Import ScopeFacts TotalFacts ImageFacts ControlFacts.

(* ---------- inversions ---------- *)

Lemma new_with_scope_inv cps evs sc0 : new_with_scope cps = inl (Ok (evs, sc0)) ->
  exists reports controls sc1, declare new_report reports scope_new = Ok sc1 /\ declare new_control controls sc1 = Ok sc0.
Proof.
  unfold new_with_scope. destruct (p_defs (parse_fuel cps) cps) as [decls rest| | |]; try discriminate.
  set (reports := filter _ decls). set (controls := filter _ decls).
  destruct (declare new_report reports scope_new) as [sc1| |] eqn:E1; try discriminate.
  destruct (declare new_control controls sc1) as [sc2| |] eqn:E2; try discriminate.
  destruct (p_events (parse_fuel cps) rest) as [es rest'| | |]; try discriminate.
  destruct rest'; try discriminate. intros H. inversion H; subst. eauto.
Qed.

Lemma compile_inv src cps evs sc0 b scF : utf8_decode src = Some cps -> new_with_scope cps = inl (Ok (evs, sc0)) ->
  compile src [] = inl (Ok (b, scF)) -> compile_prog evs sc0 = Ok (b, scF).
Proof.
  intros H1 H2 H. unfold compile in H. rewrite H1, H2 in H. cbn [apply_updates] in H. inversion H. reflexivity.
Qed.

Lemma compile_prog_inv evs sc0 b scF : compile_prog evs sc0 = Ok (b, scF) ->
  exists devs eis, compile_events evs sc0 (N.of_nat (length (def_instrs (sc_named sc0)))) = Ok (devs, eis, scF) /\
                   b = mkBin devs (def_instrs (sc_named sc0) ++ eis).
Proof.
  unfold compile_prog. intros H. apply bind_ok_inv in H. destruct H as ([[devs eis] sc'] & H1 & H). inversion H; subst. eauto.
Qed.

(* ---------- the declarations seen by the source semantics ---------- *)

Definition decl_entries (reports controls : list (bool * name * ty)) : list (name * reg) :=
  map (fun k => match nth_error reports k with Some (v, n, t) => (n, Report (N.of_nat k) t v) | None => ([], RNone) end) (seq 0 (length reports)) ++
  map (fun k => match nth_error controls k with Some (v, n, t) => (n, Control (N.of_nat k) t v) | None => ([], RNone) end) (seq 0 (length controls)).

Lemma map_nth_seq {A B} (f : A -> B) (d : B) (l : list A) :
  map (fun k => match nth_error l k with Some a => f a | None => d end) (seq 0 (length l)) = map f l.
Proof.
  assert (G : forall s, map (fun k => match nth_error l k with Some a => f a | None => d end) (seq s (length l - s)) = map f (skipn s l)).
  { intros s. remember (length l - s)%nat as m eqn:Em. revert s Em. induction m as [|m IH]; intros s Em.
    - cbn. rewrite skipn_all2 by lia. reflexivity.
    - cbn [seq map]. destruct (nth_error l s) as [a|] eqn:E; [|apply nth_error_None in E; lia].
      rewrite (IH (S s)) by lia.
      assert (Hs : skipn s l = a :: skipn (S s) l).
      { clear - E. revert s E. induction l as [|x t IHl]; intros [|s] E; cbn in *; try discriminate; [inversion E; reflexivity|apply IHl; exact E]. }
      rewrite Hs. reflexivity. }
  specialize (G 0%nat). rewrite Nat.sub_0_r in G. exact G.
Qed.

Lemma decl_entries_names reports controls :
  map fst (decl_entries reports controls) = names_of reports ++ names_of controls.
Proof.
  unfold decl_entries. rewrite map_app, !map_map.
  assert (G : forall (mk : N -> ty -> bool -> reg) (l : list (bool * name * ty)),
             map (fun k => fst match nth_error l k with Some (v, n, t) => (n, mk (N.of_nat k) t v) | None => ([], RNone) end) (seq 0 (length l)) = names_of l).
  { intros mk l.
    transitivity (map (fun k => match nth_error l k with Some a => snd (fst a) | None => [] end) (seq 0 (length l))).
    - apply map_ext. intros k. destruct (nth_error l k) as [[[v n] t]|]; reflexivity.
    - rewrite (map_nth_seq (fun a : bool * name * ty => snd (fst a)) [] l).
      induction l as [|[[v n] t] r IH]; [reflexivity|]. cbn. f_equal. exact IH. }
  rewrite (G (fun i t v => Report i t v)), (G (fun i t v => Control i t v)). reflexivity.
Qed.

(* ---------- names excluded by the typing discipline are exactly the built-in names ---------- *)

Lemma wt_name_not_builtin n : tget builtin_tenv n = None ->
  existsb (name_eqb n) [flag_n; cont_n; report_n] = false -> is_builtin_name n = false /\ is_builtin n = false.
Proof.
  intros H1 H2.
  assert (G : is_builtin n = false).
  { unfold is_builtin, builtin_names. destruct (existsb (name_eqb n) (map fst primitive_names ++ map fst implicit_names)) eqn:E; [|reflexivity].
    exfalso. apply existsb_exists in E. destruct E as (m & Hm & Hnm). apply name_eqb_eq in Hnm. subst m.
    revert H1 H2. revert Hm. vm_compute. intros Hm.
    repeat (destruct Hm as [Hm|Hm]; [subst n; vm_compute; intros; discriminate|]). contradiction. }
  split; [|exact G].
  unfold is_builtin_name. destruct (primitive_index n) as [i|] eqn:Ep.
  - exfalso. unfold primitive_index in Ep.
    repeat match type of Ep with
           | (if name_eqb ?k n then _ else _) = _ =>
             let E1 := fresh "E" in destruct (name_eqb k n) eqn:E1; [apply name_eqb_eq in E1; subst n; vm_compute in G; discriminate G|]
           end.
    discriminate Ep.
  - destruct (implicit_index n) as [i|] eqn:Ei; [|reflexivity].
    exfalso. unfold implicit_index in Ei.
    repeat match type of Ei with
           | (if name_eqb ?k n then _ else _) = _ =>
             let E1 := fresh "E" in destruct (name_eqb k n) eqn:E1; [apply name_eqb_eq in E1; subst n; vm_compute in G; discriminate G|]
           end.
    discriminate Ei.
Qed.

Lemma decl_of_name kv : sd_name (fst (decl_of kv)) = fst kv.
Proof.
  unfold decl_of. destruct (snd kv) as [i t vol|n|b|i t|i t|i t|i t vol|i t|]; try reflexivity;
    destruct t as [[b|]|s|[n|]|]; reflexivity.
Qed.

Lemma sev_map evs : map (fun ev => mkSEv (ev_flag ev) (ev_body ev)) evs = map sev evs.
Proof. reflexivity. Qed.

(* a name outside the scope's keys *)
Lemma new_scope_fresh n : is_builtin_name n = false -> sc_get (sc_named scope_new) n = None.
Proof.
  intros Hb. destruct (builtin_name_none _ Hb) as [Hp Hi].
  destruct (sc_get (sc_named scope_new) n) as [r|] eqn:E; [|reflexivity]. exfalso.
  destruct (si_class _ sinv_new _ _ E) as [Hv|(i & t & ->)].
  - pose proof (si_bounds _ sinv_new _ _ E) as Hbd. pose proof (si_impl _ sinv_new n) as Him. rewrite Hi in Him.
    destruct r; cbn in Hv; try discriminate Hv; cbn in Hbd; try lia. exact (Him _ _ E).
  - pose proof (si_prims _ sinv_new n) as Hpm. rewrite Hp in Hpm. exact (Hpm _ _ E).
Qed.

(* distinct declared variables have distinct DEF registers *)
Lemma def_slots_nodup l : keys_nodup l ->
  (forall x y rx ry, In (x, rx) l -> In (y, ry) l -> var_class rx = true -> slot rx = slot ry -> x = y) ->
  NoDup (map def_slot (def_instrs l)).
Proof.
  unfold keys_nodup. induction l as [|[x r] t IH]; intros Hk Hinj; [constructor|].
  cbn [map fst] in Hk. inversion Hk as [|? ? Hni Hk']; subst.
  assert (IHt : NoDup (map def_slot (def_instrs t))).
  { apply IH; [exact Hk'|]. intros a b ra rb Ha Hb. apply Hinj; right; assumption. }
  rewrite def_instrs_flat. cbn [flat_map snd]. rewrite <- def_instrs_flat.
  destruct (def_of_reg r) as [i|] eqn:Ed; [|exact IHt].
  cbn [app map]. constructor; [|exact IHt].
  intros Hin. apply in_map_iff in Hin. destruct Hin as (i2 & Hs2 & Hi2).
  apply def_instrs_in in Hi2. destruct Hi2 as (y & r2 & Hy & Hd2).
  assert (Hres : i_res i = r /\ i_res i2 = r2 /\ var_class r = true).
  { destruct r as [j ty vol|n|b|j ty|j ty|j ty|j ty vol|j ty|]; try discriminate Ed;
      destruct ty as [[b|]|s|[n|]|]; try discriminate Ed; inversion Ed; subst;
      destruct r2 as [j2 ty2 vol2|n2|b2|j2 ty2|j2 ty2|j2 ty2|j2 ty2 vol2|j2 ty2|]; try discriminate Hd2;
      destruct ty2 as [[b2|]|s2|[n2|]|]; try discriminate Hd2; inversion Hd2; subst; repeat split. }
  destruct Hres as (R1 & R2 & Hv). unfold def_slot in Hs2. rewrite R1, R2 in Hs2.
  assert (x = y) by (eapply (Hinj x y r r2); [left; reflexivity|right; exact Hy|exact Hv|congruence]).
  subst y. apply Hni. apply in_map_iff. exists (x, r2). split; [reflexivity|exact Hy].
Qed.

Lemma declare_report_cap : forall ds sc sc', declare new_report ds sc = Ok sc' -> sc_nperm sc <= 255 -> sc_nperm sc' <= 255.
Proof.
  induction ds as [|[[v n] t] r IH]; intros sc sc' H Hb; cbn [declare] in H; [inversion H; subst; exact Hb|].
  unfold new_report in H. destruct (255 <=? sc_nperm sc) eqn:E; [discriminate|]. apply N.leb_gt in E. cbn [bind] in H.
  eapply IH; [exact H|]. cbn. lia.
Qed.

Definition cnt_step (n : N) (i : instr) : N := if reg_is_report (i_res i) then (n + 1) mod 256 else n.

Lemma fold_cnt l : forall a, a + N.of_nat (length (filter is_rep_entry l)) < 256 ->
  (forall x r, In (x, r) l -> is_rep_entry (x, r) = true -> def_of_reg r <> None) ->
  fold_left cnt_step (def_instrs l) a = a + N.of_nat (length (filter is_rep_entry l)).
Proof.
  induction l as [|[x r] t IH]; intros a Ha Hd; [cbn; lia|].
  rewrite def_instrs_flat. cbn [flat_map snd]. rewrite <- def_instrs_flat. cbn [filter].
  assert (Hd' : forall y ry, In (y, ry) t -> is_rep_entry (y, ry) = true -> def_of_reg ry <> None)
    by (intros y ry Hy; apply Hd; right; exact Hy).
  destruct (is_rep_entry (x, r)) eqn:Er.
  - cbn [filter length] in Ha. rewrite Er in Ha. cbn [length] in Ha.
    specialize (Hd x r (or_introl eq_refl) Er). destruct (def_of_reg r) as [i|] eqn:Ed; [|congruence].
    cbn [app fold_left]. assert (Hres : reg_is_report (i_res i) = true).
    { unfold is_rep_entry in Er. cbn [snd] in Er. destruct r as [j ty vol|n|b|j ty|j ty|j ty|j ty vol|j ty|]; try discriminate Er.
      destruct ty as [[b|]|s|[n|]|]; try discriminate Ed; inversion Ed; reflexivity. }
    unfold cnt_step at 2. rewrite Hres. rewrite N.mod_small by lia. rewrite IH; [cbn [length]; lia|lia|exact Hd'].
  - cbn [filter] in Ha. rewrite Er in Ha.
    destruct (def_of_reg r) as [i|] eqn:Ed.
    + cbn [app fold_left]. assert (Hres : reg_is_report (i_res i) = false).
      { unfold is_rep_entry in Er. cbn [snd] in Er. destruct r as [j ty vol|n|b|j ty|j ty|j ty|j ty vol|j ty|]; try discriminate Ed; try discriminate Er.
        destruct ty as [[b|]|s|[n|]|]; try discriminate Ed; inversion Ed; reflexivity. }
      unfold cnt_step at 2. rewrite Hres. apply IH; [exact Ha|exact Hd'].
    + cbn [app]. apply IH; [exact Ha|exact Hd'].
Qed.

Lemma filter_all_true {A} (p : A -> bool) l : (forall a, In a l -> p a = true) -> filter p l = l.
Proof.
  induction l as [|x t IH]; intros H; [reflexivity|]. cbn [filter]. rewrite (H x (or_introl eq_refl)). f_equal.
  apply IH. intros a Ha. apply H. right. exact Ha.
Qed.

Lemma filter_all_false {A} (p : A -> bool) l : (forall a, In a l -> p a = false) -> filter p l = [].
Proof.
  induction l as [|x t IH]; intros H; [reflexivity|]. cbn [filter]. rewrite (H x (or_introl eq_refl)).
  apply IH. intros a Ha. apply H. right. exact Ha.
Qed.

Lemma tget_app g1 g2 x : tget (g1 ++ g2) x = match tget g1 x with Some v => Some v | None => tget g2 x end.
Proof. induction g1 as [|[k v] t IH]; cbn [app tget]; [reflexivity|]. destruct (name_eqb k x); [reflexivity|exact IH]. Qed.

Lemma tget_in g x tk : tget g x = Some tk -> In x (map fst g).
Proof.
  induction g as [|[k v] t IH]; cbn [tget map fst In]; [discriminate|].
  destruct (name_eqb k x) eqn:E; [apply name_eqb_eq in E; auto|auto].
Qed.

Lemma clobbers_prog_false evs : clobbers_prog (mkSP [] (map sev evs)) = false ->
  forallb (fun ev => negb (clobbers (ev_flag ev)) && forallb (fun e => negb (clobbers e)) (ev_body ev)) evs = true.
Proof.
  unfold clobbers_prog. cbn [sp_events]. induction evs as [|ev r IH]; intros H; [reflexivity|].
  cbn [map existsb sev se_cond se_body] in H. apply orb_false_iff in H. destruct H as [H1 H2].
  apply orb_false_iff in H1. destruct H1 as [Hf Hb]. cbn [forallb]. rewrite Hf, (IH H2). cbn.
  rewrite andb_true_r. clear - Hb. induction (ev_body ev) as [|e t IHt]; [reflexivity|].
  cbn in *. apply orb_false_iff in Hb. destruct Hb as [H1 H2]. rewrite H1, (IHt H2). reflexivity.
Qed.

(* the built-in names of the typing environment have their registers, with value types *)
Lemma builtin_tenv_regs : Forall (fun x => exists r, sc_get (sc_named scope_new) x = Some r /\ is_builtin x = true /\
                                   (forall s, reg_type r <> TName s)) (map fst builtin_tenv).
Proof.
  vm_compute. repeat (constructor; [eexists; split; [reflexivity|split; [reflexivity|intros s; discriminate]]|]). constructor.
Qed.

Lemma new_scope_types : Forall (fun kv : name * reg => forall s, reg_type (snd kv) <> TName s) entries_new.
Proof. vm_compute. repeat (constructor; [intros s; discriminate|]). constructor. Qed.

Lemma combine_fst_snd {A B} (l : list (A * B)) : combine (map fst l) (map snd l) = l.
Proof. induction l as [|[a b] t IH]; [reflexivity|]. cbn. f_equal. exact IH. Qed.

Section Static.
  Variables (reports controls : list (bool * name * ty)) (sc1 sc0 scF : scope).
  Variables (evs : list event) (devs : list Lower.devent) (eis : list instr) (image : list N).
  Let defs := def_instrs (sc_named sc0).
  Let decls := map fst (decls_of_scope sc0).
  Let tys := map snd (decls_of_scope sc0).
  Let p := mkSP decls (map sev evs).

  Hypothesis Hd1 : declare new_report reports scope_new = Ok sc1.
  Hypothesis Hd2 : declare new_control controls sc1 = Ok sc0.
  Hypothesis Hev : compile_events evs sc0 (N.of_nat (length defs)) = Ok (devs, eis, scF).
  Hypothesis Hser : serialize_bin (mkBin devs (defs ++ eis)) = Ok image.
  Hypothesis Hwt : wt_prog p tys = true.
  Hypothesis Hcl : clobbers_prog p = false.
  Hypothesis Hleg : legacy_inf_prog p = false.

  Lemma decls_entries : decls_of_scope sc0 = map decl_of (decl_entries reports controls).
  Proof.
    unfold decls_of_scope. destruct (entries_of_declarations _ _ _ _ Hd1 Hd2) as (He & _). rewrite He. reflexivity.
  Qed.

  Lemma decls_names : map sd_name decls = names_of reports ++ names_of controls.
  Proof.
    unfold decls. rewrite decls_entries, !map_map. rewrite <- decl_entries_names.
    apply map_ext. intros kv. apply decl_of_name.
  Qed.

  (* the seven clauses of the typing discipline *)
  Lemma wt_clauses :
    (forall d, In d decls -> sd_init d <> None) /\
    NoDup (names_of reports ++ names_of controls) /\
    (forall n, In n (names_of reports ++ names_of controls) -> is_builtin_name n = false /\ is_builtin n = false) /\
    evs <> [] /\
    ty_events (decl_tenv decls tys ++ builtin_tenv) (map sev evs) = true.
  Proof.
    pose proof Hwt as W. unfold wt_prog in W. cbn [sp_decls sp_events] in W.
    apply andb_true_iff in W. destruct W as [W W7]. apply andb_true_iff in W. destruct W as [W W6].
    apply andb_true_iff in W. destruct W as [W W5]. apply andb_true_iff in W. destruct W as [W W4].
    apply andb_true_iff in W. destruct W as [W W3]. apply andb_true_iff in W. destruct W as [W1 W2].
    split; [|split; [|split; [|split]]].
    - intros d Hd. rewrite forallb_forall in W2. specialize (W2 _ Hd). destruct (sd_init d); [discriminate|discriminate W2].
    - rewrite <- decls_names. apply nodup_names_spec. exact W3.
    - intros n Hn. rewrite <- decls_names in Hn. apply in_map_iff in Hn. destruct Hn as (d & <- & Hd).
      rewrite forallb_forall in W4, W5. specialize (W4 _ Hd). specialize (W5 _ Hd).
      apply wt_name_not_builtin.
      + destruct (tget builtin_tenv (sd_name d)); [discriminate W4|reflexivity].
      + apply negb_true_iff in W5. exact W5.
    - intros ->. cbn in W6. discriminate W6.
    - exact W7.
  Qed.

  Lemma names_fresh_1 : forall n, In n (names_of reports) -> sc_get (sc_named scope_new) n = None /\ is_builtin_name n = false.
  Proof.
    destruct wt_clauses as (_ & _ & Hnb & _). intros n Hn.
    destruct (Hnb n (in_or_app _ _ _ (or_introl Hn))) as [Hb _]. split; [apply new_scope_fresh; exact Hb|exact Hb].
  Qed.

  Lemma names_fresh_2 : forall n, In n (names_of controls) -> sc_get (sc_named sc1) n = None /\ is_builtin_name n = false.
  Proof.
    destruct wt_clauses as (_ & Hnd & Hnb & _). intros n Hn.
    destruct (Hnb n (in_or_app _ _ _ (or_intror Hn))) as [Hb _]. split; [|exact Hb].
    destruct (nodup_app _ _ Hnd) as (Hnd1 & _ & Hdisj).
    destruct (declare_report_spec _ _ _ Hd1 Hnd1 (fun m Hm => proj1 (names_fresh_1 m Hm))) as (_ & _ & _ & _ & _ & Hoth).
    rewrite Hoth; [apply new_scope_fresh; exact Hb|]. intros Hi. exact (Hdisj n Hi Hn).
  Qed.

  Lemma sinv_sc0 : sinv sc0.
  Proof.
    destruct wt_clauses as (_ & Hnd & _). destruct (nodup_app _ _ Hnd) as (Hnd1 & Hnd2 & _).
    assert (S1 : sinv sc1).
    { eapply (declare_sinv new_report); [|exact Hd1|exact sinv_new|exact Hnd1|exact names_fresh_1].
      intros sc v n t r sc' S Hn Hb H. split; [eapply sinv_new_report; eauto|eapply new_report_other; eauto]. }
    eapply (declare_sinv new_control); [|exact Hd2|exact S1|exact Hnd2|exact names_fresh_2].
    intros sc v n t r sc' S Hn Hb H. split; [eapply sinv_new_control; eauto|eapply new_control_other; eauto].
  Qed.

  Lemma sinv_scF : sinv scF.
  Proof. eapply compile_events_sinv; [exact Hev|exact sinv_sc0]. Qed.


  Lemma sc0_get_report k v n t : nth_error reports k = Some (v, n, t) ->
    sc_get (sc_named sc0) n = Some (Report (N.of_nat k) t v).
  Proof.
    destruct wt_clauses as (_ & Hnd & Hnb & _).
    destruct (declarations_scope _ _ _ _ Hd1 Hd2 Hnd (fun m Hm => proj2 (Hnb m Hm))) as (Hr & _). apply Hr.
  Qed.

  Lemma sc0_get_control k v n t : nth_error controls k = Some (v, n, t) ->
    sc_get (sc_named sc0) n = Some (Control (N.of_nat k) t v).
  Proof.
    destruct wt_clauses as (_ & Hnd & Hnb & _).
    destruct (declarations_scope _ _ _ _ Hd1 Hd2 Hnd (fun m Hm => proj2 (Hnb m Hm))) as (_ & Hc & _). apply Hc.
  Qed.

  Lemma decl_entry_cases kv : In kv (decl_entries reports controls) ->
    (exists k v n t, nth_error reports k = Some (v, n, t) /\ kv = (n, Report (N.of_nat k) t v)) \/
    (exists k v n t, nth_error controls k = Some (v, n, t) /\ kv = (n, Control (N.of_nat k) t v)).
  Proof.
    unfold decl_entries. intros Hin. apply in_app_or in Hin. destruct Hin as [Hin|Hin]; apply in_map_iff in Hin;
      destruct Hin as (k & Hk & Hs); apply in_seq in Hs.
    - left. destruct (nth_error reports k) as [[[v n] t]|] eqn:E; [|apply nth_error_None in E; lia]. eauto 8.
    - right. destruct (nth_error controls k) as [[[v n] t]|] eqn:E; [|apply nth_error_None in E; lia]. eauto 8.
  Qed.

  Lemma decl_entry_in_sc0 kv : In kv (decl_entries reports controls) -> sc_get (sc_named sc0) (fst kv) = Some (snd kv).
  Proof.
    intros Hin. destruct (decl_entry_cases _ Hin) as [(k & v & n & t & Hk & ->)|(k & v & n & t & Hk & ->)]; cbn [fst snd].
    - eapply sc0_get_report; eauto.
    - eapply sc0_get_control; eauto.
  Qed.

  (* every report / control entry of the scope is a declaration *)
  Lemma sc0_perm_entry x r : In (x, r) (sc_named sc0) -> is_perm r -> In (x, r) (decl_entries reports controls).
  Proof.
    intros Hin Hp.
    assert (Hget : sc_get (sc_named sc0) x = Some r) by (apply sinv_unique; [exact sinv_sc0|exact Hin]).
    destruct (declare_control_in _ _ _ Hd2 _ Hin) as [Hin1|(v & n & t & i & He & Hc)].
    - destruct (declare_report_in _ _ _ Hd1 _ Hin1) as [Hin0|(v & n & t & i & He & Hc)].
      + exfalso. change (sc_named scope_new) with entries_new in Hin0.
        assert (H : Forall (fun kv : name * reg => match snd kv with Report _ _ _ | Control _ _ _ => False | _ => True end) entries_new)
          by (vm_compute; repeat (constructor; [exact I|]); constructor).
        rewrite Forall_forall in H. specialize (H _ Hin0). cbn in H. destruct r; try contradiction.
      + inversion He; subst x r. apply In_nth_error in Hc. destruct Hc as (k & Hk).
        pose proof (sc0_get_report _ _ _ _ Hk) as G. rewrite Hget in G. inversion G; subst i.
        unfold decl_entries. apply in_or_app. left. apply in_map_iff. exists k. rewrite Hk. split; [reflexivity|].
        apply in_seq. assert (k < length reports)%nat by (apply nth_error_Some; rewrite Hk; discriminate). lia.
    - inversion He; subst x r. apply In_nth_error in Hc. destruct Hc as (k & Hk).
      pose proof (sc0_get_control _ _ _ _ Hk) as G. rewrite Hget in G. inversion G; subst i.
      unfold decl_entries. apply in_or_app. right. apply in_map_iff. exists k. rewrite Hk. split; [reflexivity|].
      apply in_seq. assert (k < length controls)%nat by (apply nth_error_Some; rewrite Hk; discriminate). lia.
  Qed.


  Lemma all_within : Forall instr_within (defs ++ eis).
  Proof.
    unfold serialize_bin in Hser. apply bind_ok_inv in Hser. destruct Hser as (bs & Hs & _). cbn [b_instrs] in Hs.
    pose proof (serialized_instrs_within _ _ Hs) as H. exact H.
  Qed.

  Lemma sextF : sext (sc_named sc0) (sc_named scF).
  Proof. eapply compile_events_mono; eauto. Qed.

  Definition lit_of (t : ty) : option N :=
    match t with TNum (Some n) => Some n | TBool (Some b) => Some (if b then 1 else 0) | _ => None end.

  Lemma decl_in_decls kv : In kv (decl_entries reports controls) -> In (fst (decl_of kv)) decls.
  Proof. intros Hin. unfold decls. rewrite decls_entries, map_map. apply in_map_iff. exists kv. auto. Qed.

  Lemma legacy_false d n : In d decls -> sd_init d = Some n -> n <> 1073741823.
  Proof.
    intros Hd Hi. pose proof Hleg as L. unfold legacy_inf_prog, p in L. cbn [sp_decls] in L.
    intros ->. assert (existsb (fun d => match sd_init d with Some v => v =? 1073741823 | None => false end) decls = true); [|congruence].
    apply existsb_exists. exists d. split; [exact Hd|]. rewrite Hi. reflexivity.
  Qed.

  (* everything about one declared variable *)
  Lemma perm_entry_facts x r : In (x, r) (decl_entries reports controls) ->
    exists i v0 r', def_of_reg r = Some i /\ In i defs /\ In (fst (decl_of (x, r))) decls /\
      sd_name (fst (decl_of (x, r))) = x /\ sd_init (fst (decl_of (x, r))) = Some v0 /\
      sc_get (sc_named scF) x = Some r' /\ dreg_of r' = dreg_of (i_res i) /\ i_res i = r /\
      legacy (def_val (i_right i)) = init_value v0 /\ reg_vol r = sd_vol (fst (decl_of (x, r))) /\
      reg_is_report r = sd_report (fst (decl_of (x, r))) /\ init_value v0 < W64.
  Proof.
    intros Hin. pose proof (decl_in_decls _ Hin) as Hd.
    destruct wt_clauses as (Hinit & _). specialize (Hinit _ Hd).
    pose proof (decl_entry_in_sc0 _ Hin) as Hget. cbn [fst snd] in Hget.
    destruct (sextF _ _ Hget) as (r' & GF & HdF).
    assert (Hperm : is_perm r) by (destruct (decl_entry_cases _ Hin) as [(k&v&n&t&_&E)|(k&v&n&t&_&E)]; inversion E; exact I).
    assert (Hdef : forall i, def_of_reg r = Some i -> In i defs).
    { intros i Hi. unfold defs. apply def_instrs_in. exists x, r. split; [apply get_in; exact Hget|exact Hi]. }
    assert (Hw : forall i, In i defs -> instr_within i).
    { intros i Hi. pose proof all_within as W. rewrite Forall_forall in W. apply W. apply in_or_app. left. exact Hi. }
    destruct r as [j ty vol|n|b|j ty|j ty|j ty|j ty vol|j ty|]; try contradiction;
      destruct ty as [[b|]|s|[n|]|]; cbn [decl_of snd fst sd_init] in Hinit; try congruence.
    - (* control, boolean *)
      eexists _, _, r'. split; [reflexivity|]. split; [apply Hdef; reflexivity|]. split; [exact Hd|].
      cbn [decl_of snd fst sd_name sd_init sd_vol sd_report i_res i_right def_val reg_vol reg_is_report].
      repeat split; auto. destruct b; reflexivity. destruct b; unfold init_value, lit_value, W64; cbn; lia.
    - (* control, number *)
      assert (Hn : n < 2147483648 \/ n = U64_MAX).
      { destruct (Hw _ (Hdef _ eq_refl)) as (_ & _ & Wr). exact Wr. }
      assert (Hl : n <> 1073741823) by (eapply legacy_false; [exact Hd|reflexivity]).
      eexists _, _, r'. split; [reflexivity|]. split; [apply Hdef; reflexivity|]. split; [exact Hd|].
      cbn [decl_of snd fst sd_name sd_init sd_vol sd_report i_res i_right def_val reg_vol reg_is_report].
      repeat split; auto.
      + unfold legacy, init_value, lit_value. destruct Hn as [Hn| ->].
        * rewrite N.mod_small by lia. destruct (n =? 1073741823) eqn:E1; [apply N.eqb_eq in E1; contradiction|].
          destruct (n =? 18446744073709551615) eqn:E2; [apply N.eqb_eq in E2; lia|reflexivity].
        * reflexivity.
      + unfold init_value, lit_value. destruct (n =? 18446744073709551615); unfold INF32, W64, U64_MAX in *; lia.
    - (* report, boolean *)
      eexists _, _, r'. split; [reflexivity|]. split; [apply Hdef; reflexivity|]. split; [exact Hd|].
      cbn [decl_of snd fst sd_name sd_init sd_vol sd_report i_res i_right def_val reg_vol reg_is_report].
      repeat split; auto. destruct b; reflexivity. destruct b; unfold init_value, lit_value, W64; cbn; lia.
    - (* report, number *)
      assert (Hn : n < 2147483648 \/ n = U64_MAX).
      { destruct (Hw _ (Hdef _ eq_refl)) as (_ & _ & Wr). exact Wr. }
      assert (Hl : n <> 1073741823) by (eapply legacy_false; [exact Hd|reflexivity]).
      eexists _, _, r'. split; [reflexivity|]. split; [apply Hdef; reflexivity|]. split; [exact Hd|].
      cbn [decl_of snd fst sd_name sd_init sd_vol sd_report i_res i_right def_val reg_vol reg_is_report].
      repeat split; auto.
      + unfold legacy, init_value, lit_value. destruct Hn as [Hn| ->].
        * rewrite N.mod_small by lia. destruct (n =? 1073741823) eqn:E1; [apply N.eqb_eq in E1; contradiction|].
          destruct (n =? 18446744073709551615) eqn:E2; [apply N.eqb_eq in E2; lia|reflexivity].
        * reflexivity.
      + unfold init_value, lit_value. destruct (n =? 18446744073709551615); unfold INF32, W64, U64_MAX in *; lia.
  Qed.


  Lemma Hdecl_def_F : forall d, In d decls -> exists i, In i defs /\ decl_def (sc_named scF) d i.
  Proof.
    intros d Hd. unfold decls in Hd. rewrite decls_entries, map_map in Hd. apply in_map_iff in Hd.
    destruct Hd as ([x r] & <- & Hin).
    destruct (perm_entry_facts _ _ Hin) as (i & v0 & r' & _ & Hi & _ & Hn & Hv & Hg & Hdr & Hres & Hleg' & Hvol & Hrep & _).
    exists i. split; [exact Hi|]. exists v0, r'. rewrite Hn. rewrite Hres in *. repeat split; assumption.
  Qed.

  Lemma Hdef_decl_F : forall i, In i defs -> exists d, In d decls /\ decl_def (sc_named scF) d i.
  Proof.
    intros i Hi. unfold defs in Hi. apply def_instrs_in in Hi. destruct Hi as (x & r & Hin & Hd).
    assert (Hp : is_perm r) by (destruct r as [j ty vol|n|b|j ty|j ty|j ty|j ty vol|j ty|]; try discriminate Hd; exact I).
    pose proof (sc0_perm_entry _ _ Hin Hp) as He.
    destruct (perm_entry_facts _ _ He) as (i' & v0 & r' & Hd' & _ & Hdd & Hn & Hv & Hg & Hdr & Hres & Hleg' & Hvol & Hrep & _).
    rewrite Hd in Hd'. inversion Hd'; subst i'.
    exists (fst (decl_of (x, r))). split; [exact Hdd|]. exists v0, r'. rewrite Hn. rewrite Hres in *. repeat split; assumption.
  Qed.

  Lemma Hnodup_slots_F : NoDup (map def_slot defs).
  Proof.
    apply def_slots_nodup; [apply (si_keys _ sinv_sc0)|].
    intros x y rx ry Hx Hy Hv Hs. eapply (si_inj _ sinv_sc0); eauto; apply sinv_unique; auto using sinv_sc0.
  Qed.

  Lemma Hnodup_decls_F : NoDup (map sd_name decls).
  Proof. rewrite decls_names. destruct wt_clauses as (_ & H & _). exact H. Qed.

  Lemma Hinit_bounded_F : forall d v, In d decls -> sd_init d = Some v -> init_value v < W64.
  Proof.
    intros d v Hd Hv. unfold decls in Hd. rewrite decls_entries, map_map in Hd. apply in_map_iff in Hd.
    destruct Hd as ([x r] & <- & Hin).
    destruct (perm_entry_facts _ _ Hin) as (i & v0 & r' & _ & _ & _ & _ & Hv0 & _ & _ & _ & _ & _ & _ & Hb).
    rewrite Hv in Hv0. inversion Hv0; subst. exact Hb.
  Qed.

  Definition rep_entries : list (name * reg) :=
    map (fun k => match nth_error reports k with Some (v, n, t) => (n, Report (N.of_nat k) t v) | None => ([], RNone) end) (seq 0 (length reports)).
  Definition ctl_entries : list (name * reg) :=
    map (fun k => match nth_error controls k with Some (v, n, t) => (n, Control (N.of_nat k) t v) | None => ([], RNone) end) (seq 0 (length controls)).

  Lemma rep_decls_eq : rep_decls decls = map (fun kv => fst (decl_of kv)) rep_entries.
  Proof.
    unfold rep_decls, decls. rewrite decls_entries, map_map. change (decl_entries reports controls) with (rep_entries ++ ctl_entries).
    rewrite map_app, filter_app.
    assert (H1 : filter (fun d => sd_report d && match sd_init d with Some _ => true | None => false end) (map (fun kv => fst (decl_of kv)) rep_entries)
                 = map (fun kv => fst (decl_of kv)) rep_entries).
    { apply filter_all_true. intros d Hd. apply in_map_iff in Hd. destruct Hd as ([x r] & <- & Hin).
      assert (Hin' : In (x, r) (decl_entries reports controls)) by (apply in_or_app; left; exact Hin).
      destruct (perm_entry_facts _ _ Hin') as (i & v0 & r' & _ & _ & _ & _ & Hv0 & _ & _ & _ & _ & _ & Hrep & _).
      rewrite Hv0, <- Hrep. unfold rep_entries in Hin. apply in_map_iff in Hin. destruct Hin as (k & Hk & Hs). apply in_seq in Hs.
      destruct (nth_error reports k) as [[[v n] t]|] eqn:E; [inversion Hk; reflexivity|apply nth_error_None in E; lia]. }
    assert (H2 : filter (fun d => sd_report d && match sd_init d with Some _ => true | None => false end) (map (fun kv => fst (decl_of kv)) ctl_entries) = []).
    { apply filter_all_false. intros d Hd. apply in_map_iff in Hd. destruct Hd as ([x r] & <- & Hin).
      assert (Hin' : In (x, r) (decl_entries reports controls)) by (apply in_or_app; right; exact Hin).
      destruct (perm_entry_facts _ _ Hin') as (i & v0 & r' & _ & _ & _ & _ & _ & _ & _ & _ & _ & _ & Hrep & _).
      rewrite <- Hrep. unfold ctl_entries in Hin. apply in_map_iff in Hin. destruct Hin as (k & Hk & Hs). apply in_seq in Hs.
      destruct (nth_error controls k) as [[[v n] t]|] eqn:E; [inversion Hk; reflexivity|apply nth_error_None in E; lia]. }
    rewrite H1, H2, app_nil_r. reflexivity.
  Qed.

  Lemma Hnrep_F : N.of_nat (length (rep_decls decls)) = ntr_of defs.
  Proof.
    rewrite rep_decls_eq, map_length. unfold rep_entries. rewrite map_length, seq_length.
    destruct (entries_of_declarations _ _ _ _ Hd1 Hd2) as (_ & Hnp & _ & Hcnt & _).
    assert (Hcap : N.of_nat (length reports) <= 255).
    { rewrite <- Hnp. destruct (declare_control_entries _ _ _ Hd2 (proj1 (declare_report_entries _ _ _ Hd1 ebounds_new))) as (_ & _ & Hp & _).
      rewrite Hp. eapply declare_report_cap; [exact Hd1|]. cbn. lia. }
    unfold ntr_of. change (fun n i => if reg_is_report (i_res i) then (n + 1) mod 256 else n) with cnt_step.
    unfold defs. rewrite fold_cnt; [rewrite Hcnt; lia|rewrite Hcnt; lia|].
    intros x r Hin Hr. assert (Hp : is_perm r) by (unfold is_rep_entry in Hr; cbn in Hr; destruct r; try discriminate Hr; exact I).
    destruct (perm_entry_facts _ _ (sc0_perm_entry _ _ Hin Hp)) as (i & _ & _ & Hd & _). congruence.
  Qed.

  Lemma Hrep_slots_F : forall j d, nth_error (rep_decls decls) j = Some d ->
    exists r, sc_get (sc_named scF) (sd_name d) = Some r /\ slot r = Some (FRep, N.of_nat j).
  Proof.
    intros j d Hj. rewrite rep_decls_eq in Hj. unfold rep_entries in Hj. rewrite map_map in Hj.
    rewrite nth_error_map in Hj. destruct (nth_error (seq 0 (length reports)) j) as [k|] eqn:Hk; [|discriminate Hj].
    cbn [option_map] in Hj. inversion Hj as [Hd]. clear Hj.
    assert (Hjk : k = j /\ (j < length reports)%nat).
    { assert (Hlt : (j < length (seq 0 (length reports)))%nat) by (apply nth_error_Some; congruence).
      rewrite seq_length in Hlt. rewrite (nth_error_nth' _ 0%nat) in Hk by (rewrite seq_length; exact Hlt).
      rewrite seq_nth in Hk by exact Hlt. inversion Hk. subst k. split; [reflexivity|exact Hlt]. }
    destruct Hjk as [-> Hlt].
    destruct (nth_error reports j) as [[[v n] t]|] eqn:E; [|apply nth_error_None in E; lia].
    subst d. rewrite decl_of_name. cbn [fst].
    pose proof (sc0_get_report _ _ _ _ E) as G. destruct (sextF _ _ G) as (r' & GF & Hdr).
    exists r'. split; [exact GF|]. rewrite (dreg_slot _ _ Hdr). reflexivity.
  Qed.


  Lemma decl_tenv_eq : decl_tenv decls tys =
    map (fun dt : sdecl * vty => (sd_name (fst dt), (snd dt, if sd_report (fst dt) then KReport else KControl))) (decls_of_scope sc0).
  Proof.
    unfold decl_tenv, decls, tys. rewrite combine_fst_snd. reflexivity.
  Qed.

  Lemma literal_type x r : In (x, r) (decl_entries reports controls) -> forall s, reg_type r <> TName s.
  Proof.
    intros Hin s. destruct (perm_entry_facts _ _ Hin) as (i & _ & _ & Hd & _).
    destruct r as [j ty vol|n|b|j ty|j ty|j ty|j ty vol|j ty|]; try discriminate Hd;
      destruct ty as [[b|]|s0|[n|]|]; try discriminate Hd; discriminate.
  Qed.

  Lemma Hlink_F : link (decl_tenv decls tys ++ builtin_tenv) (sc_named sc0).
  Proof.
    intros x tk Hx. rewrite tget_app in Hx.
    destruct (tget (decl_tenv decls tys) x) as [v|] eqn:E.
    - apply tget_in in E. rewrite decl_tenv_eq, map_map in E. cbn [fst] in E.
      rewrite decls_entries, map_map in E. apply in_map_iff in E. destruct E as ([y r] & Hy & Hin).
      rewrite decl_of_name in Hy. cbn [fst] in Hy. subst y.
      exists r. split; [exact (decl_entry_in_sc0 _ Hin)|exact (literal_type _ _ Hin)].
    - apply tget_in in Hx. pose proof builtin_tenv_regs as B. rewrite Forall_forall in B.
      destruct (B _ Hx) as (r & Hg & Hb & Ht).
      destruct wt_clauses as (_ & Hnd & Hnb & _).
      destruct (declarations_scope _ _ _ _ Hd1 Hd2 Hnd (fun m Hm => proj2 (Hnb m Hm))) as (_ & _ & Hbi & _).
      exists r. split; [rewrite (Hbi _ Hb); exact Hg|exact Ht].
  Qed.

  Lemma Htn_F : tname_ok (sc_named sc0).
  Proof.
    intros x r s Hg Ht. exfalso. apply get_in in Hg.
    destruct (declare_control_in _ _ _ Hd2 _ Hg) as [Hin1|(v & n & t & i & He & _)].
    - destruct (declare_report_in _ _ _ Hd1 _ Hin1) as [Hin0|(v & n & t & i & He & _)].
      + pose proof new_scope_types as T. rewrite Forall_forall in T. exact (T _ Hin0 s Ht).
      + inversion He; subst. exact (literal_type _ _ (sc0_perm_entry _ _ Hg I) s Ht).
    - inversion He; subst. exact (literal_type _ _ (sc0_perm_entry _ _ Hg I) s Ht).
  Qed.

  Lemma Hfirst_F : exists e0 rest, eis = e0 :: rest /\ not_def (dinstr_of e0).
  Proof.
    destruct wt_clauses as (_ & _ & _ & Hne & _).
    destruct evs as [|ev r]; [congruence|]. cbn [compile_events] in Hev.
    apply bind_ok_inv in Hev. destruct Hev as ([fi sc1'] & Hf & H).
    apply bind_ok_inv in H. destruct H as ([bi sc2'] & Hb & H).
    apply bind_ok_inv in H. destruct H as ([[evs' is'] sc3'] & Hr & H). inversion H; subst devs eis scF.
    destruct (compile_flag_nonempty _ _ _ _ Hf) as [Hlen _].
    pose proof (compile_flag_no_def _ _ _ _ Hf) as Hnd.
    destruct fi as [|e0 fr]; [cbn in Hlen; lia|]. inversion Hnd as [|? ? He0 _]; subst.
    exists e0, (fr ++ bi ++ is'). split; [reflexivity|]. unfold not_def, dinstr_of. cbn [di_op]. apply opcode_def. exact He0.
  Qed.

  Lemma Hcl_F : forallb (fun ev => negb (clobbers (ev_flag ev)) && forallb (fun e => negb (clobbers e)) (ev_body ev)) evs = true.
  Proof. apply clobbers_prog_false. exact Hcl. Qed.

End Static.

(* ---------- the datapath after the install and change-program messages ---------- *)

Lemma tiles_small devs : forall next flags bodies, tiles_abs next devs flags bodies ->
  next + N.of_nat (fold_right plus 0 flags + fold_right plus 0 bodies)%nat < 4294967296 -> Forall devent_small devs.
Proof.
  induction devs as [|d r IH]; intros next flags bodies Ht Hb; [constructor|].
  destruct flags as [|f fr]; [destruct Ht|]. destruct bodies as [|b br]; [destruct Ht|].
  cbn [tiles_abs] in Ht. destruct Ht as (H1 & H2 & _ & H3 & H4 & Hr). cbn [fold_right] in Hb.
  constructor.
  - unfold devent_small. rewrite H1, H2, H3, H4. lia.
  - eapply IH; [exact Hr|]. lia.
Qed.

Definition conn_loaded : conn := mkConn 1 true 1000 0 (Some 1) regs0 (repeat None 110) None None prims0.

Lemma read_changeprog_77 p0 : dp_index p0 = 1 -> dp_uid p0 = 77 -> forall cp d3 rc,
  serialize_changeprog 1 77 0 [] = Ok cp ->
  read_msg (mkDp 1000 1000 [p0] (Some (mkConn 1 true 1000 0 None regs0 (repeat None 110) None None prims0))) cp = (rc, d3) ->
  rc = 0%Z -> d3 = mkDp 1000 1000 [p0] (Some conn_loaded).
Proof.
  intros Hi Hu cp d3 rc Hcp Hr Hrc. vm_compute in Hcp. inversion Hcp; subst cp; clear Hcp.
  destruct p0 as [idx uid xs is ntr]. cbn in Hi, Hu. subst idx uid.
  vm_compute in Hr. inversion Hr; subst. reflexivity.
Qed.

Lemma skipn_exact {A} (a b : list A) n : length a = n -> skipn n (a ++ b) = b.
Proof. intros <-. rewrite skipn_app, skipn_all, Nat.sub_diag. reflexivity. Qed.

Lemma load_machine devs instrs image im d1 rc1 :
  serialize_bin (mkBin devs instrs) = Ok image ->
  (exists flags bodies pre, tiles_abs (N.of_nat pre) devs flags bodies /\
      (pre + (fold_right plus 0 flags + fold_right plus 0 bodies) <= length instrs)%nat) ->
  serialize_install 0 77 (N.of_nat (length devs)) (N.of_nat (length instrs)) (Ok image) = Ok im ->
  read_msg dp_init im = (rc1, d1) -> rc1 = 0%Z ->
  d1 = mkDp 1000 1000 [mkDProg 1 77 (map dexpr_of devs) (map dinstr_of instrs) 0] None.
Proof.
  intros Hser (flags & bodies & pre & Htile & Hsum) Him Hr Hrc. subst rc1.
  unfold serialize_bin in Hser. cbn [b_instrs b_events] in Hser.
  apply bind_ok_inv in Hser. destruct Hser as (ibytes & Hib & Hser). inversion Hser; subst image; clear Hser.
  pose proof (ser_instrs_length _ _ Hib) as Lib. pose proof (ser_events_length devs) as Lev.
  set (ne := N.of_nat (length devs)) in *. set (ni := N.of_nat (length instrs)) in *.
  pose proof Him as Him0. unfold serialize_install in Him0. apply serialize_gen_ok in Him0.
  destruct Him0 as (Hlen & b & Hb & Heq). inversion Hb; subst b; clear Hb.
  assert (Hne : ne < 4096 /\ ni < 4096) by lia. destruct Hne as [Hne Hni].
  destruct (install_honest 0 77 ne ni _ im ltac:(lia) ltac:(lia) ltac:(lia)
              ltac:(rewrite app_length, Lev, Lib; unfold ne, ni; rewrite !Nat2N.id; lia) Him) as (H2 & H0 & _).
  unfold read_msg in Hr. rewrite H0, H2 in Hr.
  change (negb ((2 =? 2) || (2 =? 3) || (2 =? 4))) with false in Hr. cbv iota in Hr.
  rewrite N.ltb_irrefl in Hr.
  destruct (32678 <? N.of_nat (length im)) eqn:E1; [inversion Hr|].
  change (2 =? 2) with true in Hr. cbv iota in Hr.
  (* the body *)
  assert (Hbody : skipn 8 im = enc_le 4 77 ++ enc_le 4 ne ++ enc_le 4 ni ++ (concat (map ser_event devs) ++ ibytes)).
  { rewrite Heq. rewrite skipn_exact by apply CodecRoundtrip.ser_header_length. rewrite <- !app_assoc. reflexivity. }
  rewrite Hbody in Hr.
  destruct (enc4 77) as (u0 & u1 & u2 & u3 & Eu). destruct (enc4 ne) as (a0 & a1 & a2 & a3 & Ea). destruct (enc4 ni) as (b0 & b1 & b2 & b3 & Eb).
  rewrite Eu, Ea, Eb in Hr. cbn [app] in Hr.
  unfold le32, le_at, sub in Hr. cbn [skipn firstn Nat.sub Nat.add] in Hr.
  rewrite (dec4 _ _ _ _ _ Eu), (dec4 _ _ _ _ _ Ea), (dec4 _ _ _ _ _ Eb) in Hr.
  change (77 mod 4294967296 =? 1) with false in Hr. cbv iota in Hr.
  rewrite !N.mod_small in Hr by lia.
  change (d_progs dp_init) with (@nil dprog) in Hr. change (Nat.leb (MAX_PROGRAMS - 1) (length (@nil dprog))) with false in Hr. cbv iota in Hr.
  unfold ne, ni in Hr. rewrite !Nat2N.id in Hr.
  rewrite (read_ser_events devs ibytes) in Hr.
  2:{ eapply tiles_small; [exact Htile|]. unfold ni in Hni. lia. }
  replace (16 * length devs)%nat with (length (concat (map ser_event devs))) in Hr by (rewrite Lev; reflexivity).
  rewrite skipn_exact in Hr by reflexivity.
  rewrite <- (app_nil_r ibytes) in Hr.
  destruct (read_instrs (length instrs) (ibytes ++ [])) as [e|dis] eqn:Eri.
  - exfalso. inversion Hr as [[H4 Hd1]]. clear Hr Hd1.
    (* read_instrs only fails with libccp's negative error codes *)
    clear - Eri H4. revert Eri. generalize (ibytes ++ []). generalize (length instrs).
    induction n as [|n IH]; intros l; cbn [read_instrs]; [discriminate|].
    destruct (read_instruction (firstn 16 l)) as [e1|i1] eqn:E1.
    + intros Hq. inversion Hq; subst e1. unfold read_instruction in E1.
      repeat match type of E1 with context [if ?c then _ else _] => destruct c end;
        repeat match type of E1 with context [match ?x with Some _ => _ | None => _ end] => destruct x end; inversion E1; congruence.
    + destruct (read_instrs n (skipn 16 l)) as [e2|r2] eqn:E2; [|discriminate]. intros Hq. inversion Hq; subst e2. eapply IH; eauto.
  - apply (read_ser_instrs_inv _ _ _ _ Hib) in Eri. subst dis. inversion Hr; subst. reflexivity.
Qed.

(* ---------- the end-to-end theorem ---------- *)

Lemma getn_repeat0 n i : getn (repeat 0 n) i = 0.
Proof.
  unfold getn. generalize (N.to_nat i). clear i. induction n as [|n IH]; intros [|k]; cbn; auto.
Qed.

Lemma Rv_initial scf : Rv scf (mkS [] 1000) conn_loaded.
Proof.
  unfold Rv. split; [apply regs0_wf|]. split; [|split; reflexivity].
  intros x r Hx Hvc. cbn [s_env env_get].
  destruct (slot r) as [[f j]|] eqn:Es; [|unfold var_class in Hvc; rewrite Es in Hvc; discriminate].
  rewrite (read_reg_slot _ _ _ _ _ _ Es). unfold rd, conn_loaded. cbn [c_regs]. destruct f; cbn [file_of regs0 r_report r_control r_impl r_tmp r_local]; apply getn_repeat0.
Qed.

Definition inputs_bounded (ins : list input) : Prop := Forall (fun i : input => prims_bounded (fst i)) ins.

Theorem compile_correct_end_to_end src ins :
  in_c01_scope src = true -> inputs_bounded ins -> agrees src ins = Some true.
Proof.
  unfold in_c01_scope, agrees. intros Hscope Hins.
  destruct (load src 77) as [[[[d3 p] tys] scF]|] eqn:Hl; [|discriminate Hscope].
  apply andb_true_iff in Hscope. destruct Hscope as [Hscope Hleg]. apply andb_true_iff in Hscope. destruct Hscope as [Hwt Hcl].
  apply negb_true_iff in Hleg. apply negb_true_iff in Hcl.
  (* unfold the loading *)
  unfold load in Hl.
  destruct (utf8_decode src) as [cps|] eqn:Hu; [|discriminate Hl].
  destruct (new_with_scope cps) as [[[evs sc0]| |]|] eqn:Hn; try discriminate Hl.
  destruct (compile src []) as [[[b scF']| |]|] eqn:Hc; try discriminate Hl.
  destruct (serialize_install 0 77 (N.of_nat (length (b_events b))) (N.of_nat (length (b_instrs b))) (serialize_bin b)) as [im| |] eqn:Him; try discriminate Hl.
  destruct (serialize_changeprog 1 77 0 []) as [cp| |] eqn:Hcp; try discriminate Hl.
  destruct (read_msg dp_init im) as [rc1 d1] eqn:Hr1.
  destruct (conn_start d1 10 1448 []) as [d2 ev2] eqn:Hcs.
  destruct (read_msg d2 cp) as [rc2 d3'] eqn:Hr2.
  destruct ((rc1 =? 0)%Z && (rc2 =? 0)%Z) eqn:Hrc; [|discriminate Hl].
  apply andb_true_iff in Hrc. destruct Hrc as [Hrc1 Hrc2]. apply Z.eqb_eq in Hrc1. apply Z.eqb_eq in Hrc2.
  inversion Hl; subst d3' p tys scF'. clear Hl.
  rewrite sev_map in *.
  (* the compilation *)
  pose proof (compile_inv _ _ _ _ _ _ Hu Hn Hc) as Hcp'.
  destruct (compile_prog_inv _ _ _ _ Hcp') as (devs & eis & Hev & Hb). subst b. cbn [b_events b_instrs] in Him.
  destruct (new_with_scope_inv _ _ _ Hn) as (reports & controls & sc1 & Hd1 & Hd2).
  assert (Himg : exists image, serialize_bin (mkBin devs (def_instrs (sc_named sc0) ++ eis)) = Ok image).
  { unfold serialize_install in Him. apply serialize_gen_ok in Him. destruct Him as (_ & b0 & Hb0 & _). eauto. }
  destruct Himg as (image & Hser). rewrite Hser in Him.
  (* the datapath *)
  destruct (events_tile _ _ _ _ _ _ Hev) as (flags & bodies & Htile & Hlen & _).
  assert (Hd1m : d1 = mkDp 1000 1000 [mkDProg 1 77 (map dexpr_of devs) (map dinstr_of (def_instrs (sc_named sc0) ++ eis)) 0] None).
  { eapply load_machine; eauto. exists flags, bodies, (length (def_instrs (sc_named sc0))). split; [exact Htile|].
    rewrite app_length, Hlen. lia. }
  subst d1. cbn in Hcs. inversion Hcs; subst d2 ev2. clear Hcs.
  assert (Hd3 : d3 = mkDp 1000 1000 [mkDProg 1 77 (map dexpr_of devs) (map dinstr_of (def_instrs (sc_named sc0) ++ eis)) 0] (Some conn_loaded)).
  { exact (read_changeprog_77 (mkDProg 1 77 (map dexpr_of devs) (map dinstr_of (def_instrs (sc_named sc0) ++ eis)) 0) eq_refl eq_refl cp d3 rc2 Hcp Hr2 Hrc2). }
  subst d3.
  (* the simulation *)
  set (defs := def_instrs (sc_named sc0)) in *.
  pose proof (sinv_scF _ _ _ _ _ _ _ _ Hd1 Hd2 Hev Hwt Hcl Hleg) as SF.
  pose proof (Hnodup_slots_F _ _ _ _ _ _ _ _ Hd1 Hd2 Hev Hwt Hcl Hleg) as F1.
  pose proof (Hnodup_decls_F _ _ _ _ _ _ _ _ Hd1 Hd2 Hev Hwt Hcl Hleg) as F2.
  pose proof (Hdecl_def_F _ _ _ _ _ _ _ _ _ Hd1 Hd2 Hev Hser Hwt Hcl Hleg) as F3.
  pose proof (Hdef_decl_F _ _ _ _ _ _ _ _ _ Hd1 Hd2 Hev Hser Hwt Hcl Hleg) as F4.
  pose proof (Hcl_F _ _ Hcl) as F5.
  pose proof (Hlink_F _ _ _ _ _ _ _ _ _ Hd1 Hd2 Hev Hser Hwt Hcl Hleg) as F6.
  pose proof (Htn_F _ _ _ _ _ _ _ _ _ Hd1 Hd2 Hev Hser Hwt Hcl Hleg) as F7.
  pose proof (Hfirst_F _ _ _ _ _ _ _ _ _ Hd1 Hd2 Hev Hser Hwt Hcl Hleg) as F8.
  pose proof (Hinit_bounded_F _ _ _ _ _ _ _ _ _ Hd1 Hd2 Hev Hser Hwt Hcl Hleg) as F9.
  pose proof (Hnrep_F _ _ _ _ _ _ _ _ _ Hd1 Hd2 Hev Hser Hwt Hcl Hleg) as F10.
  pose proof (Hrep_slots_F _ _ _ _ _ _ _ _ _ Hd1 Hd2 Hev Hser Hwt Hcl Hleg) as F11.
  destruct (wt_clauses _ _ _ _ _ _ _ _ Hd1 Hd2 Hev Hwt Hcl Hleg) as (F12 & _ & _ & _ & F13).
  pose proof (all_within _ _ _ _ Hser) as F14. fold defs in F14. apply Forall_app in F14. destruct F14 as [F14 F15].
  assert (F16 : Forall (fun i => ImageFacts.reg_within (i_res i)) defs).
  { rewrite Forall_forall in *. intros i Hi. destruct (F14 i Hi) as (W & _). exact W. }
  assert (OKF : scf_ok (sc_named scF)).
  { constructor; [apply (si_class _ SF)|apply (si_prims _ SF)|apply (si_inj _ SF)|intros x r; apply (sinv_micros scF x r SF)]. }
  assert (OKI : scf_impl (sc_named scF)).
  { pose proof (si_impl _ SF) as I. unfold scf_impl.
    pose proof (I flag_n) as I0. pose proof (I cont_n) as I1. pose proof (I report_n) as I2. pose proof (I cwnd_n) as I4. pose proof (I rate_n) as I5.
    vm_compute implicit_index in I0, I1, I2, I4, I5. auto. }
  f_equal.
  eapply (sim_run (sc_named scF) OKF OKI defs eis devs evs (map fst (decls_of_scope sc0))
            (def_instrs_shape _) F1 F16 F2 F3 F4
            (decl_tenv (map fst (decls_of_scope sc0)) (map snd (decls_of_scope sc0)) ++ builtin_tenv) sc0 scF 1 77
            Hev (sext_refl _) F13 F5 F6 F7 F15 F8 ltac:(discriminate) F9 F10 F11 F12
            scF eq_refl (fun x r => sinv_unique scF x r SF)
            ins (mkDp 1000 1000 [mkDProg 1 77 (map dexpr_of devs) (map dinstr_of (defs ++ eis)) 0] (Some conn_loaded))
            conn_loaded (mkS [] 1000) true 0 eq_refl).
  - repeat split.
  - reflexivity.
  - reflexivity.
  - reflexivity.
  - apply Rv_initial.
  - intros x. cbn. unfold W64. lia.
  - exact Hins.
Qed.
