(* C01, assembly: from "the source text is in the property's quantifier" to the hypotheses of the
   run-level simulation, and the end-to-end theorem. *)
From Portus Require Export SimInvoke LoadFacts.
From Portus Require Import ScopeFacts TotalFacts ImageFacts ControlFacts.

(* ---------- inversions ---------- *)

Lemma new_with_scope_inv cps evs sc0 : new_with_scope cps = inl (Ok (evs, sc0)) ->
  exists reports controls sc1, declare new_report reports scope_new = Ok sc1 /\ declare new_control controls sc1 = Ok sc0.
Proof.
  unfold new_with_scope. destruct (p_defs (parse_fuel cps) cps) as [decls rest| | |]; try discriminate.
  set (reports := filter _ decls). set (controls := filter _ decls).
  destruct (declare new_report reports scope_new) as [sc1| |] eqn:E1; try discriminate.
  destruct (declare new_control controls sc1) as [sc2| |] eqn:E2; try discriminate.
  destruct (p_events (parse_fuel cps) rest) as [es rest'| | |]; try discriminate.
  destruct rest'; try discriminate. intros H. inversion H; subst. eauto.
Qed.

Lemma compile_inv src cps evs sc0 b scF : utf8_decode src = Some cps -> new_with_scope cps = inl (Ok (evs, sc0)) ->
  compile src [] = inl (Ok (b, scF)) -> compile_prog evs sc0 = Ok (b, scF).
Proof.
  intros H1 H2 H. unfold compile in H. rewrite H1, H2 in H. cbn [apply_updates] in H. inversion H. reflexivity.
Qed.

Lemma compile_prog_inv evs sc0 b scF : compile_prog evs sc0 = Ok (b, scF) ->
  exists devs eis, compile_events evs sc0 (N.of_nat (length (def_instrs (sc_named sc0)))) = Ok (devs, eis, scF) /\
                   b = mkBin devs (def_instrs (sc_named sc0) ++ eis).
Proof.
  unfold compile_prog. intros H. apply bind_ok_inv in H. destruct H as ([[devs eis] sc'] & H1 & H). inversion H; subst. eauto.
Qed.

(* ---------- the declarations seen by the source semantics ---------- *)

Definition decl_entries (reports controls : list (bool * name * ty)) : list (name * reg) :=
  map (fun k => match nth_error reports k with Some (v, n, t) => (n, Report (N.of_nat k) t v) | None => ([], RNone) end) (seq 0 (length reports)) ++
  map (fun k => match nth_error controls k with Some (v, n, t) => (n, Control (N.of_nat k) t v) | None => ([], RNone) end) (seq 0 (length controls)).

Lemma map_nth_seq {A B} (f : A -> B) (d : B) (l : list A) :
  map (fun k => match nth_error l k with Some a => f a | None => d end) (seq 0 (length l)) = map f l.
Proof.
  assert (G : forall s, map (fun k => match nth_error l k with Some a => f a | None => d end) (seq s (length l - s)) = map f (skipn s l)).
  { intros s. remember (length l - s)%nat as m eqn:Em. revert s Em. induction m as [|m IH]; intros s Em.
    - cbn. rewrite skipn_all2 by lia. reflexivity.
    - cbn [seq map]. destruct (nth_error l s) as [a|] eqn:E; [|apply nth_error_None in E; lia].
      rewrite (IH (S s)) by lia.
      assert (Hs : skipn s l = a :: skipn (S s) l).
      { clear - E. revert s E. induction l as [|x t IHl]; intros [|s] E; cbn in *; try discriminate; [inversion E; reflexivity|apply IHl; exact E]. }
      rewrite Hs. reflexivity. }
  specialize (G 0%nat). rewrite Nat.sub_0_r in G. exact G.
Qed.

Lemma decl_entries_names reports controls :
  map fst (decl_entries reports controls) = names_of reports ++ names_of controls.
Proof.
  unfold decl_entries. rewrite map_app, !map_map.
  assert (G : forall (mk : N -> ty -> bool -> reg) (l : list (bool * name * ty)),
             map (fun k => fst match nth_error l k with Some (v, n, t) => (n, mk (N.of_nat k) t v) | None => ([], RNone) end) (seq 0 (length l)) = names_of l).
  { intros mk l.
    transitivity (map (fun k => match nth_error l k with Some a => snd (fst a) | None => [] end) (seq 0 (length l))).
    - apply map_ext. intros k. destruct (nth_error l k) as [[[v n] t]|]; reflexivity.
    - rewrite (map_nth_seq (fun a : bool * name * ty => snd (fst a)) [] l).
      induction l as [|[[v n] t] r IH]; [reflexivity|]. cbn. f_equal. exact IH. }
  rewrite (G (fun i t v => Report i t v)), (G (fun i t v => Control i t v)). reflexivity.
Qed.

(* ---------- names excluded by the typing discipline are exactly the built-in names ---------- *)

Lemma wt_name_not_builtin n : tget builtin_tenv n = None ->
  existsb (name_eqb n) [flag_n; cont_n; report_n] = false -> is_builtin_name n = false /\ is_builtin n = false.
Proof.
  intros H1 H2.
  assert (G : is_builtin n = false).
  { unfold is_builtin, builtin_names. destruct (existsb (name_eqb n) (map fst primitive_names ++ map fst implicit_names)) eqn:E; [|reflexivity].
    exfalso. apply existsb_exists in E. destruct E as (m & Hm & Hnm). apply name_eqb_eq in Hnm. subst m.
    revert H1 H2. revert Hm. vm_compute. intros Hm.
    repeat (destruct Hm as [Hm|Hm]; [subst n; vm_compute; intros; discriminate|]). contradiction. }
  split; [|exact G].
  unfold is_builtin_name. destruct (primitive_index n) as [i|] eqn:Ep.
  - exfalso. unfold primitive_index in Ep.
    repeat match type of Ep with
           | (if name_eqb ?k n then _ else _) = _ =>
             let E1 := fresh "E" in destruct (name_eqb k n) eqn:E1; [apply name_eqb_eq in E1; subst n; vm_compute in G; discriminate G|]
           end.
    discriminate Ep.
  - destruct (implicit_index n) as [i|] eqn:Ei; [|reflexivity].
    exfalso. unfold implicit_index in Ei.
    repeat match type of Ei with
           | (if name_eqb ?k n then _ else _) = _ =>
             let E1 := fresh "E" in destruct (name_eqb k n) eqn:E1; [apply name_eqb_eq in E1; subst n; vm_compute in G; discriminate G|]
           end.
    discriminate Ei.
Qed.
