(* C03: every image the compiler emits satisfies the structural contract image_wf (the
   independent decoder of ImageSpec.v).  Part 1: what that decoder sees in serialized bytes. *)
From Portus Require Export ImageSpec CompileFacts EncodeFacts NameFacts.
From Portus Require Import ImageFacts TotalFacts ScopeFacts.

Definition raw_reg (r : reg) : rawreg :=
  match reg_code r with Ok (c, v) => mkRR c v | _ => mkRR 255 0 end.

Definition raw_instr (i : instr) : rawinstr :=
  mkRI (opcode (i_op i)) (raw_reg (i_res i)) (raw_reg (i_left i)) (raw_reg (i_right i)).

Definition raw_event (d : Lower.devent) : rawevent :=
  mkRE (e_flag_idx d) (e_num_flag d) (e_body_idx d) (e_num_body d).

Lemma reg_code_small r c v : reg_code r = Ok (c, v) -> v < 4294967296.
Proof.
  destruct r as [i t vol|n|b|i t|i t|i t|i t vol|i t|]; cbn [reg_code]; intros H; try discriminate H;
    repeat match type of H with (if ?x then _ else _) = _ => destruct x eqn:? end; try discriminate H; inversion H; subst;
    unfold LIM_CONTROL, LIM_IMPLICIT, LIM_LOCAL, LIM_PRIMITIVE, LIM_REPORT, LIM_TMP in *;
    try (match goal with E : (_ <? _) = false |- _ => apply N.ltb_ge in E end; lia).
  - apply N.mod_lt. lia.
  - destruct b; lia.
Qed.

Lemma dec_ser_instr i bs : ser_instr i = Ok bs -> dec_instr bs = raw_instr i.
Proof.
  unfold ser_instr. intros H.
  apply bind_ok_inv in H. destruct H as (o & Ho & H).
  apply bind_ok_inv in H. destruct H as (a & Ha & H).
  apply bind_ok_inv in H. destruct H as (b & Hb & H).
  apply bind_ok_inv in H. destruct H as (c & Hc & H). inversion H; subst bs; clear H.
  apply ser_reg_img_inv in Ha. destruct Ha as (ca & va & Ra & ->).
  apply ser_reg_img_inv in Hb. destruct Hb as (cb & vb & Rb & ->).
  apply ser_reg_img_inv in Hc. destruct Hc as (cc & vc & Rc & ->).
  destruct (ser_op_lt _ _ Ho) as [_ Hop].
  destruct (enc4 va) as (a0 & a1 & a2 & a3 & Ea). destruct (enc4 vb) as (b0 & b1 & b2 & b3 & Eb).
  destruct (enc4 vc) as (c0 & c1 & c2 & c3 & Ec).
  rewrite Ea, Eb, Ec. cbn [app].
  unfold dec_instr, dec_reg, raw_instr, raw_reg. rewrite Ra, Rb, Rc, Hop. cbn [nth].
  unfold le32, le_at, sub. cbn [skipn firstn Nat.sub Nat.add].
  rewrite (dec4 _ _ _ _ _ Ea), (dec4 _ _ _ _ _ Eb), (dec4 _ _ _ _ _ Ec).
  rewrite !N.mod_small by (eapply reg_code_small; eauto). reflexivity.
Qed.

Lemma chunks_ser_instrs is : forall bs, ser_instrs is = Ok bs ->
  map dec_instr (chunks16 (length is) bs) = map raw_instr is.
Proof.
  induction is as [|i r IH]; intros bs H; cbn [ser_instrs] in H; [reflexivity|].
  apply bind_ok_inv in H. destruct H as (a & Ha & H).
  apply bind_ok_inv in H. destruct H as (b & Hb & H). inversion H; subst bs; clear H.
  pose proof (ser_instr_length _ _ Ha) as La.
  cbn [length chunks16 map].
  rewrite firstn_app, La, Nat.sub_diag, firstn_all2 by lia. cbn [firstn]. rewrite app_nil_r.
  rewrite skipn_app, La, Nat.sub_diag, skipn_all2 by lia. cbn [skipn app].
  rewrite (dec_ser_instr _ _ Ha), (IH _ Hb). reflexivity.
Qed.

Lemma chunks_ser_events evs : forall tail, Forall devent_small evs ->
  map dec_event (chunks16 (length evs) (concat (map ser_event evs) ++ tail)) = map raw_event evs.
Proof.
  induction evs as [|d r IH]; intros tail Hs; [reflexivity|].
  inversion Hs as [|? ? (H1 & H2 & H3 & H4) Hr]; subst.
  cbn [length chunks16 map concat]. rewrite <- app_assoc.
  pose proof (ser_event_length d) as Ld.
  rewrite firstn_app, Ld, Nat.sub_diag, firstn_all2 by lia. cbn [firstn]. rewrite app_nil_r.
  rewrite skipn_app, Ld, Nat.sub_diag, skipn_all2 by lia. cbn [skipn app].
  rewrite (IH _ Hr). f_equal.
  unfold ser_event, dec_event, raw_event.
  destruct (enc4 (e_flag_idx d)) as (a0 & a1 & a2 & a3 & Ea). destruct (enc4 (e_num_flag d)) as (b0 & b1 & b2 & b3 & Eb).
  destruct (enc4 (e_body_idx d)) as (c0 & c1 & c2 & c3 & Ec). destruct (enc4 (e_num_body d)) as (d0 & d1 & d2 & d3 & Ed).
  rewrite Ea, Eb, Ec, Ed. cbn [app].
  unfold le32, le_at, sub. cbn [skipn firstn Nat.sub Nat.add].
  rewrite (dec4 _ _ _ _ _ Ea), (dec4 _ _ _ _ _ Eb), (dec4 _ _ _ _ _ Ec), (dec4 _ _ _ _ _ Ed).
  rewrite !N.mod_small by assumption. reflexivity.
Qed.

(* ---------- the predicates of ImageSpec on compiler instructions ---------- *)

Definition is_tmp_reg (r : reg) : bool := match r with Tmp _ _ => true | _ => false end.
Definition tmp_idx (r : reg) : N := match r with Tmp i _ => i | _ => 0 end.

Definition tmp_written_i (written : list N) (r : reg) : bool :=
  negb (is_tmp_reg r) || existsb (N.eqb (tmp_idx r)) written.

Fixpoint tmps_ok_i (written : list N) (is : list instr) : bool :=
  match is with
  | [] => true
  | i :: r =>
    tmp_written_i written (i_left i) && tmp_written_i written (i_right i) &&
    (negb (op_eqb (i_op i) OEwma) || tmp_written_i written (i_res i)) &&
    tmps_ok_i (if is_tmp_reg (i_res i) then tmp_idx (i_res i) :: written else written) r
  end.

Fixpoint written_after (written : list N) (is : list instr) : list N :=
  match is with
  | [] => written
  | i :: r => written_after (if is_tmp_reg (i_res i) then tmp_idx (i_res i) :: written else written) r
  end.

Lemma tmps_ok_app W a b : tmps_ok_i W (a ++ b) = tmps_ok_i W a && tmps_ok_i (written_after W a) b.
Proof.
  revert W; induction a as [|i r IH]; intros W; cbn [app tmps_ok_i written_after]; [reflexivity|].
  rewrite IH, !andb_assoc. reflexivity.
Qed.

Lemma written_after_app W a b : written_after W (a ++ b) = written_after (written_after W a) b.
Proof. revert W; induction a as [|i r IH]; intros W; cbn [app written_after]; [reflexivity|apply IH]. Qed.

Definition incl_b (W W' : list N) : Prop := forall j, existsb (N.eqb j) W = true -> existsb (N.eqb j) W' = true.

Lemma incl_b_refl W : incl_b W W.
Proof. intros j H; exact H. Qed.

Lemma incl_b_cons W W' x : incl_b W W' -> incl_b (x :: W) (x :: W').
Proof. intros H j. cbn [existsb]. intros Hj. apply orb_true_iff in Hj. apply orb_true_iff. destruct Hj; auto. Qed.

Lemma incl_b_tail W x : incl_b W (x :: W).
Proof. intros j H. cbn [existsb]. rewrite H. apply orb_true_r. Qed.

Lemma tmp_written_mono W W' r : incl_b W W' -> tmp_written_i W r = true -> tmp_written_i W' r = true.
Proof.
  unfold tmp_written_i. intros Hi H. apply orb_true_iff in H. apply orb_true_iff. destruct H as [H|H]; [left; exact H|right; apply Hi; exact H].
Qed.

Lemma tmps_ok_mono is : forall W W', incl_b W W' -> tmps_ok_i W is = true -> tmps_ok_i W' is = true.
Proof.
  induction is as [|i r IH]; intros W W' Hi H; [reflexivity|]. cbn [tmps_ok_i] in *.
  apply andb_true_iff in H. destruct H as [H H4]. apply andb_true_iff in H. destruct H as [H H3].
  apply andb_true_iff in H. destruct H as [H1 H2].
  rewrite (tmp_written_mono _ _ _ Hi H1), (tmp_written_mono _ _ _ Hi H2). cbn [andb].
  apply andb_true_iff. split.
  - apply orb_true_iff in H3. apply orb_true_iff. destruct H3 as [H3|H3]; [left; exact H3|right; eapply tmp_written_mono; eauto].
  - eapply IH; [|exact H4]. destruct (is_tmp_reg (i_res i)); [apply incl_b_cons|]; exact Hi.
Qed.

Lemma written_after_mono is : forall W W', incl_b W W' -> incl_b (written_after W is) (written_after W' is).
Proof.
  induction is as [|i r IH]; intros W W' Hi; cbn [written_after]; [exact Hi|].
  apply IH. destruct (is_tmp_reg (i_res i)); [apply incl_b_cons|]; exact Hi.
Qed.

Lemma written_after_incl is : forall W, incl_b W (written_after W is).
Proof.
  induction is as [|i r IH]; intros W; cbn [written_after]; [apply incl_b_refl|].
  intros j Hj. apply IH. destruct (is_tmp_reg (i_res i)); [apply incl_b_tail|]; exact Hj.
Qed.

(* ---------- what can be in a scope ---------- *)

Definition eclass (r : reg) : Prop :=
  match r with
  | Implicit i _ => i < 6
  | Primitive i _ => i < 15
  | Report _ _ _ | Control _ _ _ | Local _ _ => True
  | _ => False
  end.

Definition entries_ok (l : list (name * reg)) : Prop := Forall (fun kv => eclass (snd kv)) l.

Lemma entries_ok_get l x r : entries_ok l -> sc_get l x = Some r -> eclass r.
Proof.
  intros H Hg. unfold entries_ok in H. rewrite Forall_forall in H.
  assert (Hin : In (x, r) l).
  { clear H. induction l as [|[k v] t IH]; cbn [sc_get] in Hg; [discriminate|].
    destruct (name_eqb k x) eqn:E; [apply name_eqb_eq in E; inversion Hg; subst; left; reflexivity|right; auto]. }
  exact (H _ Hin).
Qed.

Lemma entries_ok_insert l n r : entries_ok l -> eclass r -> entries_ok (rf_insert l n r).
Proof.
  unfold entries_ok. induction l as [|[k v] t IH]; intros H Hr; cbn [rf_insert].
  - constructor; [exact Hr|constructor].
  - inversion H as [|? ? Hv Ht]; subst. destruct (name_ltb k n); [constructor; [exact Hv|apply IH; auto]|constructor; [exact Hr|exact H]].
Qed.

Lemma entries_ok_update l n t : forall r l', entries_ok l -> rf_update_type l n t = Ok (r, l') -> entries_ok l'.
Proof.
  unfold entries_ok. induction l as [|[k v] rest IH]; intros r l' H Hu; cbn [rf_update_type] in Hu; [discriminate|].
  inversion H as [|? ? Hv Hrest]; subst. destruct (name_eqb k n).
  - destruct v; try discriminate Hu; inversion Hu; subst; constructor; auto; exact I.
  - apply bind_ok_inv in Hu. destruct Hu as ([r1 rest'] & H1 & Hu). inversion Hu; subst. constructor; [exact Hv|eapply IH; eauto].
Qed.

Lemma entries_ok_new : entries_ok (sc_named scope_new).
Proof. unfold entries_ok. vm_compute. repeat (constructor; [first [exact I|reflexivity]|]). constructor. Qed.

Lemma declare_entries_ok (mk : scope -> bool -> name -> ty -> outcome (reg * scope)) :
  (forall sc v n t r sc', entries_ok (sc_named sc) -> mk sc v n t = Ok (r, sc') -> entries_ok (sc_named sc')) ->
  forall ds sc sc', declare mk ds sc = Ok sc' -> entries_ok (sc_named sc) -> entries_ok (sc_named sc').
Proof.
  intros Hmk. induction ds as [|[[v n] t] r IH]; intros sc sc' H E; cbn [declare] in H; [inversion H; subst; exact E|].
  apply bind_ok_inv in H. destruct H as ([r1 sc1] & H1 & H). eapply IH; [exact H|]. eapply Hmk; eauto.
Qed.

Lemma new_report_entries_ok sc v n t r sc' : entries_ok (sc_named sc) -> new_report sc v n t = Ok (r, sc') -> entries_ok (sc_named sc').
Proof. unfold new_report. destruct (255 <=? sc_nperm sc); [discriminate|]. intros E H. inversion H; subst. cbn. apply entries_ok_insert; [exact E|exact I]. Qed.

Lemma new_control_entries_ok sc v n t r sc' : entries_ok (sc_named sc) -> new_control sc v n t = Ok (r, sc') -> entries_ok (sc_named sc').
Proof. unfold new_control. destruct (255 <=? sc_nctl sc); [discriminate|]. intros E H. inversion H; subst. cbn. apply entries_ok_insert; [exact E|exact I]. Qed.

Lemma new_local_entries_ok sc n t r sc' : entries_ok (sc_named sc) -> new_local sc n t = Ok (r, sc') -> entries_ok (sc_named sc').
Proof. unfold new_local. destruct (255 <=? sc_nloc sc); [discriminate|]. intros E H. inversion H; subst. cbn. apply entries_ok_insert; [exact E|exact I]. Qed.

Lemma update_type_entries_ok sc n t r sc' : entries_ok (sc_named sc) -> update_type sc n t = Ok (r, sc') -> entries_ok (sc_named sc').
Proof.
  unfold update_type. intros E H. apply bind_ok_inv in H. destruct H as ([r1 l'] & H1 & H). inversion H; subst. cbn.
  eapply entries_ok_update; eauto.
Qed.

Lemma apply_updates_entries_ok ups : forall sc, entries_ok (sc_named sc) -> entries_ok (sc_named (apply_updates ups sc)).
Proof.
  induction ups as [|[n v] r IH]; intros sc E; cbn [apply_updates]; [exact E|].
  destruct (update_type sc n (TNum (Some v))) as [[r1 sc1]| |] eqn:Hu; auto. apply IH. eapply update_type_entries_ok; eauto.
Qed.

Lemma compile_expr_entries_ok e : forall sc is r sc', compile_expr e sc = Ok (is, r, sc') -> entries_ok (sc_named sc) -> entries_ok (sc_named sc').
Proof.
  induction e as [p|c|o l IHl r0 IHr|]; intros sc is r sc' H E.
  - destruct p as [b|x|n]; [inversion H; subst; exact E| |inversion H; subst; exact E].
    cbn [compile_expr] in H. destruct (sc_get (sc_named sc) x); [inversion H; subst; exact E|].
    apply bind_ok_inv in H. destruct H as ([r1 sc1] & H1 & H). inversion H; subst. eapply new_local_entries_ok; eauto.
  - discriminate H.
  - apply compile_sexp_inv in H. destruct H as (is1 & lft & sc1 & is2 & rgt & sc2 & H1 & H2 & H3).
    specialize (IHl _ _ _ _ H1 E). specialize (IHr _ _ _ _ H2 IHl).
    destruct (is_valop o) eqn:Vo.
    + apply lower_tail_valop in H3; auto. destruct H3 as (_ & _ & Hn & _). rewrite Hn. exact IHr.
    + destruct (is_condop o) eqn:Co.
      * apply lower_tail_condop in H3; auto. destruct H3 as (_ & _ & ->). exact IHr.
      * destruct o; try discriminate Vo; try discriminate Co.
        -- apply lower_tail_bind in H3. destruct H3 as (lft' & [(s & _ & Hu)|(_ & _ & ->)] & _); [exact (update_type_entries_ok _ _ _ _ _ IHr Hu)|exact IHr].
        -- discriminate H3.
  - discriminate H.
Qed.

Lemma compile_body_entries_ok es : forall sc is sc', compile_body es sc = Ok (is, sc') -> entries_ok (sc_named sc) -> entries_ok (sc_named sc').
Proof.
  induction es as [|e r IH]; intros sc is sc' H E; cbn [compile_body] in H; [inversion H; subst; exact E|].
  destruct e as [p|c|o l r0|].
  all: try (apply bind_ok_inv in H; destruct H as ([[is1 r1] sc1] & H1 & H);
            apply bind_ok_inv in H; destruct H as ([rest sc2] & H2 & H); inversion H; subst;
            eapply IH; [exact H2|]; eapply compile_expr_entries_ok; [exact H1|exact E]).
  eapply IH; eauto.
Qed.

Lemma compile_flag_entries_ok e sc is sc' : compile_flag e sc = Ok (is, sc') -> entries_ok (sc_named sc) -> entries_ok (sc_named sc').
Proof.
  intros H E. apply compile_flag_inv in H. destruct H as (is0 & res & fr & C0 & _). eapply compile_expr_entries_ok; [exact C0|exact E].
Qed.

Lemma compile_events_entries_ok evs : forall sc idx devs is sc', compile_events evs sc idx = Ok (devs, is, sc') ->
  entries_ok (sc_named sc) -> entries_ok (sc_named sc').
Proof.
  induction evs as [|ev r IH]; intros sc idx devs is sc' H E; cbn [compile_events] in H; [inversion H; subst; exact E|].
  apply bind_ok_inv in H. destruct H as ([fi sc1] & Hf & H).
  apply bind_ok_inv in H. destruct H as ([bi sc2] & Hb & H).
  apply bind_ok_inv in H. destruct H as ([[evs' is'] sc3] & Hr & H). inversion H; subst.
  eapply IH; [exact Hr|]. eapply compile_body_entries_ok; [exact Hb|]. eapply compile_flag_entries_ok; eauto.
Qed.

Lemma rf_update_type_not_tmp l n t : forall r l', rf_update_type l n t = Ok (r, l') -> is_tmp_reg r = false.
Proof.
  induction l as [|[k v] rest IH]; intros r l' H; cbn [rf_update_type] in H; [discriminate|].
  destruct (name_eqb k n).
  - destruct v; try discriminate H; inversion H; reflexivity.
  - apply bind_ok_inv in H. destruct H as ([r1 rest'] & H1 & H). inversion H; subst. eapply IH; eauto.
Qed.

Lemma update_type_not_tmp sc n t r sc' : update_type sc n t = Ok (r, sc') -> is_tmp_reg r = false.
Proof.
  unfold update_type. intros H. apply bind_ok_inv in H. destruct H as ([r1 l'] & H1 & H). inversion H; subst.
  eapply rf_update_type_not_tmp; eauto.
Qed.

(* an expression reads only temporaries it has written itself, and has written its result *)
Lemma compile_expr_tmps e : forall sc is r sc' W, compile_expr e sc = Ok (is, r, sc') -> entries_ok (sc_named sc) ->
  tmps_ok_i W is = true /\ tmp_written_i (written_after W is) r = true.
Proof.
  induction e as [p|c|o l IHl r0 IHr|]; intros sc is r sc' W H E.
  - destruct p as [b|x|n].
    + inversion H; subst. split; reflexivity.
    + pose proof (compile_expr_entries_ok _ _ _ _ _ H E) as E'.
      apply compile_atom_name in H. destruct H as (-> & Hg & _). split; [reflexivity|].
      pose proof (entries_ok_get _ _ _ E' Hg) as Hc. destruct r; try contradiction; reflexivity.
    + inversion H; subst. split; reflexivity.
  - discriminate H.
  - apply compile_sexp_inv in H. destruct H as (is1 & lft & sc1 & is2 & rgt & sc2 & H1 & H2 & H3).
    pose proof (compile_expr_entries_ok _ _ _ _ _ H1 E) as E1.
    destruct (IHl _ _ _ _ W H1 E) as [T1 R1]. destruct (IHr _ _ _ _ (written_after W is1) H2 E1) as [T2 R2].
    assert (T12 : tmps_ok_i W (is1 ++ is2) = true) by (rewrite tmps_ok_app, T1, T2; reflexivity).
    assert (R1' : tmp_written_i (written_after W (is1 ++ is2)) lft = true).
    { rewrite written_after_app. eapply tmp_written_mono; [apply written_after_incl|exact R1]. }
    assert (R2' : tmp_written_i (written_after W (is1 ++ is2)) rgt = true) by (rewrite written_after_app; exact R2).
    destruct (is_valop o) eqn:Vo.
    + apply lower_tail_valop in H3; auto. destruct H3 as (-> & -> & _).
      rewrite (tmps_ok_app W (is1 ++ is2)), T12, (written_after_app W (is1 ++ is2)). cbn [tmps_ok_i written_after i_left i_right i_res i_op is_tmp_reg tmp_idx andb].
      rewrite R1', R2'. cbn [andb]. split.
      * rewrite andb_true_r. apply orb_true_iff. left. destruct o; try discriminate Vo; reflexivity.
      * unfold tmp_written_i. cbn [is_tmp_reg negb orb tmp_idx existsb]. rewrite N.eqb_refl. reflexivity.
    + destruct (is_condop o) eqn:Co.
      * apply lower_tail_condop in H3; auto. destruct H3 as (-> & -> & _).
        rewrite (tmps_ok_app W (is1 ++ is2)), T12, (written_after_app W (is1 ++ is2)). cbn [tmps_ok_i written_after i_left i_right i_res i_op is_tmp_reg tmp_idx andb].
        rewrite R1', R2'. cbn [andb]. split; [|reflexivity].
        rewrite andb_true_r. apply orb_true_iff. right. reflexivity.
      * destruct o; try discriminate Vo; try discriminate Co; [|discriminate H3].
        apply lower_tail_bind in H3. destruct H3 as (lft' & Hup & -> & Hshape).
        assert (Hnt : is_tmp_reg lft' = false \/ exists j t, lft' = Tmp j t /\ lft = lft').
        { destruct Hup as [(s & _ & Hu)|(_ & -> & _)].
          - left. eapply update_type_not_tmp; eauto.
          - destruct lft; auto; right; eauto. }
        destruct Hshape as [(-> & Hrc & Hlast & Hset)|(-> & _)].
        -- (* the placeholder result of the last instruction becomes the target *)
           destruct Hrc as (i0 & t0 & v0 & Hrc).
           assert (Hl : exists pre lasti, is1 ++ is2 = pre ++ [lasti]).
           { unfold set_last_res in Hset. destruct (rev (is1 ++ is2)) as [|x t] eqn:Er; [discriminate|].
             exists (rev t), x. rewrite <- (rev_involutive (is1 ++ is2)), Er. reflexivity. }
           destruct Hl as (pre & lasti & Hpl). rewrite Hpl in Hset, T12. rewrite set_last_res_snoc in Hset. inversion Hset; subst is.
           rewrite tmps_ok_app in T12 |- *. apply andb_true_iff in T12. destruct T12 as [Tp Tl]. rewrite Tp. cbn [andb].
           cbn [tmps_ok_i i_left i_right i_op i_res] in Tl |- *.
           apply andb_true_iff in Tl. destruct Tl as [Tl _]. apply andb_true_iff in Tl. destruct Tl as [Tl _].
           rewrite Tl. cbn [andb]. rewrite written_after_app. cbn [written_after i_res].
           assert (Hvt : is_tmp_reg lft' = false) by (destruct Hrc as [-> | ->]; reflexivity).
           unfold tmp_written_i. rewrite Hvt. cbn [negb orb andb]. rewrite orb_true_r. split; reflexivity.
        -- rewrite (tmps_ok_app W (is1 ++ is2)), T12, (written_after_app W (is1 ++ is2)). cbn [tmps_ok_i written_after i_left i_right i_res i_op andb op_eqb negb orb].
           rewrite R2'.
           assert (Rl : tmp_written_i (written_after W (is1 ++ is2)) lft' = true).
           { destruct Hnt as [Hnt|(j & t & -> & <-)]; [unfold tmp_written_i; rewrite Hnt; reflexivity|exact R1']. }
           rewrite Rl. cbn [andb]. split; [reflexivity|].
           destruct (is_tmp_reg lft') eqn:Et; [|unfold tmp_written_i; rewrite Et; reflexivity].
           unfold tmp_written_i. rewrite Et. cbn [negb orb existsb]. rewrite N.eqb_refl. reflexivity.
  - discriminate H.
Qed.

(* ---------- the three internal flags keep their registers ---------- *)

Definition flagsI (l : list (name * reg)) : Prop :=
  (exists t, sc_get l (lit "__eventFlag") = Some (Implicit 0 t)) /\
  (exists t, sc_get l (lit "__shouldContinue") = Some (Implicit 1 t)) /\
  (exists t, sc_get l (lit "__shouldReport") = Some (Implicit 2 t)).

Definition tnd_ty (t : ty) : Prop := match t with TName s => nd s | _ => True end.
Definition tnd (l : list (name * reg)) : Prop := Forall (fun kv => tnd_ty (reg_type (snd kv))) l.

Lemma tnd_get l x r : tnd l -> sc_get l x = Some r -> tnd_ty (reg_type r).
Proof.
  intros H Hg. unfold tnd in H. rewrite Forall_forall in H.
  assert (Hin : In (x, r) l).
  { clear H. induction l as [|[k v] t IH]; cbn [sc_get] in Hg; [discriminate|].
    destruct (name_eqb k x) eqn:E; [apply name_eqb_eq in E; inversion Hg; subst; left; reflexivity|right; auto]. }
  exact (H _ Hin).
Qed.

Lemma tnd_insert l n r : tnd l -> tnd_ty (reg_type r) -> tnd (rf_insert l n r).
Proof.
  unfold tnd. induction l as [|[k v] t IH]; intros H Hr; cbn [rf_insert].
  - constructor; [exact Hr|constructor].
  - inversion H as [|? ? Hv Ht]; subst. destruct (name_ltb k n); [constructor; [exact Hv|apply IH; auto]|constructor; [exact Hr|exact H]].
Qed.

Lemma tnd_update l n t : forall r l', tnd l -> tnd_ty t -> rf_update_type l n t = Ok (r, l') -> tnd l'.
Proof.
  unfold tnd. induction l as [|[k v] rest IH]; intros r l' H Ht Hu; cbn [rf_update_type] in Hu; [discriminate|].
  inversion H as [|? ? Hv Hrest]; subst. destruct (name_eqb k n).
  - destruct v; try discriminate Hu; inversion Hu; subst; constructor; auto.
  - apply bind_ok_inv in Hu. destruct Hu as ([r1 rest'] & H1 & Hu). inversion Hu; subst. constructor; [exact Hv|eapply IH; eauto].
Qed.

Lemma nd_not_flag x : nd x -> x <> lit "__eventFlag" /\ x <> lit "__shouldContinue" /\ x <> lit "__shouldReport".
Proof. intros H. repeat split; intros ->; discriminate H. Qed.

Lemma flagsI_other l l' : flagsI l ->
  (forall m, m = lit "__eventFlag" \/ m = lit "__shouldContinue" \/ m = lit "__shouldReport" -> sc_get l' m = sc_get l m) -> flagsI l'.
Proof.
  intros ((t0 & H0) & (t1 & H1) & (t2 & H2)) Ho. unfold flagsI. rewrite !Ho by auto. eauto 10.
Qed.

Lemma flagsI_insert l n r : flagsI l -> nd n -> flagsI (rf_insert l n r).
Proof.
  intros F Hn. destruct (nd_not_flag _ Hn) as (N0 & N1 & N2).
  eapply flagsI_other; [exact F|]. intros m Hm. apply get_insert_other. destruct Hm as [->|[->| ->]]; auto.
Qed.

Lemma compile_expr_FI e : forall sc is r sc', enames ename_ok e -> compile_expr e sc = Ok (is, r, sc') ->
  flagsI (sc_named sc) -> tnd (sc_named sc) ->
  flagsI (sc_named sc') /\ tnd (sc_named sc') /\ tnd_ty (reg_type r).
Proof.
  induction e as [p|c|o l IHl r0 IHr|]; intros sc is r sc' Hn H F T.
  - destruct p as [b|x|n]; [inversion H; subst; split; [exact F|split; [exact T|exact I]]| |inversion H; subst; split; [exact F|split; [exact T|exact I]]].
    cbn [compile_expr] in H. destruct (sc_get (sc_named sc) x) as [r1|] eqn:E.
    + inversion H; subst. split; [exact F|split; [exact T|eapply tnd_get; eauto]].
    + apply bind_ok_inv in H. destruct H as ([r1 sc1] & H1 & H). inversion H; subst.
      apply new_local_inv in H1. destruct H1 as (-> & Hnamed & _).
      cbn [enames] in Hn.
      assert (Hx : nd x).
      { destruct Hn as [Hx|[->| ->]]; [exact Hx| |]; destruct F as (_ & (t1 & H1) & (t2 & H2)); congruence. }
      rewrite Hnamed. split; [apply flagsI_insert; auto|split; [apply tnd_insert; auto|exact Hx]].
  - discriminate H.
  - cbn [enames] in Hn. destruct Hn as [Hnl Hnr].
    apply compile_sexp_inv in H. destruct H as (is1 & lft & sc1 & is2 & rgt & sc2 & H1 & H2 & H3).
    destruct (IHl _ _ _ _ Hnl H1 F T) as (F1 & T1 & Tl). destruct (IHr _ _ _ _ Hnr H2 F1 T1) as (F2 & T2 & Tr).
    destruct (is_valop o) eqn:Vo.
    + apply lower_tail_valop in H3; auto. destruct H3 as (-> & _ & Hnm & _). rewrite Hnm. split; [exact F2|split; [exact T2|]].
      cbn [reg_type]. unfold tmp_ty. destruct (is_arith o); exact I.
    + destruct (is_condop o) eqn:Co.
      * apply lower_tail_condop in H3; auto. destruct H3 as (-> & _ & ->). split; [exact F2|split; [exact T2|exact I]].
      * destruct o; try discriminate Vo; try discriminate Co; [|discriminate H3].
        apply lower_tail_bind in H3. destruct H3 as (lft' & Hup & -> & _).
        destruct Hup as [(s & Hs & Hu)|(_ & -> & ->)]; [|split; [exact F2|split; [exact T2|exact Tl]]].
        rewrite Hs in Tl. cbn in Tl. destruct (nd_not_flag _ Tl) as (N0 & N1 & N2).
        pose proof Hu as Hu0. unfold update_type in Hu0. apply bind_ok_inv in Hu0. destruct Hu0 as ([r1 l'] & Hr1 & Hq). inversion Hq; subst. cbn [sc_named].
        apply update_type_spec in Hu. destruct Hu as ((rr & _ & _ & Hty & _) & _ & Ho & _). cbn [sc_named] in Ho.
        split; [|split].
        -- eapply flagsI_other; [exact F2|]. intros m Hm. apply Ho. destruct Hm as [->|[->| ->]]; auto.
        -- eapply tnd_update; eauto.
        -- rewrite Hty. exact Tr.
  - discriminate H.
Qed.

Lemma compile_body_FI es : forall sc is sc', Forall (enames ename_ok) es -> compile_body es sc = Ok (is, sc') ->
  flagsI (sc_named sc) -> tnd (sc_named sc) -> flagsI (sc_named sc') /\ tnd (sc_named sc').
Proof.
  induction es as [|e r IH]; intros sc is sc' Hn H F T; cbn [compile_body] in H; [inversion H; subst; auto|].
  inversion Hn as [|? ? He Hr]; subst.
  destruct e as [p|c|o l r0|].
  all: try (apply bind_ok_inv in H; destruct H as ([[is1 r1] sc1] & H1 & H);
            apply bind_ok_inv in H; destruct H as ([rest sc2] & H2 & H); inversion H; subst;
            destruct (compile_expr_FI _ _ _ _ _ He H1 F T) as (F1 & T1 & _); eapply IH; eauto).
  eapply IH; eauto.
Qed.

Lemma compile_flag_FI e sc is sc' : enames ename_ok e -> compile_flag e sc = Ok (is, sc') ->
  flagsI (sc_named sc) -> tnd (sc_named sc) -> flagsI (sc_named sc') /\ tnd (sc_named sc').
Proof.
  intros Hn H F T. apply compile_flag_inv in H. destruct H as (is0 & res & fr & C0 & _).
  destruct (compile_expr_FI _ _ _ _ _ Hn C0 F T) as (F1 & T1 & _). auto.
Qed.

(* ---------- shapes of the emitted instructions ---------- *)

Definition prim_ok (r : reg) : Prop := match r with Primitive i _ => i < 15 | _ => True end.
Definition res_shape (r : reg) : Prop := match slot r with Some _ => True | None => r = RNone end.
Definition ishape (i : instr) : Prop := res_shape (i_res i) /\ prim_ok (i_left i) /\ prim_ok (i_right i).

Lemma eclass_prim_ok r : eclass r -> prim_ok r.
Proof. destruct r; cbn; auto. Qed.

Lemma res_shape_prim_ok r : res_shape r -> prim_ok r.
Proof. destruct r; cbn; auto. intros H; discriminate H. Qed.

Lemma set_last_res_shape is r is' : set_last_res is r = Some is' -> res_shape r -> Forall ishape is -> Forall ishape is'.
Proof.
  unfold set_last_res. destruct (rev is) as [|l before] eqn:E; [discriminate|]. intros H Hr F. inversion H; subst.
  assert (His : is = rev before ++ [l]) by (rewrite <- (rev_involutive is), E; reflexivity).
  rewrite His in F. apply Forall_app in F. destruct F as [F1 F2]. apply Forall_app. split; [exact F1|].
  inversion F2 as [|? ? (_ & Hl & Hrr) _]; subst. constructor; [|constructor]. repeat split; assumption.
Qed.

Lemma compile_expr_shape e : forall sc is r sc', compile_expr e sc = Ok (is, r, sc') -> entries_ok (sc_named sc) ->
  prim_ok r /\ Forall ishape is.
Proof.
  induction e as [p|c|o l IHl r0 IHr|]; intros sc is r sc' H E.
  - destruct p as [b|x|n]; [inversion H; subst; split; [exact I|constructor]| |inversion H; subst; split; [exact I|constructor]].
    pose proof (compile_expr_entries_ok _ _ _ _ _ H E) as E'.
    apply compile_atom_name in H. destruct H as (-> & Hg & _). split; [|constructor].
    apply eclass_prim_ok. eapply entries_ok_get; eauto.
  - discriminate H.
  - apply compile_sexp_inv in H. destruct H as (is1 & lft & sc1 & is2 & rgt & sc2 & H1 & H2 & H3).
    pose proof (compile_expr_entries_ok _ _ _ _ _ H1 E) as E1.
    destruct (IHl _ _ _ _ H1 E) as [Pl Sl]. destruct (IHr _ _ _ _ H2 E1) as [Pr Sr].
    assert (S12 : Forall ishape (is1 ++ is2)) by (apply Forall_app; auto).
    destruct (is_valop o) eqn:Vo.
    + apply lower_tail_valop in H3; auto. destruct H3 as (-> & -> & _). split; [exact I|].
      apply Forall_app. split; [exact S12|]. constructor; [|constructor]. repeat split; auto.
    + destruct (is_condop o) eqn:Co.
      * apply lower_tail_condop in H3; auto. destruct H3 as (-> & -> & _). split; [exact I|].
        apply Forall_app. split; [exact S12|]. constructor; [|constructor]. repeat split; auto.
      * destruct o; try discriminate Vo; try discriminate Co; [|discriminate H3].
        apply lower_tail_bind in H3. destruct H3 as (lft' & _ & -> & [(_ & (i0 & t0 & v0 & Hrc) & _ & Hset)|(-> & Hs)]).
        -- assert (Hrs : res_shape lft') by (destruct Hrc as [-> | ->]; exact I).
           split; [apply res_shape_prim_ok; exact Hrs|]. eapply set_last_res_shape; eauto.
        -- assert (Hrs : res_shape lft') by (unfold res_shape; destruct (slot lft'); [exact I|contradiction]).
           split; [apply res_shape_prim_ok; exact Hrs|].
           apply Forall_app. split; [exact S12|]. constructor; [|constructor]. repeat split; auto. apply res_shape_prim_ok; exact Hrs.
  - discriminate H.
Qed.

Lemma compile_body_shape es : forall sc is sc', compile_body es sc = Ok (is, sc') -> entries_ok (sc_named sc) -> Forall ishape is.
Proof.
  induction es as [|e r IH]; intros sc is sc' H E; cbn [compile_body] in H; [inversion H; constructor|].
  destruct e as [p|c|o l r0|].
  all: try (apply bind_ok_inv in H; destruct H as ([[is1 r1] sc1] & H1 & H);
            apply bind_ok_inv in H; destruct H as ([rest sc2] & H2 & H); inversion H; subst;
            apply Forall_app; split;
            [exact (proj2 (compile_expr_shape _ _ _ _ _ H1 E))
            |eapply IH; [exact H2|eapply compile_expr_entries_ok; [exact H1|exact E]]]).
  eapply IH; eauto.
Qed.

(* the condition block: shapes, and its last instruction writes implicit register 0 *)
Lemma compile_flag_shape e sc is sc' : compile_flag e sc = Ok (is, sc') -> entries_ok (sc_named sc) ->
  flagsI (sc_named sc') ->
  Forall ishape is /\ exists pre last t, is = pre ++ [last] /\ i_res last = Implicit 0 t.
Proof.
  intros H E ((t0 & F0) & _). apply compile_flag_inv in H. destruct H as (is0 & res & fr & C0 & Hf & Hshape).
  rewrite F0 in Hf. inversion Hf; subst fr.
  destruct (compile_expr_shape _ _ _ _ _ C0 E) as [_ S0].
  destruct Hshape as [(b & -> & ->)|(j & t & _ & Hs)].
  - split; [apply Forall_app; split; [exact S0|constructor; [repeat split; exact I|constructor]]|].
    exists is0, (mkInstr (Implicit 0 t0) OBind (Implicit 0 t0) (ImmBool b)), t0. split; reflexivity.
  - split; [eapply set_last_res_shape; [exact Hs|exact I|exact S0]|].
    unfold set_last_res in Hs. destruct (rev is0) as [|l before]; [discriminate|]. inversion Hs; subst.
    exists (rev before), (mkInstr (Implicit 0 t0) (i_op l) (i_left l) (i_right l)), t0. split; reflexivity.
Qed.

(* temporaries of the condition block and of the statement list *)
Lemma compile_flag_tmps e sc is sc' : compile_flag e sc = Ok (is, sc') -> entries_ok (sc_named sc) ->
  flagsI (sc_named sc') -> tmps_ok_i [] is = true.
Proof.
  intros H E ((t0 & F0) & _). apply compile_flag_inv in H. destruct H as (is0 & res & fr & C0 & Hf & Hshape).
  rewrite F0 in Hf. inversion Hf; subst fr.
  destruct (compile_expr_tmps _ _ _ _ _ [] C0 E) as [T0 _].
  destruct Hshape as [(b & -> & ->)|(j & t & _ & Hs)].
  - rewrite tmps_ok_app, T0. reflexivity.
  - unfold set_last_res in Hs. destruct (rev is0) as [|l before] eqn:Er; [discriminate|]. inversion Hs; subst.
    assert (His : is0 = rev before ++ [l]) by (rewrite <- (rev_involutive is0), Er; reflexivity).
    rewrite His in T0. rewrite tmps_ok_app in T0 |- *. apply andb_true_iff in T0. destruct T0 as [Tp Tl]. rewrite Tp. cbn [andb].
    cbn [tmps_ok_i i_left i_right i_op i_res] in Tl |- *.
    apply andb_true_iff in Tl. destruct Tl as [Tl _]. apply andb_true_iff in Tl. destruct Tl as [Tl _].
    rewrite Tl. cbn [andb]. unfold tmp_written_i at 1. cbn [is_tmp_reg negb orb]. rewrite orb_true_r. reflexivity.
Qed.

Lemma compile_body_tmps es : forall sc is sc' W, compile_body es sc = Ok (is, sc') -> entries_ok (sc_named sc) -> tmps_ok_i W is = true.
Proof.
  induction es as [|e r IH]; intros sc is sc' W H E; cbn [compile_body] in H; [inversion H; reflexivity|].
  destruct e as [p|c|o l r0|].
  all: try (apply bind_ok_inv in H; destruct H as ([[is1 r1] sc1] & H1 & H);
            apply bind_ok_inv in H; destruct H as ([rest sc2] & H2 & H); inversion H; subst;
            rewrite tmps_ok_app, (proj1 (compile_expr_tmps _ _ _ _ _ W H1 E)); cbn [andb];
            eapply IH; [exact H2|eapply compile_expr_entries_ok; [exact H1|exact E]]).
  eapply IH; eauto.
Qed.

(* ---------- from compiler instructions to what the decoder sees ---------- *)

Definition ser_ok (i : instr) : Prop := exists bs, ser_instr i = Ok bs.

Lemma ser_ok_inv i : ser_ok i -> exists o ca va cb vb cc vc,
  ser_op (i_op i) = Ok o /\ reg_code (i_res i) = Ok (ca, va) /\ reg_code (i_left i) = Ok (cb, vb) /\ reg_code (i_right i) = Ok (cc, vc).
Proof.
  intros (bs & H). unfold ser_instr in H.
  apply bind_ok_inv in H. destruct H as (o & Ho & H).
  apply bind_ok_inv in H. destruct H as (a & Ha & H).
  apply bind_ok_inv in H. destruct H as (b & Hb & H).
  apply bind_ok_inv in H. destruct H as (c & Hc & H).
  apply ser_reg_img_inv in Ha. destruct Ha as (ca & va & Ra & _).
  apply ser_reg_img_inv in Hb. destruct Hb as (cb & vb & Rb & _).
  apply ser_reg_img_inv in Hc. destruct Hc as (cc & vc & Rc & _).
  eauto 12.
Qed.

Lemma ser_instrs_ok is : forall bs, ser_instrs is = Ok bs -> Forall ser_ok is.
Proof.
  induction is as [|i r IH]; intros bs H; cbn [ser_instrs] in H; [constructor|].
  apply bind_ok_inv in H. destruct H as (a & Ha & H). apply bind_ok_inv in H. destruct H as (b & Hb & _).
  constructor; [exists a; exact Ha|eapply IH; eauto].
Qed.

Lemma reg_in_files_ok r c v : reg_code r = Ok (c, v) -> prim_ok r -> reg_in_files (mkRR c v) = true.
Proof.
  unfold reg_in_files. cbn [rr_class rr_idx].
  destruct r as [i t vol|n|b|i t|i t|i t|i t vol|i t|]; cbn [reg_code prim_ok]; intros H Hp; try discriminate H;
    unfold LIM_CONTROL, LIM_IMPLICIT, LIM_LOCAL, LIM_PRIMITIVE, LIM_REPORT, LIM_TMP in H;
    repeat match type of H with (if ?x then _ else _) = _ => destruct x eqn:? end; try discriminate H; inversion H; subst;
    try destruct vol; cbn; try reflexivity;
    try (match goal with E : (_ <? _) = false |- _ => apply N.ltb_ge in E end; apply N.ltb_lt; lia).
Qed.

Lemma writable_ok r c v : reg_code r = Ok (c, v) -> res_shape r -> ImageSpec.writable (mkRR c v) = true.
Proof.
  unfold ImageSpec.writable, res_shape. cbn [rr_class].
  destruct r as [i t vol|n|b|i t|i t|i t|i t vol|i t|]; cbn [reg_code slot]; intros H Hs; try discriminate H; try discriminate Hs;
    repeat match type of H with (if ?x then _ else _) = _ => destruct x end; try discriminate H; inversion H; subst;
    try destruct vol; reflexivity.
Qed.

Lemma raw_instr_ok i : ser_ok i -> ishape i -> instr_ok (raw_instr i) = true.
Proof.
  intros Hs (Hr & Hl & Hrr). destruct (ser_ok_inv _ Hs) as (o & ca & va & cb & vb & cc & vc & Ho & Ra & Rb & Rc).
  unfold instr_ok, raw_instr, raw_reg. rewrite Ra, Rb, Rc. cbn [ri_op ri_res ri_left ri_right].
  destruct (ser_op_lt _ _ Ho) as [Hlt ->].
  rewrite (writable_ok _ _ _ Ra Hr), (reg_in_files_ok _ _ _ Ra (res_shape_prim_ok _ Hr)),
    (reg_in_files_ok _ _ _ Rb Hl), (reg_in_files_ok _ _ _ Rc Hrr).
  rewrite !andb_true_r. apply N.ltb_lt. exact Hlt.
Qed.

(* the DEF preamble *)
Definition is_def_instr (i : instr) : Prop :=
  i_op i = ODef /\ i_left i = i_res i /\ (match i_res i with Report _ _ _ | Control _ _ _ => True | _ => False end) /\
  (match i_right i with ImmNum _ | ImmBool _ => True | _ => False end).

Lemma def_instrs_are_defs l : Forall is_def_instr (def_instrs l).
Proof.
  induction l as [|[x r] t IH]; cbn [def_instrs]; [constructor|].
  destruct r as [i ty vol|n|b|i ty|i ty|i ty|i ty vol|i ty|]; try exact IH;
    destruct ty as [[b|]|s|[n|]|]; try exact IH; constructor; try exact IH; repeat split; exact I.
Qed.

Lemma def_raw_ok i : is_def_instr i -> ser_ok i -> def_ok (raw_instr i) = true /\ ishape i.
Proof.
  intros (Ho & Hl & Hp & Hi) Hs. destruct (ser_ok_inv _ Hs) as (o & ca & va & cb & vb & cc & vc & Hso & Ra & Rb & Rc).
  split.
  - unfold def_ok, raw_instr, raw_reg. rewrite Hl in *. rewrite Ra. rewrite Ra in Rb. inversion Rb; subst cb vb. rewrite Rc.
    cbn [ri_op ri_res ri_left ri_right rr_class rr_idx]. rewrite Ho. cbn [opcode ser_op]. rewrite !N.eqb_refl.
    assert (Hc1 : cc = 1) by (destruct (i_right i); try contradiction; cbn in Rc;
                              repeat match type of Rc with (if ?x then _ else _) = _ => destruct x end; inversion Rc; reflexivity).
    assert (Hca : (ca =? 0) || (ca =? 8) || (ca =? 5) || (ca =? 6) = true).
    { destruct (i_res i) as [j t vol|n|b|j t|j t|j t|j t vol|j t|]; try contradiction; cbn in Ra;
        repeat match type of Ra with (if ?x then _ else _) = _ => destruct x end; try discriminate Ra; inversion Ra; subst; try destruct vol; reflexivity. }
    rewrite Hca, Hc1. reflexivity.
  - repeat split.
    + unfold res_shape. destruct (i_res i); try contradiction; exact I.
    + rewrite Hl. destruct (i_res i); try contradiction; exact I.
    + destruct (i_right i); try contradiction; exact I.
Qed.

Lemma count_defs_app defs eis : Forall is_def_instr defs -> Forall (fun i => i_op i <> ODef) eis -> Forall ser_ok eis ->
  count_defs (map raw_instr (defs ++ eis)) = length defs.
Proof.
  intros Hd He Hs. induction Hd as [|d t (Ho & _) _ IH]; cbn [app map count_defs length].
  - destruct eis as [|e r]; [reflexivity|]. cbn [map count_defs].
    inversion He as [|? ? Hne _]; subst. inversion Hs as [|? ? Hse _]; subst.
    destruct (ser_ok_inv _ Hse) as (o & _ & _ & _ & _ & _ & _ & Hso & _). cbn [raw_instr ri_op].
    destruct (i_op e); try congruence; reflexivity.
  - cbn [raw_instr ri_op]. rewrite Ho. cbn. rewrite IH. reflexivity.
Qed.

(* temporaries: the decoder's view equals the compiler-level one *)
Lemma raw_tmp r c v : reg_code r = Ok (c, v) ->
  is_tmp (mkRR c v) = is_tmp_reg r /\ (is_tmp_reg r = true -> v = tmp_idx r).
Proof.
  unfold is_tmp. cbn [rr_class].
  destruct r as [i t vol|n|b|i t|i t|i t|i t vol|i t|]; cbn [reg_code is_tmp_reg tmp_idx]; intros H; try discriminate H;
    repeat match type of H with (if ?x then _ else _) = _ => destruct x end; try discriminate H; inversion H; subst;
    try destruct vol; split; try reflexivity; intros Hq; try discriminate Hq; reflexivity.
Qed.

Lemma raw_tmp_written W r c v : reg_code r = Ok (c, v) -> tmp_written W (mkRR c v) = tmp_written_i W r.
Proof.
  intros H. destruct (raw_tmp _ _ _ H) as [H1 H2]. unfold tmp_written, tmp_written_i. rewrite H1. cbn [rr_idx].
  destruct (is_tmp_reg r) eqn:E; [|reflexivity]. rewrite (H2 eq_refl). reflexivity.
Qed.

Lemma tmps_raw is : Forall ser_ok is -> forall W, tmps_ok W (map raw_instr is) = tmps_ok_i W is.
Proof.
  induction 1 as [|i r Hs _ IH]; intros W; [reflexivity|]. cbn [map tmps_ok tmps_ok_i].
  destruct (ser_ok_inv _ Hs) as (o & ca & va & cb & vb & cc & vc & Ho & Ra & Rb & Rc).
  unfold raw_instr, raw_reg. rewrite Ra, Rb, Rc. cbn [ri_op ri_res ri_left ri_right].
  rewrite (raw_tmp_written W _ _ _ Ra), (raw_tmp_written W _ _ _ Rb), (raw_tmp_written W _ _ _ Rc).
  destruct (raw_tmp _ _ _ Ra) as [T1 T2]. rewrite T1. cbn [rr_idx].
  assert (Hop : (opcode (i_op i) =? 5) = op_eqb (i_op i) OEwma).
  { unfold opcode. destruct (i_op i); try reflexivity; discriminate Ho. }
  rewrite Hop. f_equal.
  destruct (is_tmp_reg (i_res i)) eqn:E; [rewrite (T2 eq_refl)|]; apply IH.
Qed.

(* ---------- the events tile the instruction list, at the decoder's level ---------- *)

Lemma sub_list_mid {A B} (f : A -> B) (a b c : list A) :
  sub_list (map f (a ++ b ++ c)) (length a) (length b) = map f b.
Proof.
  unfold sub_list. rewrite !map_app.
  rewrite skipn_app, skipn_all2 by (rewrite map_length; lia). rewrite map_length, Nat.sub_diag. cbn [app skipn].
  rewrite firstn_app, firstn_all2 by (rewrite map_length; lia). rewrite map_length, Nat.sub_diag. cbn [firstn]. apply app_nil_r.
Qed.

Lemma compile_body_no_def es : forall sc is sc', compile_body es sc = Ok (is, sc') -> Forall (fun i => i_op i <> ODef) is.
Proof.
  induction es as [|e r IH]; intros sc is sc' H; cbn [compile_body] in H; [inversion H; constructor|].
  destruct e as [p|c|o l r0|].
  all: try (apply bind_ok_inv in H; destruct H as ([[is1 r1] sc1] & H1 & H);
            apply bind_ok_inv in H; destruct H as ([rest sc2] & H2 & H); inversion H; subst;
            apply Forall_app; split; [eapply compile_expr_no_def; exact H1|eapply IH; exact H2]).
  eapply IH; eauto.
Qed.

Lemma compile_events_no_def evs : forall sc idx devs is sc', compile_events evs sc idx = Ok (devs, is, sc') ->
  Forall (fun i => i_op i <> ODef) is.
Proof.
  induction evs as [|ev r IH]; intros sc idx devs is sc' H; cbn [compile_events] in H; [inversion H; constructor|].
  apply bind_ok_inv in H. destruct H as ([fi sc1] & Hf & H).
  apply bind_ok_inv in H. destruct H as ([bi sc2] & Hb & H).
  apply bind_ok_inv in H. destruct H as ([[evs' is'] sc3] & Hr & H). inversion H; subst.
  apply Forall_app. split; [eapply compile_flag_no_def; exact Hf|].
  apply Forall_app. split; [eapply compile_body_no_def; exact Hb|eapply IH; exact Hr].
Qed.

Lemma compile_events_shape evs : forall sc idx devs is sc', compile_events evs sc idx = Ok (devs, is, sc') ->
  entries_ok (sc_named sc) -> flagsI (sc_named sc) -> tnd (sc_named sc) -> Forall event_names evs -> Forall ishape is.
Proof.
  induction evs as [|ev r IH]; intros sc idx devs is sc' H E F T Hn; cbn [compile_events] in H; [inversion H; constructor|].
  apply bind_ok_inv in H. destruct H as ([fi sc1] & Hf & H).
  apply bind_ok_inv in H. destruct H as ([bi sc2] & Hb & H).
  apply bind_ok_inv in H. destruct H as ([[evs' is'] sc3] & Hr & H). inversion H; subst.
  inversion Hn as [|? ? [Hnf Hnb] Hnr]; subst.
  destruct (compile_flag_FI _ _ _ _ Hnf Hf F T) as [F1 T1].
  destruct (compile_body_FI _ _ _ _ Hnb Hb F1 T1) as [F2 T2].
  pose proof (compile_flag_entries_ok _ _ _ _ Hf E) as E1.
  pose proof (compile_body_entries_ok _ _ _ _ Hb E1) as E2.
  apply Forall_app. split; [exact (proj1 (compile_flag_shape _ _ _ _ Hf E F1))|].
  apply Forall_app. split; [eapply compile_body_shape; eauto|eapply IH; eauto].
Qed.

Lemma raw_implicit0 t : raw_reg (Implicit 0 t) = mkRR 2 0.
Proof. reflexivity. Qed.

Lemma compile_events_tiles evs : forall sc idx devs eis sc' pre,
  compile_events evs sc idx = Ok (devs, eis, sc') ->
  entries_ok (sc_named sc) -> flagsI (sc_named sc) -> tnd (sc_named sc) -> Forall event_names evs ->
  idx = N.of_nat (length pre) -> Forall ser_ok eis ->
  tiles idx (map raw_event devs) (map raw_instr (pre ++ eis)) = true.
Proof.
  induction evs as [|ev r IH]; intros sc idx devs eis sc' pre H E F T Hn Hidx Hs; cbn [compile_events] in H.
  - inversion H; subst. cbn [map tiles]. rewrite app_nil_r, map_length. apply N.eqb_refl.
  - apply bind_ok_inv in H. destruct H as ([fi sc1] & Hf & H).
    apply bind_ok_inv in H. destruct H as ([bi sc2] & Hb & H).
    apply bind_ok_inv in H. destruct H as ([[evs' is'] sc3] & Hr & H). inversion H; subst devs eis sc3; clear H.
    inversion Hn as [|? ? [Hnf Hnb] Hnr]; subst.
    destruct (compile_flag_FI _ _ _ _ Hnf Hf F T) as [F1 T1].
    destruct (compile_body_FI _ _ _ _ Hnb Hb F1 T1) as [F2 T2].
    pose proof (compile_flag_entries_ok _ _ _ _ Hf E) as E1.
    pose proof (compile_body_entries_ok _ _ _ _ Hb E1) as E2.
    apply Forall_app in Hs. destruct Hs as [Sf Hs]. apply Forall_app in Hs. destruct Hs as [Sb Sr].
    destruct (compile_flag_shape _ _ _ _ Hf E F1) as (_ & fpre & last & t0 & Hfi & Hlast).
    assert (Hlen : (1 <= length fi)%nat) by (rewrite Hfi, app_length; cbn; lia).
    cbn [map tiles raw_event e_flag_idx e_num_flag e_body_idx e_num_body re_flag_idx re_num_flag re_body_idx re_num_body].
    rewrite N.eqb_refl, N.eqb_refl.
    assert (H1 : (1 <=? N.of_nat (length fi)) = true) by (apply N.leb_le; lia). rewrite H1.
    assert (H2 : (N.of_nat (length pre) + N.of_nat (length fi) + N.of_nat (length bi) <=?
                  N.of_nat (length (map raw_instr (pre ++ fi ++ bi ++ is')))) = true).
    { apply N.leb_le. rewrite map_length, !app_length. lia. }
    rewrite H2. cbn [andb].
    replace (N.to_nat (N.of_nat (length pre) + N.of_nat (length fi))) with (length (pre ++ fi)) by (rewrite app_length; lia).
    rewrite !Nat2N.id.
    assert (Hbody : sub_list (map raw_instr (pre ++ fi ++ bi ++ is')) (length (pre ++ fi)) (length bi) = map raw_instr bi).
    { replace (pre ++ fi ++ bi ++ is') with ((pre ++ fi) ++ bi ++ is') by (rewrite <- app_assoc; reflexivity). apply sub_list_mid. }
    rewrite (sub_list_mid raw_instr pre fi (bi ++ is')), Hbody.
    rewrite (tmps_raw _ Sf), (tmps_raw _ Sb), (compile_flag_tmps _ _ _ _ Hf E F1), (compile_body_tmps _ _ _ _ [] Hb E1).
    assert (Hrev : rev (map raw_instr fi) = raw_instr last :: rev (map raw_instr fpre)) by (rewrite Hfi, map_app, rev_app_distr; reflexivity).
    rewrite Hrev. cbn [raw_instr ri_res]. rewrite Hlast, raw_implicit0. cbn [rr_class rr_idx N.eqb andb].
    replace (pre ++ fi ++ bi ++ is') with ((pre ++ fi ++ bi) ++ is') by (rewrite <- !app_assoc; reflexivity).
    eapply IH; [exact Hr|exact E2|exact F2|exact T2|exact Hnr| |exact Sr].
    rewrite !app_length. lia.
Qed.

(* ---------- the scope the events are compiled in ---------- *)

Lemma flagsI_update_type sc n t r sc' : flagsI (sc_named sc) -> update_type sc n t = Ok (r, sc') -> flagsI (sc_named sc').
Proof.
  intros F Hu. apply update_type_spec in Hu. destruct Hu as ((r0 & G0 & Hr & _) & G1 & Ho & _).
  assert (K : forall m k tk, sc_get (sc_named sc) m = Some (Implicit k tk) -> exists t', sc_get (sc_named sc') m = Some (Implicit k t')).
  { intros m k tk Hm. destruct (name_eqb m n) eqn:Em.
    - apply name_eqb_eq in Em. subst m. rewrite G0 in Hm. inversion Hm; subst r0. cbn [retype] in Hr. subst r. eauto.
    - rewrite Ho; [eauto|]. intros ->. rewrite name_eqb_refl in Em. discriminate Em. }
  destruct F as ((t0 & H0) & (t1 & H1) & (t2 & H2)).
  split; [eapply K; eauto|split; eapply K; eauto].
Qed.

Lemma tnd_update_type sc n t r sc' : tnd (sc_named sc) -> tnd_ty t -> update_type sc n t = Ok (r, sc') -> tnd (sc_named sc').
Proof.
  unfold update_type. intros T Ht H. apply bind_ok_inv in H. destruct H as ([r1 l'] & H1 & H). inversion H; subst. cbn [sc_named].
  eapply tnd_update; eauto.
Qed.

Lemma apply_updates_FI ups : forall sc, flagsI (sc_named sc) -> tnd (sc_named sc) ->
  flagsI (sc_named (apply_updates ups sc)) /\ tnd (sc_named (apply_updates ups sc)).
Proof.
  induction ups as [|[n v] r IH]; intros sc F T; cbn [apply_updates]; [auto|].
  destruct (update_type sc n (TNum (Some v))) as [[r1 sc1]| |] eqn:Hu; auto.
  apply IH; [eapply flagsI_update_type; eauto|eapply tnd_update_type; eauto; exact I].
Qed.

Lemma tname_free_tnd t : tname_free t -> tnd_ty t.
Proof. destruct t; cbn; tauto. Qed.

Definition decl_ok (d : bool * name * ty) : Prop := nd (snd (fst d)) /\ tname_free (snd d).

Lemma declare_FI (mk : scope -> bool -> name -> ty -> outcome (reg * scope)) :
  (forall sc v n t r sc', nd n -> tname_free t -> flagsI (sc_named sc) -> tnd (sc_named sc) -> mk sc v n t = Ok (r, sc') ->
                          flagsI (sc_named sc') /\ tnd (sc_named sc')) ->
  forall ds sc sc', Forall decl_ok ds -> declare mk ds sc = Ok sc' -> flagsI (sc_named sc) -> tnd (sc_named sc) ->
                    flagsI (sc_named sc') /\ tnd (sc_named sc').
Proof.
  intros Hmk. induction ds as [|[[v n] t] r IH]; intros sc sc' Hd H F T; cbn [declare] in H; [inversion H; subst; auto|].
  inversion Hd as [|? ? [Hn Ht] Hr]; subst. cbn in Hn, Ht.
  apply bind_ok_inv in H. destruct H as ([r1 sc1] & H1 & H).
  destruct (Hmk _ _ _ _ _ _ Hn Ht F T H1) as [F1 T1]. eapply IH; eauto.
Qed.

Lemma new_report_FI sc v n t r sc' : nd n -> tname_free t -> flagsI (sc_named sc) -> tnd (sc_named sc) -> new_report sc v n t = Ok (r, sc') ->
  flagsI (sc_named sc') /\ tnd (sc_named sc').
Proof.
  unfold new_report. intros Hn Ht F T. destruct (255 <=? sc_nperm sc); [discriminate|]. intros H. inversion H; subst. cbn [sc_named].
  split; [apply flagsI_insert; auto|apply tnd_insert; [exact T|cbn [reg_type]; apply tname_free_tnd; exact Ht]].
Qed.

Lemma new_control_FI sc v n t r sc' : nd n -> tname_free t -> flagsI (sc_named sc) -> tnd (sc_named sc) -> new_control sc v n t = Ok (r, sc') ->
  flagsI (sc_named sc') /\ tnd (sc_named sc').
Proof.
  unfold new_control. intros Hn Ht F T. destruct (255 <=? sc_nctl sc); [discriminate|]. intros H. inversion H; subst. cbn [sc_named].
  split; [apply flagsI_insert; auto|apply tnd_insert; [exact T|cbn [reg_type]; apply tname_free_tnd; exact Ht]].
Qed.

Lemma flagsI_new : flagsI (sc_named scope_new).
Proof. unfold flagsI. vm_compute. eauto 10. Qed.

Lemma tnd_new : tnd (sc_named scope_new).
Proof. unfold tnd. vm_compute. repeat (constructor; [exact I|]). constructor. Qed.

Lemma Forall_filter_keep {A} (P : A -> Prop) f (l : list A) : Forall P l -> Forall P (filter f l).
Proof. rewrite !Forall_forall. intros H x Hx. apply filter_In in Hx. apply H. tauto. Qed.

Lemma new_with_scope_inv cps evs sc0 : new_with_scope cps = inl (Ok (evs, sc0)) ->
  entries_ok (sc_named sc0) /\ flagsI (sc_named sc0) /\ tnd (sc_named sc0) /\ Forall event_names evs.
Proof.
  unfold new_with_scope.
  destruct (p_defs (parse_fuel cps) cps) as [decls rest| | |] eqn:Ed; try discriminate.
  destruct (declare new_report _ scope_new) as [sc1| |] eqn:D1; try discriminate.
  destruct (declare new_control _ sc1) as [sc2| |] eqn:D2; try discriminate.
  destruct (p_events (parse_fuel cps) rest) as [es rest'| | |] eqn:Ee; try discriminate.
  destruct rest'; try discriminate. intros H. inversion H; subst; clear H.
  pose proof (p_defs_decls _ _ _ _ Ed) as Hd.
  destruct (declare_FI new_report new_report_FI _ _ _ (Forall_filter_keep _ _ _ Hd) D1 flagsI_new tnd_new) as [F1 T1].
  destruct (declare_FI new_control new_control_FI _ _ _ (Forall_filter_keep _ _ _ Hd) D2 F1 T1) as [F2 T2].
  pose proof (declare_entries_ok new_report new_report_entries_ok _ _ _ D1 entries_ok_new) as E1.
  pose proof (declare_entries_ok new_control new_control_entries_ok _ _ _ D2 E1) as E2.
  split; [exact E2|split; [exact F2|split; [exact T2|]]].
  apply Forall_map. eapply Forall_impl; [|eapply p_events_names; exact Ee].
  intros ev [Hf Hb]. split; cbn [ev_flag ev_body].
  - eapply enames_weaken; [|exact Hf]. intros x Hx. left. exact Hx.
  - apply Forall_map. eapply Forall_impl; [|exact Hb]. intros e He. apply desugar_names. exact He.
Qed.

(* ---------- every emitted image satisfies the structural contract ---------- *)

Lemma tiles_abs_small devs : forall next flags bodies, tiles_abs next devs flags bodies ->
  next + N.of_nat (fold_right plus 0 flags + fold_right plus 0 bodies)%nat < 4294967296 -> Forall devent_small devs.
Proof.
  induction devs as [|d r IH]; intros next flags bodies Ht Hb; [constructor|].
  destruct flags as [|f fr]; [destruct Ht|]. destruct bodies as [|b br]; [destruct Ht|].
  cbn [tiles_abs] in Ht. destruct Ht as (H1 & H2 & _ & H3 & H4 & Hr). cbn [fold_right] in Hb.
  constructor.
  - unfold devent_small. rewrite H1, H2, H3, H4. lia.
  - eapply IH; [exact Hr|]. lia.
Qed.

Lemma firstn_map_app {A B} (f : A -> B) (a b : list A) : firstn (length a) (map f (a ++ b)) = map f a.
Proof. rewrite map_app, firstn_app, firstn_all2 by (rewrite map_length; lia). rewrite map_length, Nat.sub_diag. cbn [firstn]. apply app_nil_r. Qed.

Lemma skipn_map_app {A B} (f : A -> B) (a b : list A) : skipn (length a) (map f (a ++ b)) = map f b.
Proof. rewrite map_app, skipn_app, skipn_all2 by (rewrite map_length; lia). rewrite map_length, Nat.sub_diag. reflexivity. Qed.

Lemma skipn_exact' {A} (a b : list A) n : length a = n -> skipn n (a ++ b) = b.
Proof. intros <-. rewrite skipn_app, skipn_all, Nat.sub_diag. reflexivity. Qed.

Theorem emitted_image_wf src ups bytes sc b sc' :
  compile_and_serialize src ups = inl (Ok (bytes, sc)) -> compile src ups = inl (Ok (b, sc')) ->
  N.of_nat (length (b_instrs b)) < 4294967296 ->
  image_wf (length (b_events b)) bytes = true.
Proof.
  intros Hcs Hc Hsize. unfold compile_and_serialize in Hcs. rewrite Hc in Hcs.
  destruct (serialize_bin b) as [bs| |] eqn:Hs; cbn in Hcs; try discriminate. inversion Hcs; subst bs sc'; clear Hcs.
  unfold compile in Hc. destruct (utf8_decode src) as [cps|]; [|discriminate].
  destruct (new_with_scope cps) as [[[evs sc0]| |]|] eqn:Hn; try discriminate.
  assert (Hp : compile_prog evs (apply_updates ups sc0) = Ok (b, sc)) by (inversion Hc; reflexivity). clear Hc.
  destruct (new_with_scope_inv _ _ _ Hn) as (E0 & F0 & T0 & Hnames).
  pose proof (apply_updates_entries_ok ups _ E0) as E.
  destruct (apply_updates_FI ups _ F0 T0) as [F T].
  set (scu := apply_updates ups sc0) in *.
  unfold compile_prog in Hp. apply bind_ok_inv in Hp. destruct Hp as ([[devs eis] scF] & Hev & Hp). inversion Hp; subst b scF; clear Hp.
  set (defs := def_instrs (sc_named scu)) in *.
  cbn [b_instrs b_events] in *.
  pose proof (image_length _ _ Hs) as Hlen. cbn [b_instrs b_events] in Hlen.
  unfold serialize_bin in Hs. cbn [b_instrs b_events] in Hs. apply bind_ok_inv in Hs. destruct Hs as (ibytes & Hi & Hs). inversion Hs; subst bytes; clear Hs.
  pose proof (ser_instrs_ok _ _ Hi) as Sall. apply Forall_app in Sall. destruct Sall as [Sd Se].
  pose proof (def_instrs_are_defs (sc_named scu)) as Hdefs. fold defs in Hdefs.
  pose proof (compile_events_no_def _ _ _ _ _ _ Hev) as Hnd.
  pose proof (compile_events_shape _ _ _ _ _ _ Hev E F T Hnames) as Hshape.
  destruct (events_tile _ _ _ _ _ _ Hev) as (flags & bodies & Hta & Hle & Hnev).
  assert (Hsmall : Forall devent_small devs).
  { eapply tiles_abs_small; [exact Hta|]. rewrite <- Hle. rewrite app_length in Hsize. lia. }
  unfold image_wf. rewrite Hlen.
  set (nev := length devs). set (ni := length (defs ++ eis)).
  replace (16 * nev + 16 * ni)%nat with ((nev + ni) * 16)%nat by lia.
  rewrite Nat.mod_mul by lia. rewrite Nat.div_mul by lia.
  assert (Hle2 : Nat.leb (16 * nev) ((nev + ni) * 16) = true) by (apply Nat.leb_le; lia). rewrite Hle2. cbn [Nat.eqb andb].
  replace (nev + ni - nev)%nat with ni by lia.
  subst nev ni. rewrite (chunks_ser_events devs ibytes Hsmall).
  rewrite (skipn_exact' (concat (map ser_event devs)) ibytes (16 * length devs)) by (apply ser_events_length).
  rewrite (chunks_ser_instrs _ _ Hi).
  rewrite (count_defs_app defs eis Hdefs Hnd Se).
  rewrite firstn_map_app, skipn_map_app.
  rewrite (compile_events_tiles _ _ _ _ _ _ defs Hev E F T Hnames eq_refl Se). rewrite andb_true_r.
  assert (G1 : forallb instr_ok (map raw_instr (defs ++ eis)) = true).
  { apply forallb_forall. intros x Hx. apply in_map_iff in Hx. destruct Hx as (i & <- & Hin).
    apply in_app_or in Hin. destruct Hin as [Hin|Hin].
    - rewrite Forall_forall in Hdefs, Sd. apply raw_instr_ok; [exact (Sd _ Hin)|exact (proj2 (def_raw_ok _ (Hdefs _ Hin) (Sd _ Hin)))].
    - rewrite Forall_forall in Hshape, Se. apply raw_instr_ok; [exact (Se _ Hin)|exact (Hshape _ Hin)]. }
  assert (G2 : forallb def_ok (map raw_instr defs) = true).
  { apply forallb_forall. intros x Hx. apply in_map_iff in Hx. destruct Hx as (i & <- & Hin).
    rewrite Forall_forall in Hdefs, Sd. exact (proj1 (def_raw_ok _ (Hdefs _ Hin) (Sd _ Hin))). }
  assert (G3 : forallb (fun i => negb (ri_op i =? 2)) (map raw_instr eis) = true).
  { apply forallb_forall. intros x Hx. apply in_map_iff in Hx. destruct Hx as (i & <- & Hin).
    rewrite Forall_forall in Hnd. cbn [raw_instr ri_op]. rewrite (opcode_def _ (Hnd _ Hin)). reflexivity. }
  rewrite G1, G2, G3. reflexivity.
Qed.
