(* Datapath registers and their 5-byte wire form: `enum Reg`, `enum Type` in
   src/lang/datapath.rs and `impl IntoIterator for Reg` in src/lang/serialize.rs. *)
From Portus Require Export Bytes.

Definition name := list N.   (* a name is its UTF-8 bytes *)

Inductive ty :=
| TBool (o : option bool)
| TName (s : name)
| TNum (o : option N)
| TNone.

Inductive reg :=
| Control (i : N) (t : ty) (vol : bool)
| ImmNum (n : N)
| ImmBool (b : bool)
| Implicit (i : N) (t : ty)
| Local (i : N) (t : ty)
| Primitive (i : N) (t : ty)
| Report (i : N) (t : ty) (vol : bool)
| Tmp (i : N) (t : ty)
| RNone.

(* register-class codes and index limits, as the encoder enforces them *)
Definition U64_MAX : N := 18446744073709551615.
Definition IMM_LIMIT : N := 2147483648.     (* 1 << 31 *)

Definition LIM_CONTROL : N := 15.
Definition LIM_IMPLICIT : N := 5.
Definition LIM_LOCAL : N := 5.
Definition LIM_PRIMITIVE : N := 15.
Definition LIM_REPORT : N := 15.
Definition LIM_TMP : N := 7.

(* (class code, 32-bit payload) *)
Definition reg_code (r : reg) : outcome (N * N) :=
  match r with
  | Control i _ vol => if LIM_CONTROL <? i then Err else Ok ((if vol then 8 else 0), i)
  | ImmBool b => Ok (1, if b then 1 else 0)
  | ImmNum n => if (n =? U64_MAX) || (n <? IMM_LIMIT) then Ok (1, n mod 4294967296) else Err
  | Implicit i _ => if LIM_IMPLICIT <? i then Err else Ok (2, i)
  | Local i _ => if LIM_LOCAL <? i then Err else Ok (3, i)
  | Primitive i _ => if LIM_PRIMITIVE <? i then Err else Ok (4, i)
  | Report i _ vol => if LIM_REPORT <? i then Err else Ok ((if vol then 5 else 6), i)
  | Tmp i _ => if LIM_TMP <? i then Err else Ok (7, i)
  | RNone => Panic       (* unreachable!() in the encoder *)
  end.

Definition ser_reg (r : reg) : outcome (list N) :=
  do (c, v) <- reg_code r; Ok (c :: enc_le 4 v).

Lemma ser_reg_length r bs : ser_reg r = Ok bs -> length bs = 5%nat.
Proof.
  unfold ser_reg. intros H. apply bind_ok_inv in H. destruct H as ([c v] & _ & H).
  inversion H. reflexivity.
Qed.

Fixpoint name_eqb (a b : name) : bool :=
  match a, b with
  | [], [] => true
  | x :: a', y :: b' => (x =? y) && name_eqb a' b'
  | _, _ => false
  end.

Lemma name_eqb_eq a b : name_eqb a b = true <-> a = b.
Proof.
  revert b; induction a as [|x a IH]; intros [|y b]; cbn [name_eqb]; split; intros H;
    try reflexivity; try discriminate.
  - apply andb_true_iff in H. destruct H as [H1 H2]. apply N.eqb_eq in H1. apply IH in H2. congruence.
  - inversion H; subst. rewrite N.eqb_refl. cbn. apply IH. reflexivity.
Qed.

Lemma name_eqb_refl a : name_eqb a a = true.
Proof. apply name_eqb_eq. reflexivity. Qed.

(* a scope as far as lookups are concerned: first match wins (RegFile::get) *)
Definition scope_tbl := list (name * reg).

Fixpoint sc_get (sc : scope_tbl) (n : name) : option reg :=
  match sc with
  | [] => None
  | (k, r) :: rest => if name_eqb k n then Some r else sc_get rest n
  end.
