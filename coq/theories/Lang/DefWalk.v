(* libccp's walks over the DEF preamble (reset_state after a report or a program change,
   init_register_state on a program change) as folds over the compiler's DEF instructions, and
   what they leave in the register files, slot by slot. *)
From Portus Require Export SimProg.
From Portus Require Import ImageFacts.

Definition def_val (r : reg) : N :=
  match r with
  | ImmNum n => n mod 4294967296
  | ImmBool b => if b then 1 else 0
  | _ => 0
  end.

Definition legacy (v : N) : N := if v =? 1073741823 then INF32 else v.

Definition is_perm (r : reg) : Prop := match r with Report _ _ _ | Control _ _ _ => True | _ => False end.
Definition is_imm (r : reg) : Prop := match r with ImmNum _ | ImmBool _ => True | _ => False end.

Definition def_shape (i : instr) : Prop :=
  i_op i = ODef /\ i_left i = i_res i /\ is_perm (i_res i) /\ is_imm (i_right i).

Lemma def_instrs_shape l : Forall def_shape (def_instrs l).
Proof.
  induction l as [|[x r] t IH]; cbn [def_instrs]; [constructor|].
  destruct r as [i ty vol|n|b|i ty|i ty|i ty|i ty vol|i ty|]; try exact IH;
    destruct ty as [[b|]|s|[n|]|]; try exact IH; constructor; try exact IH; repeat split; exact I.
Qed.

Definition reg_vol (r : reg) : bool := match r with Report _ _ v | Control _ _ v => v | _ => false end.
Definition reg_is_report (r : reg) : bool := match r with Report _ _ _ => true | _ => false end.

(* one DEF in reset_state: volatile report and volatile control registers are rewritten, report
   registers are counted *)
Definition reset_step (k : N) (c : conn) (ntr : N) (i : instr) : conn * N :=
  let c' := if reg_vol (i_res i) then write_reg k c (legacy (def_val (i_right i))) (dreg_of (i_res i)) else c in
  (c', if reg_is_report (i_res i) then (ntr + 1) mod 256 else ntr).

Fixpoint reset_fold (k : N) (c : conn) (ntr : N) (defs : list instr) : conn * N :=
  match defs with
  | [] => (c, ntr)
  | i :: t => let '(c', n') := reset_step k c ntr i in reset_fold k c' n' t
  end.

(* one DEF in init_register_state: the non-volatile ones *)
Definition init_step (k : N) (c : conn) (i : instr) : conn :=
  if reg_vol (i_res i) then c else write_reg k c (legacy (def_val (i_right i))) (dreg_of (i_res i)).

Fixpoint init_fold (k : N) (c : conn) (defs : list instr) : conn :=
  match defs with
  | [] => c
  | i :: t => init_fold k (init_step k c i) t
  end.

Lemma dreg_imm_value r : is_imm r -> dreg_of r = mkDReg T_IMM 0 (def_val r).
Proof. destruct r; cbn; intros H; try contradiction; reflexivity. Qed.

Lemma reset_walk_def k c i rest ntr : def_shape i ->
  reset_walk k c (dinstr_of i :: rest) ntr =
  let '(c', n') := reset_step k c ntr i in reset_walk k c' rest n'.
Proof.
  intros (Ho & Hl & Hp & Hi). unfold dinstr_of, reset_step. rewrite Ho, Hl, (dreg_imm_value _ Hi).
  destruct (i_res i) as [j t vol|n|b|j t|j t|j t|j t vol|j t|]; try contradiction; destruct vol; reflexivity.
Qed.

Lemma init_walk_def k c i rest : def_shape i ->
  init_walk k c (dinstr_of i :: rest) = init_walk k (init_step k c i) rest.
Proof.
  intros (Ho & Hl & Hp & Hi). unfold dinstr_of, init_step. rewrite Ho, Hl, (dreg_imm_value _ Hi).
  destruct (i_res i) as [j t vol|n|b|j t|j t|j t|j t vol|j t|]; try contradiction; destruct vol; reflexivity.
Qed.

Definition not_def (i : dinstr) : Prop := (di_op i =? 2) = false.

Lemma reset_walk_defs k defs : Forall def_shape defs -> forall c ntr first rest, not_def first ->
  reset_walk k c (map dinstr_of defs ++ first :: rest) ntr =
  (fst (reset_fold k c ntr defs), Some (snd (reset_fold k c ntr defs))).
Proof.
  induction 1 as [|i t Hi Ht IH]; intros c ntr first rest Hn.
  - cbn. unfold not_def in Hn. rewrite Hn. reflexivity.
  - cbn [map app reset_fold]. rewrite (reset_walk_def _ _ _ _ _ Hi).
    destruct (reset_step k c ntr i) as [c' n']. apply IH. exact Hn.
Qed.

Lemma init_walk_defs k defs : Forall def_shape defs -> forall c first rest, not_def first ->
  init_walk k c (map dinstr_of defs ++ first :: rest) = init_fold k c defs.
Proof.
  induction 1 as [|i t Hi Ht IH]; intros c first rest Hn.
  - cbn. unfold not_def in Hn. rewrite Hn. reflexivity.
  - cbn [map app init_fold]. rewrite (init_walk_def _ _ _ _ Hi). apply IH. exact Hn.
Qed.

(* ---------- what the folds leave behind ---------- *)

Definition conn_frame (c c' : conn) : Prop :=
  c_time_zero c' = c_time_zero c /\ c_prims c' = c_prims c /\ c_index c' = c_index c /\ c_prog c' = c_prog c /\
  c_staged c' = c_staged c /\ c_sent_create c' = c_sent_create c /\ c_pend_ctl c' = c_pend_ctl c /\
  c_pend_cwnd c' = c_pend_cwnd c /\ c_pend_rate c' = c_pend_rate c /\
  (regs_wf (c_regs c) -> regs_wf (c_regs c')).

Lemma conn_frame_refl c : conn_frame c c.
Proof. unfold conn_frame. repeat (split; [reflexivity|]). auto. Qed.

Lemma conn_frame_trans a b c : conn_frame a b -> conn_frame b c -> conn_frame a c.
Proof.
  unfold conn_frame. intros (A1 & A2 & A3 & A4 & A5 & A6 & A7 & A8 & A9 & A10) (B1 & B2 & B3 & B4 & B5 & B6 & B7 & B8 & B9 & B10).
  repeat (split; [congruence|]). auto.
Qed.

Lemma write_perm_frame k c v r : is_perm r -> conn_frame c (write_reg k c v (dreg_of r)).
Proof.
  intros Hp. unfold conn_frame. pose proof (write_reg_prog k c v r) as (P1 & P2 & P3 & P4 & P5 & P6).
  rewrite write_reg_tz, write_reg_prims, write_reg_index.
  split; [destruct r; try contradiction; reflexivity|]. repeat (split; [assumption || reflexivity|]). apply write_reg_wf.
Qed.

Definition def_slot (i : instr) : option (file * N) := slot (i_res i).

Lemma perm_slot r : is_perm r -> exists f j, slot r = Some (f, j) /\ f <> FTmp /\ f <> FImpl.
Proof. destruct r; intros H; try contradiction; cbn; do 2 eexists; repeat split; try reflexivity; discriminate. Qed.

Lemma reset_fold_spec k defs : Forall def_shape defs -> NoDup (map def_slot defs) ->
  Forall (fun i => reg_within (i_res i)) defs ->
  forall c ntr, regs_wf (c_regs c) ->
  let c' := fst (reset_fold k c ntr defs) in
  conn_frame c c' /\
  (forall i, In i defs -> reg_vol (i_res i) = true ->
             read_reg k 0 c' (dreg_of (i_res i)) = legacy (def_val (i_right i))) /\
  (forall f j, (forall i, In i defs -> reg_vol (i_res i) = true -> def_slot i <> Some (f, j)) -> rd c' f j = rd c f j).
Proof.
  induction 1 as [|i t Hi Ht IH]; intros Hnd Hw c ntr Hwf; cbn [reset_fold].
  - cbn. split; [apply conn_frame_refl|]. split; [intros i []|auto].
  - cbn [map] in Hnd. inversion Hnd as [|? ? Hni Hnd']; subst. inversion Hw as [|? ? Hwi Hwt]; subst.
    destruct Hi as (Ho & Hl & Hp & Him).
    destruct (perm_slot _ Hp) as (f0 & j0 & Hs0 & Hf1 & Hf2).
    unfold reset_step.
    set (c1 := if reg_vol (i_res i) then write_reg k c (legacy (def_val (i_right i))) (dreg_of (i_res i)) else c).
    set (n1 := if reg_is_report (i_res i) then (ntr + 1) mod 256 else ntr).
    assert (F1 : conn_frame c c1) by (unfold c1; destruct (reg_vol (i_res i)); [apply write_perm_frame; exact Hp|apply conn_frame_refl]).
    assert (Hwf1 : regs_wf (c_regs c1)) by (apply F1; exact Hwf).
    destruct (IH Hnd' Hwt c1 n1 Hwf1) as (F2 & Hin & Hout). cbn zeta in *.
    split; [eapply conn_frame_trans; eauto|]. split.
    + intros i' [<-|Hin'] Hv.
      * (* the head: written now, not disturbed later *)
        rewrite (read_reg_slot _ _ _ _ _ _ Hs0). rewrite Hout.
        -- unfold c1. rewrite Hv. apply rd_write_same; auto. eapply within_writable; eauto.
        -- intros i2 Hi2 _ E. apply Hni. unfold def_slot at 1. rewrite Hs0, <- E. apply in_map. exact Hi2.
      * apply Hin; auto.
    + intros f j Hno. rewrite Hout.
      * unfold c1. destruct (reg_vol (i_res i)) eqn:Ev; [|reflexivity].
        apply (rd_write_other _ _ _ _ _ _ _ _ Hs0). intros E. apply (Hno i (or_introl eq_refl) Ev). unfold def_slot. rewrite Hs0. congruence.
      * intros i2 Hi2 Hv2. apply Hno; [right; exact Hi2|exact Hv2].
Qed.

Lemma init_fold_spec k defs : Forall def_shape defs -> NoDup (map def_slot defs) ->
  Forall (fun i => reg_within (i_res i)) defs ->
  forall c, regs_wf (c_regs c) ->
  let c' := init_fold k c defs in
  conn_frame c c' /\
  (forall i, In i defs -> reg_vol (i_res i) = false ->
             read_reg k 0 c' (dreg_of (i_res i)) = legacy (def_val (i_right i))) /\
  (forall f j, (forall i, In i defs -> reg_vol (i_res i) = false -> def_slot i <> Some (f, j)) -> rd c' f j = rd c f j).
Proof.
  induction 1 as [|i t Hi Ht IH]; intros Hnd Hw c Hwf; cbn [init_fold].
  - cbn. split; [apply conn_frame_refl|]. split; [intros i []|auto].
  - cbn [map] in Hnd. inversion Hnd as [|? ? Hni Hnd']; subst. inversion Hw as [|? ? Hwi Hwt]; subst.
    destruct Hi as (Ho & Hl & Hp & Him).
    destruct (perm_slot _ Hp) as (f0 & j0 & Hs0 & Hf1 & Hf2).
    set (c1 := init_step k c i).
    assert (F1 : conn_frame c c1) by (unfold c1, init_step; destruct (reg_vol (i_res i)); [apply conn_frame_refl|apply write_perm_frame; exact Hp]).
    assert (Hwf1 : regs_wf (c_regs c1)) by (apply F1; exact Hwf).
    destruct (IH Hnd' Hwt c1 Hwf1) as (F2 & Hin & Hout). cbn zeta in *.
    split; [eapply conn_frame_trans; eauto|]. split.
    + intros i' [<-|Hin'] Hv.
      * rewrite (read_reg_slot _ _ _ _ _ _ Hs0). rewrite Hout.
        -- unfold c1, init_step. rewrite Hv. apply rd_write_same; auto. eapply within_writable; eauto.
        -- intros i2 Hi2 _ E. apply Hni. unfold def_slot at 1. rewrite Hs0, <- E. apply in_map. exact Hi2.
      * apply Hin; auto.
    + intros f j Hno. rewrite Hout.
      * unfold c1, init_step. destruct (reg_vol (i_res i)) eqn:Ev; [reflexivity|].
        apply (rd_write_other _ _ _ _ _ _ _ _ Hs0). intros E. apply (Hno i (or_introl eq_refl) Ev). unfold def_slot. rewrite Hs0. congruence.
      * intros i2 Hi2 Hv2. apply Hno; [right; exact Hi2|exact Hv2].
Qed.

(* the number of report registers the datapath will send back *)
Lemma reset_fold_count k defs : forall c ntr,
  snd (reset_fold k c ntr defs) =
  fold_left (fun n i => if reg_is_report (i_res i) then (n + 1) mod 256 else n) defs ntr.
Proof.
  induction defs as [|i t IH]; intros c ntr; cbn [reset_fold fold_left]; [reflexivity|].
  unfold reset_step. apply IH.
Qed.
