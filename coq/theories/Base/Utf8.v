(* UTF-8 validation and decoding as std::str::from_utf8 performs it
   (Unicode 15, table 3-7 "well-formed UTF-8 byte sequences"). *)
From Portus Require Export Bytes.

Definition in_rng (lo hi b : N) : bool := (lo <=? b) && (b <=? hi).
Definition cont (b : N) : bool := in_rng 128 191 b.

(* decode into code points; None on any ill-formed sequence *)
Fixpoint utf8_decode_f (fuel : nat) (l : list N) : option (list N) :=
  match fuel with
  | O => match l with [] => Some [] | _ => None end
  | S f =>
    match l with
    | [] => Some []
    | b0 :: r =>
      if b0 <? 128 then option_map (cons b0) (utf8_decode_f f r)
      else if in_rng 194 223 b0 then
        match r with
        | b1 :: r' =>
          if cont b1 then option_map (cons ((b0 - 192) * 64 + (b1 - 128))) (utf8_decode_f f r')
          else None
        | _ => None
        end
      else if in_rng 224 239 b0 then
        match r with
        | b1 :: b2 :: r' =>
          if (if b0 =? 224 then in_rng 160 191 b1
              else if b0 =? 237 then in_rng 128 159 b1
              else cont b1) && cont b2
          then option_map (cons ((b0 - 224) * 4096 + (b1 - 128) * 64 + (b2 - 128)))
                          (utf8_decode_f f r')
          else None
        | _ => None
        end
      else if in_rng 240 244 b0 then
        match r with
        | b1 :: b2 :: b3 :: r' =>
          if (if b0 =? 240 then in_rng 144 191 b1
              else if b0 =? 244 then in_rng 128 143 b1
              else cont b1) && cont b2 && cont b3
          then option_map (cons ((b0 - 240) * 262144 + (b1 - 128) * 4096 + (b2 - 128) * 64 + (b3 - 128)))
                          (utf8_decode_f f r')
          else None
        | _ => None
        end
      else None
    end
  end.

Definition utf8_decode (l : list N) : option (list N) := utf8_decode_f (length l) l.
Definition utf8_valid (l : list N) : bool :=
  match utf8_decode l with Some _ => true | None => false end.

(* ASCII strings are valid and decode to themselves *)
Lemma utf8_decode_ascii_f l : Forall (fun b => b < 128) l ->
  forall f, (length l <= f)%nat -> utf8_decode_f f l = Some l.
Proof.
  induction 1 as [|b r Hb Hr IH]; intros f Hf.
  - destruct f; reflexivity.
  - destruct f as [|f]; cbn [length] in Hf; [lia|].
    cbn [utf8_decode_f].
    replace (b <? 128) with true by (symmetry; apply N.ltb_lt; exact Hb).
    rewrite IH by lia. reflexivity.
Qed.

Lemma utf8_valid_ascii l : Forall (fun b => b < 128) l -> utf8_valid l = true.
Proof.
  intros H. unfold utf8_valid, utf8_decode.
  rewrite (utf8_decode_ascii_f l H) by lia. reflexivity.
Qed.
