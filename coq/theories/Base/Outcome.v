(* Outcomes of modelled Rust functions: a value, an error value, or a panic.
   Panics are values so that "never panics" is a theorem about the model. *)
From Coq Require Export List NArith Bool Lia.
Export ListNotations.
Open Scope N_scope.

Inductive outcome (A : Type) : Type :=
| Ok (a : A)
| Err
| Panic.
Arguments Ok {A} a.
Arguments Err {A}.
Arguments Panic {A}.

Definition bind {A B} (o : outcome A) (f : A -> outcome B) : outcome B :=
  match o with
  | Ok a => f a
  | Err => Err
  | Panic => Panic
  end.

Notation "'do' x <- o ; k" := (bind o (fun x => k))
  (at level 200, x pattern, o at level 100, k at level 200, right associativity).

Definition is_panic {A} (o : outcome A) : bool :=
  match o with Panic => true | _ => false end.
Definition is_ok {A} (o : outcome A) : bool :=
  match o with Ok _ => true | _ => false end.

Lemma bind_ok_inv {A B} (o : outcome A) (f : A -> outcome B) b :
  bind o f = Ok b -> exists a, o = Ok a /\ f a = Ok b.
Proof. destruct o; cbn; intros H; try discriminate; eauto. Qed.

Lemma bind_not_panic {A B} (o : outcome A) (f : A -> outcome B) :
  o <> Panic -> (forall a, o = Ok a -> f a <> Panic) -> bind o f <> Panic.
Proof. destruct o; cbn; intros H1 H2; auto; congruence. Qed.
