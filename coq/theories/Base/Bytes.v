(* Byte strings as [list N] (every element < 256), little-endian integers,
   Rust-style slicing with explicit bounds checks. *)
From Portus Require Export Outcome.
From Coq Require Import ZArith ZifyN ZifyNat ZifyBool.
Ltac Zify.zify_post_hook ::= Z.div_mod_to_equations.

Definition bytes_ok (l : list N) : Prop := Forall (fun b => b < 256) l.
Definition bytes_okb (l : list N) : bool := forallb (fun b => b <? 256) l.

Lemma bytes_okb_spec l : bytes_okb l = true <-> bytes_ok l.
Proof.
  unfold bytes_okb, bytes_ok. rewrite forallb_forall, Forall_forall.
  split; intros H x Hx; specialize (H x Hx); lia.
Qed.

Fixpoint enc_le (k : nat) (n : N) : list N :=
  match k with
  | O => []
  | S k' => (n mod 256) :: enc_le k' (n / 256)
  end.

Fixpoint dec_le (l : list N) : N :=
  match l with
  | [] => 0
  | b :: r => b + 256 * dec_le r
  end.

Definition pow256 (k : nat) : N := 256 ^ N.of_nat k.

Lemma pow256_0 : pow256 0 = 1. Proof. reflexivity. Qed.
Lemma pow256_S k : pow256 (S k) = 256 * pow256 k.
Proof. unfold pow256. rewrite Nat2N.inj_succ, N.pow_succ_r'. reflexivity. Qed.
Lemma pow256_pos k : 0 < pow256 k.
Proof. induction k as [|k IH]; [rewrite pow256_0|rewrite pow256_S]; lia. Qed.

Lemma enc_le_length k n : length (enc_le k n) = k.
Proof. revert n; induction k as [|k IH]; intros n; cbn [enc_le length]; auto. Qed.

Lemma enc_le_bytes_ok k n : bytes_ok (enc_le k n).
Proof.
  revert n; induction k as [|k IH]; intros n; cbn [enc_le]; constructor.
  - apply N.mod_lt; lia.
  - apply IH.
Qed.

Lemma dec_enc_le k n : dec_le (enc_le k n) = n mod pow256 k.
Proof.
  revert n; induction k as [|k IH]; intros n; cbn [enc_le dec_le].
  - rewrite pow256_0, N.mod_1_r; reflexivity.
  - rewrite IH, pow256_S.
    pose proof (pow256_pos k) as Hp.
    rewrite N.mod_mul_r by lia. reflexivity.
Qed.

Lemma dec_le_bound l : bytes_ok l -> dec_le l < pow256 (length l).
Proof.
  induction 1 as [|b r Hb Hr IH]; cbn [dec_le length].
  - rewrite pow256_0; lia.
  - rewrite pow256_S. lia.
Qed.

Lemma enc_dec_le l : bytes_ok l -> enc_le (length l) (dec_le l) = l.
Proof.
  induction 1 as [|b r Hb Hr IH]; cbn [dec_le length enc_le]; [reflexivity|].
  f_equal.
  - lia.
  - replace ((b + 256 * dec_le r) / 256) with (dec_le r) by lia. exact IH.
Qed.

Lemma dec_enc_le_small k n : n < pow256 k -> dec_le (enc_le k n) = n.
Proof. intros H; rewrite dec_enc_le; apply N.mod_small; exact H. Qed.

Lemma dec_le_app a b : dec_le (a ++ b) = dec_le a + pow256 (length a) * dec_le b.
Proof.
  induction a as [|x a IH]; cbn [app dec_le length].
  - rewrite pow256_0; lia.
  - rewrite IH, pow256_S; lia.
Qed.

Lemma bytes_ok_app a b : bytes_ok (a ++ b) <-> bytes_ok a /\ bytes_ok b.
Proof. unfold bytes_ok; apply Forall_app. Qed.

Lemma bytes_ok_firstn n l : bytes_ok l -> bytes_ok (firstn n l).
Proof. intros H. rewrite <- (firstn_skipn n l) in H. apply bytes_ok_app in H. tauto. Qed.

Lemma bytes_ok_skipn n l : bytes_ok l -> bytes_ok (skipn n l).
Proof. intros H. rewrite <- (firstn_skipn n l) in H. apply bytes_ok_app in H. tauto. Qed.

Lemma bytes_ok_repeat0 n : bytes_ok (repeat 0 n).
Proof. unfold bytes_ok; apply Forall_forall; intros x Hx; apply repeat_spec in Hx; lia. Qed.

(* [sub l a b] is the Rust slice l[a..b] when a <= b <= len. *)
Definition sub (l : list N) (a b : nat) : list N := firstn (b - a) (skipn a l).

Lemma sub_length l a b : (a <= b)%nat -> (b <= length l)%nat -> length (sub l a b) = (b - a)%nat.
Proof. intros; unfold sub; rewrite firstn_length, skipn_length; lia. Qed.

Lemma bytes_ok_sub l a b : bytes_ok l -> bytes_ok (sub l a b).
Proof. intros; unfold sub; apply bytes_ok_firstn, bytes_ok_skipn; assumption. Qed.

(* l[a..b] : panics when out of range, as Rust's Index does *)
Definition slice (l : list N) (a b : nat) : outcome (list N) :=
  if Nat.leb a b && Nat.leb b (length l) then Ok (sub l a b) else Panic.

(* l.get(a..b).ok_or(Err) *)
Definition get_range (l : list N) (a b : nat) : outcome (list N) :=
  if Nat.leb a b && Nat.leb b (length l) then Ok (sub l a b) else Err.

(* little-endian integer of k bytes at offset off *)
Definition le_at (k : nat) (l : list N) (off : nat) : N := dec_le (sub l off (off + k)).
Definition le16 := le_at 2.
Definition le32 := le_at 4.
Definition le64 := le_at 8.

Lemma le_at_bound k l off : bytes_ok l -> le_at k l off < pow256 k.
Proof.
  intros H. unfold le_at.
  pose proof (dec_le_bound (sub l off (off + k)) (bytes_ok_sub _ _ _ H)) as Hb.
  assert (Hl : (length (sub l off (off + k)) <= k)%nat).
  { unfold sub. rewrite firstn_length. lia. }
  eapply N.lt_le_trans; [exact Hb|].
  unfold pow256. apply N.pow_le_mono_r; lia.
Qed.

Lemma sub_app_l l r a b : (b <= length l)%nat -> sub (l ++ r) a b = sub l a b.
Proof.
  intros H. unfold sub.
  destruct (Nat.le_gt_cases a (length l)) as [Ha|Ha].
  - rewrite skipn_app. rewrite firstn_app.
    replace (b - a - length (skipn a l))%nat with 0%nat by (rewrite skipn_length; lia).
    rewrite firstn_O, app_nil_r. reflexivity.
  - replace (b - a)%nat with 0%nat by lia. reflexivity.
Qed.

Lemma sub_app_r l r a b : (length l <= a)%nat ->
  sub (l ++ r) a b = sub r (a - length l) (b - length l).
Proof.
  intros H. unfold sub. rewrite skipn_app.
  rewrite (skipn_all2 l) by lia. cbn [app].
  f_equal. lia.
Qed.

Lemma sub_full l : sub l 0 (length l) = l.
Proof. unfold sub. cbn [skipn]. rewrite Nat.sub_0_r. apply firstn_all. Qed.

Lemma skipn_skipn' (a b : nat) (l : list N) : skipn a (skipn b l) = skipn (b + a) l.
Proof.
  revert l; induction b as [|b IH]; intros l; [reflexivity|].
  destruct l as [|x l]; cbn [skipn plus]; [apply skipn_nil|apply IH].
Qed.

Lemma sub_sub l a b c d : (a + d <= b)%nat ->
  sub (sub l a b) c d = sub l (a + c) (a + d).
Proof.
  intros H. unfold sub.
  rewrite skipn_firstn_comm, firstn_firstn, skipn_skipn'.
  f_equal; lia.
Qed.

(* u32/u64 lists *)
Fixpoint chunks8 (fuel : nat) (l : list N) : list (list N) :=
  match fuel with
  | O => []
  | S f => match l with
           | [] => []
           | _ => firstn 8 l :: chunks8 f (skipn 8 l)
           end
  end.

Definition enc_le_list (k : nat) (vs : list N) : list N := concat (map (enc_le k) vs).

Lemma enc_le_list_length k vs : length (enc_le_list k vs) = (k * length vs)%nat.
Proof.
  unfold enc_le_list. induction vs as [|v vs IH]; cbn [map concat length]; [lia|].
  rewrite app_length, enc_le_length, IH. lia.
Qed.

Lemma enc_le_list_bytes_ok k vs : bytes_ok (enc_le_list k vs).
Proof.
  unfold enc_le_list. induction vs as [|v vs IH]; cbn [map concat].
  - constructor.
  - apply bytes_ok_app; split; [apply enc_le_bytes_ok|exact IH].
Qed.
