(* C08: the receive path yields exactly what the datagrams say, for every initial buffer
   content (non-interference with stale bytes), and always advances. *)
From Portus Require Import Codec CodecSpec CodecFacts CodecRoundtrip Cursor.
From Coq Require Import ZArith ZifyN ZifyNat ZifyBool.

(* ---- decode_until does not depend on surplus fuel ---- *)

Lemma from_buf_progress bs m n : from_buf bs = Ok (m, n) -> bs <> [] -> (1 <= n <= length bs)%nat.
Proof.
  intros H Hne. pose proof (from_buf_total_progress bs) as P. rewrite H in P.
  destruct P as [[P _]|P]; [contradiction|exact P].
Qed.

Lemma decode_until_fuel2 : forall f1 f2 bs, (length bs <= f1)%nat -> (length bs <= f2)%nat ->
  decode_until f1 bs = decode_until f2 bs.
Proof.
  induction f1 as [|f1 IH]; intros f2 bs H1 H2.
  - destruct bs; [destruct f2; reflexivity|cbn [length] in H1; lia].
  - destruct bs as [|b r]; [destruct f2; reflexivity|].
    destruct f2 as [|f2]; [cbn [length] in H2; lia|].
    cbn [decode_until].
    destruct (from_buf (b :: r)) as [[m n]| |] eqn:Hf; try reflexivity.
    pose proof (from_buf_progress _ _ _ Hf ltac:(discriminate)) as Hn.
    cbn [length] in Hn, H1, H2.
    assert (Hs : (length (skipn n (b :: r)) <= length r)%nat) by (rewrite skipn_length; cbn [length]; lia).
    rewrite (IH f2 (skipn n (b :: r))) by lia. reflexivity.
Qed.

Lemma decode_until_fuel : forall f bs, (length bs <= f)%nat ->
  decode_until f bs = decode_until (length bs) bs.
Proof. intros f bs H. apply decode_until_fuel2; lia. Qed.

Lemma decode_until_S f bs : bs <> [] ->
  decode_until (S f) bs =
  match from_buf bs with
  | Ok (m, n) => let '(ms, ok) := decode_until f (skipn n bs) in (m :: ms, ok)
  | _ => ([], false)
  end.
Proof. destruct bs; [congruence|reflexivity]. Qed.

(* ---- draining the current datagram ---- *)

Definition tag (a : N) (ms : list msg) : list (msg * N) := map (fun m => (m, a)) ms.

Definition fresh (c : cur) : Prop := (c_tot c <= c_ru c)%nat /\ c_stop c = false.

Section Drain.
  Variable B : nat.
  Variable r : list ev.
  (* what the rest of the script yields from any fresh cursor *)
  Hypothesis IHr : forall c fuel, fresh c -> length (c_buf c) = B ->
    (S (ev_weight B r) <= fuel)%nat -> run_cursor fuel c r = Ok (spec_run B r).

  Lemma drain : forall k d' stale a ru fuel,
    (ru + k = length d')%nat -> length (d' ++ stale) = B ->
    (k + S (ev_weight B r) <= fuel)%nat ->
    run_cursor fuel (mkCur (d' ++ stale) (length d') ru a false) r =
    Ok (let '(ms, ok) := decode_until k (skipn ru d') in
        tag a ms ++ (if ok then spec_run B r else [])).
  Proof.
    induction k as [k IHk] using lt_wf_ind. intros d' stale a ru fuel Hk HB Hfuel.
    destruct k as [|k].
    - (* nothing left: the cursor is fresh *)
      cbn [decode_until tag map app].
      apply IHr; [split; cbn; lia | exact HB | lia].
    - destruct fuel as [|fuel]; [lia|].
      cbn [run_cursor]. unfold next. cbn [c_ru c_tot c_buf c_addr c_stop].
      replace (Nat.ltb ru (length d')) with true by (symmetry; apply Nat.ltb_lt; lia).
      assert (Hsub : sub (d' ++ stale) ru (length d') = skipn ru d').
      { rewrite sub_app_l by lia. unfold sub.
        rewrite firstn_all2 by (rewrite skipn_length; lia). reflexivity. }
      rewrite Hsub.
      assert (Hne : skipn ru d' <> []).
      { intros E. apply (f_equal (@length N)) in E. rewrite skipn_length in E. cbn [length] in E. lia. }
      rewrite decode_until_S by exact Hne.
      destruct (from_buf (skipn ru d')) as [[m n]| |] eqn:Hf.
      + pose proof (from_buf_progress _ _ _ Hf Hne) as Hn. rewrite skipn_length in Hn.
        rewrite (IHk (S k - n)%nat ltac:(lia) d' stale a (ru + n)%nat fuel ltac:(lia) HB ltac:(lia)).
        cbn [bind]. rewrite skipn_skipn'.
        replace (decode_until k (skipn (ru + n) d')) with (decode_until (S k - n) (skipn (ru + n) d')).
        2:{ rewrite (decode_until_fuel k) by (rewrite skipn_length; lia).
            rewrite (decode_until_fuel (S k - n)) by (rewrite skipn_length; lia). reflexivity. }
        destruct (decode_until (S k - n) (skipn (ru + n) d')) as [ms ok].
        reflexivity.
      + reflexivity.
      + exfalso. pose proof (from_buf_total_progress (skipn ru d')) as P. rewrite Hf in P. exact P.
  Qed.
End Drain.

Lemma recv_into_length buf d : length (fst (recv_into buf d)) = length buf.
Proof.
  unfold recv_into. cbn [fst]. rewrite app_length, skipn_length, firstn_length. lia.
Qed.

Theorem run_spec : forall evs c fuel, fresh c ->
  (S (ev_weight (length (c_buf c)) evs) <= fuel)%nat ->
  run_cursor fuel c evs = Ok (spec_run (length (c_buf c)) evs).
Proof.
  induction evs as [|e r IH]; intros c fuel [Hfr Hst] Hfuel.
  - destruct fuel as [|fuel]; [lia|].
    cbn [run_cursor]. unfold next.
    replace (Nat.ltb (c_ru c) (c_tot c)) with false by (symmetry; apply Nat.ltb_ge; lia).
    cbn [get_next_read]. rewrite Hst. cbn [after_failed_read]. rewrite Hst. reflexivity.
  - assert (IH' : forall B, forall c fuel, fresh c -> length (c_buf c) = B ->
                 (S (ev_weight B r) <= fuel)%nat -> run_cursor fuel c r = Ok (spec_run B r)).
    { intros B c0 fuel0 H0 HB Hf0. subst B. apply IH; assumption. }
    destruct e as [a d| |].
    + (* a datagram *)
      destruct fuel as [|fuel]; [lia|].
      cbn [ev_weight] in Hfuel.
      set (B := length (c_buf c)) in *.
      set (d' := firstn B d).
      assert (Hd'l : length d' = Nat.min B (length d)) by (unfold d'; apply firstn_length).
      set (stale := skipn (length d') (c_buf c)).
      assert (HB' : length (d' ++ stale) = B).
      { unfold stale. rewrite app_length, skipn_length. fold B. lia. }
      cbn [spec_run]. fold d'.
      destruct (Nat.eqb (length d') 0) eqn:E0.
      * (* empty read: skipped, only the address changes *)
        apply Nat.eqb_eq in E0.
        assert (Hd'nil : d' = []) by (destruct d'; [reflexivity|cbn [length] in E0; lia]).
        rewrite Hd'nil. cbn [length decode_until map app].
        cbn [run_cursor]. unfold next.
        replace (Nat.ltb (c_ru c) (c_tot c)) with false by (symmetry; apply Nat.ltb_ge; lia).
        cbn [get_next_read after_failed_read]. rewrite Hst.
        unfold recv_into. fold B. fold d'. rewrite Hd'nil. cbn [length app skipn Nat.eqb].
        set (c' := mkCur (c_buf c) (c_tot c) (c_ru c) a false).
        specialize (IH c' (S fuel) ltac:(split; cbn; lia) ltac:(cbn [c_buf c']; fold B; lia)).
        cbn [run_cursor] in IH. unfold next in IH. cbn [c_ru c_tot c'] in IH.
        replace (Nat.ltb (c_ru c) (c_tot c)) with false in IH by (symmetry; apply Nat.ltb_ge; lia).
        cbn [c_buf c'] in IH. fold B in IH. exact IH.
      * apply Nat.eqb_neq in E0.
        cbn [run_cursor]. unfold next.
        replace (Nat.ltb (c_ru c) (c_tot c)) with false by (symmetry; apply Nat.ltb_ge; lia).
        cbn [get_next_read]. rewrite Hst.
        unfold recv_into. fold B. fold d'. fold stale.
        replace (Nat.eqb (length d') 0) with false by (symmetry; apply Nat.eqb_neq; lia).
        cbn [c_buf c_addr c_stop].
        (* the first message of the datagram: same as the leftover branch at read_until = 0 *)
        pose proof (drain B r (IH' B) (length d') d' stale a 0%nat (S fuel) ltac:(lia) HB' ltac:(lia)) as D.
        cbn [run_cursor] in D. unfold next in D. cbn [c_ru c_tot c_buf c_addr c_stop] in D.
        replace (Nat.ltb 0 (length d')) with true in D by (symmetry; apply Nat.ltb_lt; lia).
        cbn [skipn] in D. cbn [plus] in D.
        destruct (from_buf (sub (d' ++ stale) 0 (length d'))) as [[m n]| |]; exact D.
    + (* a failed receive is skipped *)
      destruct fuel as [|fuel]; [lia|]. cbn [ev_weight] in Hfuel.
      cbn [spec_run].
      specialize (IH c (S fuel) ltac:(split; assumption) ltac:(lia)).
      cbn [run_cursor] in IH |- *. unfold next in IH |- *.
      replace (Nat.ltb (c_ru c) (c_tot c)) with false in IH |- * by (symmetry; apply Nat.ltb_ge; lia).
      cbn [get_next_read after_failed_read]. rewrite Hst. exact IH.
    + (* stop requested while blocked in recv *)
      destruct fuel as [|fuel]; [lia|].
      cbn [run_cursor spec_run]. unfold next.
      replace (Nat.ltb (c_ru c) (c_tot c)) with false by (symmetry; apply Nat.ltb_ge; lia).
      cbn [get_next_read after_failed_read]. rewrite Hst. reflexivity.
Qed.

Theorem run_script_spec bufsize evs : run_script bufsize evs = Ok (spec_run bufsize evs).
Proof.
  unfold run_script, run_fuel.
  pose proof (run_spec evs (init_cur bufsize) (S (ev_weight bufsize evs))) as H.
  unfold init_cur in *. cbn [c_buf] in H. rewrite repeat_length in H.
  apply H; [split; cbn; lia | lia].
Qed.

(* non-interference stated directly: any two cursors that are fresh and have buffers of the same
   size yield the same messages, whatever bytes the buffers hold *)
Corollary stale_bytes_irrelevant evs c1 c2 f1 f2 : fresh c1 -> fresh c2 ->
  length (c_buf c1) = length (c_buf c2) ->
  (S (ev_weight (length (c_buf c1)) evs) <= f1)%nat -> (S (ev_weight (length (c_buf c2)) evs) <= f2)%nat ->
  run_cursor f1 c1 evs = run_cursor f2 c2 evs.
Proof.
  intros H1 H2 Hl Hf1 Hf2. rewrite (run_spec evs c1 f1 H1 Hf1), (run_spec evs c2 f2 H2 Hf2), Hl. reflexivity.
Qed.

(* ---- well-formed datagrams: exactly the messages sent, in order, with the sender ---- *)

Lemma decode_until_concat ms : forallb msg_in_range ms = true ->
  forall buf, serialize_all ms = Ok buf ->
  decode_until (length buf) buf = (ms, true).
Proof.
  induction ms as [|m r IH]; intros H buf Hs.
  - cbn in Hs. inversion Hs. reflexivity.
  - cbn [forallb] in H. apply andb_true_iff in H. destruct H as [Hm Hr].
    cbn [serialize_all] in Hs.
    apply bind_ok_inv in Hs. destruct Hs as (b & Hb & Hs).
    apply bind_ok_inv in Hs. destruct Hs as (rest & Hrest & Hs). inversion Hs; subst buf; clear Hs.
    destruct (roundtrip_framed m rest Hm) as (bs & Hs' & Hd).
    rewrite Hb in Hs'. inversion Hs'; subst bs; clear Hs'.
    pose proof (serialize_msg_nonempty _ _ Hb) as Hne.
    assert (Hnn : b ++ rest <> []).
    { intros E. apply (f_equal (@length N)) in E. rewrite app_length in E. cbn [length] in E. lia. }
    assert (Hlen : length (b ++ rest) = S (length (b ++ rest) - 1)).
    { rewrite app_length. lia. }
    rewrite Hlen. rewrite decode_until_S by exact Hnn. rewrite Hd.
    rewrite skipn_app, skipn_all, Nat.sub_diag. cbn [app skipn].
    rewrite (decode_until_fuel (length (b ++ rest) - 1) rest) by (rewrite app_length; lia).
    rewrite (IH Hr rest Hrest). reflexivity.
Qed.

(* a script of well-formed datagrams that fit the buffer *)
Fixpoint wf_script (bufsize : nat) (ds : list (N * list msg)) : option (list ev) :=
  match ds with
  | [] => Some []
  | (a, ms) :: r =>
    match serialize_all ms, wf_script bufsize r with
    | Ok buf, Some evs =>
      if forallb msg_in_range ms && Nat.leb (length buf) bufsize then Some (Dgram a buf :: evs) else None
    | _, _ => None
    end
  end.

Theorem wellformed_exact bufsize ds evs : wf_script bufsize ds = Some evs ->
  run_script bufsize evs = Ok (concat (map (fun '(a, ms) => tag a ms) ds)).
Proof.
  rewrite run_script_spec. intros H. f_equal. revert evs H.
  induction ds as [|[a ms] r IH]; intros evs H.
  - cbn in H. inversion H. reflexivity.
  - cbn [wf_script] in H.
    destruct (serialize_all ms) as [buf| |] eqn:Hs; try discriminate.
    destruct (wf_script bufsize r) as [evs'|] eqn:Hw; try discriminate.
    destruct (forallb msg_in_range ms && Nat.leb (length buf) bufsize) eqn:Hc; try discriminate.
    inversion H; subst evs; clear H.
    apply andb_true_iff in Hc. destruct Hc as [Hin Hfit]. apply Nat.leb_le in Hfit.
    cbn [spec_run map concat].
    rewrite firstn_all2 by lia.
    rewrite (decode_until_concat ms Hin buf Hs).
    rewrite (IH evs' eq_refl). reflexivity.
Qed.

(* ---- progress: every call of next consumes an event or advances read_until ---- *)

Definition measure_of (bufsize : nat) (c : cur) (evs : list ev) : nat :=
  (c_tot c - c_ru c) + ev_weight bufsize evs.

Lemma get_next_read_weight B : forall evs c n c' r,
  get_next_read c evs = Some (n, c', r) -> length (c_buf c) = B ->
  (n + S (ev_weight B r) <= ev_weight B evs)%nat /\ (1 <= n)%nat /\ length (c_buf c') = B /\ (n <= B)%nat.
Proof.
  induction evs as [|e evs IH]; intros c n c' r H HB.
  - cbn in H. destruct (c_stop c); discriminate.
  - cbn [get_next_read] in H. destruct (c_stop c); [discriminate|].
    destruct e as [a d| |]; try discriminate.
    + unfold recv_into in H.
      destruct (Nat.eqb (length (firstn (length (c_buf c)) d)) 0) eqn:E0.
      * apply IH in H.
        2:{ cbn [c_buf]. rewrite app_length, skipn_length, firstn_length. lia. }
        cbn [ev_weight]. lia.
      * inversion H; subst; clear H. apply Nat.eqb_neq in E0.
        cbn [ev_weight c_buf]. rewrite app_length, skipn_length, firstn_length in *. lia.
    + apply IH in H; [|exact HB]. cbn [ev_weight]. lia.
Qed.

Theorem next_progress c evs m a c' r :
  next c evs = Yield m a c' r -> (c_ru c <= c_tot c <= length (c_buf c))%nat ->
  ((r = evs /\ c_tot c' = c_tot c /\ (c_ru c < c_ru c' <= c_tot c')%nat) \/
   (c_tot c' + S (ev_weight (length (c_buf c)) r) <= ev_weight (length (c_buf c)) evs /\
    (1 <= c_ru c' <= c_tot c')%nat /\ (c_tot c' <= length (c_buf c'))%nat /\
    length (c_buf c') = length (c_buf c)))%nat.
Proof.
  unfold next. intros H [Hle Hin].
  destruct (Nat.ltb (c_ru c) (c_tot c)) eqn:E.
  - apply Nat.ltb_lt in E.
    destruct (from_buf (sub (c_buf c) (c_ru c) (c_tot c))) as [[m0 n]| |] eqn:Hf; try discriminate.
    inversion H; subst; clear H. left. cbn [c_tot c_ru].
    assert (Hne : sub (c_buf c) (c_ru c) (c_tot c) <> []).
    { intros E0. apply (f_equal (@length N)) in E0. rewrite sub_length in E0 by lia. cbn in E0. lia. }
    pose proof (from_buf_progress _ _ _ Hf Hne) as Hn. rewrite sub_length in Hn by lia.
    repeat split; try reflexivity; lia.
  - destruct (get_next_read c evs) as [[[n c0] r0]|] eqn:G.
    + pose proof (get_next_read_weight (length (c_buf c)) evs c n c0 r0 G eq_refl) as (W & Hn1 & HB & HnB).
      destruct (from_buf (sub (c_buf c0) 0 n)) as [[m0 k]| |] eqn:Hf; try discriminate.
      inversion H; subst; clear H. right. cbn [c_ru c_tot c_buf].
      assert (Hne : sub (c_buf c0) 0 n <> []).
      { intros E0. apply (f_equal (@length N)) in E0. rewrite sub_length in E0 by lia. cbn in E0. lia. }
      pose proof (from_buf_progress _ _ _ Hf Hne) as Hk. rewrite sub_length in Hk by lia.
      repeat split; try lia.
    + destruct (after_failed_read c evs); discriminate.
Qed.
