(* Executable model of the receive path: Backend::next / Backend::get_next_read in
   src/ipc/mod.rs, over a scripted transport.  The receive buffer is modelled with its stale
   contents, so that "stale bytes never reach a message" is a theorem and not an assumption. *)
From Portus Require Export Codec.

(* what the scripted transport's recv does, call by call *)
Inductive ev :=
| Dgram (a : N) (bytes : list N)   (* a datagram from address a (truncated to the buffer) *)
| RecvErr                          (* recv returns Err (timeout, EAGAIN, ...) *)
| StopReq.                         (* the stop flag is cleared while recv is blocked; recv returns Err *)

Record cur := mkCur {
  c_buf : list N;      (* the whole receive buffer, stale bytes included *)
  c_tot : nat;         (* tot_read *)
  c_ru : nat;          (* read_until *)
  c_addr : N;          (* last_recv_addr *)
  c_stop : bool        (* the stop flag has been cleared *)
}.

Definition init_cur (bufsize : nat) : cur := mkCur (repeat 0 bufsize) 0 0 0 false.

(* recv copies the datagram into the prefix of the buffer and leaves the rest untouched *)
Definition recv_into (buf d : list N) : list N * nat :=
  let d' := firstn (length buf) d in
  (d' ++ skipn (length d') buf, length d').

(* get_next_read: poll the flag, receive, skip failed and empty reads.
   None = Err("Done") or script exhausted (the harness then clears the flag). *)
Fixpoint get_next_read (c : cur) (evs : list ev) : option (nat * cur * list ev) :=
  if c_stop c then None else
  match evs with
  | [] => None
  | RecvErr :: r => get_next_read c r
  | StopReq :: r => None
  | Dgram a d :: r =>
    let '(buf', n) := recv_into (c_buf c) d in
    let c' := mkCur buf' (c_tot c) (c_ru c) a false in
    if Nat.eqb n 0 then get_next_read c' r else Some (n, c', r)
  end.

(* events left after a failed get_next_read (for the stop flag model) *)
Fixpoint after_failed_read (c : cur) (evs : list ev) : cur * list ev :=
  if c_stop c then (c, evs) else
  match evs with
  | [] => (mkCur (c_buf c) (c_tot c) (c_ru c) (c_addr c) true, [])
  | RecvErr :: r => after_failed_read c r
  | StopReq :: r => (mkCur (c_buf c) (c_tot c) (c_ru c) (c_addr c) true, r)
  | Dgram a d :: r =>
    let '(buf', n) := recv_into (c_buf c) d in
    let c' := mkCur buf' (c_tot c) (c_ru c) a false in
    if Nat.eqb n 0 then after_failed_read c' r else (c', r)
  end.

Inductive nres :=
| Yield (m : msg) (a : N) (c : cur) (rest : list ev)
| Done (c : cur) (rest : list ev)     (* next() returned None *)
| NPanic.

Definition next (c : cur) (evs : list ev) : nres :=
  if Nat.ltb (c_ru c) (c_tot c) then
    match from_buf (sub (c_buf c) (c_ru c) (c_tot c)) with
    | Ok (m, n) => Yield m (c_addr c) (mkCur (c_buf c) (c_tot c) (c_ru c + n) (c_addr c) (c_stop c)) evs
    | Err => Done c evs
    | Panic => NPanic
    end
  else
    match get_next_read c evs with
    | None => let '(c', r) := after_failed_read c evs in Done c' r
    | Some (n, c', r) =>
      match from_buf (sub (c_buf c') 0 n) with
      | Ok (m, k) => Yield m (c_addr c') (mkCur (c_buf c') n k (c_addr c') (c_stop c')) r
      | Err => Done (mkCur (c_buf c') n 0 (c_addr c') (c_stop c')) r
      | Panic => NPanic
      end
    end.

(* iterate next until it returns None; fuel bounds the number of yields *)
Fixpoint run_cursor (fuel : nat) (c : cur) (evs : list ev) : outcome (list (msg * N)) :=
  match fuel with
  | O => Err     (* out of fuel: excluded by the theorems *)
  | S f =>
    match next c evs with
    | Yield m a c' r => do rest <- run_cursor f c' r; Ok ((m, a) :: rest)
    | Done _ _ => Ok []
    | NPanic => Panic
    end
  end.

Fixpoint ev_weight (bufsize : nat) (evs : list ev) : nat :=
  match evs with
  | [] => 0
  | Dgram _ d :: r => S (Nat.min bufsize (length d)) + ev_weight bufsize r
  | _ :: r => S (ev_weight bufsize r)
  end.

Definition run_fuel (bufsize : nat) (evs : list ev) : nat := S (ev_weight bufsize evs).

Definition run_script (bufsize : nat) (evs : list ev) : outcome (list (msg * N)) :=
  run_cursor (run_fuel bufsize evs) (init_cur bufsize) evs.

(* ---------- specification: a function of the datagrams alone ---------- *)

(* decode bs message by message; (messages, true) if bs was used up, (messages so far, false)
   if decoding failed *)
Fixpoint decode_until (fuel : nat) (bs : list N) : list msg * bool :=
  match fuel with
  | O => ([], true)
  | S f =>
    match bs with
    | [] => ([], true)
    | _ => match from_buf bs with
           | Ok (m, n) => let '(ms, ok) := decode_until f (skipn n bs) in (m :: ms, ok)
           | _ => ([], false)
           end
    end
  end.

Fixpoint spec_run (bufsize : nat) (evs : list ev) : list (msg * N) :=
  match evs with
  | [] => []
  | RecvErr :: r => spec_run bufsize r
  | StopReq :: _ => []
  | Dgram a d :: r =>
    let d' := firstn bufsize d in
    let '(ms, ok) := decode_until (length d') d' in
    map (fun m => (m, a)) ms ++ (if ok then spec_run bufsize r else [])
  end.
