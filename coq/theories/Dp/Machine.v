(* Executable model of the reference datapath, libccp 1.2.0: machine.c (register machine,
   state_machine, reset_state, init_register_state), ccp.c (ccp_read_msg, program install,
   staged updates, ccp_invoke, connection start/free), serialize.c (message readers/writers
   under the packed struct layouts of serialize.h).  Validated against the compiled C code
   (cref/driver.c) on every run. *)
From Portus Require Export Bytes Codec.
From Coq Require Export ZArith.
Open Scope N_scope.

Definition W64 : N := 18446744073709551616.
Definition W32 : N := 4294967296.
Definition wrap64 (x : N) : N := x mod W64.
Definition INF32 : N := 4294967295.      (* ((u64)~0U) *)

(* ---------- registers and instructions as libccp stores them ---------- *)

Record dreg := mkDReg { dr_type : N; dr_index : N; dr_value : N }.
Record dinstr := mkDInstr { di_op : N; di_ret : dreg; di_left : dreg; di_right : dreg }.
Record dexpr := mkDExpr { dx_cond_start : N; dx_num_cond : N; dx_event_start : N; dx_num_event : N }.

Record dprog := mkDProg {
  dp_index : N;            (* slot + 1; 0 = free *)
  dp_uid : N;
  dp_exprs : list dexpr;
  dp_instrs : list dinstr;
  dp_num_to_return : N
}.

(* register classes *)
Definition T_NVCTL : N := 0.  Definition T_IMM : N := 1.   Definition T_IMPL : N := 2.
Definition T_LOCAL : N := 3.  Definition T_PRIM : N := 4.  Definition T_VREP : N := 5.
Definition T_NVREP : N := 6.  Definition T_TMP : N := 7.   Definition T_VCTL : N := 8.

(* deserialize_register: immediates keep the value; other known classes keep the index *)
Definition deser_reg (t v : N) : option dreg :=
  if t =? T_IMM then Some (mkDReg T_IMM 0 v)
  else if (t =? T_NVCTL) || (t =? T_VCTL) || (t =? T_IMPL) || (t =? T_PRIM) || (t =? T_VREP) ||
          (t =? T_NVREP) || (t =? T_TMP) || (t =? T_LOCAL) then Some (mkDReg t v 0)
  else None.

(* read_instruction on a 16-byte InstructionMsg; the error code on failure *)
Definition read_instruction (b : list N) : Z + dinstr :=
  let op := nth 0 b 0 in
  if 15 <=? op then inl (-33)%Z
  else
    let rt := nth 1 b 0 in
    if (rt =? T_IMM) || (rt =? T_PRIM) then inl (-34)%Z
    else match deser_reg rt (le32 b 2) with
         | None => inl (-35)%Z
         | Some r =>
           match deser_reg (nth 6 b 0) (le32 b 7) with
           | None => inl (-36)%Z
           | Some l =>
             match deser_reg (nth 11 b 0) (le32 b 12) with
             | None => inl (-37)%Z
             | Some rr => inr (mkDInstr op r l rr)
             end
           end
         end.

(* ---------- per-connection state ---------- *)

Record prims := mkPrims {
  p_bytes_acked : N; p_packets_acked : N; p_bytes_misordered : N; p_packets_misordered : N;
  p_ecn_bytes : N; p_ecn_packets : N; p_lost_pkts_sample : N; p_was_timeout : N;
  p_rtt_sample_us : N; p_rate_outgoing : N; p_rate_incoming : N; p_bytes_in_flight : N;
  p_packets_in_flight : N; p_snd_cwnd : N; p_snd_rate : N; p_bytes_pending : N
}.
Definition prims0 : prims := mkPrims 0 0 0 0 0 0 0 0 0 0 0 0 0 0 0 0.

Record regs := mkRegs {
  r_report : list N;    (* 110 *)
  r_control : list N;   (* 110 *)
  r_impl : list N;      (* 6 *)
  r_tmp : list N;       (* 8 *)
  r_local : list N      (* 8 *)
}.
Definition regs0 : regs :=
  mkRegs (repeat 0 110) (repeat 0 110) (repeat 0 6) (repeat 0 8) (repeat 0 8).

Fixpoint upd {A} (l : list A) (i : nat) (v : A) : list A :=
  match l, i with
  | [], _ => []
  | _ :: r, O => v :: r
  | x :: r, S k => x :: upd r k v
  end.

Definition getn (l : list N) (i : N) : N := nth (N.to_nat i) l 0.
Definition setn (l : list N) (i : N) (v : N) : list N :=
  if i <? N.of_nat (length l) then upd l (N.to_nat i) v else l.

Record conn := mkConn {
  c_index : N;
  c_sent_create : bool;
  c_time_zero : N;                    (* implicit_time_zero *)
  c_prog : N;                         (* program_index *)
  c_staged : option N;                (* staged_program_index *)
  c_regs : regs;
  c_pend_ctl : list (option N);       (* 110 pending control updates *)
  c_pend_cwnd : option N;
  c_pend_rate : option N;
  c_prims : prims
}.

Record dpstate := mkDp {
  d_clock : N;
  d_time_zero : N;
  d_progs : list dprog;               (* the program table, slot order *)
  d_conn : option conn                (* the driver uses one connection *)
}.

Inductive devent := DSetCwnd (v : N) | DSetRate (v : N) | DSend (bytes : list N).

(* ---------- the register machine ---------- *)

Definition US_ELAPSED : N := 3.

Definition write_reg (clock : N) (c : conn) (value : N) (r : dreg) : conn :=
  let rg := c_regs c in
  let t := dr_type r in let i := dr_index r in
  let set_regs rg' := mkConn (c_index c) (c_sent_create c) (c_time_zero c) (c_prog c) (c_staged c) rg'
                             (c_pend_ctl c) (c_pend_cwnd c) (c_pend_rate c) (c_prims c) in
  if (t =? T_NVREP) || (t =? T_VREP) then
    set_regs (mkRegs (setn (r_report rg) i value) (r_control rg) (r_impl rg) (r_tmp rg) (r_local rg))
  else if t =? T_TMP then
    set_regs (mkRegs (r_report rg) (r_control rg) (r_impl rg) (setn (r_tmp rg) i value) (r_local rg))
  else if t =? T_LOCAL then
    set_regs (mkRegs (r_report rg) (r_control rg) (r_impl rg) (r_tmp rg) (setn (r_local rg) i value))
  else if t =? T_IMPL then
    if (i =? 0) || (i =? 4) || (i =? 5) || (i =? 2) || (i =? 1) then
      set_regs (mkRegs (r_report rg) (r_control rg) (setn (r_impl rg) i value) (r_tmp rg) (r_local rg))
    else if i =? US_ELAPSED then
      mkConn (c_index c) (c_sent_create c) (wrap64 (clock + W64 - value)) (c_prog c) (c_staged c)
             (mkRegs (r_report rg) (r_control rg) (setn (r_impl rg) US_ELAPSED value) (r_tmp rg) (r_local rg))
             (c_pend_ctl c) (c_pend_cwnd c) (c_pend_rate c) (c_prims c)
    else c
  else if (t =? T_VCTL) || (t =? T_NVCTL) then
    set_regs (mkRegs (r_report rg) (setn (r_control rg) i value) (r_impl rg) (r_tmp rg) (r_local rg))
  else c.

Definition read_prim (clock tz : N) (p : prims) (i : N) : N :=
  if i =? 0 then p_bytes_acked p
  else if i =? 6 then p_packets_acked p
  else if i =? 1 then p_bytes_misordered p
  else if i =? 7 then p_packets_misordered p
  else if i =? 2 then p_ecn_bytes p
  else if i =? 3 then p_ecn_packets p
  else if i =? 4 then p_lost_pkts_sample p
  else if i =? 14 then p_was_timeout p
  else if i =? 13 then (if p_rtt_sample_us p =? 0 then INF32 else p_rtt_sample_us p)
  else if i =? 12 then p_rate_outgoing p
  else if i =? 11 then p_rate_incoming p
  else if i =? 8 then p_bytes_in_flight p
  else if i =? 10 then p_packets_in_flight p
  else if i =? 5 then wrap64 (clock + W64 - tz)
  else if i =? 9 then p_bytes_pending p
  else 0.

Definition read_reg (clock tz : N) (c : conn) (r : dreg) : N :=
  let rg := c_regs c in
  let t := dr_type r in let i := dr_index r in
  if t =? T_IMM then dr_value r
  else if (t =? T_NVREP) || (t =? T_VREP) then getn (r_report rg) i
  else if (t =? T_NVCTL) || (t =? T_VCTL) then getn (r_control rg) i
  else if t =? T_TMP then getn (r_tmp rg) i
  else if t =? T_LOCAL then getn (r_local rg) i
  else if t =? T_PRIM then read_prim clock tz (c_prims c) i
  else if t =? T_IMPL then getn (r_impl rg) i
  else 0.

Definition dif32 (l r : N) : N :=
  if l <? r then r - l else (INF32 - l) + r.

Definition maxwrap (a b : N) : N :=
  let a32 := a mod W32 in let b32 := b mod W32 in
  let l2r := dif32 a32 b32 mod W32 in
  let r2l := dif32 b32 a32 mod W32 in
  if a =? 0 then b else if b =? 0 then a
  else if r2l <? l2r then a32 else b32.

Definition ewma (a b c : N) : N :=
  let old := wrap64 (a * b) in
  let nv := wrap64 (wrap64 (10 + W64 - a) * c) in
  if b =? 0 then c else wrap64 (old + nv) / 10.

(* process_instruction: the error code on an arithmetic fault *)
Definition exec_instr (clock tz : N) (c : conn) (i : dinstr) : Z + conn :=
  let a1 := read_reg clock tz c (di_left i) in
  let a2 := read_reg clock tz c (di_right i) in
  let wr v := inr (write_reg clock c v (di_ret i)) in
  let op := di_op i in
  if op =? 0 then let r := wrap64 (a1 + a2) in if r <? a1 then inl (-91)%Z else wr r
  else if op =? 3 then if a2 =? 0 then inl (-92)%Z else wr (a1 / a2)
  else if op =? 4 then wr (if a1 =? a2 then 1 else 0)
  else if op =? 5 then wr (ewma a1 (read_reg clock tz c (di_ret i)) a2)
  else if op =? 6 then wr (if a2 <? a1 then 1 else 0)
  else if op =? 8 then wr (if a1 <? a2 then 1 else 0)
  else if op =? 9 then wr (if a2 <? a1 then a1 else a2)
  else if op =? 11 then wr (if a1 <? a2 then a1 else a2)
  else if op =? 12 then let r := wrap64 (a1 * a2) in if (r <? a1) && (0 <? a2) then inl (-93)%Z else wr r
  else if op =? 14 then let r := wrap64 (a1 + W64 - a2) in if a1 <? r then inl (-94)%Z else wr r
  else if op =? 10 then wr (maxwrap a1 a2)
  else if op =? 7 then (if a1 =? 0 then inr c else wr a2)
  else if op =? 13 then (if a1 =? 0 then wr a2 else inr c)
  else if op =? 1 then wr a2
  else inr c.     (* DEF (2) and unknown: nothing *)

(* a run of instructions: the error code and the state at the fault, or the final state *)
Fixpoint exec_range (clock tz : N) (c : conn) (is : list dinstr) : (Z * conn) + conn :=
  match is with
  | [] => inr c
  | i :: r => match exec_instr clock tz c i with
              | inl e => inl (e, c)
              | inr c' => exec_range clock tz c' r
              end
  end.

Definition slice_instrs (is : list dinstr) (start n : N) : list dinstr :=
  firstn (N.to_nat n) (skipn (N.to_nat start) is).

Definition flag_of (c : conn) : N := getn (r_impl (c_regs c)) 0.

Definition process_expression (clock tz : N) (p : dprog) (c : conn) (x : dexpr) : (Z * conn) + conn :=
  match exec_range clock tz c (slice_instrs (dp_instrs p) (dx_cond_start x) (dx_num_cond x)) with
  | inl e => inl e
  | inr c1 =>
    if flag_of c1 =? 0 then inr c1
    else exec_range clock tz c1 (slice_instrs (dp_instrs p) (dx_event_start x) (dx_num_event x))
  end.

Fixpoint run_exprs (clock tz : N) (p : dprog) (c : conn) (xs : list dexpr) : (Z * conn) + conn :=
  match xs with
  | [] => inr c
  | x :: r =>
    match process_expression clock tz p c x with
    | inl e => inl e
    | inr c1 =>
      if negb (flag_of c1 =? 0) && (getn (r_impl (c_regs c1)) 1 =? 0) then inr c1
      else run_exprs clock tz p c1 r
    end
  end.

(* reset_state: walk the DEF preamble; returns the connection and num_to_return *)
Fixpoint reset_walk (clock : N) (c : conn) (is : list dinstr) (ntr : N) : conn * option N :=
  match is with
  | [] => (c, None)          (* only DEFs: num_to_return is left as it was *)
  | i :: r =>
    if di_op i =? 2 then
      let t := dr_type (di_left i) in
      if negb ((t =? T_NVREP) || (t =? T_VREP) || (t =? T_VCTL)) then reset_walk clock c r ntr
      else
        let ntr' := if t =? T_VCTL then ntr else (ntr + 1) mod 256 in
        if t =? T_NVREP then reset_walk clock c r ntr'
        else
          let v := if dr_value (di_right i) =? 1073741823 then INF32 else dr_value (di_right i) in
          reset_walk clock (write_reg clock c v (di_left i)) r ntr'
    else (c, Some ntr)
  end.

Fixpoint init_walk (clock : N) (c : conn) (is : list dinstr) : conn :=
  match is with
  | [] => c
  | i :: r =>
    if di_op i =? 2 then
      let t := dr_type (di_left i) in
      if negb ((t =? T_NVCTL) || (t =? T_NVREP)) then init_walk clock c r
      else
        let v := if dr_value (di_right i) =? 1073741823 then INF32 else dr_value (di_right i) in
        init_walk clock (write_reg clock c v (di_left i)) r
    else c
  end.

Fixpoint lookup_prog (ps : list dprog) (idx : N) : option dprog :=
  match ps with
  | [] => None
  | p :: r => if (dp_index p =? idx) && negb (idx =? 0) then Some p else lookup_prog r idx
  end.

Fixpoint set_prog (ps : list dprog) (p' : dprog) : list dprog :=
  match ps with
  | [] => []
  | p :: r => if dp_index p =? dp_index p' then p' :: r else p :: set_prog r p'
  end.

Definition with_regs (c : conn) (rg : regs) : conn :=
  mkConn (c_index c) (c_sent_create c) (c_time_zero c) (c_prog c) (c_staged c) rg
         (c_pend_ctl c) (c_pend_cwnd c) (c_pend_rate c) (c_prims c).

Definition set_impl (c : conn) (i v : N) : conn :=
  let rg := c_regs c in
  with_regs c (mkRegs (r_report rg) (r_control rg) (setn (r_impl rg) i v) (r_tmp rg) (r_local rg)).

(* write_measure_msg *)
Definition measure_bytes (sid uid : N) (fields : list N) (n : N) : list N :=
  ser_header 1 ((16 + 8 * n) mod 65536) sid ++ enc_le 4 uid ++ enc_le 4 n ++
  enc_le_list 8 (firstn (N.to_nat n) fields).

(* state_machine *)
Definition state_machine (d : dpstate) (c : conn) : Z * dpstate * conn * list devent :=
  match lookup_prog (d_progs d) (c_prog c) with
  | None => ((-96)%Z, d, c, [])
  | Some p =>
    let clock := d_clock d in
    let c0 := set_impl (set_impl (set_impl c 0 0) 1 0) 2 0 in
    let c1 := set_impl c0 US_ELAPSED (wrap64 (clock + W64 - c_time_zero c0)) in
    match run_exprs clock (d_time_zero d) p c1 (dp_exprs p) with
    | inl (e, cf) => (e, d, cf, [])      (* the registers modified up to the fault are kept *)
    | inr c2 =>
      let cw := getn (r_impl (c_regs c2)) 4 in
      let rt := getn (r_impl (c_regs c2)) 5 in
      let ev1 := (if 0 <? cw then [DSetCwnd (cw mod W32)] else []) ++
                 (if negb (rt =? 0) then [DSetRate (rt mod W32)] else []) in
      if negb (getn (r_impl (c_regs c2)) 2 =? 0) then
        let msg := measure_bytes (c_index c2) (dp_uid p) (r_report (c_regs c2)) (dp_num_to_return p) in
        let '(c3, ntr) := reset_walk clock c2 (dp_instrs p) 0 in
        let p' := match ntr with
                  | Some n => mkDProg (dp_index p) (dp_uid p) (dp_exprs p) (dp_instrs p) n
                  | None => p end in
        (0%Z, mkDp (d_clock d) (d_time_zero d) (set_prog (d_progs d) p') (d_conn d), c3, ev1 ++ [DSend msg])
      else (0%Z, d, c2, ev1)
    end
  end.

Fixpoint apply_pending_ctl (ctl : list N) (pend : list (option N)) : list N :=
  match ctl, pend with
  | x :: r, Some v :: pr => v :: apply_pending_ctl r pr
  | x :: r, None :: pr => x :: apply_pending_ctl r pr
  | l, _ => l
  end.

(* write_create_msg *)
Definition create_bytes (sid cwnd mss : N) (alg : list N) : list N :=
  ser_header 0 96 sid ++ enc_le 4 cwnd ++ enc_le 4 mss ++ enc_le 4 1 ++ enc_le 4 2 ++ enc_le 4 3 ++ enc_le 4 4 ++
  firstn 64 (alg ++ repeat 0 64).

(* ccp_invoke *)
Definition invoke (d : dpstate) : Z * dpstate * list devent :=
  match d_conn d with
  | None => ((-12)%Z, d, [])
  | Some c =>
    if negb (c_sent_create c) then (0%Z, d, [])     (* not reached by the driver: create always succeeds *)
    else
      let c1 := set_impl (set_impl c 4 (p_snd_cwnd (c_prims c))) 5 (p_snd_rate (c_prims c)) in
      (* staged program change *)
      let '(d1, c2) :=
        match c_staged c1 with
        | None => (d, c1)
        | Some idx =>
          let cc := mkConn (c_index c1) (c_sent_create c1) (c_time_zero c1) idx None (c_regs c1)
                           (c_pend_ctl c1) (c_pend_cwnd c1) (c_pend_rate c1) (c_prims c1) in
          match lookup_prog (d_progs d) idx with
          | None => (d, mkConn (c_index cc) (c_sent_create cc) (d_clock d) idx None
                               (let rg := c_regs cc in mkRegs (r_report rg) (r_control rg) (setn (r_impl rg) US_ELAPSED 0) (r_tmp rg) (r_local rg))
                               (c_pend_ctl cc) (c_pend_cwnd cc) (c_pend_rate cc) (c_prims cc))
          | Some p =>
            let '(ca, ntr) := reset_walk (d_clock d) cc (dp_instrs p) 0 in
            let p' := match ntr with
                      | Some n => mkDProg (dp_index p) (dp_uid p) (dp_exprs p) (dp_instrs p) n
                      | None => p end in
            let cb := init_walk (d_clock d) ca (dp_instrs p) in
            (* reset_time *)
            let cr := mkConn (c_index cb) (c_sent_create cb) (d_clock d) (c_prog cb) None
                             (let rg := c_regs cb in mkRegs (r_report rg) (r_control rg) (setn (r_impl rg) US_ELAPSED 0) (r_tmp rg) (r_local rg))
                             (c_pend_ctl cb) (c_pend_cwnd cb) (c_pend_rate cb) (c_prims cb) in
            (mkDp (d_clock d) (d_time_zero d) (set_prog (d_progs d) p') (d_conn d), cr)
          end
        end in
      (* staged field updates *)
      let rg := c_regs c2 in
      let rg1 := mkRegs (r_report rg) (apply_pending_ctl (r_control rg) (c_pend_ctl c2)) (r_impl rg) (r_tmp rg) (r_local rg) in
      let '(rg2, e1) := match c_pend_cwnd c2 with
                        | Some v => (mkRegs (r_report rg1) (r_control rg1) (setn (r_impl rg1) 4 v) (r_tmp rg1) (r_local rg1),
                                     if negb (v =? 0) then [DSetCwnd (v mod W32)] else [])
                        | None => (rg1, [])
                        end in
      let '(rg3, e2) := match c_pend_rate c2 with
                        | Some v => (mkRegs (r_report rg2) (r_control rg2) (setn (r_impl rg2) 5 v) (r_tmp rg2) (r_local rg2),
                                     if negb (v =? 0) then [DSetRate (v mod W32)] else [])
                        | None => (rg2, [])
                        end in
      let c3 := mkConn (c_index c2) (c_sent_create c2) (c_time_zero c2) (c_prog c2) (c_staged c2) rg3
                       (repeat None 110) None None (c_prims c2) in
      let '(rc, d2, c4, evs) := state_machine d1 c3 in
      (rc, mkDp (d_clock d2) (d_time_zero d2) (d_progs d2) (Some c4), e1 ++ e2 ++ evs)
  end.

(* ---------- messages from CCP ---------- *)

Fixpoint read_instrs (n : nat) (b : list N) : Z + list dinstr :=
  match n with
  | O => inr []
  | S k => match read_instruction (firstn 16 b) with
           | inl e => inl e
           | inr i => match read_instrs k (skipn 16 b) with
                      | inl e => inl e
                      | inr r => inr (i :: r)
                      end
           end
  end.

Fixpoint read_exprs (n : nat) (b : list N) : list dexpr :=
  match n with
  | O => []
  | S k => mkDExpr (le32 b 0) (le32 b 4) (le32 b 8) (le32 b 12) :: read_exprs k (skipn 16 b)
  end.

(* stage_update on 13-byte UpdateField records *)
Fixpoint stage_updates (n : nat) (b : list N) (c : conn) : Z + conn :=
  match n with
  | O => inr c
  | S k =>
    let t := nth 0 b 0 in let i := le32 b 1 in let v := le64 b 5 in
    let c' := if (t =? T_NVCTL) || (t =? T_VCTL) then
                Some (mkConn (c_index c) (c_sent_create c) (c_time_zero c) (c_prog c) (c_staged c) (c_regs c)
                             (upd (c_pend_ctl c) (N.to_nat i) (Some v)) (c_pend_cwnd c) (c_pend_rate c) (c_prims c))
              else if t =? T_IMPL then
                Some (if i =? 4 then mkConn (c_index c) (c_sent_create c) (c_time_zero c) (c_prog c) (c_staged c) (c_regs c)
                                           (c_pend_ctl c) (Some v) (c_pend_rate c) (c_prims c)
                      else if i =? 5 then mkConn (c_index c) (c_sent_create c) (c_time_zero c) (c_prog c) (c_staged c) (c_regs c)
                                                 (c_pend_ctl c) (c_pend_cwnd c) (Some v) (c_prims c)
                      else c)
              else None in
    match c' with
    | None => inl (-53)%Z
    | Some c1 => stage_updates k (skipn 13 b) c1
    end
  end.

Fixpoint lookup_uid (ps : list dprog) (uid : N) : option N :=
  match ps with
  | [] => None
  | p :: r => if negb (dp_index p =? 0) && (dp_uid p =? uid) then Some (dp_index p) else lookup_uid r uid
  end.

Definition MAX_PROGRAMS : nat := 10.

(* ccp_read_msg: (return code, new state) *)
Definition read_msg (d : dpstate) (buf : list N) : Z * dpstate :=
  let typ := le16 buf 0 in
  let len := le16 buf 2 in
  let sid := le32 buf 4 in
  if negb ((typ =? 2) || (typ =? 3) || (typ =? 4)) then ((-32)%Z, d)
  else if N.of_nat (length buf) <? len then ((-22)%Z, d)
  else if 32678 <? len then ((-23)%Z, d)
  else
    let body := skipn 8 buf in
    if typ =? 2 then
      let uid := le32 body 0 in let ne := le32 body 4 in let ni := le32 body 8 in
      let progs := if uid =? 1 then [] else d_progs d in
      (* the table is full when the free slot found is the last one *)
      if Nat.leb (MAX_PROGRAMS - 1) (length progs) then
        ((-81)%Z, mkDp (d_clock d) (d_time_zero d) progs (d_conn d))
      else
        let rest := skipn 12 body in
        let xs := read_exprs (N.to_nat ne) rest in
        match read_instrs (N.to_nat ni) (skipn (16 * N.to_nat ne) rest) with
        | inl e => (e, mkDp (d_clock d) (d_time_zero d)
                            (progs ++ [mkDProg (N.of_nat (S (length progs))) uid xs [] 0]) (d_conn d))
        | inr is => (0%Z, mkDp (d_clock d) (d_time_zero d)
                                (progs ++ [mkDProg (N.of_nat (S (length progs))) uid xs is 0]) (d_conn d))
        end
    else
      match d_conn d with
      | None => ((-71)%Z, d)
      | Some c =>
        if negb (sid mod 65536 =? c_index c) || (sid mod 65536 =? 0) || (4 <? sid mod 65536) then ((-71)%Z, d)
        else if typ =? 3 then
          (* num_updates = (u32)*buf : the first byte, as a signed char *)
          let b0 := nth 0 body 0 in
          let n := if b0 <? 128 then b0 else W32 - 256 + b0 in
          if 222 <? n then ((-52)%Z, d)
          else match stage_updates (N.to_nat n) (skipn 4 body) c with
               | inl e => (e, d)    (* updates staged before the failing one are kept: not compared *)
               | inr c' => (0%Z, mkDp (d_clock d) (d_time_zero d) (d_progs d) (Some c'))
               end
        else
          let uid := le32 body 0 in let n := le32 body 4 in
          if 222 <? n then ((-62)%Z, d)
          else match lookup_uid (d_progs d) uid with
               | None => (8%Z, d)       (* returns sizeof(struct ChangeProgMsg) *)
               | Some idx =>
                 let c1 := mkConn (c_index c) (c_sent_create c) (c_time_zero c) (c_prog c) (Some idx) (c_regs c)
                                  (repeat None 110) None None (c_prims c) in
                 match stage_updates (N.to_nat n) (skipn 8 body) c1 with
                 | inl e => (e, mkDp (d_clock d) (d_time_zero d) (d_progs d) (Some c1))
                 | inr c' => (0%Z, mkDp (d_clock d) (d_time_zero d) (d_progs d) (Some c'))
                 end
               end
      end.

Definition dp_init : dpstate := mkDp 1000 1000 [] None.

Definition conn_start (d : dpstate) (cwnd mss : N) (alg : list N) : dpstate * list devent :=
  let c := mkConn 1 true (d_time_zero d) 0 None regs0 (repeat None 110) None None prims0 in
  (mkDp (d_clock d) (d_time_zero d) (d_progs d) (Some c), [DSend (create_bytes 1 cwnd mss alg)]).
