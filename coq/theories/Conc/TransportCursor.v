(* C19 + C08 composed: the bundled transport (Conc/Transport.v) feeding Backend::next
   (Recv/Cursor.v).  For every interleaving of sends and receive calls, what the receive path
   yields is what the datagrams received so far decode to, one datagram at a time and in
   sending order: message boundaries survive from the sender's send to the decoder. *)
From Portus Require Import Transport.
From Portus Require Import Cursor CursorFacts.

Definition ev_of (r : rres) : ev :=
  match r with
  | RGot s d => Dgram (N.of_nat s) d
  | RErr => RecvErr
  end.

(* the receive calls of a run, in order, as the scripted transport the cursor model reads *)
Fixpoint recv_trace (bufsize : nat) (st : tstate) (ops : list top) : list ev :=
  match ops with
  | [] => []
  | TSend s d :: r => recv_trace bufsize (t_step bufsize st (TSend s d)) r
  | TRecv :: r => ev_of (fst (t_recv bufsize (t_queue st))) :: recv_trace bufsize (t_step bufsize st TRecv) r
  end.

(* the datagrams those calls returned *)
Fixpoint gots (bufsize : nat) (st : tstate) (ops : list top) : list dgram :=
  match ops with
  | [] => []
  | TSend s d :: r => gots bufsize (t_step bufsize st (TSend s d)) r
  | TRecv :: r =>
    match fst (t_recv bufsize (t_queue st)) with
    | RGot s d => (s, d) :: gots bufsize (t_step bufsize st TRecv) r
    | RErr => gots bufsize (t_step bufsize st TRecv) r
    end
  end.

Definition dg (sd : dgram) : ev := Dgram (N.of_nat (fst sd)) (snd sd).

Lemma got_gots bufsize ops : forall st,
  t_got (fold_left (t_step bufsize) ops st) = t_got st ++ gots bufsize st ops.
Proof.
  induction ops as [|o r IH]; intros st; cbn [fold_left gots].
  - rewrite app_nil_r. reflexivity.
  - destruct o as [s d|].
    + rewrite IH. reflexivity.
    + rewrite IH. cbn [t_step]. destruct (t_recv bufsize (t_queue st)) as [[s d|] q]; cbn [fst t_got].
      * rewrite <- app_assoc. reflexivity.
      * reflexivity.
Qed.

Lemma spec_trace bufsize ops : forall st,
  spec_run bufsize (recv_trace bufsize st ops) = spec_run bufsize (map dg (gots bufsize st ops)).
Proof.
  induction ops as [|o r IH]; intros st; cbn [recv_trace gots]; [reflexivity|].
  destruct o as [s d|]; [apply IH|].
  destruct (t_recv bufsize (t_queue st)) as [[s d|] q] eqn:E; cbn [fst ev_of map].
  - unfold dg at 1. cbn [fst snd spec_run]. rewrite IH. reflexivity.
  - cbn [spec_run]. apply IH.
Qed.

(* the receive path over the transport: never a panic, and exactly the messages of the datagrams
   received, each decoded on its own, tagged with its sender *)
Theorem receive_path_over_transport bufsize ops :
  let st := t_run bufsize ops in
  run_script bufsize (recv_trace bufsize (mkT [] [] []) ops) = Ok (spec_run bufsize (map dg (t_got st))).
Proof.
  cbn zeta. rewrite run_script_spec. f_equal. rewrite spec_trace. unfold t_run.
  rewrite got_gots. reflexivity.
Qed.

(* with exactly-once FIFO delivery: the datagrams behind those messages are a prefix of what was sent *)
Corollary receive_path_sees_sent_prefix (bufsize : nat) (ops : list top) :
  Forall (fun o => match o with TSend _ d => (length d <= bufsize)%nat | TRecv => True end) ops ->
  let st := t_run bufsize ops in
  run_script bufsize (recv_trace bufsize (mkT [] [] []) ops) = Ok (spec_run bufsize (map dg (t_got st))) /\
  exists pending, t_sent st = t_got st ++ pending.
Proof.
  intros H st. split; [apply receive_path_over_transport|].
  exists (t_queue st). symmetry. apply fifo_exactly_once. exact H.
Qed.

(* non-vacuity: two senders, three ready messages, a receive on an empty queue in between *)
Definition ex_rdy : list N := [5; 0; 12; 0; 0; 0; 0; 0; 7; 0; 0; 0]%N.
Definition ex_ops : list top := [TSend 1 ex_rdy; TSend 2 ex_rdy; TRecv; TRecv; TRecv; TSend 1 ex_rdy; TRecv].
Example ex_receive_path :
  run_script 1024 (recv_trace 1024 (mkT [] [] []) ex_ops) = Ok [(MRdy (mkReady 7), 1%N); (MRdy (mkReady 7), 2%N); (MRdy (mkReady 7), 1%N)] /\
  t_queue (t_run 1024 ex_ops) = [].
Proof. vm_compute. split; reflexivity. Qed.
