(* C17: program uids from a shared counter, under every interleaving of concurrent compilations.
   The atomic operations one uid allocation performs are NOT written here: they are generated on
   every run from the body of the get_next_uid! macro in src/lang/datapath.rs (gen/UidOps.v). *)
From Coq Require Export List NArith Bool Lia.
From Coq Require Import FinFun.
Export ListNotations.
Open Scope N_scope.

Inductive aop :=
| FetchAdd      (* atomic read-modify-write: counter += 1, result = new value *)
| Load          (* read the counter into a thread-local *)
| Store         (* counter := local + 1, result = local + 1 *)
| Unknown.      (* the translator did not recognise the code *)

Record thread := mkTh { th_pc : list aop; th_local : N; th_left : nat }.

Record sys := mkSys { s_counter : N; s_threads : list thread; s_out : list N }.

Definition WRAP : N := 4294967296.

Fixpoint upd_th (l : list thread) (i : nat) (t : thread) : list thread :=
  match l, i with
  | [], _ => []
  | _ :: r, O => t :: r
  | x :: r, S k => x :: upd_th r k t
  end.

(* thread tid performs its next atomic operation; a thread with nothing left does nothing *)
Definition step (ops : list aop) (s : sys) (tid : nat) : sys :=
  match nth_error (s_threads s) tid with
  | None => s
  | Some t =>
    (* start the next compilation if the current one is finished *)
    let t := match th_pc t, th_left t with
             | [], S k => mkTh ops (th_local t) k
             | _, _ => t
             end in
    match th_pc t with
    | [] => s
    | FetchAdd :: pc =>
      let v := (s_counter s + 1) mod WRAP in
      mkSys v (upd_th (s_threads s) tid (mkTh pc (th_local t) (th_left t))) (s_out s ++ [v])
    | Load :: pc =>
      mkSys (s_counter s) (upd_th (s_threads s) tid (mkTh pc (s_counter s) (th_left t))) (s_out s)
    | Store :: pc =>
      let v := (th_local t + 1) mod WRAP in
      mkSys v (upd_th (s_threads s) tid (mkTh pc (th_local t) (th_left t))) (s_out s ++ [v])
    | Unknown :: pc => s
    end
  end.

Definition run (ops : list aop) (s : sys) (schedule : list nat) : sys := fold_left (step ops) schedule s.

Definition init_sys (nthreads m : nat) : sys :=
  mkSys 0 (repeat (mkTh [] 0 m) nthreads) [].

(* ---------- the atomic implementation: uids are 1, 2, 3, ... in schedule order ---------- *)

Lemma step_fetchadd s tid :
  let s' := step [FetchAdd] s tid in
  (forall t, In t (s_threads s) -> th_pc t = []) ->
  (forall t, In t (s_threads s') -> th_pc t = []) /\
  (s_out s' = s_out s /\ s_counter s' = s_counter s \/
   s_out s' = s_out s ++ [(s_counter s + 1) mod WRAP] /\ s_counter s' = (s_counter s + 1) mod WRAP).
Proof.
  intros s' Hpc. unfold s', step.
  destruct (nth_error (s_threads s) tid) as [t|] eqn:E; [|split; auto].
  pose proof (Hpc t (nth_error_In _ _ E)) as Ht.
  destruct t as [pc loc left]. cbn [th_pc] in Ht. subst pc. cbn [th_pc th_left th_local].
  destruct left as [|k]; cbn [th_pc th_left th_local]; [split; auto|].
  split; [|right; auto].
  cbn [s_threads]. intros t' Hin.
  assert (Hupd : forall l i x y, In y (upd_th l i x) -> y = x \/ In y l).
  { induction l as [|a r IH]; intros i x y Hy; cbn [upd_th] in Hy; [contradiction|].
    destruct i; cbn [In] in Hy.
    - destruct Hy as [<-|Hy]; [left; reflexivity|right; right; exact Hy].
    - destruct Hy as [<-|Hy]; [right; left; reflexivity|].
      destruct (IH _ _ _ Hy); [left; assumption|right; right; assumption]. }
  destruct (Hupd _ _ _ _ Hin) as [->|Hin']; [reflexivity|apply Hpc; exact Hin'].
Qed.

Lemma run_fetchadd schedule : forall s,
  (forall t, In t (s_threads s) -> th_pc t = []) ->
  s_counter s + N.of_nat (length schedule) < WRAP ->
  exists k, (k <= length schedule)%nat /\
    s_out (run [FetchAdd] s schedule) = s_out s ++ map (fun i => s_counter s + N.of_nat (S i)) (seq 0 k) /\
    s_counter (run [FetchAdd] s schedule) = s_counter s + N.of_nat k.
Proof.
  induction schedule as [|tid r IH]; intros s Hpc Hlt.
  - exists 0%nat. cbn. rewrite app_nil_r. repeat split; auto. lia.
  - cbn [run fold_left]. destruct (step_fetchadd s tid Hpc) as [Hpc' Hcase].
    cbn [length] in Hlt.
    destruct Hcase as [[Ho Hc]|[Ho Hc]].
    + destruct (IH (step [FetchAdd] s tid) Hpc' ltac:(rewrite Hc; lia)) as (k & Hk & Hout & Hcnt).
      exists k. unfold run in *. rewrite Hout, Hcnt, Ho, Hc. repeat split; auto. cbn [length]. lia.
    + assert (Hm : (s_counter s + 1) mod WRAP = s_counter s + 1) by (apply N.mod_small; lia).
      rewrite Hm in *.
      destruct (IH (step [FetchAdd] s tid) Hpc' ltac:(rewrite Hc; lia)) as (k & Hk & Hout & Hcnt).
      exists (S k). unfold run in *. rewrite Hout, Hcnt, Ho, Hc. repeat split.
      * cbn [length]. lia.
      * rewrite <- app_assoc. f_equal. cbn [seq map app]. f_equal; try lia.
        rewrite <- seq_shift, map_map. apply map_ext. intros i. lia.
      * lia.
Qed.

Lemma nodup_increasing (c : N) k : NoDup (map (fun i => c + N.of_nat (S i)) (seq 0 k)).
Proof.
  apply Injective_map_NoDup; [|apply seq_NoDup].
  intros a b H. lia.
Qed.

(* every schedule of every number of threads and compilations: all uids handed out are distinct
   (as long as fewer than 2^32 - 1 have been handed out) *)
Theorem fetchadd_unique nthreads m schedule : N.of_nat (length schedule) < WRAP - 1 ->
  NoDup (s_out (run [FetchAdd] (init_sys nthreads m) schedule)).
Proof.
  intros Hlt.
  destruct (run_fetchadd schedule (init_sys nthreads m)) as (k & _ & Hout & _).
  - intros t Hin. unfold init_sys in Hin. cbn [s_threads] in Hin. apply repeat_spec in Hin. subst. reflexivity.
  - cbn [init_sys s_counter]. lia.
  - rewrite Hout. cbn [init_sys s_out s_counter app]. apply nodup_increasing.
Qed.

(* ---------- a load followed by a store is not atomic: two threads get the same uid ---------- *)

Theorem load_store_duplicates :
  s_out (run [Load; Store] (init_sys 2 1) [0; 1; 0; 1]%nat) = [1; 1].
Proof. vm_compute. reflexivity. Qed.

(* what the generated operation list must be for the uniqueness theorem to apply *)
Definition is_atomic (ops : list aop) : bool :=
  match ops with [FetchAdd] => true | _ => false end.

Theorem atomic_unique ops : is_atomic ops = true -> forall nthreads m schedule,
  N.of_nat (length schedule) < WRAP - 1 -> NoDup (s_out (run ops (init_sys nthreads m) schedule)).
Proof.
  intros H. destruct ops as [|[| | |] [|]]; try discriminate. exact fetchadd_unique.
Qed.
