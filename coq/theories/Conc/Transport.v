(* C19: the portus-side logic of the two bundled transports over an abstract reliable FIFO
   (crossbeam's unbounded channel / the kernel's AF_UNIX SOCK_DGRAM queue: that those ARE
   reliable FIFOs is an assumption recorded in the trusted base, and what the threaded stress
   runs observe).  send hands an owned copy to the queue; recv pops one datagram, copies it
   into the buffer prefix and returns its length and (Unix) the sender's bound address; a
   datagram that does not fit the buffer is a receive error; non-blocking receive on an empty
   queue is an error. *)
From Coq Require Export List NArith Bool Lia Arith PeanoNat.
Export ListNotations.

Definition dgram := (nat * list N)%type.     (* sender, bytes *)

Inductive top := TSend (s : nat) (d : list N) | TRecv.

Inductive rres := RGot (s : nat) (d : list N) | RErr.

Definition t_recv (bufsize : nat) (q : list dgram) : rres * list dgram :=
  match q with
  | [] => (RErr, [])                               (* nothing pending: an error, not a block *)
  | (s, d) :: r => if Nat.leb (length d) bufsize then (RGot s d, r) else (RErr, r)
  end.

Record tstate := mkT { t_queue : list dgram; t_sent : list dgram; t_got : list dgram }.

Definition t_step (bufsize : nat) (st : tstate) (o : top) : tstate :=
  match o with
  | TSend s d => mkT (t_queue st ++ [(s, d)]) (t_sent st ++ [(s, d)]) (t_got st)
  | TRecv =>
    match t_recv bufsize (t_queue st) with
    | (RGot s d, r) => mkT r (t_sent st) (t_got st ++ [(s, d)])
    | (RErr, r) => mkT r (t_sent st) (t_got st)
    end
  end.

Definition t_run (bufsize : nat) (ops : list top) : tstate :=
  fold_left (t_step bufsize) ops (mkT [] [] []).

Definition fits (bufsize : nat) (st : tstate) : Prop :=
  Forall (fun sd => length (snd sd) <= bufsize) (t_sent st).

(* invariant: what was received followed by what is still queued is exactly what was sent, in
   sending order — nothing lost, duplicated, reordered or altered *)
Lemma t_step_inv bufsize st o :
  (forall s d, o = TSend s d -> length d <= bufsize) -> fits bufsize st ->
  t_got st ++ t_queue st = t_sent st ->
  let st' := t_step bufsize st o in fits bufsize st' /\ t_got st' ++ t_queue st' = t_sent st'.
Proof.
  intros Ho Hf Hinv. destruct o as [s d|]; cbn [t_step].
  - cbn [t_queue t_sent t_got]. split.
    + unfold fits in *. cbn [t_sent]. apply Forall_app. split; [exact Hf|]. constructor; [|constructor].
      cbn. apply (Ho s d eq_refl).
    + rewrite app_assoc, Hinv. reflexivity.
  - unfold t_recv. destruct (t_queue st) as [|[s d] r] eqn:Eq.
    + cbn [t_queue t_sent t_got]. split; [exact Hf|]. rewrite <- Hinv. reflexivity.
    + assert (Hfit : length d <= bufsize).
      { unfold fits in Hf. rewrite <- Hinv in Hf. apply Forall_app in Hf. destruct Hf as [_ Hq].
        inversion Hq; subst. assumption. }
      replace (Nat.leb (length d) bufsize) with true by (symmetry; apply Nat.leb_le; exact Hfit).
      cbn [t_queue t_sent t_got]. split; [exact Hf|]. rewrite <- Hinv, <- app_assoc. reflexivity.
Qed.

Theorem fifo_exactly_once bufsize ops :
  Forall (fun o => match o with TSend _ d => length d <= bufsize | TRecv => True end) ops ->
  let st := t_run bufsize ops in t_got st ++ t_queue st = t_sent st.
Proof.
  intros Hops. unfold t_run.
  assert (H : forall st, fits bufsize st -> t_got st ++ t_queue st = t_sent st ->
                         let st' := fold_left (t_step bufsize) ops st in
                         fits bufsize st' /\ t_got st' ++ t_queue st' = t_sent st').
  { induction Hops as [|o r Ho Hr IH]; intros st Hf Hi; cbn [fold_left]; [auto|].
    destruct (t_step_inv bufsize st o) as [Hf' Hi']; auto.
    - intros s d ->. exact Ho. }
  apply H; [constructor|reflexivity].
Qed.

(* per sender: the datagrams received from s are a prefix of the datagrams s sent, identical in
   bytes and length, boundaries preserved *)
Definition from (s : nat) (l : list dgram) : list (list N) :=
  map snd (filter (fun sd => Nat.eqb (fst sd) s) l).

Corollary per_sender_prefix bufsize ops s :
  Forall (fun o => match o with TSend _ d => length d <= bufsize | TRecv => True end) ops ->
  let st := t_run bufsize ops in
  exists pending, from s (t_sent st) = from s (t_got st) ++ pending.
Proof.
  intros Hops st. pose proof (fifo_exactly_once bufsize ops Hops) as H. fold st in H.
  exists (from s (t_queue st)). unfold from. rewrite <- H, filter_app, map_app. reflexivity.
Qed.

Theorem nonblocking_empty_is_error bufsize : fst (t_recv bufsize []) = RErr.
Proof. reflexivity. Qed.

Theorem oversized_is_error_and_skipped bufsize s d r :
  bufsize < length d -> t_recv bufsize ((s, d) :: r) = (RErr, r).
Proof.
  intros H. unfold t_recv.
  replace (Nat.leb (length d) bufsize) with false by (symmetry; apply Nat.leb_gt; exact H). reflexivity.
Qed.

(* BackendSender::send_msg: the weak reference to the socket is upgraded first *)
Definition send_msg (socket_alive : bool) (send_ok : bool) : bool := socket_alive && send_ok.

Theorem dead_handle_is_error send_ok : send_msg false send_ok = false.
Proof. reflexivity. Qed.
