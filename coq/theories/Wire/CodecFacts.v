(* Proofs about the wire codec model: C04 (totality, progress, typed soundness) *)
From Portus Require Import Codec CodecSpec.
From Coq Require Import ZArith ZifyN ZifyNat ZifyBool.

Lemma le_at_sub k l a b off : (a + off + k <= b)%nat ->
  le_at k (sub l a b) off = le_at k l (a + off).
Proof.
  intros H. unfold le_at. rewrite sub_sub by lia.
  replace (a + (off + k))%nat with (a + off + k)%nat by lia. reflexivity.
Qed.

Lemma get_range_ok l a b r : get_range l a b = Ok r ->
  (a <= b)%nat /\ (b <= length l)%nat /\ r = sub l a b.
Proof.
  unfold get_range. destruct (Nat.leb a b && Nat.leb b (length l)) eqn:E; intros H; try discriminate.
  inversion H; subst. apply andb_true_iff in E. destruct E as [E1 E2].
  apply Nat.leb_le in E1. apply Nat.leb_le in E2. auto.
Qed.

Lemma get_range_not_panic l a b : get_range l a b <> Panic.
Proof. unfold get_range. destruct (_ && _); discriminate. Qed.

(* ---- deserialize ---- *)

Lemma deserialize_ok buf m : deserialize buf = Ok m ->
  (8 <= N.to_nat (r_len m))%nat /\ (N.to_nat (r_len m) <= length buf)%nat /\
  r_typ m = le16 buf 0 /\ r_typ m <= 255 /\ r_len m = le16 buf 2 /\ r_sid m = le32 buf 4 /\
  r_bytes m = sub buf 8 (N.to_nat (r_len m)).
Proof.
  unfold deserialize, deserialize_header.
  destruct (Nat.ltb (length buf) 8) eqn:E8; cbn [bind]; try discriminate.
  destruct (255 <? le16 buf 0) eqn:Et; cbn [bind]; try discriminate.
  destruct (le16 buf 2 <? 8) eqn:El; try discriminate.
  destruct (N.of_nat (length buf) <? le16 buf 2) eqn:Eb; try discriminate.
  unfold slice.
  destruct (Nat.leb 8 (N.to_nat (le16 buf 2)) && Nat.leb (N.to_nat (le16 buf 2)) (length buf)) eqn:Es;
    cbn [bind]; try discriminate.
  intros H; inversion H; subst; cbn [r_len r_typ r_sid r_bytes].
  repeat split; try reflexivity; lia.
Qed.

Lemma deserialize_not_panic buf : deserialize buf <> Panic.
Proof.
  unfold deserialize, deserialize_header.
  destruct (Nat.ltb (length buf) 8) eqn:E8; cbn [bind]; try discriminate.
  destruct (255 <? le16 buf 0) eqn:Et; cbn [bind]; try discriminate.
  destruct (le16 buf 2 <? 8) eqn:El; try discriminate.
  destruct (N.of_nat (length buf) <? le16 buf 2) eqn:Eb; try discriminate.
  unfold slice.
  destruct (Nat.leb 8 (N.to_nat (le16 buf 2)) && Nat.leb (N.to_nat (le16 buf 2)) (length buf)) eqn:Es;
    cbn [bind]; try discriminate.
  exfalso. apply andb_false_iff in Es. lia.
Qed.

(* ---- names ---- *)

Lemma upto_nul_find b : upto_nul b = option_map (fun e => firstn e b) (find_nul b).
Proof.
  induction b as [|x r IH]; cbn [upto_nul find_nul option_map]; [reflexivity|].
  destruct (x =? 0); cbn [option_map firstn]; [reflexivity|].
  rewrite IH. destruct (find_nul r); reflexivity.
Qed.

Lemma decode_name_cstr b o : decode_name b = Ok o -> o = cstr b.
Proof.
  unfold decode_name, cstr. destruct b as [|b0 r]; [intros H; inversion H; reflexivity|].
  rewrite upto_nul_find.
  cbn [find_nul]. destruct (b0 =? 0) eqn:E0.
  - intros H; inversion H. reflexivity.
  - destruct (find_nul r) as [e|]; cbn [option_map].
    + cbn [firstn]. destruct (utf8_valid (b0 :: firstn e r)); intros H; inversion H. reflexivity.
    + intros H; inversion H. reflexivity.
Qed.

Lemma decode_name_not_panic b : decode_name b <> Panic.
Proof.
  unfold decode_name. destruct b as [|b0 r]; [discriminate|].
  destruct (b0 =? 0); [discriminate|].
  destruct (find_nul (b0 :: r)); [|discriminate].
  destruct (utf8_valid _); discriminate.
Qed.

Lemma eq_optbytes_refl o : eq_optbytes o o = true.
Proof.
  destruct o as [x|]; cbn; [|reflexivity].
  destruct (list_eq_dec N.eq_dec x x); congruence.
Qed.

(* ---- u64 lists ---- *)

Lemma u64s_of_spec buf : forall k fuel off,
  (k <= fuel)%nat -> (off + 8 * k <= length buf)%nat ->
  let fs := u64s_of fuel (sub buf off (off + 8 * k)) in
  length fs = k /\ le64s_at buf off fs = true.
Proof.
  induction k as [|k IH]; intros fuel off Hf Hl.
  - cbn zeta. replace (off + 8 * 0)%nat with off by lia.
    unfold sub. rewrite Nat.sub_diag, firstn_O.
    destruct fuel; cbn; auto.
  - destruct fuel as [|fuel]; [lia|].
    cbn zeta. cbn [u64s_of].
    assert (Hlen : length (sub buf off (off + 8 * S k)) = (8 * S k)%nat).
    { rewrite sub_length by lia. lia. }
    destruct (sub buf off (off + 8 * S k)) as [|x xs] eqn:Es; [cbn [length] in Hlen; lia|].
    rewrite <- Es.
    assert (Hsk : skipn 8 (sub buf off (off + 8 * S k)) = sub buf (off + 8) (off + 8 + 8 * k)).
    { unfold sub. rewrite skipn_firstn_comm, skipn_skipn'. f_equal. lia. }
    assert (Hfi : firstn 8 (sub buf off (off + 8 * S k)) = sub buf off (off + 8)).
    { unfold sub. rewrite firstn_firstn. f_equal. lia. }
    rewrite Hsk, Hfi.
    specialize (IH fuel (off + 8)%nat ltac:(lia) ltac:(lia)). cbn zeta in IH.
    destruct IH as [IH1 IH2].
    cbn [length le64s_at]. split; [lia|].
    rewrite IH2. unfold le64, le_at. rewrite N.eqb_refl. reflexivity.
Qed.

(* ---- from_raw_msg on a deserialized raw message ---- *)

Section Typed.
  Variable buf : list N.
  Variable m : raw.
  Hypothesis Hd : deserialize buf = Ok m.

  Let n := N.to_nat (r_len m).

  Lemma typed_create c : create_from_raw m = Ok c -> r_typ m = T_CREATE ->
    typed_sound buf (MCr c) n = true.
  Proof.
    intros Hc Ht.
    destruct (deserialize_ok _ _ Hd) as (H8 & Hle & Htyp & Ht255 & Hlen & Hsid & Hbytes).
    fold n in H8, Hle, Hbytes.
    unfold create_from_raw, get_u32s, get_bytes in Hc. rewrite Ht in Hc.
    cbn [N.eqb T_CREATE T_MEASURE T_UPDATE orb u32s_width] in Hc.
    change (0 =? 0) with true in Hc. cbn [orb] in Hc.
    apply bind_ok_inv in Hc. destruct Hc as (u & Hu & Hc).
    apply get_range_ok in Hu. destruct Hu as (_ & Hul & Hu).
    destruct (r_len m <? 8) eqn:E8; [lia|].
    apply bind_ok_inv in Hc. destruct Hc as (b & Hb & Hc).
    apply get_range_ok in Hb. destruct Hb as (Hb1 & Hb2 & Hb).
    apply bind_ok_inv in Hc. destruct Hc as (alg & Halg & Hc).
    inversion Hc; subst c; clear Hc.
    apply decode_name_cstr in Halg.
    rewrite Hbytes in Hul, Hb2, Hb, Hu. rewrite sub_length in Hul, Hb2 by lia.
    unfold HDR_LENGTH in *. fold n in Hb, Hb1, Hb2.
    cbn [typed_sound c_sid c_init_cwnd c_mss c_src_ip c_src_port c_dst_ip c_dst_port c_alg].
    assert (Hb' : b = sub buf 32 n).
    { rewrite Hb. rewrite sub_sub by lia. f_equal; lia. }
    rewrite Hu. unfold le32 in *.
    rewrite !le_at_sub by lia.
    cbn [plus].
    rewrite Halg, Hb', eq_optbytes_refl.
    rewrite <- Htyp, Ht, <- Hlen, <- Hsid.
    unfold T_CREATE. rewrite !N.eqb_refl.
    replace (N.of_nat n =? r_len m) with true by (symmetry; apply N.eqb_eq; lia).
    replace (Nat.leb 32 n) with true by (symmetry; apply Nat.leb_le; lia).
    replace (Nat.leb n (length buf)) with true by (symmetry; apply Nat.leb_le; lia).
    reflexivity.
  Qed.

  Lemma typed_measure x : measure_from_raw m = Ok x -> r_typ m = T_MEASURE ->
    typed_sound buf (MMs x) n = true.
  Proof.
    intros Hc Ht.
    destruct (deserialize_ok _ _ Hd) as (H8 & Hle & Htyp & Ht255 & Hlen & Hsid & Hbytes).
    fold n in H8, Hle, Hbytes.
    unfold measure_from_raw, get_u32s, get_bytes in Hc. rewrite Ht in Hc.
    change (u32s_width T_MEASURE) with 8%nat in Hc.
    change ((T_MEASURE =? T_CREATE) || (T_MEASURE =? T_MEASURE) || (T_MEASURE =? T_UPDATE))
      with true in Hc.
    cbv iota in Hc.
    apply bind_ok_inv in Hc. destruct Hc as (u & Hu & Hc).
    apply get_range_ok in Hu. destruct Hu as (_ & Hul & Hu).
    destruct (r_len m <? 8) eqn:E8; [lia|].
    apply bind_ok_inv in Hc. destruct Hc as (b & Hb & Hc).
    apply get_range_ok in Hb. destruct Hb as (Hb1 & Hb2 & Hb).
    apply bind_ok_inv in Hc. destruct Hc as (fs & Hfs & Hc).
    inversion Hc; subst x; clear Hc.
    rewrite Hbytes in Hul, Hb2, Hb, Hu. rewrite sub_length in Hul, Hb2 by lia.
    unfold HDR_LENGTH in *. fold n in Hb, Hb1, Hb2.
    cbn [typed_sound m_sid m_uid m_nf m_fields].
    assert (Hb' : b = sub buf 16 n).
    { rewrite Hb. rewrite sub_sub by lia. f_equal; lia. }
    unfold deserialize_fields in Hfs.
    destruct (Nat.eqb (Nat.modulo (length b) 8) 0) eqn:Emod; [|discriminate].
    inversion Hfs; subst fs; clear Hfs.
    apply Nat.eqb_eq in Emod.
    assert (Hbl : length b = (n - 16)%nat).
    { rewrite Hb'. rewrite sub_length by lia. reflexivity. }
    set (k := (Nat.div (n - 16) 8)).
    assert (Hk : (n - 16 = 8 * k)%nat).
    { unfold k. rewrite Hbl in Emod.
      pose proof (Nat.div_mod (n - 16) 8 ltac:(lia)). lia. }
    pose proof (u64s_of_spec buf k (length b) 16%nat ltac:(lia) ltac:(lia)) as Hspec.
    cbn zeta in Hspec.
    replace (16 + 8 * k)%nat with n in Hspec by lia.
    rewrite <- Hb' in Hspec. destruct Hspec as [Hs1 Hs2].
    rewrite Hs1, Hs2.
    replace (Nat.eqb (16 + 8 * k) n) with true by (symmetry; apply Nat.eqb_eq; lia).
    rewrite Hu. unfold le32 in *.
    rewrite !le_at_sub by lia. cbn [plus].
    rewrite <- Htyp, Ht, <- Hlen, <- Hsid.
    unfold T_MEASURE. rewrite !N.eqb_refl.
    replace (N.of_nat n =? r_len m) with true by (symmetry; apply N.eqb_eq; lia).
    replace (Nat.leb 16 n) with true by (symmetry; apply Nat.leb_le; lia).
    replace (Nat.leb n (length buf)) with true by (symmetry; apply Nat.leb_le; lia).
    reflexivity.
  Qed.

  Lemma typed_ready r : ready_from_raw m = Ok r -> r_typ m = T_READY ->
    typed_sound buf (MRdy r) n = true.
  Proof.
    intros Hc Ht.
    destruct (deserialize_ok _ _ Hd) as (H8 & Hle & Htyp & Ht255 & Hlen & Hsid & Hbytes).
    fold n in H8, Hle, Hbytes.
    unfold ready_from_raw, get_u32s in Hc. rewrite Ht in Hc.
    change (u32s_width T_READY) with 4%nat in Hc.
    apply bind_ok_inv in Hc. destruct Hc as (u & Hu & Hc).
    apply get_range_ok in Hu. destruct Hu as (_ & Hul & Hu).
    inversion Hc; subst r; clear Hc.
    rewrite Hbytes in Hul, Hu. rewrite sub_length in Hul by lia.
    cbn [typed_sound rd_id].
    rewrite Hu. unfold le32 in *. rewrite !le_at_sub by lia. cbn [plus].
    rewrite <- Htyp, Ht, <- Hlen.
    unfold T_READY. rewrite !N.eqb_refl.
    replace (N.of_nat n =? r_len m) with true by (symmetry; apply N.eqb_eq; lia).
    replace (Nat.leb 12 n) with true by (symmetry; apply Nat.leb_le; lia).
    replace (Nat.leb n (length buf)) with true by (symmetry; apply Nat.leb_le; lia).
    reflexivity.
  Qed.
End Typed.

Lemma from_raw_msg_not_panic m : 8 <= r_len m -> from_raw_msg m <> Panic.
Proof.
  intros H8. unfold from_raw_msg.
  assert (Hgb : get_bytes m <> Panic).
  { unfold get_bytes. destruct (_ || _); [|discriminate].
    destruct (r_len m <? 8) eqn:E; [lia|]. apply get_range_not_panic. }
  assert (Hgu : get_u32s m <> Panic) by apply get_range_not_panic.
  destruct (r_typ m =? T_CREATE).
  { unfold create_from_raw.
    apply bind_not_panic; [|discriminate].
    apply bind_not_panic; [exact Hgu|]. intros u _.
    apply bind_not_panic; [exact Hgb|]. intros b _.
    apply bind_not_panic; [apply decode_name_not_panic|]. discriminate. }
  destruct (r_typ m =? T_MEASURE).
  { unfold measure_from_raw.
    apply bind_not_panic; [|discriminate].
    apply bind_not_panic; [exact Hgu|]. intros u _.
    apply bind_not_panic; [exact Hgb|]. intros b _.
    apply bind_not_panic; [|discriminate].
    unfold deserialize_fields. destruct (Nat.eqb _ _); discriminate. }
  destruct (r_typ m =? T_INSTALL); [discriminate|].
  destruct (r_typ m =? T_READY).
  { unfold ready_from_raw.
    apply bind_not_panic; [|discriminate].
    apply bind_not_panic; [exact Hgu|]. discriminate. }
  destruct (r_typ m =? T_UPDATE); discriminate.
Qed.

Lemma progress_ok_len buf n : (1 <= n)%nat -> (n <= length buf)%nat -> progress_ok buf n = true.
Proof.
  intros H1 H2. unfold progress_ok. destruct buf as [|x r]; [cbn [length] in H2; lia|].
  apply andb_true_iff; split; apply Nat.leb_le; assumption.
Qed.

Theorem c04_holds : forall buf, c04_ok buf (from_buf buf) = true.
Proof.
  intros buf. unfold from_buf.
  destruct (deserialize buf) as [m| |] eqn:Hd.
  - destruct (deserialize_ok _ _ Hd) as (H8 & Hle & Htyp & Ht255 & Hlen & Hsid & Hbytes).
    pose proof (from_raw_msg_not_panic m ltac:(lia)) as Hnp.
    destruct (from_raw_msg m) as [x| |] eqn:Hx; cbn [bind c04_ok]; try reflexivity; [|congruence].
    rewrite progress_ok_len by lia. cbn [andb].
    unfold from_raw_msg in Hx.
    destruct (r_typ m =? T_CREATE) eqn:E0.
    { apply bind_ok_inv in Hx. destruct Hx as (c & Hc & Hx). inversion Hx; subst x.
      apply (typed_create buf m Hd c Hc). apply N.eqb_eq; exact E0. }
    destruct (r_typ m =? T_MEASURE) eqn:E1.
    { apply bind_ok_inv in Hx. destruct Hx as (c & Hc & Hx). inversion Hx; subst x.
      apply (typed_measure buf m Hd c Hc). apply N.eqb_eq; exact E1. }
    destruct (r_typ m =? T_INSTALL) eqn:E2; [discriminate|].
    destruct (r_typ m =? T_READY) eqn:E5.
    { apply bind_ok_inv in Hx. destruct Hx as (c & Hc & Hx). inversion Hx; subst x.
      apply (typed_ready buf m Hd c Hc). apply N.eqb_eq; exact E5. }
    destruct (r_typ m =? T_UPDATE) eqn:E3; [discriminate|].
    inversion Hx; subst x. reflexivity.
  - cbn [from_raw_msg bind c04_ok r_typ]. cbn.
    unfold progress_ok. destruct buf as [|b r]; [reflexivity|].
    cbn [length]. rewrite andb_true_r. apply andb_true_iff; split; apply Nat.leb_le; lia.
  - exfalso. exact (deserialize_not_panic buf Hd).
Qed.

(* The statement of C04 in propositional form, derived from the boolean one. *)
Theorem from_buf_total_progress : forall buf,
  match from_buf buf with
  | Panic => False
  | Err => True
  | Ok (_, n) => (buf = [] /\ n = 0%nat) \/ (1 <= n <= length buf)%nat
  end.
Proof.
  intros buf. pose proof (c04_holds buf) as H.
  destruct (from_buf buf) as [[m n]| |]; cbn [c04_ok] in H; try exact I; try discriminate.
  apply andb_true_iff in H. destruct H as [H _].
  unfold progress_ok in H. destruct buf as [|b r].
  - left. apply Nat.eqb_eq in H. auto.
  - right. apply andb_true_iff in H. destruct H as [H1 H2].
    apply Nat.leb_le in H1. apply Nat.leb_le in H2. lia.
Qed.

Lemma wide_code_is_other buf m n :
  from_buf buf = Ok (m, n) -> 255 < le16 buf 0 -> exists r, m = MOther r.
Proof.
  unfold from_buf. intros H Hw.
  destruct (deserialize buf) as [r| |] eqn:Hd.
  - destruct (deserialize_ok _ _ Hd) as (_ & _ & Htyp & Ht255 & _). lia.
  - cbn in H. inversion H. eauto.
  - discriminate.
Qed.
