(* The constants of the wire format in the source (read by lib/gen_wiretables.py on every run,
   gen/WireTables.v) are the model's.  Closed by computation. *)
From Portus Require Import Codec.
From Coq Require Import Arith Lia.
From PortusGen Require Import WireTables.

Theorem type_codes_tie :
  (impl_code_create, impl_code_measure, impl_code_install, impl_code_update, impl_code_changeprog, impl_code_ready) =
  (T_CREATE, T_MEASURE, T_INSTALL, T_UPDATE, T_CHANGEPROG, T_READY).
Proof. reflexivity. Qed.

(* header: type in bytes 0..2, length in 2..4, flow id in 4..8, eight bytes in all — the offsets
   deserialize_header reads with le16 buf 0, le16 buf 2, le32 buf 4 *)
Theorem header_layout_tie :
  impl_hdr_length = N.of_nat HDR_LENGTH /\ impl_hdr_typ = (0, 2) /\ impl_hdr_len = (2, 4) /\ impl_hdr_sid = (4, 8).
Proof. repeat split; reflexivity. Qed.

Theorem header_layout_used buf : (8 <= length buf)%nat ->
  deserialize_header buf = if 255 <? le16 buf (N.to_nat (fst impl_hdr_typ)) then Err
                           else Ok (le16 buf (N.to_nat (fst impl_hdr_typ)), le16 buf (N.to_nat (fst impl_hdr_len)), le32 buf (N.to_nat (fst impl_hdr_sid))).
Proof.
  intros H. unfold deserialize_header. replace (Nat.ltb (length buf) 8) with false by (symmetry; apply Nat.ltb_ge; lia). reflexivity.
Qed.

(* the fixed 32-bit prefix of each payload (RawMsg::get_u32s) *)
Theorem prefix_widths_tie :
  (impl_prefix_create, impl_prefix_measure, impl_prefix_update, impl_prefix_ready) =
  (N.of_nat (u32s_width T_CREATE), N.of_nat (u32s_width T_MEASURE), N.of_nat (u32s_width T_UPDATE), N.of_nat (u32s_width T_READY)).
Proof. reflexivity. Qed.
