(* The wire properties as executable predicates over (input, observed result).
   The theorems say the model's result always satisfies them; the correspondence check
   evaluates the very same predicates on the implementation's results.  They are written
   against the documented layout only (offsets inside the buffer), not against the decoder. *)
From Portus Require Export Codec.

(* C04: progress *)
Definition progress_ok (buf : list N) (n : nat) : bool :=
  match buf with
  | [] => Nat.eqb n 0
  | _ => Nat.leb 1 n && Nat.leb n (length buf)
  end.

(* the NUL-terminated string at the start of a field; absent if empty or unterminated *)
Fixpoint upto_nul (b : list N) : option (list N) :=
  match b with
  | [] => None
  | x :: r => if x =? 0 then Some [] else option_map (cons x) (upto_nul r)
  end.
Definition cstr (b : list N) : option (list N) :=
  match upto_nul b with
  | Some [] => None
  | o => o
  end.

Definition eq_optbytes (a b : option (list N)) : bool :=
  match a, b with
  | None, None => true
  | Some x, Some y => if list_eq_dec N.eq_dec x y then true else false
  | _, _ => false
  end.

Fixpoint le64s_at (buf : list N) (off : nat) (vs : list N) : bool :=
  match vs with
  | [] => true
  | v :: r => (le64 buf off =? v) && le64s_at buf (off + 8) r
  end.

Definition typed_sound (buf : list N) (m : msg) (n : nat) : bool :=
  match m with
  | MCr c =>
    (le16 buf 0 =? 0) && (N.of_nat n =? le16 buf 2) && Nat.leb 32 n && Nat.leb n (length buf) &&
    (c_sid c =? le32 buf 4) && (c_init_cwnd c =? le32 buf 8) && (c_mss c =? le32 buf 12) &&
    (c_src_ip c =? le32 buf 16) && (c_src_port c =? le32 buf 20) &&
    (c_dst_ip c =? le32 buf 24) && (c_dst_port c =? le32 buf 28) &&
    eq_optbytes (c_alg c) (cstr (sub buf 32 n))
  | MMs x =>
    (le16 buf 0 =? 1) && (N.of_nat n =? le16 buf 2) && Nat.leb 16 n && Nat.leb n (length buf) &&
    (m_sid x =? le32 buf 4) && (m_uid x =? le32 buf 8) && (m_nf x =? le32 buf 12 mod 256) &&
    Nat.eqb (16 + 8 * length (m_fields x)) n && le64s_at buf 16 (m_fields x)
  | MRdy r =>
    (le16 buf 0 =? 5) && (N.of_nat n =? le16 buf 2) && Nat.leb 12 n && Nat.leb n (length buf) &&
    (rd_id r =? le32 buf 8)
  | MOther _ => true
  end.

Definition c04_ok (buf : list N) (r : outcome (msg * nat)) : bool :=
  match r with
  | Panic => false
  | Err => true
  | Ok (m, n) => progress_ok buf n && typed_sound buf m n
  end.

(* C07: in-range messages *)
Definition u32_ok (x : N) : bool := x <? 4294967296.
Definition u64_ok (x : N) : bool := x <? 18446744073709551616.

Definition name_in_range (o : option (list N)) : bool :=
  match o with
  | None => true
  | Some c => Nat.leb 1 (length c) && Nat.leb (length c) 63 &&
              forallb (fun b => (0 <? b) && (b <? 256)) c && utf8_valid c
  end.

Definition msg_in_range (m : msg) : bool :=
  match m with
  | MCr c => u32_ok (c_sid c) && u32_ok (c_init_cwnd c) && u32_ok (c_mss c) &&
             u32_ok (c_src_ip c) && u32_ok (c_src_port c) && u32_ok (c_dst_ip c) &&
             u32_ok (c_dst_port c) && name_in_range (c_alg c)
  | MMs x => u32_ok (m_sid x) && u32_ok (m_uid x) && (m_nf x <? 256) &&
             (N.of_nat (length (m_fields x)) =? m_nf x) && forallb u64_ok (m_fields x)
  | MRdy r => u32_ok (rd_id r)
  | MOther _ => false
  end.
