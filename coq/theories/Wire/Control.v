(* CCP->datapath messages: src/serialize/{install,changeprog,update_field}.rs, as produced by
   serialize::serialize (header, u32 block, byte block; unrepresentable lengths are errors). *)
From Portus Require Export Codec Reg.

(* (register, 64-bit value) update records: 5-byte register + 8-byte little-endian value *)
Fixpoint ser_updates (fs : list (reg * N)) : outcome (list N) :=
  match fs with
  | [] => Ok []
  | (r, v) :: rest =>
    do rb <- ser_reg r;
    do tail <- ser_updates rest;
    Ok (rb ++ enc_le 8 v ++ tail)
  end.

(* changeprog::Msg { sid, program_uid, num_fields, fields } *)
Definition serialize_changeprog (sid uid num_fields : N) (fs : list (reg * N)) : outcome (list N) :=
  serialize_gen T_CHANGEPROG (16 + 13 * num_fields) sid
    (enc_le 4 uid ++ enc_le 4 num_fields) (ser_updates fs).

(* update_field::Msg { sid, num_fields : u8, fields } *)
Definition serialize_update (sid num_fields : N) (fs : list (reg * N)) : outcome (list N) :=
  serialize_gen T_UPDATE (12 + 13 * num_fields) sid
    (enc_le 4 num_fields) (ser_updates fs).

(* install::Msg { sid, program_uid, num_events, num_instrs, instrs } where the byte block is
   the already serialized image (Bin::serialize) *)
Definition serialize_install (sid uid num_events num_instrs : N) (image : outcome (list N)) : outcome (list N) :=
  serialize_gen T_INSTALL (20 + 16 * num_events + 16 * num_instrs) sid
    (enc_le 4 uid ++ enc_le 4 num_events ++ enc_le 4 num_instrs) image.
