(* C06: control-plane messages are byte-exact and honest about their length. *)
From Portus Require Import Control CodecRoundtrip.
From Coq Require Import ZArith ZifyN ZifyNat ZifyBool.

(* ---------- lengths ---------- *)

Lemma ser_updates_length fs : forall ups, ser_updates fs = Ok ups -> length ups = (13 * length fs)%nat.
Proof.
  induction fs as [|[r v] rest IH]; intros ups H; cbn [ser_updates] in H.
  - inversion H. reflexivity.
  - apply bind_ok_inv in H. destruct H as (rb & Hr & H).
    apply bind_ok_inv in H. destruct H as (tail & Ht & H).
    assert (Hu : ups = rb ++ enc_le 8 v ++ tail) by congruence. subst ups.
    rewrite !app_length, enc_le_length, (ser_reg_length _ _ Hr), (IH _ Ht). cbn [length]. lia.
Qed.

Lemma serialize_gen_ok typ len sid u32s bytes bs :
  serialize_gen typ len sid u32s bytes = Ok bs ->
  len <= 65535 /\ exists b, bytes = Ok b /\ bs = ser_header typ len sid ++ u32s ++ b.
Proof.
  unfold serialize_gen. destruct (65535 <? len) eqn:E; [discriminate|].
  intros H. apply bind_ok_inv in H. destruct H as (b & Hb & H). inversion H; subst.
  split; [lia|]. eauto.
Qed.

Lemma header_len_field typ len sid rest : typ < 65536 -> len < 65536 ->
  le16 (ser_header typ len sid ++ rest) 2 = len /\ le16 (ser_header typ len sid ++ rest) 0 = typ.
Proof.
  intros Ht Hl. unfold ser_header. rewrite <- !app_assoc. split; le_fields; apply N.mod_small; lia.
Qed.

(* the header's length field is the true byte length, and the count field the number of records *)
Theorem changeprog_honest sid uid fs bs : uid < 4294967296 ->
  serialize_changeprog sid uid (N.of_nat (length fs)) fs = Ok bs ->
  le16 bs 2 = N.of_nat (length bs) /\ le16 bs 0 = 4 /\
  le32 bs 8 = uid /\ le32 bs 12 = N.of_nat (length fs) /\
  length bs = (16 + 13 * length fs)%nat.
Proof.
  intros Hu H. unfold serialize_changeprog in H.
  apply serialize_gen_ok in H. destruct H as (Hlen & ups & Hups & ->).
  pose proof (ser_updates_length _ _ Hups) as Hl.
  assert (Hbl : length (ser_header T_CHANGEPROG (16 + 13 * N.of_nat (length fs)) sid ++
                        (enc_le 4 uid ++ enc_le 4 (N.of_nat (length fs))) ++ ups) = (16 + 13 * length fs)%nat).
  { rewrite !app_length, ser_header_length, !enc_le_length, Hl. lia. }
  destruct (header_len_field T_CHANGEPROG (16 + 13 * N.of_nat (length fs)) sid
              ((enc_le 4 uid ++ enc_le 4 (N.of_nat (length fs))) ++ ups)
              ltac:(unfold T_CHANGEPROG; lia) ltac:(lia)) as [H2 H0].
  rewrite H2, H0, Hbl. repeat split; try lia; try reflexivity.
  - unfold ser_header. rewrite <- !app_assoc. le_fields. apply N.mod_small; lia.
  - unfold ser_header. rewrite <- !app_assoc. le_fields. apply N.mod_small; lia.
Qed.

Theorem update_honest sid fs bs :
  serialize_update sid (N.of_nat (length fs)) fs = Ok bs ->
  le16 bs 2 = N.of_nat (length bs) /\ le16 bs 0 = 3 /\
  le32 bs 8 = N.of_nat (length fs) /\ length bs = (12 + 13 * length fs)%nat.
Proof.
  intros H. unfold serialize_update in H.
  apply serialize_gen_ok in H. destruct H as (Hlen & ups & Hups & ->).
  pose proof (ser_updates_length _ _ Hups) as Hl.
  assert (Hbl : length (ser_header T_UPDATE (12 + 13 * N.of_nat (length fs)) sid ++
                        enc_le 4 (N.of_nat (length fs)) ++ ups) = (12 + 13 * length fs)%nat).
  { rewrite !app_length, ser_header_length, !enc_le_length, Hl. lia. }
  destruct (header_len_field T_UPDATE (12 + 13 * N.of_nat (length fs)) sid
              (enc_le 4 (N.of_nat (length fs)) ++ ups) ltac:(unfold T_UPDATE; lia) ltac:(lia)) as [H2 H0].
  rewrite H2, H0, Hbl. repeat split; try lia; try reflexivity.
  unfold ser_header. rewrite <- !app_assoc. le_fields. apply N.mod_small; lia.
Qed.

Theorem install_honest sid uid ne ni image bs : uid < 4294967296 -> ne < 4294967296 -> ni < 4294967296 ->
  length image = (16 * N.to_nat ne + 16 * N.to_nat ni)%nat ->
  serialize_install sid uid ne ni (Ok image) = Ok bs ->
  le16 bs 2 = N.of_nat (length bs) /\ le16 bs 0 = 2 /\
  le32 bs 8 = uid /\ le32 bs 12 = ne /\ le32 bs 16 = ni /\
  sub bs 20 (length bs) = image.
Proof.
  intros Hu Hne Hni Himg H. unfold serialize_install in H.
  apply serialize_gen_ok in H. destruct H as (Hlen & b & Hb & ->). inversion Hb; subst b; clear Hb.
  set (u32s := enc_le 4 uid ++ enc_le 4 ne ++ enc_le 4 ni).
  assert (Hul : length u32s = 12%nat) by (unfold u32s; rewrite !app_length, !enc_le_length; reflexivity).
  assert (Hbl : length (ser_header T_INSTALL (20 + 16 * ne + 16 * ni) sid ++ u32s ++ image) =
                (20 + length image)%nat).
  { rewrite !app_length, ser_header_length, Hul. lia. }
  destruct (header_len_field T_INSTALL (20 + 16 * ne + 16 * ni) sid (u32s ++ image)
              ltac:(unfold T_INSTALL; lia) ltac:(lia)) as [H2 H0].
  rewrite H2, H0, Hbl. repeat split; try (rewrite Himg; lia); try reflexivity.
  - unfold ser_header, u32s. rewrite <- !app_assoc. le_fields. apply N.mod_small; lia.
  - unfold ser_header, u32s. rewrite <- !app_assoc. le_fields. apply N.mod_small; lia.
  - unfold ser_header, u32s. rewrite <- !app_assoc. le_fields. apply N.mod_small; lia.
  - rewrite app_assoc.
    rewrite sub_app_r by (rewrite app_length, ser_header_length, Hul; lia).
    rewrite app_length, ser_header_length, Hul.
    replace (20 - (8 + 12))%nat with 0%nat by lia.
    replace (20 + length image - (8 + 12))%nat with (length image) by lia.
    apply sub_full.
Qed.

(* a message that cannot be represented is refused, never emitted with a truncated header *)
Theorem unrepresentable_length_fails typ len sid u32s bytes :
  65535 < len -> serialize_gen typ len sid u32s bytes = Err.
Proof.
  intros H. unfold serialize_gen.
  replace (65535 <? len) with true by (symmetry; apply N.ltb_lt; exact H). reflexivity.
Qed.

Theorem changeprog_too_long_fails sid uid fs :
  65535 < 16 + 13 * N.of_nat (length fs) -> serialize_changeprog sid uid (N.of_nat (length fs)) fs = Err.
Proof. intros H. apply unrepresentable_length_fails. exact H. Qed.

(* ---------- the update records parse back, under libccp's packed 13-byte layout ---------- *)

(* struct UpdateField { u8 reg_type; u32 reg_index; u64 new_value; } packed *)
Fixpoint parse_updates (n : nat) (b : list N) : list (N * N * N) :=
  match n with
  | O => []
  | S k => (nth 0 b 0, le32 b 1, le64 b 5) :: parse_updates k (skipn 13 b)
  end.

Definition reg_wire (r : reg) : option (N * N) :=
  match reg_code r with Ok cv => Some cv | _ => None end.

Lemma parse_one c v x tail : v < 4294967296 -> x < 18446744073709551616 ->
  let b := (c :: enc_le 4 v) ++ enc_le 8 x ++ tail in
  nth 0 b 0 = c /\ le32 b 1 = v /\ le64 b 5 = x /\ skipn 13 b = tail.
Proof.
  intros Hv Hx b. unfold b. repeat split.
  - unfold le32, le_at.
    replace (sub ((c :: enc_le 4 v) ++ enc_le 8 x ++ tail) 1 (1 + 4)) with (enc_le 4 v).
    + apply dec_enc_le_small. exact Hv.
    + cbn [app]. unfold sub. cbn [skipn Nat.sub plus].
      rewrite firstn_app, enc_le_length. replace (4 - 4)%nat with 0%nat by lia.
      rewrite firstn_O, app_nil_r, firstn_enc. reflexivity.
  - unfold le64, le_at.
    replace (sub ((c :: enc_le 4 v) ++ enc_le 8 x ++ tail) 5 (5 + 8)) with (enc_le 8 x).
    + apply dec_enc_le_small. exact Hx.
    + rewrite sub_app_r by (cbn [length]; rewrite enc_le_length; lia).
      cbn [length]. rewrite enc_le_length. replace (5 - 5)%nat with 0%nat by lia.
      replace (5 + 8 - 5)%nat with 8%nat by lia.
      rewrite sub_app_l by (rewrite enc_le_length; lia).
      rewrite <- (enc_le_length 8 x) at 2. symmetry. apply sub_full.
Qed.

Theorem updates_parse_back fs : forall ups tail, ser_updates fs = Ok ups ->
  Forall (fun rv => snd rv < 18446744073709551616) fs ->
  exists wire, parse_updates (length fs) (ups ++ tail) = wire /\
    Forall2 (fun rv w => reg_wire (fst rv) = Some (fst (fst w), snd (fst w)) /\ snd w = snd rv) fs wire.
Proof.
  induction fs as [|[r v] rest IH]; intros ups tail H Hv; cbn [ser_updates] in H.
  - inversion H. exists []. split; [reflexivity|constructor].
  - apply bind_ok_inv in H. destruct H as (rb & Hr & H).
    apply bind_ok_inv in H. destruct H as (tl & Ht & H).
    assert (Hu : ups = rb ++ enc_le 8 v ++ tl) by congruence. subst ups. clear H.
    inversion Hv as [|? ? Hv1 Hv2]; subst. cbn [snd] in Hv1.
    unfold ser_reg in Hr. apply bind_ok_inv in Hr. destruct Hr as ([c w] & Hc & Hr).
    cbv beta match in Hr. assert (Hrb : rb = c :: enc_le 4 w) by congruence. subst rb. clear Hr.
    assert (Hw : w < 4294967296).
    { unfold reg_code in Hc.
      destruct r as [i t vol|n|b|i t|i t|i t|i t vol|i t|]; try discriminate;
        repeat match type of Hc with context [if ?c then _ else _] => destruct c eqn:? end;
        inversion Hc; subst; unfold LIM_CONTROL, LIM_IMPLICIT, LIM_LOCAL, LIM_PRIMITIVE, LIM_REPORT, LIM_TMP in *;
        try lia; try (apply N.mod_lt; lia); try (destruct b; lia). }
    destruct (IH tl tail Ht Hv2) as (wire & Hp & Hf).
    cbn [length parse_updates].
    rewrite <- !app_assoc.
    destruct (parse_one c w v (tl ++ tail) Hw Hv1) as (H0 & H1 & H5 & Hs).
    cbv zeta in H0, H1, H5, Hs.
    rewrite H0, H1, H5, Hs, Hp.
    eexists. split; [reflexivity|]. constructor; [|exact Hf].
    cbn [fst snd]. unfold reg_wire. rewrite Hc. auto.
Qed.
