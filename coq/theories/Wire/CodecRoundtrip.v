(* C07: datapath->CCP messages survive encode/decode; concatenations decode back. *)
From Portus Require Import Codec CodecSpec CodecFacts.
From Coq Require Import ZArith ZifyN ZifyNat ZifyBool.

(* ---- little-endian fields inside concatenations ---- *)

Lemma le_at_here k v post : le_at k (enc_le k v ++ post) 0 = v mod pow256 k.
Proof.
  unfold le_at. cbn [plus]. rewrite sub_app_l by (rewrite enc_le_length; lia).
  rewrite <- (enc_le_length k v) at 2. rewrite sub_full. apply dec_enc_le.
Qed.

Lemma le_at_here_nil k v : le_at k (enc_le k v) 0 = v mod pow256 k.
Proof. rewrite <- (app_nil_r (enc_le k v)). apply le_at_here. Qed.

Lemma le_at_skip pre l k off : le_at k (pre ++ l) (length pre + off) = le_at k l off.
Proof.
  unfold le_at. rewrite sub_app_r by lia. f_equal. f_equal; lia.
Qed.

Lemma le_at_skip2 k v l off : le_at k (enc_le 2 v ++ l) (S (S off)) = le_at k l off.
Proof. rewrite <- (le_at_skip (enc_le 2 v) l k off). rewrite enc_le_length. reflexivity. Qed.

Lemma le_at_skip4 k v l off : le_at k (enc_le 4 v ++ l) (S (S (S (S off)))) = le_at k l off.
Proof. rewrite <- (le_at_skip (enc_le 4 v) l k off). rewrite enc_le_length. reflexivity. Qed.

Lemma pow256_2 : pow256 2 = 65536. Proof. reflexivity. Qed.
Lemma pow256_4 : pow256 4 = 4294967296. Proof. reflexivity. Qed.
Lemma pow256_8 : pow256 8 = 18446744073709551616. Proof. reflexivity. Qed.

Ltac le_fields :=
  unfold le16, le32, le64;
  repeat first [ rewrite le_at_here | rewrite le_at_here_nil
               | rewrite le_at_skip2 | rewrite le_at_skip4 ];
  rewrite ?pow256_2, ?pow256_4, ?pow256_8.

(* ---- framing: a header followed by its body (and anything after it) ---- *)

Lemma ser_header_length typ len sid : length (ser_header typ len sid) = 8%nat.
Proof. unfold ser_header. rewrite !app_length, !enc_le_length. reflexivity. Qed.

Lemma deserialize_frame typ len sid body extra :
  typ <= 255 -> len < 65536 -> sid < 4294967296 ->
  N.to_nat len = (8 + length body)%nat ->
  deserialize (ser_header typ len sid ++ body ++ extra) = Ok (mkRaw typ len sid body).
Proof.
  intros Ht Hl Hs Hlen.
  unfold deserialize, deserialize_header.
  rewrite app_length, ser_header_length.
  replace (Nat.ltb (8 + length (body ++ extra)) 8) with false by (symmetry; apply Nat.ltb_ge; lia).
  assert (H0 : le16 (ser_header typ len sid ++ body ++ extra) 0 = typ).
  { unfold ser_header. rewrite <- !app_assoc. le_fields. apply N.mod_small; lia. }
  assert (H2 : le16 (ser_header typ len sid ++ body ++ extra) 2 = len).
  { unfold ser_header. rewrite <- !app_assoc. le_fields. apply N.mod_small; lia. }
  assert (H4 : le32 (ser_header typ len sid ++ body ++ extra) 4 = sid).
  { unfold ser_header. rewrite <- !app_assoc. le_fields. apply N.mod_small; lia. }
  rewrite H0, H2, H4.
  replace (255 <? typ) with false by (symmetry; apply N.ltb_ge; lia).
  cbn [bind].
  replace (len <? 8) with false by (symmetry; apply N.ltb_ge; lia).
  rewrite app_length.
  replace (N.of_nat (8 + (length body + length extra)) <? len) with false
    by (symmetry; apply N.ltb_ge; lia).
  unfold slice. rewrite !app_length, ser_header_length.
  replace (Nat.leb 8 (N.to_nat len) && Nat.leb (N.to_nat len) (8 + (length body + length extra)))
    with true by (symmetry; apply andb_true_iff; split; apply Nat.leb_le; lia).
  cbn [bind]. f_equal. f_equal.
  rewrite sub_app_r by (rewrite ser_header_length; lia).
  rewrite ser_header_length, Hlen.
  replace (8 - 8)%nat with 0%nat by lia.
  replace (8 + length body - 8)%nat with (length body) by lia.
  rewrite sub_app_l by lia. apply sub_full.
Qed.

Lemma get_range_prefix a b : get_range (a ++ b) 0 (length a) = Ok a.
Proof.
  unfold get_range. rewrite app_length.
  replace (Nat.leb 0 (length a) && Nat.leb (length a) (length a + length b)) with true
    by (symmetry; apply andb_true_iff; split; apply Nat.leb_le; lia).
  f_equal. rewrite sub_app_l by lia. apply sub_full.
Qed.

Lemma get_range_suffix a b : get_range (a ++ b) (length a) (length a + length b) = Ok b.
Proof.
  unfold get_range. rewrite app_length.
  replace (Nat.leb (length a) (length a + length b) && Nat.leb (length a + length b) (length a + length b))
    with true by (symmetry; apply andb_true_iff; split; apply Nat.leb_le; lia).
  f_equal. rewrite sub_app_r by lia.
  replace (length a - length a)%nat with 0%nat by lia.
  replace (length a + length b - length a)%nat with (length b) by lia.
  apply sub_full.
Qed.

(* ---- names ---- *)

Lemma find_nul_padded c k : forallb (fun b => (0 <? b) && (b <? 256)) c = true ->
  find_nul (c ++ repeat 0 (S k)) = Some (length c).
Proof.
  induction c as [|x r IH]; intros H.
  - reflexivity.
  - cbn [forallb] in H. apply andb_true_iff in H. destruct H as [Hx Hr].
    cbn [app find_nul length].
    replace (x =? 0) with false by (symmetry; apply N.eqb_neq; lia).
    rewrite IH by exact Hr. reflexivity.
Qed.

Lemma decode_name_padded c : name_in_range (Some c) = true ->
  decode_name (c ++ repeat 0 (64 - length c)) = Ok (Some c).
Proof.
  unfold name_in_range. intros H.
  apply andb_true_iff in H. destruct H as [H Hutf].
  apply andb_true_iff in H. destruct H as [H Hnz].
  apply andb_true_iff in H. destruct H as [H1 H63].
  apply Nat.leb_le in H1. apply Nat.leb_le in H63.
  unfold decode_name.
  destruct c as [|b0 r]; [cbn [length] in H1; lia|].
  cbn [app].
  pose proof Hnz as Hnz'. cbn [forallb] in Hnz'. apply andb_true_iff in Hnz'. destruct Hnz' as [Hb0 _].
  replace (b0 =? 0) with false by (symmetry; apply N.eqb_neq; lia).
  change (b0 :: r ++ repeat 0 (64 - length (b0 :: r))) with ((b0 :: r) ++ repeat 0 (64 - length (b0 :: r))).
  replace (64 - length (b0 :: r))%nat with (S (63 - length (b0 :: r))) by lia.
  rewrite find_nul_padded by exact Hnz.
  rewrite firstn_app, firstn_all, Nat.sub_diag, firstn_O, app_nil_r.
  rewrite Hutf. reflexivity.
Qed.

(* ---- u64 lists ---- *)

Lemma firstn_enc k v : firstn k (enc_le k v) = enc_le k v.
Proof. rewrite <- (enc_le_length k v) at 1. apply firstn_all. Qed.
Lemma skipn_enc k v : skipn k (enc_le k v) = [].
Proof. rewrite <- (enc_le_length k v) at 1. apply skipn_all. Qed.

Lemma u64s_of_enc fs : forallb u64_ok fs = true -> forall fuel, (length fs <= fuel)%nat ->
  u64s_of fuel (enc_le_list 8 fs) = fs.
Proof.
  induction fs as [|v r IH]; intros H fuel Hf.
  - destruct fuel; reflexivity.
  - cbn [forallb] in H. apply andb_true_iff in H. destruct H as [Hv Hr].
    destruct fuel as [|fuel]; [cbn [length] in Hf; lia|].
    unfold enc_le_list. cbn [map concat]. fold (enc_le_list 8 r).
    cbn [u64s_of].
    destruct (enc_le 8 v ++ enc_le_list 8 r) as [|x xs] eqn:E.
    { apply (f_equal (@length N)) in E. rewrite app_length, enc_le_length in E. cbn [length] in E. lia. }
    rewrite <- E.
    rewrite firstn_app, enc_le_length. replace (8 - 8)%nat with 0%nat by lia.
    rewrite firstn_O, app_nil_r, firstn_enc.
    rewrite skipn_app, enc_le_length. replace (8 - 8)%nat with 0%nat by lia.
    rewrite skipn_enc. cbn [app skipn].
    rewrite dec_enc_le_small by (rewrite pow256_8; unfold u64_ok in Hv; lia).
    rewrite IH by (auto; cbn [length] in Hf; lia). reflexivity.
Qed.

(* ---- the round trip, with arbitrary bytes following the message ---- *)

Definition u32b (x : N) : x <? 4294967296 = true -> x < 4294967296.
Proof. intros H. lia. Qed.

Lemma roundtrip_ready r extra : msg_in_range (MRdy r) = true ->
  exists bs, serialize_msg (MRdy r) = Ok bs /\
             from_buf (bs ++ extra) = Ok (MRdy r, length bs).
Proof.
  cbn [msg_in_range]. unfold u32_ok. intros H.
  eexists. split; [reflexivity|].
  cbn [app]. rewrite <- !app_assoc. cbn [app].
  unfold from_buf.
  rewrite (deserialize_frame T_READY 12 0 (enc_le 4 (rd_id r)) extra)
    by (try (unfold T_READY; lia); rewrite enc_le_length; reflexivity).
  unfold from_raw_msg. cbn [r_typ r_len].
  change (T_READY =? T_CREATE) with false. change (T_READY =? T_MEASURE) with false.
  change (T_READY =? T_INSTALL) with false. change (T_READY =? T_READY) with true.
  cbv iota. unfold ready_from_raw, get_u32s. cbn [r_typ r_bytes].
  change (u32s_width T_READY) with (length (enc_le 4 (rd_id r))).
  rewrite <- (app_nil_r (enc_le 4 (rd_id r))) at 1.
  rewrite get_range_prefix. cbn [bind].
  le_fields. rewrite N.mod_small by lia.
  rewrite !app_length, ser_header_length, enc_le_length.
  destruct r; reflexivity.
Qed.

Lemma roundtrip_measure x extra : msg_in_range (MMs x) = true ->
  exists bs, serialize_msg (MMs x) = Ok bs /\
             from_buf (bs ++ extra) = Ok (MMs x, length bs).
Proof.
  cbn [msg_in_range]. unfold u32_ok. intros H.
  repeat (apply andb_true_iff in H; destruct H as [H ?]).
  match goal with Hf : forallb u64_ok _ = true |- _ => rename Hf into Hfs end.
  match goal with Hf : (N.of_nat _ =? _) = true |- _ => rename Hf into Hcnt end.
  match goal with Hf : (m_nf x <? 256) = true |- _ => rename Hf into Hnf end.
  match goal with Hf : (m_uid x <? _) = true |- _ => rename Hf into Huid end.
  rename H into Hsid.
  cbn [serialize_msg]. unfold serialize_measure, serialize_gen.
  replace (65535 <? 16 + 8 * m_nf x) with false by (symmetry; apply N.ltb_ge; lia).
  cbn [bind]. eexists. split; [reflexivity|].
  rewrite <- !app_assoc.
  set (u32s := enc_le 4 (m_uid x) ++ enc_le 4 (m_nf x)).
  set (body := enc_le_list 8 (m_fields x)).
  assert (Hul : length u32s = 8%nat) by (unfold u32s; rewrite app_length, !enc_le_length; reflexivity).
  assert (Hbl : length body = (8 * length (m_fields x))%nat) by apply enc_le_list_length.
  unfold from_buf.
  replace (enc_le 4 (m_uid x) ++ enc_le 4 (m_nf x) ++ body ++ extra) with ((u32s ++ body) ++ extra)
    by (unfold u32s; rewrite <- !app_assoc; reflexivity).
  rewrite (deserialize_frame T_MEASURE (16 + 8 * m_nf x) (m_sid x) (u32s ++ body) extra)
    by (try (unfold T_MEASURE; lia); rewrite app_length; lia).
  unfold from_raw_msg. cbn [r_typ r_len].
  change (T_MEASURE =? T_CREATE) with false. change (T_MEASURE =? T_MEASURE) with true.
  cbv iota. unfold measure_from_raw, get_u32s, get_bytes. cbn [r_typ r_bytes r_len].
  change ((T_MEASURE =? T_CREATE) || (T_MEASURE =? T_MEASURE) || (T_MEASURE =? T_UPDATE)) with true.
  cbv iota.
  change (u32s_width T_MEASURE) with 8%nat.
  rewrite <- Hul at 1. rewrite get_range_prefix. cbn [bind].
  replace (16 + 8 * m_nf x <? 8) with false by (symmetry; apply N.ltb_ge; lia).
  replace (N.to_nat (16 + 8 * m_nf x) - HDR_LENGTH)%nat with (length u32s + length body)%nat
    by (unfold HDR_LENGTH; lia).
  rewrite <- Hul at 1. rewrite get_range_suffix. cbn [bind].
  unfold deserialize_fields.
  replace (Nat.eqb (Nat.modulo (length body) 8) 0) with true.
  2:{ symmetry. apply Nat.eqb_eq. rewrite Hbl. rewrite Nat.mul_comm. apply Nat.mod_mul. lia. }
  cbn [bind].
  assert (Hu64 : u64s_of (length body) body = m_fields x).
  { unfold body at 2. apply u64s_of_enc; [exact Hfs | lia]. }
  rewrite Hu64. cbn [r_sid].
  unfold u32s. le_fields.
  rewrite !N.mod_small by lia.
  replace (m_nf x mod 256) with (m_nf x) by (symmetry; apply N.mod_small; lia).
  rewrite !app_length, ser_header_length, !enc_le_length, Hbl.
  replace (N.to_nat (16 + 8 * m_nf x)) with (8 + (4 + (4 + 8 * length (m_fields x))))%nat by lia.
  destruct x; reflexivity.
Qed.

Lemma create_name_bytes_ok o : name_in_range o = true ->
  exists nb, create_name_bytes o = Ok nb /\ length nb = 64%nat /\ decode_name nb = Ok o.
Proof.
  intros H. destruct o as [c|].
  - pose proof H as H'. unfold name_in_range in H'.
    repeat (apply andb_true_iff in H'; destruct H' as [H' ?]).
    match goal with Hl : Nat.leb (length c) 63 = true |- _ => apply Nat.leb_le in Hl; rename Hl into H63 end.
    unfold create_name_bytes.
    replace (Nat.ltb 63 (length c)) with false by (symmetry; apply Nat.ltb_ge; lia).
    eexists. split; [reflexivity|]. split.
    + rewrite app_length, repeat_length. lia.
    + apply decode_name_padded. exact H.
  - eexists. split; [reflexivity|]. split; reflexivity.
Qed.

Lemma roundtrip_create c extra : msg_in_range (MCr c) = true ->
  exists bs, serialize_msg (MCr c) = Ok bs /\
             from_buf (bs ++ extra) = Ok (MCr c, length bs).
Proof.
  cbn [msg_in_range]. unfold u32_ok. intros H.
  repeat (apply andb_true_iff in H; destruct H as [H ?]).
  match goal with Hn : name_in_range _ = true |- _ => rename Hn into Hname end.
  destruct (create_name_bytes_ok _ Hname) as (nb & Hnb & Hnbl & Hdn).
  cbn [serialize_msg]. unfold serialize_create, serialize_gen.
  change (65535 <? 96) with false. cbv iota. rewrite Hnb. cbn [bind].
  eexists. split; [reflexivity|].
  rewrite <- !app_assoc.
  set (u32s := enc_le 4 (c_init_cwnd c) ++ enc_le 4 (c_mss c) ++ enc_le 4 (c_src_ip c) ++
               enc_le 4 (c_src_port c) ++ enc_le 4 (c_dst_ip c) ++ enc_le 4 (c_dst_port c)).
  assert (Hul : length u32s = 24%nat) by (unfold u32s; rewrite !app_length, !enc_le_length; reflexivity).
  unfold from_buf.
  match goal with |- context [deserialize ?l] =>
    replace l with (ser_header T_CREATE 96 (c_sid c) ++ (u32s ++ nb) ++ extra)
      by (unfold u32s; rewrite <- !app_assoc; reflexivity) end.
  rewrite (deserialize_frame T_CREATE 96 (c_sid c) (u32s ++ nb) extra)
    by (try (unfold T_CREATE; lia); rewrite app_length, Hul, Hnbl; reflexivity).
  unfold from_raw_msg. cbn [r_typ r_len].
  change (T_CREATE =? T_CREATE) with true. cbv iota.
  unfold create_from_raw, get_u32s, get_bytes. cbn [r_typ r_bytes r_len].
  change ((T_CREATE =? T_CREATE) || (T_CREATE =? T_MEASURE) || (T_CREATE =? T_UPDATE)) with true.
  cbv iota.
  change (u32s_width T_CREATE) with 24%nat.
  rewrite <- Hul at 1. rewrite get_range_prefix. cbn [bind].
  change (96 <? 8) with false. cbv iota.
  replace (N.to_nat 96 - HDR_LENGTH)%nat with (length u32s + length nb)%nat
    by (rewrite Hul, Hnbl; reflexivity).
  rewrite <- Hul at 1. rewrite get_range_suffix. cbn [bind].
  rewrite Hdn. cbn [bind].
  unfold u32s. le_fields.
  rewrite !N.mod_small by lia.
  rewrite !app_length, ser_header_length, !enc_le_length, Hnbl.
  destruct c; reflexivity.
Qed.

Theorem roundtrip_framed m extra : msg_in_range m = true ->
  exists bs, serialize_msg m = Ok bs /\ from_buf (bs ++ extra) = Ok (m, length bs).
Proof.
  destruct m as [c|x|r|o]; intros H.
  - apply roundtrip_create; exact H.
  - apply roundtrip_measure; exact H.
  - apply roundtrip_ready; exact H.
  - discriminate.
Qed.

Theorem c07_roundtrip m : msg_in_range m = true ->
  exists bs, serialize_msg m = Ok bs /\ from_buf bs = Ok (m, length bs).
Proof.
  intros H. destruct (roundtrip_framed m [] H) as (bs & Hs & Hd).
  exists bs. rewrite app_nil_r in Hd. auto.
Qed.

(* ---- concatenations ---- *)

Fixpoint serialize_all (ms : list msg) : outcome (list N) :=
  match ms with
  | [] => Ok []
  | m :: r => do b <- serialize_msg m; do rest <- serialize_all r; Ok (b ++ rest)
  end.

Lemma serialize_msg_nonempty m bs : serialize_msg m = Ok bs -> (8 <= length bs)%nat.
Proof.
  destruct m as [c|x|r|o]; cbn [serialize_msg];
    unfold serialize_create, serialize_measure, serialize_ready, serialize_gen; try discriminate.
  all: match goal with |- context [if ?c then _ else _] => destruct c end; try discriminate.
  all: intros H; apply bind_ok_inv in H; destruct H as (b & _ & H); inversion H; subst bs.
  all: cbn [length app]; lia.
Qed.

Theorem c07_concat ms : forallb msg_in_range ms = true ->
  exists buf, serialize_all ms = Ok buf /\ (length ms <= length buf)%nat /\
    forall fuel, (length ms <= fuel)%nat -> decode_all fuel buf = Ok ms.
Proof.
  induction ms as [|m r IH]; intros H.
  - exists []. repeat split; auto. intros fuel _. destruct fuel; reflexivity.
  - cbn [forallb] in H. apply andb_true_iff in H. destruct H as [Hm Hr].
    destruct (IH Hr) as (rest & Hrest & Hlen & Hdec).
    destruct (roundtrip_framed m rest Hm) as (bs & Hs & Hd).
    pose proof (serialize_msg_nonempty _ _ Hs) as Hne.
    exists (bs ++ rest). cbn [serialize_all]. rewrite Hs, Hrest. cbn [bind].
    split; [reflexivity|]. split; [rewrite app_length; cbn [length]; lia|].
    intros fuel Hf. destruct fuel as [|fuel]; [cbn [length] in Hf; lia|].
    cbn [decode_all].
    destruct (bs ++ rest) as [|b0 l0] eqn:E.
    { apply (f_equal (@length N)) in E. rewrite app_length in E. cbn [length] in E. lia. }
    rewrite Hd. cbn [bind]. rewrite <- E.
    rewrite skipn_app, skipn_all, Nat.sub_diag. cbn [app skipn].
    rewrite Hdec by (cbn [length] in Hf; lia). reflexivity.
Qed.
