(* Executable model of portus' wire codec: src/serialize/{mod,create,measure,ready}.rs.
   Mirrors, function by function: serialize_header, deserialize_header, deserialize,
   RawMsg::get_u32s / get_bytes, the three from_raw_msg implementations, Msg::from_raw_msg,
   Msg::from_buf, and serialize for the three datapath->CCP message types.
   No proofs here (so the model still runs when a proof breaks). *)
From Portus Require Export Bytes Utf8.

Record raw := mkRaw { r_typ : N; r_len : N; r_sid : N; r_bytes : list N }.

Record create_msg := mkCreate {
  c_sid : N; c_init_cwnd : N; c_mss : N; c_src_ip : N; c_src_port : N;
  c_dst_ip : N; c_dst_port : N; c_alg : option (list N) }.

Record measure_msg := mkMeasure {
  m_sid : N; m_uid : N; m_nf : N; m_fields : list N }.

Record ready_msg := mkReady { rd_id : N }.

Inductive msg :=
| MCr (c : create_msg)
| MMs (m : measure_msg)
| MRdy (r : ready_msg)
| MOther (m : raw).

Definition T_CREATE : N := 0.
Definition T_MEASURE : N := 1.
Definition T_INSTALL : N := 2.
Definition T_UPDATE : N := 3.
Definition T_CHANGEPROG : N := 4.
Definition T_READY : N := 5.
Definition HDR_LENGTH : nat := 8.

(* ---------- decoding ---------- *)

(* read_exact of 8 bytes fails on a short buffer; the 16-bit type code must fit the
   8-bit type of RawMsg (otherwise an error, never a truncation). *)
Definition deserialize_header (buf : list N) : outcome (N * N * N) :=
  if Nat.ltb (length buf) 8 then Err
  else
    let typ := le16 buf 0 in
    let len := le16 buf 2 in
    let sid := le32 buf 4 in
    if 255 <? typ then Err else Ok (typ, len, sid).

Definition deserialize (buf : list N) : outcome raw :=
  do (typ, len, sid) <- deserialize_header buf;
  if len <? 8 then Err
  else if N.of_nat (length buf) <? len then Err
  else
    do bytes <- slice buf 8 (N.to_nat len);
    Ok (mkRaw typ len sid bytes).

(* number of bytes RawMsg::get_u32s needs for a predefined type *)
Definition u32s_width (typ : N) : nat :=
  if typ =? T_CREATE then 24
  else if typ =? T_MEASURE then 8
  else if typ =? T_UPDATE then 4
  else if typ =? T_READY then 4
  else 0.

Definition get_u32s (m : raw) : outcome (list N) :=
  get_range (r_bytes m) 0 (u32s_width (r_typ m)).

Definition get_bytes (m : raw) : outcome (list N) :=
  if (r_typ m =? T_CREATE) || (r_typ m =? T_MEASURE) || (r_typ m =? T_UPDATE) then
    if r_len m <? 8 then Panic  (* usize subtraction underflow; unreachable from from_buf *)
    else get_range (r_bytes m) (u32s_width (r_typ m)) (N.to_nat (r_len m) - HDR_LENGTH)
  else Ok (r_bytes m).

Fixpoint find_nul (b : list N) : option nat :=
  match b with
  | [] => None
  | x :: r => if x =? 0 then Some O else option_map S (find_nul r)
  end.

Definition decode_name (b : list N) : outcome (option (list N)) :=
  match b with
  | [] => Ok None
  | b0 :: _ =>
    if b0 =? 0 then Ok None
    else match find_nul b with
         | None => Ok None           (* CStr::from_bytes_with_nul fails: not NUL-terminated *)
         | Some e => if utf8_valid (firstn e b) then Ok (Some (firstn e b)) else Err
         end
  end.

Definition create_from_raw (m : raw) : outcome create_msg :=
  do u <- get_u32s m;
  do b <- get_bytes m;
  do alg <- decode_name b;
  Ok (mkCreate (r_sid m) (le32 u 0) (le32 u 4) (le32 u 8) (le32 u 12) (le32 u 16) (le32 u 20) alg).

(* measure::deserialize_fields: chunks(8), a short trailing chunk is an error *)
Fixpoint u64s_of (fuel : nat) (b : list N) : list N :=
  match fuel with
  | O => []
  | S f => match b with
           | [] => []
           | _ => dec_le (firstn 8 b) :: u64s_of f (skipn 8 b)
           end
  end.

Definition deserialize_fields (b : list N) : outcome (list N) :=
  if Nat.eqb (Nat.modulo (length b) 8) 0 then Ok (u64s_of (length b) b) else Err.

Definition measure_from_raw (m : raw) : outcome measure_msg :=
  do u <- get_u32s m;
  do b <- get_bytes m;
  do fs <- deserialize_fields b;
  Ok (mkMeasure (r_sid m) (le32 u 0) (le32 u 4 mod 256) fs).

Definition ready_from_raw (m : raw) : outcome ready_msg :=
  do u <- get_u32s m;
  Ok (mkReady (le32 u 0)).

(* Msg::from_raw_msg.  Install (2) and update-fields (3) are CCP->datapath messages:
   receiving one is an error, not a panic. *)
Definition from_raw_msg (m : raw) : outcome msg :=
  if r_typ m =? T_CREATE then do c <- create_from_raw m; Ok (MCr c)
  else if r_typ m =? T_MEASURE then do x <- measure_from_raw m; Ok (MMs x)
  else if r_typ m =? T_INSTALL then Err
  else if r_typ m =? T_READY then do r <- ready_from_raw m; Ok (MRdy r)
  else if r_typ m =? T_UPDATE then Err
  else Ok (MOther m).

Definition from_buf (buf : list N) : outcome (msg * nat) :=
  match deserialize buf with
  | Ok m => do x <- from_raw_msg m; Ok (x, N.to_nat (r_len m))
  | Err => do x <- from_raw_msg (mkRaw 255 0 0 buf); Ok (x, length buf)
  | Panic => Panic
  end.

(* Decode a whole buffer as the receive path does: message after message. *)
Fixpoint decode_all (fuel : nat) (buf : list N) : outcome (list msg) :=
  match fuel with
  | O => Ok []
  | S f =>
    match buf with
    | [] => Ok []
    | _ => do (m, n) <- from_buf buf;
           do rest <- decode_all f (skipn n buf);
           Ok (m :: rest)
    end
  end.

(* ---------- encoding ---------- *)

Definition ser_header (typ len sid : N) : list N :=
  enc_le 2 typ ++ enc_le 2 len ++ enc_le 4 sid.

(* serialize<T>: header, u32 block, byte block.  A length the 16-bit field cannot
   hold is an error. *)
Definition serialize_gen (typ len sid : N) (u32s : list N) (bytes : outcome (list N))
  : outcome (list N) :=
  if 65535 <? len then Err
  else do b <- bytes; Ok (ser_header typ len sid ++ u32s ++ b).

Definition create_name_bytes (alg : option (list N)) : outcome (list N) :=
  match alg with
  | None => Ok (repeat 0 64)
  | Some c => if Nat.ltb 63 (length c) then Err
              else Ok (c ++ repeat 0 (64 - length c))
  end.

Definition serialize_create (c : create_msg) : outcome (list N) :=
  serialize_gen T_CREATE 96 (c_sid c)
    (enc_le 4 (c_init_cwnd c) ++ enc_le 4 (c_mss c) ++ enc_le 4 (c_src_ip c) ++
     enc_le 4 (c_src_port c) ++ enc_le 4 (c_dst_ip c) ++ enc_le 4 (c_dst_port c))
    (create_name_bytes (c_alg c)).

Definition serialize_measure (m : measure_msg) : outcome (list N) :=
  serialize_gen T_MEASURE (16 + 8 * m_nf m) (m_sid m)
    (enc_le 4 (m_uid m) ++ enc_le 4 (m_nf m))
    (Ok (enc_le_list 8 (m_fields m))).

Definition serialize_ready (r : ready_msg) : outcome (list N) :=
  serialize_gen T_READY 12 0 (enc_le 4 (rd_id r)) (Ok []).

Definition serialize_msg (m : msg) : outcome (list N) :=
  match m with
  | MCr c => serialize_create c
  | MMs x => serialize_measure x
  | MRdy r => serialize_ready r
  | MOther _ => Err
  end.
