#ifndef CCP_PRIV_H
#define CCP_PRIV_H

#include "ccp.h"
#include "serialize.h"

#ifdef __KERNEL__
#include <linux/kernel.h>
#else
#include <stdio.h>
#endif

#ifdef __KERNEL__
#define FMT_U64 "%llu"
#define FMT_U32 "%lu"
#else
#if defined(__APPLE__)
#define FMT_U64 "%llu"
#else
#define FMT_U64 "%lu"
#endif
#define FMT_U32 "%u"
#endif

#ifdef __KERNEL__
    #define __INLINE__       inline
    #define __CALLOC__(num_elements, block_size) kcalloc(num_elements, block_size, GFP_KERNEL)
    #define __FREE__(ptr)    kfree(ptr)
    #define CAS(a,o,n)       cmpxchg(a,o,n) == o
#else
    #define __INLINE__
    #define __CALLOC__(num_elements, block_size) calloc(num_elements, block_size)
    #define __FREE__(ptr)    free(ptr)
    #define CAS(a,o,n)       __sync_bool_compare_and_swap(a,o,n)
#endif

#define log_fmt(level, fmt, args...) {\
    char msg[80]; \
    int __ok = snprintf((char*) &msg, 80, fmt, ## args); \
    if (__ok >= 0) { \
        datapath->log(datapath, level, (const char*) &msg, __ok); \
    } \
}

// __LOG_INFO__ is default
#define libccp_trace(fmt, args...)
#define libccp_debug(fmt, args...)
#define libccp_info(fmt, args...) log_fmt(INFO, fmt, ## args)
#define libccp_warn(fmt, args...) log_fmt(WARN, fmt, ## args)
#define libccp_error(fmt, args...) log_fmt(ERROR, fmt, ## args)

#ifdef __LOG_TRACE__
#undef libccp_trace
#define libccp_trace(fmt, args...) log_fmt(TRACE, fmt, ## args)
#undef libccp_debug
#define libccp_debug(fmt, args...) log_fmt(DEBUG, fmt, ## args)
#endif

#ifdef __LOG_DEBUG__
#undef libccp_debug
#define libccp_debug(fmt, args...) log_fmt(DEBUG, fmt, ## args)
#endif

#ifdef __LOG_WARN__
#undef libccp_info
#define libccp_info(fmt, args...)
#endif
#ifdef __LOG_ERROR__
#undef libccp_info
#define libccp_info(fmt, args...)
#undef libccp_warn
#define libccp_warn(fmt, args...)
#endif

#ifdef __cplusplus
extern "C" {
#endif

/* Triggers the state machine that goes through the expressions and evaluates conditions if true.
 * Should be called on each tick of the ACK clock; i.e. every packet.
 */
int state_machine(
    struct ccp_connection *conn
);

struct Register {
    u8 type;
    int index;
    u64 value;
};

struct Instruction64 {
    u8 op;
    struct Register rRet;
    struct Register rLeft;
    struct Register rRight;
};

/*  Expression contains reference to:
 *  instructions for condition
 *  instructions for body of expression
 */
struct Expression {
    u32 cond_start_idx;
    u32 num_cond_instrs;
    u32 event_start_idx;
    u32 num_event_instrs;
};

/*  Entire datapath program
 *  a set of expressions (conditions)
 *  a set of instructions
 */
struct DatapathProgram {
    u8 num_to_return;
    u16 index; // index in array
    u32 program_uid; // program uid assigned by CCP agent
    u32 num_expressions;
    u32 num_instructions;
    struct Expression expressions[MAX_EXPRESSIONS];
    struct Instruction64 fold_instructions[MAX_INSTRUCTIONS];
};

int read_expression(
    struct Expression *ret,
    struct ExpressionMsg *msg
);

int read_instruction(
    struct Instruction64 *ret,
    struct InstructionMsg *msg
);

struct register_file {
    // report and control registers - users send a DEF for these
    u64 report_registers[MAX_REPORT_REG]; // reported variables, reset to DEF value upon report
    u64 control_registers[MAX_CONTROL_REG]; // extra user defined variables, not reset on report

    // tmp, local and implicit registers
    u64 impl_registers[MAX_IMPLICIT_REG]; // stores special flags and variables
    u64 tmp_registers[MAX_TMP_REG]; // used for temporary calculation in instructions
    u64 local_registers[MAX_LOCAL_REG]; // for local variables within a program - created in a bind in a when clause
};

struct staged_update {
    bool control_is_pending[MAX_CONTROL_REG];
    u64 control_registers[MAX_CONTROL_REG];
    bool impl_is_pending[MAX_IMPLICIT_REG];
    u64 impl_registers[MAX_IMPLICIT_REG];
};

/* libccp Private State
 * struct ccp_connection has a void* state to store libccp's state
 * libccp internally casts this to a struct ccp_priv_state*.
 */
struct ccp_priv_state {
    bool sent_create;
    u64 implicit_time_zero; // can be reset

    u16 program_index; // index into program array
    int staged_program_index;

    struct register_file registers;
    struct staged_update pending_update;
};

/*
 * Resets a specific register's value in response to an update field message.
 * Needs pointer to ccp_connection in case message is for updating the cwnd or rate.
 */
int update_register(
    struct ccp_connection* conn,
    struct ccp_priv_state *state,
    struct UpdateField *update_field
);

/* Reset the output state registers to their default values
 * according to the DEF instruction preamble.
 */
void reset_state(struct ccp_datapath *datapath, struct ccp_priv_state *state);

/* Initializes the control registers to their default values
 * according to the DEF instruction preamble.
 */
void init_register_state(struct ccp_datapath *datapath, struct ccp_priv_state *state);

/* Reset the implicit time registers to count from datapath->now()
 */
void reset_time(struct ccp_datapath *datapath, struct ccp_priv_state *state);

/* Initialize send machine and measurement machine state in ccp_connection.
 * Called from ccp_connection_start()
 */
int init_ccp_priv_state(struct ccp_datapath *datapath, struct ccp_connection *conn);
/* Free the allocated flow memory.
 * Call when the flow has ended.
 */
void free_ccp_priv_state(struct ccp_connection *conn);

// send create message to CCP
int send_conn_create(
    struct ccp_datapath *datapath,
    struct ccp_connection *conn
);

// send measure message to CCP
int send_measurement(
    struct ccp_connection *conn,
    u32 program_uid,
    u64 *fields,
    u8 num_fields
);

/* Retrieve the private state from ccp_connection.
 */
__INLINE__ struct ccp_priv_state *get_ccp_priv_state(struct ccp_connection *conn);

/* Lookup a datapath program, available to all flows
 */
struct DatapathProgram* datapath_program_lookup(struct ccp_datapath *datapath, u16 pid);

/*
 * Reserved Implicit Registers
 */
#define EXPR_FLAG_REG             0
#define SHOULD_FALLTHROUGH_REG    1
#define SHOULD_REPORT_REG         2
#define US_ELAPSED_REG            3
#define CWND_REG                  4
#define RATE_REG                  5

/*
 * Primitive registers
 */
#define  ACK_BYTES_ACKED          0
#define  ACK_BYTES_MISORDERED     1
#define  ACK_ECN_BYTES            2
#define  ACK_ECN_PACKETS          3
#define  ACK_LOST_PKTS_SAMPLE     4
#define  ACK_NOW                  5
#define  ACK_PACKETS_ACKED        6
#define  ACK_PACKETS_MISORDERED   7
#define  FLOW_BYTES_IN_FLIGHT     8
#define  FLOW_BYTES_PENDING       9
#define  FLOW_PACKETS_IN_FLIGHT   10
#define  FLOW_RATE_INCOMING       11
#define  FLOW_RATE_OUTGOING       12
#define  FLOW_RTT_SAMPLE_US       13
#define  FLOW_WAS_TIMEOUT         14

/*
 * Operations
 */
#define    ADD        0
#define    BIND       1
#define    DEF        2
#define    DIV        3
#define    EQUIV      4
#define    EWMA       5
#define    GT         6
#define    IF         7
#define    LT         8
#define    MAX        9
#define    MAXWRAP    10
#define    MIN        11
#define    MUL        12
#define    NOTIF      13
#define    SUB        14
#define    MAX_OP     15

// types of registers
#define NONVOLATILE_CONTROL_REG 0
#define IMMEDIATE_REG           1
#define IMPLICIT_REG            2
#define LOCAL_REG               3
#define PRIMITIVE_REG           4
#define VOLATILE_REPORT_REG     5
#define NONVOLATILE_REPORT_REG  6
#define TMP_REG                 7
#define VOLATILE_CONTROL_REG    8

#ifdef __cplusplus
} // extern "C"
#endif

#endif
